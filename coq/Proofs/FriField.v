(* C15 — field-level lemmas about the FRI model: powers, polynomial evaluation, the N = 2 folding formula,
   uniqueness of interpolation, the Lagrange form, the inverse DFT of a row.  Any field with FLaws.
   stdlib style (ring / field). *)
From Coq Require Import List Arith Bool Lia ZArith Ring Field.
From VBase Require Import FieldOps.
From VModel Require Import Fri.
Import ListNotations.

Section Field.
Context {F : Type} (O : FOps F) (L : FLaws O).
Add Ring Fring : (FLaws_ring_theory O L).
Add Field Ffield : (FLaws_field_theory O L).

Local Notation zero := (fzero O).
Local Notation one := (fone O).
Local Infix "+f" := (fadd O) (at level 50, left associativity).
Local Infix "-f" := (fsub O) (at level 50, left associativity).
Local Infix "*f" := (fmul O) (at level 40, left associativity).
Local Notation "-f x" := (fneg O x) (at level 35, right associativity).
Local Notation peval := (peval O).
Local Notation fpow := (fpow O).

(* ---------------------------------------------------------------- basic field facts *)
Lemma fmul_integral a b : a *f b = zero -> a = zero \/ b = zero.
Proof.
  intros H. destruct (feqb O a zero) eqn:E.
  - left. now apply (fl_eqb_spec O L).
  - right. assert (Ha : a <> zero) by (intros ->; rewrite (proj2 (fl_eqb_spec O L _ _) eq_refl) in E; discriminate).
    transitivity (finv O a *f (a *f b)); [field; assumption | rewrite H; ring].
Qed.

Lemma fsub_zero a b : a -f b = zero -> a = b.
Proof. intros H. transitivity (a -f b +f b); [ring | rewrite H; ring]. Qed.

Lemma feq_dec (a b : F) : {a = b} + {a <> b}.
Proof.
  destruct (feqb O a b) eqn:E; [left; now apply (fl_eqb_spec O L) | right].
  intros ->. rewrite (proj2 (fl_eqb_spec O L _ _) eq_refl) in E. discriminate.
Qed.

(* ---------------------------------------------------------------- powers *)
Lemma fpow_add x a b : fpow x (a + b) = fpow x a *f fpow x b.
Proof. induction a; cbn [Fri.fpow Nat.add]; [ring | rewrite IHa; ring]. Qed.

Lemma fpow_mul_base a b n : fpow (a *f b) n = fpow a n *f fpow b n.
Proof. induction n; cbn [Fri.fpow]; [ring | rewrite IHn; ring]. Qed.

Lemma fpow_one n : fpow one n = one.
Proof. induction n; cbn [Fri.fpow]; [reflexivity | rewrite IHn; ring]. Qed.

Lemma fpow_mul x a b : fpow x (a * b) = fpow (fpow x a) b.
Proof.
  induction b; cbn [Fri.fpow].
  - now rewrite Nat.mul_0_r.
  - rewrite <- IHb, <- fpow_add. f_equal. lia.
Qed.

Lemma fpow_nonzero x n : x <> zero -> fpow x n <> zero.
Proof.
  intros Hx. induction n; cbn [Fri.fpow].
  - apply (fl_one_neq_zero O L).
  - intros H. apply fmul_integral in H. tauto.
Qed.

Lemma fpow_pos_spec x p : fpow_pos O x p = fpow x (Pos.to_nat p).
Proof.
  induction p; cbn [fpow_pos].
  - rewrite IHp, Pos2Nat.inj_xI. cbn [Fri.fpow]. f_equal.
    replace (2 * Pos.to_nat p) with (Pos.to_nat p + Pos.to_nat p) by lia. now rewrite fpow_add.
  - rewrite IHp, Pos2Nat.inj_xO.
    replace (2 * Pos.to_nat p) with (Pos.to_nat p + Pos.to_nat p) by lia. now rewrite fpow_add.
  - change (Pos.to_nat 1) with 1. cbn [Fri.fpow]. ring.
Qed.

(* exp_vartime (square-and-multiply) computes the power *)
Lemma fexp_spec x n : fexp O x n = fpow x n.
Proof.
  unfold fexp. destruct (N.of_nat n) eqn:E.
  - assert (n = 0) by lia. subst. reflexivity.
  - rewrite fpow_pos_spec. f_equal. lia.
Qed.

(* ---------------------------------------------------------------- evaluation *)
Lemma peval_app a b x : peval (a ++ b) x = peval a x +f fpow x (length a) *f peval b x.
Proof. induction a; cbn [Fri.peval app length Fri.fpow]; [ring | rewrite IHa; ring]. Qed.

Lemma peval_scale_series : forall v off inc x,
  peval (scale_series O v off inc) x = off *f peval v (inc *f x).
Proof.
  induction v as [|c t IH]; intros off inc x; cbn [scale_series Fri.peval]; [ring|].
  rewrite IH. ring.
Qed.

Lemma power_series_from_map : forall n s b,
  power_series_from O s b n = map (fun i => s *f fpow b i) (seq 0 n).
Proof.
  induction n as [|n IH]; intros s b; cbn [power_series_from seq map]; [reflexivity|].
  f_equal; [cbn; ring|]. rewrite IH, <- seq_shift, map_map. apply map_ext. intros i. cbn [Fri.fpow]. ring.
Qed.

Lemma idft_nth N winv row k : k < N -> nth k (idft O N winv row) zero = peval row (fpow winv k).
Proof.
  intros Hk. unfold idft. rewrite power_series_from_map, map_map.
  rewrite (nth_indep _ zero (peval row (one *f fpow winv 0))) by now rewrite map_length, seq_length.
  rewrite (map_nth (fun i => peval row (one *f fpow winv i)) (seq 0 N) 0 k), seq_nth by assumption.
  cbn [Nat.add]. f_equal. ring.
Qed.

Lemma idft_length N winv row : length (idft O N winv row) = N.
Proof. unfold idft. now rewrite map_length, power_series_from_map, map_length, seq_length. Qed.

(* the value of one folded row: (1/N) * P(alpha / x) where P = unnormalised inverse DFT of the row *)
Lemma drp_row_eq N winv len_offset inv_offset alpha row :
  drp_row O N winv len_offset inv_offset alpha row = len_offset *f peval (idft O N winv row) (inv_offset *f alpha).
Proof. unfold drp_row. apply peval_scale_series. Qed.

(* ---------------------------------------------------------------- folding factor 2, explicit formula *)
(* with the inverse twiddle root -1 (the 2nd root of unity):  (f(x) + f(-x))/2 + alpha * (f(x) - f(-x))/(2x) *)
Theorem drp_row_2 : forall a b x alpha, x <> zero -> one +f one <> zero ->
  drp_row O 2 (-f one) (finv O (fnat O 2)) (finv O x) alpha [a; b]
  = fdiv O (a +f b) (one +f one) +f alpha *f fdiv O (a -f b) ((one +f one) *f x).
Proof.
  intros a b x alpha Hx H2. rewrite drp_row_eq. unfold idft. cbn [power_series_from map Fri.peval fnat].
  field. split; [assumption|]. replace (one +f (one +f zero)) with (one +f one) by ring. assumption.
Qed.

(* f(x) = f0(x^2) + x f1(x^2)  ==>  the folded value is f0(x^2) + alpha f1(x^2) *)
Theorem drp_identity_2 : forall f0 f1 x alpha, x <> zero -> one +f one <> zero ->
  let fx := f0 +f x *f f1 in
  let fmx := f0 -f x *f f1 in
  drp_row O 2 (-f one) (finv O (fnat O 2)) (finv O x) alpha [fx; fmx] = f0 +f alpha *f f1.
Proof.
  intros f0 f1 x alpha Hx H2 fx fmx. rewrite drp_row_2 by assumption. unfold fx, fmx.
  field. split; assumption.
Qed.

(* ---------------------------------------------------------------- finite sums *)
Fixpoint fsum (f : nat -> F) (n : nat) : F :=
  match n with 0 => zero | S n' => fsum f n' +f f n' end.

Lemma fsum_ext f g n : (forall i, i < n -> f i = g i) -> fsum f n = fsum g n.
Proof. induction n; intros H; cbn; [reflexivity | rewrite IHn, H; auto]. Qed.

Lemma fsum_add f g n : fsum (fun i => f i +f g i) n = fsum f n +f fsum g n.
Proof. induction n; cbn; [ring | rewrite IHn; ring]. Qed.

Lemma fsum_scale c f n : fsum (fun i => c *f f i) n = c *f fsum f n.
Proof. induction n; cbn; [ring | rewrite IHn; ring]. Qed.

Lemma fsum_zero n : fsum (fun _ => zero) n = zero.
Proof. induction n; cbn; [reflexivity | rewrite IHn; ring]. Qed.

Lemma fsum_swap (f : nat -> nat -> F) n m :
  fsum (fun i => fsum (fun j => f i j) m) n = fsum (fun j => fsum (fun i => f i j) n) m.
Proof.
  induction n; cbn.
  - now rewrite fsum_zero.
  - rewrite IHn, <- fsum_add. reflexivity.
Qed.

Lemma fsum_delta (c : F) k n : k < n -> fsum (fun i => if i =? k then c else zero) n = c.
Proof.
  induction n; intros H; [lia|]. cbn. destruct (Nat.eq_dec k n) as [->|Hne].
  - rewrite Nat.eqb_refl. rewrite (fsum_ext _ (fun _ => zero)).
    + rewrite fsum_zero. ring.
    + intros i Hi. destruct (i =? n) eqn:E; [apply Nat.eqb_eq in E; lia | reflexivity].
  - rewrite IHn by lia. destruct (n =? k) eqn:E; [apply Nat.eqb_eq in E; lia | ring].
Qed.

Lemma peval_fsum : forall l x, peval l x = fsum (fun i => nth i l zero *f fpow x i) (length l).
Proof.
  intros l x. induction l as [|c t IH] using rev_ind; [reflexivity|].
  rewrite peval_app, app_length, Nat.add_comm. cbn [length Nat.add fsum Fri.peval].
  rewrite nth_middle. rewrite IH.
  rewrite (fsum_ext (fun i => nth i (t ++ [c]) zero *f fpow x i) (fun i => nth i t zero *f fpow x i)); [ring|].
  intros i Hi. now rewrite app_nth1.
Qed.

(* geometric sums *)
Lemma geom_sum z n : (z -f one) *f fsum (fpow z) n = fpow z n -f one.
Proof. induction n; cbn [fsum Fri.fpow]; [ring|]. transitivity ((z -f one) *f fsum (fpow z) n +f (z -f one) *f fpow z n); [ring | rewrite IHn; ring]. Qed.

Lemma geom_sum_zero z n : fpow z n = one -> z <> one -> fsum (fpow z) n = zero.
Proof.
  intros Hn Hz. pose proof (geom_sum z n) as G. rewrite Hn in G.
  replace (one -f one) with zero in G by ring. apply fmul_integral in G. destruct G as [G|G]; [|assumption].
  apply fsub_zero in G. contradiction.
Qed.

Lemma geom_sum_one n : fsum (fpow one) n = fnat O n.
Proof. induction n; cbn [fsum fnat]; [reflexivity | rewrite IHn, fpow_one; ring]. Qed.

(* ---------------------------------------------------------------- roots of unity *)
Section Roots.
Variable N : nat.
Variable w winv : F.
Hypothesis w_pow : fpow w N = one.
Hypothesis w_prim : forall d, 0 < d < N -> fpow w d <> one.
Hypothesis w_inv : w *f winv = one.

Lemma winv_pow : fpow winv N = one.
Proof.
  transitivity (fpow winv N *f fpow w N); [rewrite w_pow; ring|].
  rewrite <- fpow_mul_base. replace (winv *f w) with one by (rewrite <- w_inv; ring). apply fpow_one.
Qed.

Lemma w_winv_pow k : fpow w k *f fpow winv k = one.
Proof. rewrite <- fpow_mul_base, w_inv. apply fpow_one. Qed.

(* z = w^m * winv^j is an N-th root of unity, equal to 1 iff m = j (for m, j < N) *)
Lemma orth_root_pow m j : fpow (fpow w m *f fpow winv j) N = one.
Proof.
  rewrite fpow_mul_base, <- !fpow_mul, (Nat.mul_comm m), (Nat.mul_comm j), !fpow_mul, w_pow, winv_pow, !fpow_one. ring.
Qed.

Lemma orth_root_neq m j : m < N -> j < N -> m <> j -> fpow w m *f fpow winv j <> one.
Proof.
  intros Hm Hj Hne H.
  destruct (le_lt_dec j m) as [Hle|Hlt].
  - apply (w_prim (m - j)); [lia|].
    transitivity (fpow w (m - j) *f (fpow w j *f fpow winv j)); [rewrite w_winv_pow; ring|].
    replace (fpow w (m - j) *f (fpow w j *f fpow winv j)) with (fpow w (m - j + j) *f fpow winv j) by (rewrite fpow_add; ring).
    replace (m - j + j) with m by lia. exact H.
  - (* j > m: w^(N - (j - m)) = 1 *)
    apply (w_prim (N - (j - m))); [lia|].
    assert (E : fpow w (N - (j - m)) *f fpow w (j - m) = one) by (rewrite <- fpow_add; replace (N - (j - m) + (j - m)) with N by lia; exact w_pow).
    assert (E2 : fpow w (j - m) *f (fpow w m *f fpow winv j) = one).
    { transitivity (fpow w (j - m + m) *f fpow winv j); [rewrite fpow_add; ring|].
      replace (j - m + m) with j by lia. apply w_winv_pow. }
    rewrite H in E2. replace (fpow w (j - m) *f one) with (fpow w (j - m)) in E2 by ring.
    rewrite E2 in E. rewrite <- E. ring.
Qed.

Lemma orthogonality m j : m < N -> j < N ->
  fsum (fun k => fpow (fpow w m *f fpow winv j) k) N = if m =? j then fnat O N else zero.
Proof.
  intros Hm Hj. destruct (m =? j) eqn:E.
  - apply Nat.eqb_eq in E. subst j. rewrite w_winv_pow. apply geom_sum_one.
  - apply Nat.eqb_neq in E. apply geom_sum_zero; [apply orth_root_pow | now apply orth_root_neq].
Qed.

(* the coefficient list the prover builds for a row: scale_series (idft ..) (1/N) (1/x);
   evaluated at the row's own points x * w^m it gives back the row (inverse DFT is an interpolation) *)
Theorem row_poly_interpolates : forall x row m, x <> zero -> fnat O N <> zero -> length row = N -> m < N ->
  peval (scale_series O (idft O N winv row) (finv O (fnat O N)) (finv O x)) (x *f fpow w m) = nth m row zero.
Proof.
  intros x row m Hx HN Hlen Hm. rewrite peval_scale_series.
  replace (finv O x *f (x *f fpow w m)) with (fpow w m) by (field; assumption).
  rewrite peval_fsum, idft_length.
  rewrite (fsum_ext (fun k => nth k (idft O N winv row) zero *f fpow (fpow w m) k)
                    (fun k => fsum (fun j => nth j row zero *f fpow (fpow w m *f fpow winv j) k) N)).
  2:{ intros k Hk. rewrite idft_nth by assumption. rewrite peval_fsum, Hlen.
      rewrite (fl_mul_comm O L), <- fsum_scale.
      apply fsum_ext. intros j Hj. rewrite fpow_mul_base, <- (fpow_mul winv k j), <- (fpow_mul winv j k).
      rewrite (Nat.mul_comm k j). ring. }
  rewrite (fsum_swap (fun k j => nth j row zero *f fpow (fpow w m *f fpow winv j) k) N N).
  rewrite (fsum_ext (fun j => fsum (fun k => nth j row zero *f fpow (fpow w m *f fpow winv j) k) N)
                    (fun j => if j =? m then nth m row zero *f fnat O N else zero)).
  2:{ intros j Hj. rewrite fsum_scale, orthogonality by assumption.
      rewrite Nat.eqb_sym. destruct (j =? m) eqn:E; [apply Nat.eqb_eq in E; subst; reflexivity | ring]. }
  rewrite fsum_delta by assumption. field. assumption.
Qed.

End Roots.

End Field.
