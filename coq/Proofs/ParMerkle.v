(* C14 — crypto/src/merkle/concurrent.rs build_merkle_nodes: every schedule of the three phases (leaf row in
   parallel, one spawned task per subtree, the tip on the calling thread) produces the vector of the serial
   crypto/src/merkle/mod.rs build_merkle_nodes, for every content of the un-initialised vector.  stdlib style. *)
From Coq Require Import List Arith Bool Lia PeanoNat Permutation.
From VModel Require Import FFT Par.
From VProofs Require Import ParCommute.
Import ListNotations.

(* ---------------------------------------------------------------- arithmetic / list helpers *)
Lemma pm_pow2_pos a : 1 <= 2 ^ a.
Proof. pose proof (Nat.pow_nonzero 2 a). lia. Qed.

Lemma pm_double_div2 x : 2 * x / 2 = x.
Proof. rewrite Nat.mul_comm. apply Nat.div_mul. lia. Qed.

Lemma pm_nth_map_seq {A} (g : nat -> A) N a d : a < N -> nth a (map g (seq 0 N)) d = g a.
Proof.
  intros H. rewrite (nth_indep _ d (g 0)) by (rewrite map_length, seq_length; exact H).
  rewrite map_nth. rewrite seq_nth by exact H. reflexivity.
Qed.

Lemma pm_in_nth_map_seq {A} (g : nat -> list A) N a x : In x (nth a (map g (seq 0 N)) []) -> a < N /\ In x (g a).
Proof.
  intros H. destruct (Nat.lt_ge_cases a N) as [Hlt|Hge].
  - rewrite pm_nth_map_seq in H by exact Hlt. auto.
  - rewrite nth_overflow in H by (rewrite map_length, seq_length; exact Hge). destruct H.
Qed.

Lemma pm_in_desc_range s l c : In c (desc_range s l) <-> s <= c < s + l.
Proof. unfold desc_range. rewrite <- in_rev, in_seq. reflexivity. Qed.

Lemma pm_desc_range_S s l : desc_range s (S l) = (s + l) :: desc_range s l.
Proof. unfold desc_range. rewrite seq_S, rev_app_distr. reflexivity. Qed.

Lemma pm_NoDup_desc_range s l : NoDup (desc_range s l).
Proof. unfold desc_range. apply NoDup_rev, seq_NoDup. Qed.

Lemma pm_NoDup_app {A} (l1 l2 : list A) :
  NoDup l1 -> NoDup l2 -> (forall x, In x l1 -> ~ In x l2) -> NoDup (l1 ++ l2).
Proof.
  induction 1 as [|x l1 Hx _ IH]; intros H2 Hd; [exact H2|].
  cbn [app]. constructor.
  - rewrite in_app_iff. intros [H|H]; [exact (Hx H)|]. exact (Hd x (or_introl eq_refl) H).
  - apply IH; [exact H2|]. intros y Hy. apply Hd. right. exact Hy.
Qed.

Lemma pm_NoDup_concat_map {A} (f : A -> list nat) (l : list A) :
  NoDup l -> (forall x, In x l -> NoDup (f x)) ->
  (forall x y c, In x l -> In y l -> In c (f x) -> In c (f y) -> x = y) ->
  NoDup (concat (map f l)).
Proof.
  induction 1 as [|x l Hx Hnd IH]; intros Hf Hd; [constructor|].
  cbn [map concat]. apply pm_NoDup_app.
  - apply Hf. left. reflexivity.
  - apply IH.
    + intros y Hy. apply Hf. right. exact Hy.
    + intros y z c Hy Hz. apply Hd; right; assumption.
  - intros c Hc Hc'. apply in_concat in Hc'. destruct Hc' as (l' & Hl' & Hcl').
    apply in_map_iff in Hl'. destruct Hl' as (y & <- & Hy).
    assert (x = y) by (apply (Hd x y c); [left; reflexivity|right; exact Hy|exact Hc|exact Hcl']).
    subst y. exact (Hx Hy).
Qed.

Lemma pm_sequence_opt_some {A B} (g : A -> B) (l : list A) :
  sequence_opt (map (fun i => Some (g i)) l) = Some (map g l).
Proof. induction l as [|a l IH]; [reflexivity|]. cbn [map sequence_opt]. rewrite IH. reflexivity. Qed.

Lemma pm_concat_singletons {A B} (g : A -> B) (l : list A) : concat (map (fun i => [g i]) l) = map g l.
Proof. induction l as [|a l IH]; [reflexivity|]. cbn [map concat app]. rewrite IH. reflexivity. Qed.

Section MerkleSpec.
Context {D : Type} (d0 : D) (merge : D -> D -> D).
Notation node_task := (node_task d0 merge).
Notation leaf_task := (leaf_task d0 merge).
Notation task_ok := (task_ok d0).

(* ================================================================ A. atomic steps are well-formed *)
Lemma node_task_ok k : task_ok (node_task k).
Proof.
  unfold Par.node_task. apply cell_task_ok. intros s s' _ H.
  rewrite (H (2 * k)), (H (2 * k + 1)); [reflexivity|right; left; reflexivity|left; reflexivity].
Qed.

Lemma leaf_task_ok leaves n i : task_ok (leaf_task leaves n i).
Proof. unfold Par.leaf_task. apply cell_task_ok. intros; reflexivity. Qed.

Lemma pm_node_run k s : t_run (node_task k) s = lupd s k (merge (nth (2 * k) s d0) (nth (2 * k + 1) s d0)).
Proof. reflexivity. Qed.

Lemma pm_leaf_run leaves n i s :
  t_run (leaf_task leaves n i) s = lupd s (n + i) (merge (nth (2 * i) leaves d0) (nth (2 * i + 1) leaves d0)).
Proof. reflexivity. Qed.

Lemma pm_writes_nodes ks : flat_map t_writes (map node_task ks) = ks.
Proof. induction ks as [|x ks IH]; [reflexivity|]. cbn [map flat_map]. rewrite IH. reflexivity. Qed.

Lemma pm_writes_leaves leaves n l : flat_map t_writes (map (leaf_task leaves n) l) = map (fun i => n + i) l.
Proof. induction l as [|x l IH]; [reflexivity|]. cbn [map flat_map]. rewrite IH. reflexivity. Qed.

Lemma pm_nodes_ok ks : Forall task_ok (map node_task ks).
Proof. apply Forall_forall. intros t Ht. apply in_map_iff in Ht. destruct Ht as (x & <- & _). apply node_task_ok. Qed.

(* ================================================================ read-closure of a step list *)
(* every step reads only cells of [lo, hi) or cells written by an EARLIER step of the list *)
Definition reads_closed (lo hi : nat) (steps : list (task D)) : Prop :=
  forall pre x post, steps = pre ++ x :: post ->
  forall c, In c (t_reads x) -> (lo <= c < hi) \/ In c (flat_map t_writes pre).

(* recursive form, relative to a set W of already written cells *)
Fixpoint rc (lo hi : nat) (W : list nat) (steps : list (task D)) : Prop :=
  match steps with
  | [] => True
  | x :: t => (forall c, In c (t_reads x) -> lo <= c < hi \/ In c W) /\ rc lo hi (W ++ t_writes x) t
  end.

Lemma rc_mono lo hi steps : forall W W', (forall c, In c W -> In c W') -> rc lo hi W steps -> rc lo hi W' steps.
Proof.
  induction steps as [|x t IH]; intros W W' Hs H; [exact I|]. destruct H as [H1 H2]. split.
  - intros c Hc. destruct (H1 c Hc); auto.
  - apply (IH (W ++ t_writes x)); [|exact H2]. intros c. rewrite !in_app_iff. intros [H|H]; auto.
Qed.

Lemma rc_app lo hi A B : forall W, rc lo hi W A -> rc lo hi (W ++ flat_map t_writes A) B -> rc lo hi W (A ++ B).
Proof.
  induction A as [|x A IH]; intros W HA HB.
  - cbn [flat_map] in HB. rewrite app_nil_r in HB. exact HB.
  - destruct HA as [H1 H2]. cbn [app]. split; [exact H1|]. apply IH; [exact H2|].
    cbn [flat_map] in HB. rewrite app_assoc in HB. exact HB.
Qed.

Lemma rc_flat lo hi steps W :
  (forall x, In x steps -> forall c, In c (t_reads x) -> lo <= c < hi \/ In c W) -> rc lo hi W steps.
Proof.
  revert W. induction steps as [|x t IH]; intros W H; [exact I|]. split.
  - apply H. left. reflexivity.
  - apply IH. intros y Hy c Hc. destruct (H y (or_intror Hy) c Hc); auto. right. apply in_app_iff. auto.
Qed.

Lemma rc_concat lo hi tss : forall W, Forall (rc lo hi []) tss -> rc lo hi W (concat tss).
Proof.
  induction tss as [|l tss IH]; intros W H; [exact I|]. inversion H; subst. cbn [concat]. apply rc_app.
  - eapply rc_mono; [|eassumption]. intros c [].
  - apply IH. assumption.
Qed.

Lemma rc_closed_gen lo hi steps : forall W, rc lo hi W steps ->
  forall pre x post, steps = pre ++ x :: post ->
  forall c, In c (t_reads x) -> lo <= c < hi \/ In c W \/ In c (flat_map t_writes pre).
Proof.
  induction steps as [|y t IH]; intros W H pre x post E c Hc.
  - destruct pre; discriminate.
  - destruct H as [H1 H2]. destruct pre as [|y' pre].
    + cbn [app] in E. injection E as -> ->. destruct (H1 c Hc); auto.
    + cbn [app] in E. injection E as <- ->.
      destruct (IH _ H2 pre x post eq_refl c Hc) as [H|[H|H]]; auto.
      * apply in_app_iff in H. destruct H; auto. right. right. cbn [flat_map]. apply in_app_iff. auto.
      * right. right. cbn [flat_map]. apply in_app_iff. auto.
Qed.

Lemma rc_reads_closed lo hi steps : rc lo hi [] steps -> reads_closed lo hi steps.
Proof.
  intros H pre x post E c Hc. destruct (rc_closed_gen lo hi steps [] H pre x post E c Hc) as [?|[[]|?]]; auto.
Qed.

(* ================================================================ B. the serial code *)
Lemma exec_leaf_phase leaves n : forall j s, j <= n -> length s = 2 * n ->
  length (exec (map (leaf_task leaves n) (seq 0 j)) s) = 2 * n /\
  (forall c, c < n \/ n + j <= c -> nth c (exec (map (leaf_task leaves n) (seq 0 j)) s) d0 = nth c s d0) /\
  (forall i, i < j -> nth (n + i) (exec (map (leaf_task leaves n) (seq 0 j)) s) d0
                      = merge (nth (2 * i) leaves d0) (nth (2 * i + 1) leaves d0)).
Proof.
  induction j as [|j IH]; intros s Hj Hl.
  - cbn [seq map]. repeat split; auto. intros i Hi. lia.
  - destruct (IH s ltac:(lia) Hl) as (L & U & V).
    rewrite seq_S, map_app, exec_app. cbn [map plus]. rewrite exec_cons. cbn [exec fold_left].
    rewrite pm_leaf_run. split; [|split].
    + rewrite par_length_lupd. exact L.
    + intros c Hc. rewrite par_nth_lupd_other by lia. apply U. lia.
    + intros i Hi. destruct (Nat.eq_dec i j) as [->|Hne].
      * apply par_nth_lupd_same. lia.
      * rewrite par_nth_lupd_other by lia. apply V. lia.
Qed.

Lemma exec_tip_phase : forall b s len, 2 * b + 2 <= len -> length s = len ->
  length (exec (map node_task (desc_range 1 b)) s) = len /\
  (forall c, c = 0 \/ b < c -> nth c (exec (map node_task (desc_range 1 b)) s) d0 = nth c s d0) /\
  (forall c, 1 <= c <= b ->
     nth c (exec (map node_task (desc_range 1 b)) s) d0
     = merge (nth (2 * c) (exec (map node_task (desc_range 1 b)) s) d0)
             (nth (2 * c + 1) (exec (map node_task (desc_range 1 b)) s) d0)).
Proof.
  induction b as [|b IH]; intros s len Hb Hl.
  - cbn. repeat split; auto. intros c Hc. lia.
  - rewrite pm_desc_range_S. cbn [map]. rewrite exec_cons, pm_node_run.
    set (s1 := lupd s (1 + b) _).
    assert (L1 : length s1 = len) by (unfold s1; rewrite par_length_lupd; exact Hl).
    destruct (IH s1 len ltac:(lia) L1) as (L & U & V). split; [exact L|split].
    + intros c Hc. rewrite U by lia. unfold s1. apply par_nth_lupd_other. lia.
    + intros c Hc. destruct (Nat.eq_dec c (1 + b)) as [->|Hne]; [|apply V; lia].
      rewrite !U by lia. unfold s1. rewrite par_nth_lupd_same by lia.
      rewrite !par_nth_lupd_other by lia. reflexivity.
Qed.

(* the defining equations of the node vector *)
Definition merkle_eqs (n : nat) (leaves F : list D) : Prop :=
  length F = 2 * n /\ nth 0 F d0 = d0 /\
  (forall i, i < n -> nth (n + i) F d0 = merge (nth (2 * i) leaves d0) (nth (2 * i + 1) leaves d0)) /\
  (forall c, 1 <= c < n -> nth c F d0 = merge (nth (2 * c) F d0) (nth (2 * c + 1) F d0)).

Lemma merkle_serial_eqs_gen n leaves junk : 1 <= n -> length leaves = 2 * n -> length junk = 2 * n ->
  merkle_eqs n leaves (merkle_serial d0 merge leaves junk).
Proof.
  intros Hn Hl Hj. unfold merkle_serial, merkle_serial_steps, merkle_init.
  rewrite Hl, pm_double_div2, exec_app.
  set (s0 := lupd junk 0 d0).
  assert (L0 : length s0 = 2 * n) by (unfold s0; rewrite par_length_lupd; exact Hj).
  destruct (exec_leaf_phase leaves n n s0 (le_n _) L0) as (L1 & U1 & V1).
  set (s1 := exec (map (leaf_task leaves n) (seq 0 n)) s0) in *.
  destruct (exec_tip_phase (n - 1) s1 (2 * n) ltac:(lia) L1) as (L & U & V).
  unfold merkle_eqs. split; [exact L|split; [|split]].
  - rewrite U by lia. rewrite U1 by lia. unfold s0. apply par_nth_lupd_same. lia.
  - intros i Hi. rewrite U by lia. apply V1. exact Hi.
  - intros c Hc. apply V. lia.
Qed.

Theorem merkle_serial_eqs k leaves junk : let n := 2 ^ k in
  length leaves = 2 * n -> length junk = 2 * n ->
  let F := merkle_serial d0 merge leaves junk in
  length F = 2 * n /\ nth 0 F d0 = d0 /\
  (forall i, i < n -> nth (n + i) F d0 = merge (nth (2 * i) leaves d0) (nth (2 * i + 1) leaves d0)) /\
  (forall c, 1 <= c < n -> nth c F d0 = merge (nth (2 * c) F d0) (nth (2 * c + 1) F d0)).
Proof. intros n Hl Hj F. apply merkle_serial_eqs_gen; [apply pm_pow2_pos|exact Hl|exact Hj]. Qed.

Lemma merkle_eqs_unique n leaves F G : merkle_eqs n leaves F -> merkle_eqs n leaves G -> F = G.
Proof.
  intros (LF & ZF & EF & NF) (LG & ZG & EG & NG).
  assert (H : forall d c, 2 * n <= c + d -> nth c F d0 = nth c G d0).
  { induction d as [|d IH]; intros c Hc.
    - rewrite !nth_overflow by lia. reflexivity.
    - destruct (Nat.eq_dec c 0) as [->|Hc0]; [congruence|].
      destruct (Nat.lt_ge_cases c n) as [Hlt|Hge].
      + rewrite NF, NG by lia. rewrite !IH by lia. reflexivity.
      + destruct (Nat.lt_ge_cases c (2 * n)) as [Hlt2|Hge2]; [|rewrite !nth_overflow by lia; reflexivity].
        replace c with (n + (c - n)) by lia. rewrite EF, EG by lia. reflexivity. }
  apply nth_ext with (d := d0) (d' := d0); [congruence|]. intros c _. apply (H (2 * n)). lia.
Qed.

Corollary merkle_serial_junk_independent k leaves junk junk' : let n := 2 ^ k in
  length leaves = 2 * n -> length junk = 2 * n -> length junk' = 2 * n ->
  merkle_serial d0 merge leaves junk = merkle_serial d0 merge leaves junk'.
Proof.
  intros n Hl Hj Hj'. apply (merkle_eqs_unique n leaves); apply merkle_serial_eqs_gen; auto; apply pm_pow2_pos.
Qed.

(* ================================================================ C. the plan *)
(* node indices of the subtree rooted at q, [a] levels, bottom-up: level a' is [2^a' * q, 2^a' * (q + 1)) *)
Fixpoint sub_ks (a q : nat) : list nat :=
  match a with
  | 0 => []
  | S a' => desc_range (2 ^ a' * q) (2 ^ a') ++ sub_ks a' q
  end.

Lemma in_sub_ks a q c : In c (sub_ks a q) <-> exists a', a' < a /\ 2 ^ a' * q <= c < 2 ^ a' * (q + 1).
Proof.
  induction a as [|a IH]; cbn [sub_ks].
  - split; [intros []|intros (a' & H & _); lia].
  - rewrite in_app_iff, pm_in_desc_range, IH. split.
    + intros [H|(a' & H1 & H2)]; [exists a; split; [lia|lia]|exists a'; split; [lia|exact H2]].
    + intros (a' & H1 & H2). destruct (Nat.eq_dec a' a) as [->|Hne]; [left; lia|right; exists a'; split; [lia|exact H2]].
Qed.

Lemma subtree_steps_lt fuel ns start bs : start < ns -> subtree_steps d0 merge fuel ns start bs = Some [].
Proof. intros H. apply Nat.ltb_lt in H. destruct fuel; cbn [subtree_steps]; rewrite H; reflexivity. Qed.

Lemma subtree_steps_S f ns start bs : ns <= start ->
  subtree_steps d0 merge (S f) ns start bs =
  match subtree_steps d0 merge f ns (start / 2) (bs / 2) with
  | None => None
  | Some r => Some (map node_task (desc_range start bs) ++ r)
  end.
Proof. intros H. apply Nat.ltb_ge in H. cbn [subtree_steps]. rewrite H. reflexivity. Qed.

Lemma subtree_steps_levels ns q : 1 <= ns -> ns <= q < 2 * ns ->
  forall a fuel, 2 ^ a * q < fuel ->
  subtree_steps d0 merge fuel ns (2 ^ a * q) (2 ^ a) = Some (map node_task (sub_ks (S a) q)).
Proof.
  intros Hns Hq. induction a as [|a IH]; intros fuel Hf.
  - rewrite Nat.pow_0_r, Nat.mul_1_l in *. destruct fuel as [|f]; [lia|].
    rewrite subtree_steps_S by lia. rewrite subtree_steps_lt by (apply Nat.div_lt_upper_bound; lia).
    cbn [sub_ks]. rewrite Nat.pow_0_r, Nat.mul_1_l, !app_nil_r. reflexivity.
  - pose proof (pm_pow2_pos a) as Hp. rewrite Nat.pow_succ_r' in *.
    destruct fuel as [|f]; [lia|].
    rewrite subtree_steps_S by nia.
    rewrite <- Nat.mul_assoc, !pm_double_div2.
    rewrite IH by nia.
    cbn [sub_ks]. rewrite !map_app. rewrite Nat.pow_succ_r', <- Nat.mul_assoc. reflexivity.
Qed.

(* the plan in closed form: n = 2^(m+a) leaf parents, 2^m subtrees of [a] levels each *)
Definition plan_form (leaves : list D) (m a : nat) : merkle_plan :=
  {| mp_leaf := map (fun i => [leaf_task leaves (2 ^ (m + a)) i]) (seq 0 (2 ^ (m + a)));
     mp_sub := map (fun i => map node_task (sub_ks a (2 ^ m + i))) (seq 0 (2 ^ m));
     mp_top := map node_task (desc_range 1 (2 ^ m - 1)) |}.

Lemma merkle_plan_form m a T leaves : Nat.log2_up T = m -> length leaves = 2 * 2 ^ (m + a) ->
  merkle_par_plan d0 merge leaves T = Done (plan_form leaves m a).
Proof.
  intros Hm Hl. unfold merkle_par_plan, npo2. rewrite Hm, Hl, pm_double_div2.
  pose proof (pm_pow2_pos m) as Pm. pose proof (pm_pow2_pos a) as Pa. pose proof (pm_pow2_pos (m + a)) as Pn.
  assert (En : 2 ^ (m + a) = 2 ^ m * 2 ^ a) by apply Nat.pow_add_r.
  destruct (Nat.eqb_spec (2 ^ (m + a)) 0) as [E0|_]; [lia|].
  assert (Eb : 2 ^ (m + a) / 2 ^ m = 2 ^ a).
  { rewrite En, Nat.mul_comm. apply Nat.div_mul. lia. }
  rewrite Eb.
  rewrite (map_ext_in _ (fun i => Some (map node_task (sub_ks a (2 ^ m + i))))).
  - rewrite pm_sequence_opt_some.
    destruct (Nat.ltb_spec (2 ^ (m + a)) (2 ^ m)) as [Hlt|_]; [nia|]. reflexivity.
  - intros i Hi. apply in_seq in Hi. destruct a as [|a'].
    + rewrite (Nat.pow_0_r 2). replace (1 / 2) with 0 by reflexivity.
      apply subtree_steps_lt. rewrite Nat.mul_0_l, !Nat.add_0_r.
      apply Nat.div_lt_upper_bound; lia.
    + assert (Es : 2 ^ (m + S a') / 2 + 2 ^ S a' / 2 * i = 2 ^ a' * (2 ^ m + i)).
      { rewrite Nat.add_succ_r, !Nat.pow_succ_r', !pm_double_div2, Nat.pow_add_r. lia. }
      rewrite Es. rewrite Nat.pow_succ_r', pm_double_div2.
      apply subtree_steps_levels; lia.
Qed.

Lemma pm_npo2_le T k : npo2 T <= 2 ^ k -> Nat.log2_up T + (k - Nat.log2_up T) = k.
Proof. unfold npo2. intros H. apply Nat.pow_le_mono_r_iff in H; lia. Qed.

Theorem merkle_plan_exists k T leaves : let n := 2 ^ k in
  length leaves = 2 * n -> npo2 T <= n ->
  exists p, merkle_par_plan d0 merge leaves T = Done p /\ length (mp_leaf p) = n /\ length (mp_sub p) = npo2 T.
Proof.
  intros n Hl Hns. pose proof (pm_npo2_le T k Hns) as Ek.
  exists (plan_form leaves (Nat.log2_up T) (k - Nat.log2_up T)). split; [|split].
  - apply merkle_plan_form; [reflexivity|]. rewrite Ek. exact Hl.
  - cbn [plan_form mp_leaf]. rewrite map_length, seq_length, Ek. reflexivity.
  - cbn [plan_form mp_sub]. rewrite map_length, seq_length. reflexivity.
Qed.

Theorem merkle_plan_panics k T leaves : let n := 2 ^ k in
  length leaves = 2 * n -> n < npo2 T -> merkle_par_plan d0 merge leaves T = Panic.
Proof.
  intros n Hl Hns. unfold merkle_par_plan. rewrite Hl, pm_double_div2.
  destruct (n =? 0); [reflexivity|].
  destruct (sequence_opt _); [|reflexivity].
  apply Nat.ltb_lt in Hns. fold n. rewrite Hns. reflexivity.
Qed.

(* ================================================================ D. footprints *)
(* c is in the (infinite) heap subtree rooted at q *)
Definition lvl (q c : nat) : Prop := exists a', 2 ^ a' * q <= c < 2 ^ a' * (q + 1).

Lemma lvl_child q c : lvl q c -> lvl q (2 * c) /\ lvl q (2 * c + 1).
Proof. intros (a' & H). split; exists (S a'); rewrite Nat.pow_succ_r'; lia. Qed.

Lemma in_sub_lvl a q c : In c (sub_ks a q) -> lvl q c.
Proof. intros H. apply in_sub_ks in H. destruct H as (a' & _ & H). exists a'. exact H. Qed.

Lemma lvl_unique ns q1 q2 c : 1 <= ns -> ns <= q1 < 2 * ns -> ns <= q2 < 2 * ns -> lvl q1 c -> lvl q2 c -> q1 = q2.
Proof.
  intros Hns H1 H2 (a1 & L1) (a2 & L2).
  pose proof (pm_pow2_pos a1) as P1. pose proof (pm_pow2_pos a2) as P2.
  destruct (Nat.lt_trichotomy a1 a2) as [H|[H|H]].
  - exfalso. assert (E : 2 * 2 ^ a1 <= 2 ^ a2) by (rewrite <- Nat.pow_succ_r'; apply Nat.pow_le_mono_r; lia).
    assert (2 ^ a1 * (q1 + 1) <= 2 ^ a1 * (2 * ns)) by (apply Nat.mul_le_mono_l; lia).
    assert (2 * 2 ^ a1 * ns <= 2 ^ a2 * ns) by (apply Nat.mul_le_mono_r; lia).
    assert (2 ^ a2 * ns <= 2 ^ a2 * q2) by (apply Nat.mul_le_mono_l; lia).
    lia.
  - subst a2. destruct (Nat.lt_trichotomy q1 q2) as [Hq|[Hq|Hq]]; [exfalso|exact Hq|exfalso].
    + assert (2 ^ a1 * (q1 + 1) <= 2 ^ a1 * q2) by (apply Nat.mul_le_mono_l; lia). lia.
    + assert (2 ^ a1 * (q2 + 1) <= 2 ^ a1 * q1) by (apply Nat.mul_le_mono_l; lia). lia.
  - exfalso. assert (E : 2 * 2 ^ a2 <= 2 ^ a1) by (rewrite <- Nat.pow_succ_r'; apply Nat.pow_le_mono_r; lia).
    assert (2 ^ a2 * (q2 + 1) <= 2 ^ a2 * (2 * ns)) by (apply Nat.mul_le_mono_l; lia).
    assert (2 * 2 ^ a2 * ns <= 2 ^ a1 * ns) by (apply Nat.mul_le_mono_r; lia).
    assert (2 ^ a1 * ns <= 2 ^ a1 * q1) by (apply Nat.mul_le_mono_l; lia).
    lia.
Qed.

Lemma in_sub_bounds m a q c : 2 ^ m <= q < 2 * 2 ^ m -> In c (sub_ks a q) -> 2 ^ m <= c < 2 ^ (m + a).
Proof.
  intros Hq H. apply in_sub_ks in H. destruct H as (a' & Ha & H).
  pose proof (pm_pow2_pos a') as P. rewrite Nat.pow_add_r.
  assert (E : 2 * 2 ^ a' <= 2 ^ a) by (rewrite <- Nat.pow_succ_r'; apply Nat.pow_le_mono_r; lia).
  assert (2 ^ a' * (q + 1) <= 2 ^ a' * (2 * 2 ^ m)) by (apply Nat.mul_le_mono_l; lia).
  assert (2 * 2 ^ a' * 2 ^ m <= 2 ^ a * 2 ^ m) by (apply Nat.mul_le_mono_r; lia).
  assert (1 * q <= 2 ^ a' * q) by (apply Nat.mul_le_mono_r; lia).
  lia.
Qed.

Lemma NoDup_sub_ks a q : 1 <= q -> NoDup (sub_ks a q).
Proof.
  intros Hq. induction a as [|a IH]; [constructor|]. cbn [sub_ks]. apply pm_NoDup_app.
  - apply pm_NoDup_desc_range.
  - exact IH.
  - intros c Hc Hc'. apply pm_in_desc_range in Hc. apply in_sub_ks in Hc'. destruct Hc' as (a' & Ha & H).
    assert (E : 2 * 2 ^ a' <= 2 ^ a) by (rewrite <- Nat.pow_succ_r'; apply Nat.pow_le_mono_r; lia).
    assert (2 ^ a' * (q + 1) <= 2 ^ a' * (2 * q)) by (apply Nat.mul_le_mono_l; lia).
    assert (2 * 2 ^ a' * q <= 2 ^ a * q) by (apply Nat.mul_le_mono_r; lia).
    lia.
Qed.

(* the cells written by the subtree phase, per task *)
Definition sub_cells (m a : nat) : list (list nat) := map (fun i => sub_ks a (2 ^ m + i)) (seq 0 (2 ^ m)).

Lemma in_sub_cells m a c :
  In c (concat (sub_cells m a)) <-> exists i, i < 2 ^ m /\ In c (sub_ks a (2 ^ m + i)).
Proof.
  unfold sub_cells. rewrite in_concat. split.
  - intros (l & Hl & Hc). apply in_map_iff in Hl. destruct Hl as (i & <- & Hi). apply in_seq in Hi.
    exists i. split; [lia|exact Hc].
  - intros (i & Hi & Hc). exists (sub_ks a (2 ^ m + i)). split; [|exact Hc].
    apply in_map_iff. exists i. split; [reflexivity|]. apply in_seq. lia.
Qed.

Lemma sub_cells_cover m : forall a c, 2 ^ m <= c < 2 ^ (m + a) -> In c (concat (sub_cells m a)).
Proof.
  induction a as [|a IH]; intros c Hc.
  - rewrite Nat.add_0_r in Hc. lia.
  - rewrite Nat.add_succ_r, Nat.pow_succ_r' in Hc. apply in_sub_cells.
    destruct (Nat.lt_ge_cases c (2 ^ (m + a))) as [Hlt|Hge].
    + specialize (IH c ltac:(lia)). apply in_sub_cells in IH. destruct IH as (i & Hi & H).
      exists i. split; [exact Hi|]. apply in_sub_ks in H. destruct H as (a' & Ha & H).
      apply in_sub_ks. exists a'. split; [lia|exact H].
    + pose proof (pm_pow2_pos a) as P. rewrite Nat.pow_add_r in *.
      assert (Q1 : 2 ^ m <= c / 2 ^ a) by (apply Nat.div_le_lower_bound; lia).
      assert (Q2 : c / 2 ^ a < 2 * 2 ^ m) by (apply Nat.div_lt_upper_bound; lia).
      exists (c / 2 ^ a - 2 ^ m). split; [lia|].
      replace (2 ^ m + (c / 2 ^ a - 2 ^ m)) with (c / 2 ^ a) by lia.
      apply in_sub_ks. exists a. split; [lia|]. split.
      * apply Nat.mul_div_le. lia.
      * rewrite Nat.add_1_r. apply Nat.mul_succ_div_gt. lia.
Qed.

Lemma sub_concat leaves m a : concat (mp_sub (plan_form leaves m a)) = map node_task (concat (sub_cells m a)).
Proof. cbn [plan_form mp_sub]. unfold sub_cells. rewrite concat_map, map_map. reflexivity. Qed.

Lemma leaf_concat leaves m a :
  concat (mp_leaf (plan_form leaves m a)) = map (leaf_task leaves (2 ^ (m + a))) (seq 0 (2 ^ (m + a))).
Proof. cbn [plan_form mp_leaf]. apply pm_concat_singletons. Qed.

Lemma node_independent kx ky :
  kx <> ky -> kx <> 2 * ky -> kx <> 2 * ky + 1 -> ky <> 2 * kx -> ky <> 2 * kx + 1 ->
  independent (node_task kx) (node_task ky).
Proof.
  intros. unfold independent, disjoint. cbn [t_writes t_reads Par.node_task cell_task In].
  repeat split; intros i H4 H5; intuition lia.
Qed.

Lemma leaf_independent leaves n a b : a <> b -> independent (leaf_task leaves n a) (leaf_task leaves n b).
Proof.
  intros. unfold independent, disjoint. cbn [t_writes t_reads Par.leaf_task cell_task In].
  repeat split; intros i H4 H5; intuition lia.
Qed.

Lemma in_node_reads k c : In c (t_reads (node_task k)) -> c = 2 * k \/ c = 2 * k + 1.
Proof. cbn [t_reads Par.node_task cell_task In]. intuition lia. Qed.

Lemma rc_sub_ks lo hi q : forall a W,
  (forall c, 2 ^ a * q <= c < 2 ^ a * (q + 1) -> lo <= c < hi \/ In c W) ->
  rc lo hi W (map node_task (sub_ks a q)).
Proof.
  induction a as [|a IH]; intros W H; [exact I|].
  cbn [sub_ks]. rewrite map_app. rewrite Nat.pow_succ_r' in H. apply rc_app.
  - apply rc_flat. intros x Hx c Hc. apply in_map_iff in Hx. destruct Hx as (kx & <- & Hk).
    apply pm_in_desc_range in Hk. apply in_node_reads in Hc. apply H. lia.
  - apply IH. intros c Hc. right. apply in_app_iff. right. rewrite pm_writes_nodes. apply pm_in_desc_range. lia.
Qed.

Lemma rc_tip lo hi : forall b W,
  (forall c, b < c <= 2 * b + 1 -> lo <= c < hi \/ In c W) -> rc lo hi W (map node_task (desc_range 1 b)).
Proof.
  induction b as [|b IH]; intros W H; [exact I|].
  rewrite pm_desc_range_S. cbn [map]. split.
  - intros c Hc. apply in_node_reads in Hc. apply H. lia.
  - apply IH. intros c Hc. destruct (Nat.eq_dec c (1 + b)) as [->|Hne].
    + right. apply in_app_iff. right. left. reflexivity.
    + destruct (H c ltac:(lia)); auto. right. apply in_app_iff. auto.
Qed.

Lemma rc_sub_task m a i : i < 2 ^ m ->
  rc (2 ^ (m + a)) (2 * 2 ^ (m + a)) [] (map node_task (sub_ks a (2 ^ m + i))).
Proof.
  intros Hi. apply rc_sub_ks. intros c Hc. left. rewrite Nat.pow_add_r.
  assert (2 ^ a * (2 ^ m + i + 1) <= 2 ^ a * (2 * 2 ^ m)) by (apply Nat.mul_le_mono_l; lia).
  assert (2 ^ a * 2 ^ m <= 2 ^ a * (2 ^ m + i)) by (apply Nat.mul_le_mono_l; lia).
  lia.
Qed.

Lemma rc_sub_top leaves m a :
  rc (2 ^ (m + a)) (2 * 2 ^ (m + a)) []
     (concat (mp_sub (plan_form leaves m a)) ++ mp_top (plan_form leaves m a)).
Proof.
  pose proof (pm_pow2_pos m) as Pm.
  apply rc_app.
  - apply rc_concat. cbn [plan_form mp_sub]. apply Forall_forall. intros l Hl.
    apply in_map_iff in Hl. destruct Hl as (i & <- & Hi). apply in_seq in Hi. apply rc_sub_task. lia.
  - cbn [app]. rewrite sub_concat, pm_writes_nodes. cbn [plan_form mp_top]. apply rc_tip.
    intros c Hc. destruct a as [|a].
    + left. rewrite Nat.add_0_r. lia.
    + right. apply in_sub_cells. exists (c - 2 ^ m). split; [lia|].
      replace (2 ^ m + (c - 2 ^ m)) with c by lia. apply in_sub_ks. exists 0. split; [lia|].
      rewrite Nat.pow_0_r. lia.
Qed.

Lemma pm_map_add_seq n : forall l s, map (fun i => n + i) (seq s l) = seq (n + s) l.
Proof. induction l as [|l IH]; intros s; [reflexivity|]. cbn [seq map]. rewrite IH, Nat.add_succ_r. reflexivity. Qed.

(* all writes of the three phases, in canonical order *)
Lemma plan_writes leaves m a :
  flat_map t_writes (concat (mp_leaf (plan_form leaves m a)) ++ concat (mp_sub (plan_form leaves m a))
                     ++ mp_top (plan_form leaves m a))
  = seq (2 ^ (m + a)) (2 ^ (m + a)) ++ concat (sub_cells m a) ++ desc_range 1 (2 ^ m - 1).
Proof.
  rewrite !flat_map_app, leaf_concat, sub_concat, pm_writes_leaves, pm_writes_nodes, pm_map_add_seq, Nat.add_0_r.
  cbn [plan_form mp_top]. rewrite pm_writes_nodes. reflexivity.
Qed.

Lemma plan_writes_perm m a :
  Permutation (seq (2 ^ (m + a)) (2 ^ (m + a)) ++ concat (sub_cells m a) ++ desc_range 1 (2 ^ m - 1))
              (seq 1 (2 * 2 ^ (m + a) - 1)).
Proof.
  pose proof (pm_pow2_pos m) as Pm. pose proof (pm_pow2_pos a) as Pa.
  assert (En : 2 ^ (m + a) = 2 ^ m * 2 ^ a) by apply Nat.pow_add_r.
  assert (Hle : 2 ^ m <= 2 ^ (m + a)) by nia.
  assert (Hsub : forall c, In c (concat (sub_cells m a)) -> 2 ^ m <= c < 2 ^ (m + a)).
  { intros c Hc. apply in_sub_cells in Hc. destruct Hc as (i & Hi & Hc). eapply in_sub_bounds; [|exact Hc]. lia. }
  apply NoDup_Permutation.
  - apply pm_NoDup_app; [apply seq_NoDup| |].
    + apply pm_NoDup_app; [|apply pm_NoDup_desc_range|].
      * unfold sub_cells. apply pm_NoDup_concat_map.
        -- apply seq_NoDup.
        -- intros i _. apply NoDup_sub_ks. lia.
        -- intros x y c Hx Hy Hcx Hcy. apply in_seq in Hx. apply in_seq in Hy.
           assert (2 ^ m + x = 2 ^ m + y); [|lia].
           apply (lvl_unique (2 ^ m) _ _ c); try lia; eapply in_sub_lvl; eassumption.
      * intros c Hc Hc'. apply Hsub in Hc. apply pm_in_desc_range in Hc'. lia.
    + intros c Hc Hc'. apply in_seq in Hc. apply in_app_iff in Hc'. destruct Hc' as [Hc'|Hc'].
      * apply Hsub in Hc'. lia.
      * apply pm_in_desc_range in Hc'. lia.
  - apply seq_NoDup.
  - intros c. rewrite !in_app_iff, !in_seq, pm_in_desc_range. split.
    + intros [H|[H|H]]; [lia| |lia]. apply Hsub in H. lia.
    + intros H. destruct (Nat.lt_ge_cases c (2 ^ m)); [right; right; lia|].
      destruct (Nat.lt_ge_cases c (2 ^ (m + a))); [|left; lia].
      right. left. apply sub_cells_cover. lia.
Qed.

Lemma plan_footprints leaves m a : let p := plan_form leaves m a in let n := 2 ^ (m + a) in
  Forall (Forall task_ok) (mp_leaf p) /\ cross_independent (mp_leaf p) /\
  Forall (Forall task_ok) (mp_sub p) /\ cross_independent (mp_sub p) /\
  Forall (reads_closed n (2 * n)) (mp_sub p) /\
  reads_closed n (2 * n) (concat (mp_sub p) ++ mp_top p) /\
  Permutation (flat_map t_writes (concat (mp_leaf p) ++ concat (mp_sub p) ++ mp_top p)) (seq 1 (2 * n - 1)).
Proof.
  intros p n. pose proof (pm_pow2_pos m) as Pm. repeat apply conj.
  - cbn [p plan_form mp_leaf]. apply Forall_forall. intros l Hl. apply in_map_iff in Hl. destruct Hl as (i & <- & _).
    constructor; [apply leaf_task_ok|constructor].
  - cbn [p plan_form mp_leaf]. intros i j Hij x y Hx Hy.
    apply pm_in_nth_map_seq in Hx. apply pm_in_nth_map_seq in Hy.
    destruct Hx as [_ [<-|[]]]. destruct Hy as [_ [<-|[]]]. apply leaf_independent. exact Hij.
  - cbn [p plan_form mp_sub]. apply Forall_forall. intros l Hl. apply in_map_iff in Hl. destruct Hl as (i & <- & _).
    apply pm_nodes_ok.
  - cbn [p plan_form mp_sub]. intros i j Hij x y Hx Hy.
    apply pm_in_nth_map_seq in Hx. apply pm_in_nth_map_seq in Hy.
    destruct Hx as [Hi Hx]. destruct Hy as [Hj Hy].
    apply in_map_iff in Hx. destruct Hx as (kx & <- & Hkx). apply in_map_iff in Hy. destruct Hy as (ky & <- & Hky).
    apply in_sub_lvl in Hkx. apply in_sub_lvl in Hky.
    destruct (lvl_child _ _ Hkx) as [Hx0 Hx1]. destruct (lvl_child _ _ Hky) as [Hy0 Hy1].
    assert (U : forall c, lvl (2 ^ m + i) c -> lvl (2 ^ m + j) c -> False).
    { intros c H1 H2. assert (2 ^ m + i = 2 ^ m + j); [|lia]. apply (lvl_unique (2 ^ m) _ _ c); auto; lia. }
    apply node_independent; intros E.
    + subst ky. exact (U _ Hkx Hky).
    + subst kx. exact (U _ Hx0 Hky) || exact (U _ Hkx Hy0).
    + subst kx. exact (U _ Hkx Hy1).
    + subst ky. exact (U _ Hx0 Hky).
    + subst ky. exact (U _ Hx1 Hky).
  - cbn [p plan_form mp_sub]. apply Forall_forall. intros l Hl. apply in_map_iff in Hl. destruct Hl as (i & <- & Hi).
    apply in_seq in Hi. apply rc_reads_closed. apply rc_sub_task. lia.
  - apply rc_reads_closed. apply rc_sub_top.
  - unfold p. rewrite plan_writes. apply plan_writes_perm.
Qed.

Theorem merkle_par_footprints k T leaves p : let n := 2 ^ k in
  length leaves = 2 * n -> npo2 T <= n -> merkle_par_plan d0 merge leaves T = Done p ->
  Forall (Forall task_ok) (mp_leaf p) /\ cross_independent (mp_leaf p) /\
  Forall (Forall task_ok) (mp_sub p) /\ cross_independent (mp_sub p) /\
  Forall (reads_closed n (2 * n)) (mp_sub p) /\
  reads_closed n (2 * n) (concat (mp_sub p) ++ mp_top p) /\
  Permutation (flat_map t_writes (concat (mp_leaf p) ++ concat (mp_sub p) ++ mp_top p)) (seq 1 (2 * n - 1)).
Proof.
  intros n Hl Hns Hp. pose proof (pm_npo2_le T k Hns) as Ek.
  remember (Nat.log2_up T) as m eqn:Em. remember (k - m) as a eqn:Ea. clear Ea. subst n. subst k.
  rewrite (merkle_plan_form m a) in Hp; [|symmetry; exact Em|exact Hl].
  injection Hp as <-. apply plan_footprints.
Qed.

(* ================================================================ E. every schedule gives the serial vector *)
(* running node steps whose reads are closed over cells that already hold F's value keeps / makes cells correct *)
Lemma exec_nodes_good n F :
  (forall c, 1 <= c < n -> nth c F d0 = merge (nth (2 * c) F d0) (nth (2 * c + 1) F d0)) ->
  forall ks W s, length s = 2 * n -> (forall x, In x ks -> 1 <= x < n) ->
  rc n (2 * n) W (map node_task ks) ->
  (forall c, n <= c < 2 * n \/ In c W -> nth c s d0 = nth c F d0) ->
  length (exec (map node_task ks) s) = 2 * n /\
  (forall c, ~ In c ks -> nth c (exec (map node_task ks) s) d0 = nth c s d0) /\
  (forall c, n <= c < 2 * n \/ In c W \/ In c ks -> nth c (exec (map node_task ks) s) d0 = nth c F d0).
Proof.
  intros HF. induction ks as [|x ks IH]; intros W s Hl Hb Hrc Hg.
  - cbn [map]. repeat split; auto. intros c [H|[H|[]]]; apply Hg; auto.
  - cbn [map] in *. destruct Hrc as [Hrd Hrc]. rewrite exec_cons, pm_node_run.
    assert (Hx : 1 <= x < n) by (apply Hb; left; reflexivity).
    assert (G0 : nth (2 * x) s d0 = nth (2 * x) F d0).
    { apply Hg. apply Hrd. left. reflexivity. }
    assert (G1 : nth (2 * x + 1) s d0 = nth (2 * x + 1) F d0).
    { apply Hg. apply Hrd. right. left. reflexivity. }
    rewrite G0, G1, <- HF by exact Hx.
    set (s1 := lupd s x (nth x F d0)).
    assert (L1 : length s1 = 2 * n) by (unfold s1; rewrite par_length_lupd; exact Hl).
    destruct (IH (W ++ [x]) s1 L1) as (L & U & V).
    + intros y Hy. apply Hb. right. exact Hy.
    + exact Hrc.
    + intros c Hc. unfold s1. rewrite par_nth_lupd.
      destruct (Nat.eqb_spec x c) as [->|Hne]; cbn [andb].
      * destruct (Nat.ltb_spec c (length s)); [reflexivity|lia].
      * apply Hg. destruct Hc as [Hc|Hc]; [left; exact Hc|]. apply in_app_iff in Hc.
        destruct Hc as [Hc|[Hc|[]]]; [right; exact Hc|congruence].
    + split; [exact L|split].
      * intros c Hc. rewrite U by (intro; apply Hc; right; assumption).
        unfold s1. apply par_nth_lupd_other. intros ->. apply Hc. left. reflexivity.
      * intros c Hc. apply V. rewrite in_app_iff. cbn [In] in *. tauto.
Qed.

Lemma plan_canonical leaves junk m a : let p := plan_form leaves m a in
  length leaves = 2 * 2 ^ (m + a) -> length junk = 2 * 2 ^ (m + a) ->
  exec (mp_top p) (exec (concat (mp_sub p)) (exec (concat (mp_leaf p)) (merkle_init d0 junk)))
  = merkle_serial d0 merge leaves junk.
Proof.
  intros p Hl Hj. set (n := 2 ^ (m + a)) in *.
  pose proof (pm_pow2_pos (m + a)) as Pn. fold n in Pn. pose proof (pm_pow2_pos m) as Pm.
  assert (Hle : 2 ^ m <= n) by (unfold n; rewrite Nat.pow_add_r; pose proof (pm_pow2_pos a); nia).
  destruct (merkle_serial_eqs_gen n leaves junk Pn Hl Hj) as (LF & ZF & EF & NF).
  set (F := merkle_serial d0 merge leaves junk) in *.
  set (s0 := merkle_init d0 junk).
  assert (L0 : length s0 = 2 * n) by (unfold s0, merkle_init; rewrite par_length_lupd; exact Hj).
  unfold p. rewrite leaf_concat. fold n.
  destruct (exec_leaf_phase leaves n n s0 (le_n _) L0) as (L1 & U1 & V1).
  set (s1 := exec (map (leaf_task leaves n) (seq 0 n)) s0) in *.
  rewrite <- exec_app.
  pose proof (rc_sub_top leaves m a) as Hrc. fold n in Hrc. revert Hrc.
  rewrite sub_concat. cbn [plan_form mp_top]. rewrite <- map_app. intros Hrc.
  set (ks := concat (sub_cells m a) ++ desc_range 1 (2 ^ m - 1)) in *.
  assert (Hks : forall c, In c ks <-> 1 <= c < n).
  { intros c. unfold ks. rewrite in_app_iff, pm_in_desc_range. split.
    - intros [H|H]; [|lia]. apply in_sub_cells in H. destruct H as (i & Hi & H).
      apply (in_sub_bounds m a) in H; [|lia]. fold n in H. lia.
    - intros H. destruct (Nat.lt_ge_cases c (2 ^ m)); [right; lia|]. left. apply sub_cells_cover. fold n. lia. }
  destruct (exec_nodes_good n F NF ks [] s1 L1) as (L & U & V).
  - intros x Hx. apply Hks. exact Hx.
  - exact Hrc.
  - intros c [Hc|[]]. replace c with (n + (c - n)) by lia. rewrite V1, EF by lia. reflexivity.
  - apply nth_ext with (d := d0) (d' := d0); [congruence|]. intros c Hc. rewrite L in Hc.
    destruct (Nat.eq_dec c 0) as [->|Hc0].
    + rewrite U by (rewrite Hks; lia). rewrite U1 by lia. rewrite ZF.
      unfold s0, merkle_init. apply par_nth_lupd_same. lia.
    + apply V. destruct (Nat.lt_ge_cases c n); [right; right; apply Hks; lia|left; lia].
Qed.

Lemma plan_par_spec leaves junk m a T : Nat.log2_up T = m ->
  length leaves = 2 * 2 ^ (m + a) -> length junk = 2 * 2 ^ (m + a) ->
  (forall s1 s2, Permutation s1 (seq 0 (2 ^ (m + a))) -> Permutation s2 (seq 0 (2 ^ m)) ->
     merkle_par d0 merge leaves junk T s1 s2 = Done (merkle_serial d0 merge leaves junk)) /\
  (forall ch1 ch2 r, merkle_par_interleaved d0 merge leaves junk T ch1 ch2 = Done (r, true) ->
     r = merkle_serial d0 merge leaves junk).
Proof.
  intros Hm Hl Hj.
  destruct (plan_footprints leaves m a) as (Ok1 & Ci1 & Ok2 & Ci2 & _).
  destruct (phase_schedule_independent d0 _ Ok1 Ci1) as [S1 I1].
  destruct (phase_schedule_independent d0 _ Ok2 Ci2) as [S2 I2].
  split.
  - intros s1 s2 P1 P2. unfold merkle_par. rewrite (merkle_plan_form m a T leaves Hm Hl).
    cbn [exec_phases fold_left]. f_equal.
    rewrite S1 by (cbn [plan_form mp_leaf]; rewrite map_length, seq_length; exact P1).
    rewrite S2 by (cbn [plan_form mp_sub]; rewrite map_length, seq_length; exact P2).
    apply plan_canonical; assumption.
  - intros ch1 ch2 r. unfold merkle_par_interleaved. rewrite (merkle_plan_form m a T leaves Hm Hl).
    destruct (merge_by ch1 _) as [o1 l1] eqn:E1. destruct (merge_by ch2 _) as [o2 l2] eqn:E2.
    intros H. injection H as Hr Hb. apply andb_prop in Hb. destruct Hb as [B1 B2]. subst r.
    cbn [exec_phases fold_left].
    rewrite (I1 _ _ _ _ E1 B1), (I2 _ _ _ _ E2 B2).
    apply plan_canonical; assumption.
Qed.

Theorem merkle_par_spec k T leaves junk : let n := 2 ^ k in
  length leaves = 2 * n -> length junk = 2 * n -> npo2 T <= n ->
  (forall s1 s2, Permutation s1 (seq 0 n) -> Permutation s2 (seq 0 (npo2 T)) ->
     merkle_par d0 merge leaves junk T s1 s2 = Done (merkle_serial d0 merge leaves junk)) /\
  (forall ch1 ch2 r, merkle_par_interleaved d0 merge leaves junk T ch1 ch2 = Done (r, true) ->
     r = merkle_serial d0 merge leaves junk).
Proof.
  intros n Hl Hj Hns. pose proof (pm_npo2_le T k Hns) as Ek. unfold npo2.
  remember (Nat.log2_up T) as m eqn:Em. remember (k - m) as a eqn:Ea. clear Ea. subst n. subst k.
  apply plan_par_spec; auto.
Qed.

(* ================================================================ F. MerkleTree::new dispatch *)
Theorem merkle_dispatch_spec k T leaves junk conc s1 s2 : let n := 2 ^ k in
  length leaves = 2 * n -> length junk = 2 * n -> npo2 T <= n ->
  Permutation s1 (seq 0 n) -> Permutation s2 (seq 0 (npo2 T)) ->
  merkle_nodes_dispatch d0 merge conc leaves junk T s1 s2 = Done (merkle_serial d0 merge leaves junk).
Proof.
  intros n Hl Hj Hns P1 P2. unfold merkle_nodes_dispatch.
  destruct (conc && negb (length leaves <=? 1024)).
  - apply (merkle_par_spec k T leaves junk Hl Hj Hns); assumption.
  - rewrite Hl, pm_double_div2. pose proof (pm_pow2_pos k) as Pk. fold n in Pk.
    destruct (Nat.eqb_spec n 0); [lia|reflexivity].
Qed.

(* ================================================================ G. the vector holds the tree *)
Lemma merkle_eqs_tree_node n leaves F : merkle_eqs n leaves F ->
  forall fuel c, 1 <= c < 2 * n -> n <= c * 2 ^ fuel -> nth c F d0 = tree_node d0 merge fuel leaves n c.
Proof.
  intros (LF & ZF & EF & NF). induction fuel as [|fuel IH]; intros c Hc Hf.
  - cbn [tree_node]. rewrite Nat.pow_0_r, Nat.mul_1_r in Hf.
    destruct (Nat.leb_spec n c); [|lia].
    replace c with (n + (c - n)) at 1 by lia. apply EF. lia.
  - cbn [tree_node]. destruct (Nat.leb_spec n c).
    + replace c with (n + (c - n)) at 1 by lia. apply EF. lia.
    + rewrite Nat.pow_succ_r' in Hf. rewrite NF by lia. rewrite !IH by lia. reflexivity.
Qed.

Theorem merkle_serial_tree_node k leaves junk c : let n := 2 ^ k in
  length leaves = 2 * n -> length junk = 2 * n -> 1 <= c < 2 * n ->
  nth c (merkle_serial d0 merge leaves junk) d0 = tree_node d0 merge k leaves n c.
Proof.
  intros n Hl Hj Hc. pose proof (pm_pow2_pos k) as Pk. fold n in Pk.
  apply (merkle_eqs_tree_node n leaves); [apply merkle_serial_eqs_gen; assumption|exact Hc|].
  fold n. nia.
Qed.

End MerkleSpec.

(* ================================================================ non-vacuity *)
(* a non-commutative "hash" on nat (reduced mod 101 to keep unary numerals small) *)
Definition pm_mg (a b : nat) : nat := (1 + 3 * a + 7 * b) mod 101.

Example pm_mg_noncomm : pm_mg 1 0 <> pm_mg 0 1.
Proof. vm_compute. discriminate. Qed.

(* 32 leaves, n = 16, T = 3 -> 4 subtrees of 2 levels, tip of 3 nodes *)
Example merkle_par_ex_plan :
  match merkle_par_plan 0 pm_mg (seq 10 32) 3 with
  | Done p => (map (flat_map t_writes) (mp_sub p), flat_map t_writes (mp_top p))
              = ([[9; 8; 4]; [11; 10; 5]; [13; 12; 6]; [15; 14; 7]], [3; 2; 1])
  | Panic => False
  end.
Proof. vm_compute. reflexivity. Qed.

Example merkle_par_ex1 :
  merkle_par 0 pm_mg (seq 10 32) (repeat 99 32) 3 [5;2;7;0;1;15;3;4;6;8;9;10;11;12;13;14] [3;1;0;2]
  = Done (merkle_serial 0 pm_mg (seq 10 32) (repeat 99 32)).
Proof. vm_compute. reflexivity. Qed.

Example merkle_par_ex2 :
  merkle_par_interleaved 0 pm_mg (seq 10 32) (repeat 99 32) 3 (rev (seq 0 16))
    [0;1;2;3;3;2;1;0;0;0;1;1;2;3;3;2;0;1;2;3]
  = Done (merkle_serial 0 pm_mg (seq 10 32) (repeat 99 32), true).
Proof. vm_compute. reflexivity. Qed.

(* an incomplete interleaving is flagged *)
Example merkle_par_ex2_incomplete :
  match merkle_par_interleaved 0 pm_mg (seq 10 32) (repeat 99 32) 3 (rev (seq 0 16)) [0;1;2;3;3;2;1;0] with
  | Done (_, b) => b = false
  | Panic => False
  end.
Proof. vm_compute. reflexivity. Qed.

(* npo2 T = n: the subtree tasks are empty and the tip computes the whole tree *)
Example merkle_par_ex_T_eq_n :
  merkle_par 0 pm_mg (seq 10 8) (repeat 99 8) 4 [3;1;0;2] [2;0;3;1]
  = Done (merkle_serial 0 pm_mg (seq 10 8) (repeat 99 8)).
Proof. vm_compute. reflexivity. Qed.

(* n = 4 < npo2 5 = 8: two_nodes[num_subtrees - 1] is out of bounds *)
Example merkle_par_ex_panic : merkle_par_plan 0 pm_mg (seq 10 8) 5 = Panic.
Proof. vm_compute. reflexivity. Qed.

(* the junk really is overwritten: two different un-initialised vectors, same result *)
Example merkle_par_ex_junk :
  merkle_serial 0 pm_mg (seq 10 8) (repeat 99 8) = merkle_serial 0 pm_mg (seq 10 8) (seq 40 8).
Proof. vm_compute. reflexivity. Qed.

(* the hypothesis of merkle_par_spec holds at the real threshold: 2048 leaves, 64 threads *)
Example merkle_hyp_sat : npo2 64 <= 2 ^ 10.
Proof. apply Nat.leb_le. vm_compute. reflexivity. Qed.
