(* Proofs/UntrustedParse.v — stage 1 of C06: Proof::from_bytes on arbitrary bytes.
   Lifts the C12 reader theorems (Proofs/CodecTotal.v) to [parse], and records what every successfully parsed proof
   satisfies ([proof_inv]): the facts the later stages rely on. *)
From VBase Require Import MachInt.
From VModel Require Import Codec Untrusted.
From VProofs Require Import CodecPrim CodecTypes CodecTotal.
Open Scope Z_scope.

(* ----------------------------------------------------------------------------------- generic reader facts *)
Lemma llen_nonneg {T} (l : list T) : 0 <= llen l.
Proof. unfold llen. lia. Qed.

Lemma safe_read_many_nat_len {A} (P : A -> Prop) (r : Rd A) n :
  safeP P r -> safeP (fun l => Forall P l /\ length l = n) (read_many_nat r n).
Proof.
  intros Hr. induction n as [|n IH]; intros bs Hbs; cbn [read_many_nat]; [auto|].
  specialize (Hr bs Hbs). destruct (r bs) as [[a bs']| |]; auto. destruct Hr as [Pa Hbs'].
  specialize (IH bs' Hbs'). destruct (read_many_nat r n bs') as [[l bs'']| |]; auto.
  destruct IH as [[Hl Hn] Hb]. cbn [length]. auto.
Qed.

(* read_many r n returns exactly max(0, n) elements *)
Lemma safe_read_many_len {A} (P : A -> Prop) (r : Rd A) n :
  safeP P r -> safeP (fun l => Forall P l /\ llen l = Z.max 0 n) (read_many r n).
Proof.
  intros Hr. destruct (Z_le_gt_dec n 0) as [Hn | Hn].
  - intros bs Hbs. unfold read_many. destruct n; try lia; cbn; repeat split; auto.
  - intros bs Hbs. rewrite <- (Z2Nat.id n) by lia. rewrite read_many_spec.
    pose proof (safe_read_many_nat_len P r (Z.to_nat n) Hr bs Hbs) as H.
    destruct (read_many_nat r (Z.to_nat n) bs) as [[l rest]| |]; auto.
    destruct H as [[Hl Hlen] Hb]. repeat split; auto. unfold llen. rewrite Hlen. lia.
Qed.

Lemma safe_conj {A} (P Q : A -> Prop) r : safeP P r -> safeP Q r -> safeP (fun a => P a /\ Q a) r.
Proof.
  intros HP HQ bs Hbs. specialize (HP bs Hbs). specialize (HQ bs Hbs).
  destruct (r bs) as [[a rest]| |]; auto. destruct HP, HQ. auto.
Qed.

(* ----------------------------------------------------------------- partial correctness (independent of no-panic) *)
(* [okP P r]: whenever r succeeds on byte input, its value is in P and the rest is byte input *)
Definition okP {A} (P : A -> Prop) (r : Rd A) : Prop :=
  forall bs, is_bytes bs -> forall a rest, r bs = Ok (a, rest) -> P a /\ is_bytes rest.

Lemma okP_of_safe {A} (P : A -> Prop) r : safeP P r -> okP P r.
Proof. intros H bs Hbs a rest E. specialize (H bs Hbs). rewrite E in H. exact H. Qed.

Lemma okP_bind {A B} (P : A -> Prop) (Q : B -> Prop) (r : Rd A) (f : A -> Rd B) :
  okP P r -> (forall a, P a -> okP Q (f a)) -> okP Q (bind r f).
Proof.
  intros Hr Hf bs Hbs b rest E. unfold bind in E. destruct (r bs) as [[a bs']| |] eqn:E1; try discriminate.
  destruct (Hr bs Hbs a bs' E1) as [Pa Hbs']. exact (Hf a Pa bs' Hbs' b rest E).
Qed.

Lemma okP_ret {A} (P : A -> Prop) a : P a -> okP P (ret a).
Proof. intros Pa bs Hbs b rest E. inversion E; subst. auto. Qed.

Lemma okP_fail {A} (P : A -> Prop) e : okP P (@fail A e).
Proof. intros bs Hbs b rest E. discriminate. Qed.

Lemma okP_if {A} (P : A -> Prop) (c : bool) (r1 r2 : Rd A) : okP P r1 -> okP P r2 -> okP P (if c then r1 else r2).
Proof. destruct c; auto. Qed.

Lemma okP_lift {A} (x : Result A) : okP (fun a => x = Ok a) (lift x).
Proof. intros bs Hbs a rest E. unfold lift in E. destruct x; inversion E; subst. auto. Qed.

Lemma okP_weaken {A} (P Q : A -> Prop) r : (forall a, P a -> Q a) -> okP P r -> okP Q r.
Proof. intros H Hr bs Hbs a rest E. destruct (Hr bs Hbs a rest E). auto. Qed.

(* the trace metadata of a parsed TraceInfo / Context is a byte string (it is copied from the input) *)
Lemma read_TraceInfo_meta_bytes : okP (fun t => is_bytes (ti_meta t)) read_TraceInfo.
Proof.
  unfold read_TraceInfo.
  eapply okP_bind; [apply okP_of_safe, safe_read_u8|]. intros main _. apply okP_if; [apply okP_fail|].
  eapply okP_bind; [apply okP_of_safe, safe_read_u8|]. intros aux _. apply okP_if; [apply okP_fail|].
  eapply okP_bind; [apply okP_of_safe, safe_read_u8|]. intros rands _.
  apply okP_if; [apply okP_fail|]. apply okP_if; [apply okP_fail|].
  eapply okP_bind; [apply okP_of_safe, safe_read_u8|]. intros e _.
  apply okP_if; [apply okP_fail|]. apply okP_if; [apply okP_fail|].
  eapply okP_bind; [apply okP_of_safe, (safe_read_uint 2)|]. intros n _.
  eapply (okP_bind is_bytes).
  { apply okP_if; [unfold read_vec; apply okP_of_safe, safe_read_slice | apply okP_ret; constructor]. }
  intros meta Hmeta.
  eapply okP_weaken; [|apply okP_lift]. intros t Ht. cbv beta in Ht.
  apply TraceInfo_new_inv in Ht. destruct Ht as (_ & _ & _ & _ & _ & _ & _ & ->). exact Hmeta.
Qed.

Lemma read_Context_meta_bytes : okP (fun c => is_bytes (ti_meta (ctx_trace_info c))) read_Context.
Proof.
  unfold read_Context.
  eapply okP_bind; [apply read_TraceInfo_meta_bytes|]. intros t Ht.
  eapply okP_bind; [apply okP_of_safe, safe_read_u8|]. intros n _. apply okP_if; [apply okP_fail|].
  eapply okP_bind; [unfold read_vec; apply okP_of_safe, safe_read_slice|]. intros m _.
  eapply okP_bind; [apply okP_of_safe, read_ProofOptions_no_panic|]. intros o _.
  apply okP_if; [apply okP_fail|]. apply okP_if; [apply okP_ret; exact Ht | apply okP_fail].
Qed.

Lemma read_Proof_meta_bytes : okP (fun p => is_bytes (ti_meta (ctx_trace_info (pr_context p)))) read_Proof.
Proof.
  unfold read_Proof.
  eapply okP_bind; [apply read_Context_meta_bytes|]. intros c Hc.
  eapply okP_bind; [apply okP_of_safe, safe_read_u8|]. intros nuq _.
  eapply okP_bind; [apply okP_of_safe, (safe_read_blob 2)|]. intros com _.
  eapply okP_bind; [apply okP_of_safe, (safe_read_many _ _ _ read_Queries_no_panic)|]. intros tq _.
  eapply okP_bind; [apply okP_of_safe, read_Queries_no_panic|]. intros cq _.
  eapply okP_bind; [apply okP_of_safe, read_OodFrame_no_panic|]. intros ood _.
  eapply okP_bind; [apply okP_of_safe, read_FriProof_no_panic|]. intros fri _.
  eapply okP_bind; [apply okP_of_safe, (safe_read_uint 8)|]. intros nonce _.
  eapply okP_bind; [apply okP_of_safe, (safe_read_option _ _ (safe_read_vec_of _ _ safe_read_u8))|]. intros gkr _.
  apply okP_ret. exact Hc.
Qed.

(* ------------------------------------------------------------------------------- what a parsed proof satisfies *)
Definition queries_ok (q : Queries) : Prop := is_bytes (q_paths q) /\ is_bytes (q_values q).
Definition ood_ok (f : OodFrame) : Prop := is_bytes (ood_trace_states f) /\ is_bytes (ood_lagrange f) /\ is_bytes (ood_evaluations f).
Definition layer_ok (l : FriProofLayer) : Prop := is_bytes (fl_values l) /\ is_bytes (fl_paths l).
Definition fri_ok (f : FriProof) : Prop :=
  Forall layer_ok (fri_layers f) /\ is_bytes (fri_remainder f) /\ 0 <= fri_num_partitions f < 64.

Definition context_ok (c : Context) : Prop :=
  wf_TraceInfo (ctx_trace_info c) /\ wf_ProofOptions (ctx_options c) /\ 1 <= len (ctx_modulus c) <= 255 /\
  Context_new (ctx_modulus c) (ctx_trace_info c) (ctx_options c) = Ok c.

Definition proof_inv0 (p : Proof) : Prop :=
  context_ok (pr_context p) /\
  0 <= pr_num_unique_queries p < 256 /\
  is_bytes (pr_commitments p) /\
  Forall queries_ok (pr_trace_queries p) /\
  llen (pr_trace_queries p) = ti_num_segments (ctx_trace_info (pr_context p)) /\
  queries_ok (pr_constraint_queries p) /\
  ood_ok (pr_ood_frame p) /\
  fri_ok (pr_fri_proof p).

Definition proof_inv (p : Proof) : Prop :=
  proof_inv0 p /\ is_bytes (ti_meta (ctx_trace_info (pr_context p))).

Lemma read_Queries_ok : safeP queries_ok read_Queries.
Proof.
  unfold read_Queries. eapply safe_bind; [apply safe_read_blob|]. intros v Hv.
  eapply safe_bind; [apply safe_read_blob|]. intros p Hp. apply safe_ret. split; assumption.
Qed.

Lemma read_OodFrame_ok : safeP ood_ok read_OodFrame.
Proof.
  unfold read_OodFrame. eapply safe_bind; [apply safe_read_blob|]. intros t Ht.
  eapply safe_bind; [apply safe_read_blob|]. intros l Hl.
  eapply safe_bind; [apply safe_read_blob|]. intros e He. apply safe_ret. repeat split; assumption.
Qed.

Lemma read_FriProofLayer_ok : safeP layer_ok read_FriProofLayer.
Proof.
  unfold read_FriProofLayer. eapply safe_bind; [apply (safe_read_uint 4)|]. intros n _.
  apply safe_if; [apply safe_fail|].
  eapply safe_bind; [apply safe_read_slice|]. intros v Hv.
  eapply safe_bind; [apply safe_read_blob|]. intros p Hp. apply safe_ret. split; assumption.
Qed.

Lemma read_FriProof_ok : safeP fri_ok read_FriProof.
Proof.
  unfold read_FriProof. eapply safe_bind; [apply safe_read_u8|]. intros n _.
  eapply safe_bind; [apply (safe_read_many _ _ n read_FriProofLayer_ok)|]. intros layers Hl.
  eapply safe_bind; [apply safe_read_blob|]. intros r Hr.
  eapply safe_bind; [apply safe_read_u8|]. intros np Hnp.
  destruct (np >=? 64) eqn:C; [apply safe_fail|].
  apply safe_ret. rewrite Z.geb_leb in C. apply Z.leb_gt in C. cbv beta in Hnp.
  repeat split; cbn; auto; lia.
Qed.

Theorem read_Proof_inv0 : safeP proof_inv0 read_Proof.
Proof.
  unfold read_Proof. eapply safe_bind; [apply read_Context_total|]. intros c Hc.
  eapply safe_bind; [apply safe_read_u8|]. intros nuq Hnuq.
  eapply safe_bind; [apply (safe_read_blob 2)|]. intros com Hcom.
  eapply safe_bind; [apply (safe_read_many_len _ _ _ read_Queries_ok)|]. intros tq [Htq Hlen].
  eapply safe_bind; [apply read_Queries_ok|]. intros cq Hcq.
  eapply safe_bind; [apply read_OodFrame_ok|]. intros ood Hood.
  eapply safe_bind; [apply read_FriProof_ok|]. intros fri Hfri.
  eapply safe_bind; [apply (safe_read_uint 8)|]. intros nonce _.
  eapply safe_bind; [apply (safe_read_option _ _ (safe_read_vec_of _ _ safe_read_u8))|]. intros gkr _.
  apply safe_ret. unfold proof_inv0. cbn [pr_context pr_num_unique_queries pr_commitments pr_trace_queries
    pr_constraint_queries pr_ood_frame pr_fri_proof].
  split; [exact Hc|]. split; [exact Hnuq|]. split; [exact Hcom|]. split; [exact Htq|].
  split; [|split; [exact Hcq|split; [exact Hood|exact Hfri]]].
  rewrite Hlen. unfold ti_num_segments. destruct (ti_aux (ctx_trace_info c) >? 0); lia.
Qed.

Theorem read_Proof_inv : safeP proof_inv read_Proof.
Proof.
  intros bs Hbs. pose proof (read_Proof_inv0 bs Hbs) as H0. pose proof (read_Proof_meta_bytes bs Hbs) as H1.
  destruct (read_Proof bs) as [[p rest]| |]; auto. destruct H0 as [H0 Hr]. destruct (H1 p rest eq_refl) as [H1' _].
  split; [split; assumption | assumption].
Qed.

(* ------------------------------------------------------------------------------------------ the theorems *)
(* Proof::from_bytes answers Ok or Err on every byte string *)
Theorem parse_total : forall bs, is_bytes bs -> parse bs <> Panic.
Proof.
  intros bs Hbs. unfold parse, parse_prefix. pose proof (read_Proof_no_panic bs Hbs) as H.
  destruct (read_Proof bs) as [[p rest]| |]; [discriminate | discriminate | contradiction].
Qed.

Theorem parse_total' : forall bs, is_bytes bs -> (exists p, parse bs = Ok p) \/ (exists e, parse bs = Err e).
Proof.
  intros bs Hbs. pose proof (parse_total bs Hbs) as H. destruct (parse bs) as [p|e|]; [left; eauto | right; eauto | congruence].
Qed.

Theorem parse_inv : forall bs p, is_bytes bs -> parse bs = Ok p -> proof_inv p.
Proof.
  intros bs p Hbs. unfold parse, parse_prefix. pose proof (read_Proof_inv bs Hbs) as H.
  destruct (read_Proof bs) as [[q rest]| |]; intros E; try discriminate. inversion E; subst. apply H.
Qed.

(* explicit arithmetic content of [context_ok] *)
Lemma context_ok_facts c : context_ok c ->
  let t := ctx_trace_info c in let o := ctx_options c in
  0 < ti_main t /\ 0 <= ti_aux t /\ ti_main t + ti_aux t <= 255 /\ 0 <= ti_rands t <= 255 /\
  8 <= ti_length t /\ is_pow2 (ti_length t) = true /\ ti_length t * po_blowup_factor o <= 2 ^ 32 - 1 /\
  1 <= po_num_queries o <= 255 /\ In (po_blowup_factor o) [2; 4; 8; 16; 32; 64; 128] /\
  0 <= po_grinding_factor o <= 32 /\ In (po_fri_folding_factor o) [2; 4; 8; 16] /\
  In (po_fri_remainder_max_degree o) [0; 1; 3; 7; 15; 31; 63; 127; 255].
Proof.
  intros (Ht & Ho & _ & Hnew). cbv zeta.
  destruct Ht as (main & aux & rands & length_ & meta & Hm & Ha & Hr & Hl & Hti).
  apply TraceInfo_new_inv in Hti. destruct Hti as (H1 & H2 & H3 & H4 & H5 & H6 & H7 & Hteq).
  apply Context_new_inv in Hnew. destruct Hnew as (_ & Hlde & _).
  apply wf_ProofOptions_explicit in Ho. destruct Ho as (O1 & O2 & O3 & O4 & O5).
  rewrite Hteq in *. cbn [ti_main ti_aux ti_rands ti_length] in *.
  repeat split; auto; lia.
Qed.
