(* C20 — math/src/utils: batch_inversion, get_power_series(_with_offset), add_in_place, mul_acc.  stdlib style. *)
From Coq Require Import List Arith Bool Lia Ring Field.
From VBase Require Import FieldOps.
From VModel Require Import Polynom.
From VProofs Require Import PolyBase.
Import ListNotations.

Section Utils.
Context {F : Type} (O : FOps F) (L : FLaws O).
Local Notation zero := (fzero O).
Local Notation one := (fone O).
Local Notation "a +f b" := (fadd O a b) (at level 50, left associativity).
Local Notation "a -f b" := (fsub O a b) (at level 50, left associativity).
Local Notation "a *f b" := (fmul O a b) (at level 40, left associativity).
Local Notation peval := (peval O).
Local Notation fpow := (fpow O).

Add Ring Fring : (FLaws_ring_theory O L).
Add Field Ffield : (FLaws_field_theory O L).

(* ------------------------------------------------------------------ batch inversion *)
Definition inv0 (v : F) : F := if feqb O v zero then zero else finv O v.

Fixpoint nzprod (vs : list F) : F :=
  match vs with [] => one | v :: t => if feqb O v zero then nzprod t else v *f nzprod t end.

Lemma nzprod_nonzero vs : nzprod vs <> zero.
Proof.
  induction vs as [|v t IH]; simpl. apply (fl_one_neq_zero O L).
  destruct (feqb O v zero) eqn:E; auto. apply (feqb_false O L) in E. now apply (fmul_nonzero O L).
Qed.

Lemma binv_main : forall vs a r l, a <> zero -> binv_fwd O vs a = (r, l) ->
  l = a *f nzprod vs /\ length r = length vs /\
  binv_bwd O vs r (finv O (a *f nzprod vs)) = (map inv0 vs, finv O a).
Proof.
  induction vs as [|v t IH]; intros a r l Ha E.
  - simpl in E. inversion E; subst. simpl. replace (l *f one) with l by ring. repeat split.
  - cbn [binv_fwd] in E.
    destruct (binv_fwd O t (if feqb O v zero then a else a *f v)) as [r1 l1] eqn:E1.
    inversion E; subst r l. clear E.
    cbn [nzprod map binv_bwd length]. unfold inv0 at 1.
    destruct (feqb O v zero) eqn:Ev.
    + destruct (IH a r1 l1 Ha E1) as (H1 & H2 & H3). rewrite H3. repeat split; auto.
    + apply (feqb_false O L) in Ev.
      assert (Hav : a *f v <> zero) by now apply (fmul_nonzero O L).
      destruct (IH (a *f v) r1 l1 Hav E1) as (H1 & H2 & H3).
      replace (a *f (v *f nzprod t)) with (a *f v *f nzprod t) by ring.
      rewrite H3. split. { rewrite H1. ring. } split. { now rewrite H2. }
      f_equal.
      * f_equal. field. auto.
      * field. auto.
Qed.

Lemma batch_inversion_spec vs : batch_inversion O vs = map inv0 vs.
Proof.
  unfold batch_inversion. destruct (binv_fwd O vs one) as [r l] eqn:E.
  destruct (binv_main vs one r l (fl_one_neq_zero O L) E) as (H1 & _ & H3).
  subst l. rewrite H3. reflexivity.
Qed.

(* the form asked by the property: zeros are preserved, every other entry is inverted *)
Lemma batch_inversion_nth vs i : i < length vs ->
  nth i (batch_inversion O vs) zero = if feqb O (nth i vs zero) zero then zero else finv O (nth i vs zero).
Proof.
  intros H. rewrite batch_inversion_spec.
  rewrite (nth_indep _ zero (inv0 zero)) by now rewrite map_length.
  rewrite map_nth. reflexivity.
Qed.

Lemma batch_inversion_length vs : length (batch_inversion O vs) = length vs.
Proof. rewrite batch_inversion_spec. apply map_length. Qed.

Lemma batch_inversion_mul vs i : i < length vs -> nth i vs zero <> zero ->
  nth i vs zero *f nth i (batch_inversion O vs) zero = one.
Proof.
  intros H Hz. rewrite batch_inversion_nth by assumption.
  rewrite (feqb_neq O L) by assumption. now apply (finv_r O L).
Qed.

Lemma batch_inversion_eq_map_inv vs : batch_inversion O vs = map (finv O) vs.
Proof.
  rewrite batch_inversion_spec. apply map_ext. intros v. unfold inv0.
  destruct (feqb O v zero) eqn:E; auto. apply (feqb_true O L) in E. subst. symmetry. apply (fl_inv_0 O L).
Qed.

(* ------------------------------------------------------------------ power series *)
Fixpoint pows (s b : F) (n : nat) : list F :=
  match n with 0 => [] | S n' => s :: pows (s *f b) b n' end.

Lemma pows_length s b n : length (pows s b n) = n.
Proof. revert s; induction n; simpl; auto. Qed.

Lemma pows_snoc : forall n s b, pows s b (S n) = pows s b n ++ [s *f fpow b n].
Proof.
  induction n; intros s b. simpl. f_equal. ring.
  change (pows s b (S (S n))) with (s :: pows (s *f b) b (S n)). rewrite IHn. simpl. do 3 f_equal. ring.
Qed.

Lemma pows_nth : forall n s b i, i < n -> nth i (pows s b n) zero = s *f fpow b i.
Proof.
  induction n; intros s b i H. lia.
  destruct i; simpl. ring. rewrite IHn by lia. ring.
Qed.

Definition fps_body (base : F) : nat -> list F -> Result (list F) :=
  fun i r => prev <- get r (i - 1);; set r i (prev *f base).

Lemma fps_loop s b : forall rest m, 1 <= m ->
  for_up m (length rest) (fps_body b) (pows s b m ++ rest) = Ok (pows s b (m + length rest)).
Proof.
  induction rest as [|d rest IH]; intros m Hm.
  - simpl. now rewrite app_nil_r, Nat.add_0_r.
  - cbn [length for_up]. unfold fps_body at 1.
    rewrite (get_ok _ (m - 1) zero) by (rewrite app_length, pows_length; simpl; lia).
    rewrite app_nth1 by (rewrite pows_length; lia). rewrite pows_nth by lia. cbn [bind].
    rewrite set_ok by (rewrite app_length, pows_length; simpl; lia).
    assert (Hu : upd (pows s b m ++ d :: rest) m (s *f fpow b (m - 1) *f b) = pows s b (S m) ++ rest).
    { rewrite <- (pows_length s b m) at 2. rewrite upd_app_mid. rewrite pows_snoc, <- app_assoc. simpl.
      do 2 f_equal. destruct m; [lia|]. simpl. rewrite Nat.sub_0_r. ring. }
    rewrite Hu. rewrite IH by lia. f_equal. f_equal. lia.
Qed.

Lemma fill_power_series_spec n junk b s : length junk = n ->
  fill_power_series O junk b s = Ok (pows s b n).
Proof.
  intros H. unfold fill_power_series. destruct junk as [|d rest]; simpl in H; subst n. reflexivity.
  rewrite set_ok by (simpl; lia). cbn [upd bind length]. rewrite Nat.sub_succ, Nat.sub_0_r.
  change (s :: rest) with (pows s b 1 ++ rest).
  exact (fps_loop s b rest 1 (le_n 1)).
Qed.

Lemma get_power_series_spec b n :
  exists l, get_power_series O b n = Ok l /\ length l = n /\ forall i, i < n -> nth i l zero = fpow b i.
Proof.
  exists (pows one b n). split. apply fill_power_series_spec, repeat_length.
  split. apply pows_length. intros i Hi. rewrite pows_nth by assumption. ring.
Qed.

Lemma get_power_series_with_offset_spec b s n :
  exists l, get_power_series_with_offset O b s n = Ok l /\ length l = n /\
            forall i, i < n -> nth i l zero = s *f fpow b i.
Proof.
  exists (pows (s *f one) b n). split. apply fill_power_series_spec, repeat_length.
  split. apply pows_length. intros i Hi. rewrite pows_nth by assumption. ring.
Qed.

(* ------------------------------------------------------------------ add_in_place / mul_acc *)
Lemma zip_with_length {A B C} (f : A -> B -> C) : forall a b, length a = length b -> length (zip_with f a b) = length a.
Proof. induction a; destruct b; simpl; intros H; try discriminate; auto. Qed.

Lemma zip_with_nth {A B C} (f : A -> B -> C) da db dc : forall a b i, length a = length b -> i < length a ->
  nth i (zip_with f a b) dc = f (nth i a da) (nth i b db).
Proof.
  induction a; destruct b; simpl; intros i H Hi; try discriminate; try lia.
  destruct i; auto. apply IHa; lia.
Qed.

Lemma add_in_place_spec a b :
  (length a = length b ->
     exists r, add_in_place O a b = Ok r /\ length r = length a /\
               forall i, i < length a -> nth i r zero = nth i a zero +f nth i b zero) /\
  (add_in_place O a b <> Panic <-> length a = length b).
Proof.
  unfold add_in_place. split.
  - intros H. rewrite (proj2 (Nat.eqb_eq _ _) H). eexists. split; [reflexivity|].
    split. now apply zip_with_length. intros i Hi. now apply zip_with_nth.
  - destruct (Nat.eqb_spec (length a) (length b)); split; intros; auto; try discriminate. congruence.
Qed.

Lemma mul_acc_spec a b c :
  (length a = length b ->
     exists r, mul_acc O a b c = Ok r /\ length r = length a /\
               forall i, i < length a -> nth i r zero = nth i a zero +f nth i b zero *f c) /\
  (mul_acc O a b c <> Panic <-> length a = length b).
Proof.
  unfold mul_acc. split.
  - intros H. rewrite (proj2 (Nat.eqb_eq _ _) H). eexists. split; [reflexivity|].
    split. now apply zip_with_length. intros i Hi.
    rewrite (zip_with_nth _ zero zero zero) by assumption. ring.
  - destruct (Nat.eqb_spec (length a) (length b)); split; intros; auto; try discriminate. congruence.
Qed.

End Utils.
