(* f62 inversion: the binary extended Euclid of math/src/field/f62/mod.rs (fn inv), generated as
   f62_fn_inv with fuelled while loops.  Partial correctness for every fuel by loop invariants;
   termination within fuel 66 whenever x is a unit modulo M (always, M being prime). *)
From Coq Require Import ZArith Lia Zdiv Bool Setoid Morphisms Znumtheory.
From VBase Require Import MachInt.
From VGen Require Import F62.
From VProofs Require Import F62Ops.
Open Scope Z_scope.

(* lia on goals with x / 2 and x mod 2 (this file only) *)
Local Ltac Zify.zify_post_hook ::= Z.div_mod_to_equations.

(* ---------- generic rules for the fuelled loops of Base/MachInt.v ---------- *)
Lemma while_loop_inv {S : Type} (Inv : S -> Prop) (cond : S -> bool) (body : S -> S) :
  (forall s, Inv s -> cond s = true -> Inv (body s)) ->
  forall fuel s s', Inv s -> while_loop fuel cond body s = Some s' -> Inv s' /\ cond s' = false.
Proof.
  intros Hs. induction fuel as [|f IH]; intros s s' Hi H; cbn [while_loop] in H;
    destruct (cond s) eqn:E; try discriminate.
  - injection H as <-. auto.
  - apply IH in H; auto.
  - injection H as <-. auto.
Qed.

Lemma while_loop_o_inv {S : Type} (Inv : S -> Prop) (cond : S -> bool) (body : S -> option S) :
  (forall s s1, Inv s -> cond s = true -> body s = Some s1 -> Inv s1) ->
  forall fuel s s', Inv s -> while_loop_o fuel cond body s = Some s' -> Inv s' /\ cond s' = false.
Proof.
  intros Hs. induction fuel as [|f IH]; intros s s' Hi H; cbn [while_loop_o] in H;
    destruct (cond s) eqn:E; try discriminate.
  - injection H as <-. auto.
  - destruct (body s) as [s1|] eqn:Eb; [|discriminate]. apply IH in H; eauto.
  - injection H as <-. auto.
Qed.

(* termination: an invariant indexed by a budget that strictly decreases and stays >= 0 *)
Lemma while_loop_term {S : Type} (I : Z -> S -> Prop) (cond : S -> bool) (body : S -> S) :
  (forall k s, I k s -> cond s = true -> exists k', 0 <= k' < k /\ I k' (body s)) ->
  forall fuel k s, I k s -> k <= Z.of_nat fuel -> exists s', while_loop fuel cond body s = Some s'.
Proof.
  intros Hs. induction fuel as [|f IH]; intros k s Hi Hk; cbn [while_loop];
    destruct (cond s) eqn:E; try (eexists; reflexivity).
  - destruct (Hs k s Hi E) as (k' & Hk' & _). lia.
  - destruct (Hs k s Hi E) as (k' & Hk' & Hi'). apply (IH k'); [exact Hi'|lia].
Qed.

Lemma while_loop_o_term {S : Type} (I : Z -> S -> Prop) (cond : S -> bool) (body : S -> option S) :
  (forall k s, I k s -> cond s = true -> exists k' s1, body s = Some s1 /\ 0 <= k' < k /\ I k' s1) ->
  forall fuel k s, I k s -> k <= Z.of_nat fuel -> exists s', while_loop_o fuel cond body s = Some s'.
Proof.
  intros Hs. induction fuel as [|f IH]; intros k s Hi Hk; cbn [while_loop_o];
    destruct (cond s) eqn:E; try (eexists; reflexivity).
  - destruct (Hs k s Hi E) as (k' & s1 & _ & Hk' & _). lia.
  - destruct (Hs k s Hi E) as (k' & s1 & Eb & Hk' & Hi'). rewrite Eb. apply (IH k'); [exact Hi'|lia].
Qed.

(* ---------- the structure of the generated term ---------- *)
Definition hcond (p : Z * Z) : bool := let '(d, u) := p in Z.land u 1 =? 0.
Definition hbody (p : Z * Z) : Z * Z :=
  let '(d, u) := p in
  let d := if Z.land d 1 =? 1 then (let d := wrap 128 (d + f62_M) in d) else d in
  let u := shr u 1 in
  let d := shr d 1 in
  (d, u).

Definition ucond (v : Z) (p : Z * Z) : bool := let '(u, d) := p in v <? u.
Definition ustep (fuel : nat) (v a : Z) (p : Z * Z) : option (Z * Z) :=
  let '(u, d) := p in
  let u := wrap 128 (u - v) in
  let d := wrap 128 (d + a) in
  match while_loop fuel hcond hbody (d, u) with
  | None => None
  | Some (d, u) => Some (u, d)
  end.

Definition ocond (p : Z * Z * Z * Z) : bool := let '(u, d, v, a) := p in negb (v =? 1).
Definition ostep (fuel : nat) (p : Z * Z * Z * Z) : option (Z * Z * Z * Z) :=
  let '(u, d, v, a) := p in
  match while_loop_o fuel (ucond v) (ustep fuel v a) (u, d) with
  | None => None
  | Some (u, d) =>
    let v := wrap 128 (v - u) in
    let a := wrap 128 (a + d) in
    match while_loop fuel hcond hbody (a, v) with
    | None => None
    | Some (a, v) => Some (u, d, v, a)
    end
  end.

Definition inv_u0 (x : Z) : Z := if Z.land x 1 =? 1 then x else wrap 128 (x + f62_M).

Definition inv_struct (fuel : nat) (x : Z) : option Z :=
  if (x =? 0) || (x =? f62_M) then Some 0 else
  match while_loop_o fuel ocond (ostep fuel) (inv_u0 x, wrap 128 (f62_M - 1), f62_M, 0) with
  | None => None
  | Some (u, d, v, a) =>
    match while_loop fuel (fun a => a >? f62_M) (fun a => wrap 128 (a - f62_M)) a with
    | None => None
    | Some a => Some (f62_fn_mul (wrap 64 a) f62_R3)
    end
  end.

(* fails (and with it the whole check) if the shape of the Rust function changes *)
Lemma fn_inv_struct fuel x : f62_fn_inv fuel x = inv_struct fuel x.
Proof. reflexivity. Qed.

(* ---------- halving loops ---------- *)
Lemma cancel2 a b : 2 * a ==m 2 * b -> a ==m b.
Proof.
  intros H.
  assert (E : 2 * 2305812497766023169 ==m 1) by (apply eqM62_iff; reflexivity).
  transitivity (2 * 2305812497766023169 * a); [rewrite E; now rewrite Z.mul_1_l|].
  replace (2 * 2305812497766023169 * a) with (2305812497766023169 * (2 * a)) by ring.
  rewrite H.
  replace (2305812497766023169 * (2 * b)) with (2 * 2305812497766023169 * b) by ring.
  rewrite E. now rewrite Z.mul_1_l.
Qed.

Lemma hbody_eq d u : 0 <= d < 2^127 -> 0 <= u ->
  exists d', hbody (d, u) = (d', u / 2) /\ (2 * d' = d \/ 2 * d' = d + M62) /\ 0 <= d'.
Proof.
  intros Hd Hu. cbv beta iota zeta delta [hbody]. rewrite land_1_mod2. unfold shr.
  change (2 ^ 1) with 2. rewrite M62_eq.
  destruct (Z.eqb_spec (d mod 2) 1) as [E|E].
  - rewrite wrap_small by (unfold M62; lia).
    exists ((d + M62) / 2). split; [reflexivity|]. unfold M62 in *. lia.
  - exists (d / 2). split; [reflexivity|]. lia.
Qed.

Lemma hcond_eq d u : hcond (d, u) = (u mod 2 =? 0).
Proof. cbv beta iota delta [hcond]. now rewrite land_1_mod2. Qed.

(* one pass of "make even, halve" keeps  d*x == s*u  and the bound B on d *)
Lemma halve_loop_spec x s B fuel d0 u0 d1 u1 :
  M62 <= B < 2^126 -> 0 <= d0 <= 2 * B - M62 -> 0 <= u0 -> u0 mod 2 = 0 -> d0 * x ==m s * u0 ->
  while_loop fuel hcond hbody (d0, u0) = Some (d1, u1) ->
  0 <= d1 <= B /\ 0 < u1 /\ 2 * u1 <= u0 /\ u1 mod 2 = 1 /\ (u1 | u0) /\ d1 * x ==m s * u1.
Proof.
  intros HB Hd0 Hu0 Hev Hc H. pose proof M62_pos as HMp.
  destruct fuel as [|f]; cbn [while_loop] in H; rewrite hcond_eq, Hev in H; cbn [Z.eqb] in H; [discriminate|].
  destruct (hbody_eq d0 u0 ltac:(lia) Hu0) as (d' & E & Hd' & Hd'0). rewrite E in H.
  pose (Inv := fun p : Z * Z => 0 <= snd p /\ 2 * snd p <= u0 /\ (snd p | u0) /\ 0 <= fst p <= B /\
                                fst p * x ==m s * snd p).
  assert (Hstep : forall p, Inv p -> hcond p = true -> Inv (hbody p)).
  { intros [d u] (Hu & Hu2 & Hdv & Hd & Hcg) Hcond. cbn [fst snd] in *.
    rewrite hcond_eq in Hcond. apply Z.eqb_eq in Hcond.
    destruct (hbody_eq d u ltac:(lia) Hu) as (d2 & E2 & Hd2 & Hd20). rewrite E2. unfold Inv. cbn [fst snd].
    assert (Eu : u = 2 * (u / 2)) by lia.
    split; [lia|]. split; [lia|]. split.
    { apply Z.divide_trans with u; [exists 2; lia|exact Hdv]. }
    split; [lia|].
    apply cancel2. rewrite !Z.mul_assoc.
    replace (s * (u / 2)) with (s * (u / 2)) by reflexivity.
    replace (2 * s * (u / 2)) with (s * (2 * (u / 2))) by ring. rewrite <- Eu.
    destruct Hd2 as [Hd2|Hd2]; rewrite Hd2; [exact Hcg|].
    rewrite Z.mul_add_distr_r, Hcg, eqm_M_0. apply eqm_refl_eq. ring. }
  assert (Hinit : Inv (d', u0 / 2)).
  { unfold Inv. cbn [fst snd]. assert (Eu : u0 = 2 * (u0 / 2)) by lia.
    split; [lia|]. split; [lia|]. split; [exists 2; lia|]. split; [lia|].
    apply cancel2. rewrite !Z.mul_assoc.
    replace (2 * s * (u0 / 2)) with (s * (2 * (u0 / 2))) by ring. rewrite <- Eu.
    destruct Hd' as [Hd'|Hd']; rewrite Hd'; [exact Hc|].
    rewrite Z.mul_add_distr_r, Hc, eqm_M_0. apply eqm_refl_eq. ring. }
  destruct (while_loop_inv Inv hcond hbody Hstep f _ _ Hinit H) as [(Hu & Hu2 & Hdv & Hd & Hcg) Hex].
  cbn [fst snd] in *. rewrite hcond_eq in Hex. apply Z.eqb_neq in Hex.
  assert (Hodd : u1 mod 2 = 1) by lia.
  split; [exact Hd|]. split; [lia|]. split; [exact Hu2|]. split; [exact Hodd|]. split; [exact Hdv|exact Hcg].
Qed.

Lemma halve_loop_term fuel d0 u0 : 0 < u0 < 2^64 -> (64 <= fuel)%nat ->
  exists s1, while_loop fuel hcond hbody (d0, u0) = Some s1.
Proof.
  intros Hu Hf.
  pose (I := fun (k : Z) (p : Z * Z) => 0 <= k /\ 0 < snd p < 2 ^ k).
  apply (while_loop_term I) with (k := 64); [|unfold I; cbn [snd]; lia|lia].
  intros k [d u] [Hk Hu'] Hcond. cbn [snd] in *. rewrite hcond_eq in Hcond. apply Z.eqb_eq in Hcond.
  assert (Hk1 : 1 <= k).
  { destruct (Z.eq_dec k 0) as [->|]; [|lia]. change (2 ^ 0) with 1 in Hu'. lia. }
  exists (k - 1). split; [lia|]. unfold I.
  assert (Es : snd (hbody (d, u)) = u / 2).
  { cbv beta iota zeta delta [hbody]. cbn [snd]. unfold shr. reflexivity. }
  rewrite Es. split; [lia|].
  assert (E2 : 2 ^ k = 2 * 2 ^ (k - 1)).
  { replace k with (Z.succ (k - 1)) at 1 by lia. apply Z.pow_succ_r. lia. }
  lia.
Qed.

(* ---------- the main invariant ---------- *)
(* a*x == v, d*x == -u (mod M); u, v odd and positive; u + v <= 2^k; the coefficients are bounded
   by M*(66-k) (each subtraction adds at most M/2 to them and halves u+v); common divisors of
   u and v divide x and M. *)
Definition J (x k u d v a : Z) : Prop :=
  0 <= k <= 64 /\ 0 < u /\ 0 < v /\ u mod 2 = 1 /\ v mod 2 = 1 /\ u + v <= 2 ^ k /\
  0 <= a <= M62 * (66 - k) /\ 0 <= d <= M62 * (66 - k) /\
  a * x ==m 1 * v /\ d * x ==m (-1) * u /\
  (forall t, (t | u) -> (t | v) -> (t | x) /\ (t | M62)).

Ltac Jsplit :=
  unfold J;
  (split; [|split; [|split; [|split; [|split; [|split; [|split; [|split; [|split; [|split]]]]]]]]]).

Lemma J_k_pos x k u d v a : J x k u d v a -> 1 <= k /\ 2 ^ k = 2 * 2 ^ (k - 1) /\ 2 ^ k <= 2 ^ 64.
Proof.
  intros (Hk & Hu & Hv & _ & _ & Hs & _).
  assert (Hk1 : 1 <= k).
  { destruct (Z.eq_dec k 0) as [->|]; [|lia]. change (2 ^ 0) with 1 in Hs. lia. }
  split; [exact Hk1|]. split.
  - replace k with (Z.succ (k - 1)) at 1 by lia. apply Z.pow_succ_r. lia.
  - apply Z.pow_le_mono_r; lia.
Qed.

Lemma ustep_spec x k fuel u d v a u1 d1 :
  J x k u d v a -> v < u -> ustep fuel v a (u, d) = Some (u1, d1) -> J x (k - 1) u1 d1 v a.
Proof.
  intros HJ Hlt H. destruct (J_k_pos _ _ _ _ _ _ HJ) as (Hk1 & E2 & Hp64).
  destruct HJ as (Hk & Hu & Hv & Huo & Hvo & Hs & Ha & Hd & Hca & Hcd & Hdiv).
  cbv beta iota zeta delta [ustep] in H.
  rewrite (wrap_small 128 (u - v)) in H by lia.
  rewrite (wrap_small 128 (d + a)) in H by (unfold M62 in *; lia).
  destruct (while_loop fuel hcond hbody (d + a, u - v)) as [[d2 u2]|] eqn:E; [|discriminate].
  injection H as <- <-.
  apply (halve_loop_spec x (-1) (M62 * (67 - k))) in E; try (unfold M62 in *; lia).
  2:{ rewrite Z.mul_add_distr_r, Hca, Hcd. apply eqm_refl_eq. ring. }
  destruct E as (Hd2 & Hu2 & Hu2' & Hu2o & Hu2d & Hc2).
  replace (66 - (k - 1)) with (67 - k) by ring.
  Jsplit; try assumption; try (unfold M62 in *; lia).
  intros t Ht1 Ht2. apply Hdiv; [|assumption].
  replace u with ((u - v) + v) by ring. apply Z.divide_add_r; [|assumption].
  apply Z.divide_trans with u2; assumption.
Qed.

Lemma ustep_term x k fuel u d v a :
  J x k u d v a -> v < u -> (64 <= fuel)%nat -> exists s1, ustep fuel v a (u, d) = Some s1.
Proof.
  intros HJ Hlt Hf. destruct (J_k_pos _ _ _ _ _ _ HJ) as (Hk1 & E2 & Hp64).
  destruct HJ as (Hk & Hu & Hv & Huo & Hvo & Hs & Ha & Hd & Hca & Hcd & Hdiv).
  cbv beta iota zeta delta [ustep].
  rewrite (wrap_small 128 (u - v)) by lia.
  destruct (halve_loop_term fuel (wrap 128 (d + a)) (u - v) ltac:(lia) Hf) as [[d2 u2] E].
  rewrite E. eexists; reflexivity.
Qed.

Lemma uloop_spec x k fuel u d v a u1 d1 :
  J x k u d v a -> while_loop_o fuel (ucond v) (ustep fuel v a) (u, d) = Some (u1, d1) ->
  exists k1, k1 <= k /\ J x k1 u1 d1 v a /\ u1 <= v.
Proof.
  intros HJ H.
  pose (Inv := fun p : Z * Z => exists k1, k1 <= k /\ J x k1 (fst p) (snd p) v a).
  assert (Hstep : forall s s1, Inv s -> ucond v s = true -> ustep fuel v a s = Some s1 -> Inv s1).
  { intros [u' d'] [u2 d2] (k1 & Hk1 & HJ1) Hc Hs. cbn [fst snd] in *.
    cbv beta iota delta [ucond] in Hc. apply Z.ltb_lt in Hc.
    exists (k1 - 1). split; [lia|]. cbn [fst snd]. eapply ustep_spec; eassumption. }
  assert (Hinit : Inv (u, d)) by (exists k; split; [lia|exact HJ]).
  destruct (while_loop_o_inv Inv _ _ Hstep fuel _ _ Hinit H) as [(k1 & Hk1 & HJ1) Hex].
  cbn [fst snd] in *. cbv beta iota delta [ucond] in Hex. apply Z.ltb_ge in Hex.
  exists k1. auto.
Qed.

Lemma uloop_term x k fuel u d v a :
  J x k u d v a -> (64 <= fuel)%nat ->
  exists s1, while_loop_o fuel (ucond v) (ustep fuel v a) (u, d) = Some s1.
Proof.
  intros HJ Hf.
  pose (I := fun (k1 : Z) (p : Z * Z) => J x k1 (fst p) (snd p) v a).
  apply (while_loop_o_term I) with (k := k); [|exact HJ|destruct HJ; lia].
  intros k1 [u' d'] HJ1 Hc. unfold I in HJ1. cbn [fst snd] in HJ1.
  cbv beta iota delta [ucond] in Hc. apply Z.ltb_lt in Hc.
  destruct (ustep_term _ _ fuel _ _ _ _ HJ1 Hc Hf) as [[u2 d2] E].
  exists (k1 - 1), (u2, d2). split; [exact E|].
  pose proof (ustep_spec _ _ _ _ _ _ _ _ _ HJ1 Hc E) as HJ2.
  split; [destruct HJ2; lia|exact HJ2].
Qed.

Lemma ostep_spec x k fuel u d v a u' d' v' a' :
  J x k u d v a -> ostep fuel (u, d, v, a) = Some (u', d', v', a') ->
  exists k', 0 <= k' < k /\ J x k' u' d' v' a'.
Proof.
  intros HJ H. cbv beta iota zeta delta [ostep] in H.
  destruct (while_loop_o fuel (ucond v) (ustep fuel v a) (u, d)) as [[u1 d1]|] eqn:E1; [|discriminate].
  destruct (uloop_spec _ _ _ _ _ _ _ _ _ HJ E1) as (k1 & Hk1 & HJ1 & Hle).
  destruct (J_k_pos _ _ _ _ _ _ HJ1) as (Hk11 & E2 & Hp64).
  destruct HJ1 as (Hk & Hu & Hv & Huo & Hvo & Hs & Ha & Hd & Hca & Hcd & Hdiv).
  rewrite (wrap_small 128 (v - u1)) in H by lia.
  rewrite (wrap_small 128 (a + d1)) in H by (unfold M62 in *; lia).
  destruct (while_loop fuel hcond hbody (a + d1, v - u1)) as [[a2 v2]|] eqn:E; [|discriminate].
  injection H as <- <- <- <-.
  apply (halve_loop_spec x 1 (M62 * (67 - k1))) in E; try (unfold M62 in *; lia).
  2:{ rewrite Z.mul_add_distr_r, Hca, Hcd. apply eqm_refl_eq. ring. }
  destruct E as (Ha2 & Hv2 & Hv2' & Hv2o & Hv2d & Hc2).
  exists (k1 - 1). split; [lia|].
  replace (66 - (k1 - 1)) with (67 - k1) by ring.
  Jsplit; try assumption; try (unfold M62 in *; lia).
  intros t Ht1 Ht2. apply Hdiv; [assumption|].
  replace v with ((v - u1) + u1) by ring. apply Z.divide_add_r; [|assumption].
  apply Z.divide_trans with v2; assumption.
Qed.

Lemma ostep_term x k fuel u d v a :
  J x k u d v a -> v <> 1 -> rel_prime x M62 -> (64 <= fuel)%nat ->
  exists s1, ostep fuel (u, d, v, a) = Some s1.
Proof.
  intros HJ Hv1 Hrp Hf. cbv beta iota zeta delta [ostep].
  destruct (uloop_term _ _ fuel _ _ _ _ HJ Hf) as [[u1 d1] E1]. rewrite E1.
  destruct (uloop_spec _ _ _ _ _ _ _ _ _ HJ E1) as (k1 & Hk1 & HJ1 & Hle).
  destruct (J_k_pos _ _ _ _ _ _ HJ1) as (Hk11 & E2 & Hp64).
  destruct HJ1 as (Hk & Hu & Hv & Huo & Hvo & Hs & Ha & Hd & Hca & Hcd & Hdiv).
  (* u1 = v would make v a common divisor of x and M *)
  assert (Hne : u1 <> v).
  { intros ->. destruct (Hdiv v (Z.divide_refl v) (Z.divide_refl v)) as [Hx HM].
    destruct Hrp as [_ _ Hg]. specialize (Hg v Hx HM).
    apply Z.divide_1_r_nonneg in Hg; lia. }
  rewrite (wrap_small 128 (v - u1)) by lia.
  destruct (halve_loop_term fuel (wrap 128 (a + d1)) (v - u1) ltac:(lia) Hf) as [[a2 v2] E].
  rewrite E. eexists; reflexivity.
Qed.

(* ---------- the whole function ---------- *)
Definition Jst (x k : Z) (p : Z * Z * Z * Z) : Prop :=
  let '(u, d, v, a) := p in J x k u d v a.

Lemma J_init x : repr62 x -> x <> 0 -> x <> M62 ->
  Jst x 64 (inv_u0 x, wrap 128 (f62_M - 1), f62_M, 0).
Proof.
  unfold repr62. intros Hx H0 HM. unfold Jst, inv_u0. rewrite land_1_mod2, M62_eq.
  rewrite (wrap_small 128 (M62 - 1)) by (unfold M62; lia).
  assert (HMo : M62 mod 2 = 1) by reflexivity.
  assert (Hcd : (M62 - 1) * x ==m -1 * x).
  { rewrite Z.mul_sub_distr_r, eqm_M_0. apply eqm_refl_eq. ring. }
  assert (Hca : 0 * x ==m 1 * M62) by (rewrite eqm_M_0; reflexivity).
  destruct (Z.eqb_spec (x mod 2) 1) as [E|E].
  - Jsplit; try assumption; try (unfold M62 in *; lia). auto.
  - rewrite (wrap_small 128 (x + M62)) by (unfold M62 in *; lia).
    assert (Hdx : forall t, (t | x + M62) -> (t | M62) -> (t | x)).
    { intros t H1 H2. replace x with ((x + M62) - M62) by ring. apply Z.divide_sub_r; assumption. }
    Jsplit; try assumption; try (unfold M62 in *; lia); auto.
    rewrite Hcd, Z.mul_add_distr_l, eqm_M_0. apply eqm_refl_eq. ring.
Qed.

Lemma outer_spec x fuel s s' k : Jst x k s ->
  while_loop_o fuel ocond (ostep fuel) s = Some s' ->
  let '(u, d, v, a) := s' in exists k', J x k' u d v a /\ v = 1.
Proof.
  intros HJ H.
  pose (Inv := fun p => exists k1, Jst x k1 p).
  assert (Hstep : forall s s1, Inv s -> ocond s = true -> ostep fuel s = Some s1 -> Inv s1).
  { intros [[[u d] v] a] [[[u1 d1] v1] a1] (k1 & HJ1) _ Hs. unfold Jst in HJ1.
    destruct (ostep_spec _ _ _ _ _ _ _ _ _ _ _ HJ1 Hs) as (k2 & _ & HJ2). exists k2. exact HJ2. }
  destruct (while_loop_o_inv Inv _ _ Hstep fuel _ _ (ex_intro _ k HJ) H) as [(k1 & HJ1) Hex].
  destruct s' as [[[u d] v] a]. exists k1. split; [exact HJ1|].
  cbv beta iota delta [ocond] in Hex. apply negb_false_iff, Z.eqb_eq in Hex. exact Hex.
Qed.

Lemma outer_term x fuel s : Jst x 64 s -> rel_prime x M62 -> (64 <= fuel)%nat ->
  exists s', while_loop_o fuel ocond (ostep fuel) s = Some s'.
Proof.
  intros HJ Hrp Hf.
  apply (while_loop_o_term (Jst x)) with (k := 64); [|exact HJ|lia].
  intros k [[[u d] v] a] HJ1 Hc. unfold Jst in HJ1.
  cbv beta iota delta [ocond] in Hc. apply negb_true_iff, Z.eqb_neq in Hc.
  destruct (ostep_term _ _ fuel _ _ _ _ HJ1 Hc Hrp Hf) as [[[[u1 d1] v1] a1] E].
  destruct (ostep_spec _ _ _ _ _ _ _ _ _ _ _ HJ1 E) as (k2 & Hk2 & HJ2).
  exists k2, (u1, d1, v1, a1). split; [exact E|]. split; [exact Hk2|exact HJ2].
Qed.

(* final "while a > M: a -= M" *)
Lemma final_spec x fuel a a' : 0 <= a <= 66 * M62 -> a * x ==m 1 ->
  while_loop fuel (fun a => a >? f62_M) (fun a => wrap 128 (a - f62_M)) a = Some a' ->
  0 <= a' <= M62 /\ a' * x ==m 1.
Proof.
  intros Ha Hc H.
  pose (Inv := fun a : Z => 0 <= a <= 66 * M62 /\ a * x ==m 1).
  assert (Hstep : forall s, Inv s -> (s >? f62_M) = true -> Inv (wrap 128 (s - f62_M))).
  { intros s [Hs Hcs] Hgt. rewrite M62_eq in *. apply Z.gtb_lt in Hgt.
    rewrite wrap_small by (unfold M62 in *; lia). split; [lia|].
    rewrite Z.mul_sub_distr_r, eqm_M_0, Hcs. apply eqm_refl_eq. ring. }
  destruct (while_loop_inv Inv _ _ Hstep fuel _ _ (conj Ha Hc) H) as [[Ha' Hc'] Hex].
  rewrite M62_eq in Hex. split; [|exact Hc'].
  destruct (Z.gtb_spec a' M62); [discriminate|lia].
Qed.

Lemma final_term fuel a : 0 <= a <= 66 * M62 -> (66 <= fuel)%nat ->
  exists a', while_loop fuel (fun a => a >? f62_M) (fun a => wrap 128 (a - f62_M)) a = Some a'.
Proof.
  intros Ha Hf.
  pose (I := fun (k a : Z) => 0 <= k <= 66 /\ 0 <= a <= k * M62).
  apply (while_loop_term I) with (k := 66); [|unfold I; lia|lia].
  intros k s [Hk Hs] Hgt. rewrite M62_eq in *. apply Z.gtb_lt in Hgt.
  exists (k - 1). rewrite wrap_small by (unfold M62 in *; lia).
  unfold I, M62 in *. lia.
Qed.

Lemma val62_zero_words x : repr62 x -> (val62 x = 0 <-> x = 0 \/ x = M62).
Proof.
  unfold repr62. intros Hx. rewrite val62_zero_iff. split.
  - intros H. apply Z.mod_divide in H; [|unfold M62; lia]. destruct H as [q H].
    assert (q = 0 \/ q = 1) by (unfold M62 in *; lia). lia.
  - intros [->| ->]; [reflexivity|apply Z.mod_same; unfold M62; lia].
Qed.

Theorem f62_fn_inv_zero fuel : f62_fn_inv fuel 0 = Some 0 /\ f62_fn_inv fuel M62 = Some 0.
Proof. split; reflexivity. Qed.

(* partial correctness, for every fuel and every word of the lazy range *)
Theorem f62_inv_sound_partial fuel x r : repr62 x -> f62_fn_inv fuel x = Some r ->
  repr62 r /\ (val62 r * val62 x) mod M62 = (if val62 x =? 0 then 0 else 1).
Proof.
  intros Hx H. rewrite fn_inv_struct in H. unfold inv_struct in H. rewrite M62_eq in H.
  destruct (Z.eqb_spec x 0) as [E0|E0].
  { cbn [orb] in H. injection H as <-. split; [exact repr62_0|].
    subst x. reflexivity. }
  destruct (Z.eqb_spec x M62) as [EM|EM].
  { cbn [orb] in H. injection H as <-. split; [exact repr62_0|].
    subst x. reflexivity. }
  cbn [orb] in H. rewrite <- M62_eq in H.
  destruct (while_loop_o fuel ocond (ostep fuel) _) as [[[[u d] v] a]|] eqn:E1; [|discriminate].
  pose proof (outer_spec x fuel _ _ 64 (J_init x Hx E0 EM) E1) as (k' & HJ & Hv1).
  cbv beta iota in HJ. subst v.
  destruct (J_k_pos _ _ _ _ _ _ HJ) as (Hk1 & _).
  destruct HJ as (Hk & Hu & _ & _ & _ & _ & Ha & _ & Hca & _).
  destruct (while_loop fuel _ _ a) as [a'|] eqn:E2; [|discriminate].
  injection H as <-.
  apply (final_spec x) in E2; [|unfold M62 in *; lia|rewrite Hca; reflexivity].
  destruct E2 as [Ha' Hca'].
  rewrite (wrap_small 64 a') by (unfold M62 in *; lia).
  assert (Hab : a' * f62_R3 < 2^64 * M62) by (unfold f62_R3, M62 in *; nia).
  destruct (fn_mul_spec a' f62_R3 ltac:(lia) ltac:(unfold f62_R3; lia) Hab) as [Hr Hc].
  split; [exact Hr|].
  set (r := f62_fn_mul a' f62_R3) in *.
  assert (Hone : val62 r * val62 x ==m 1).
  { rewrite !eqm_val.
    transitivity (r * Rinv62 * (x * Rinv62) * (2^64 * Rinv62)).
    { rewrite eqm_R_Rinv. now rewrite Z.mul_1_r. }
    replace (r * Rinv62 * (x * Rinv62) * (2^64 * Rinv62))
      with (r * 2^64 * (x * (Rinv62 * Rinv62 * Rinv62))) by ring.
    rewrite Hc.
    replace (a' * f62_R3 * (x * (Rinv62 * Rinv62 * Rinv62)))
      with (a' * x * (f62_R3 * Rinv62 * Rinv62 * Rinv62)) by ring.
    rewrite Hca'.
    assert (E3 : f62_R3 * Rinv62 * Rinv62 * Rinv62 ==m 1) by (apply eqM62_iff; reflexivity).
    rewrite E3. reflexivity. }
  assert (Hm : (val62 r * val62 x) mod M62 = 1) by (apply eqm_to_mod; [unfold M62; lia|exact Hone]).
  rewrite Hm.
  destruct (Z.eqb_spec (val62 x) 0) as [Ez|Ez]; [|reflexivity].
  rewrite Ez, Z.mul_0_r in Hm. discriminate.
Qed.

(* termination: fuel 66 is enough whenever x is invertible modulo M (or zero) *)
Theorem f62_inv_terminates_unit fuel x : repr62 x -> (x mod M62 <> 0 -> rel_prime x M62) ->
  (66 <= fuel)%nat -> exists r, f62_fn_inv fuel x = Some r.
Proof.
  intros Hx Hrp Hf. rewrite fn_inv_struct. unfold inv_struct. rewrite M62_eq.
  destruct (Z.eqb_spec x 0) as [E0|E0]; [eexists; reflexivity|].
  destruct (Z.eqb_spec x M62) as [EM|EM]; [eexists; reflexivity|].
  cbn [orb]. rewrite <- M62_eq.
  assert (Hnz : x mod M62 <> 0).
  { intros Hz. apply val62_zero_iff, (val62_zero_words x Hx) in Hz. tauto. }
  specialize (Hrp Hnz).
  destruct (outer_term x fuel _ (J_init x Hx E0 EM) Hrp ltac:(lia)) as [[[[u d] v] a] E1].
  rewrite E1.
  pose proof (outer_spec x fuel _ _ 64 (J_init x Hx E0 EM) E1) as (k' & HJ & Hv1).
  cbv beta iota in HJ.
  destruct (J_k_pos _ _ _ _ _ _ HJ) as (Hk1 & _).
  destruct HJ as (Hk & _ & _ & _ & _ & _ & Ha & _).
  destruct (final_term fuel a ltac:(unfold M62 in *; lia) Hf) as [a' E2].
  rewrite E2. eexists; reflexivity.
Qed.

Theorem f62_inv_terminates x : prime M62 -> repr62 x -> exists r, f62_fn_inv 400 x = Some r.
Proof.
  intros Hp Hx. apply f62_inv_terminates_unit; [exact Hx| |lia].
  intros Hnz. apply rel_prime_sym, prime_rel_prime; [exact Hp|].
  intros Hd. apply Hnz. apply Z.mod_divide; [unfold M62; lia|exact Hd].
Qed.

(* total correctness under primality of M (proved separately as P62_prime) *)
Theorem f62_inv_total x : prime M62 -> repr62 x ->
  exists r, f62_fn_inv 400 x = Some r /\ repr62 r /\
            (val62 r * val62 x) mod M62 = (if val62 x =? 0 then 0 else 1).
Proof.
  intros Hp Hx. destruct (f62_inv_terminates x Hp Hx) as [r E].
  exists r. split; [exact E|]. exact (f62_inv_sound_partial _ _ _ Hx E).
Qed.

(* ---------- the public wrappers ---------- *)
Lemma f62_inv_eq fuel x : f62_inv fuel x = f62_fn_inv fuel x.
Proof. unfold f62_inv. destruct (f62_fn_inv fuel x); reflexivity. Qed.

Theorem f62_inv_pub_sound_partial fuel x r : repr62 x -> f62_inv fuel x = Some r ->
  repr62 r /\ (val62 r * val62 x) mod M62 = (if val62 x =? 0 then 0 else 1).
Proof. rewrite f62_inv_eq. apply f62_inv_sound_partial. Qed.

Theorem f62_div_sound_partial fuel a b q : repr62 a -> repr62 b -> f62_div fuel a b = Some q ->
  repr62 q /\ (val62 q * val62 b) mod M62 = (if val62 b =? 0 then 0 else val62 a).
Proof.
  intros Ha Hb H. unfold f62_div in H.
  destruct (f62_fn_inv fuel b) as [r|] eqn:E; [|discriminate]. injection H as <-.
  destruct (f62_inv_sound_partial _ _ _ Hb E) as [Hr Hv].
  destruct (f62_mul_spec a r Ha Hr) as [Hq Hvq]. unfold f62_mul in *.
  split; [exact Hq|]. rewrite Hvq.
  rewrite Z.mul_mod_idemp_l by (unfold M62; lia).
  rewrite <- Z.mul_assoc, <- Z.mul_mod_idemp_r, Hv by (unfold M62; lia).
  destruct (val62 b =? 0).
  - rewrite Z.mul_0_r. reflexivity.
  - rewrite Z.mul_1_r. apply Z.mod_small, val62_range.
Qed.

(* ---------- non-vacuity / sanity by evaluation ---------- *)
Example f62_inv_example :
  f62_fn_inv 66 (f62_new 3) = Some 3074498027548486314 /\
  (f62_as_int 3074498027548486314 * 3) mod M62 = 1.
Proof. split; vm_compute; reflexivity. Qed.
Example f62_inv_example_lazy :   (* a word >= M, and an even word *)
  f62_fn_inv 66 (f62_new 3 + M62) = Some 3074498027548486314 /\
  f62_fn_inv 66 2 = Some 315222280642146850 /\
  (val62 315222280642146850 * val62 2) mod M62 = 1.
Proof. split; [|split]; vm_compute; reflexivity. Qed.
Example rel_prime_hyp_nonempty : rel_prime 2 M62.
Proof.
  apply Zis_gcd_intro; [apply Z.divide_1_l|apply Z.divide_1_l|].
  intros t H2 HM.
  replace 1 with (M62 - 2305812497766023168 * 2) by reflexivity.
  apply Z.divide_sub_r; [exact HM|]. apply Z.divide_mul_r. exact H2.
Qed.
