(* Proofs/UntrustedAlloc.v — C06: the capacity requested while Proof::from_bytes runs is bounded linearly in the input:
   parse_alloc bs <= 23 * |bs| + 78384 for EVERY byte string (whatever lengths and counts it claims). *)
From VBase Require Import MachInt.
From VModel Require Import Codec Untrusted.
From VProofs Require Import CodecPrim CodecTypes CodecTotal.
Open Scope Z_scope.

Lemma len_nonneg (bs : bytes) : 0 <= len bs.
Proof. unfold len. lia. Qed.

(* ------------------------------------------------------------------------------- readers consume, never produce *)
(* [eats w r]: a successful read leaves a rest which is shorter by at least w bytes *)
Definition eats {T} (w : Z) (r : Rd T) : Prop := forall bs a rest, r bs = Ok (a, rest) -> w <= len bs - len rest.

Lemma eats_weaken {T} w w' (r : Rd T) : w' <= w -> eats w r -> eats w' r.
Proof. intros Hw H bs a rest E. specialize (H bs a rest E). lia. Qed.

Lemma eats_bind {T U} w1 w2 (r : Rd T) (f : T -> Rd U) : eats w1 r -> (forall a, eats w2 (f a)) -> eats (w1 + w2) (bind r f).
Proof.
  intros H1 H2 bs b rest E. unfold bind in E. destruct (r bs) as [[a bs']| |] eqn:E1; try discriminate.
  specialize (H1 bs a bs' E1). specialize (H2 a bs' b rest E). lia.
Qed.

Lemma eats_ret {T} (a : T) : eats 0 (ret a).
Proof. intros bs b rest E. inversion E; subst. lia. Qed.

Lemma eats_fail {T} w e : eats w (@fail T e).
Proof. intros bs b rest E. discriminate. Qed.

Lemma eats_lift {T} (x : Result T) : eats 0 (lift x).
Proof. intros bs b rest E. unfold lift in E. destruct x; inversion E; subst. lia. Qed.

Lemma eats_if {T} w (c : bool) (r1 r2 : Rd T) : eats w r1 -> eats w r2 -> eats w (if c then r1 else r2).
Proof. destruct c; auto. Qed.

Lemma read_array_eats n bs h t : read_array n bs = Ok (h, t) -> len bs = Z.of_nat n + len t /\ len h = Z.of_nat n.
Proof.
  unfold read_array. destruct (take n bs) as [[h' t']|] eqn:E; intros H; inversion H; subst.
  destruct (take_length _ _ _ _ E) as [-> Hl]. rewrite len_app. unfold len. rewrite Hl. lia.
Qed.

Lemma eats_read_array n : eats (Z.of_nat n) (read_array n).
Proof. intros bs a rest E. apply read_array_eats in E. lia. Qed.

Lemma eats_read_u8 : eats 1 read_u8.
Proof. intros [|b r] a rest E; inversion E; subst. unfold len. cbn [length]. lia. Qed.

Lemma eats_peek_u8 : eats 0 peek_u8.
Proof. intros [|b r] a rest E; inversion E; subst. lia. Qed.

Lemma eats_read_uint k : eats (Z.of_nat k) (read_uint k).
Proof.
  unfold read_uint. replace (Z.of_nat k) with (Z.of_nat k + 0) by lia.
  apply eats_bind; [apply eats_read_array | intros; apply eats_ret].
Qed.

Lemma read_slice_eats n bs b rest : read_slice n bs = Ok (b, rest) -> len bs = len b + len rest /\ (0 <= n -> len b = n).
Proof.
  unfold read_slice. destruct (n <=? len bs); [|discriminate]. intros E. apply read_array_eats in E.
  destruct E as [E1 E2]. split; [lia|]. intros Hn. rewrite E2. lia.
Qed.

Lemma eats_read_slice n : eats 0 (read_slice n).
Proof. intros bs a rest E. apply read_slice_eats in E. pose proof (len_nonneg a). lia. Qed.

Lemma eats_read_bool : eats 1 read_bool.
Proof.
  unfold read_bool. replace 1 with (1 + 0) by lia. apply eats_bind; [apply eats_read_u8|]. intros b.
  repeat apply eats_if; try apply eats_fail; apply eats_ret.
Qed.

Lemma eats_read_usize : eats 0 read_usize.
Proof.
  unfold read_usize. replace 0 with (0 + (0 + 0)) by lia. apply eats_bind; [apply eats_peek_u8|]. intros fb.
  apply eats_bind.
  - apply eats_if.
    + replace 0 with (0 + 0) by lia. apply eats_bind; [eapply eats_weaken; [|apply eats_read_u8]; lia|].
      intros _. eapply eats_weaken; [|apply eats_read_uint]; lia.
    + replace 0 with (0 + 0) by lia. apply eats_bind; [apply eats_read_slice | intros; apply eats_ret].
  - intros r. apply eats_if; [apply eats_fail | apply eats_ret].
Qed.

Ltac eats0 :=
  repeat first
    [ apply eats_fail | apply eats_ret | apply eats_lift
    | match goal with |- eats 0 (if ?c then _ else _) => apply eats_if end
    | match goal with |- eats 0 (bind _ _) => replace 0 with (0 + 0) by lia; apply eats_bind; [|intros] end
    | (eapply eats_weaken; [|apply eats_read_u8]; lia)
    | (eapply eats_weaken; [|apply eats_read_uint]; lia)
    | (eapply eats_weaken; [|apply eats_read_bool]; lia)
    | apply eats_read_slice | apply eats_read_usize ].

Lemma eats_read_FieldExtension : eats 0 read_FieldExtension.
Proof. unfold read_FieldExtension. eats0. Qed.

Lemma eats_read_ProofOptions : eats 0 read_ProofOptions.
Proof. unfold read_ProofOptions. eats0; apply eats_read_FieldExtension. Qed.

Lemma eats_read_TraceInfo : eats 0 read_TraceInfo.
Proof. unfold read_TraceInfo, read_u16, read_vec. eats0. Qed.

Lemma eats_read_Context : eats 0 read_Context.
Proof. unfold read_Context, read_vec. eats0; first [apply eats_read_TraceInfo | apply eats_read_ProofOptions]. Qed.

(* ------------------------------------------------------------------------------------ cost of a reader *)
(* [acost c k w r]: r requests at most c * (bytes consumed) + k on success (and consumes at least w), at most
   c * (bytes available) + k when it fails; never a negative amount *)
Definition acost {T} (c k w : Z) (r : A T) : Prop :=
  forall bs, 0 <= fst (r bs) /\
    match snd (r bs) with
    | Ok (_, rest) => w <= len bs - len rest /\ fst (r bs) <= c * (len bs - len rest) + k
    | _ => fst (r bs) <= c * len bs + k
    end.

Lemma acost_weaken {T} c k w c' k' w' (r : A T) :
  0 <= w' <= w -> c <= c' -> k <= k' -> acost c k w r -> acost c' k' w' r.
Proof.
  intros Hw Hc Hk H bs. specialize (H bs). destruct H as [H0 H]. split; [exact H0|].
  pose proof (len_nonneg bs).
  destruct (snd (r bs)) as [[a rest]| |].
  - destruct H as [G1 G2]. split; [lia|]. nia.
  - nia.
  - nia.
Qed.

Lemma acost_ret {T} (a : T) : acost 0 0 0 (aret a).
Proof. intros bs. cbn. lia. Qed.

Lemma acost_fail {T} w e : acost 0 0 w (@afail T e).
Proof. intros bs. cbn. pose proof (len_nonneg bs). lia. Qed.

Lemma acost_free {T} w (r : Rd T) : 0 <= w -> eats w r -> acost 0 0 w (afree r).
Proof.
  intros Hw He bs. unfold afree. cbn [fst snd]. split; [lia|].
  destruct (r bs) as [[a rest]| |] eqn:E; [|pose proof (len_nonneg bs); lia|pose proof (len_nonneg bs); lia].
  specialize (He bs a rest E). lia.
Qed.

Lemma acost_bind {T U} c k1 k2 w1 w2 (r : A T) (f : T -> A U) :
  0 <= c -> 0 <= k1 -> 0 <= k2 -> 0 <= w1 -> 0 <= w2 ->
  acost c k1 w1 r -> (forall a, acost c k2 w2 (f a)) -> acost c (k1 + k2) (w1 + w2) (abind r f).
Proof.
  intros Hc Hk1 Hk2 Hw1 Hw2 H1 H2 bs. unfold abind. specialize (H1 bs).
  destruct (r bs) as [n [[a bs']| |]]; cbn [fst snd] in *.
  - destruct H1 as [Hn [Hw Hcost]]. specialize (H2 a bs').
    destruct (f a bs') as [m x]. cbn [fst snd] in *. destruct H2 as [Hm H2]. split; [lia|].
    pose proof (len_nonneg bs'). pose proof (len_nonneg bs).
    destruct x as [[b rest]| |].
    + destruct H2 as [Hw' Hcost']. split; [lia|]. nia.
    + nia.
    + nia.
  - destruct H1 as [Hn H1]. split; [lia|]. lia.
  - destruct H1 as [Hn H1]. split; [lia|]. lia.
Qed.

Lemma acost_if {T} c k w (b : bool) (r1 r2 : A T) : acost c k w r1 -> acost c k w r2 -> acost c k w (if b then r1 else r2).
Proof. destruct b; auto. Qed.

(* read_vec(n): the n bytes are copied only when they are there *)
Lemma acost_avec n : acost 1 0 0 (avec n).
Proof.
  intros bs. unfold avec. destruct (read_vec n bs) as [[b rest]| |] eqn:E; cbn [fst snd].
  - unfold read_vec in E. apply read_slice_eats in E. destruct E as [E _]. pose proof (len_nonneg b). lia.
  - pose proof (len_nonneg bs). lia.
  - pose proof (len_nonneg bs). lia.
Qed.

Lemma acost_avec_pos n : 1 <= n -> acost 1 0 1 (avec n).
Proof.
  intros Hn bs. unfold avec. destruct (read_vec n bs) as [[b rest]| |] eqn:E; cbn [fst snd].
  - unfold read_vec in E. apply read_slice_eats in E. destruct E as [E E2]. specialize (E2 ltac:(lia)). lia.
  - pose proof (len_nonneg bs). lia.
  - pose proof (len_nonneg bs). lia.
Qed.

Lemma acost_bind' {T U} c k w k1 k2 w1 w2 (r : A T) (f : T -> A U) :
  k = k1 + k2 -> w = w1 + w2 -> 0 <= c -> 0 <= k1 -> 0 <= k2 -> 0 <= w1 -> 0 <= w2 ->
  acost c k1 w1 r -> (forall a, acost c k2 w2 (f a)) -> acost c k w (abind r f).
Proof. intros -> ->. apply acost_bind. Qed.

Lemma acost_free' {T} c k w (r : Rd T) : 0 <= c -> 0 <= k -> 0 <= w -> eats w r -> acost c k w (afree r).
Proof. intros Hc Hk Hw He. eapply acost_weaken; [| | |apply (acost_free w); auto]; lia. Qed.

Lemma acost_ret' {T} c k (a : T) : 0 <= c -> 0 <= k -> acost c k 0 (aret a).
Proof. intros Hc Hk. eapply acost_weaken; [| | |apply acost_ret]; lia. Qed.

Lemma acost_fail' {T} c k w e : 0 <= c -> 0 <= k -> 0 <= w -> acost c k w (@afail T e).
Proof. intros Hc Hk Hw. eapply acost_weaken; [| | |apply (acost_fail w)]; lia. Qed.

Lemma acost_ablob k : acost 1 0 (Z.of_nat k) (ablob k).
Proof.
  unfold ablob. apply (acost_bind' 1 0 (Z.of_nat k) 0 0 (Z.of_nat k) 0); try lia.
  - apply acost_free'; try lia. apply eats_read_uint.
  - intros n. apply acost_avec.
Qed.

Lemma acost_Queries : acost 1 0 8 a_Queries.
Proof.
  unfold a_Queries.
  apply (acost_bind' 1 0 8 0 0 4 4); try lia; [apply (acost_ablob 4)|]. intros v.
  apply (acost_bind' 1 0 4 0 0 4 0); try lia; [apply (acost_ablob 4)|]. intros p.
  apply acost_ret'; lia.
Qed.

Lemma acost_OodFrame : acost 1 0 6 a_OodFrame.
Proof.
  unfold a_OodFrame.
  apply (acost_bind' 1 0 6 0 0 2 4); try lia; [apply (acost_ablob 2)|]. intros t.
  apply (acost_bind' 1 0 4 0 0 2 2); try lia; [apply (acost_ablob 2)|]. intros l.
  apply (acost_bind' 1 0 2 0 0 2 0); try lia; [apply (acost_ablob 2)|]. intros e.
  apply acost_ret'; lia.
Qed.

(* a FRI layer: at least the two 4-byte prefixes (the value bytes are at least 1 for the 32-bit values the reader can
   return; 8 is enough for the bound) *)
Lemma acost_FriProofLayer : acost 1 0 8 a_FriProofLayer.
Proof.
  unfold a_FriProofLayer.
  apply (acost_bind' 1 0 8 0 0 4 4); try lia.
  { apply acost_free'; try lia. apply (eats_read_uint 4). }
  intros n. apply acost_if; [apply acost_fail'; lia|].
  apply (acost_bind' 1 0 4 0 0 0 4); try lia; [apply acost_avec|]. intros v.
  apply (acost_bind' 1 0 4 0 0 4 0); try lia; [apply (acost_ablob 4)|]. intros p.
  apply acost_ret'; lia.
Qed.

(* ------------------------------------------------------------------------------------------ read_many *)
(* every element costs at most c x its bytes and is backed by at least w >= 1 input bytes; pushing it costs g <= b * w *)
Lemma acost_many_loop {T} (r : A T) c b g w : 0 <= c -> 0 <= b -> 0 <= g <= b * w -> 1 <= w -> acost c 0 w r ->
  forall fuel n acc, acost (c + b) 0 0 (a_many_loop fuel r g n acc).
Proof.
  intros Hc Hb Hg Hw Hr. induction fuel as [|fuel IH]; intros n acc bs; cbn [a_many_loop].
  - destruct (n <=? 0); cbn [fst snd]; pose proof (len_nonneg bs); nia.
  - destruct (n <=? 0); [cbn [fst snd]; pose proof (len_nonneg bs); nia|].
    specialize (Hr bs). destruct (r bs) as [m [[a bs']| |]]; cbn [fst snd] in *.
    + destruct Hr as [Hm [Hw' Hcost]]. specialize (IH (n - 1) (a :: acc) bs').
      destruct (a_many_loop fuel r g (n - 1) (a :: acc) bs') as [m' x]. cbn [fst snd] in *.
      destruct IH as [Hm' IH]. split; [lia|].
      pose proof (len_nonneg bs'). pose proof (len_nonneg bs).
      destruct x as [[l rest]| |].
      * destruct IH as [Hw2 IH]. split; [lia|]. nia.
      * nia.
      * nia.
    + destruct Hr as [Hm Hr]. split; [lia|]. pose proof (len_nonneg bs). nia.
    + destruct Hr as [Hm Hr]. split; [lia|]. pose proof (len_nonneg bs). nia.
Qed.

Lemma prealloc_bounds n sz : 0 <= sz -> 0 <= prealloc n sz <= MAX_PREALLOC.
Proof.
  intros Hsz. unfold prealloc, MAX_PREALLOC.
  destruct (Z.eq_dec sz 0) as [-> | Hnz]; [lia|].
  rewrite (Z.max_l sz 1) by lia.
  assert (0 <= 65536 / sz) by (apply Z.div_pos; lia).
  assert (65536 / sz * sz <= 65536) by (pose proof (Z.mul_div_le 65536 sz ltac:(lia)); lia).
  split; [apply Z.mul_nonneg_nonneg; lia|].
  transitivity (65536 / sz * sz); [apply Z.mul_le_mono_nonneg_r; lia | lia].
Qed.

Lemma acost_many {T} (r : A T) c b sz w n : 0 <= c -> 0 <= b -> 0 <= sz -> GROW * sz <= b * w -> 1 <= w -> acost c 0 w r ->
  acost (c + b) (prealloc n sz) 0 (a_many r sz n).
Proof.
  intros Hc Hb Hsz Hg Hw Hr bs. unfold a_many.
  pose proof (acost_many_loop r c b (GROW * sz) w Hc Hb ltac:(unfold GROW in *; lia) Hw Hr (S (length bs)) n [] bs) as H.
  destruct (a_many_loop (S (length bs)) r (GROW * sz) n [] bs) as [m x]. cbn [fst snd] in *.
  pose proof (prealloc_bounds n sz Hsz). destruct H as [Hm H]. split; [lia|].
  destruct x as [[l rest]| |]; [destruct H; split|..]; lia.
Qed.

(* ------------------------------------------------------------------------------------------ the proof *)
Lemma MAXP : 0 <= MAX_PREALLOC.
Proof. unfold MAX_PREALLOC. lia. Qed.

Lemma acost_many' {T} (r : A T) c b sz w n C : 0 <= c -> 0 <= b -> 0 <= sz -> GROW * sz <= b * w -> 1 <= w -> acost c 0 w r ->
  c + b <= C -> acost C MAX_PREALLOC 0 (a_many r sz n).
Proof.
  intros Hc Hb Hsz Hg Hw Hr HC. pose proof (prealloc_bounds n sz Hsz).
  eapply acost_weaken; [| | |apply (acost_many r c b sz w n); auto]; lia.
Qed.

Lemma acost_FriProof : acost 25 MAX_PREALLOC 0 a_FriProof.
Proof.
  pose proof MAXP. unfold a_FriProof.
  apply (acost_bind' 25 _ 0 0 MAX_PREALLOC 0 0); try lia.
  { apply acost_free'; try lia. eapply eats_weaken; [|apply eats_read_u8]; lia. }
  intros n.
  apply (acost_bind' 25 _ 0 MAX_PREALLOC 0 0 0); try lia.
  { apply (acost_many' a_FriProofLayer 1 24 SZ_2VEC 8 n 25); try (unfold GROW, SZ_2VEC; lia). apply acost_FriProofLayer. }
  intros layers.
  apply (acost_bind' 25 _ 0 0 0 0 0); try lia.
  { eapply acost_weaken; [| | |apply (acost_ablob 2)]; lia. }
  intros r.
  apply (acost_bind' 25 _ 0 0 0 0 0); try lia.
  { apply acost_free'; try lia. eapply eats_weaken; [|apply eats_read_u8]; lia. }
  intros np. apply acost_if; [apply acost_fail'; lia | apply acost_ret'; lia].
Qed.

Lemma acost_Context : acost 1 0 0 a_Context.
Proof.
  intros bs. unfold a_Context. pose proof (len_nonneg bs).
  destruct (read_Context bs) as [[c rest]| |] eqn:E; cbn [fst snd].
  - pose proof (eats_read_Context bs c rest E). lia.
  - lia.
  - lia.
Qed.

Definition K_PROOF : Z := MAX_PREALLOC + MAX_PREALLOC + 2 * SZ_2VEC.

Lemma acost_Proof : acost 25 K_PROOF 0 a_Proof.
Proof.
  pose proof MAXP. unfold a_Proof, K_PROOF.
  apply (acost_bind' 25 _ 0 0 (MAX_PREALLOC + MAX_PREALLOC + 2 * SZ_2VEC) 0 0); try (unfold SZ_2VEC; lia).
  { eapply acost_weaken; [| | |apply acost_Context]; lia. }
  intros c.
  apply (acost_bind' 25 _ 0 0 (MAX_PREALLOC + MAX_PREALLOC + 2 * SZ_2VEC) 0 0); try (unfold SZ_2VEC; lia).
  { apply acost_free'; try lia. eapply eats_weaken; [|apply eats_read_u8]; lia. }
  intros nuq.
  apply (acost_bind' 25 _ 0 0 (MAX_PREALLOC + MAX_PREALLOC + 2 * SZ_2VEC) 0 0); try (unfold SZ_2VEC; lia).
  { eapply acost_weaken; [| | |apply (acost_ablob 2)]; lia. }
  intros com.
  apply (acost_bind' 25 _ 0 (2 * SZ_2VEC) (MAX_PREALLOC + MAX_PREALLOC) 0 0); try (unfold SZ_2VEC; lia).
  { (* Vec::with_capacity(num_trace_segments) and the Queries read into it *)
    intros bs.
    pose proof (acost_many a_Queries 1 0 0 8 (ti_num_segments (ctx_trace_info c)) ltac:(lia) ltac:(lia) ltac:(lia)
                  ltac:(unfold GROW; lia) ltac:(lia) acost_Queries bs) as Hq.
    replace (prealloc (ti_num_segments (ctx_trace_info c)) 0) with 0 in Hq by (unfold prealloc; lia).
    destruct (a_many a_Queries 0 (ti_num_segments (ctx_trace_info c)) bs) as [m x]. cbn [fst snd] in *.
    destruct Hq as [Hm Hq]. split; [unfold SZ_2VEC; lia|].
    pose proof (len_nonneg bs).
    destruct x as [[l rest]| |]; [destruct Hq; split|..]; unfold SZ_2VEC; nia. }
  intros tq.
  apply (acost_bind' 25 _ 0 0 (MAX_PREALLOC + MAX_PREALLOC) 0 0); try lia.
  { eapply acost_weaken; [| | |apply acost_Queries]; lia. }
  intros cq.
  apply (acost_bind' 25 _ 0 0 (MAX_PREALLOC + MAX_PREALLOC) 0 0); try lia.
  { eapply acost_weaken; [| | |apply acost_OodFrame]; lia. }
  intros ood.
  apply (acost_bind' 25 _ 0 MAX_PREALLOC MAX_PREALLOC 0 0); try lia.
  { apply acost_FriProof. }
  intros fri.
  apply (acost_bind' 25 _ 0 0 MAX_PREALLOC 0 0); try lia.
  { apply acost_free'; try lia. eapply eats_weaken; [|apply (eats_read_uint 8)]; lia. }
  intros nonce.
  apply (acost_bind' 25 _ 0 MAX_PREALLOC 0 0 0); try lia.
  { apply (acost_bind' 25 _ 0 0 MAX_PREALLOC 0 0); try lia.
    { apply acost_free'; try lia. eapply eats_weaken; [|apply eats_read_bool]; lia. }
    intros tag. apply acost_if; [|apply acost_ret'; lia].
    apply (acost_bind' 25 _ 0 0 MAX_PREALLOC 0 0); try lia.
    { apply acost_free'; try lia. apply eats_read_usize. }
    intros n.
    apply (acost_bind' 25 _ 0 MAX_PREALLOC 0 0 0); try lia.
    { apply (acost_many' (afree read_u8) 0 4 1 1 n 25); try (unfold GROW; lia).
      apply acost_free; [lia | apply eats_read_u8]. }
    intros v. apply acost_ret'; lia. }
  intros gkr. apply acost_ret'; lia.
Qed.

(* total capacity requested while parsing <= 25 * |bytes| + 131680, for every byte string *)
Theorem parse_alloc_bounded : forall bs, 0 <= parse_alloc bs <= alloc_bound (len bs).
Proof.
  intros bs. unfold parse_alloc, alloc_bound. pose proof (acost_Proof bs) as H.
  destruct (a_Proof bs) as [n x]. cbn [fst snd] in H. destruct H as [Hn H].
  pose proof (len_nonneg bs). unfold K_PROOF, ERR_MSG, MAX_PREALLOC, SZ_2VEC in *.
  destruct x as [[p rest]| |].
  - destruct H as [_ H]. pose proof (len_nonneg rest). lia.
  - lia.
  - lia.
Qed.

Example alloc_bound_constants : forall n, alloc_bound n = 25 * n + 131680.
Proof. intros n. unfold alloc_bound, MAX_PREALLOC, SZ_2VEC, ERR_MSG. lia. Qed.

(* the accounting is not trivially zero: a hostile gkr length of 2^60 is charged the bounded pre-allocation only *)
Example parse_alloc_hostile_length :
  parse_alloc ([1; 0; 0; 3; 0; 0] ++ [8] ++ to_le_bytes 8 M64 ++ [1; 2; 0; 1; 2; 0] ++ [0] ++ [0; 0] ++
               [0; 0; 0; 0; 0; 0; 0; 0] ++ [0; 0; 0; 0; 0; 0; 0; 0] ++ [0; 0; 0; 0; 0; 0] ++ [0; 0; 0; 0] ++
               [0; 0; 0; 0; 0; 0; 0; 0] ++ [1; 0; 0; 0; 0; 0; 0; 0; 0; 16]) = 21 + 96 + 65536 + 512.
Proof. vm_compute. reflexivity. Qed.

(* ============================================================ the accounting run takes the path of the reader *)
(* [tracks r r0]: the accounting reader r returns, besides its cost, exactly the result of the plain reader r0 *)
Definition tracks {T} (r : A T) (r0 : Rd T) : Prop := forall bs, snd (r bs) = r0 bs.

Lemma tracks_ret {T} (a : T) : tracks (aret a) (ret a).
Proof. intros bs. reflexivity. Qed.

Lemma tracks_fail {T} e : tracks (@afail T e) (fail e).
Proof. intros bs. reflexivity. Qed.

Lemma tracks_free {T} (r : Rd T) : tracks (afree r) r.
Proof. intros bs. reflexivity. Qed.

Lemma tracks_bind {T U} (r : A T) r0 (f : T -> A U) f0 :
  tracks r r0 -> (forall a, tracks (f a) (f0 a)) -> tracks (abind r f) (bind r0 f0).
Proof.
  intros H1 H2 bs. unfold abind, bind. specialize (H1 bs). destruct (r bs) as [n x]. cbn [snd] in H1. subst x.
  destruct (r0 bs) as [[a bs']| |]; cbn [snd]; auto.
  specialize (H2 a bs'). destruct (f a bs') as [m y]. cbn [snd] in *. exact H2.
Qed.

Lemma tracks_if {T} (c : bool) (r1 r2 : A T) q1 q2 : tracks r1 q1 -> tracks r2 q2 -> tracks (if c then r1 else r2) (if c then q1 else q2).
Proof. destruct c; auto. Qed.

Lemma tracks_avec n : tracks (avec n) (read_vec n).
Proof. intros bs. unfold avec. destruct (read_vec n bs) as [[b r]| |]; reflexivity. Qed.

Lemma tracks_ablob k : tracks (ablob k) (read_blob k).
Proof. unfold ablob, read_blob. apply tracks_bind; [apply tracks_free | intros n; apply tracks_avec]. Qed.

Lemma tracks_Queries : tracks a_Queries read_Queries.
Proof.
  unfold a_Queries, read_Queries. apply tracks_bind; [apply tracks_ablob|]. intros v.
  apply tracks_bind; [apply tracks_ablob|]. intros p. apply tracks_ret.
Qed.

Lemma tracks_OodFrame : tracks a_OodFrame read_OodFrame.
Proof.
  unfold a_OodFrame, read_OodFrame. apply tracks_bind; [apply tracks_ablob|]. intros t.
  apply tracks_bind; [apply tracks_ablob|]. intros l. apply tracks_bind; [apply tracks_ablob|]. intros e. apply tracks_ret.
Qed.

Lemma tracks_FriProofLayer : tracks a_FriProofLayer read_FriProofLayer.
Proof.
  unfold a_FriProofLayer, read_FriProofLayer. apply tracks_bind; [apply tracks_free|]. intros n.
  apply tracks_if; [apply tracks_fail|].
  apply tracks_bind; [apply tracks_avec|]. intros v. apply tracks_bind; [apply tracks_ablob|]. intros p. apply tracks_ret.
Qed.

(* the loop: with more fuel than input bytes and elements that consume at least one byte, fuel is never exhausted *)
Lemma tracks_many_loop {T} (r : A T) (r0 : Rd T) g : tracks r r0 -> eats 1 r0 ->
  forall fuel n acc bs, len bs < Z.of_nat fuel ->
    snd (a_many_loop fuel r g n acc bs) =
    match read_many_nat r0 (Z.to_nat n) bs with Ok (l, rest) => Ok (rev acc ++ l, rest) | Err e => Err e | Panic => Panic end.
Proof.
  intros Ht He. induction fuel as [|fuel IH]; intros n acc bs Hf.
  - pose proof (len_nonneg bs). lia.
  - cbn [a_many_loop]. destruct (Z.leb_spec n 0) as [Hn | Hn].
    + replace (Z.to_nat n) with 0%nat by lia. cbn. now rewrite app_nil_r.
    + replace (Z.to_nat n) with (S (Z.to_nat (n - 1))) by lia. cbn [read_many_nat].
      specialize (Ht bs). destruct (r bs) as [m x]. cbn [snd] in Ht. subst x.
      destruct (r0 bs) as [[a bs']| |] eqn:E; cbn [snd]; auto.
      specialize (He bs a bs' E).
      specialize (IH (n - 1) (a :: acc) bs' ltac:(lia)).
      destruct (a_many_loop fuel r g (n - 1) (a :: acc) bs') as [m' y]. cbn [snd] in *. rewrite IH.
      destruct (read_many_nat r0 (Z.to_nat (n - 1)) bs') as [[l rest]| |]; auto.
      cbn [rev]. now rewrite <- app_assoc.
Qed.

Lemma tracks_many {T} (r : A T) (r0 : Rd T) sz n : tracks r r0 -> eats 1 r0 -> tracks (a_many r sz n) (read_many r0 n).
Proof.
  intros Ht He bs. unfold a_many.
  pose proof (tracks_many_loop r r0 (GROW * sz) Ht He (S (length bs)) n [] bs ltac:(unfold len; lia)) as H.
  destruct (a_many_loop (S (length bs)) r (GROW * sz) n [] bs) as [m x]. cbv beta iota zeta. cbn [snd] in *. rewrite H. cbn [rev app].
  destruct (Z.leb_spec n 0) as [Hn | Hn].
  - replace (Z.to_nat n) with 0%nat by lia. cbn. unfold read_many. destruct n; try lia; reflexivity.
  - rewrite <- (Z2Nat.id n) at 2 by lia. rewrite read_many_spec.
    destruct (read_many_nat r0 (Z.to_nat n) bs) as [[l rest]| |]; reflexivity.
Qed.

Lemma eats_read_blob k : eats (Z.of_nat k) (read_blob k).
Proof.
  unfold read_blob, read_vec. replace (Z.of_nat k) with (Z.of_nat k + 0) by lia.
  apply eats_bind; [apply eats_read_uint | intros; apply eats_read_slice].
Qed.

Lemma eats_read_Queries : eats 1 read_Queries.
Proof.
  unfold read_Queries. replace 1 with (1 + (0 + 0)) by lia.
  apply eats_bind; [eapply eats_weaken; [|apply (eats_read_blob 4)]; lia|]. intros v.
  apply eats_bind; [eapply eats_weaken; [|apply (eats_read_blob 4)]; lia|]. intros p. apply eats_ret.
Qed.

Lemma eats_read_FriProofLayer : eats 1 read_FriProofLayer.
Proof.
  unfold read_FriProofLayer, read_u32, read_vec. replace 1 with (1 + 0) by lia.
  apply eats_bind; [eapply eats_weaken; [|apply (eats_read_uint 4)]; lia|]. intros n.
  apply eats_if; [apply eats_fail|]. eats0. eapply eats_weaken; [|apply (eats_read_blob 4)]; lia.
Qed.

Lemma tracks_FriProof : tracks a_FriProof read_FriProof.
Proof.
  unfold a_FriProof, read_FriProof. apply tracks_bind; [apply tracks_free|]. intros n.
  apply tracks_bind; [apply tracks_many; [apply tracks_FriProofLayer | apply eats_read_FriProofLayer]|]. intros layers.
  apply tracks_bind; [apply tracks_ablob|]. intros r. apply tracks_bind; [apply tracks_free|]. intros np.
  apply tracks_if; [apply tracks_fail | apply tracks_ret].
Qed.

Lemma tracks_Context : tracks a_Context read_Context.
Proof. intros bs. unfold a_Context. destruct (read_Context bs) as [[c r]| |]; reflexivity. Qed.

Lemma bind_assoc {T U V} (a : Rd T) (f : T -> Rd U) (g : U -> Rd V) bs :
  bind (bind a f) g bs = bind a (fun x => bind (f x) g) bs.
Proof. unfold bind. destruct (a bs) as [[x bs']| |]; reflexivity. Qed.

Lemma tracks_gkr :
  tracks (tag <~ afree read_bool ;;
          if tag then (n <~ afree read_usize ;; v <~ a_many (afree read_u8) 1 n ;; aret (Some v)) else aret None)
         (read_option (read_vec_of read_u8)).
Proof.
  unfold read_option. apply tracks_bind; [apply tracks_free|]. intros tag.
  apply tracks_if; [|apply tracks_ret].
  intros bs. unfold read_vec_of. rewrite bind_assoc. revert bs.
  apply tracks_bind; [apply tracks_free|]. intros n.
  apply tracks_bind; [apply tracks_many; [apply tracks_free | apply eats_read_u8]|]. intros v. apply tracks_ret.
Qed.

Theorem tracks_Proof : tracks a_Proof read_Proof.
Proof.
  unfold a_Proof, read_Proof. apply tracks_bind; [apply tracks_Context|]. intros c.
  apply tracks_bind; [apply tracks_free|]. intros nuq.
  apply tracks_bind; [apply tracks_ablob|]. intros com.
  apply tracks_bind.
  { intros bs. pose proof (tracks_many a_Queries read_Queries 0 (ti_num_segments (ctx_trace_info c)) tracks_Queries eats_read_Queries bs) as H.
    destruct (a_many a_Queries 0 (ti_num_segments (ctx_trace_info c)) bs) as [m x]. exact H. }
  intros tq. apply tracks_bind; [apply tracks_Queries|]. intros cq.
  apply tracks_bind; [apply tracks_OodFrame|]. intros ood.
  apply tracks_bind; [apply tracks_FriProof|]. intros fri.
  apply tracks_bind; [apply tracks_free|]. intros nonce.
  apply tracks_bind; [apply tracks_gkr|]. intros gkr. apply tracks_ret.
Qed.

(* the accounting is an annotation of Proof::from_bytes: same result on every input *)
Theorem parse_alloc_follows_parse : forall bs, parse_alloc_result bs = parse bs.
Proof.
  intros bs. unfold parse_alloc_result, parse, parse_prefix. rewrite (tracks_Proof bs). reflexivity.
Qed.
