(* f128 public operations against integer arithmetic modulo M = 2^128 - 45*2^40 + 1
   (generated terms from Gen/F128.v).  Elements are canonical: the value map is the identity. *)
From Coq Require Import Zpow_facts ZArith Lia Bool.
From VBase Require Import MachInt ZpOps.
From VGen Require Import F128.
From VProofs Require Import F128Limbs.
Open Scope Z_scope.

Definition repr128 (x : Z) : Prop := 0 <= x < M.

Lemma M_pos : 0 < M. Proof. reflexivity. Qed.
Lemma repr128_mod x : repr128 (x mod M). Proof. apply Z.mod_pos_bound, M_pos. Qed.

(* ------------------------------------------------------------------ add / sub / neg / new *)
(* shape-independent proofs: every comparison is case-split, every wrap becomes a `mod` with a literal modulus, the rest
   is linear arithmetic; they survive a reordering of branches or operands in the Rust source (seeded/harmless/H6) *)
Ltac split_cmp :=
  repeat match goal with
  | |- context[Z.ltb ?x ?y] => destruct (Z.ltb_spec x y)
  | |- context[Z.leb ?x ?y] => destruct (Z.leb_spec x y)
  | |- context[Z.eqb ?x ?y] => destruct (Z.eqb_spec x y)
  end.
Ltac f128_lin :=
  unfold repr128 in *; cbv zeta; rewrite ?Z.geb_leb, ?Z.gtb_ltb; unfold in_u, wrap; rewrite ?M_eq; unfold M in *;
  change (2 ^ 128) with 340282366920938463463374607431768211456 in *;
  repeat (split_cmp; cbn [andb negb orb]);
  try reflexivity; try (Z.div_mod_to_equations; lia).

Theorem f128_add_spec a b : repr128 a -> repr128 b -> f128_add a b = (a + b) mod M.
Proof. intros Ha Hb. unfold f128_add, f128_fn_add. f128_lin. Qed.

Theorem f128_add_ok_spec a b : repr128 a -> repr128 b -> f128_add_ok a b = true.
Proof. intros Ha Hb. unfold f128_add_ok, f128_fn_add_ok. f128_lin. Qed.

Theorem f128_sub_spec a b : repr128 a -> repr128 b -> f128_sub a b = (a - b) mod M.
Proof. intros Ha Hb. unfold f128_sub, f128_fn_sub. f128_lin. Qed.

Theorem f128_sub_ok_spec a b : repr128 a -> repr128 b -> f128_sub_ok a b = true.
Proof. intros Ha Hb. unfold f128_sub_ok, f128_fn_sub_ok. f128_lin. Qed.

Theorem f128_neg_spec a : repr128 a -> f128_neg a = (- a) mod M.
Proof.
  intros Ha. unfold f128_neg. change (f128_fn_sub 0 a) with (f128_sub 0 a).
  rewrite f128_sub_spec by (exact Ha || (unfold repr128, M; lia)). reflexivity.
Qed.

Theorem f128_neg_ok_spec a : repr128 a -> f128_neg_ok a = true.
Proof.
  intros Ha. unfold f128_neg_ok. change (f128_fn_sub_ok 0 a) with (f128_sub_ok 0 a).
  apply f128_sub_ok_spec; [unfold repr128, M; lia|exact Ha].
Qed.

Theorem f128_new_spec v : 0 <= v < 2^128 -> f128_new v = v mod M.
Proof.
  intros Hv. unfold f128_new. rewrite M_eq.
  destruct (Z.ltb_spec v M) as [H|H].
  - symmetry. apply Z.mod_small. lia.
  - rewrite (wrap_small 128 (v - M)) by (unfold M in *; lia).
    symmetry. apply (mod_eq _ _ 1); unfold M in *; lia.
Qed.

Theorem f128_new_ok_spec v : 0 <= v < 2^128 -> f128_new_ok v = true.
Proof.
  intros Hv. unfold f128_new_ok. rewrite M_eq.
  destruct (Z.ltb_spec v M) as [H|H]; [reflexivity|].
  unfold in_u. apply andb_true_iff; split; unfold M in *; lia.
Qed.

Theorem f128_new_repr v : 0 <= v < 2^128 -> repr128 (f128_new v).
Proof. intros Hv. rewrite f128_new_spec by exact Hv. apply repr128_mod. Qed.

Theorem f128_as_int_spec x : f128_as_int x = x.
Proof. reflexivity. Qed.

Theorem f128_try_from_u128_spec v : 0 <= v < 2^128 ->
  f128_try_from_u128 v = if v <? M then Some v else None.
Proof.
  intros Hv. unfold f128_try_from_u128. rewrite M_eq.
  rewrite Z.geb_leb. destruct (Z.leb_spec M v) as [H|H]; destruct (Z.ltb_spec v M) as [H'|H']; try lia.
  - reflexivity.
  - rewrite f128_new_spec by exact Hv. rewrite Z.mod_small by lia. reflexivity.
Qed.

Theorem f128_try_from_u128_ok_spec v : 0 <= v < 2^128 -> f128_try_from_u128_ok v = true.
Proof.
  intros Hv. unfold f128_try_from_u128_ok.
  destruct (Z.geb v f128_M); [reflexivity|]. apply f128_new_ok_spec; exact Hv.
Qed.

(* ------------------------------------------------------------------ mul *)
(* conditional correction used three times in mul:  (lo,hi) |-> (lo,hi) - M  as a 128-bit value *)
Definition csub (c : bool) (lo hi : Z) : Z * Z :=
  if c then (let '(t0, t1) := f128_sub_modulus lo hi in (t0, t1)) else (lo, hi).

(* first case: a carry out of 128 bits with a small remainder: 2^128 + w  ==>  w + C *)
Lemma csub_carry lo hi (k : Z) : 0 <= lo < 2^64 -> 0 <= hi < 2^64 -> 0 <= k <= 1 ->
  (k = 1 -> lo + hi * 2^64 < M) ->
  let '(r0, r1) := csub (k =? 1) lo hi in
  0 <= r0 < 2^64 /\ 0 <= r1 < 2^64 /\ r0 + r1 * 2^64 = lo + hi * 2^64 + k * 2^128 - k * M.
Proof.
  intros Hlo Hhi Hk Hsm. unfold csub.
  destruct (Z.eqb_spec k 1) as [E|E].
  - pose proof (sub_modulus_spec lo hi Hlo Hhi) as Hs.
    destruct (f128_sub_modulus lo hi) as [t0 t1]. destruct Hs as (T0 & T1 & Et).
    rewrite (mod_eq _ _ (-1) (lo + hi * 2^64 - M + 2^128)) in Et by (specialize (Hsm E); unfold M in *; lia).
    subst k. lia.
  - assert (k = 0) by lia. subst k. lia.
Qed.

Lemma fn_mul_unfold a b :
  f128_fn_mul a b =
  let '(x0, x1, x2) := f128_mul_128x64 a (wrap 64 (shr b 64)) in
  let '(x0, x1, x2) := f128_mul_reduce x0 x1 x2 in
  let '(x0, x1) := csub (x2 =? 1) x0 x1 in
  let '(y0, y1, y2) := f128_mul_128x64 a (wrap 64 b) in
  let '(y1, carry) := f128_add64_with_carry y1 x0 0 in
  let '(y2, y3) := f128_add64_with_carry y2 x1 carry in
  let '(y1, y2) := csub (y3 =? 1) y1 y2 in
  let '(z0, z1, z2) := f128_mul_reduce y0 y1 y2 in
  let '(z0, z1) := csub (orb (z2 =? 1) (andb (z1 =? wrap 64 (shr f128_M 64)) (z0 >=? wrap 64 f128_M))) z0 z1 in
  wrap 128 (shl 128 z1 64 + z0).
Proof. reflexivity. Qed.

Lemma fn_mul_ok_unfold a b :
  f128_fn_mul_ok a b =
  andb (f128_mul_128x64_ok a (wrap 64 (shr b 64))) (let '(x0, x1, x2) := f128_mul_128x64 a (wrap 64 (shr b 64)) in
  andb (f128_mul_reduce_ok x0 x1 x2) (let '(x0, x1, x2) := f128_mul_reduce x0 x1 x2 in
  let '(x0, x1) := csub (x2 =? 1) x0 x1 in
  andb (f128_mul_128x64_ok a (wrap 64 b)) (let '(y0, y1, y2) := f128_mul_128x64 a (wrap 64 b) in
  andb (f128_add64_with_carry_ok y1 x0 0) (let '(y1, carry) := f128_add64_with_carry y1 x0 0 in
  andb (f128_add64_with_carry_ok y2 x1 carry) (let '(y2, y3) := f128_add64_with_carry y2 x1 carry in
  let '(y1, y2) := csub (y3 =? 1) y1 y2 in
  andb (f128_mul_reduce_ok y0 y1 y2) (let '(z0, z1, z2) := f128_mul_reduce y0 y1 y2 in
  let '(z0, z1) := csub (orb (z2 =? 1) (andb (z1 =? wrap 64 (shr f128_M 64)) (z0 >=? wrap 64 f128_M))) z0 z1 in
  in_u 128 (shl 128 z1 64 + z0))))))).
Proof. reflexivity. Qed.

(* The whole of mul, as a staged computation on integers.  Every stage is an exact integer
   identity "new = old - k*M (times a power of 2^64)", so a*b = result + K*M at the end. *)
Theorem f128_fn_mul_both a b : repr128 a -> repr128 b ->
  f128_fn_mul a b = (a * b) mod M /\ f128_fn_mul_ok a b = true.
Proof.
  unfold repr128. intros Ha Hb.
  rewrite fn_mul_unfold, fn_mul_ok_unfold.
  assert (Ha' : 0 <= a < 2^128) by (unfold M in *; lia).
  destruct (split64 b) as (Hbl & Hbh0 & Eb); [lia|].
  assert (Hbh : shr b 64 < 2^64) by (unfold M in *; lia).
  rewrite (wrap_small 64 (shr b 64)) by lia.
  set (bl := wrap 64 b) in *. set (bh := shr b 64) in *.
  (* stage 1: x = a * bh *)
  rewrite (mul_128x64_ok_spec a bh Ha' ltac:(lia)).
  pose proof (mul_128x64_spec a bh Ha' ltac:(lia)) as S1.
  destruct (f128_mul_128x64 a bh) as [[x0 x1] x2]. destruct S1 as (X0 & X1 & X2 & Ex).
  (* stage 2: x' = x - x2*M *)
  rewrite (mul_reduce_ok_spec x0 x1 x2 X0 X1 X2).
  pose proof (mul_reduce_spec x0 x1 x2 X0 X1 X2) as S2.
  destruct (f128_mul_reduce x0 x1 x2) as [[x0' x1'] x2']. destruct S2 as (X0' & X1' & X2' & Ex' & Sx').
  (* stage 3: x'' = x' - x2'*M, below 2^128 *)
  pose proof (csub_carry x0' x1' x2' X0' X1' X2' ltac:(unfold M; lia)) as S3.
  destruct (csub (x2' =? 1) x0' x1') as [x0'' x1'']. destruct S3 as (X0'' & X1'' & Ex'').
  (* stage 4: y = a * bl *)
  rewrite (mul_128x64_ok_spec a bl Ha' Hbl).
  pose proof (mul_128x64_spec a bl Ha' Hbl) as S4.
  destruct (f128_mul_128x64 a bl) as [[y0 y1] y2]. destruct S4 as (Y0 & Y1 & Y2 & Ey).
  (* stage 5: y' = y + x''*2^64, four limbs *)
  rewrite (add64_with_carry_ok_spec y1 x0'' 0 Y1 X0'' ltac:(lia)).
  pose proof (add64_with_carry_spec y1 x0'' 0 Y1 X0'' ltac:(lia)) as S5.
  destruct (f128_add64_with_carry y1 x0'' 0) as [y1' carry]. destruct S5 as (Y1' & Hc & Ey1).
  assert (Hc' : 0 <= carry <= 1) by lia.
  rewrite (add64_with_carry_ok_spec y2 x1'' carry Y2 X1'' ltac:(lia)).
  pose proof (add64_with_carry_spec y2 x1'' carry Y2 X1'' ltac:(lia)) as S6.
  destruct (f128_add64_with_carry y2 x1'' carry) as [y2' y3]. destruct S6 as (Y2' & Hy3 & Ey2).
  assert (Hy3' : 0 <= y3 <= 1) by lia.
  (* a < M and bl < 2^64, so the top 128 bits of y are below M - 1; this is what makes the
     second correction safe ("needs to be proven" in the source) *)
  set (ab_l := a * bl) in *. set (ab_h := a * bh) in *.
  assert (Bl : 0 <= ab_l <= (M - 1) * (2^64 - 1)).
  { unfold ab_l. split; [apply Z.mul_nonneg_nonneg; lia|]. apply Z.mul_le_mono_nonneg; lia. }
  assert (Hsmall : y3 = 1 -> y1' + y2' * 2^64 < M) by (intros ->; unfold M in *; lia).
  (* stage 6: y'' = y' - y3 * M * 2^64 *)
  pose proof (csub_carry y1' y2' y3 Y1' Y2' Hy3' Hsmall) as S7.
  destruct (csub (y3 =? 1) y1' y2') as [y1'' y2'']. destruct S7 as (Y1'' & Y2'' & Ey'').
  (* stage 7: z = y'' - y2''*M *)
  rewrite (mul_reduce_ok_spec y0 y1'' y2'' Y0 Y1'' Y2'').
  pose proof (mul_reduce_spec y0 y1'' y2'' Y0 Y1'' Y2'') as S8.
  destruct (f128_mul_reduce y0 y1'' y2'') as [[z0 z1] z2]. destruct S8 as (Z0 & Z1 & Z2 & Ez & Sz).
  (* stage 8: final correction *)
  rewrite M_lo, M_hi.
  set (cnd := orb (z2 =? 1) (andb (z1 =? 2^64 - 1) (z0 >=? 2^64 - C))).
  assert (Hfin : let '(r0, r1) := csub cnd z0 z1 in
     0 <= r0 < 2^64 /\ 0 <= r1 < 2^64 /\ 0 <= r0 + r1 * 2^64 < M /\
     exists e, r0 + r1 * 2^64 = z0 + z1 * 2^64 + z2 * 2^128 - e * M).
  { unfold csub, cnd. rewrite Z.geb_leb.
    destruct (Z.eqb_spec z2 1) as [E2|E2]; cbn [orb].
    - pose proof (sub_modulus_spec z0 z1 Z0 Z1) as Hs.
      destruct (f128_sub_modulus z0 z1) as [t0 t1]. destruct Hs as (T0 & T1 & Et).
      specialize (Sz E2).
      rewrite (mod_eq _ _ (-1) (z0 + z1 * 2^64 - M + 2^128)) in Et by (unfold M in *; lia).
      repeat split; try lia; [unfold M in *; lia|]. exists 1. subst z2. lia.
    - assert (z2 = 0) by lia. subst z2.
      destruct (Z.eqb_spec z1 (2^64 - 1)) as [E1|E1]; cbn [andb].
      + destruct (Z.leb_spec (2^64 - C) z0) as [E0|E0].
        * pose proof (sub_modulus_spec z0 z1 Z0 Z1) as Hs.
          destruct (f128_sub_modulus z0 z1) as [t0 t1]. destruct Hs as (T0 & T1 & Et).
          rewrite (mod_eq _ _ 0 (z0 + z1 * 2^64 - M)) in Et by (unfold M, C in *; lia).
          repeat split; try lia; [unfold M, C in *; lia|]. exists 1. lia.
        * repeat split; try lia; [unfold M, C in *; lia|]. exists 0. lia.
      + repeat split; try lia; [unfold M, C in *; lia|]. exists 0. lia. }
  destruct (csub cnd z0 z1) as [r0 r1]. destruct Hfin as (R0 & R1 & Rm & e & Er).
  rewrite shl_limb by exact R1.
  assert (Rw : 0 <= r1 * 2^64 + r0 < 2^128) by lia.
  rewrite (wrap_small 128 (r1 * 2^64 + r0)) by exact Rw.
  split.
  - symmetry.
    assert (Eab : a * b = ab_l + ab_h * 2^64) by (unfold ab_l, ab_h; rewrite Eb; ring).
    apply (mod_eq _ _ (e + y2'' + (y3 + x2' + x2) * 2^64)); [lia|].
    rewrite Eab. lia.
  - unfold in_u. cbn [andb]. apply andb_true_iff; split; lia.
Qed.

Theorem f128_mul_spec a b : repr128 a -> repr128 b -> f128_mul a b = (a * b) mod M.
Proof. intros Ha Hb. exact (proj1 (f128_fn_mul_both a b Ha Hb)). Qed.

Theorem f128_mul_ok_spec a b : repr128 a -> repr128 b -> f128_mul_ok a b = true.
Proof. intros Ha Hb. exact (proj2 (f128_fn_mul_both a b Ha Hb)). Qed.

Corollary f128_mul_repr a b : repr128 a -> repr128 b -> repr128 (f128_mul a b).
Proof. intros Ha Hb. rewrite f128_mul_spec by assumption. apply repr128_mod. Qed.

(* ------------------------------------------------------------------ generic while loops *)
(* partial correctness: an invariant preserved by the body holds at exit, where the condition is false *)
Lemma while_loop_inv {S : Type} (I : S -> Prop) (cond : S -> bool) (body : S -> S) :
  (forall s, I s -> cond s = true -> I (body s)) ->
  forall fuel s r, I s -> while_loop fuel cond body s = Some r -> I r /\ cond r = false.
Proof.
  intros Hstep fuel. induction fuel as [|f IH]; intros s r Hs; cbn [while_loop];
    destruct (cond s) eqn:E; intros Hr.
  - discriminate.
  - injection Hr as <-. split; assumption.
  - apply (IH (body s)); [apply Hstep; assumption|exact Hr].
  - injection Hr as <-. split; assumption.
Qed.

Lemma while_loop_o_inv {S : Type} (I : S -> Prop) (cond : S -> bool) (body : S -> option S) :
  (forall s s', I s -> cond s = true -> body s = Some s' -> I s') ->
  forall fuel s r, I s -> while_loop_o fuel cond body s = Some r -> I r /\ cond r = false.
Proof.
  intros Hstep fuel. induction fuel as [|f IH]; intros s r Hs; cbn [while_loop_o];
    destruct (cond s) eqn:E; intros Hr.
  - discriminate.
  - injection Hr as <-. split; assumption.
  - destruct (body s) as [s'|] eqn:Eb; [|discriminate].
    apply (IH s'); [eapply Hstep; eassumption|exact Hr].
  - injection Hr as <-. split; assumption.
Qed.

(* termination: a ranked invariant R n ("at most n more iterations") *)
Lemma while_loop_term {S : Type} (R : nat -> S -> Prop) (cond : S -> bool) (body : S -> S) :
  (forall s, R O s -> cond s = false) ->
  (forall n s, R (Datatypes.S n) s -> cond s = true -> R n (body s)) ->
  forall n s, R n s -> exists r, while_loop n cond body s = Some r.
Proof.
  intros H0 HS n. induction n as [|n IH]; intros s Hs; cbn [while_loop].
  - rewrite (H0 s Hs). eauto.
  - destruct (cond s) eqn:E; [|eauto]. apply IH. apply HS; assumption.
Qed.

Lemma while_loop_o_term {S : Type} (R : nat -> S -> Prop) (cond : S -> bool) (body : S -> option S) :
  (forall s, R O s -> cond s = false) ->
  (forall n s, R (Datatypes.S n) s -> cond s = true -> exists s', body s = Some s' /\ R n s') ->
  forall n s, R n s -> exists r, while_loop_o n cond body s = Some r.
Proof.
  intros H0 HS n. induction n as [|n IH]; intros s Hs; cbn [while_loop_o].
  - rewrite (H0 s Hs). eauto.
  - destruct (cond s) eqn:E; [|eauto].
    destruct (HS n s Hs E) as (s' & -> & Hs'). apply IH. exact Hs'.
Qed.

Lemma while_loop_fuel_mono {S : Type} (cond : S -> bool) (body : S -> S) :
  forall n m s r, (n <= m)%nat -> while_loop n cond body s = Some r -> while_loop m cond body s = Some r.
Proof.
  induction n as [|n IH]; intros m s r Hle; cbn [while_loop].
  - destruct (cond s) eqn:E; [discriminate|]. intros H. destruct m; cbn [while_loop]; rewrite E; exact H.
  - destruct m as [|m]; [lia|]. cbn [while_loop]. destruct (cond s); [|trivial]. apply IH. lia.
Qed.

(* ------------------------------------------------------------------ exp *)
Lemma land1 p : Z.land p 1 = p mod 2.
Proof. change 1 with (Z.ones 1) at 1. rewrite Z.land_ones by lia. reflexivity. Qed.

Lemma pow_step_even r b q : 0 <= q -> r * (b * b) ^ q = r * b ^ (2 * q).
Proof. intros Hq. rewrite <- Z.pow_2_r, <- Z.pow_mul_r by lia. reflexivity. Qed.

Lemma pow_step_odd r b q : 0 <= q -> r * b * (b * b) ^ q = r * b ^ (2 * q + 1).
Proof.
  intros Hq. rewrite <- Z.pow_2_r, <- Z.pow_mul_r by lia.
  rewrite Z.pow_add_r, Z.pow_1_r by lia. ring.
Qed.

Lemma pow_mod_l x e : (x mod M) ^ e mod M = x ^ e mod M.
Proof. symmetry. apply Zpower_mod. exact M_pos. Qed.

Definition exp_cond : Z * Z * Z -> bool := fun '(r, p, b) => (p >? 0).
Definition exp_body : Z * Z * Z -> Z * Z * Z := fun '(r, p, b) =>
  let r := if Z.land p 1 =? 1 then (let r := f128_mul r b in r) else r in
  let p := shr p 1 in
  let b := f128_mul b b in
  (r, p, b).

Lemma f128_exp_unfold fuel a p :
  f128_exp fuel a p =
  if p =? 0 then Some 1 else if a =? 0 then Some 0 else
  match while_loop fuel exp_cond exp_body (1, p, a) with
  | None => None
  | Some (r, _, _) => Some r
  end.
Proof. reflexivity. Qed.

Definition exp_inv (a p : Z) (s : Z * Z * Z) : Prop :=
  let '(r, q, b) := s in
  repr128 r /\ repr128 b /\ 0 <= q /\ (r * b ^ q) mod M = a ^ p mod M.

Lemma exp_inv_step a p s : exp_inv a p s -> exp_cond s = true -> exp_inv a p (exp_body s).
Proof.
  destruct s as [[r q] b]. unfold exp_inv, exp_cond, exp_body. cbv zeta.
  intros (Hr & Hb & Hq & E) Hc.
  assert (Hq0 : 0 < q) by lia.
  assert (Hq2 : 0 <= q / 2) by (apply Z.div_pos; lia).
  pose proof (Z.div_mod q 2 ltac:(lia)) as Hdm. pose proof (Z.mod_pos_bound q 2 ltac:(lia)) as Hm.
  unfold shr. rewrite Z.pow_1_r, land1.
  rewrite (f128_mul_spec b b Hb Hb).
  split; [|split; [apply repr128_mod|split; [exact Hq2|]]].
  - destruct (q mod 2 =? 1); [rewrite f128_mul_spec by assumption; apply repr128_mod|exact Hr].
  - rewrite <- E.
    destruct (Z.eqb_spec (q mod 2) 1) as [E1|E1].
    + rewrite f128_mul_spec by assumption.
      rewrite Z.mul_mod_idemp_l by (unfold M; lia).
      rewrite <- Z.mul_mod_idemp_r, pow_mod_l, Z.mul_mod_idemp_r by (unfold M; lia).
      rewrite pow_step_odd by exact Hq2. do 2 f_equal. f_equal. lia.
    + rewrite <- Z.mul_mod_idemp_r, pow_mod_l, Z.mul_mod_idemp_r by (unfold M; lia).
      rewrite pow_step_even by exact Hq2. do 2 f_equal. f_equal. lia.
Qed.

Theorem f128_exp_sound fuel a p r : repr128 a -> 0 <= p < 2^128 ->
  f128_exp fuel a p = Some r -> r = (a ^ p) mod M.
Proof.
  intros Ha Hp. rewrite f128_exp_unfold.
  destruct (Z.eqb_spec p 0) as [->|Hp0].
  { intros [= <-]. reflexivity. }
  destruct (Z.eqb_spec a 0) as [->|Ha0].
  { intros [= <-]. rewrite Z.pow_0_l by lia. reflexivity. }
  destruct (while_loop fuel exp_cond exp_body (1, p, a)) as [[[r' q'] b']|] eqn:W; [|discriminate].
  intros [= <-].
  assert (I0 : exp_inv a p (1, p, a)).
  { unfold exp_inv. split; [unfold repr128, M; lia|split; [exact Ha|split; [lia|]]]. now rewrite Z.mul_1_l. }
  destruct (while_loop_inv (exp_inv a p) exp_cond exp_body (exp_inv_step a p) fuel _ _ I0 W)
    as ((Hr & Hb & Hq & E) & Hc).
  unfold exp_cond in Hc. assert (q' = 0) by lia. subst q'.
  rewrite Z.pow_0_r, Z.mul_1_r, Z.mod_small in E by exact Hr. exact E.
Qed.

Theorem f128_exp_repr fuel a p r : repr128 a -> 0 <= p < 2^128 ->
  f128_exp fuel a p = Some r -> repr128 r.
Proof. intros Ha Hp H. rewrite (f128_exp_sound fuel a p r Ha Hp H). apply repr128_mod. Qed.

Theorem f128_exp_terminates a p : 0 <= p < 2^128 -> exists r, f128_exp 130 a p = Some r.
Proof.
  intros Hp. rewrite f128_exp_unfold.
  destruct (p =? 0); [eauto|]. destruct (a =? 0); [eauto|].
  destruct (while_loop_term (fun n '(r, q, b) => 0 <= q < 2 ^ Z.of_nat n) exp_cond exp_body) with
    (n := 130%nat) (s := (1, p, a)) as [[[r q] b] ->].
  - intros [[r q] b] H. unfold exp_cond. change (2 ^ Z.of_nat 0) with 1 in H. lia.
  - intros n [[r q] b] H _. unfold exp_body. cbv zeta. unfold shr. rewrite Z.pow_1_r.
    rewrite Nat2Z.inj_succ, Z.pow_succ_r in H by lia.
    split; [apply Z.div_pos; lia|apply Z.div_lt_upper_bound; lia].
  - change (2 ^ Z.of_nat 130) with (2^130). lia.
  - eauto.
Qed.

(* ------------------------------------------------------------------ constants *)
Lemma zpow_mod_pos_pow p a e : 0 < p -> zpow_mod_pos p a e = (a ^ Zpos e) mod p.
Proof.
  intros Hp. induction e as [e IH|e IH|]; cbn [zpow_mod_pos]; cbv zeta.
  - rewrite IH, Pos2Z.inj_xI, Z.pow_add_r, Z.pow_1_r, Z.pow_twice_r by lia.
    rewrite <- Z.mul_mod by lia. now rewrite Z.mul_mod_idemp_l by lia.
  - rewrite IH, Pos2Z.inj_xO, Z.pow_twice_r. now rewrite <- Z.mul_mod by lia.
  - now rewrite Z.pow_1_r.
Qed.

Lemma zpow_mod_pow p a e : 0 < p -> 0 <= e -> zpow_mod p a e = (a ^ e) mod p.
Proof.
  intros Hp He. destruct e as [|e|e]; cbn [zpow_mod]; [reflexivity|apply zpow_mod_pos_pow; exact Hp|lia].
Qed.

Lemma f128_modulus_def :
  f128_MODULUS = 2^128 - 45 * 2^40 + 1 /\ f128_MODULUS = M /\ f128_MODULUS_BITS = 128 /\ 2^127 <= M < 2^128.
Proof. repeat split; discriminate. Qed.

Lemma f128_consts_repr :
  f128_ZERO = 0 /\ f128_ONE = 1 /\ f128_GENERATOR = 3 /\ repr128 f128_TWO_ADIC_ROOT_OF_UNITY.
Proof. repeat split; discriminate. Qed.

Lemma f128_Mm1_factored : M - 1 = 2^40 * 29 * 181 * 286619 * 11394379 * 18053749339.
Proof. reflexivity. Qed.

(* 3 is a primitive root: 3^(M-1) = 1 and 3^((M-1)/q) <> 1 for each prime q | M-1 *)
Lemma f128_generator_order :
  3 ^ (M - 1) mod M = 1 /\
  3 ^ ((M - 1) / 2) mod M <> 1 /\ 3 ^ ((M - 1) / 29) mod M <> 1 /\
  3 ^ ((M - 1) / 181) mod M <> 1 /\ 3 ^ ((M - 1) / 286619) mod M <> 1 /\
  3 ^ ((M - 1) / 11394379) mod M <> 1 /\ 3 ^ ((M - 1) / 18053749339) mod M <> 1.
Proof.
  rewrite <- !zpow_mod_pow by (vm_compute; try reflexivity; discriminate).
  repeat split; vm_compute; try reflexivity; discriminate.
Qed.

Lemma f128_two_adicity :
  f128_TWO_ADICITY = 40 /\ (M - 1) mod 2^40 = 0 /\ Z.odd ((M - 1) / 2^40) = true.
Proof. repeat split. Qed.

Lemma f128_root_def :
  f128_TWO_ADIC_ROOT_OF_UNITY = f128_G /\ f128_G = 3 ^ ((M - 1) / 2^40) mod M.
Proof.
  split; [reflexivity|].
  rewrite <- zpow_mod_pow by (vm_compute; try reflexivity; discriminate).
  vm_compute. reflexivity.
Qed.

Lemma f128_root_pow :
  f128_G ^ (2^40) mod M = 1 /\ f128_G ^ (2^39) mod M = M - 1.
Proof.
  rewrite <- !zpow_mod_pow by (vm_compute; try reflexivity; discriminate).
  split; vm_compute; reflexivity.
Qed.

(* every 0 < k < 2^n is 2^j * odd with j < n *)
Lemma odd_part n : 0 <= n -> forall k, 0 < k < 2^n -> exists j m, 0 <= j < n /\ 0 <= m /\ k = 2^j * (2 * m + 1).
Proof.
  intros Hn. pattern n. apply natlike_ind; [| |exact Hn].
  - intros k Hk. change (2^0) with 1 in Hk. lia.
  - intros x Hx IH k Hk. rewrite Z.pow_succ_r in Hk by exact Hx.
    pose proof (Z.div_mod k 2 ltac:(lia)) as Hdm. pose proof (Z.mod_pos_bound k 2 ltac:(lia)) as Hm.
    destruct (Z.eq_dec (k mod 2) 0) as [E|E].
    + destruct (IH (k / 2)) as (j & m & Hj & Hm' & Ek); [lia|].
      exists (j + 1), m. split; [lia|split; [exact Hm'|]].
      rewrite Z.pow_add_r, Z.pow_1_r by lia. lia.
    + exists 0, (k / 2). split; [lia|split; [apply Z.div_pos; lia|]]. change (2^0) with 1. lia.
Qed.

(* the order of the root of unity is exactly 2^40 *)
Theorem f128_root_order_exact :
  f128_G ^ (2^40) mod M = 1 /\ forall k, 0 < k < 2^40 -> f128_G ^ k mod M <> 1.
Proof.
  split; [exact (proj1 f128_root_pow)|].
  intros k Hk E.
  destruct (odd_part 40 ltac:(lia) k Hk) as (j & m & Hj & Hm & Ek).
  (* G^(2^39 * (2m+1)) computed in two ways *)
  assert (E1 : f128_G ^ (k * 2^(39 - j)) mod M = 1).
  { rewrite Z.pow_mul_r by lia. rewrite <- pow_mod_l, E, Z.pow_1_l by lia. reflexivity. }
  assert (E2 : f128_G ^ (2^39 * (2 * m + 1)) mod M = M - 1).
  { rewrite Z.pow_mul_r by lia. rewrite <- pow_mod_l, (proj2 f128_root_pow).
    rewrite Z.pow_add_r, Z.pow_1_r, Z.pow_mul_r by lia.
    rewrite <- Z.mul_mod_idemp_l, <- pow_mod_l by (unfold M; lia).
    replace ((M - 1) ^ 2 mod M) with 1 by (vm_compute; reflexivity).
    rewrite Z.pow_1_l by lia. vm_compute. reflexivity. }
  assert (Ee : k * 2^(39 - j) = 2^39 * (2 * m + 1)).
  { rewrite Ek. replace 39 with (j + (39 - j)) at 2 by lia. rewrite Z.pow_add_r by lia. ring. }
  rewrite Ee, E2 in E1. vm_compute in E1. discriminate.
Qed.

Lemma repr128_inhabited : repr128 (M - 1) /\ repr128 0.
Proof. split; split; (discriminate || reflexivity). Qed.
