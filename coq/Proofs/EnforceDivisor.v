(* C16, field level, part 2: the zero sets of the transition divisor and of the assertion divisors of
   Model/Enforce.v, for every n = 2^k < 2^64, every field (FOps with FLaws) and every g of exact order n.
   stdlib style. *)
From Coq Require Import ZArith List Bool Lia Ring Field Arith.
From VBase Require Import MachInt FieldOps.
From VModel Require Import Enforce.
From VProofs Require Import EnforceSteps EnforceField.
Import ListNotations.
Open Scope Z_scope.

Declare Scope F_scope.

Lemma seq_as_map lo len : seq lo len = map (fun i => (lo + i)%nat) (seq 0 len).
Proof.
  revert lo. induction len; intros lo; [reflexivity|].
  cbn [seq map]. rewrite Nat.add_0_r. f_equal.
  rewrite <- (seq_shift len 0), map_map, (IHlen (S lo)). apply map_ext. intros i. lia.
Qed.

Section Divisors.
  Context {F : Type} (Fo : FOps F) (L : FLaws Fo).
  Variables (g : F) (n : Z).
  Hypothesis Hpow2 : exists k, 0 <= k /\ n = 2 ^ k.
  Hypothesis Hn64 : n < 2 ^ 64.          (* trace lengths are usize values *)
  Hypothesis Hgn : fpow Fo g n = fone Fo.
  Hypothesis Hord : forall i, 0 < i < n -> fpow Fo g i <> fone Fo.

  Notation "0" := (fzero Fo) : F_scope.
  Notation "1" := (fone Fo) : F_scope.
  Infix "+" := (fadd Fo) : F_scope.
  Infix "*" := (fmul Fo) : F_scope.
  Infix "-" := (fsub Fo) : F_scope.
  Delimit Scope F_scope with F.

  Add Field Ffield2 : (FLaws_field_theory Fo L).

  Notation pw := (fpow Fo).
  Notation pn := (pown Fo).

  Lemma n_pos : 0 < n.
  Proof. destruct Hpow2 as (k & Hk & ->). apply Z.pow_pos_nonneg; lia. Qed.

  Let N := Z.to_nat n.

  Lemma N_pos : (0 < N)%nat. Proof. pose proof n_pos. unfold N. lia. Qed.

  Lemma HgN : pn g N = fone Fo.
  Proof. unfold N. rewrite <- (fpow_spec Fo L). exact Hgn. Qed.

  Lemma HordN : forall i, (0 < i < N)%nat -> pn g i <> fone Fo.
  Proof.
    intros i Hi. rewrite <- (fpow_of_nat Fo L). apply Hord. unfold N in Hi. lia.
  Qed.

  Lemma Npow2 : exists k, N = (2 ^ k)%nat.
  Proof.
    destruct Hpow2 as (k & Hk & E). exists (Z.to_nat k). unfold N. rewrite E.
    rewrite Z2Nat.inj_pow by lia. reflexivity.
  Qed.

  (* ---------------------------------------------------------------- powers of g, Z-indexed *)
  Lemma gpow_eq_iff a b : 0 <= a -> 0 <= b -> (pw g a = pw g b <-> a mod n = b mod n).
  Proof.
    intros Ha Hb. pose proof n_pos. rewrite !(fpow_spec Fo L).
    rewrite (pown_g_eq_iff Fo L g N N_pos HgN HordN). unfold N.
    rewrite <- !Z2Nat.inj_mod by lia. split.
    - intros E. apply Z2Nat.inj in E; [exact E| |]; apply Z.mod_pos_bound; lia.
    - intros ->. reflexivity.
  Qed.

  Lemma gpow_inj a b : 0 <= a < n -> 0 <= b < n -> pw g a = pw g b -> a = b.
  Proof.
    intros Ha Hb E. apply gpow_eq_iff in E; try lia. rewrite !Z.mod_small in E by lia. exact E.
  Qed.

  Lemma pw_pw x a b : 0 <= a -> 0 <= b -> pw (pw x a) b = pw x (a * b).
  Proof.
    intros Ha Hb. rewrite !(fpow_spec Fo L), Z2Nat.inj_mul by lia. symmetry. apply (pown_mul Fo L).
  Qed.

  Lemma pw_0 x : pw x 0 = fone Fo. Proof. reflexivity. Qed.

  Lemma gpow_n_mul a : 0 <= a -> pw g (n * a) = fone Fo.
  Proof.
    intros Ha. pose proof n_pos. rewrite <- pw_pw by lia. rewrite Hgn.
    rewrite (fpow_spec Fo L). apply (pown_1_l Fo L).
  Qed.

  (* map over a Z range = map over a nat range *)
  Lemma map_pw_zrange lo hi : 0 <= lo -> lo <= hi ->
    map (pw g) (zrange lo hi) = map (pn g) (seq (Z.to_nat lo) (Z.to_nat (hi - lo))).
  Proof.
    intros Hlo Hle. unfold zrange. rewrite map_map.
    rewrite (seq_as_map (Z.to_nat lo)), map_map. apply map_ext. intros i.
    rewrite (fpow_spec Fo L). f_equal. lia.
  Qed.

  (* the n-th roots of unity are exactly the points of the trace domain *)
  Lemma root_in_domain x : pw x n = fone Fo <-> exists i, 0 <= i < n /\ x = pw g i.
  Proof.
    rewrite (fpow_spec Fo L). fold N.
    rewrite (root_of_unity_in_domain Fo L g N N_pos HgN HordN Npow2). split.
    - intros (i & Hi & ->). exists (Z.of_nat i). unfold N in Hi. split; [lia|].
      rewrite (fpow_of_nat Fo L). reflexivity.
    - intros (i & Hi & ->). exists (Z.to_nat i). unfold N. split; [lia|]. apply (fpow_spec Fo L).
  Qed.

  Lemma xn_minus_1_splits x :
    (pw x n - 1)%F = vanish Fo x (map (pw g) (zrange 0 n)).
  Proof.
    pose proof n_pos. rewrite map_pw_zrange by lia. rewrite Z.sub_0_r. cbn [Z.to_nat]. fold N.
    rewrite (fpow_spec Fo L). fold N.
    apply (xn_minus_1_factor Fo L g N N_pos HgN HordN Npow2).
  Qed.

  Lemma zrange_split lo mid hi : lo <= mid <= hi -> zrange lo hi = zrange lo mid ++ zrange mid hi.
  Proof.
    intros H. unfold zrange.
    replace (Z.to_nat (hi - lo)) with (Z.to_nat (mid - lo) + Z.to_nat (hi - mid))%nat by lia.
    rewrite seq_app, map_app. f_equal. cbn [Nat.add].
    rewrite (seq_as_map (Z.to_nat (mid - lo))), map_map. apply map_ext. intros i. lia.
  Qed.

  (* ---------------------------------------------------------------- evaluate_at on one-term divisors *)
  Lemma eval_exemptions_vanish d x : eval_exemptions Fo d x = vanish Fo x (d_ex d).
  Proof. reflexivity. Qed.

  Lemma eval_numerator_single m c x ex : 0 <= m <= n ->
    eval_numerator Fo (mkD [(m, c)] ex) x = (pw x m - c)%F.
  Proof.
    intros Hm. unfold eval_numerator. cbn [d_num fold_left fst snd].
    rewrite Z.mod_small by lia. ring.
  Qed.

  (* ---------------------------------------------------------------- transition divisor *)
  (* the polynomial that vanishes exactly on the enforced steps 0 .. n-k-1 *)
  Definition Zt (k : Z) (x : F) : F := vanish Fo x (map (pw g) (zrange 0 (n - k))).

  Lemma from_transition_spec k : 0 <= k <= n ->
    from_transition Fo g n k = Some (mkD [(n, fone Fo)] (map (pw g) (zrange (n - k) n))).
  Proof.
    intros Hk. unfold from_transition, checked_sub.
    replace (n <? k) with false by (symmetry; apply Z.ltb_ge; lia). reflexivity.
  Qed.

  Lemma from_transition_refuses k : n < k -> from_transition Fo g n k = None.
  Proof.
    intros Hk. unfold from_transition, checked_sub.
    replace (n <? k) with true by (symmetry; apply Z.ltb_lt; lia). reflexivity.
  Qed.

  (* the debug_assert of get_trace_domain_value_at cannot fire inside from_transition *)
  Lemma from_transition_steps_in_domain k s : 0 <= k <= n -> In s (zrange (n - k) n) -> 0 <= s < n.
  Proof. intros Hk Hin. apply In_zrange in Hin. lia. Qed.

  Lemma transition_degree k d : 0 <= k <= n -> from_transition Fo g n k = Some d -> d_degree d = Some (n - k).
  Proof.
    intros Hk E. rewrite from_transition_spec in E by lia. injection E as <-.
    unfold d_degree, checked_sub. cbn [d_num d_ex fold_left fst]. rewrite map_length, zrange_length.
    replace (0 + n <? Z.of_nat (Z.to_nat (n - (n - k)))) with false by (symmetry; apply Z.ltb_ge; lia).
    f_equal. lia.
  Qed.

  Theorem transition_divisor_zero_set k d i : 0 <= k <= n -> from_transition Fo g n k = Some d -> 0 <= i < n ->
    eval_numerator Fo d (pw g i) = fzero Fo /\
    (eval_exemptions Fo d (pw g i) = fzero Fo <-> n - k <= i).
  Proof.
    intros Hk E Hi. pose proof n_pos. rewrite from_transition_spec in E by lia. injection E as <-. split.
    - rewrite eval_numerator_single by lia. rewrite pw_pw by lia. rewrite Z.mul_comm, gpow_n_mul by lia. ring.
    - rewrite eval_exemptions_vanish. cbn [d_ex]. rewrite (vanish_eq_0 Fo L). split.
      + intros (e & Hin & He). apply in_map_iff in Hin. destruct Hin as (s & <- & Hs).
        apply In_zrange in Hs. apply gpow_inj in He; lia.
      + intros Hle. exists (pw g i). split; [|reflexivity]. apply in_map. apply In_zrange. lia.
  Qed.

  (* numerator = Zt * denominator, for every x: the quotient is the polynomial Zt *)
  Theorem transition_divisor_quotient k d x : 0 <= k <= n -> from_transition Fo g n k = Some d ->
    eval_numerator Fo d x = (Zt k x * eval_exemptions Fo d x)%F.
  Proof.
    intros Hk E. pose proof n_pos. rewrite from_transition_spec in E by lia. injection E as <-.
    rewrite eval_numerator_single by lia. rewrite eval_exemptions_vanish. cbn [d_ex]. unfold Zt.
    rewrite xn_minus_1_splits. rewrite (zrange_split 0 (n - k) n) by lia.
    rewrite map_app. apply (vanish_app Fo L).
  Qed.

  Theorem transition_evaluate_at_agrees k d x : 0 <= k <= n -> from_transition Fo g n k = Some d ->
    eval_exemptions Fo d x <> fzero Fo -> evaluate_at Fo d x = Zt k x.
  Proof.
    intros Hk E Hx. unfold evaluate_at. rewrite (transition_divisor_quotient k d x Hk E).
    apply (fdiv_mul_cancel Fo L). exact Hx.
  Qed.

  (* Zt vanishes exactly on the enforced steps, over the whole field *)
  Theorem Zt_zero_set k x : 0 <= k <= n -> (Zt k x = fzero Fo <-> exists i, 0 <= i < n - k /\ x = pw g i).
  Proof.
    intros Hk. unfold Zt. rewrite (vanish_eq_0 Fo L). split.
    - intros (e & Hin & ->). apply in_map_iff in Hin. destruct Hin as (s & <- & Hs). apply In_zrange in Hs.
      exists s. split; [lia|reflexivity].
    - intros (i & Hi & ->). exists (pw g i). split; [|reflexivity]. apply in_map, In_zrange. lia.
  Qed.

  Corollary Zt_on_domain k i : 0 <= k <= n -> 0 <= i < n -> (Zt k (pw g i) = fzero Fo <-> i < n - k).
  Proof.
    intros Hk Hi. rewrite Zt_zero_set by lia. split.
    - intros (j & Hj & E). apply gpow_inj in E; lia.
    - intros Hlt. exists i. split; [lia|reflexivity].
  Qed.

  (* what the code's evaluate_at returns on the trace domain: 0 everywhere -- on the enforced steps because the
     quotient vanishes, on the k exempt steps because 0/0 is totalised to 0 (there the quotient Zt is NOT zero) *)
  Theorem transition_evaluate_at_on_domain k d i : 0 <= k <= n -> from_transition Fo g n k = Some d -> 0 <= i < n ->
    evaluate_at Fo d (pw g i) = fzero Fo /\
    (n - k <= i -> eval_exemptions Fo d (pw g i) = fzero Fo /\ Zt k (pw g i) <> fzero Fo).
  Proof.
    intros Hk E Hi. destruct (transition_divisor_zero_set k d i Hk E Hi) as [Hnum Hden]. split.
    - unfold evaluate_at. rewrite Hnum. apply (fdiv_0_l Fo L).
    - intros Hle. split; [apply Hden; exact Hle|]. rewrite Zt_on_domain by lia. lia.
  Qed.

  (* ---------------------------------------------------------------- assertion divisors *)
  Lemma from_assertion_spec a : valid a n ->
    exists m, get_num_steps a n = Some m /\ 0 < m <= n /\
      (is_single a = true -> m = 1) /\ (is_single a = false -> n = m * a_stride a) /\
      from_assertion Fo g a n = Some (mkD [(m, pw g (m * a_first a))] []).
  Proof.
    intros Hv. destruct (get_num_steps_spec a n Hv) as (m & Eg & Hm & Hs & Hms).
    pose proof n_pos.
    destruct (valid_cases a n Hv) as (_ & [(S & _ & _ & Hf)|(S & P & Ls & Hf & _)]).
    - specialize (Hs S). subst m. exists 1. repeat split; try lia; try assumption; try congruence.
      unfold from_assertion. rewrite Eg. destruct (Z.eqb_spec (a_first a) 0) as [E0|E0].
      + rewrite E0. reflexivity.
      + unfold trace_domain_value_at. replace (1 * a_first a <? n) with true by (symmetry; apply Z.ltb_lt; lia).
        reflexivity.
    - specialize (Hms S). exists m. repeat split; try nia; try assumption; try congruence.
      unfold from_assertion. rewrite Eg. destruct (Z.eqb_spec (a_first a) 0) as [E0|E0].
      + rewrite E0, Z.mul_0_r. reflexivity.
      + unfold trace_domain_value_at. replace (m * a_first a <? n) with true by (symmetry; apply Z.ltb_lt; nia).
        reflexivity.
  Qed.

  Lemma assertion_evaluate_at m c x : 0 <= m <= n ->
    evaluate_at Fo (mkD [(m, c)] []) x = (pw x m - c)%F.
  Proof.
    intros Hm. unfold evaluate_at. rewrite eval_numerator_single by lia.
    rewrite eval_exemptions_vanish. cbn [d_ex]. rewrite (vanish_nil Fo). apply (fdiv_1_r Fo L).
  Qed.

  (* D_a(g^i) = 0 <-> i is a step the assertion names *)
  Theorem assertion_divisor_zero_set a d i : valid a n -> from_assertion Fo g a n = Some d -> 0 <= i < n ->
    (evaluate_at Fo d (pw g i) = fzero Fo <-> In i (steps a n)).
  Proof.
    intros Hv E Hi. pose proof n_pos.
    destruct (from_assertion_spec a Hv) as (m & _ & Hm & Hs & Hms & E'). rewrite E' in E. injection E as <-.
    rewrite assertion_evaluate_at by lia. rewrite (fsub_eq_0 Fo L). rewrite pw_pw by lia.
    destruct (valid_cases a n Hv) as (_ & [(S & _ & _ & Hf)|(S & P & Ls & Hf & _)]).
    - specialize (Hs S). subst m. rewrite (steps_single a n i Hv S).
      rewrite gpow_eq_iff by lia. rewrite !Z.mul_1_r, Z.mul_1_l, !Z.mod_small by lia. tauto.
    - specialize (Hms S). rewrite (steps_mod a n i Hv S).
      rewrite gpow_eq_iff by nia.
      assert (E1 : (i * m) mod n = (i mod a_stride a) * m) by (rewrite Hms, (Z.mul_comm m (a_stride a)); apply Z.mul_mod_distr_r; lia).
      assert (E2 : (m * a_first a) mod n = a_first a * m).
      { rewrite Hms, (Z.mul_comm m (a_first a)), (Z.mul_comm m (a_stride a)), Z.mul_mod_distr_r by lia. rewrite Z.mod_small by lia. reflexivity. }
      rewrite E1, E2. split.
      + intros H1. split; [lia|nia].
      + intros [_ ->]. reflexivity.
  Qed.

  (* over the whole field: the divisor vanishes at x iff x is a named point of the trace domain *)
  Theorem assertion_divisor_zero_set_all a d x : valid a n -> from_assertion Fo g a n = Some d ->
    (evaluate_at Fo d x = fzero Fo <-> exists s, In s (steps a n) /\ x = pw g s).
  Proof.
    intros Hv E. pose proof n_pos. split.
    - intros H0.
      assert (Hdom : exists i, 0 <= i < n /\ x = pw g i).
      { apply root_in_domain.
        destruct (from_assertion_spec a Hv) as (m & _ & Hm & Hs & Hms & E'). rewrite E' in E. injection E as <-.
        rewrite assertion_evaluate_at in H0 by lia. apply (proj1 (fsub_eq_0 Fo L _ _)) in H0.
        destruct (valid_cases a n Hv) as (_ & [(S & _ & _ & Hf)|(S & P & Ls & Hf & _)]).
        - specialize (Hs S). subst m.
          assert (Ex : x = pw g (a_first a)).
          { rewrite Z.mul_1_l in H0. rewrite <- H0. rewrite (fpow_spec Fo L). change (Z.to_nat 1) with 1%nat. cbn [pown]. ring. }
          rewrite Ex, pw_pw by lia. rewrite Z.mul_comm. apply gpow_n_mul. lia.
        - specialize (Hms S). rewrite Hms at 1. rewrite <- pw_pw by lia. rewrite H0.
          rewrite pw_pw by nia. replace (m * a_first a * a_stride a) with (n * a_first a) by nia.
          apply gpow_n_mul. lia. }
      destruct Hdom as (i & Hi & ->). exists i. split; [|reflexivity].
      apply (assertion_divisor_zero_set a d i Hv E Hi). exact H0.
    - intros (s & Hin & ->). apply (assertion_divisor_zero_set a d s Hv E); [|exact Hin].
      apply (steps_in_domain a n s Hv Hin).
  Qed.

  Lemma assertion_degree a d : valid a n -> from_assertion Fo g a n = Some d ->
    d_degree d = get_num_steps a n /\ d_degree d = Some (Z.of_nat (length (steps a n))).
  Proof.
    intros Hv E. destruct (from_assertion_spec a Hv) as (m & Eg & Hm & _ & _ & E'). rewrite E' in E. injection E as <-.
    assert (Ed : d_degree (mkD [(m, pw g (m * a_first a))] []) = Some m).
    { unfold d_degree, checked_sub. cbn [d_num d_ex fold_left fst length].
      replace (0 + m <? Z.of_nat 0) with false by (symmetry; apply Z.ltb_ge; lia). f_equal. cbn. lia. }
    split; [congruence|]. rewrite Ed, <- Eg. apply steps_length. exact Hv.
  Qed.

  (* assertions grouped under one key share their divisor *)
  Theorem group_key_sound a b : valid a n -> valid b n -> group_key a = group_key b ->
    from_assertion Fo g a n = from_assertion Fo g b n.
  Proof.
    intros Ha Hb K. unfold group_key in K. injection K as Ks Kf. pose proof n_pos.
    destruct (from_assertion_spec a Ha) as (ma & _ & Hma & Hsa & Hmsa & Ea).
    destruct (from_assertion_spec b Hb) as (mb & _ & Hmb & Hsb & Hmsb & Eb).
    rewrite Ea, Eb, Kf.
    assert (Em : ma = mb).
    { unfold is_single in *. rewrite Ks in *. destruct (a_stride b =? NO_STRIDE) eqn:S.
      - rewrite Hsa, Hsb by reflexivity. reflexivity.
      - specialize (Hmsa eq_refl). specialize (Hmsb eq_refl). nia. }
    rewrite Em. reflexivity.
  Qed.
End Divisors.
