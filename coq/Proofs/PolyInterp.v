(* C20 — Lagrange interpolation (polynom::interpolate).  stdlib style. *)
From Coq Require Import List Arith Bool Lia Ring Field.
From VBase Require Import FieldOps.
From VModel Require Import Polynom.
From VProofs Require Import PolyBase PolyArith PolyCoeff PolyUtils PolyDiv PolyRoots.
Import ListNotations.

Section Interp.
Context {F : Type} (O : FOps F) (L : FLaws O).
Local Notation zero := (fzero O).
Local Notation one := (fone O).
Local Notation "a +f b" := (fadd O a b) (at level 50, left associativity).
Local Notation "a -f b" := (fsub O a b) (at level 50, left associativity).
Local Notation "a *f b" := (fmul O a b) (at level 40, left associativity).
Local Notation peval := (peval O).
Local Notation fpow := (fpow O).
Local Notation pprod := (pprod O).
Local Notation roots_poly := (roots_poly O).
Local Notation gsum := (gsum O).

Add Ring Fring : (FLaws_ring_theory O L).
Add Field Ffield : (FLaws_field_theory O L).

(* ------------------------------------------------------------------ generic helpers *)
Lemma mapM_nth {A B} (f : A -> Result B) d : forall (xs : list A) (g : nat -> B),
  (forall k, k < length xs -> f (nth k xs d) = Ok (g k)) -> mapM f xs = Ok (map g (seq 0 (length xs))).
Proof.
  induction xs as [|h t IH]; intros g H. reflexivity.
  cbn [mapM length seq map]. pose proof (H 0 ltac:(simpl; lia)) as H0. simpl in H0. rewrite H0. cbn [bind].
  rewrite (IH (fun k => g (S k))). 2: { intros k Hk. apply (H (S k)). simpl; lia. }
  cbn [bind]. rewrite <- seq_shift, map_map. reflexivity.
Qed.

Lemma mapM_panic {A B} (f : A -> Result B) : forall (xs : list A) x, In x xs -> f x = Panic -> mapM f xs = Panic.
Proof.
  induction xs as [|h t IH]; intros x Hin Hx. destruct Hin.
  cbn [mapM]. destruct (f h) eqn:E; [|reflexivity]. cbn [bind].
  destruct Hin as [->|Hin]; [congruence|]. now rewrite (IH x Hin Hx).
Qed.

Lemma get_map_seq {B} (g : nat -> B) n k : k < n -> get (map g (seq 0 n)) k = Ok (g k).
Proof.
  intros H. rewrite (get_ok _ k (g 0)) by now rewrite map_length, seq_length.
  rewrite (map_nth g (seq 0 n) 0 k). now rewrite seq_nth.
Qed.

Lemma split_nth (xs : list F) k : k < length xs -> xs = firstn k xs ++ nth k xs zero :: skipn (S k) xs.
Proof. intros H. rewrite <- (skipn_cons_nth xs k zero H). symmetry. apply firstn_skipn. Qed.

Definition removek (k : nat) (xs : list F) : list F := firstn k xs ++ skipn (S k) xs.

Lemma zip_acc_peval c x : forall (a b : list F), length a <= length b ->
  peval (zip_with (fun r m => r +f m *f c) a b) x = peval a x +f c *f peval (firstn (length a) b) x.
Proof.
  induction a as [|a0 a IH]; intros b H. simpl. ring.
  destruct b as [|b0 b]; [simpl in H; lia|]. cbn [zip_with length firstn PolyBase.peval].
  rewrite IH by (simpl in H; lia). ring.
Qed.

Lemma zip_acc_length {A B} (f : A -> B -> A) : forall (a : list A) (b : list B), length a <= length b ->
  length (zip_with f a b) = length a.
Proof.
  induction a; intros b H. reflexivity. destruct b; [simpl in H; lia|]. simpl. rewrite IHa; auto. simpl in H; lia.
Qed.

(* ------------------------------------------------------------------ the numerators *)
Definition Ng (xs : list F) (k : nat) : list F := roots_poly (removek k xs) ++ [zero].

Lemma numer_spec xs k : k < length xs ->
  syn_div_roots_in_place O (roots_poly xs) [nth k xs zero] = Ok (Ng xs k).
Proof.
  intros H. unfold syn_div_roots_in_place, syn_div_roots_in_place_full.
  rewrite roots_poly_length. cbn [length].
  destruct (Nat.ltb_spec 1 (S (length xs))); [|lia]. cbn [negb bind syn_roots_loop].
  rewrite (split_nth xs k H) at 1. rewrite (roots_poly_split O L). rewrite (syn_lin_linmul O L).
  reflexivity.
Qed.

Lemma Ng_peval xs k x : peval (Ng xs k) x = pprod (removek k xs) x.
Proof. unfold Ng. rewrite (peval_app O L), (roots_poly_peval O L). simpl. ring. Qed.

Lemma Ng_length xs k : k < length xs -> length (Ng xs k) = S (length xs).
Proof.
  intros H. unfold Ng, removek. rewrite app_length, (roots_poly_length O), app_length, firstn_length, skipn_length.
  simpl. lia.
Qed.

Lemma Ng_firstn xs k x : k < length xs -> peval (firstn (length xs) (Ng xs k)) x = pprod (removek k xs) x.
Proof.
  intros H. unfold Ng.
  assert (Hl : length (roots_poly (removek k xs)) = length xs).
  { rewrite (roots_poly_length O). unfold removek. rewrite app_length, firstn_length, skipn_length. lia. }
  rewrite firstn_app, Hl, Nat.sub_diag. simpl. rewrite app_nil_r.
  rewrite <- Hl, firstn_all. apply (roots_poly_peval O L).
Qed.

(* ------------------------------------------------------------------ the accumulation loops *)
Definition interp_inner_body (Ns : list (list F)) (i : nat) (y_slice : F) : nat -> list F -> Result (list F) :=
  fun j res => ni <- get Ns i;; nij <- get ni j;; rj <- get res j;; set res j (rj +f nij *f y_slice).

Definition interp_outer_body (Ns : list (list F)) (ys den : list F) : nat -> list F -> Result (list F) :=
  fun i result =>
    yi <- get ys i;; di <- get den i;;
    let y_slice := yi *f di in
    for_up 0 (length result) (interp_inner_body Ns i y_slice) result.

Lemma interp_inner Ns i Ni ysl : get Ns i = Ok Ni ->
  forall todo done, length done + length todo <= length Ni ->
  for_up (length done) (length todo) (interp_inner_body Ns i ysl) (done ++ todo)
  = Ok (done ++ zip_with (fun r m => r +f m *f ysl) todo (skipn (length done) Ni)).
Proof.
  intros HN. induction todo as [|t0 todo IH]; intros done Hl. reflexivity.
  cbn [length for_up]. unfold interp_inner_body at 1. rewrite HN. cbn [bind].
  simpl in Hl.
  rewrite (get_ok Ni (length done) zero) by lia. cbn [bind].
  rewrite get_app_mid. cbn [bind].
  rewrite set_ok by (rewrite app_length; simpl; lia). rewrite upd_app_mid.
  replace (done ++ (t0 +f nth (length done) Ni zero *f ysl) :: todo)
    with ((done ++ [t0 +f nth (length done) Ni zero *f ysl]) ++ todo) by (rewrite <- app_assoc; reflexivity).
  replace (S (length done)) with (length (done ++ [t0 +f nth (length done) Ni zero *f ysl]))
    by (rewrite app_length; simpl; lia).
  rewrite IH by (rewrite app_length; simpl; lia).
  rewrite app_length. simpl. rewrite Nat.add_1_r.
  rewrite (skipn_cons_nth Ni (length done) zero) by lia. cbn [zip_with]. rewrite <- app_assoc. reflexivity.
Qed.

Section Fixed.
Variables (xs ys den : list F).
Let n := length xs.
Let Ns := map (Ng xs) (seq 0 n).
Hypothesis Hys : n <= length ys.
Hypothesis Hden : length den = n.

Definition term (x : F) (i : nat) : F := nth i ys zero *f nth i den zero *f pprod (removek i xs) x.

(* the value of the accumulator after k rounds, as a closed form *)
Fixpoint lag_acc (k : nat) : list F :=
  match k with
  | 0 => repeat zero n
  | S k' => zip_with (fun r m => r +f m *f (nth k' ys zero *f nth k' den zero)) (lag_acc k') (Ng xs k')
  end.

Lemma interp_outer x : forall k, k <= n ->
  exists res, for_up 0 k (interp_outer_body Ns ys den) (repeat zero n) = Ok res /\ length res = n /\
              peval res x = gsum (term x) k /\ res = lag_acc k.
Proof.
  induction k as [|k IH]; intros Hk.
  - exists (repeat zero n). split; [reflexivity|]. split. apply repeat_length.
    split. apply (peval_repeat_zero O L). reflexivity.
  - destruct IH as (res & Hr & Hl & Hp & Hlag); [lia|].
    rewrite for_up_snoc, Hr. cbn [bind]. simpl (0 + k).
    unfold interp_outer_body. rewrite (get_ok ys k zero) by lia. cbn [bind].
    rewrite (get_ok den k zero) by lia. cbn [bind].
    assert (HN : get Ns k = Ok (Ng xs k)) by (apply get_map_seq; lia).
    pose proof (interp_inner Ns k (Ng xs k) (nth k ys zero *f nth k den zero) HN res []) as G.
    simpl in G. rewrite G by (rewrite Ng_length; lia).
    eexists. split; [reflexivity|]. split.
    + rewrite zip_acc_length; auto. rewrite Ng_length; lia.
    + split.
      * rewrite zip_acc_peval by (rewrite Ng_length; lia). rewrite Hl. unfold n. rewrite (Ng_firstn xs k x) by (unfold n in *; lia).
        rewrite Hp. cbn [PolyCoeff.gsum]. unfold term. ring.
      * cbn [lag_acc]. rewrite Hlag. reflexivity.
Qed.
End Fixed.

(* ------------------------------------------------------------------ the function *)
Definition dens (xs : list F) : list F :=
  batch_inversion O (zip_with (fun e x => eval O e x) (map (Ng xs) (seq 0 (length xs))) xs).

Lemma dens_length xs : length (dens xs) = length xs.
Proof.
  unfold dens. rewrite (batch_inversion_length O L).
  rewrite zip_with_length; now rewrite map_length, seq_length.
Qed.

Lemma dens_nth xs k : k < length xs ->
  nth k (dens xs) zero = inv0 O (pprod (removek k xs) (nth k xs zero)).
Proof.
  intros H. unfold dens. rewrite (batch_inversion_spec O L).
  assert (Hl : length (map (Ng xs) (seq 0 (length xs))) = length xs) by now rewrite map_length, seq_length.
  rewrite (nth_indep _ zero (inv0 O zero)) by (rewrite map_length, zip_with_length; lia).
  rewrite map_nth. f_equal.
  rewrite (zip_with_nth _ (Ng xs 0) zero zero) by lia.
  rewrite (map_nth (Ng xs) (seq 0 (length xs)) 0 k). rewrite seq_nth by lia. simpl.
  rewrite (eval_horner O L). apply Ng_peval.
Qed.

Lemma interpolate_unfold dbg xs ys rlz : (dbg = true -> length xs = length ys) ->
  interpolate O dbg xs ys rlz =
  (result <- for_up 0 (length xs) (interp_outer_body (map (Ng xs) (seq 0 (length xs))) ys (dens xs))
               (repeat zero (length xs));;
   Ok (if rlz then remove_leading_zeros O result else result)).
Proof.
  intros Hd. unfold interpolate, interpolate_gen.
  assert (Hc : dbg && negb (length xs =? length ys) = false).
  { destruct dbg; [|reflexivity]. rewrite (proj2 (Nat.eqb_eq _ _) (Hd eq_refl)). reflexivity. }
  rewrite Hc. rewrite (poly_from_roots_spec O). cbn [bind].
  rewrite (mapM_nth _ zero xs (Ng xs)) by (intros; now apply numer_spec). cbn [bind].
  reflexivity.
Qed.

(* no panic whenever the lengths agree (duplicates in xs allowed); value of the result as a sum of Lagrange terms.
   Release profile (dbg = false): ys may be longer than xs, the extra values are ignored. *)
Lemma interpolate_ok_gen dbg xs ys : length xs <= length ys -> (dbg = true -> length xs = length ys) ->
  exists p, interpolate O dbg xs ys false = Ok p /\ length p = length xs /\
            interpolate O dbg xs ys true = Ok (remove_leading_zeros O p) /\
            forall x, peval p x = gsum (term xs ys (dens xs) x) (length xs).
Proof.
  intros H Hd.
  destruct (interp_outer xs ys (dens xs) H (dens_length xs) zero (length xs) (le_n _))
    as (p & Hp & Hl & _).
  exists p. rewrite !interpolate_unfold by assumption. rewrite Hp. cbn [bind].
  repeat split; auto.
  intros x. destruct (interp_outer xs ys (dens xs) H (dens_length xs) x (length xs) (le_n _))
    as (p2 & Hp2 & _ & Hv & _). rewrite Hp in Hp2. inversion Hp2; subst. exact Hv.
Qed.

(* closed form of the result (used to relate interpolate_batch to interpolate) *)
Lemma interpolate_eq_lag dbg xs ys : length xs <= length ys -> (dbg = true -> length xs = length ys) ->
  interpolate O dbg xs ys false = Ok (lag_acc xs ys (dens xs) (length xs)).
Proof.
  intros H Hd.
  destruct (interp_outer xs ys (dens xs) H (dens_length xs) zero (length xs) (le_n _))
    as (p & Hp & _ & _ & Hlag).
  rewrite interpolate_unfold by assumption. rewrite Hp. cbn [bind]. now rewrite Hlag.
Qed.

Lemma lag_acc_length xs ys den : forall k, k <= length xs -> length (lag_acc xs ys den k) = length xs.
Proof.
  induction k as [|k IH]; intros Hk; cbn [lag_acc]. apply repeat_length.
  rewrite zip_acc_length. apply IH; lia. rewrite IH by lia. rewrite Ng_length; lia.
Qed.

Lemma interpolate_ok dbg xs ys : length ys = length xs ->
  exists p, interpolate O dbg xs ys false = Ok p /\ length p = length xs /\
            interpolate O dbg xs ys true = Ok (remove_leading_zeros O p) /\
            forall x, peval p x = gsum (term xs ys (dens xs) x) (length xs).
Proof. intros H. apply interpolate_ok_gen; intros; lia. Qed.

Lemma interpolate_total_iff xs ys rlz : interpolate O true xs ys rlz <> Panic <-> length xs = length ys.
Proof.
  split.
  - intros H. unfold interpolate, interpolate_gen in H. destruct (Nat.eqb_spec (length xs) (length ys)); auto.
    simpl in H. congruence.
  - intros H. destruct (interpolate_ok true xs ys (eq_sym H)) as (p & H1 & _ & H2 & _).
    destruct rlz; [rewrite H2|rewrite H1]; discriminate.
Qed.

Lemma for_up_add {St} (body : nat -> St -> Result St) i n : forall m s,
  for_up i (n + m) body s = bind (for_up i n body s) (fun s' => for_up (i + n) m body s').
Proof.
  induction m as [|m IH]; intros s.
  - rewrite Nat.add_0_r. destruct (for_up i n body s); reflexivity.
  - rewrite Nat.add_succ_r, for_up_snoc, IH. destruct (for_up i n body s) as [s'|]; [|reflexivity].
    cbn [bind]. rewrite for_up_snoc. now rewrite Nat.add_assoc.
Qed.

(* release profile (no debug_assert): panics exactly when ys is shorter than xs (at `ys[i]`) *)
Lemma interpolate_release_total_iff xs ys rlz : interpolate O false xs ys rlz <> Panic <-> length xs <= length ys.
Proof.
  split.
  - intros H. destruct (Nat.le_gt_cases (length xs) (length ys)) as [|Hlt]; auto. exfalso. apply H.
    rewrite interpolate_unfold by discriminate.
    replace (length xs) with (length ys + S (length xs - length ys - 1)) at 1 by lia.
    rewrite for_up_add.
    destruct (for_up 0 (length ys) _ _) as [s'|]; [|reflexivity]. cbn [bind for_up].
    unfold interp_outer_body at 1. rewrite (get_panic ys) by lia. reflexivity.
  - intros H. destruct (interpolate_ok_gen false xs ys H ltac:(discriminate)) as (p & H1 & _ & H2 & _).
    destruct rlz; [rewrite H2|rewrite H1]; discriminate.
Qed.

(* distinct X coordinates (0 allowed): the result passes through every point *)
Lemma interpolate_spec dbg xs ys : NoDup xs -> length ys = length xs ->
  exists p, interpolate O dbg xs ys false = Ok p /\ length p = length xs /\
            interpolate O dbg xs ys true = Ok (remove_leading_zeros O p) /\
            forall m, m < length xs -> peval p (nth m xs zero) = nth m ys zero.
Proof.
  intros Hnd H. destruct (interpolate_ok dbg xs ys H) as (p & H1 & H2 & H3 & H4).
  exists p. repeat split; auto. intros m Hm. rewrite H4.
  rewrite (gsum_single O L _ m).
  - destruct (Nat.ltb_spec m (length xs)); [|lia]. unfold term.
    rewrite dens_nth by assumption. unfold inv0.
    assert (Hnz : pprod (removek m xs) (nth m xs zero) <> zero).
    { apply (pprod_nonroot O L). unfold removek. apply NoDup_remove_2. rewrite <- split_nth; assumption. }
    rewrite (feqb_neq O L) by assumption. field. exact Hnz.
  - intros i Hi Him. unfold term.
    assert (Hin : In (nth m xs zero) (removek i xs)).
    { pose proof (nth_In xs zero Hm) as Hx. rewrite (split_nth xs i Hi) in Hx at 2.
      unfold removek. apply in_app_or in Hx. apply in_or_app. destruct Hx as [Hx|[Hx|Hx]]; auto.
      exfalso. apply Him. apply (proj1 (NoDup_nth xs zero) Hnd i m Hi Hm Hx). }
    rewrite (pprod_root O L) by assumption. ring.
Qed.

(* the unrepaired code (syn_div(&roots, 1, x)) panicked as soon as one X coordinate was zero *)
Lemma interpolate_unrepaired_zero dbg xs ys rlz : In zero xs -> interpolate_unrepaired O dbg xs ys rlz = Panic.
Proof.
  intros Hin. unfold interpolate_unrepaired, interpolate_gen.
  destruct (dbg && negb (length xs =? length ys)); [reflexivity|].
  rewrite (poly_from_roots_spec O). cbn [bind].
  rewrite (mapM_panic _ xs zero Hin). reflexivity.
  unfold syn_div, syn_div_in_place, syn_div_in_place_full. simpl. now rewrite (feqb_refl O L).
Qed.

End Interp.
