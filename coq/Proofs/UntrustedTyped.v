(* Proofs/UntrustedTyped.v — stage 2 of C06: the typed parsers (Commitments::parse, Queries::parse / Table::from_bytes /
   BatchMerkleProof::deserialize, OodFrame::parse, FriProof::{num_partitions, parse_remainder, parse_layers},
   draw_integers) never panic, for ANY blob and ANY AIR-side parameters in the stated (exact) ranges; on success their
   shapes are what the verifier's later index arithmetic assumes. *)
From VBase Require Import MachInt.
From VModel Require Import Codec Untrusted.
From VProofs Require Import CodecPrim CodecTypes CodecTotal UntrustedParse.
Open Scope Z_scope.

(* ------------------------------------------------------------------------------------------ Result facts *)
Definition rsafe {A} (P : A -> Prop) (x : Result A) : Prop :=
  match x with Ok a => P a | Err _ => True | Panic => False end.

Lemma rsafe_bind {A B} (P : A -> Prop) (Q : B -> Prop) (x : Result A) (f : A -> Result B) :
  rsafe P x -> (forall a, P a -> rsafe Q (f a)) -> rsafe Q (rbind x f).
Proof. destruct x; cbn; auto. Qed.

Lemma rsafe_assert {A} (P : A -> Prop) (c : bool) (k : Result A) : c = true -> rsafe P k -> rsafe P (assert_ c k).
Proof. intros ->. auto. Qed.

Lemma rsafe_weaken {A} (P Q : A -> Prop) x : (forall a, P a -> Q a) -> rsafe P x -> rsafe Q x.
Proof. destruct x; cbn; auto. Qed.

Lemma rsafe_not_panic {A} (P : A -> Prop) (x : Result A) : rsafe P x -> x <> Panic.
Proof. destruct x; cbn; congruence. Qed.

Lemma parse_all_safe {A} (P : A -> Prop) (r : Rd A) blob : safeP P r -> is_bytes blob -> rsafe P (parse_all r blob).
Proof.
  intros Hr Hb. unfold parse_all. specialize (Hr blob Hb). destruct (r blob) as [[a rest]| |]; cbn; auto.
  destruct (has_more rest); cbn; [exact I | apply Hr].
Qed.

Lemma parse_prefix_safe {A} (P : A -> Prop) (r : Rd A) blob : safeP P r -> is_bytes blob -> rsafe P (parse_prefix r blob).
Proof.
  intros Hr Hb. unfold parse_prefix. specialize (Hr blob Hb). destruct (r blob) as [[a rest]| |]; cbn; auto. apply Hr.
Qed.

Lemma safe_lift_ok {A} (P : A -> Prop) (x : Result A) : rsafe P x -> safeP P (lift x).
Proof. intros H bs Hbs. unfold lift. destruct x; cbn in *; auto. Qed.

Lemma safe_read_elem F deg : safeP any (read_elem F deg).
Proof. unfold read_elem, read_arr. eapply safe_any. apply safe_read_many. apply safe_read_felt. Qed.

Lemma safe_read_digest dl : safeP any (read_digest dl).
Proof. unfold read_digest. eapply safe_any. apply safe_read_array. Qed.

Lemma mul_bound a b A B : 0 <= a <= A -> 0 <= b <= B -> 0 <= a * b <= A * B.
Proof. intros Ha Hb. split; [apply Z.mul_nonneg_nonneg; lia | apply Z.mul_le_mono_nonneg; lia]. Qed.

(* ------------------------------------------------------------------------------------------ Commitments *)
(* admissible range: 0 <= num_fri_layers and num_fri_layers + 1 fits into usize (any num_trace_segments) *)
Theorem Commitments_parse_safe dl c nseg nl :
  is_bytes c -> 0 <= nl -> nl + 1 <= usize_max ->
  rsafe (fun r => fst r = Z.max 0 nseg /\ snd r = nl + 1) (Commitments_parse dl c nseg nl).
Proof.
  intros Hc H0 H1. unfold Commitments_parse. apply rsafe_assert; [apply Z.leb_le; lia|].
  apply parse_all_safe; [|exact Hc].
  eapply safe_bind; [apply (safe_read_many_len _ _ nseg (safe_read_digest dl))|]. intros t [_ Ht].
  eapply safe_bind; [apply safe_read_digest|]. intros d _.
  eapply safe_bind; [apply (safe_read_many_len _ _ (nl + 1) (safe_read_digest dl))|]. intros f [_ Hf].
  apply safe_ret. cbn. split; [exact Ht | rewrite Hf; lia].
Qed.

(* -------------------------------------------------------------------------------- BatchMerkleProof *)
Lemma BatchMerkleProof_deserialize_safe dl leaves depth : safeP any (BatchMerkleProof_deserialize dl leaves depth).
Proof.
  unfold BatchMerkleProof_deserialize.
  repeat (apply safe_if; [apply safe_fail|]).
  eapply safe_bind; [apply safe_read_u8|]. intros nv _.
  eapply safe_any. apply safe_read_many.
  eapply safe_bind; [apply safe_read_u8|]. intros nd _.
  eapply safe_bind; [apply (safe_read_many _ _ nd (safe_read_digest dl))|]. intros ds _.
  apply (safe_ret any). exact I.
Qed.

(* ----------------------------------------------------------------------------------------------- Queries *)
(* admissible range (the `# Panics` section of Queries::parse and Table::from_bytes): domain_size a power of two,
   1 <= values_per_query <= 255, num_queries <= 255 (it is a u8 of the proof; 0 is an error since the repair),
   elements of at most 2^32 bytes *)
Theorem Queries_parse_safe F deg dl q domain nq vpq :
  queries_ok q -> is_pow2 domain = true -> 0 < vpq <= 255 -> 0 <= nq <= 255 -> 0 <= elem_bytes F deg <= 2 ^ 32 ->
  rsafe (fun s => qs_rows s = nq /\ qs_cols s = vpq /\ 0 < nq) (Queries_parse F deg dl q domain nq vpq).
Proof.
  intros [Hp Hv] Hd Hvpq Hnq Heb. unfold Queries_parse.
  apply rsafe_assert; [exact Hd|]. apply rsafe_assert; [apply Z.gtb_lt; lia|].
  destruct (nq =? 0) eqn:E0; [exact I|]. apply Z.eqb_neq in E0.
  cbv zeta.
  pose proof (mul_bound (elem_bytes F deg) vpq (2 ^ 32) 255 ltac:(lia) ltac:(lia)) as B1.
  pose proof (mul_bound nq (elem_bytes F deg * vpq) 255 (2 ^ 32 * 255) ltac:(lia) ltac:(lia)) as B2.
  apply rsafe_assert; [apply Z.leb_le; unfold usize_max; lia|].
  apply rsafe_assert; [apply Z.leb_le; unfold usize_max; lia|].
  destruct (negb (len (q_values q) =? nq * (elem_bytes F deg * vpq))); [exact I|].
  apply rsafe_assert; [apply Z.gtb_lt; lia|]. apply rsafe_assert; [apply Z.leb_le; lia|].
  apply rsafe_assert; [apply Z.gtb_lt; lia|]. apply rsafe_assert; [apply Z.leb_le; lia|].
  eapply rsafe_bind.
  { apply parse_prefix_safe; [|exact Hv]. apply (safe_read_many_len _ _ (nq * vpq) (safe_read_elem F deg)). }
  intros data [_ Hlen].
  eapply rsafe_bind.
  { apply parse_all_safe; [|exact Hp]. apply BatchMerkleProof_deserialize_safe. }
  intros nodes _. cbn. rewrite Hlen. rewrite Z.max_r by nia.
  rewrite Z.div_mul by lia. repeat split; lia.
Qed.

(* ---------------------------------------------------------------------------------------------- OodFrame *)
(* admissible range: 0 < main_trace_width, 0 < num_evaluations, widths below 2^32 (the library bounds them by 255) *)
Theorem OodFrame_parse_safe F deg f mw aw ne :
  ood_ok f -> 0 < mw -> 0 <= aw -> mw + aw <= 2 ^ 32 -> 0 < ne ->
  rsafe (fun s => os_evals s = ne /\
                  match os_lagrange s with
                  | Some n => 0 < n /\ 1 <= aw /\ os_cur s = mw + aw - 1
                  | None => os_cur s = mw + aw
                  end) (OodFrame_parse F deg f mw aw ne).
Proof.
  intros (Ht & Hl & He) Hmw Haw Hw Hne. unfold OodFrame_parse.
  apply rsafe_assert; [apply Z.gtb_lt; lia|]. apply rsafe_assert; [apply Z.gtb_lt; lia|].
  eapply (rsafe_bind (fun lag => match lag with Some n => 0 < n | None => True end)).
  { apply parse_all_safe; [|exact Hl].
    eapply safe_bind; [apply safe_read_u8|]. intros n Hn.
    destruct (n >? 0) eqn:En; [|apply safe_ret; exact I].
    eapply safe_bind; [apply (safe_read_many_len _ _ n (safe_read_elem F deg))|]. intros l [_ Hlen].
    apply safe_ret. rewrite Hlen. apply Z.gtb_lt in En. lia. }
  intros lag Hlag.
  set (dec := match lag with Some _ => 1 | None => 0 end).
  destruct (aw <? dec) eqn:Ed; [exact I|]. apply Z.ltb_ge in Ed.
  assert (Hdec : 0 <= dec <= 1) by (unfold dec; destruct lag; lia).
  eapply (rsafe_bind (fun cur => cur = mw + (aw - dec))).
  { apply parse_all_safe; [|exact Ht].
    eapply safe_bind; [apply safe_read_u8|]. intros fs Hfs.
    destruct (negb (fs =? 2)) eqn:Efs; [apply safe_fail|].
    apply negb_false_iff in Efs. apply Z.eqb_eq in Efs. subst fs.
    eapply (safe_bind any).
    { apply safe_lift_ok. apply rsafe_assert; [apply Z.leb_le; unfold usize_max; lia|].
      apply rsafe_assert; [apply Z.leb_le; unfold usize_max; lia|]. exact I. }
    intros _ _.
    eapply safe_bind; [apply (safe_read_many_len _ _ ((mw + (aw - dec)) * 2) (safe_read_elem F deg))|]. intros tr [_ Hlen].
    apply safe_ret. rewrite Hlen. rewrite Z.max_r by lia. apply Z.div_mul. lia. }
  intros cur Hcur.
  eapply (rsafe_bind (fun ev : list (list Z) => llen ev = ne)).
  { apply parse_all_safe; [|exact He].
    eapply safe_weaken; [|apply (safe_read_many_len _ _ ne (safe_read_elem F deg))].
    intros a [_ Ha]. rewrite Ha. lia. }
  intros ev Hev. cbn. split; [exact Hev|].
  subst cur. unfold dec in *. destruct lag; repeat split; try lia; auto.
Qed.

(* ---------------------------------------------------------------------------------------------- FriProof *)
Theorem Fri_num_partitions_safe p : 0 <= fri_num_partitions p < 64 ->
  rsafe (fun n => 1 <= n) (Fri_num_partitions p).
Proof.
  intros H. unfold Fri_num_partitions.
  assert (2 ^ fri_num_partitions p <= 2 ^ 63) by (apply Z.pow_le_mono_r; lia).
  assert (0 < 2 ^ fri_num_partitions p) by (apply Z.pow_pos_nonneg; lia).
  apply rsafe_assert; [apply Z.leb_le; unfold usize_max; lia|]. cbn. lia.
Qed.

Lemma Fri_num_partitions_ok p : 0 <= fri_num_partitions p < 64 ->
  exists n, Fri_num_partitions p = Ok n /\ 1 <= n.
Proof.
  intros H. unfold Fri_num_partitions, assert_.
  assert (2 ^ fri_num_partitions p <= 2 ^ 63) by (apply Z.pow_le_mono_r; lia).
  assert (0 < 2 ^ fri_num_partitions p) by (apply Z.pow_pos_nonneg; lia).
  destruct (Z.leb_spec (2 ^ fri_num_partitions p) usize_max); [|unfold usize_max in *; lia].
  eexists. split; [reflexivity | lia].
Qed.

(* the necessity of the reader's check: the exponent 64 overflows *)
Lemma Fri_num_partitions_64_panics : Fri_num_partitions (mkFri [] [] 64) = Panic.
Proof. vm_compute. reflexivity. Qed.

Theorem Fri_parse_remainder_safe F deg p : fri_ok p -> 0 < elem_bytes F deg ->
  rsafe (fun n => 1 <= n) (Fri_parse_remainder F deg p).
Proof.
  intros (_ & Hr & _) Heb. unfold Fri_parse_remainder. cbv zeta.
  destruct (is_pow2 (len (fri_remainder p) / elem_bytes F deg)) eqn:E; [|exact I]. cbn [negb].
  eapply rsafe_bind.
  { apply parse_all_safe; [|exact Hr]. apply (safe_read_many_len _ _ _ (safe_read_elem F deg)). }
  intros r [_ Hlen]. cbn. rewrite Hlen. apply is_pow2_pos in E. lia.
Qed.

(* the folding chain of [n] layers starting at domain d never meets a domain smaller than the folding factor *)
Fixpoint fold_chain (n : nat) (d ff : Z) : Prop :=
  match n with O => True | S n' => ff <= d /\ fold_chain n' (d / ff) ff end.

Lemma FriLayer_parse_safe F deg dl l d ff :
  layer_ok l -> 0 < d -> 0 < ff <= 2 ^ 16 -> 0 < elem_bytes F deg <= 2 ^ 32 ->
  rsafe (fun s => 0 < ls_queries s) (FriLayer_parse F deg dl l d ff).
Proof.
  intros [Hv Hp] Hd Hff Heb. unfold FriLayer_parse. cbv zeta.
  pose proof (mul_bound (elem_bytes F deg) ff (2 ^ 32) (2 ^ 16) ltac:(lia) ltac:(lia)) as B1.
  assert (B0 : 0 < elem_bytes F deg * ff) by (apply Z.mul_pos_pos; lia).
  apply rsafe_assert; [apply Z.leb_le; unfold usize_max; lia|].
  apply rsafe_assert; [apply negb_true_iff, Z.eqb_neq; lia|].
  destruct (negb (len (fl_values l) mod (elem_bytes F deg * ff) =? 0)); [exact I|].
  destruct (len (fl_values l) / (elem_bytes F deg * ff) =? 0) eqn:E0; [exact I|]. apply Z.eqb_neq in E0.
  assert (Hq : 0 <= len (fl_values l) / (elem_bytes F deg * ff)) by (apply Z.div_pos; [unfold len; lia | lia]).
  eapply rsafe_bind.
  { apply parse_all_safe; [|exact Hv].
    apply (safe_read_many_len _ _ _ (safe_read_many _ _ ff (safe_read_elem F deg))). }
  intros qv [_ Hlen].
  apply rsafe_assert; [apply Z.gtb_lt; lia|].
  eapply rsafe_bind.
  { apply parse_all_safe; [|exact Hp]. apply BatchMerkleProof_deserialize_safe. }
  intros nodes _. cbn. rewrite Hlen. lia.
Qed.

Lemma Fri_layers_loop_safe F deg dl ls d ff :
  Forall layer_ok ls -> 0 < d -> 1 < ff <= 2 ^ 16 -> 0 < elem_bytes F deg <= 2 ^ 32 ->
  rsafe (fun r => length r = length ls /\ Forall (fun s => 0 < ls_queries s) r /\ fold_chain (length ls) d ff)
        (Fri_layers_loop F deg dl ls d ff).
Proof.
  intros Hls. revert d. induction Hls as [|l ls Hl Hls IH]; intros d Hd Hff Heb; cbn [Fri_layers_loop].
  - cbn. auto.
  - destruct (d <? ff) eqn:E; [exact I|]. apply Z.ltb_ge in E.
    assert (Hd' : 0 < d / ff) by (apply Z.div_str_pos; lia).
    eapply rsafe_bind; [apply FriLayer_parse_safe; auto; lia|]. intros s Hs.
    eapply rsafe_bind; [apply IH; auto|]. intros r (Hr1 & Hr2 & Hr3).
    cbn. repeat split; auto.
Qed.

(* admissible range (the `# Panics` section of parse_layers): domain_size and folding_factor powers of two, folding
   factor > 1 (and below 2^16: the library only supports 2, 4, 8, 16) *)
Theorem Fri_parse_layers_safe F deg dl p d ff :
  fri_ok p -> is_pow2 d = true -> is_pow2 ff = true -> 1 < ff <= 2 ^ 16 -> 0 < elem_bytes F deg <= 2 ^ 32 ->
  rsafe (fun r => length r = length (fri_layers p) /\ Forall (fun s => 0 < ls_queries s) r /\
                  fold_chain (length (fri_layers p)) d ff)
        (Fri_parse_layers F deg dl p d ff).
Proof.
  intros (Hl & _ & _) Hd Hf Hff Heb. unfold Fri_parse_layers.
  apply rsafe_assert; [exact Hd|]. apply rsafe_assert; [exact Hf|]. apply rsafe_assert; [apply Z.gtb_lt; lia|].
  apply Fri_layers_loop_safe; auto. now apply is_pow2_pos.
Qed.

(* --------------------------------------------------------------------------------------- draw_integers *)
Theorem draw_integers_safe nq d : is_pow2 d = true ->
  rsafe (fun n => 0 <= nq -> nq < d) (draw_integers_shape nq d).
Proof.
  intros Hd. unfold draw_integers_shape. apply rsafe_assert; [exact Hd|].
  destruct (nq >=? d) eqn:E; [exact I|]. rewrite Z.geb_leb in E. apply Z.leb_gt in E.
  apply rsafe_assert; [apply Z.geb_le; apply is_pow2_pos in Hd; lia|].
  destruct (nq >? 1000); cbn; auto.
Qed.

(* ------------------------------------------------------------------------------------ num_fri_layers *)
(* the fuel of the model's loop (64) is never exhausted for a 64-bit domain size and a folding factor >= 2: more fuel
   does not change the result, i.e. the function is the while loop of FriOptions::num_fri_layers *)
Lemma nfl_loop_zero fuel ff m : 0 <= m -> nfl_loop fuel 0 ff m = 0.
Proof. intros Hm. destruct fuel; cbn [nfl_loop]; [reflexivity|]. destruct (Z.gtb_spec 0 m); [lia | reflexivity]. Qed.

Lemma nfl_loop_fuel f : forall k d ff m, 0 <= d < 2 ^ Z.of_nat f -> 2 <= ff -> 0 <= m ->
  nfl_loop (f + k) d ff m = nfl_loop f d ff m.
Proof.
  induction f as [|f IH]; intros k d ff m Hd Hff Hm.
  - change (2 ^ Z.of_nat 0) with 1 in Hd. assert (d = 0) by lia. subst d. cbn [Nat.add]. now rewrite !nfl_loop_zero.
  - cbn [Nat.add nfl_loop]. destruct (d >? m); [|reflexivity]. f_equal. apply IH; auto.
    rewrite Nat2Z.inj_succ, Z.pow_succ_r in Hd by lia.
    split; [apply Z.div_pos; lia|].
    apply Z.div_lt_upper_bound; [lia|].
    assert (0 < 2 ^ Z.of_nat f) by (apply Z.pow_pos_nonneg; lia). nia.
Qed.

Theorem num_fri_layers_fuel : forall extra lde ff rmd bf, 0 <= lde < 2 ^ 64 -> 2 <= ff -> 0 <= (rmd + 1) * bf ->
  nfl_loop (64 + extra) lde ff ((rmd + 1) * bf) = num_fri_layers lde ff rmd bf.
Proof. intros. unfold num_fri_layers. apply (nfl_loop_fuel 64); auto. Qed.

(* the admissible ranges are not empty, and outside them the documented panics are real *)
Example typed_ranges_nonvacuous :
  Queries_parse F64P 1 32 (mkQ [0] (to_le_bytes 8 5)) 16 1 1 = Ok (mkQS 1 1 4 []) /\
  Queries_parse F64P 1 32 (mkQ [0] (to_le_bytes 8 5)) 16 0 1 = Err Invalid /\
  Queries_parse F64P 1 32 (mkQ [0] (to_le_bytes 8 5)) 12 1 1 = Panic /\
  OodFrame_parse F64P 1 (mkOod (2 :: to_le_bytes 8 1 ++ to_le_bytes 8 2) [0] (to_le_bytes 8 3)) 1 0 1 = Ok (mkOS 1 None 1) /\
  OodFrame_parse F64P 1 (mkOod [1] [0] (to_le_bytes 8 3)) 1 0 1 = Err Invalid /\
  OodFrame_parse F64P 1 (mkOod [2] (1 :: to_le_bytes 8 1) (to_le_bytes 8 3)) 1 0 1 = Err Invalid /\
  OodFrame_parse F64P 1 (mkOod [2] [0] []) 0 0 1 = Panic /\
  Fri_parse_layers F64P 1 32 (mkFri [mkFL (to_le_bytes 8 1 ++ to_le_bytes 8 2) [0]] [] 0) 4 2 = Ok [mkLS 1 1 []] /\
  Fri_parse_layers F64P 1 32 (mkFri [mkFL [0] [0]; mkFL [0] [0]] [] 0) 2 4 = Err Invalid /\
  Fri_parse_layers F64P 1 32 (mkFri [] [] 0) 6 2 = Panic /\
  draw_integers_shape 15 16 = Ok 15 /\ draw_integers_shape 16 16 = Err Invalid /\ draw_integers_shape 3 12 = Panic /\
  Commitments_parse 2 [1; 2; 3; 4; 5; 6] 1 0 = Ok (1, 1) /\ Commitments_parse 2 [] 1 usize_max = Panic.
Proof. vm_compute. repeat split; reflexivity. Qed.
