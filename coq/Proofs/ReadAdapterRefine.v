(* C13 — ReadAdapter refines SliceReader: induction over the operation list using the invariant of ReadAdapterInv and the
   generic simulation of the provided methods of ReadAdapterSim.  stdlib style. *)
From VBase Require Import MachInt.
From VModel Require Import ReadAdapter.
From VProofs Require Import ReadAdapterSim ReadAdapterInv.
Local Open Scope nat_scope.

(* the adapter state [s] represents the unread byte list [u] *)
Definition adapter_rel (s : astate) (u : list byte) : Prop := wf s /\ SI s /\ unread s = u.

(* result of the adapter vs result of the slice reader for operation [o]; [seen_after]: an empty read of the source has been
   observed by the end of the operation *)
Definition res_match (o : op) (seen_after : bool) (ra rs : outcome value) : Prop :=
  ra = rs \/ (is_eor o = true /\ ra = Ok VUnit /\ rs = Err EOF /\ seen_after = false).

Lemma res_match_never_pessimistic : forall o seen ra rs,
  res_match o seen ra rs -> rs = Ok VUnit -> ra = Ok VUnit.
Proof. intros o seen ra rs [E|(_ & _ & E & _)] H; congruence. Qed.

Section Refine.
  Variable grow : nat -> nat -> nat.
  Variable dbg : bool.
  Variable utf8 : list byte -> bool.

  Notation AD := (adapter grow dbg).

  (* lock-step agreement of the two readers along an operation list *)
  Fixpoint agree (ops : list op) (a : astate) (t : sstate) : Prop :=
    match ops with
    | [] => True
    | o :: rest =>
        let ra := step AD utf8 o a in
        let rs := step slice_reader utf8 o t in
        res_match o (a_seen (snd ra)) (fst ra) (fst rs) /\
        aborts (fst ra) = false /\
        unread (snd ra) = skipn (s_pos (snd rs)) (s_src (snd rs)) /\
        agree rest (snd ra) (snd rs)
    end.

  Lemma sim_of_ok : forall (A : Type) (m : astate -> outcome A * astate) sp,
    method_ok m sp -> sim astate (list byte) adapter_rel m sp.
  Proof.
    intros A m sp H s u (Hw & HS & Hu). subst u. destruct (H s Hw) as (Hw' & Ha & HS'). destruct (HS' HS) as (G1 & G2 & G3).
    split; [exact G2|]. split; [exact Hw'|]. split; [exact G1|exact G3].
  Qed.

  Lemma adapter_step_spec : forall o s u, is_eor o = false -> adapter_rel s u ->
    fst (step AD utf8 o s) = fst (step spec_reader utf8 o u) /\
    adapter_rel (snd (step AD utf8 o s)) (snd (step spec_reader utf8 o u)).
  Proof.
    intros o s u He Hr.
    apply (sim_step astate (list byte) AD spec_reader adapter_rel utf8 (Nat.max 16 (op_arg o))); auto; try lia.
    - apply sim_of_ok, a_u8_ok.
    - apply sim_of_ok, a_peek_ok.
    - intros n _. apply sim_of_ok, a_slice_ok.
    - intros n _. apply sim_of_ok, a_array_ok.
    - intros s1 u1 (Hw & HS & Hu). subst u1. destruct (a_more_spec s1 Hw) as (Hw' & Hu' & HS').
      destruct (HS' HS) as [G1 G2]. simpl. split; [exact G2|]. split; [exact Hw'|]. split; [exact G1|exact Hu'].
  Qed.

  Lemma adapter_eor_spec : forall n s u, adapter_rel s u ->
    adapter_rel (snd (step AD utf8 (CheckEor n) s)) (snd (step spec_reader utf8 (CheckEor n) u)) /\
    res_match (CheckEor n) (a_seen (snd (step AD utf8 (CheckEor n) s)))
              (fst (step AD utf8 (CheckEor n) s)) (fst (step spec_reader utf8 (CheckEor n) u)).
  Proof.
    intros n s u (Hw & HS & Hu). subst u. destruct (a_eor_spec n s Hw) as (Hw' & Ha & Hu' & HS').
    destruct (HS' HS) as [G1 G2]. unfold step, vmap, bind, ret. cbn [r_eor adapter spec_reader].
    destruct (a_eor n s) as [r s'] eqn:E. cbn [fst snd] in *. unfold sp_eor in *. cbn [fst snd] in *.
    destruct G2 as [G2|(G2 & G3 & G4)].
    - rewrite G2. destruct (n <=? length (unread s)); cbn [fst snd].
      + split; [split; [exact Hw'|split; [exact G1|exact Hu']]|left; reflexivity].
      + split; [split; [exact Hw'|split; [exact G1|exact Hu']]|left; reflexivity].
    - subst r. rewrite G3. cbn [fst snd].
      split; [split; [exact Hw'|split; [exact G1|exact Hu']]|]. right. repeat split; auto.
  Qed.

  (* no operation of the adapter aborts (panic / UB / fuel), for every source *)
  Lemma safe_of_ok : forall (A : Type) (m : astate -> outcome A * astate) sp, method_ok m sp -> safe astate wf m.
  Proof. intros A m sp H s Hw. destruct (H s Hw) as (Hw' & Ha & _). split; assumption. Qed.

  Lemma adapter_safe : forall o, safe astate wf (step AD utf8 o).
  Proof.
    intros o. apply safe_step.
    - eapply safe_of_ok, a_u8_ok.
    - eapply safe_of_ok, a_peek_ok.
    - intros n. eapply safe_of_ok, a_slice_ok.
    - intros n. eapply safe_of_ok, a_array_ok.
    - intros n s Hw. destruct (a_eor_spec n s Hw) as (Hw' & Ha & _). split; assumption.
    - intros s Hw. apply (a_more_spec s Hw).
  Qed.

  Lemma agree_gen : forall B ops a t u, 16 <= B -> Forall (fun o => op_arg o <= B) ops ->
    adapter_rel a u -> slice_rel B t u -> agree ops a t.
  Proof.
    intros B ops. induction ops as [|o ops IH]; intros a t u HB Hops Ha Ht; simpl; [exact I|].
    pose proof (Forall_inv Hops) as Ho. pose proof (Forall_inv_tail Hops) as Hrest.
    destruct (slice_step_spec utf8 B o t u HB Ho Ht) as [Es Rs].
    assert (Hsafe : aborts (fst (step AD utf8 o a)) = false) by (apply adapter_safe; apply Ha).
    destruct (is_eor o) eqn:He.
    - destruct o; try discriminate. destruct (adapter_eor_spec n a u Ha) as [Ra Ma].
      split; [|split; [exact Hsafe|split]].
      + rewrite Es. exact Ma.
      + destruct Ra as (_ & _ & E1). destruct Rs as (_ & E2 & _). now rewrite E1.
      + eapply IH; eauto.
    - destruct (adapter_step_spec o a u He Ha) as [Ea Ra].
      split; [|split; [exact Hsafe|split]].
      + left. now rewrite Ea, Es.
      + destruct Ra as (_ & _ & E1). destruct Rs as (_ & E2 & _). now rewrite E1.
      + eapply IH; eauto.
  Qed.

  Lemma init_rel : forall chunks, sticky chunks -> adapter_rel (a_init chunks) (concat chunks).
  Proof.
    intros chunks H. unfold adapter_rel, a_init, wf, SI, unread, buffer; simpl.
    repeat split; auto; intros; discriminate.
  Qed.

  Theorem adapter_refines_slice : forall chunks ops B,
    sticky chunks -> 16 <= B -> Forall (fun o => op_arg o <= B) ops ->
    (Z.of_nat (length (concat chunks)) + Z.of_nat B < 2 ^ 64)%Z ->
    agree ops (a_init chunks) (s_init (concat chunks)).
  Proof.
    intros chunks ops B Hs HB Hops Hlen. apply (agree_gen B ops _ _ (concat chunks)); auto.
    - now apply init_rel.
    - unfold slice_rel, s_init; simpl. repeat split; auto. lia.
  Qed.

  (* without check_eor the two output lists are equal *)
  Lemma agree_run : forall ops a t, agree ops a t -> Forall (fun o => is_eor o = false) ops ->
    run AD utf8 ops a = run slice_reader utf8 ops t.
  Proof.
    induction ops as [|o ops IH]; intros a t Hag Hne; simpl; [reflexivity|].
    simpl in Hag. destruct Hag as (Hm & Hab & _ & Hrest).
    pose proof (Forall_inv Hne) as He. pose proof (Forall_inv_tail Hne) as Hne'.
    destruct (step AD utf8 o a) as [ra a'], (step slice_reader utf8 o t) as [rs t']; cbn [fst snd] in *.
    destruct Hm as [E|(E & _)]; [|congruence]. subst rs. rewrite Hab. f_equal. now apply IH.
  Qed.

  Theorem outputs_equal_without_check_eor : forall chunks ops B,
    sticky chunks -> 16 <= B -> Forall (fun o => op_arg o <= B) ops ->
    (Z.of_nat (length (concat chunks)) + Z.of_nat B < 2 ^ 64)%Z ->
    Forall (fun o => is_eor o = false) ops ->
    run AD utf8 ops (a_init chunks) = run slice_reader utf8 ops (s_init (concat chunks)).
  Proof. intros. apply agree_run; auto. eapply adapter_refines_slice; eauto. Qed.

  (* no UB, no panic, no fuel exhaustion: every source (also with empty reads before EOF), every operation sequence *)
  Theorem adapter_never_aborts : forall chunks ops,
    Forall (fun r => aborts r = false) (run AD utf8 ops (a_init chunks)).
  Proof.
    intros chunks ops. assert (H : wf (a_init chunks)) by (unfold wf, a_init; simpl; lia).
    revert H. generalize (a_init chunks). induction ops as [|o ops IH]; intros s Hs; simpl; [constructor|].
    destruct (adapter_safe o s Hs) as [Ha Hp]. destruct (step AD utf8 o s) as [r s']; cbn [fst snd] in *.
    rewrite Ha. constructor; [exact Ha|]. apply IH, Hp.
  Qed.

  (* the unread bytes are conserved by every required method, for every source: nothing is dropped or duplicated
     (a byte leaves [unread] only as part of a returned value) *)
  Theorem unread_conserved_by_queries : forall s n, wf s ->
    unread (snd (a_eor n s)) = unread s /\ unread (snd (a_more s)) = unread s.
  Proof.
    intros s n Hw. split; [apply (a_eor_spec n s Hw)|apply (a_more_spec s Hw)].
  Qed.
End Refine.

(* ---------------------------------------------------------------- witnesses (non-vacuity, necessity of the side conditions) *)
Definition ex_chunks : list (list byte) := [[1; 2; 3]; [4; 5]; []; []]%Z.
Definition ex_ops : list op := [PeekU8; ReadU8; CheckEor 9; ReadSlice 2; ReadU16; HasMore; ReadU8].

Lemma ex_hyps : sticky ex_chunks /\ 16 <= 16 /\ Forall (fun o => op_arg o <= 16) ex_ops /\
  (Z.of_nat (length (concat ex_chunks)) + Z.of_nat 16 < 2 ^ 64)%Z.
Proof.
  split; [simpl; intuition discriminate|]. split; [lia|]. split; [|reflexivity].
  unfold ex_ops. repeat constructor; simpl; lia.
Qed.

(* the allowed difference really occurs: check_eor(5) on a 2-byte stream answers Ok before EOF has been observed *)
Lemma optimistic_witness :
  sticky [[1; 2]%Z] /\
  run (adapter vec_grow true) utf8_valid [CheckEor 5; ReadU8; ReadU8; CheckEor 5] (a_init [[1; 2]%Z]) =
    [Ok VUnit; Ok (VInt 1); Ok (VInt 2); Err EOF] /\
  run slice_reader utf8_valid [CheckEor 5; ReadU8; ReadU8; CheckEor 5] (s_init [1; 2]%Z) =
    [Err EOF; Ok (VInt 1); Ok (VInt 2); Err EOF].
Proof. split; [simpl; intuition discriminate|]. split; vm_compute; reflexivity. Qed.

(* the sticky-EOF hypothesis is necessary: a source that returns an empty read and then more data makes the adapter report
   UnexpectedEOF where the slice reader succeeds (std::io::Read: Ok(0) means end of stream) *)
Lemma empty_read_is_eof_witness :
  ~ sticky [[1]; []; [2]]%Z /\
  run (adapter vec_grow true) utf8_valid [ReadSlice 2; ReadSlice 2] (a_init [[1]; []; [2]]%Z) =
    [Err EOF; Ok (VBytes [1; 2]%Z)] /\
  run slice_reader utf8_valid [ReadSlice 2; ReadSlice 2] (s_init [1; 2]%Z) = [Ok (VBytes [1; 2]%Z); Err EOF].
Proof.
  split; [simpl; intros (_ & H & _); specialize (H eq_refl); discriminate|]. split; vm_compute; reflexivity.
Qed.

(* two-level path: bytes straddling the local buffer and the reader buffer, compaction, reset *)
Lemma straddle_example :
  run (adapter vec_grow true) utf8_valid [ReadSlice 2; ReadArray 4; ReadU16; ReadUsize; HasMore]
      (a_init [[1; 2; 3]; [4; 5]; [6; 7; 8; 3; 9]]%Z) =
  run slice_reader utf8_valid [ReadSlice 2; ReadArray 4; ReadU16; ReadUsize; HasMore] (s_init [1; 2; 3; 4; 5; 6; 7; 8; 3; 9]%Z).
Proof. vm_compute. reflexivity. Qed.
