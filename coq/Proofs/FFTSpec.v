(* C09 stage (a): the DFT by direct evaluation, the radix-2 decimation lemma and correctness of the clean
   recursive FFT `fft_rec` for EVERY k; coset evaluation and interpolation at the spec level.
   stdlib style. *)
From Coq Require Import List Arith Bool ZArith Lia Ring Field.
From VBase Require Import FieldOps.
From VModel Require Import FFT.
Import ListNotations.

(* ---------------------------------------------------------------- generic list facts *)
Lemma split_eo_cons2 {A} (a b : A) t :
  split_eo (a :: b :: t) = (a :: fst (split_eo t), b :: snd (split_eo t)).
Proof. cbn [split_eo]. destruct (split_eo t) as [e o]. reflexivity. Qed.

Lemma split_eo_cons {A} (a : A) t :
  split_eo (a :: t) = (a :: snd (split_eo t), fst (split_eo t)).
Proof. cbn [split_eo]. destruct (split_eo t) as [e o]. reflexivity. Qed.

Lemma split_eo_length {A} : forall n (l : list A), length l = 2 * n ->
  length (fst (split_eo l)) = n /\ length (snd (split_eo l)) = n.
Proof.
  induction n as [|n IH]; intros l Hl.
  - destruct l; [cbn; auto | cbn in Hl; lia].
  - destruct l as [|a [|b t]]; cbn [length] in Hl; try lia.
    rewrite split_eo_cons2. cbn [fst snd length].
    destruct (IH t) as [H1 H2]; [lia|]. rewrite H1, H2. auto.
Qed.

Lemma nth_nil {A} (d : A) i : nth i [] d = d.
Proof. destruct i; reflexivity. Qed.

Lemma split_eo_nth {A} (d : A) : forall l i,
  nth i (fst (split_eo l)) d = nth (2 * i) l d /\ nth i (snd (split_eo l)) d = nth (2 * i + 1) l d.
Proof.
  induction l as [|a t IH]; intros i.
  - cbn [split_eo fst snd]. rewrite !nth_nil. auto.
  - rewrite split_eo_cons. cbn [fst snd]. split.
    + destruct i as [|i']; [reflexivity|].
      replace (2 * S i') with (S (2 * i' + 1)) by lia. cbn [nth]. apply IH.
    + replace (2 * i + 1) with (S (2 * i)) by lia. cbn [nth]. apply IH.
Qed.

Lemma map2_map {A B C D} (f : B -> C -> D) (g : A -> B) (h : A -> C) l :
  map2 f (map g l) (map h l) = map (fun x => f (g x) (h x)) l.
Proof. induction l; cbn; [reflexivity | f_equal; assumption]. Qed.

Lemma map2_length {A B C} (f : A -> B -> C) : forall l1 l2, length l1 = length l2 ->
  length (map2 f l1 l2) = length l1.
Proof. induction l1; destruct l2; cbn; intros; try lia. f_equal. apply IHl1. lia. Qed.

Lemma seq_plus_map n m : seq n m = map (fun i => n + i) (seq 0 m).
Proof.
  induction n as [|n IH].
  - cbn. rewrite map_id. reflexivity.
  - rewrite <- seq_shift, IH, map_map. reflexivity.
Qed.

Lemma pow2_S k : 2 ^ S k = 2 ^ k + 2 ^ k.
Proof. cbn. lia. Qed.

Lemma pow2_pos k : 0 < 2 ^ k.
Proof. induction k; cbn; lia. Qed.

Section Spec.
Context {F : Type} (O : FOps F) (L : FLaws O).
Add Ring Fring : (FLaws_ring_theory O L).
Add Field Ffield : (FLaws_field_theory O L).

Local Notation fz := (fzero O).
Local Notation f1 := (fone O).
Local Infix "+f" := (fadd O) (at level 50, left associativity).
Local Infix "-f" := (fsub O) (at level 50, left associativity).
Local Infix "*f" := (fmul O) (at level 40, left associativity).
Local Notation "-f x" := (fneg O x) (at level 35, right associativity).
Local Notation peval := (peval O).
Local Notation fpow := (fpow O).

(* ---------------------------------------------------------------- powers *)
Lemma fpow_add w a b : fpow w (a + b) = fpow w a *f fpow w b.
Proof. induction a; cbn [fpow Nat.add]; [ring | rewrite IHa; ring]. Qed.

Lemma fpow_sq w n : fpow (w *f w) n = fpow w n *f fpow w n.
Proof. induction n; cbn [fpow]; [ring | rewrite IHn; ring]. Qed.

Lemma fpow_sq2 w n : fpow (w *f w) n = fpow w (2 * n).
Proof. rewrite fpow_sq. replace (2 * n) with (n + n) by lia. rewrite fpow_add. reflexivity. Qed.

Lemma fpow_mul_base a b n : fpow (a *f b) n = fpow a n *f fpow b n.
Proof. induction n; cbn [fpow]; [ring | rewrite IHn; ring]. Qed.

Lemma fpow_one n : fpow f1 n = f1.
Proof. induction n; cbn [fpow]; [reflexivity | rewrite IHn; ring]. Qed.

Lemma fpow_mul w a b : fpow w (a * b) = fpow (fpow w a) b.
Proof.
  induction b; cbn [fpow].
  - rewrite Nat.mul_0_r. reflexivity.
  - rewrite Nat.mul_succ_r, Nat.add_comm, fpow_add, IHb. reflexivity.
Qed.

Lemma fpow_pos_spec x e : fpow_pos O x e = fpow x (Pos.to_nat e).
Proof.
  induction e; cbn [fpow_pos].
  - rewrite IHe, Pos2Nat.inj_xI. cbn [fpow]. rewrite <- fpow_sq2, fpow_sq. ring.
  - rewrite IHe, Pos2Nat.inj_xO. rewrite <- fpow_sq2, fpow_sq. reflexivity.
  - change (Pos.to_nat 1) with 1. cbn [fpow_pos FFT.fpow]. ring.
Qed.

Lemma fpow_N_spec x n : fpow_N O x (N.of_nat n) = fpow x n.
Proof.
  destruct n; [reflexivity|].
  cbn [N.of_nat fpow_N]. rewrite fpow_pos_spec, SuccNat2Pos.id_succ. reflexivity.
Qed.

Lemma power_series_from_spec : forall n s w,
  power_series_from O s w n = map (fun i => s *f fpow w i) (seq 0 n).
Proof.
  induction n; intros; cbn [power_series_from seq map]; [reflexivity|].
  f_equal; [cbn; ring|].
  rewrite IHn, <- seq_shift, map_map. apply map_ext. intros i. cbn [fpow]. ring.
Qed.

Lemma get_power_series_spec w n : get_power_series O w n = map (fpow w) (seq 0 n).
Proof.
  unfold get_power_series. rewrite power_series_from_spec. apply map_ext. intros; ring.
Qed.

(* ---------------------------------------------------------------- the decimation lemma: P(x) = Pe(x^2) + x Po(x^2) *)
Lemma peval_split : forall l x,
  peval l x = peval (fst (split_eo l)) (x *f x) +f x *f peval (snd (split_eo l)) (x *f x).
Proof.
  induction l as [|c t IH]; intros x.
  - cbn. ring.
  - rewrite split_eo_cons. cbn [fst snd FFT.peval]. rewrite (IH x). ring.
Qed.

(* root condition: w^(2^(k-1)) = -1 for k >= 1, i.e. w is a primitive 2^k-th root of unity *)
Definition root_cond (k : nat) (w : F) : Prop :=
  match k with 0 => True | S k' => fpow w (2 ^ k') = -f f1 end.

Lemma root_cond_sq k w : root_cond (S k) w -> root_cond k (w *f w).
Proof.
  destruct k; cbn [root_cond]; [trivial|]. intros H.
  rewrite fpow_sq2. rewrite <- H. f_equal.
Qed.

Lemma root_cond_one k w : root_cond (S k) w -> fpow w (2 ^ S k) = f1.
Proof.
  cbn [root_cond]; intros H. rewrite pow2_S, fpow_add, H. ring.
Qed.

(* ---------------------------------------------------------------- (a) fft_rec computes the DFT, every k *)
Theorem fft_rec_correct : forall k w l,
  length l = 2 ^ k -> root_cond k w -> fft_rec O k w l = dft O (2 ^ k) w l.
Proof.
  induction k as [|k IH]; intros w l Hlen Hw.
  - destruct l as [|a [|b t]]; cbn in Hlen; try lia.
    cbn. f_equal. ring.
  - cbn [fft_rec].
    destruct (split_eo l) as [e o] eqn:Hs.
    assert (He : length e = 2 ^ k /\ length o = 2 ^ k).
    { pose proof (split_eo_length (2 ^ k) l) as H. rewrite Hs in H. apply H. rewrite Hlen. cbn. lia. }
    destruct He as [He Ho].
    rewrite (IH (w *f w) e He (root_cond_sq k w Hw)).
    rewrite (IH (w *f w) o Ho (root_cond_sq k w Hw)).
    unfold dft. rewrite get_power_series_spec, !map2_map.
    rewrite pow2_S, seq_app, map_app. cbn [Nat.add].
    rewrite (seq_plus_map (2 ^ k) (2 ^ k)), map_map.
    assert (He' : e = fst (split_eo l)) by (rewrite Hs; reflexivity).
    assert (Ho' : o = snd (split_eo l)) by (rewrite Hs; reflexivity).
    f_equal; apply map_ext; intros i.
    + rewrite (peval_split l (fpow w i)), <- He', <- Ho', fpow_sq. reflexivity.
    + rewrite (peval_split l (fpow w (2 ^ k + i))), <- He', <- Ho'.
      rewrite fpow_add. cbn [root_cond] in Hw. rewrite Hw, fpow_sq.
      replace (-f f1 *f fpow w i *f (-f f1 *f fpow w i)) with (fpow w i *f fpow w i) by ring.
      ring.
Qed.

Lemma dft_length n w l : length (dft O n w l) = n.
Proof. unfold dft. rewrite map_length, seq_length. reflexivity. Qed.

Lemma dft_nth n w l i d : i < n -> nth i (dft O n w l) d = peval l (fpow w i).
Proof.
  intros Hi. unfold dft.
  rewrite (nth_indep _ d (peval l (fpow w 0))) by (rewrite map_length, seq_length; exact Hi).
  rewrite (map_nth (fun i => peval l (fpow w i)) (seq 0 n) 0 i), seq_nth by exact Hi. reflexivity.
Qed.

(* ---------------------------------------------------------------- scaling and padding: evaluation over a coset *)
Lemma peval_shift_by_series : forall p s c x,
  peval (shift_by_series O p s c) x = s *f peval p (c *f x).
Proof.
  induction p as [|a t IH]; intros; cbn [shift_by_series FFT.peval]; [ring|].
  rewrite IH. ring.
Qed.

Lemma peval_app_zeros : forall p m x, peval (p ++ repeat fz m) x = peval p x.
Proof.
  induction p as [|a t IH]; intros; cbn [app FFT.peval].
  - induction m; cbn [repeat FFT.peval]; [reflexivity | rewrite IHm; ring].
  - rewrite IH. reflexivity.
Qed.

(* evaluate_with_offset at the spec level: result[i] = p(offset * g^i), every K *)
Theorem spec_eval_offset_correct : forall K g p offset,
  length p <= 2 ^ K -> root_cond K g ->
  spec_eval_offset O K g p offset = map (fun i => peval p (offset *f fpow g i)) (seq 0 (2 ^ K)).
Proof.
  intros K g p offset Hlen Hg. unfold spec_eval_offset.
  rewrite fft_rec_correct; [| | exact Hg].
  - unfold dft. apply map_ext. intros i.
    rewrite peval_app_zeros, peval_shift_by_series. ring.
  - rewrite app_length, repeat_length.
    assert (length (shift_by_series O p f1 offset) = length p).
    { generalize f1. induction p; intros; cbn; [reflexivity | f_equal; apply IHp; cbn in Hlen; lia]. }
    lia.
Qed.

(* ---------------------------------------------------------------- inverse transform *)
(* peval distributes over the pieces used by fft_rec's output *)
Lemma peval_app : forall a b x, peval (a ++ b) x = peval a x +f fpow x (length a) *f peval b x.
Proof.
  induction a as [|c t IH]; intros; cbn [app FFT.peval length FFT.fpow]; [ring|].
  rewrite IH. ring.
Qed.

Lemma peval_map2_add : forall a b x, length a = length b ->
  peval (map2 (fadd O) a b) x = peval a x +f peval b x.
Proof.
  induction a as [|c t IH]; destruct b; cbn [map2 FFT.peval length]; intros; try lia; [ring|].
  rewrite IH by lia. ring.
Qed.

Lemma peval_map2_sub : forall a b x, length a = length b ->
  peval (map2 (fsub O) a b) x = peval a x -f peval b x.
Proof.
  induction a as [|c t IH]; destruct b; cbn [map2 FFT.peval length]; intros; try lia; [ring|].
  rewrite IH by lia. ring.
Qed.

Lemma peval_twist : forall b s w x,
  peval (map2 (fmul O) (power_series_from O s w (length b)) b) x = s *f peval b (w *f x).
Proof.
  induction b as [|c t IH]; intros; cbn [length power_series_from map2 FFT.peval]; [ring|].
  rewrite IH. ring.
Qed.

Lemma fft_rec_length : forall k w l, length l = 2 ^ k -> length (fft_rec O k w l) = 2 ^ k.
Proof.
  induction k as [|k IH]; intros w l Hlen; [exact Hlen|].
  cbn [fft_rec]. destruct (split_eo l) as [e o] eqn:Hs.
  assert (He : length e = 2 ^ k /\ length o = 2 ^ k).
  { pose proof (split_eo_length (2 ^ k) l) as H. rewrite Hs in H. apply H. rewrite Hlen. cbn. lia. }
  destruct He as [He Ho].
  assert (Hps : length (get_power_series O w (2 ^ k)) = 2 ^ k).
  { rewrite get_power_series_spec, map_length, seq_length. reflexivity. }
  assert (HE := IH (w *f w) e He). assert (HO := IH (w *f w) o Ho).
  assert (HT : length (map2 (fmul O) (get_power_series O w (2 ^ k)) (fft_rec O k (w *f w) o)) = 2 ^ k)
    by (rewrite map2_length; lia).
  rewrite app_length, !map2_length by lia. rewrite HE, pow2_S. reflexivity.
Qed.

Fixpoint two_pow_f (k : nat) : F := match k with 0 => f1 | S k' => (f1 +f f1) *f two_pow_f k' end.

(* evaluating the transform at w^-j gives 2^k times the j-th coefficient: by the even/odd structure,
   no sums needed.  winv is any element with w * winv = 1. *)
Lemma idft_coeff : forall k w winv l j,
  length l = 2 ^ k -> root_cond k w -> w *f winv = f1 -> j < 2 ^ k ->
  peval (fft_rec O k w l) (fpow winv j) = two_pow_f k *f nth j l fz.
Proof.
  induction k as [|k IH]; intros w winv l j Hlen Hw Hinv Hj.
  - destruct l as [|a [|b t]]; cbn in Hlen; try lia.
    cbn in Hj. assert (j = 0) by lia. subst j. cbn. ring.
  - cbn [fft_rec]. destruct (split_eo l) as [e o] eqn:Hs.
    assert (He : length e = 2 ^ k /\ length o = 2 ^ k).
    { pose proof (split_eo_length (2 ^ k) l) as H. rewrite Hs in H. apply H. rewrite Hlen. cbn. lia. }
    destruct He as [He Ho].
    assert (HE := fft_rec_length k (w *f w) e He).
    assert (HO := fft_rec_length k (w *f w) o Ho).
    set (E := fft_rec O k (w *f w) e) in *.
    set (Od := fft_rec O k (w *f w) o) in *.
    assert (Hps : length (get_power_series O w (2 ^ k)) = 2 ^ k).
    { rewrite get_power_series_spec, map_length, seq_length. reflexivity. }
    set (T := map2 (fmul O) (get_power_series O w (2 ^ k)) Od).
    assert (HT : length T = 2 ^ k) by (unfold T; rewrite map2_length; lia).
    rewrite peval_app, map2_length by lia.
    rewrite peval_map2_add, peval_map2_sub by lia.
    assert (HTx : forall x, peval T x = peval Od (w *f x)).
    { intros x. unfold T, get_power_series. rewrite <- HO at 1. rewrite peval_twist. ring. }
    rewrite !HTx.
    (* (winv^j)^(2^k) = (+-1) *)
    assert (Hwi : fpow winv (2 ^ k) = -f f1).
    { cbn [root_cond] in Hw.
      assert (fpow w (2 ^ k) *f fpow winv (2 ^ k) = f1) by (rewrite <- fpow_mul_base, Hinv; apply fpow_one).
      rewrite Hw in H. transitivity (-f (-f f1 *f fpow winv (2 ^ k))); [ring | rewrite H; reflexivity]. }
    assert (Hinv2 : (w *f w) *f (winv *f winv) = f1).
    { transitivity ((w *f winv) *f (w *f winv)); [ring | rewrite Hinv; ring]. }
    assert (Hnth : forall i, nth (2 * i) l fz = nth i e fz /\ nth (2 * i + 1) l fz = nth i o fz).
    { intros i. destruct (split_eo_nth fz l i) as [H1 H2]. rewrite Hs in H1, H2. cbn [fst snd] in H1, H2. auto. }
    assert (Hsign : fpow (fpow winv j) (2 ^ k) = fpow (-f f1) j).
    { rewrite <- fpow_mul, Nat.mul_comm, fpow_mul, Hwi. reflexivity. }
    rewrite HE, Hsign.
    assert (Hm1 : forall m, fpow (-f f1) (2 * m) = f1).
    { intros m. rewrite <- fpow_sq2. replace (-f f1 *f -f f1) with f1 by ring. apply fpow_one. }
    destruct (Nat.even j) eqn:Hev.
    + (* j = 2 j' *)
      apply Nat.even_spec in Hev. destruct Hev as [j' Hj']. subst j.
      rewrite Hm1, <- fpow_sq2.
      assert (Hj'' : j' < 2 ^ k) by (rewrite pow2_S in Hj; lia).
      unfold E. rewrite (IH (w *f w) (winv *f winv) e j' He (root_cond_sq k w Hw) Hinv2 Hj'').
      destruct (Hnth j') as [Hn _]. rewrite Hn. cbn [two_pow_f]. ring.
    + assert (Hodd : Nat.odd j = true) by (rewrite <- Nat.negb_even, Hev; reflexivity).
      apply Nat.odd_spec in Hodd. destruct Hodd as [j' Hj']. subst j.
      assert (Hj'' : j' < 2 ^ k) by (rewrite pow2_S in Hj; lia).
      rewrite (fpow_add (-f f1)), Hm1.
      replace (w *f fpow winv (2 * j' + 1)) with (fpow (winv *f winv) j').
      2:{ rewrite fpow_add, <- fpow_sq2. cbn [FFT.fpow].
          transitivity ((w *f winv) *f fpow (winv *f winv) j'); [rewrite Hinv|]; ring. }
      unfold Od. rewrite (IH (w *f w) (winv *f winv) o j' Ho (root_cond_sq k w Hw) Hinv2 Hj'').
      destruct (Hnth j') as [_ Hn]. rewrite Hn. cbn [two_pow_f FFT.fpow]. ring.
Qed.

(* interpolation at the spec level is the inverse of evaluation, every k:
   (1/2^k) * DFT_{w^-1} (DFT_w l) = l *)
Theorem spec_interpolate_inverse : forall k w winv ninv l,
  length l = 2 ^ k -> root_cond k w -> w *f winv = f1 -> two_pow_f k *f ninv = f1 ->
  spec_interpolate O k winv ninv (fft_rec O k w l) = l.
Proof.
  intros k w winv ninv l Hlen Hw Hinv Hn.
  assert (Hwi : root_cond k winv).
  { destruct k; cbn [root_cond] in *; [trivial|].
    assert (fpow w (2 ^ k) *f fpow winv (2 ^ k) = f1) by (rewrite <- fpow_mul_base, Hinv; apply fpow_one).
    rewrite Hw in H. transitivity (-f (-f f1 *f fpow winv (2 ^ k))); [ring | rewrite H; reflexivity]. }
  unfold spec_interpolate.
  rewrite fft_rec_correct; [| apply fft_rec_length; exact Hlen | exact Hwi].
  apply nth_ext with (d := fz) (d' := fz).
  - rewrite map_length, dft_length. auto.
  - rewrite map_length, dft_length. intros j Hj.
    rewrite (nth_indep _ fz ((fun c => c *f ninv) fz)) by (rewrite map_length, dft_length; exact Hj).
    rewrite (map_nth (fun c => c *f ninv)), dft_nth by exact Hj.
    rewrite (idft_coeff k w winv l j Hlen Hw Hinv Hj).
    transitivity ((two_pow_f k *f ninv) *f nth j l fz); [ring | rewrite Hn; ring].
Qed.

End Spec.
