(* C09: the column-batched, segmented LDE (RowMatrix::evaluate_polys_over::<N>, Segment::new, build_segments,
   transpose) equals per-column direct evaluation, for every column count, segment width, size and blowup >= 2.
   The rows `[[B; N]]` run the SAME fft_in_place / permute at the pointwise operations `rows_ops O N`; since the
   structural refinement theorems of FFTRefine/FFTEval use no field law they apply to rows directly, and a column
   projection commutes with the list-level transform.  stdlib style. *)
From Coq Require Import List Arith Bool ZArith Lia Ring Field.
From VBase Require Import FieldOps.
From VModel Require Import FFT.
From VProofs Require Import FFTSpec FFTRefine FFTEval FFTOffset.
Import ListNotations.

(* ---------------------------------------------------------------- polymorphic list facts *)
Lemma concat_uniform_gen {A} (d : A) : forall (ls : list (list A)) n, (forall l, In l ls -> length l = n) ->
  length (concat ls) = length ls * n /\
  forall i q, i < length ls -> q < n -> nth (i * n + q) (concat ls) d = nth q (nth i ls []) d.
Proof.
  induction ls as [|l ls IH]; intros n Hn.
  - cbn. split; [reflexivity|]. intros; lia.
  - destruct (IH n) as [IL IN]; [intros; apply Hn; right; assumption|].
    assert (Hl : length l = n) by (apply Hn; left; reflexivity).
    cbn [concat length]. split; [rewrite app_length, IL, Hl; lia|].
    intros i q Hi Hq. destruct i as [|i].
    + cbn [Nat.mul Nat.add nth]. apply app_nth1. lia.
    + cbn [nth]. rewrite app_nth2 by (rewrite Hl; lia).
      replace (S i * n + q - length l) with (i * n + q) by (rewrite Hl; lia).
      apply IN; lia.
Qed.

Lemma map2_nth {A B C} (f : A -> B -> C) (da : A) (db : B) (dc : C) : forall a b t,
  t < length a -> t < length b -> nth t (map2 f a b) dc = f (nth t a da) (nth t b db).
Proof.
  induction a as [|x a IH]; destruct b as [|y b]; cbn [length]; intros t Ha Hb; try lia.
  destruct t; cbn [map2 nth]; [reflexivity|]. apply IH; lia.
Qed.

Lemma nth_repeat_lt {A} (x d : A) n t : t < n -> nth t (repeat x n) d = x.
Proof. revert t. induction n; intros t Ht; [lia|]. destruct t; cbn; [reflexivity | apply IHn; lia]. Qed.

Lemma split_eo_map {A B} (f : A -> B) : forall l,
  split_eo (map f l) = (map f (fst (split_eo l)), map f (snd (split_eo l))).
Proof.
  induction l as [|a l IH]; [reflexivity|].
  cbn [map]. rewrite !split_eo_cons, IH. cbn [fst snd map]. reflexivity.
Qed.

Lemma split_eo_Forall {A} (P : A -> Prop) : forall l, Forall P l ->
  Forall P (fst (split_eo l)) /\ Forall P (snd (split_eo l)).
Proof.
  induction l as [|a l IH]; intros H; [cbn; auto|].
  inversion H; subst. rewrite split_eo_cons. cbn [fst snd]. destruct (IH H3). auto.
Qed.

Fixpoint sequence_some {A B} (f : A -> option B) (g : A -> B) (l : list A) :
  (forall x, In x l -> f x = Some (g x)) -> sequence (map f l) = Some (map g l).
Proof.
  destruct l as [|a l]; intros H; [reflexivity|].
  cbn [map sequence]. rewrite (H a (or_introl eq_refl)).
  rewrite (sequence_some A B f g l (fun x Hx => H x (or_intror Hx))). reflexivity.
Qed.

Lemma chunks_concat {A} : forall (ls : list (list A)) n fuel,
  (forall l, In l ls -> length l = n) -> 0 < n -> length ls <= fuel -> chunks fuel n (concat ls) = ls.
Proof.
  induction ls as [|l ls IH]; intros n fuel Hn Hpos Hf.
  - destruct fuel; reflexivity.
  - destruct fuel as [|fuel]; [cbn in Hf; lia|].
    assert (Hl : length l = n) by (apply Hn; left; reflexivity).
    cbn [concat chunks]. destruct (l ++ concat ls) as [|y rest] eqn:E.
    { destruct l; cbn in Hl, E; [lia | discriminate]. }
    rewrite <- E. rewrite firstn_app, skipn_app, Hl, Nat.sub_diag. cbn [firstn skipn].
    rewrite app_nil_r, (firstn_all2 l), (skipn_all2 l) by lia. cbn [app]. f_equal.
    apply IH; [intros; apply Hn; right; assumption | exact Hpos | cbn in Hf; lia].
Qed.

Section Rows.
Context {F : Type} (O : FOps F).
Local Notation fz := (fzero O).
Variable N : nat.
Variable tw : list F.
Local Notation OR := (rows_ops O N).
Local Notation rtw := (map (fun t => repeat t N) tw).

(* rows of width N; projection on column t *)
Definition wf_rows (rows : list (list F)) : Prop := Forall (fun r => length r = N) rows.
Definition col (t : nat) (rows : list (list F)) : list F := map (fun r => nth t r fz) rows.

Lemma tmul_row t c o : t < N -> length o = N ->
  nth t (tmul OR rtw c o) fz = tmul O tw c (nth t o fz) /\ length (tmul OR rtw c o) = N.
Proof.
  intros Ht Ho. unfold tmul. destruct (c =? 0); [auto|].
  unfold FFT.vget. cbn [rows_ops fmul fzero].
  change (repeat fz N) with ((fun x => repeat x N) fz). rewrite map_nth.
  split.
  - rewrite (map2_nth (fmul O) fz fz fz) by (rewrite ?repeat_length; lia).
    rewrite nth_repeat_lt by exact Ht. reflexivity.
  - rewrite map2_length by (rewrite repeat_length; exact Ho). exact Ho.
Qed.

Lemma bf_list_col t : t < N -> forall E Od c, wf_rows E -> wf_rows Od ->
  col t (bf_list OR rtw c E Od) = bf_list O tw c (col t E) (col t Od) /\ wf_rows (bf_list OR rtw c E Od).
Proof.
  intros Ht. induction E as [|e E IH]; intros Od c HE HO.
  - cbn. split; [reflexivity | constructor].
  - destruct Od as [|o Od]; [cbn; split; [reflexivity | constructor]|].
    inversion HE as [|? ? He HE']; subst. inversion HO as [|? ? Ho HO']; subst.
    destruct (IH Od (S c) HE' HO') as [IH1 IH2].
    destruct (tmul_row t c o Ht Ho) as [T1 T2].
    cbn [bf_list col map]. fold (col t (bf_list OR rtw (S c) E Od)). rewrite IH1.
    cbn [rows_ops fadd fsub].
    rewrite (map2_nth (fadd O) fz fz fz), (map2_nth (fsub O) fz fz fz) by lia.
    rewrite T1. split; [reflexivity|].
    constructor; [rewrite map2_length; lia|]. constructor; [rewrite map2_length; lia|]. exact IH2.
Qed.

Lemma col_split_eo t rows :
  col t (fst (split_eo rows)) = fst (split_eo (col t rows)) /\
  col t (snd (split_eo rows)) = snd (split_eo (col t rows)).
Proof. unfold col. rewrite split_eo_map. cbn [fst snd]. auto. Qed.

(* the list-level transform on rows is the transform of every column *)
Lemma brfft_col t : t < N -> forall k rows, wf_rows rows ->
  col t (brfft OR rtw k rows) = brfft O tw k (col t rows) /\ wf_rows (brfft OR rtw k rows).
Proof.
  intros Ht. induction k as [|k IH]; intros rows Hwf; [cbn; auto|].
  cbn [brfft]. destruct (split_eo_Forall _ rows Hwf) as [We Wo].
  destruct (IH _ We) as [E1 E2]. destruct (IH _ Wo) as [O1 O2].
  destruct (bf_list_col t Ht _ _ 0 E2 O2) as [B1 B2].
  destruct (col_split_eo t rows) as [C1 C2].
  split; [|exact B2]. rewrite B1, E1, O1, C1, C2. reflexivity.
Qed.

Lemma col_nth t rows q : nth q (col t rows) fz = nth t (nth q rows (fzero OR)) fz.
Proof.
  unfold col. destruct (Nat.lt_ge_cases q (length rows)) as [Hq | Hq].
  - rewrite (nth_indep _ fz ((fun r => nth t r fz) (fzero OR))) by (rewrite map_length; exact Hq).
    apply (map_nth (fun r => nth t r fz)).
  - rewrite (nth_overflow (map _ _)) by (rewrite map_length; lia). rewrite (nth_overflow rows) by lia.
    cbn [rows_ops fzero]. destruct (Nat.lt_ge_cases t N).
    + rewrite nth_repeat_lt by assumption. reflexivity.
    + rewrite nth_overflow by (rewrite repeat_length; lia). reflexivity.
Qed.

End Rows.

Section Segments.
Context {F : Type} (O : FOps F) (L : FLaws O).
Add Ring Fring4 : (FLaws_ring_theory O L).

Local Notation fz := (fzero O).
Local Notation f1 := (fone O).
Local Infix "+f" := (fadd O) (at level 50, left associativity).
Local Infix "*f" := (fmul O) (at level 40, left associativity).
Local Notation peval := (peval O).
Local Notation fpow := (fpow O).

Variable root_of_unity : nat -> F.

(* value at bit-reversed position P = rev(r) = i * n + q of the concatenated per-chunk transforms *)
Lemma chunk_value tw K b g offset p r :
  length p = 2 ^ S K -> root_cond O (S K + b) g -> tw_ok O tw (S K) (fpow g (2 ^ b)) -> r < 2 ^ (S K + b) ->
  nth (rev_bits (S K + b) r mod 2 ^ S K)
      (brfft O tw (S K)
         (shift_by_series O p f1 (fpow g (rev_bits b (rev_bits (S K + b) r / 2 ^ S K)) *f offset))) fz
  = peval p (offset *f fpow g r).
Proof.
  intros Hl Hgc Ht Hr.
  set (w := fpow g (2 ^ b)) in *.
  assert (Hw : root_cond O (S K) w).
  { cbn [root_cond]. unfold w. rewrite <- (fpow_mul O L). rewrite <- Nat.pow_add_r.
    replace (b + K) with (K + b) by lia. exact Hgc. }
  pose proof (rev_bits_lt (S K + b) r) as HP.
  set (P := rev_bits (S K + b) r) in *.
  pose proof (Nat.div_mod P (2 ^ S K) ltac:(pose proof (pow2_pos (S K)); lia)) as Hdm.
  pose proof (Nat.mod_upper_bound P (2 ^ S K) ltac:(pose proof (pow2_pos (S K)); lia)) as Hq.
  set (i := P / 2 ^ S K) in *. set (q := P mod 2 ^ S K) in *.
  rewrite (brfft_dft O L tw (S K) w _ q); [| rewrite shift_by_series_length; exact Hl | exact Hw | exact Ht | exact Hq].
  rewrite (peval_shift_by_series O L).
  assert (Hrr : rev_bits b i + 2 ^ b * rev_bits (S K) q = r).
  { rewrite <- rev_bits_concat by exact Hq.
    replace (i * 2 ^ S K + q) with P by lia. unfold P. apply rev_bits_involutive. exact Hr. }
  replace (fpow g (rev_bits b i) *f offset *f fpow w (rev_bits (S K) q)) with (offset *f fpow g r).
  - ring.
  - rewrite <- Hrr. unfold w. rewrite (fpow_add O L), (fpow_mul O L). ring.
Qed.

Lemma shift_by_series_as_map : forall p s c,
  shift_by_series O p s c = map (fun j => nth j p fz *f (s *f fpow c j)) (seq 0 (length p)).
Proof.
  induction p as [|y t IH]; intros s c; [reflexivity|].
  cbn [shift_by_series length seq map nth]. f_equal; [cbn; ring|].
  rewrite IH, <- seq_shift, map_map. apply map_ext. intros j. cbn [nth FFT.fpow]. ring.
Qed.

Variable N : nat.
Local Notation OR := (rows_ops O N).

(* per-chunk offset series of get_evaluation_offsets *)
Definition offs (g offset : F) (n B i : nat) : list F :=
  power_series_from O f1 (fpow_N O g (N.of_nat (permute_index B i)) *f offset) n.

Lemma offs_length g offset n B i : length (offs g offset n B i) = n.
Proof. unfold offs. rewrite (power_series_from_spec O L), map_length, seq_length. reflexivity. Qed.

Lemma get_evaluation_offsets_eq K b g offset :
  root_of_unity (S K + b) = g ->
  get_evaluation_offsets O root_of_unity (2 ^ S K) (2 ^ b) offset
    = concat (map (offs g offset (2 ^ S K) (2 ^ b)) (seq 0 (2 ^ b))).
Proof.
  intros Hg. unfold get_evaluation_offsets. rewrite <- Nat.pow_add_r, log2_pow2, Hg. reflexivity.
Qed.

(* Segment::new: row r, column t of the segment starting at base column po is polys[po + t](offset * g^r) *)
Lemma segment_new_correct (polys : list (list F)) tw K b g offset po :
  0 < N -> (forall p, In p polys -> length p = 2 ^ S K) -> length tw = 2 ^ K -> 0 < b ->
  root_cond O (S K + b) g -> tw_ok O tw (S K) (fpow g (2 ^ b)) -> po < length polys ->
  exists seg,
    segment_new O N polys po (concat (map (offs g offset (2 ^ S K) (2 ^ b)) (seq 0 (2 ^ b)))) tw = Some seg /\
    length seg = 2 ^ (S K + b) /\ wf_rows N seg /\
    forall t r, t < N -> po + t < length polys -> r < 2 ^ (S K + b) ->
      nth t (nth r seg (fzero OR)) fz = peval (nth (po + t) polys []) (offset *f fpow g r).
Proof.
  intros HN Hcols Hlt Hb Hgc Ht Hpo.
  set (n := 2 ^ S K). set (B := 2 ^ b).
  set (offsets := concat (map (offs g offset n B) (seq 0 B))).
  destruct (concat_uniform_gen fz (map (offs g offset n B) (seq 0 B)) n) as [OL _].
  { intros l Hin. apply in_map_iff in Hin. destruct Hin as (i & <- & _). apply offs_length. }
  rewrite map_length, seq_length in OL. fold offsets in OL.
  assert (HD : B * n = 2 ^ (S K + b)) by (unfold B, n; rewrite Nat.pow_add_r; lia).
  assert (Hn1 : 0 < n) by apply pow2_pos.
  assert (HB2 : 2 <= B).
  { unfold B. destruct b as [|b']; [lia|]. rewrite pow2_S. pose proof (pow2_pos b'). lia. }
  assert (Hhd : length (hd [] polys) = n).
  { destruct polys as [|c0 rest]; [cbn in Hpo; lia|]. apply Hcols. left. reflexivity. }
  unfold segment_new. rewrite Hhd, OL, HD, is_pow2_pow2. cbn [negb].
  assert (E1 : (n <? 2 ^ (S K + b)) = true) by (apply Nat.ltb_lt; rewrite <- HD; nia).
  assert (E2 : (n =? length tw * 2) = true) by (apply Nat.eqb_eq; unfold n; rewrite Hlt; cbn; lia).
  assert (E3 : (po <? length polys) = true) by (apply Nat.ltb_lt; exact Hpo).
  rewrite E1, E2, E3. cbn [negb].
  set (np := if length polys - po <? N then length polys - po else N).
  assert (Hnp : np <= N).
  { unfold np. destruct (Nat.ltb_spec (length polys - po) N); lia. }
  set (rtw := map (fun t => repeat t N) tw).
  set (dchunk := fun (o_chunk : list F) =>
        map (fun row_idx =>
               map (fun i => nth row_idx (nth (po + i) polys []) fz *f nth row_idx o_chunk fz) (seq 0 np)
               ++ repeat fz (N - np)) (seq 0 n)).
  assert (Hchunks : chunks (2 ^ (S K + b)) n offsets = map (offs g offset n B) (seq 0 B)).
  { unfold offsets. apply chunks_concat.
    - intros l Hin. apply in_map_iff in Hin. destruct Hin as (i & <- & _). apply offs_length.
    - exact Hn1.
    - rewrite map_length, seq_length, <- HD. nia. }
  rewrite Hchunks, map_map.
  assert (Hdl : forall oc, length (dchunk oc) = n) by (intros; unfold dchunk; rewrite map_length, seq_length; reflexivity).
  assert (Hdw : forall oc, wf_rows N (dchunk oc)).
  { intros oc. unfold wf_rows, dchunk. apply Forall_forall. intros row Hin.
    apply in_map_iff in Hin. destruct Hin as (ri & <- & _).
    rewrite app_length, map_length, seq_length, repeat_length. lia. }
  set (chunk := fun i => brfft OR rtw (S K) (dchunk (offs g offset n B i))).
  rewrite (map_ext _ chunk).
  2:{ intros i. unfold chunk. apply fft_in_place_top_brfft. apply Hdl. }
  assert (Hcl : forall i, length (chunk i) = n).
  { intros i. unfold chunk. apply brfft_length. apply Hdl. }
  destruct (concat_uniform_gen (fzero OR) (map chunk (seq 0 B)) n) as [CL CN].
  { intros l Hin. apply in_map_iff in Hin. destruct Hin as (i & <- & _). apply Hcl. }
  rewrite map_length, seq_length in CL, CN.
  assert (CL' : length (concat (map chunk (seq 0 B))) = 2 ^ (S K + b)) by (rewrite CL; exact HD).
  destruct (permute_spec OR (S K + b) _ CL') as [Lp Np].
  eexists; split; [reflexivity|]. split; [exact Lp|]. split.
  - (* rows keep width N: permute only moves rows *)
    unfold wf_rows. apply Forall_forall. intros row Hin.
    apply (In_nth _ _ (fzero OR)) in Hin. destruct Hin as (r & Hr & <-). rewrite Lp in Hr.
    rewrite Np by exact Hr.
    pose proof (rev_bits_lt (S K + b) r) as HP. set (P := rev_bits (S K + b) r) in *.
    pose proof (Nat.div_mod P n ltac:(lia)) as Hdm.
    pose proof (Nat.mod_upper_bound P n ltac:(lia)) as Hq.
    assert (Hi : P / n < B) by (apply Nat.div_lt_upper_bound; [lia | rewrite Nat.mul_comm, HD; exact HP]).
    replace P with (P / n * n + P mod n) by lia.
    rewrite CN by assumption. rewrite map_seq_nth by exact Hi.
    destruct (brfft_col O N tw 0 HN (S K) _ (Hdw (offs g offset n B (P / n)))) as [_ W].
    unfold wf_rows in W. rewrite Forall_forall in W. apply W. apply nth_In.
    fold rtw. fold (chunk (P / n)). rewrite Hcl. exact Hq.
  - intros t r Htn Hpt Hr. rewrite Np by exact Hr.
    pose proof (rev_bits_lt (S K + b) r) as HP. set (P := rev_bits (S K + b) r) in *.
    pose proof (Nat.div_mod P n ltac:(lia)) as Hdm.
    pose proof (Nat.mod_upper_bound P n ltac:(lia)) as Hq.
    assert (Hi : P / n < B) by (apply Nat.div_lt_upper_bound; [lia | rewrite Nat.mul_comm, HD; exact HP]).
    replace P with (P / n * n + P mod n) at 1 by lia.
    rewrite CN by assumption. rewrite map_seq_nth by exact Hi.
    rewrite <- (col_nth O N).
    unfold chunk. destruct (brfft_col O N tw t Htn (S K) _ (Hdw (offs g offset n B (P / n)))) as [Cc _].
    fold rtw in Cc. rewrite Cc.
    assert (Htnp : t < np).
    { unfold np. destruct (Nat.ltb_spec (length polys - po) N); lia. }
    assert (Hcolumn : col O t (dchunk (offs g offset n B (P / n)))
              = shift_by_series O (nth (po + t) polys []) f1 (fpow g (rev_bits b (P / n)) *f offset)).
    { rewrite shift_by_series_as_map.
      assert (Hlc : length (nth (po + t) polys []) = n) by (apply Hcols, nth_In; exact Hpt).
      rewrite Hlc. unfold col, dchunk. rewrite map_map. apply map_ext_in. intros row Hrow. apply in_seq in Hrow.
      rewrite app_nth1 by (rewrite map_length, seq_length; exact Htnp).
      rewrite (map_seq_nth (fun i => nth row (nth (po + i) polys []) fz *f nth row (offs g offset n B (P / n)) fz)) by exact Htnp.
      f_equal. unfold offs. rewrite (power_series_from_spec O L).
      rewrite (map_seq_nth (fun i0 => f1 *f fpow (fpow_N O g (N.of_nat (permute_index B (P / n))) *f offset) i0)) by lia.
      unfold B. rewrite permute_index_spec, (fpow_N_spec O L). reflexivity. }
    rewrite Hcolumn. unfold P, n.
    apply (chunk_value tw K b g offset (nth (po + t) polys [])); try assumption.
    apply Hcols, nth_In. exact Hpt.
Qed.

(* ColMatrix::evaluate_columns_over: every column is evaluated over the coset; every column count, size, blowup *)
Lemma colmatrix_ok_intro (polys : list (list F)) K :
  polys <> [] -> (forall p, In p polys -> length p = 2 ^ S K) -> colmatrix_ok polys = true.
Proof.
  intros Hne Hcols. unfold colmatrix_ok. destruct polys as [|c0 rest]; [contradiction|].
  assert (H0 : length c0 = 2 ^ S K) by (apply Hcols; left; reflexivity).
  rewrite H0, is_pow2_pow2.
  assert (E : (1 <? 2 ^ S K) = true) by (apply Nat.ltb_lt; rewrite pow2_S; pose proof (pow2_pos K); lia).
  rewrite E. cbn [andb]. apply forallb_forall. intros c Hc. apply Nat.eqb_eq. apply Hcols. right. exact Hc.
Qed.

Theorem evaluate_columns_over_correct two_adicity (polys : list (list F)) tw K b g offset :
  polys <> [] -> (forall p, In p polys -> length p = 2 ^ S K) -> length tw = 2 ^ K -> S K + b <= two_adicity ->
  root_of_unity (S K + b) = g -> root_cond O (S K + b) g -> tw_ok O tw (S K) (fpow g (2 ^ b)) -> offset <> fz ->
  evaluate_columns_over O two_adicity root_of_unity polys tw offset (2 ^ b)
    = Some (map (fun p => map (fun i => peval p (offset *f fpow g i)) (seq 0 (2 ^ (S K + b)))) polys).
Proof.
  intros Hne Hcols Hlt Had Hg Hgc Ht Hoff. unfold evaluate_columns_over.
  rewrite (colmatrix_ok_intro polys K Hne Hcols). cbn [negb].
  apply sequence_some. intros p Hp.
  apply (evaluate_poly_with_offset_correct O L two_adicity root_of_unity tw K b g offset p); auto.
Qed.

(* number of segments: ceil(m / N) *)
Lemma nseg_bounds m : 0 < N -> 0 < m ->
  let nseg := if m mod N =? 0 then m / N else m / N + 1 in
  0 < nseg /\ m <= nseg * N /\ (forall i, i < nseg -> i * N < m) /\ (forall c, c < m -> c / N < nseg).
Proof.
  intros HN Hm. pose proof (Nat.div_mod m N ltac:(lia)) as Hdm.
  pose proof (Nat.mod_upper_bound m N ltac:(lia)) as Hmod.
  destruct (Nat.eqb_spec (m mod N) 0) as [E | E]; cbv zeta.
  - rewrite E in Hdm. assert (0 < m / N) by nia. repeat split; try nia.
    intros c Hc. apply Nat.div_lt_upper_bound; lia.
  - repeat split; try nia.
    intros c Hc. pose proof (Nat.div_le_mono c m N ltac:(lia) ltac:(lia)). lia.
Qed.

Theorem segments_correct (polys : list (list F)) tw K b g offset :
  0 < N -> polys <> [] -> (forall p, In p polys -> length p = 2 ^ S K) -> length tw = 2 ^ K -> 0 < b ->
  root_of_unity (S K + b) = g -> root_cond O (S K + b) g -> tw_ok O tw (S K) (fpow g (2 ^ b)) ->
  exists M, evaluate_polys_over O root_of_unity N polys tw offset (2 ^ b) = Some M /\
    rm_num_rows M = 2 ^ (S K + b) /\ rm_elements_per_row M = length polys /\
    forall c r, c < length polys -> r < 2 ^ (S K + b) ->
      rm_get O M c r = Some (peval (nth c polys []) (offset *f fpow g r)).
Proof.
  intros HN Hne Hcols Hlt Hb Hg Hgc Ht.
  set (m := length polys). set (D := 2 ^ (S K + b)).
  assert (Hm : 0 < m) by (unfold m; destruct polys; [contradiction | cbn; lia]).
  assert (HN0 : (N =? 0) = false) by (apply Nat.eqb_neq; lia).
  assert (Hok : colmatrix_ok polys = true).
  { unfold colmatrix_ok. destruct polys as [|c0 rest]; [contradiction|].
    assert (H0 : length c0 = 2 ^ S K) by (apply Hcols; left; reflexivity).
    rewrite H0, is_pow2_pow2.
    assert (E : (1 <? 2 ^ S K) = true) by (apply Nat.ltb_lt; rewrite pow2_S; pose proof (pow2_pos K); lia).
    rewrite E. cbn [andb]. apply forallb_forall. intros c Hc. apply Nat.eqb_eq. apply Hcols. right. exact Hc. }
  assert (Hhd : length (hd [] polys) = 2 ^ S K).
  { destruct polys as [|c0 rest]; [contradiction|]. apply Hcols. left. reflexivity. }
  unfold evaluate_polys_over. rewrite HN0, Hok. cbn [negb]. rewrite Hhd.
  rewrite (get_evaluation_offsets_eq K b g offset Hg).
  set (offsets := concat (map (offs g offset (2 ^ S K) (2 ^ b)) (seq 0 (2 ^ b)))).
  unfold build_segments. rewrite HN0. fold m.
  destruct (nseg_bounds m HN Hm) as (Hns0 & Hnsw & Hnsi & Hnsc).
  set (nseg := if m mod N =? 0 then m / N else m / N + 1) in *.
  set (seg_of := fun i => match segment_new O N polys (i * N) offsets tw with Some sg => sg | None => [] end).
  assert (Hseg : forall i, i < nseg ->
            segment_new O N polys (i * N) offsets tw = Some (seg_of i) /\
            length (seg_of i) = D /\ wf_rows N (seg_of i) /\
            forall t r, t < N -> i * N + t < m -> r < D ->
              nth t (nth r (seg_of i) (fzero OR)) fz = peval (nth (i * N + t) polys []) (offset *f fpow g r)).
  { intros i Hi.
    destruct (segment_new_correct polys tw K b g offset (i * N) HN Hcols Hlt Hb Hgc Ht (Hnsi i Hi))
      as (sg & S1 & S2 & S3 & S4).
    fold offsets in S1. unfold seg_of. rewrite S1. auto. }
  rewrite (sequence_some _ seg_of).
  2:{ intros i Hi. apply in_seq in Hi. apply Hseg. lia. }
  set (segs := map seg_of (seq 0 nseg)).
  assert (Hsl : length segs = nseg) by (unfold segs; rewrite map_length, seq_length; reflexivity).
  assert (Hsn : forall s, s < nseg -> nth s segs [] = seg_of s) by (intros; unfold segs; apply map_seq_nth; assumption).
  unfold from_segments. rewrite HN0, Hsl.
  assert (E1 : (nseg =? 0) = false) by (apply Nat.eqb_neq; lia).
  assert (E2 : (nseg * N <? m) = false) by (apply Nat.ltb_ge; lia).
  rewrite E1, E2. eexists; split; [reflexivity|].
  (* the transposed list of rows *)
  set (zr := repeat fz N).
  assert (HT : length (transpose O N segs) = D * nseg /\
               (forall row, In row (transpose O N segs) -> length row = N) /\
               forall r s, r < D -> s < nseg -> nth (r * nseg + s) (transpose O N segs) [] = nth r (seg_of s) zr).
  { unfold transpose. rewrite Hsl. fold zr.
    assert (Hhs : hd [] segs = seg_of 0).
    { unfold segs. destruct nseg; [lia | reflexivity]. }
    destruct (Nat.eqb_spec nseg 1) as [E | E].
    - rewrite Hhs. destruct (Hseg 0 ltac:(lia)) as (_ & S2 & S3 & _).
      split; [rewrite S2, E; lia|]. split.
      + unfold wf_rows in S3. rewrite Forall_forall in S3. exact S3.
      + intros r s Hr Hs. assert (s = 0) by lia. subst s. rewrite E.
        replace (r * 1 + 0) with r by lia. apply nth_indep. rewrite S2. exact Hr.
    - rewrite Hhs. destruct (Hseg 0 ltac:(lia)) as (_ & S2 & _). rewrite S2.
      destruct (concat_uniform_gen (@nil F)
                  (map (fun i => map (fun sg => nth i sg zr) segs) (seq 0 D)) nseg) as [CL CN].
      { intros l Hin. apply in_map_iff in Hin. destruct Hin as (i & <- & _). rewrite map_length. exact Hsl. }
      rewrite map_length, seq_length in CL, CN.
      split; [exact CL|]. split.
      + intros row Hin. apply in_concat in Hin. destruct Hin as (l & Hl & Hrow).
        apply in_map_iff in Hl. destruct Hl as (i & <- & Hi). apply in_seq in Hi.
        apply in_map_iff in Hrow. destruct Hrow as (sg & <- & Hsg).
        unfold segs in Hsg. apply in_map_iff in Hsg. destruct Hsg as (s & <- & Hs). apply in_seq in Hs.
        destruct (Hseg s ltac:(lia)) as (_ & S2' & S3 & _).
        unfold wf_rows in S3. rewrite Forall_forall in S3. apply S3. apply nth_In. rewrite S2'. lia.
      + intros r s Hr Hs. rewrite CN by assumption.
        rewrite (map_seq_nth (fun i => map (fun sg => nth i sg zr) segs)) by exact Hr.
        rewrite (nth_indep _ [] ((fun sg => nth r sg zr) [])) by (rewrite map_length, Hsl; exact Hs).
        rewrite (map_nth (fun sg => nth r sg zr)). rewrite Hsn by exact Hs. reflexivity. }
  destruct HT as (TL & TW & TN).
  destruct (concat_uniform_gen fz (transpose O N segs) N TW) as [DL DN].
  rewrite TL in DL, DN.
  assert (Hrows : length (concat (transpose O N segs)) / (nseg * N) = D).
  { rewrite DL. replace (D * nseg * N) with (D * (nseg * N)) by lia. apply Nat.div_mul. nia. }
  unfold rm_num_rows. cbn [rm_data rm_row_width rm_elements_per_row].
  split; [exact Hrows|]. split; [reflexivity|].
  intros c r Hc Hr. unfold rm_get, rm_num_rows. cbn [rm_data rm_row_width rm_elements_per_row].
  rewrite Hrows.
  assert (E3 : (r <? D) = true) by (apply Nat.ltb_lt; exact Hr).
  assert (E4 : (c <? m) = true) by (apply Nat.ltb_lt; exact Hc).
  rewrite E3, E4. cbn [negb]. f_equal.
  pose proof (Nat.div_mod c N ltac:(lia)) as Hdm.
  pose proof (Nat.mod_upper_bound c N ltac:(lia)) as Hmod.
  set (sg := c / N) in *. set (t := c mod N) in *.
  assert (Hsg : sg < nseg) by (apply Hnsc; exact Hc).
  replace (r * (nseg * N) + c) with ((r * nseg + sg) * N + t) by nia.
  rewrite DN; [| nia | exact Hmod].
  rewrite TN by assumption.
  destruct (Hseg sg Hsg) as (_ & _ & _ & S4).
  rewrite S4; [| exact Hmod | nia | exact Hr].
  replace (sg * N + t) with c by nia. reflexivity.
Qed.

End Segments.
