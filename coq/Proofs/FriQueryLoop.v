(* C05 — the query phase of the verifier model, for committed layer functions opened honestly by the channel, as ONE iff
   with the counting predicate of Proofs/FriCount.v: layers_loop succeeds and the remainder comparison holds
   IFF pass_checks cs ps, cs the check list built from the layer functions, the challenges and the remainder.
   Composition of FriQuery.layer_step_opened_iff over layers_loop.  stdlib style. *)
From Coq Require Import List Arith Bool Lia.
From VBase Require Import FieldOps.
From VModel Require Import Fri.
From VProofs Require Import FriIdx FriCoset FriAccept FriCount FriQuery.
Import ListNotations.

Local Arguments mkVCh {F D MN}.
Local Arguments vc_commitments {F D MN}.
Local Arguments vc_proofs {F D MN}.
Local Arguments vc_queries {F D MN}.
Local Arguments vc_remainder {F D MN}.
Local Arguments vc_partitions {F D MN}.
Local Arguments mkVS {F D MN}.
Local Arguments vs_gen {F D MN}.
Local Arguments vs_size {F D MN}.
Local Arguments vs_mdp1 {F D MN}.
Local Arguments vs_positions {F D MN}.
Local Arguments vs_evals {F D MN}.
Local Arguments vs_chan {F D MN}.
Local Arguments v_commitments {F D}.
Local Arguments v_alphas {F D}.
Local Arguments v_options {F D}.
Local Arguments v_partitions {F D}.

Section Loop.
Context {F : Type} (O : FOps F) (L : FLaws O).
Variable gen_offset : F.
Variable dbg : bool.
Variable D : Type.
Variable hash_elements : list F -> D.
Variable MN : Type.
Variable mt_verify_batch : D -> list nat -> list D -> MN -> nat -> auth_res.
Variable roots : list F.
Variable N : nat.
Hypothesis N_nz : N <> 0.
Local Notation zero := (fzero O).
Local Notation foldval := (foldval O gen_offset roots N).
Local Notation layers_loop := (layers_loop O gen_offset dbg D MN mt_verify_batch).

(* a committed layer: its evaluation vector, the challenge drawn after its commitment, the commitment, and what the
   channel supplies besides the opened rows (Merkle nodes, depth) *)
Record clayer : Type := mkCL { cl_E : list F; cl_alpha : F; cl_commitment : D; cl_nodes : MN; cl_depth : nat }.

Definition evals_at (E : list F) (Pos : list nat) : list F := map (fun p => nth p E zero) Pos.

(* what the channel holds when it opens the committed functions at the folded positions *)
Fixpoint opened (Ls : list clayer) (Pos : list nat) (d : nat) : list (list D * MN * nat) * list (list F) :=
  match Ls with
  | [] => ([], [])
  | l :: rest =>
    let fd := fold_positions_core Pos (d / N) in
    let rows := map (row_of zero N (d / N) (cl_E l)) fd in
    let r := opened rest fd (d / N) in
    ((map hash_elements rows, cl_nodes l, cl_depth l) :: fst r, concat rows :: snd r)
  end.

Fixpoint auth_all (Ls : list clayer) (Pos : list nat) (d : nat) : Prop :=
  match Ls with
  | [] => True
  | l :: rest =>
    let fd := fold_positions_core Pos (d / N) in
    mt_verify_batch (cl_commitment l) fd (map hash_elements (map (row_of zero N (d / N) (cl_E l)) fd)) (cl_nodes l) (cl_depth l) = AuthOk /\
    auth_all rest fd (d / N)
  end.

(* the comparisons `evaluations != query_values` of all layers *)
Fixpoint comparisons (Ls : list clayer) (g : F) (d : nat) (Pos : list nat) (carried : list F) : bool :=
  match Ls with
  | [] => true
  | l :: rest =>
    let fd := fold_positions_core Pos (d / N) in
    list_feqb O carried (evals_at (cl_E l) Pos) &&
    comparisons rest (fexp O g N) (d / N) fd (map (foldval g (cl_E l) (d / N) (cl_alpha l)) fd)
  end.

(* the state after the loop *)
Fixpoint final_state (Ls : list clayer) (g : F) (d mdp1 : nat) (Pos : list nat) (carried : list F) : F * nat * nat * list nat * list F :=
  match Ls with
  | [] => (g, d, mdp1, Pos, carried)
  | l :: rest =>
    let fd := fold_positions_core Pos (d / N) in
    final_state rest (fexp O g N) (d / N) (mdp1 / N) fd (map (foldval g (cl_E l) (d / N) (cl_alpha l)) fd)
  end.

Lemma fold_core_lt Pos t x : t <> 0 -> In x (fold_positions_core Pos t) -> x < t.
Proof. intros Ht H. apply fold_core_In in H. destruct H as [p [_ ->]]. now apply Nat.mod_upper_bound. Qed.

Theorem loop_opened_iff : forall Ls (v : @verifier F D) pre_c tail_c pre_a tail_a g m e Pos carried cm ptail qtail rem s',
  m <> 0 -> (forall p, In p Pos -> p < m * N ^ length Ls) ->
  v_commitments v = pre_c ++ map cl_commitment Ls ++ tail_c -> v_alphas v = pre_a ++ map cl_alpha Ls ++ tail_a ->
  length pre_a = length pre_c -> fo_folding (v_options v) = N -> v_partitions v = 1 ->
  auth_all Ls Pos (m * N ^ length Ls) ->
  let d := m * N ^ length Ls in
  let mdp1 := e * N ^ length Ls in
  (layers_loop (length Ls) N v roots (length pre_c)
     (mkVS g d mdp1 Pos carried (mkVCh cm (fst (opened Ls Pos d) ++ ptail) (snd (opened Ls Pos d) ++ qtail) rem 1)) = Ok s'
   <-> comparisons Ls g d Pos carried = true /\
       s' = (let '(g', d', mdp1', Pos', carried') := final_state Ls g d mdp1 Pos carried in
             mkVS g' d' mdp1' Pos' carried' (mkVCh cm ptail qtail rem 1))).
Proof.
  induction Ls as [|l Ls IH]; intros v pre_c tail_c pre_a tail_a g m e Pos carried cm ptail qtail rem s'
    Hm Hpos Hvc Hva Hpre Hff Hpart Hauth d mdp1.
  - cbn. split; [intros [= <-]; auto | intros [_ ->]; reflexivity].
  - cbn [length Fri.layers_loop]. rewrite (bind_Ok).
    assert (HNk : N ^ length Ls <> 0) by now apply Nat.pow_nonzero.
    assert (Hd : d = m * N ^ length Ls * N) by (unfold d; cbn [length Nat.pow]; lia).
    assert (Hdiv : d / N = m * N ^ length Ls) by (rewrite Hd; now apply Nat.div_mul).
    assert (Hmd : mdp1 = e * N ^ length Ls * N) by (unfold mdp1; cbn [length Nat.pow]; lia).
    assert (Hmdiv : mdp1 / N = e * N ^ length Ls) by (rewrite Hmd; now apply Nat.div_mul).
    assert (Hrl : m * N ^ length Ls <> 0) by (apply Nat.neq_mul_0; split; assumption).
    cbn [opened auth_all] in *. fold d in Hauth |- *. destruct Hauth as [Hauth1 Hauth2].
    set (fd := fold_positions_core Pos (d / N)) in *.
    set (rows := map (row_of zero N (d / N) (cl_E l)) fd) in *.
    cbn [fst snd app].
    pose proof (layer_step_opened_iff O L gen_offset dbg D hash_elements MN mt_verify_batch N v roots (length pre_c)
      (mkVS g d mdp1 Pos carried (mkVCh cm ((map hash_elements rows, cl_nodes l, cl_depth l) :: fst (opened Ls fd (d / N)) ++ ptail)
                                          (concat rows :: snd (opened Ls fd (d / N)) ++ qtail) rem 1))) as Step.
    cbn [vs_size vs_positions vs_chan vc_proofs vc_queries vs_mdp1 vs_evals vs_gen] in Step.
    split.
    + intros [s1 [H1 H2]].
      apply (Step s1 (cl_E l) (d / N) (cl_alpha l) (cl_commitment l) (cl_nodes l) (cl_depth l)
                  (fst (opened Ls fd (d / N)) ++ ptail) (snd (opened Ls fd (d / N)) ++ qtail)) in H1;
        [| assumption | rewrite Hdiv; assumption | rewrite Hdiv; lia | intros p Hp; rewrite Hdiv, <- Hd; now apply Hpos
         | assumption | assumption
         | rewrite Hvc, nth_error_app2, Nat.sub_diag by lia; reflexivity
         | rewrite Hva, nth_error_app2, Hpre, Nat.sub_diag by lia; reflexivity
         | reflexivity | reflexivity | exact Hauth1 | rewrite Hmd; now apply Nat.mod_mul].
      destruct H1 as [Hcar ->]. unfold chan_tail in H2. cbn [vs_chan vc_commitments vc_proofs vc_queries vc_remainder vc_partitions tl] in H2.
      fold fd in H2. rewrite Hdiv, Hmdiv in H2.
      replace (S (length pre_c)) with (length (pre_c ++ [cl_commitment l])) in H2 by (rewrite app_length; cbn; lia).
      apply (IH v (pre_c ++ [cl_commitment l]) tail_c (pre_a ++ [cl_alpha l]) tail_a) in H2;
        [| assumption | intros p Hp; rewrite <- Hdiv; apply (fold_core_lt Pos); [rewrite Hdiv; assumption | exact Hp]
         | rewrite Hvc, <- app_assoc; reflexivity | rewrite Hva, <- app_assoc; reflexivity
         | rewrite !app_length, Hpre; reflexivity | assumption | assumption | rewrite <- Hdiv; exact Hauth2].
      destruct H2 as [Hc ->]. cbn [comparisons final_state]. fold fd. rewrite Hdiv, Hmdiv. split; [|reflexivity].
      rewrite Hc, andb_true_r. apply (list_feqb_spec O L). exact Hcar.
    + intros [Hc ->]. cbn [comparisons final_state] in *. fold fd in Hc |- *. apply andb_true_iff in Hc. destruct Hc as [Hc1 Hc2].
      apply (list_feqb_spec O L) in Hc1.
      eexists. split.
      * apply (Step _ (cl_E l) (d / N) (cl_alpha l) (cl_commitment l) (cl_nodes l) (cl_depth l)
                  (fst (opened Ls fd (d / N)) ++ ptail) (snd (opened Ls fd (d / N)) ++ qtail));
          [ assumption | rewrite Hdiv; assumption | rewrite Hdiv; lia | intros p Hp; rewrite Hdiv, <- Hd; now apply Hpos
          | assumption | assumption
          | rewrite Hvc, nth_error_app2, Nat.sub_diag by lia; reflexivity
          | rewrite Hva, nth_error_app2, Hpre, Nat.sub_diag by lia; reflexivity
          | reflexivity | reflexivity | exact Hauth1 | rewrite Hmd; now apply Nat.mod_mul | ].
        split; [exact Hc1 | reflexivity].
      * unfold chan_tail. cbn [vs_chan vc_commitments vc_proofs vc_queries vc_remainder vc_partitions tl]. fold fd.
        rewrite Hdiv, Hmdiv in *.
        replace (S (length pre_c)) with (length (pre_c ++ [cl_commitment l])) by (rewrite app_length; cbn; lia).
        apply (IH v (pre_c ++ [cl_commitment l]) tail_c (pre_a ++ [cl_alpha l]) tail_a);
          [ assumption | intros p Hp; rewrite <- Hdiv; apply (fold_core_lt Pos); [rewrite Hdiv; assumption | exact Hp]
          | rewrite Hvc, <- app_assoc; reflexivity | rewrite Hva, <- app_assoc; reflexivity
          | rewrite !app_length, Hpre; reflexivity | assumption | assumption | first [exact Hauth2 | rewrite <- Hdiv; exact Hauth2] | ].
        split; [exact Hc2 | reflexivity].
Qed.

(* ---------------------------------------------------------------- the check list of the query phase *)
Variable R : list F.   (* the remainder polynomial sent *)

(* checks contributed by the layers after the first one and by the remainder; (gprev, Eprev, rlprev, aprev) describe
   the previous layer, whose fold is what the current comparison is made against *)
Fixpoint checks_from (Ls : list clayer) (lvl : nat) (gprev : F) (Eprev : list F) (rlprev : nat) (aprev : F) (g : F) (d : nat)
  : list (nat * (nat -> bool)) :=
  match Ls with
  | [] => [(lvl, good_rem O gen_offset roots N R g gprev Eprev rlprev aprev)]
  | l :: rest =>
    (lvl, good_fold O gen_offset roots N gprev Eprev (cl_E l) rlprev aprev)
      :: checks_from rest (S lvl) g (cl_E l) (d / N) (cl_alpha l) (fexp O g N) (d / N)
  end.

Lemma checks_from_levels : forall Ls lvl gp Ep rp ap g d c,
  In c (checks_from Ls lvl gp Ep rp ap g d) -> lvl <= fst c <= lvl + length Ls.
Proof.
  induction Ls as [|l Ls IH]; intros lvl gp Ep rp ap g d c Hc; cbn [checks_from length] in *.
  - destruct Hc as [<-|[]]. cbn. lia.
  - destruct Hc as [<-|Hc]; [cbn; lia|]. apply IH in Hc. lia.
Qed.

Lemma forallb_ext_in {A} (f h : A -> bool) l : (forall x, In x l -> f x = h x) -> forallb f l = forallb h l.
Proof. induction l as [|a l IH]; intros H; cbn; [reflexivity|]. rewrite H by now left. rewrite IH; [reflexivity | intros; apply H; now right]. Qed.

Definition fs_gen (x : F * nat * nat * list nat * list F) : F := fst (fst (fst (fst x))).
Definition fs_pos (x : F * nat * nat * list nat * list F) : list nat := snd (fst x).
Definition fs_carried (x : F * nat * nat * list nat * list F) : list F := snd x.

Lemma comparisons_checks : forall Ls lvl gp Ep rp ap g d mdp1 Pos,
  let carried := map (foldval gp Ep rp ap) Pos in
  let fs := final_state Ls g d mdp1 Pos carried in
  comparisons Ls g d Pos carried && remainder_check O gen_offset R (fs_gen fs) (fs_pos fs) (fs_carried fs)
  = forallb (fun c => forallb (snd c) (fold_chain (fst c - lvl) Pos d N)) (checks_from Ls lvl gp Ep rp ap g d).
Proof.
  induction Ls as [|l Ls IH]; intros lvl gp Ep rp ap g d mdp1 Pos carried fs.
  - cbn [comparisons final_state checks_from forallb fst snd] in *. unfold fs, fs_gen, fs_pos, fs_carried. cbn [fst snd].
    rewrite Nat.sub_diag. cbn [fold_chain]. unfold carried. rewrite (remainder_compare_forallb O gen_offset roots N).
    now rewrite andb_true_r.
  - cbn [comparisons final_state checks_from forallb fst snd] in *. rewrite Nat.sub_diag. cbn [fold_chain].
    unfold carried at 1. unfold evals_at. rewrite (layer_compare_forallb O gen_offset roots N).
    rewrite <- andb_assoc. f_equal.
    unfold fs. cbn [final_state].
    rewrite (IH (S lvl) g (cl_E l) (d / N) (cl_alpha l) (fexp O g N) (d / N) (mdp1 / N) (fold_positions_core Pos (d / N))).
    apply forallb_ext_in. intros c Hc. apply checks_from_levels in Hc.
    replace (fst c - lvl) with (S (fst c - S lvl)) by lia. reflexivity.
Qed.

(* query_phase_iff_pass_checks: k >= 1 committed layers l0 :: rest on the LDE domain D = n * N^k, the evaluations handed to the
   verifier being those of the first committed function at the query positions; the channel opens the committed functions at
   the folded positions and every opening authenticates; no degree truncation (running bound e * N^k).  Then the model's query
   phase (layers_loop followed by the remainder comparison) succeeds IFF the position vector passes the check list. *)
Theorem query_phase_iff_pass_checks : forall l0 rest (v : @verifier F D) pre_c tail_c pre_a tail_a g n e ps cm ptail qtail rem,
  let Ls := l0 :: rest in
  let k := length Ls in
  let Dm := n * N ^ k in
  let cs := checks_from rest 1 g (cl_E l0) (Dm / N) (cl_alpha l0) (fexp O g N) (Dm / N) in
  n <> 0 -> (forall p, In p ps -> p < Dm) ->
  v_commitments v = pre_c ++ map cl_commitment Ls ++ tail_c -> v_alphas v = pre_a ++ map cl_alpha Ls ++ tail_a ->
  length pre_a = length pre_c -> fo_folding (v_options v) = N -> v_partitions v = 1 ->
  auth_all Ls ps Dm ->
  ((exists s', layers_loop k N v roots (length pre_c)
                 (mkVS g Dm (e * N ^ k) ps (evals_at (cl_E l0) ps)
                       (mkVCh cm (fst (opened Ls ps Dm) ++ ptail) (snd (opened Ls ps Dm) ++ qtail) rem 1)) = Ok s' /\
               remainder_check O gen_offset R (vs_gen s') (vs_positions s') (vs_evals s') = true)
   <-> pass_checks cs n N k ps = true).
Proof.
  intros l0 rest v pre_c tail_c pre_a tail_a g n e ps cm ptail qtail rem Ls k Dm cs Hn Hps Hvc Hva Hpre Hff Hpart Hauth.
  pose proof (fun s' => loop_opened_iff Ls v pre_c tail_c pre_a tail_a g n e ps (evals_at (cl_E l0) ps) cm ptail qtail rem s'
                          Hn Hps Hvc Hva Hpre Hff Hpart Hauth) as LI.
  fold k in LI. fold Dm in LI.
  assert (Hself : list_feqb O (evals_at (cl_E l0) ps) (evals_at (cl_E l0) ps) = true) by now apply (list_feqb_spec O L).
  assert (Key : comparisons Ls g Dm ps (evals_at (cl_E l0) ps) &&
                remainder_check O gen_offset R (fs_gen (final_state Ls g Dm (e * N ^ k) ps (evals_at (cl_E l0) ps)))
                  (fs_pos (final_state Ls g Dm (e * N ^ k) ps (evals_at (cl_E l0) ps)))
                  (fs_carried (final_state Ls g Dm (e * N ^ k) ps (evals_at (cl_E l0) ps)))
                = pass_checks cs n N k ps).
  { unfold Ls. cbn [comparisons final_state]. rewrite Hself. cbn [andb].
    rewrite (comparisons_checks rest 1 g (cl_E l0) (Dm / N) (cl_alpha l0) (fexp O g N) (Dm / N) (e * N ^ k / N)
               (fold_positions_core ps (Dm / N))).
    unfold pass_checks. fold Dm. apply forallb_ext_in. intros c Hc. unfold cs in Hc. apply checks_from_levels in Hc.
    replace (fst c) with (S (fst c - 1)) at 2 by lia. reflexivity. }
  rewrite <- Key. split.
  - intros [s' [H1 H2]]. apply LI in H1. destruct H1 as [Hc ->].
    destruct (final_state Ls g Dm (e * N ^ k) ps (evals_at (cl_E l0) ps)) as [[[[g' d'] m'] P'] c'] eqn:Efs.
    cbn [vs_gen vs_positions vs_evals] in H2. unfold fs_gen, fs_pos, fs_carried. cbn [fst snd]. now rewrite Hc, H2.
  - intros H. apply andb_true_iff in H. destruct H as [Hc Hr].
    destruct (final_state Ls g Dm (e * N ^ k) ps (evals_at (cl_E l0) ps)) as [[[[g' d'] m'] P'] c'] eqn:Efs.
    eexists. split; [apply LI; split; [exact Hc | rewrite Efs; reflexivity]|].
    cbn [vs_gen vs_positions vs_evals]. exact Hr.
Qed.

End Loop.
