(* C17 — round 8 (A): the mixed model of the whole single-segment prover path equals the single-field model over the
   extension field applied to the embedded base-field inputs; hence the `_ext` versions of the table theorem and of the
   capstone.  stdlib style. *)
From Coq Require Import List Arith Bool Lia Ring Field ZArith.
From VBase Require Import FieldOps.
From VModel Require Import Composition CompositionMixed CompositionMixedWhole.
From VProofs Require Import CompositionBase CompositionIndex CompositionVerifier CompositionTable CompositionMixed.
Import ListNotations.

(* ------------------------------------------------------------------ option / list plumbing *)
Lemma mapM_opt {A C D} (fE : A -> option C) (fB : A -> option D) (g : D -> C) : forall l,
  (forall x, In x l -> fE x = option_map g (fB x)) -> mapM fE l = option_map (map g) (mapM fB l).
Proof.
  induction l as [|a l IH]; intros Hx; [reflexivity|]. cbn [mapM].
  rewrite (Hx a (or_introl eq_refl)), IH by (intros x Hin; apply Hx; now right).
  destruct (fB a); cbn [option_map]; [|reflexivity]. destruct (mapM fB l); reflexivity.
Qed.

Lemma mapM_map_l {A B0 C} (f : B0 -> option C) (k : A -> B0) : forall l, mapM f (map k l) = mapM (fun a => f (k a)) l.
Proof. induction l; simpl; [reflexivity | now rewrite IHl]. Qed.

Lemma mapM_ext_in {A C} (f g : A -> option C) : forall l, (forall x, In x l -> f x = g x) -> mapM f l = mapM g l.
Proof.
  induction l as [|a l IH]; intros Hx; [reflexivity|]. cbn [mapM].
  rewrite (Hx a (or_introl eq_refl)), IH by (intros x Hin; apply Hx; now right). reflexivity.
Qed.

Lemma filter_map_comm {A B0} (p : B0 -> bool) (f : A -> B0) : forall l, filter p (map f l) = map f (filter (fun x => p (f x)) l).
Proof. induction l; simpl; [reflexivity|]. destruct (p (f a)); simpl; now rewrite IHl. Qed.

Lemma concat_map_map {A B0} (f : A -> B0) : forall ls, concat (map (map f) ls) = map f (concat ls).
Proof. induction ls; simpl; [reflexivity | now rewrite map_app, IHls]. Qed.

Lemma fold_max_map_length {A B0} (f : A -> B0) (ls : list (list A)) a :
  fold_left Nat.max (map (@length B0) (map (map f) ls)) a = fold_left Nat.max (map (@length A) ls) a.
Proof. f_equal. rewrite map_map. apply map_ext. intros; apply map_length. Qed.

Section Whole.
Context {B E : Type} (OB : FOps B) (OE : FOps E) (LB : FLaws OB) (LE : FLaws OE).
Variable emb : B -> E.
Variable mul_base : E -> B -> E.
Hypothesis H : Emb OB OE emb mul_base.

Local Notation e0 := (emb_zero _ _ _ _ H).
Local Notation e1 := (emb_one _ _ _ _ H).
Local Notation eadd := (emb_add _ _ _ _ H).
Local Notation esub := (emb_sub _ _ _ _ H).
Local Notation emul := (emb_mul _ _ _ _ H).

Lemma acc_opt_ext {A} (f g : A -> option E) : forall l init, (forall x, In x l -> f x = g x) ->
  acc_opt OE f l init = acc_opt OE g l init.
Proof.
  unfold acc_opt. induction l as [|a l IH]; intros init Hx; [reflexivity|]. cbn [fold_left].
  rewrite (Hx a (or_introl eq_refl)). apply IH. intros x Hin. apply Hx. now right.
Qed.
Lemma acc_opt_map_l {A A'} (f : A' -> option E) (k : A -> A') : forall l init,
  acc_opt OE f (map k l) init = acc_opt OE (fun c => f (k c)) l init.
Proof. unfold acc_opt. induction l; intros; simpl; [reflexivity | apply IHl]. Qed.

Variable n ceb ldeb : nat.
Variable offset : B.
Variable rou : nat -> B.
Local Notation rouE := (fun m => emb (rou m)).
Local Notation offE := (emb offset).

(* embedding of the structures *)
Definition embD (d : @Div B) : @Div E := mkDiv (dv_a d) (emb (dv_b d)) (map emb (dv_ex d)).
Definition embBC (c : @BCm B E) : @BC E := mkBC (m_col c) (map emb (m_poly c)) (m_first c) (emb (m_xoff c)) (m_cc c).
Definition embG (g : @BGm B E) : @BGroup E := mkBG (embD (gm_div g)) (map embBC (gm_cs g)).
Definition embT (t : @PTable B) : @PTable E := mkPT (map emb (pt_values t)) (pt_length t) (pt_width t).

(* ---------------------------------------------------------------- domain points *)
Lemma emb_ce_domain : map emb (ce_domain OB n ceb rou) = ce_domain OE n ceb rouE.
Proof.
  unfold ce_domain, power_series, wce. rewrite (emb_power_series_from OB OE emb mul_base H), e1. reflexivity.
Qed.

Lemma emb_get_ce_x_at step :
  get_ce_x_at OE n ceb offE rouE step = option_map emb (get_ce_x_at OB n ceb offset rou step).
Proof.
  unfold get_ce_x_at. rewrite <- emb_ce_domain, nth_error_map.
  destruct (nth_error (ce_domain OB n ceb rou) step); cbn [option_map]; [now rewrite emul | reflexivity].
Qed.

Lemma emb_get_ce_x_power_at step power oe :
  get_ce_x_power_at OE n ceb rouE step power (emb oe) = option_map emb (get_ce_x_power_at OB n ceb rou step power oe).
Proof.
  unfold get_ce_x_power_at. rewrite <- emb_ce_domain, nth_error_map.
  destruct (nth_error (ce_domain OB n ceb rou) _); cbn [option_map]; [now rewrite emul | reflexivity].
Qed.

(* ---------------------------------------------------------------- divisors *)
Lemma emb_get_inv_evaluation d :
  get_inv_evaluation OE n ceb offE rouE (embD d) = option_map (map emb) (get_inv_evaluation OB n ceb offset rou d).
Proof.
  unfold get_inv_evaluation. cbn [embD dv_a dv_b]. destruct (dv_a d) as [|a]; [reflexivity|].
  rewrite <- (emb_cpow OB OE emb mul_base H).
  rewrite (mapM_opt _ (fun i => get_ce_x_power_at OB n ceb rou i (S a) (cpow OB offset (S a))) emb)
    by (intros i _; apply emb_get_ce_x_power_at).
  destruct (mapM _ _); cbn [option_map]; [|reflexivity].
  f_equal. rewrite !map_map. apply map_ext. intros xa.
  now rewrite (emb_inv OB OE LB LE emb mul_base H), esub.
Qed.

Lemma emb_div_exemptions_at d x :
  div_exemptions_at OE (embD d) (emb x) = emb (div_exemptions_at OB d x).
Proof.
  unfold div_exemptions_at. cbn [embD dv_ex]. rewrite <- e1. generalize (fone OB).
  induction (dv_ex d) as [|a l IH]; intros acc; cbn [map fold_left]; [reflexivity|].
  rewrite <- esub, <- emul. apply IH.
Qed.

Lemma emb_acc_factor d zs i :
  acc_factor OE n ceb offE rouE (embD d) (map emb zs) i = option_map emb (acc_factor OB n ceb offset rou d zs i).
Proof.
  unfold acc_factor. rewrite map_length. destruct (length zs) eqn:El; [reflexivity|]. rewrite <- El.
  rewrite nth_error_map. destruct (nth_error zs (i mod length zs)); cbn [option_map]; [|reflexivity].
  cbn [embD dv_ex]. destruct (dv_ex d) as [|a l] eqn:Ed; cbn [map]; [reflexivity|].
  rewrite emb_get_ce_x_at. destruct (get_ce_x_at OB n ceb offset rou i); cbn [option_map]; [|reflexivity].
  f_equal. rewrite emul. f_equal. rewrite <- emb_div_exemptions_at. unfold embD. now rewrite Ed.
Qed.

Lemma emb_tdiv exemptions : tdiv OE n rouE exemptions = embD (tdiv OB n rou exemptions).
Proof.
  unfold tdiv, div_from_transition, embD. cbn [dv_a dv_b dv_ex]. rewrite e1, map_map. f_equal.
  apply map_ext. intros k. unfold gtrace. symmetry. apply (emb_cpow OB OE emb mul_base H).
Qed.

(* ---------------------------------------------------------------- trace LDE frames *)
Lemma emb_read_frame (lde : list (list B)) s :
  read_frame ldeb (map (map emb) lde) s
  = option_map (fun cn => (map emb (fst cn), map emb (snd cn))) (read_frame ldeb lde s).
Proof.
  unfold read_frame. rewrite map_length. destruct (length lde) eqn:El; [reflexivity|]. rewrite <- El.
  rewrite !nth_error_map. destruct (nth_error lde s); cbn [option_map]; [|reflexivity].
  destruct (nth_error lde _); reflexivity.
Qed.

(* ---------------------------------------------------------------- periodic table *)
Lemma emb_ptable_new (ppolys : list (list B)) :
  ptable_new OE n ceb offE rouE (map (map emb) ppolys) = option_map embT (ptable_new OB n ceb offset rou ppolys).
Proof.
  unfold ptable_new. destruct ppolys as [|p0 pt] eqn:Ep; [reflexivity|]. rewrite <- Ep.
  assert (Hm : forall (A : Type) (a b : A), match map (map emb) ppolys with [] => a | _ :: _ => b end = b)
    by (intros; rewrite Ep; reflexivity).
  rewrite Hm. clear Hm.
  rewrite fold_max_map_length, map_length.
  set (evB := map (fun poly => eval_poly_with_offset OB rou poly (cpow OB offset (n / length poly)) ceb) ppolys).
  assert (Eev : map (fun poly => eval_poly_with_offset OE rouE poly (cpow OE offE (n / length poly)) ceb) (map (map emb) ppolys)
                = map (map emb) evB).
  { unfold evB. rewrite !map_map. apply map_ext. intros poly. rewrite map_length.
    rewrite <- (emb_cpow OB OE emb mul_base H). symmetry. apply (emb_eval_poly_with_offset OB OE emb mul_base H). }
  rewrite Eev.
  rewrite (mapM_opt _ (fun i => mapM (fun column => match length column with 0 => None | _ => nth_error column (i mod length column) end) evB) (map emb)).
  - destruct (mapM _ (seq 0 _)); cbn [option_map]; [|reflexivity].
    unfold embT. cbn [pt_values pt_length pt_width]. now rewrite concat_map_map.
  - intros i _. rewrite mapM_map_l. apply mapM_opt. intros column _. rewrite map_length.
    destruct (length column); [reflexivity|]. apply nth_error_map.
Qed.

Lemma emb_pt_get_row t step : pt_get_row (embT t) step = option_map (map emb) (pt_get_row t step).
Proof.
  unfold pt_get_row, embT. cbn [pt_values pt_length pt_width]. rewrite map_length.
  destruct (pt_width t =? 0); [reflexivity|]. destruct (pt_length t); [reflexivity|].
  destruct (_ <=? _); cbn [option_map]; [|reflexivity]. now rewrite skipn_map, firstn_map.
Qed.

(* ---------------------------------------------------------------- boundary groups *)
Lemma is_single_emb c : is_single (embBC c) = is_single (bcm_base OB c).
Proof. unfold is_single. cbn [embBC bcm_base bc_poly]. now rewrite map_length. Qed.
Lemma is_small_emb c : is_small (embBC c) = is_small (bcm_base OB c).
Proof. unfold is_small. rewrite is_single_emb. cbn [embBC bcm_base bc_poly]. now rewrite map_length. Qed.
Lemma is_large_emb c : is_large (embBC c) = is_large (bcm_base OB c).
Proof. unfold is_large. rewrite is_single_emb. cbn [embBC bcm_base bc_poly]. now rewrite map_length. Qed.

Lemma emb_gm_evaluate_main g state step x :
  pg_evaluate_main OE (pg_from_main OE n ceb offE rouE (embG g)) (map emb state) step (emb x)
  = gm_evaluate_main OB OE mul_base n ceb offset rou g state step x.
Proof.
  unfold pg_evaluate_main, pg_from_main, gm_evaluate_main, embG.
  cbn [bg_div bg_cs pg_main_single pg_main_small pg_main_large].
  rewrite !filter_map_comm, !map_map, !acc_opt_map_l.
  rewrite (filter_ext _ _ is_single_emb), (filter_ext _ _ is_small_emb), (filter_ext _ _ is_large_emb).
  assert (X : forall A (f g : A -> option E) l i j, (forall x, In x l -> f x = g x) -> i = j -> acc_opt OE f l i = acc_opt OE g l j)
    by (intros; subst; now apply acc_opt_ext).
  apply X; [|apply X; [|apply X; [|reflexivity]]].
  - intros c _. rewrite (large_eval_mixed_embeds OB OE emb mul_base H).
    unfold large_new. cbn [embBC bc_col bc_poly bc_first bc_cc]. rewrite map_length.
    now rewrite (emb_eval_poly_with_offset OB OE emb mul_base H).
  - intros c _. rewrite (small_eval_mixed_embeds OB OE LB LE emb mul_base H). reflexivity.
  - intros c _. rewrite (single_eval_mixed_embeds OB OE emb mul_base H). unfold single_new. cbn [embBC bc_col bc_poly bc_cc].
    f_equal. f_equal. rewrite <- e0. apply map_nth.
Qed.

(* ---------------------------------------------------------------- rows, combine, the whole table *)
Variable num_main : nat.
Variable tmainB : list B -> list B -> list B -> list B.
Variable tmainE : list E -> list E -> list E -> list E.
Variable tauxE : list E -> list E -> list E -> list E -> list E -> list E -> list E.
(* the AIR's transition evaluator commutes with the embedding (it is a polynomial map with base-field coefficients,
   generic in the field: `evaluate_transition<E: FieldElement<BaseField = B>>`) *)
Hypothesis tmain_commutes : forall cur nxt pv, tmainE (map emb cur) (map emb nxt) (map emb pv) = map emb (tmainB cur nxt pv).
Variable ppolys : list (list B).
Variable exemptions : nat.
Variable tcoef : list E.
Variable groups : list (@BGm B E).
Variable rands : list E.
Variable lde_main : list (list B).
Variable lde_aux : list (list E).

Local Notation evalE :=
  (evaluate OE n ceb ldeb offE rouE num_main tmainE tauxE (map (map emb) ppolys) exemptions tcoef (map embG groups) [] rands
            false (map (map emb) lde_main) lde_aux (fun _ v => v)).
Local Notation evalM :=
  (evaluate_mixed OB OE mul_base n ceb ldeb offset rou num_main tmainB ppolys exemptions tcoef groups lde_main).

Lemma emb_eval_row t step :
  eval_row OE n ceb ldeb offE rouE num_main tmainE tauxE tcoef rands false (map (map emb) lde_main) lde_aux (embT t)
           (map (pg_from_main OE n ceb offE rouE) (map embG groups)) step
  = eval_row_mixed OB OE mul_base n ceb ldeb offset rou num_main tmainB tcoef groups lde_main t step.
Proof.
  unfold eval_row, eval_row_mixed. rewrite emb_read_frame, emb_get_ce_x_at.
  destruct (read_frame ldeb lde_main _) as [[cur nxt]|]; cbn [option_map fst snd]; [|reflexivity].
  destruct (get_ce_x_at OB n ceb offset rou step) as [x|]; cbn [option_map]; [|reflexivity].
  unfold evaluate_main_transition. rewrite emb_pt_get_row.
  destruct (pt_get_row t step) as [pv|]; cbn [option_map]; [|reflexivity].
  rewrite tmain_commutes, <- (lincomb_mixed_embeds OB OE emb mul_base H).
  rewrite !mapM_map_l.
  rewrite (mapM_ext_in _ (fun g => gm_evaluate_main OB OE mul_base n ceb offset rou g cur step x))
    by (intros g _; apply emb_gm_evaluate_main).
  reflexivity.
Qed.

Lemma emb_combine_row divs i row :
  combine_row OE n ceb offE rouE (map (fun dz => (embD (fst dz), map emb (snd dz))) divs) i row
  = combine_row_mixed OB OE mul_base n ceb offset rou divs i row.
Proof.
  unfold combine_row, combine_row_mixed. revert row. generalize (Some (fzero OE)).
  unfold acc_opt. induction divs as [|[d zs] t IH]; intros init row.
  - destruct row; reflexivity.
  - destruct row as [|v row]; [reflexivity|]. cbn [map combine fold_left fst snd].
    rewrite emb_acc_factor. destruct (acc_factor OB n ceb offset rou d zs i); cbn [option_map].
    + rewrite <- (emb_mul_base _ _ _ _ H). apply IH.
    + apply IH.
Qed.

(* evaluate_mixed_embeds: the mixed single-segment evaluate() IS the single-field evaluate over OE on the embedded inputs *)
Theorem evaluate_mixed_embeds : evalM = evalE.
Proof.
  unfold evaluate_mixed, Composition.evaluate.
  rewrite emb_ptable_new. destruct (ptable_new OB n ceb offset rou ppolys) as [t|]; cbn [option_map]; [|reflexivity].
  unfold prover_groups. cbn [fold_left].
  assert (Edivs : tdiv OE n rouE exemptions :: map (@pg_div E) (map (pg_from_main OE n ceb offE rouE) (map embG groups))
                  = map embD (tdiv OB n rou exemptions :: map (@gm_div B E) groups)).
  { cbn [map]. rewrite emb_tdiv. f_equal. rewrite !map_map. reflexivity. }
  rewrite Edivs, mapM_map_l.
  rewrite (mapM_opt _ (fun d => match get_inv_evaluation OB n ceb offset rou d with Some zs => Some (d, zs) | None => None end)
                      (fun dz => (embD (fst dz), map emb (snd dz)))).
  2:{ intros d _. rewrite emb_get_inv_evaluation. destruct (get_inv_evaluation OB n ceb offset rou d); reflexivity. }
  destruct (mapM _ (tdiv OB n rou exemptions :: _)) as [divs|]; cbn [option_map]; [|reflexivity].
  apply mapM_ext_in. intros i _.
  rewrite emb_eval_row.
  match goal with |- match ?e with Some _ => _ | None => _ end = _ => destruct e as [row|]; [|reflexivity] end.
  rewrite emb_combine_row.
  match goal with |- _ = match ?e with Some _ => _ | None => _ end => destruct e; reflexivity end.
Qed.

(* ---------------------------------------------------------------- table_row_spec for E != B (single segment): all
   hypotheses are about the BASE-field data; the conclusion is about the mixed computation *)
Section TableExt.
Variable r' : nat.
Variable wlde ginv : B.
Hypothesis n_pos : n <> 0.
Hypothesis ceb_pos : ceb <> 0.
Hypothesis r_pos : r' <> 0.
Hypothesis ldeb_eq : ldeb = ceb * r'.
Hypothesis wlde_order : cpow OB wlde (lde_size n ldeb) = fone OB.
Hypothesis wlde_wce : cpow OB wlde r' = wce n ceb rou.
Hypothesis wlde_g : cpow OB wlde ldeb = gtrace n rou.
Hypothesis ginv_spec : fmul OB ginv (gtrace n rou) = fone OB.
Hypothesis tmainE_len : forall cur nxt pv, length (tmainE cur nxt pv) = num_main.
Hypothesis exemptions_le : exemptions <= n.
Hypothesis poly_len_pos : forall p, In p ppolys -> length p <> 0.
Hypothesis poly_len_div_n : forall p, In p ppolys -> length p * (n / length p) = n.
Hypothesis poly_len_div_max : forall p, In p ppolys -> exists q, fold_left Nat.max (map (@length B) ppolys) 0 = length p * q.
Hypothesis rou_compat : forall p, In p ppolys -> rou (length p * ceb) = cpow OB (wce n ceb rou) (n / length p).
Variable tpolys : list (list B).
Variable apolys : list (list E).
(* what BoundaryConstraint::new / ConstraintDivisor::from_assertion produce, on the base-field data *)
Hypothesis groups_ok : forall g, In g groups ->
  (dv_ex (gm_div g) = [] /\ dv_a (gm_div g) <> 0 /\ dv_a (gm_div g) * (ce_size n ceb / dv_a (gm_div g)) = ce_size n ceb)
  /\ forall c, In c (gm_cs g) ->
       m_col c < length tpolys /\ length (m_poly c) <> 0 /\ m_xoff c = cpow OB ginv (m_first c) /\ m_first c < n
       /\ length (m_poly c) * (ce_size n ceb / length (m_poly c)) = ce_size n ceb.
Hypothesis lde_main_ok : lde_rows_of OB n ldeb offset wlde lde_main tpolys.

Theorem table_row_spec_single_segment_ext :
  evalM = Some (map (fun i => comp_def OE n rouE tmainE tauxE (map (map emb) ppolys) exemptions tcoef (map embG groups) [] rands
                                       false (map (map emb) tpolys) apolys (emb (ce_x OB n ceb offset rou i)))
                    (seq 0 (ce_size n ceb))).
Proof.
  rewrite evaluate_mixed_embeds.
  assert (Ex : forall i, emb (ce_x OB n ceb offset rou i) = ce_x OE n ceb offE rouE i)
    by (intros; apply (emb_ce_x OB OE emb mul_base H)).
  rewrite (map_ext _ _ (fun i => f_equal _ (Ex i))).
  apply (evaluate_spec_main OE LE n ceb ldeb r' offE rouE (emb wlde) (emb ginv)); try assumption.
  - rewrite <- (emb_cpow OB OE emb mul_base H), wlde_order. exact e1.
  - rewrite <- (emb_cpow OB OE emb mul_base H), wlde_wce. reflexivity.
  - rewrite <- (emb_cpow OB OE emb mul_base H), wlde_g. reflexivity.
  - unfold gtrace. rewrite <- emul. unfold gtrace in ginv_spec. rewrite ginv_spec. exact e1.
  - intros p Hp. apply in_map_iff in Hp. destruct Hp as [p0 [<- Hp0]]. rewrite map_length. now apply poly_len_pos.
  - intros p Hp. apply in_map_iff in Hp. destruct Hp as [p0 [<- Hp0]]. rewrite map_length. now apply poly_len_div_n.
  - intros p Hp. apply in_map_iff in Hp. destruct Hp as [p0 [<- Hp0]]. rewrite map_length, fold_max_map_length.
    now apply poly_len_div_max.
  - intros p Hp. apply in_map_iff in Hp. destruct Hp as [p0 [<- Hp0]]. rewrite map_length.
    rewrite (rou_compat p0 Hp0). unfold wce. apply (emb_cpow OB OE emb mul_base H).
  - intros g Hg. apply in_map_iff in Hg. destruct Hg as [g0 [<- Hg0]]. destruct (groups_ok g0 Hg0) as [[Hd1 [Hd2 Hd3]] Hc].
    split.
    + unfold div_ok, embG, embD. cbn [bg_div dv_ex dv_a]. rewrite Hd1. repeat split; assumption.
    + intros c Hcin. cbn [embG bg_cs] in Hcin. apply in_map_iff in Hcin. destruct Hcin as [c0 [<- Hc0]].
      destruct (Hc c0 Hc0) as [K1 [K2 [K3 [K4 K5]]]].
      unfold bc_ok, embBC. cbn [bc_col bc_poly bc_xoff bc_first]. rewrite !map_length.
      repeat split; try assumption. rewrite K3. apply (emb_cpow OB OE emb mul_base H).
  - intros g [].
  - destruct lde_main_ok as [Hl Hr]. split; [now rewrite map_length|].
    intros j Hj. rewrite nth_error_map, (Hr j Hj). cbn [option_map]. f_equal. rewrite !map_map. apply map_ext. intros T.
    now rewrite (emb_peval OB OE emb mul_base H), emul, (emb_cpow OB OE emb mul_base H).
  - reflexivity.
Qed.
(* the capstone for E != B (single segment), with the interpolation round trip and the polynomial form of comp_def over E as
   explicit premises (C09 at F := E: CompositionFFT.interp_fft_roundtrip; C01 at F := E: CompositionValid.comp_def_is_poly):
   the MIXED evaluate() and CompositionPoly::new over E succeed and the committed columns recombine to the definition with
   all base-field data embedded *)
Variable interp : list E -> list E.
Hypothesis interp_roundtrip : forall p, length p = ce_size n ceb ->
  interp (map (fun i => peval OE p (ce_x OE n ceb offE rouE i)) (seq 0 (ce_size n ceb))) = p.
Variable good : E -> Prop.
Variable q : list E.
Variable num_cols : nat.
Local Notation comp_defE :=
  (comp_def OE n rouE tmainE tauxE (map (map emb) ppolys) exemptions tcoef (map embG groups) [] rands false (map (map emb) tpolys) apolys).
Hypothesis q_is_def : forall z, good z -> peval OE q z = comp_defE z.
Hypothesis ce_good : forall i, i < ce_size n ceb -> good (ce_x OE n ceb offE rouE i).
Hypothesis q_len_ce : length q <= ce_size n ceb.
Hypothesis q_len_cols : length q <= num_cols * n.
Hypothesis n_lt_ce : n < ce_size n ceb.

Theorem composition_is_definition_ext :
  exists evals cols,
    evalM = Some evals
    /\ composition_poly_new n interp evals num_cols = Some cols
    /\ (forall z, recombine OE n (cp_evaluate_at OE cols z) z = peval OE q z)
    /\ (forall z, good z -> recombine OE n (cp_evaluate_at OE cols z) z = comp_defE z).
Proof.
  rewrite evaluate_mixed_embeds.
  apply (composition_core OE LE n ceb ldeb r' offE rouE n_pos ceb_pos r_pos ldeb_eq num_main tmainE tauxE (map (map emb) ppolys)
           exemptions tcoef (map embG groups) [] rands (map (map emb) tpolys) apolys (map (map emb) lde_main) lde_aux exemptions_le
           interp good q num_cols false q_is_def ce_good q_len_ce q_len_cols n_lt_ce).
  - rewrite <- evaluate_mixed_embeds, table_row_spec_single_segment_ext. f_equal. apply map_ext. intros i.
    now rewrite (emb_ce_x OB OE emb mul_base H).
  - exact interp_roundtrip.
Qed.
End TableExt.

End Whole.

(* ------------------------------------------------------------------ round 9 (3): the verifier's evaluate_constraints, E != B *)
Section VerifierExt.
Context {B E : Type} (OB : FOps B) (OE : FOps E) (LB : FLaws OB) (LE : FLaws OE).
Variable emb : B -> E.
Variable mul_base : E -> B -> E.
Hypothesis H : Emb OB OE emb mul_base.

Definition embBCa (c : @BCa B E) : @BC E := mkBC (a_col c) (a_poly c) (a_first c) (emb (a_xoff c)) (a_cc c).
Definition embGa (g : @BGa B E) : @BGroup E := mkBG (embD emb (ga_div g)) (map embBCa (ga_cs g)).

Lemma div_evaluate_at_mixed_embeds d x : div_evaluate_at_mixed OE emb d x = div_evaluate_at OE (embD emb d) x.
Proof.
  unfold div_evaluate_at_mixed, div_evaluate_at, div_exemptions_at, embD. cbn [dv_a dv_b dv_ex]. f_equal.
  generalize (fone OE). induction (dv_ex d) as [|a l IH]; intros acc; cbn [map fold_left]; [reflexivity | apply IH].
Qed.

Lemma acc_opt_ext' {A} (f g : A -> option E) l init : (forall x, In x l -> f x = g x) -> acc_opt OE f l init = acc_opt OE g l init.
Proof.
  revert init. unfold acc_opt. induction l as [|a l IH]; intros init Hx; [reflexivity|]. cbn [fold_left].
  rewrite (Hx a (or_introl eq_refl)). apply IH. intros x Hin. apply Hx. now right.
Qed.
Lemma acc_opt_map' {A A'} (f : A' -> option E) (k : A -> A') l init :
  acc_opt OE f (map k l) init = acc_opt OE (fun c => f (k c)) l init.
Proof. revert init. unfold acc_opt. induction l; intros; simpl; [reflexivity | apply IHl]. Qed.

Lemma gm_evaluate_at_embeds g state x : gm_evaluate_at OB OE emb g state x = bg_evaluate_at OE (embG emb g) state x.
Proof.
  unfold gm_evaluate_at, bg_evaluate_at, embG. cbn [bg_div bg_cs]. rewrite acc_opt_map', div_evaluate_at_mixed_embeds.
  rewrite (acc_opt_ext' _ (fun c => match nth_error state (bc_col (embBC emb c)) with
                                    | Some tv => Some (fmul OE (bc_evaluate_at OE (embBC emb c) x tv) (bc_cc (embBC emb c)))
                                    | None => None end)); [reflexivity|].
  intros c _. cbn [embBC bc_col bc_cc]. destruct (nth_error state (m_col c)); [|reflexivity].
  now rewrite (bc_evaluate_at_mixed_embeds OB OE emb (m_col c) (m_first c) (m_poly c) (m_xoff c) (m_cc c)).
Qed.

Lemma ga_evaluate_at_embeds g state x : ga_evaluate_at OE emb g state x = bg_evaluate_at OE (embGa g) state x.
Proof.
  unfold ga_evaluate_at, bg_evaluate_at, embGa. cbn [bg_div bg_cs]. rewrite acc_opt_map', div_evaluate_at_mixed_embeds.
  reflexivity.
Qed.

Variable n : nat.
Variable rou : nat -> B.
Variable num_main num_aux : nat.
Variable tmainE : list E -> list E -> list E -> list E.
Variable tauxE : list E -> list E -> list E -> list E -> list E -> list E -> list E.
Variable ppolys : list (list B).
Variable exemptions : nat.
Variable tcoef : list E.
Variable main_groups : list (@BGm B E).
Variable aux_groups : list (@BGa B E).
Variable rands : list E.
Local Notation rouE := (fun m => emb (rou m)).

(* verifier_evaluate_constraints_ext, part 1: the mixed evaluate_constraints is the single-field one over OE on embedded data *)
Theorem evaluate_constraints_mixed_embeds cur nxt auxf x :
  evaluate_constraints_mixed OB OE emb n rou num_main num_aux tmainE tauxE ppolys exemptions tcoef main_groups aux_groups rands cur nxt auxf x
  = evaluate_constraints OE n rouE num_main tmainE tauxE num_aux (map (map emb) ppolys) exemptions tcoef
                         (map (embG emb) main_groups) (map embGa aux_groups) rands (fun _ => None) cur nxt auxf x.
Proof.
  unfold evaluate_constraints_mixed, evaluate_constraints, combine_evaluations.
  rewrite (periodic_at_mixed_embeds OE emb), div_evaluate_at_mixed_embeds, <- (emb_tdiv OB OE emb mul_base H).
  rewrite (acc_opt_ext' (fun g => gm_evaluate_at OB OE emb g cur x) (fun g => bg_evaluate_at OE (embG emb g) cur x))
    by (intros g _; apply gm_evaluate_at_embeds).
  destruct auxf as [[ac an]|]; rewrite ?acc_opt_map'.
  - rewrite (acc_opt_ext' (fun g => ga_evaluate_at OE emb g ac x) (fun g => bg_evaluate_at OE (embGa g) ac x))
      by (intros g _; apply ga_evaluate_at_embeds).
    match goal with |- ?l = match ?r with Some _ => _ | None => _ end => replace r with l by reflexivity; destruct l; reflexivity end.
  - match goal with |- ?l = match ?r with Some _ => _ | None => _ end => replace r with l by reflexivity; destruct l; reflexivity end.
Qed.

(* part 2: on the frame of the (embedded) trace polynomials at z it is comp_def over E with the embedded data *)
Variable tpolys : list (list B).
Variable apolys : list (list E).
Hypothesis groups_no_exemptions :
  (forall g, In g main_groups -> dv_ex (gm_div g) = []) /\ (forall g, In g aux_groups -> dv_ex (ga_div g) = []).
Hypothesis main_cols : forall g c, In g main_groups -> In c (gm_cs g) -> m_col c < length tpolys.
Hypothesis aux_cols : forall g c, In g aux_groups -> In c (ga_cs g) -> a_col c < length apolys.
Hypothesis tmain_len : forall cur nxt pv, length (tmainE cur nxt pv) = num_main.

Theorem verifier_evaluate_constraints_ext z :
  let tE := map (map emb) tpolys in
  evaluate_constraints_mixed OB OE emb n rou num_main num_aux tmainE tauxE ppolys exemptions tcoef main_groups aux_groups rands
    (def_cur OE tE z) (def_nxt OE n rouE tE z) (Some (def_acur OE apolys z, def_anxt OE n rouE apolys z)) z
  = Some (comp_def OE n rouE tmainE tauxE (map (map emb) ppolys) exemptions tcoef (map (embG emb) main_groups) (map embGa aux_groups)
                   rands true tE apolys z).
Proof.
  intros tE. rewrite evaluate_constraints_mixed_embeds.
  apply (verifier_eval_agrees_aux OE LE).
  - intros g Hg. apply in_app_or in Hg. destruct Hg as [Hg|Hg]; apply in_map_iff in Hg; destruct Hg as [g0 [<- Hg0]].
    + cbn [embG bg_div embD dv_ex]. now rewrite (proj1 groups_no_exemptions g0 Hg0).
    + cbn [embGa bg_div embD dv_ex]. now rewrite (proj2 groups_no_exemptions g0 Hg0).
  - intros g c Hg Hc. apply in_map_iff in Hg. destruct Hg as [g0 [<- Hg0]]. cbn [embG bg_cs] in Hc.
    apply in_map_iff in Hc. destruct Hc as [c0 [<- Hc0]]. unfold tE. rewrite map_length. cbn [embBC bc_col]. now apply (main_cols g0).
  - intros g c Hg Hc. apply in_map_iff in Hg. destruct Hg as [g0 [<- Hg0]]. cbn [embGa bg_cs] in Hc.
    apply in_map_iff in Hc. destruct Hc as [c0 [<- Hc0]]. cbn [embBCa bc_col]. now apply (aux_cols g0).
  - exact tmain_len.
Qed.
End VerifierExt.
