(* C09 stage (c), continued: coset evaluation with blowup (per-chunk offsets), interpolation (with offset) as the
   inverse of evaluation, and degree inference, for the faithful model, EVERY size.  stdlib style. *)
From Coq Require Import List Arith Bool ZArith Lia Ring Field.
From VBase Require Import FieldOps.
From VModel Require Import FFT.
From VProofs Require Import FFTSpec FFTRefine FFTEval.
Import ListNotations.

Section Offset.
Context {F : Type} (O : FOps F) (L : FLaws O).
Add Ring Fring3 : (FLaws_ring_theory O L).
Add Field Ffield3 : (FLaws_field_theory O L).

Local Notation fz := (fzero O).
Local Notation f1 := (fone O).
Local Infix "+f" := (fadd O) (at level 50, left associativity).
Local Infix "-f" := (fsub O) (at level 50, left associativity).
Local Infix "*f" := (fmul O) (at level 40, left associativity).
Local Notation "-f x" := (fneg O x) (at level 35, right associativity).
Local Notation peval := (peval O).
Local Notation fpow := (fpow O).
Local Notation vget := (vget O).

Variable two_adicity : nat.
Variable root_of_unity : nat -> F.

(* ---------------------------------------------------------------- lists *)
Lemma concat_uniform : forall (ls : list (list F)) n, (forall l, In l ls -> length l = n) ->
  length (concat ls) = length ls * n /\
  forall i q, i < length ls -> q < n -> nth (i * n + q) (concat ls) fz = nth q (nth i ls []) fz.
Proof.
  induction ls as [|l ls IH]; intros n Hn.
  - cbn. split; [reflexivity|]. intros; lia.
  - destruct (IH n) as [IL IN]; [intros; apply Hn; right; assumption|].
    assert (Hl : length l = n) by (apply Hn; left; reflexivity).
    cbn [concat length]. split; [rewrite app_length, IL, Hl; lia|].
    intros i q Hi Hq. destruct i as [|i].
    + cbn [Nat.mul Nat.add nth]. apply app_nth1. lia.
    + cbn [nth]. rewrite app_nth2 by (rewrite Hl; lia).
      replace (S i * n + q - length l) with (i * n + q) by (rewrite Hl; lia).
      apply IN; lia.
Qed.

Lemma shift_by_series_length : forall p s c, length (shift_by_series O p s c) = length p.
Proof. induction p; intros; cbn; [reflexivity | f_equal; apply IHp]. Qed.

Lemma shift_by_series_scale : forall Y s a c,
  shift_by_series O Y (s *f a) c = shift_by_series O (map (fun y => y *f s) Y) a c.
Proof.
  induction Y as [|y t IH]; intros; cbn [shift_by_series map]; [reflexivity|].
  f_equal; [ring|]. replace (s *f a *f c) with (s *f (a *f c)) by ring. apply IH.
Qed.

Lemma shift_by_series_twice : forall p a c b d,
  shift_by_series O (shift_by_series O p a c) b d = shift_by_series O p (a *f b) (c *f d).
Proof.
  induction p as [|y t IH]; intros; cbn [shift_by_series]; [reflexivity|].
  f_equal; [ring|]. rewrite IH. f_equal. ring.
Qed.

Lemma shift_by_series_one : forall p, shift_by_series O p f1 f1 = p.
Proof.
  induction p as [|y t IH]; cbn [shift_by_series]; [reflexivity|].
  f_equal; [ring|]. replace (f1 *f f1) with f1 by ring. exact IH.
Qed.

Lemma map_seq_nth {A} (f : nat -> A) n i d : i < n -> nth i (map f (seq 0 n)) d = f i.
Proof.
  intros Hi. rewrite (nth_indep _ d (f 0)) by (rewrite map_length, seq_length; exact Hi).
  rewrite (map_nth f), seq_nth by exact Hi. reflexivity.
Qed.

(* ---------------------------------------------------------------- evaluate_poly_with_offset *)
Theorem evaluate_poly_with_offset_correct tw K b g offset p :
  length p = 2 ^ S K -> length tw = 2 ^ K -> S K + b <= two_adicity ->
  root_of_unity (S K + b) = g -> root_cond O (S K + b) g ->
  tw_ok O tw (S K) (fpow g (2 ^ b)) -> offset <> fz ->
  evaluate_poly_with_offset O two_adicity root_of_unity p tw offset (2 ^ b)
    = Some (map (fun i => peval p (offset *f fpow g i)) (seq 0 (2 ^ (S K + b)))).
Proof.
  intros Hl Hlt Had Hg Hgc Ht Hoff. unfold evaluate_poly_with_offset.
  rewrite Hl, Hlt, !is_pow2_pow2. cbn [negb].
  assert (E1 : (2 ^ S K =? 2 ^ K * 2) = true) by (apply Nat.eqb_eq; cbn; lia).
  rewrite E1. cbn [negb]. rewrite <- Nat.pow_add_r, log2_pow2.
  assert (E2 : (two_adicity <? S K + b) = false) by (apply Nat.ltb_ge; lia).
  rewrite E2.
  assert (E3 : feqb O offset fz = false).
  { destruct (feqb O offset fz) eqn:E; [|reflexivity]. apply (fl_eqb_spec O L) in E. contradiction. }
  rewrite E3, Hg. f_equal.
  set (w := fpow g (2 ^ b)) in *.
  assert (Hw : root_cond O (S K) w).
  { cbn [root_cond]. unfold w. rewrite <- (fpow_mul O L). rewrite <- Nat.pow_add_r.
    replace (b + K) with (K + b) by lia. exact Hgc. }
  set (f := fun i => fft_in_place_top O
               (shift_by_series O p f1 (fpow_N O g (N.of_nat (permute_index (2 ^ b) i)) *f offset)) tw).
  assert (Hf : forall i, f i = brfft O tw (S K) (shift_by_series O p f1 (fpow g (rev_bits b i) *f offset))).
  { intros i. unfold f. rewrite permute_index_spec, (fpow_N_spec O L).
    apply fft_in_place_top_brfft. rewrite shift_by_series_length. exact Hl. }
  assert (Hfl : forall i, length (f i) = 2 ^ S K).
  { intros i. rewrite Hf. apply brfft_length. rewrite shift_by_series_length. exact Hl. }
  destruct (concat_uniform (map f (seq 0 (2 ^ b))) (2 ^ S K)) as [CL CN].
  { intros l Hin. apply in_map_iff in Hin. destruct Hin as (i & <- & _). apply Hfl. }
  rewrite map_length, seq_length in CL, CN.
  assert (CL' : length (concat (map f (seq 0 (2 ^ b)))) = 2 ^ (S K + b)).
  { rewrite CL, Nat.pow_add_r. lia. }
  destruct (permute_spec O (S K + b) _ CL') as [Lp Np].
  apply nth_ext with (d := fz) (d' := fz); [rewrite Lp, map_length, seq_length; reflexivity|].
  rewrite Lp. intros r Hr. rewrite Np by exact Hr.
  rewrite map_seq_nth by exact Hr.
  pose proof (rev_bits_lt (S K + b) r) as HP.
  set (P := rev_bits (S K + b) r) in *.
  pose proof (Nat.div_mod P (2 ^ S K) ltac:(pose proof (pow2_pos (S K)); lia)) as Hdm.
  pose proof (Nat.mod_upper_bound P (2 ^ S K) ltac:(pose proof (pow2_pos (S K)); lia)) as Hq.
  set (i := P / 2 ^ S K) in *. set (q := P mod 2 ^ S K) in *.
  assert (Hi : i < 2 ^ b).
  { unfold i. apply Nat.div_lt_upper_bound; [pose proof (pow2_pos (S K)); lia|].
    rewrite <- Nat.pow_add_r. exact HP. }
  replace P with (i * 2 ^ S K + q) by lia.
  rewrite CN by assumption. rewrite map_seq_nth by exact Hi. rewrite Hf.
  rewrite (brfft_dft O L tw (S K) w _ q); [| rewrite shift_by_series_length; exact Hl | exact Hw | exact Ht | exact Hq].
  rewrite (peval_shift_by_series O L).
  assert (Hrr : rev_bits b i + 2 ^ b * rev_bits (S K) q = r).
  { rewrite <- rev_bits_concat by exact Hq.
    replace (i * 2 ^ S K + q) with P by lia. unfold P. apply rev_bits_involutive. exact Hr. }
  replace (fpow g (rev_bits b i) *f offset *f fpow w (rev_bits (S K) q)) with (offset *f fpow g r).
  - ring.
  - rewrite <- Hrr. unfold w. rewrite (fpow_add O L), (fpow_mul O L). ring.
Qed.

(* ---------------------------------------------------------------- interpolation *)
Definition n_inv (k : nat) : F := finv O (fofz O (Z.of_nat (2 ^ k))).

Theorem interpolate_poly_correct itw K winv v :
  length v = 2 ^ S K -> length itw = 2 ^ K -> S K <= two_adicity ->
  root_cond O (S K) winv -> tw_ok O itw (S K) winv ->
  interpolate_poly O two_adicity v itw = Some (spec_interpolate O (S K) winv (n_inv (S K)) v).
Proof.
  intros Hl Hlt Had Hw Ht. unfold interpolate_poly.
  rewrite Hl, Hlt, is_pow2_pow2, log2_pow2. cbn [negb].
  assert (E1 : (2 ^ S K =? 2 ^ K * 2) = true) by (apply Nat.eqb_eq; cbn; lia).
  assert (E2 : (two_adicity <? S K) = false) by (apply Nat.ltb_ge; lia).
  rewrite E1, E2. cbn [negb]. f_equal. fold (n_inv (S K)).
  rewrite (fft_in_place_top_brfft O itw K v Hl).
  unfold spec_interpolate, shift_by. rewrite (fft_rec_correct O L) by assumption.
  assert (Hlb : length (map (fun d => d *f n_inv (S K)) (brfft O itw (S K) v)) = 2 ^ S K).
  { rewrite map_length. apply brfft_length. exact Hl. }
  destruct (permute_spec O (S K) _ Hlb) as [Lp Np].
  apply nth_ext with (d := fz) (d' := fz); [rewrite Lp, map_length, dft_length; reflexivity|].
  rewrite Lp. intros i Hi. rewrite Np by exact Hi.
  assert (Hz : forall l j, j < length l ->
             nth j (map (fun d => d *f n_inv (S K)) l) fz = nth j l fz *f n_inv (S K)).
  { intros l j Hj. rewrite (nth_indep _ fz ((fun d => d *f n_inv (S K)) fz)) by (rewrite map_length; exact Hj).
    apply (map_nth (fun d => d *f n_inv (S K))). }
  rewrite Hz by (rewrite brfft_length by exact Hl; apply rev_bits_lt).
  rewrite Hz by (rewrite dft_length; exact Hi).
  rewrite (brfft_dft O L itw (S K) winv v _ Hl Hw Ht (rev_bits_lt _ _)).
  rewrite rev_bits_involutive by exact Hi. rewrite (dft_nth O) by exact Hi. reflexivity.
Qed.

(* interpolation inverts evaluation: interpolate_poly(evaluate_poly(p)) = p *)
Theorem interpolate_evaluate itw K w winv p :
  length p = 2 ^ S K -> length itw = 2 ^ K -> S K <= two_adicity ->
  root_cond O (S K) w -> w *f winv = f1 -> tw_ok O itw (S K) winv ->
  two_pow_f O (S K) *f n_inv (S K) = f1 ->
  interpolate_poly O two_adicity (map (fun i => peval p (fpow w i)) (seq 0 (2 ^ S K))) itw = Some p.
Proof.
  intros Hl Hlt Had Hw Hinv Ht Hn.
  assert (Hwi : root_cond O (S K) winv).
  { cbn [root_cond] in *.
    assert (fpow w (2 ^ K) *f fpow winv (2 ^ K) = f1)
      by (rewrite <- (fpow_mul_base O L), Hinv; apply (fpow_one O L)).
    rewrite Hw in H. transitivity (-f (-f f1 *f fpow winv (2 ^ K))); [ring | rewrite H; reflexivity]. }
  change (map (fun i => peval p (fpow w i)) (seq 0 (2 ^ S K))) with (dft O (2 ^ S K) w p).
  rewrite (interpolate_poly_correct itw K winv); try assumption; [| apply dft_length].
  rewrite <- (fft_rec_correct O L) by assumption.
  f_equal. apply (spec_interpolate_inverse O L); assumption.
Qed.

(* the other direction, for ARBITRARY values v: the interpolant evaluates back to v — together with
   interpolate_evaluate this says interpolate_poly returns THE polynomial (of < n coefficients) through the values *)
Lemma peval_scale : forall l c x, peval (map (fun y => y *f c) l) x = peval l x *f c.
Proof.
  induction l as [|a t IH]; intros; cbn [map FFT.peval]; [ring|]. rewrite IH. ring.
Qed.

Theorem evaluate_interpolate tw itw K w winv v :
  length v = 2 ^ S K -> length tw = 2 ^ K -> length itw = 2 ^ K -> S K <= two_adicity ->
  root_cond O (S K) w -> w *f winv = f1 -> tw_ok O tw (S K) w -> tw_ok O itw (S K) winv ->
  two_pow_f O (S K) *f n_inv (S K) = f1 ->
  exists c, interpolate_poly O two_adicity v itw = Some c /\ length c = 2 ^ S K /\
            evaluate_poly O two_adicity c tw = Some v.
Proof.
  intros Hl Hlt Hli Had Hw Hinv Ht Hti Hn.
  assert (Hwi : root_cond O (S K) winv).
  { cbn [root_cond] in *.
    assert (fpow w (2 ^ K) *f fpow winv (2 ^ K) = f1)
      by (rewrite <- (fpow_mul_base O L), Hinv; apply (fpow_one O L)).
    rewrite Hw in H. transitivity (-f (-f f1 *f fpow winv (2 ^ K))); [ring | rewrite H; reflexivity]. }
  rewrite (interpolate_poly_correct itw K winv v Hl Hli Had Hwi Hti).
  eexists; split; [reflexivity|].
  assert (Hlc : length (spec_interpolate O (S K) winv (n_inv (S K)) v) = 2 ^ S K).
  { unfold spec_interpolate. rewrite map_length. apply (fft_rec_length O L). exact Hl. }
  split; [exact Hlc|].
  rewrite (evaluate_poly_correct O L two_adicity tw K w _ Hlc Hlt Had Hw Ht). f_equal.
  apply nth_ext with (d := fz) (d' := fz); [rewrite map_length, seq_length; auto|].
  rewrite map_length, seq_length. intros i Hi. rewrite map_seq_nth by exact Hi.
  unfold spec_interpolate. rewrite peval_scale.
  assert (Hinv' : winv *f w = f1) by (rewrite (fl_mul_comm O L); exact Hinv).
  rewrite (idft_coeff O L (S K) winv w v i Hl Hwi Hinv' Hi).
  transitivity ((two_pow_f O (S K) *f n_inv (S K)) *f nth i v fz); [ring | rewrite Hn; ring].
Qed.


Theorem interpolate_poly_with_offset_correct itw K winv offset v :
  length v = 2 ^ S K -> length itw = 2 ^ K -> S K <= two_adicity ->
  root_cond O (S K) winv -> tw_ok O itw (S K) winv -> offset <> fz ->
  interpolate_poly_with_offset O two_adicity v itw offset
    = Some (spec_interpolate_offset O (S K) winv (n_inv (S K)) (finv O offset) v).
Proof.
  intros Hl Hlt Had Hw Ht Hoff. unfold interpolate_poly_with_offset.
  rewrite Hl, Hlt, is_pow2_pow2, log2_pow2. cbn [negb].
  assert (E1 : (2 ^ S K =? 2 ^ K * 2) = true) by (apply Nat.eqb_eq; cbn; lia).
  assert (E2 : (two_adicity <? S K) = false) by (apply Nat.ltb_ge; lia).
  assert (E3 : feqb O offset fz = false).
  { destruct (feqb O offset fz) eqn:E; [|reflexivity]. apply (fl_eqb_spec O L) in E. contradiction. }
  rewrite E1, E2, E3. cbn [negb]. f_equal. fold (n_inv (S K)).
  unfold spec_interpolate_offset.
  rewrite (permuted_fft_is_dft O L itw K winv v Hl Hw Ht).
  rewrite <- (fft_rec_correct O L) by assumption. reflexivity.
Qed.

(* interpolation with offset inverts evaluation over the coset offset*<w> *)
Theorem interpolate_evaluate_with_offset itw K w winv offset p :
  length p = 2 ^ S K -> length itw = 2 ^ K -> S K <= two_adicity ->
  root_cond O (S K) w -> w *f winv = f1 -> tw_ok O itw (S K) winv -> offset <> fz ->
  two_pow_f O (S K) *f n_inv (S K) = f1 ->
  interpolate_poly_with_offset O two_adicity
    (map (fun i => peval p (offset *f fpow w i)) (seq 0 (2 ^ S K))) itw offset = Some p.
Proof.
  intros Hl Hlt Had Hw Hinv Ht Hoff Hn.
  assert (Hwi : root_cond O (S K) winv).
  { cbn [root_cond] in *.
    assert (fpow w (2 ^ K) *f fpow winv (2 ^ K) = f1)
      by (rewrite <- (fpow_mul_base O L), Hinv; apply (fpow_one O L)).
    rewrite Hw in H. transitivity (-f (-f f1 *f fpow winv (2 ^ K))); [ring | rewrite H; reflexivity]. }
  assert (Hev : map (fun i => peval p (offset *f fpow w i)) (seq 0 (2 ^ S K))
                = fft_rec O (S K) w (shift_by_series O p f1 offset)).
  { rewrite (fft_rec_correct O L); [| rewrite shift_by_series_length; exact Hl | exact Hw].
    unfold dft. apply map_ext. intros i. rewrite (peval_shift_by_series O L). ring. }
  rewrite Hev.
  rewrite (interpolate_poly_with_offset_correct itw K winv offset); try assumption.
  2:{ apply (fft_rec_length O L). rewrite shift_by_series_length. exact Hl. }
  f_equal. unfold spec_interpolate_offset.
  replace (n_inv (S K)) with (n_inv (S K) *f f1) by ring.
  rewrite shift_by_series_scale.
  pose proof (spec_interpolate_inverse O L (S K) w winv (n_inv (S K)) (shift_by_series O p f1 offset)) as Hinvs.
  unfold spec_interpolate in Hinvs. rewrite Hinvs; try assumption.
  2:{ rewrite shift_by_series_length. exact Hl. }
  rewrite shift_by_series_twice.
  replace (f1 *f f1) with f1 by ring.
  replace (offset *f finv O offset) with f1.
  - apply shift_by_series_one.
  - rewrite (fl_mul_comm O L). symmetry. apply (fl_inv_l O L). exact Hoff.
Qed.

(* ---------------------------------------------------------------- inverse twiddles, degree *)
Theorem get_inv_twiddles_correct K w : S K <= two_adicity ->
  root_of_unity (S K) = w -> root_cond O (S K) w ->
  exists itw, get_inv_twiddles O two_adicity root_of_unity (2 ^ S K) = Some itw /\
              length itw = 2 ^ K /\ tw_ok O itw (S K) (fpow w (2 ^ S K - 1)) /\
              w *f fpow w (2 ^ S K - 1) = f1.
Proof.
  intros Had Hr Hw. unfold get_inv_twiddles. rewrite is_pow2_pow2, log2_pow2. cbn [negb].
  assert (E2 : (two_adicity <? S K) = false) by (apply Nat.ltb_ge; lia).
  rewrite E2. cbn [Nat.eqb]. rewrite half_pow2', Hr, (fpow_N_spec O L).
  eexists; split; [reflexivity|].
  destruct (permuted_powers_ok O L (fpow w (2 ^ S K - 1)) K) as [H1 H2].
  split; [exact H1|]. split; [exact H2|].
  change (w *f fpow w (2 ^ S K - 1)) with (fpow w (S (2 ^ S K - 1))).
  replace (S (2 ^ S K - 1)) with (2 ^ S K) by (pose proof (pow2_pos (S K)); lia).
  apply (root_cond_one O L). exact Hw.
Qed.

Lemma last_nonzero_from_spec : forall l i,
  match last_nonzero_from O l i with
  | Some d => i <= d < i + length l /\ nth (d - i) l fz <> fz /\ forall j, d - i < j -> nth j l fz = fz
  | None => forall j, nth j l fz = fz
  end.
Proof.
  induction l as [|c t IH]; intros i; cbn [last_nonzero_from].
  - intros j. destruct j; reflexivity.
  - specialize (IH (S i)). destruct (last_nonzero_from O t (S i)) as [d|].
    + destruct IH as (H1 & H2 & H3). cbn [length]. split; [lia|].
      replace (d - i) with (S (d - S i)) by lia. cbn [nth]. split; [exact H2|].
      intros j Hj. destruct j; [lia|]. apply H3. lia.
    + destruct (feqb O c fz) eqn:E.
      * apply (fl_eqb_spec O L) in E. subst c. intros j. destruct j; [reflexivity | apply IH].
      * cbn [length]. split; [lia|]. rewrite Nat.sub_diag. cbn [nth]. split.
        -- intros Hc. rewrite Hc in E. assert (feqb O fz fz = true) by (apply (fl_eqb_spec O L); reflexivity). congruence.
        -- intros j Hj. destruct j; [lia | apply IH].
Qed.

(* degree_of returns the true degree: the index of the last non-zero coefficient (0 for the zero polynomial) *)
Theorem degree_of_spec p d :
  nth d p fz <> fz -> (forall j, d < j -> nth j p fz = fz) -> degree_of O p = d.
Proof.
  intros Hd Hz. unfold degree_of. pose proof (last_nonzero_from_spec p 0) as H.
  destruct (last_nonzero_from O p 0) as [d'|].
  - destruct H as (_ & H2 & H3). rewrite Nat.sub_0_r in *.
    destruct (Nat.lt_trichotomy d d') as [Hlt | [-> | Hgt]]; [| reflexivity |].
    + exfalso. apply H2. apply Hz. exact Hlt.
    + exfalso. apply Hd. apply H3. exact Hgt.
  - exfalso. apply Hd. apply H.
Qed.

Theorem degree_of_zero p : (forall j, nth j p fz = fz) -> degree_of O p = 0.
Proof.
  intros Hz. unfold degree_of. pose proof (last_nonzero_from_spec p 0) as H.
  destruct (last_nonzero_from O p 0) as [d'|]; [|reflexivity].
  destruct H as (_ & H2 & _). exfalso. apply H2. apply Hz.
Qed.

(* infer_degree of the evaluations of p over the coset reports the degree of p *)
Theorem infer_degree_correct K w offset p :
  length p = 2 ^ S K -> S K <= two_adicity ->
  root_of_unity (S K) = w -> root_cond O (S K) w -> offset <> fz ->
  two_pow_f O (S K) *f n_inv (S K) = f1 ->
  infer_degree O two_adicity root_of_unity
    (map (fun i => peval p (offset *f fpow w i)) (seq 0 (2 ^ S K))) offset = Some (degree_of O p).
Proof.
  intros Hl Had Hr Hw Hoff Hn. unfold infer_degree.
  rewrite map_length, seq_length, is_pow2_pow2, log2_pow2. cbn [negb].
  assert (E2 : (two_adicity <? S K) = false) by (apply Nat.ltb_ge; lia).
  assert (E3 : feqb O offset fz = false).
  { destruct (feqb O offset fz) eqn:E; [|reflexivity]. apply (fl_eqb_spec O L) in E. contradiction. }
  rewrite E2, E3.
  destruct (get_inv_twiddles_correct K w Had Hr Hw) as (itw & Hg & Hli & Hti & Hwi).
  rewrite Hg.
  rewrite (interpolate_evaluate_with_offset itw K w (fpow w (2 ^ S K - 1)) offset p); try assumption.
  reflexivity.
Qed.

End Offset.
