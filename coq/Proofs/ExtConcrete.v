(* C08 — the three concrete base fields (sigma-type fields F64_ops / F62_ops / F128_ops of Proofs/ZpLaws.v):
   discharge of the hypotheses of Proofs/ExtModel.v
     * quadratic: the discriminant (-7 resp. 5) is a quadratic non-residue (Euler criterion: d^((p-1)/2) = p-1 by
       vm_compute; a square root s would give d^((p-1)/2) = s^(p-1) = 1 by Fermat),
     * cubic: the Frobenius constants satisfy the constant equations (vm_compute), the fixed-point determinant is a
       unit (vm_compute), the constants are phi^p and (phi^2)^p (square-and-multiply under vm_compute), and the cubic
       has no root in F_p (evaluation at a root r maps phi^p to r^p = r, so r is a common root of f and of
       k21 t^2 + (k11-1) t + k01; their resultant-style constant `cs_res` is non-zero by vm_compute).
   and the resulting unconditional theorems.  stdlib style. *)
From Coq Require Import ZArith Znumtheory Zpow_facts Lia List Bool.
From VBase Require Import FieldOps ZpOps.
From VGen Require Import F64 F62 F128.
From VModel Require Import ExtField.
From VProofs Require Import NumTheoryFermat NumTheoryPrime ZpLaws ExtTheory ExtModel.
Open Scope Z_scope.

(* ------------------------------------------------------------------ Euler criterion, the direction needed *)
Lemma euler_nonsquare : forall p h d, prime p -> 2 * h = p - 1 -> d <> 0 ->
  zpow_mod p d h <> 1 -> forall s, 0 <= s < p -> (s * s) mod p <> d.
Proof.
  intros p h d Hp Hh Hd0 Hz s Hs E. apply Hz.
  pose proof (prime_gt1 p Hp) as H1.
  rewrite zpow_mod_spec by lia.
  rewrite <- E. rewrite <- Zpower_mod by lia.
  replace (s * s) with (s ^ 2) by ring. rewrite <- Z.pow_mul_r by lia. rewrite Hh.
  apply fermat_pm1; [exact Hp|].
  rewrite Z.mod_small by lia. intros ->. apply Hd0. rewrite <- E. apply Z.mod_0_l. lia.
Qed.

Lemma zp_nonsquare : forall p (Hp : prime p) (H1 : 1 < p) h (D : Zp p),
  2 * h = p - 1 -> zp_val D <> 0 -> zpow_mod p (zp_val D) h <> 1 ->
  forall s : Zp p, fmul (zpT_ops p H1) s s <> D.
Proof.
  intros p Hp H1 h D Hh HD Hz s E. apply (f_equal zp_val) in E.
  cbn [zp_val fmul zpT_ops zp_mk proj1_sig] in E.
  apply (euler_nonsquare p h (zp_val D) Hp Hh HD Hz (proj1_sig s)); [apply (zp_val_range p s)|exact E].
Qed.

(* -7 is a non-residue mod P64;  5 is a non-residue mod P62 and mod P128 *)
Theorem f64_disc_nonsquare : forall s, fmul F64_ops s s <> qs_disc F64_ops (fneg2 F64_ops).
Proof.
  apply (zp_nonsquare P64 P64_prime _ ((P64 - 1) / 2)).
  - vm_compute. reflexivity.
  - vm_compute. discriminate.
  - vm_compute. discriminate.
Qed.
Theorem f62_disc_nonsquare : forall s, fmul F62_ops s s <> qs_disc F62_ops (fone F62_ops).
Proof.
  apply (zp_nonsquare P62 P62_prime _ ((P62 - 1) / 2)).
  - vm_compute. reflexivity.
  - vm_compute. discriminate.
  - vm_compute. discriminate.
Qed.
Theorem f128_disc_nonsquare : forall s, fmul F128_ops s s <> qs_disc F128_ops (fone F128_ops).
Proof.
  apply (zp_nonsquare P128 P128_prime _ ((P128 - 1) / 2)).
  - vm_compute. reflexivity.
  - vm_compute. discriminate.
  - vm_compute. discriminate.
Qed.
(* the discriminants are what the documentation says: -7 and 5 *)
Lemma f64_disc_val : zp_val (qs_disc F64_ops (fneg2 F64_ops)) = P64 - 7
  /\ zpow_mod P64 (P64 - 7) ((P64 - 1) / 2) = P64 - 1.
Proof. split; vm_compute; reflexivity. Qed.
Lemma f62_disc_val : zp_val (qs_disc F62_ops (fone F62_ops)) = 5 /\ zpow_mod P62 5 ((P62 - 1) / 2) = P62 - 1.
Proof. split; vm_compute; reflexivity. Qed.
Lemma f128_disc_val : zp_val (qs_disc F128_ops (fone F128_ops)) = 5 /\ zpow_mod P128 5 ((P128 - 1) / 2) = P128 - 1.
Proof. split; vm_compute; reflexivity. Qed.

(* ------------------------------------------------------------------ values of tuples *)
Definition val2 {p} (a : Zp p * Zp p) : Z * Z := (zp_val (fst a), zp_val (snd a)).
Definition val3 {p} (a : Zp p * Zp p * Zp p) : Z * Z * Z := (zp_val (c0 a), zp_val (c1 a), zp_val (c2 a)).
Lemma val2_inj : forall p (a b : Zp p * Zp p), val2 a = val2 b -> a = b.
Proof.
  intros p [a0 a1] [b0 b1] H. unfold val2 in H; cbn [fst snd] in H. injection H as H0 H1.
  f_equal; apply zp_val_inj; assumption.
Qed.
Lemma val3_inj : forall p (a b : Zp p * Zp p * Zp p), val3 a = val3 b -> a = b.
Proof.
  intros p [[a0 a1] a2] [[b0 b1] b2] H. unfold val3, c0, c1, c2 in H; cbn [fst snd] in H. injection H as H0 H1 H2.
  f_equal; [f_equal|]; apply zp_val_inj; assumption.
Qed.

(* ------------------------------------------------------------------ powers in Zp and evaluation at a root *)
Section Pow.
Context {F : Type} (O : FOps F) (L : FLaws O).
(* the shape of FieldElement::exp_vartime in the base field *)
Fixpoint f_exp_loop (r b : F) (e : positive) : F :=
  match e with
  | xH => fmul O r b
  | xO e' => f_exp_loop r (fmul O b b) e'
  | xI e' => f_exp_loop (fmul O r b) (fmul O b b) e'
  end.

Variable I : Ext3Impl F.
Variables u v k01 k02 k11 k12 k21 k22 : F.
Hypothesis IC : Ext3Correct O I u v k01 k02 k11 k12 k21 k22.

Lemma cs_ev_exp_loop : forall t, cs_poly O u v t = fzero O ->
  forall e r b, cs_ev O t (c_exp_loop I r b e) = f_exp_loop (cs_ev O t r) (cs_ev O t b) e.
Proof.
  intros t Ht. induction e as [e IH|e IH|]; intros r b; cbn [c_exp_loop f_exp_loop].
  - rewrite IH. unfold c_mul, c_square. rewrite (x3c_square _ _ _ _ _ _ _ _ _ _ IC), (x3c_mul _ _ _ _ _ _ _ _ _ _ IC).
    rewrite !(cs_ev_mul O L u v t Ht). reflexivity.
  - rewrite IH. unfold c_square. rewrite (x3c_square _ _ _ _ _ _ _ _ _ _ IC).
    rewrite !(cs_ev_mul O L u v t Ht). reflexivity.
  - unfold c_mul. rewrite (x3c_mul _ _ _ _ _ _ _ _ _ _ IC). apply (cs_ev_mul O L u v t Ht).
Qed.
End Pow.

Section ZpCubic.
Variable p : Z.
Hypothesis Hp : prime p.
Hypothesis H2 : 2 < p.
Let H1 : 1 < p := prime_gt1 p Hp.
Let O : FOps (Zp p) := zpT_ops p H1.
Let L : FLaws O := zpT_laws p Hp H2.

Lemma mul_pow_mod : forall a b n, 0 < p -> (a * (b mod p) ^ n) mod p = (a * b ^ n) mod p.
Proof.
  intros a b n Hpos. rewrite <- Z.mul_mod_idemp_r by lia. rewrite <- Zpower_mod by lia.
  rewrite Z.mul_mod_idemp_r by lia. reflexivity.
Qed.

Lemma zp_exp_loop_val : forall e (r b : Zp p),
  zp_val (f_exp_loop O r b e) = (zp_val r * zp_val b ^ Zpos e) mod p.
Proof.
  assert (Hpos : 0 < p) by lia.
  induction e as [e IH|e IH|]; intros r b; cbn [f_exp_loop].
  - rewrite IH. cbn [zp_val fmul O zpT_ops zp_mk proj1_sig].
    set (x := zp_val r). set (y := zp_val b).
    rewrite Z.mul_mod_idemp_l by lia. rewrite mul_pow_mod by lia. f_equal.
    rewrite Pos2Z.inj_xI. rewrite Z.pow_add_r, Z.pow_1_r by lia. rewrite Z.pow_mul_r by lia.
    replace (y ^ 2) with (y * y) by ring. ring.
  - rewrite IH. cbn [zp_val fmul O zpT_ops zp_mk proj1_sig].
    set (x := zp_val r). set (y := zp_val b).
    rewrite mul_pow_mod by lia. f_equal.
    rewrite Pos2Z.inj_xO. rewrite Z.pow_mul_r by lia. replace (y ^ 2) with (y * y) by ring. reflexivity.
  - cbn [zp_val fmul O zpT_ops zp_mk proj1_sig]. rewrite Z.pow_1_r. reflexivity.
Qed.

(* Fermat in the shape of exp_vartime: 1 . r^p = r *)
Lemma zp_exp_loop_fermat : forall pp (r : Zp p), p = Zpos pp -> f_exp_loop O (fone O) r pp = r.
Proof.
  intros pp r E. apply zp_val_inj. rewrite zp_exp_loop_val. rewrite <- E.
  cbn [zp_val fone O zpT_ops zp_mk proj1_sig].
  rewrite Z.mul_mod_idemp_l by lia. rewrite Z.mul_1_l. rewrite fermat_little_Z by exact Hp.
  apply Z.mod_small. apply (zp_val_range p r).
Qed.

Variable I : Ext3Impl (Zp p).
Variables u v k01 k02 k11 k12 k21 k22 : Zp p.
Hypothesis IC : Ext3Correct O I u v k01 k02 k11 k12 k21 k22.

(* "the Frobenius constants are phi^p" + "cs_res <> 0"  =>  the cubic has no root in F_p *)
Theorem zp_cubic_no_root : forall pp, p = Zpos pp ->
  c_exp O I (phi O) (Zpos pp) = psi k01 k11 k21 ->
  cs_res O u v k01 k11 k21 <> fzero O ->
  cs_no_root O u v.
Proof.
  intros pp Ep Hpow Hres t Ht. apply Hres.
  apply (cs_common_root_res O L u v k01 k11 k21 t).
  - exact Ht.
  - unfold c_exp in Hpow.
    assert (Hne : c_eqb O (phi O) (c_zero O) = false).
    { destruct (c_eqb O (phi O) (c_zero O)) eqn:E; [|reflexivity].
      apply (c_eqb_spec O L) in E. apply (f_equal (@c1 _)) in E.
      exfalso. apply (fl_one_neq_zero O L). exact E. }
    rewrite Hne in Hpow.
    apply (f_equal (cs_ev O t)) in Hpow.
    rewrite (cs_ev_exp_loop O L I u v k01 k02 k11 k12 k21 k22 IC t Ht) in Hpow.
    rewrite (cs_ev_one O L), (cs_ev_phi O L) in Hpow.
    rewrite (zp_exp_loop_fermat pp t Ep) in Hpow.
    symmetry. exact Hpow.
Qed.
End ZpCubic.

(* ------------------------------------------------------------------ f64 cubic: x^3 - x - 1 over P64 *)
Local Notation K64 := (Frob3Consts F64_ops (fone F64_ops) (fone F64_ops)
  (f64_k01 F64_ops) (f64_k02 F64_ops) (f64_k11 F64_ops) (f64_k12 F64_ops) (f64_k21 F64_ops) (f64_k22 F64_ops)).
Local Notation K62 := (Frob3Consts F62_ops (fneg2 F62_ops) (fneg2 F62_ops)
  (f62_k01 F62_ops) (f62_k02 F62_ops) (f62_k11 F62_ops) (f62_k12 F62_ops) (f62_k21 F62_ops) (f62_k22 F62_ops)).

Theorem f64_frob3_consts : K64.
Proof. constructor; apply val3_inj; vm_compute; reflexivity. Qed.
Theorem f62_frob3_consts : K62.
Proof. constructor; apply val3_inj; vm_compute; reflexivity. Qed.

Theorem f64_fix_det : cs_fix_det F64_ops (f64_k11 F64_ops) (f64_k12 F64_ops) (f64_k21 F64_ops) (f64_k22 F64_ops) <> fzero F64_ops.
Proof. intros E. apply (f_equal zp_val) in E. vm_compute in E. discriminate. Qed.
Theorem f62_fix_det : cs_fix_det F62_ops (f62_k11 F62_ops) (f62_k12 F62_ops) (f62_k21 F62_ops) (f62_k22 F62_ops) <> fzero F62_ops.
Proof. intros E. apply (f_equal zp_val) in E. vm_compute in E. discriminate. Qed.

(* the constants are phi^p and (phi^2)^p, computed with the GENERATED multiplication/squaring through the model's
   exp_vartime: Frobenius really is x |-> x^p on the basis, hence (being F_p-linear) everywhere *)
Theorem f64_frob_consts_spec :
  c_exp F64_ops (f64_x3 F64_ops) (phi F64_ops) P64 = psi (f64_k01 F64_ops) (f64_k11 F64_ops) (f64_k21 F64_ops) /\
  c_exp F64_ops (f64_x3 F64_ops) (phi2 F64_ops) P64 = chi (f64_k02 F64_ops) (f64_k12 F64_ops) (f64_k22 F64_ops).
Proof. split; apply val3_inj; vm_compute; reflexivity. Qed.
Theorem f62_frob_consts_spec :
  c_exp F62_ops (f62_x3 F62_ops) (phi F62_ops) P62 = psi (f62_k01 F62_ops) (f62_k11 F62_ops) (f62_k21 F62_ops) /\
  c_exp F62_ops (f62_x3 F62_ops) (phi2 F62_ops) P62 = chi (f62_k02 F62_ops) (f62_k12 F62_ops) (f62_k22 F62_ops).
Proof. split; apply val3_inj; vm_compute; reflexivity. Qed.
(* quadratic: phi^p = 1 - phi *)
Theorem f64_frob2_consts_spec :
  q_exp F64_ops (f64_x2 F64_ops) (fzero F64_ops, fone F64_ops) P64 = f64_ext2_frobenius F64_ops (fzero F64_ops, fone F64_ops).
Proof. apply val2_inj; vm_compute; reflexivity. Qed.
Theorem f62_frob2_consts_spec :
  q_exp F62_ops (f62_x2 F62_ops) (fzero F62_ops, fone F62_ops) P62 = f62_ext2_frobenius F62_ops (fzero F62_ops, fone F62_ops).
Proof. apply val2_inj; vm_compute; reflexivity. Qed.
Theorem f128_frob2_consts_spec :
  q_exp F128_ops (f128_x2 F128_ops) (fzero F128_ops, fone F128_ops) P128 = f128_ext2_frobenius F128_ops (fzero F128_ops, fone F128_ops).
Proof. apply val2_inj; vm_compute; reflexivity. Qed.

Theorem f64_cubic_no_root : cs_no_root F64_ops (fone F64_ops) (fone F64_ops).
Proof.
  apply (zp_cubic_no_root P64 P64_prime eq_refl (f64_x3 F64_ops) _ _ _ _ _ _ _ _ (f64_x3_correct F64_ops F64_laws) _ eq_refl).
  - apply (proj1 f64_frob_consts_spec).
  - intros E. apply (f_equal zp_val) in E. vm_compute in E. discriminate.
Qed.
Theorem f62_cubic_no_root : cs_no_root F62_ops (fneg2 F62_ops) (fneg2 F62_ops).
Proof.
  apply (zp_cubic_no_root P62 P62_prime eq_refl (f62_x3 F62_ops) _ _ _ _ _ _ _ _ (f62_x3_correct F62_ops F62_laws) _ eq_refl).
  - apply (proj1 f62_frob_consts_spec).
  - intros E. apply (f_equal zp_val) in E. vm_compute in E. discriminate.
Qed.

(* ------------------------------------------------------------------ the executable instance (zp_ops on Z) is the
   same function as the sigma-type instance, coefficient-wise: what the correspondence runs is what is proved *)
Ltac valtac :=
  intros;
  repeat match goal with a : (Zp _ * Zp _ * Zp _)%type |- _ => destruct a as [[? ?] ?] end;
  repeat match goal with a : (Zp _ * Zp _)%type |- _ => destruct a end;
  cbv [val2 val3 c0 c1 c2 fst snd
       f64_ext2_mul f64_ext2_square f64_ext2_frobenius f64_ext3_mul f64_ext3_square f64_ext3_frobenius
       f62_ext2_mul f62_ext2_frobenius f62_ext3_mul f62_ext3_frobenius f128_ext2_mul f128_ext2_frobenius
       F64_ops F62_ops F128_ops zpT_ops zp_ops fzero fone fadd fsub fmul fneg fdouble fsquare fofz zp_mk zp_val proj1_sig];
  reflexivity.
Lemma f64_ext2_mul_val : forall a b, val2 (f64_ext2_mul F64_ops a b) = f64_ext2_mul (zp_ops P64) (val2 a) (val2 b).
Proof. valtac. Qed.
Lemma f64_ext2_square_val : forall a, val2 (f64_ext2_square F64_ops a) = f64_ext2_square (zp_ops P64) (val2 a).
Proof. valtac. Qed.
Lemma f64_ext2_frob_val : forall a, val2 (f64_ext2_frobenius F64_ops a) = f64_ext2_frobenius (zp_ops P64) (val2 a).
Proof. valtac. Qed.
Lemma f64_ext3_mul_val : forall a b, val3 (f64_ext3_mul F64_ops a b) = f64_ext3_mul (zp_ops P64) (val3 a) (val3 b).
Proof. valtac. Qed.
Lemma f64_ext3_square_val : forall a, val3 (f64_ext3_square F64_ops a) = f64_ext3_square (zp_ops P64) (val3 a).
Proof. valtac. Qed.
Lemma f64_ext3_frob_val : forall a, val3 (f64_ext3_frobenius F64_ops a) = f64_ext3_frobenius (zp_ops P64) (val3 a).
Proof. valtac. Qed.
Lemma f62_ext2_mul_val : forall a b, val2 (f62_ext2_mul F62_ops a b) = f62_ext2_mul (zp_ops P62) (val2 a) (val2 b).
Proof. valtac. Qed.
Lemma f62_ext2_frob_val : forall a, val2 (f62_ext2_frobenius F62_ops a) = f62_ext2_frobenius (zp_ops P62) (val2 a).
Proof. valtac. Qed.
Lemma f62_ext3_mul_val : forall a b, val3 (f62_ext3_mul F62_ops a b) = f62_ext3_mul (zp_ops P62) (val3 a) (val3 b).
Proof. valtac. Qed.
Lemma f62_ext3_frob_val : forall a, val3 (f62_ext3_frobenius F62_ops a) = f62_ext3_frobenius (zp_ops P62) (val3 a).
Proof. valtac. Qed.
Lemma f128_ext2_mul_val : forall a b, val2 (f128_ext2_mul F128_ops a b) = f128_ext2_mul (zp_ops P128) (val2 a) (val2 b).
Proof. valtac. Qed.
Lemma f128_ext2_frob_val : forall a, val2 (f128_ext2_frobenius F128_ops a) = f128_ext2_frobenius (zp_ops P128) (val2 a).
Proof. valtac. Qed.

Definition oval2 {p} (o : option (Zp p * Zp p)) : option (Z * Z) := option_map val2 o.
Definition oval3 {p} (o : option (Zp p * Zp p * Zp p)) : option (Z * Z * Z) := option_map val3 o.
Ltac invtac :=
  cbv [oval2 oval3 option_map val2 val3 q_inv c_inv q_eqb c_eqb q_zero c_zero c0 c1 c2
       f64_x2 f64_x3 f62_x2 f62_x3 f128_x2 x2_mul x2_frob x3_mul x3_frob
       f64_ext2_mul f64_ext2_frobenius f64_ext3_mul f64_ext3_frobenius
       f62_ext2_mul f62_ext2_frobenius f62_ext3_mul f62_ext3_frobenius f128_ext2_mul f128_ext2_frobenius fst snd
       F64_ops F62_ops F128_ops zpT_ops zp_ops fzero fone fadd fsub fmul fneg fdouble fsquare finv feqb fofz zp_mk zp_val proj1_sig
       andb negb];
  repeat match goal with |- context [if ?c then _ else _] => destruct c end; reflexivity.
Lemma f64_q_inv_val : forall dbg a, oval2 (q_inv F64_ops (f64_x2 F64_ops) dbg a) = q_inv (zp_ops P64) (f64_x2 (zp_ops P64)) dbg (val2 a).
Proof. intros dbg [[a0 ?] [a1 ?]]. invtac. Qed.
Lemma f64_c_inv_val : forall dbg a, oval3 (c_inv F64_ops (f64_x3 F64_ops) dbg a) = c_inv (zp_ops P64) (f64_x3 (zp_ops P64)) dbg (val3 a).
Proof. intros dbg [[[a0 ?] [a1 ?]] [a2 ?]]. invtac. Qed.
Lemma f62_q_inv_val : forall dbg a, oval2 (q_inv F62_ops (f62_x2 F62_ops) dbg a) = q_inv (zp_ops P62) (f62_x2 (zp_ops P62)) dbg (val2 a).
Proof. intros dbg [[a0 ?] [a1 ?]]. invtac. Qed.
Lemma f128_q_inv_val : forall dbg a, oval2 (q_inv F128_ops (f128_x2 F128_ops) dbg a) = q_inv (zp_ops P128) (f128_x2 (zp_ops P128)) dbg (val2 a).
Proof. intros dbg [[a0 ?] [a1 ?]]. invtac. Qed.
Lemma f62_c_inv_val : forall dbg a, oval3 (c_inv F62_ops (f62_x3 F62_ops) dbg a) = c_inv (zp_ops P62) (f62_x3 (zp_ops P62)) dbg (val3 a).
Proof. intros dbg [[[a0 ?] [a1 ?]] [a2 ?]]. invtac. Qed.

(* ------------------------------------------------------------------ unconditional inverse theorems *)
Theorem f64_quad_inv_spec : forall dbg a, a <> q_zero F64_ops ->
  exists ia, q_inv F64_ops (f64_x2 F64_ops) dbg a = Some ia /\ f64_ext2_mul F64_ops a ia = q_one F64_ops.
Proof. exact (q_inv_spec F64_ops F64_laws _ _ (f64_x2_correct F64_ops F64_laws) f64_disc_nonsquare). Qed.
Theorem f62_quad_inv_spec : forall dbg a, a <> q_zero F62_ops ->
  exists ia, q_inv F62_ops (f62_x2 F62_ops) dbg a = Some ia /\ f62_ext2_mul F62_ops a ia = q_one F62_ops.
Proof. exact (q_inv_spec F62_ops F62_laws _ _ (f62_x2_correct F62_ops F62_laws) f62_disc_nonsquare). Qed.
Theorem f128_quad_inv_spec : forall dbg a, a <> q_zero F128_ops ->
  exists ia, q_inv F128_ops (f128_x2 F128_ops) dbg a = Some ia /\ f128_ext2_mul F128_ops a ia = q_one F128_ops.
Proof. exact (q_inv_spec F128_ops F128_laws _ _ (f128_x2_correct F128_ops F128_laws) f128_disc_nonsquare). Qed.
Theorem f64_cube_inv_spec : forall dbg a, a <> c_zero F64_ops ->
  exists ia, c_inv F64_ops (f64_x3 F64_ops) dbg a = Some ia /\ f64_ext3_mul F64_ops a ia = c_one F64_ops.
Proof.
  exact (c_inv_spec F64_ops F64_laws _ _ _ _ _ _ _ _ _ (f64_x3_correct F64_ops F64_laws)
           f64_frob3_consts f64_fix_det f64_cubic_no_root).
Qed.
Theorem f62_cube_inv_spec : forall dbg a, a <> c_zero F62_ops ->
  exists ia, c_inv F62_ops (f62_x3 F62_ops) dbg a = Some ia /\ f62_ext3_mul F62_ops a ia = c_one F62_ops.
Proof.
  exact (c_inv_spec F62_ops F62_laws _ _ _ _ _ _ _ _ _ (f62_x3_correct F62_ops F62_laws)
           f62_frob3_consts f62_fix_det f62_cubic_no_root).
Qed.

(* conjugation is a field automorphism of order 3 fixing exactly the base field (f64 / f62 cubic) *)
Theorem f64_cube_conj_automorphism :
  (forall a b, f64_ext3_frobenius F64_ops (f64_ext3_mul F64_ops a b) =
               f64_ext3_mul F64_ops (f64_ext3_frobenius F64_ops a) (f64_ext3_frobenius F64_ops b)) /\
  (forall a, f64_ext3_frobenius F64_ops (f64_ext3_frobenius F64_ops (f64_ext3_frobenius F64_ops a)) = a) /\
  (forall a, f64_ext3_frobenius F64_ops a = a <-> (c1 a = fzero F64_ops /\ c2 a = fzero F64_ops)).
Proof.
  exact (c_conj_automorphism F64_ops F64_laws _ _ _ _ _ _ _ _ _ (f64_x3_correct F64_ops F64_laws) f64_frob3_consts f64_fix_det).
Qed.
Theorem f62_cube_conj_automorphism :
  (forall a b, f62_ext3_frobenius F62_ops (f62_ext3_mul F62_ops a b) =
               f62_ext3_mul F62_ops (f62_ext3_frobenius F62_ops a) (f62_ext3_frobenius F62_ops b)) /\
  (forall a, f62_ext3_frobenius F62_ops (f62_ext3_frobenius F62_ops (f62_ext3_frobenius F62_ops a)) = a) /\
  (forall a, f62_ext3_frobenius F62_ops a = a <-> (c1 a = fzero F62_ops /\ c2 a = fzero F62_ops)).
Proof.
  exact (c_conj_automorphism F62_ops F62_laws _ _ _ _ _ _ _ _ _ (f62_x3_correct F62_ops F62_laws) f62_frob3_consts f62_fix_det).
Qed.
Theorem f64_cube_norm_in_base : forall a,
  c1 (c_norm (f64_x3 F64_ops) a) = fzero F64_ops /\ c2 (c_norm (f64_x3 F64_ops) a) = fzero F64_ops.
Proof. exact (c_norm_in_base F64_ops F64_laws _ _ _ _ _ _ _ _ _ (f64_x3_correct F64_ops F64_laws) f64_frob3_consts f64_fix_det). Qed.
Theorem f62_cube_norm_in_base : forall a,
  c1 (c_norm (f62_x3 F62_ops) a) = fzero F62_ops /\ c2 (c_norm (f62_x3 F62_ops) a) = fzero F62_ops.
Proof. exact (c_norm_in_base F62_ops F62_laws _ _ _ _ _ _ _ _ _ (f62_x3_correct F62_ops F62_laws) f62_frob3_consts f62_fix_det). Qed.
Theorem f64_cube_no_zero_div : forall a b, f64_ext3_mul F64_ops a b = c_zero F64_ops -> a = c_zero F64_ops \/ b = c_zero F64_ops.
Proof. exact (c_no_zero_div F64_ops F64_laws _ _ _ _ _ _ _ _ _ (f64_x3_correct F64_ops F64_laws) f64_cubic_no_root). Qed.
Theorem f62_cube_no_zero_div : forall a b, f62_ext3_mul F62_ops a b = c_zero F62_ops -> a = c_zero F62_ops \/ b = c_zero F62_ops.
Proof. exact (c_no_zero_div F62_ops F62_laws _ _ _ _ _ _ _ _ _ (f62_x3_correct F62_ops F62_laws) f62_cubic_no_root). Qed.

(* ------------------------------------------------------------------ bundles used by Props/C08.v *)
Theorem frob_consts_all :
  (c_exp F64_ops (f64_x3 F64_ops) (phi F64_ops) P64 = f64_ext3_frobenius F64_ops (phi F64_ops) /\
   c_exp F64_ops (f64_x3 F64_ops) (phi2 F64_ops) P64 = f64_ext3_frobenius F64_ops (phi2 F64_ops)) /\
  (c_exp F62_ops (f62_x3 F62_ops) (phi F62_ops) P62 = f62_ext3_frobenius F62_ops (phi F62_ops) /\
   c_exp F62_ops (f62_x3 F62_ops) (phi2 F62_ops) P62 = f62_ext3_frobenius F62_ops (phi2 F62_ops)) /\
  q_exp F64_ops (f64_x2 F64_ops) (fzero F64_ops, fone F64_ops) P64 = f64_ext2_frobenius F64_ops (fzero F64_ops, fone F64_ops) /\
  q_exp F62_ops (f62_x2 F62_ops) (fzero F62_ops, fone F62_ops) P62 = f62_ext2_frobenius F62_ops (fzero F62_ops, fone F62_ops) /\
  q_exp F128_ops (f128_x2 F128_ops) (fzero F128_ops, fone F128_ops) P128 = f128_ext2_frobenius F128_ops (fzero F128_ops, fone F128_ops).
Proof.
  split; [split; apply val3_inj; vm_compute; reflexivity|].
  split; [split; apply val3_inj; vm_compute; reflexivity|].
  exact (conj f64_frob2_consts_spec (conj f62_frob2_consts_spec f128_frob2_consts_spec)).
Qed.

Theorem executable_instance_agrees :
  (forall a b, val2 (f64_ext2_mul F64_ops a b) = f64_ext2_mul (zp_ops P64) (val2 a) (val2 b)) /\
  (forall a, val2 (f64_ext2_square F64_ops a) = f64_ext2_square (zp_ops P64) (val2 a)) /\
  (forall a, val2 (f64_ext2_frobenius F64_ops a) = f64_ext2_frobenius (zp_ops P64) (val2 a)) /\
  (forall a b, val3 (f64_ext3_mul F64_ops a b) = f64_ext3_mul (zp_ops P64) (val3 a) (val3 b)) /\
  (forall a, val3 (f64_ext3_square F64_ops a) = f64_ext3_square (zp_ops P64) (val3 a)) /\
  (forall a, val3 (f64_ext3_frobenius F64_ops a) = f64_ext3_frobenius (zp_ops P64) (val3 a)) /\
  (forall a b, val2 (f62_ext2_mul F62_ops a b) = f62_ext2_mul (zp_ops P62) (val2 a) (val2 b)) /\
  (forall a, val2 (f62_ext2_frobenius F62_ops a) = f62_ext2_frobenius (zp_ops P62) (val2 a)) /\
  (forall a b, val3 (f62_ext3_mul F62_ops a b) = f62_ext3_mul (zp_ops P62) (val3 a) (val3 b)) /\
  (forall a, val3 (f62_ext3_frobenius F62_ops a) = f62_ext3_frobenius (zp_ops P62) (val3 a)) /\
  (forall a b, val2 (f128_ext2_mul F128_ops a b) = f128_ext2_mul (zp_ops P128) (val2 a) (val2 b)) /\
  (forall a, val2 (f128_ext2_frobenius F128_ops a) = f128_ext2_frobenius (zp_ops P128) (val2 a)) /\
  (forall dbg a, oval2 (q_inv F64_ops (f64_x2 F64_ops) dbg a) = q_inv (zp_ops P64) (f64_x2 (zp_ops P64)) dbg (val2 a)) /\
  (forall dbg a, oval3 (c_inv F64_ops (f64_x3 F64_ops) dbg a) = c_inv (zp_ops P64) (f64_x3 (zp_ops P64)) dbg (val3 a)).
Proof.
  exact (conj f64_ext2_mul_val (conj f64_ext2_square_val (conj f64_ext2_frob_val (conj f64_ext3_mul_val
        (conj f64_ext3_square_val (conj f64_ext3_frob_val (conj f62_ext2_mul_val (conj f62_ext2_frob_val
        (conj f62_ext3_mul_val (conj f62_ext3_frob_val (conj f128_ext2_mul_val (conj f128_ext2_frob_val
        (conj f64_q_inv_val f64_c_inv_val))))))))))))).
Qed.

(* ------------------------------------------------------------------ the same, stated on the EXECUTABLE instance
   (plain Z, `zp_ops p`, canonical residues): exactly the functions the correspondence driver runs *)
Definition mkzp (p x : Z) (H : 0 <= x < p) : Zp p := exist _ x (proj2 (zp_canon_iff p x) H).

Ltac exec2 spec invval mulval :=
  let dbg := fresh "dbg" in let a0 := fresh "a0" in let a1 := fresh "a1" in
  let H0 := fresh "H0" in let H1 := fresh "H1" in let Hne := fresh "Hne" in
  intros dbg a0 a1 H0 H1 Hne;
  match goal with |- context [zp_ops ?p] =>
    destruct (spec dbg (mkzp p a0 H0, mkzp p a1 H1)) as (ia & E & M);
    [ intros Ea; apply Hne; apply (f_equal val2) in Ea; exact Ea
    | exists (val2 ia); split;
      [ pose proof (invval dbg (mkzp p a0 H0, mkzp p a1 H1)) as V; rewrite E in V; symmetry; exact V
      | pose proof (mulval (mkzp p a0 H0, mkzp p a1 H1) ia) as W; rewrite M in W; symmetry; exact W ] ]
  end.
Ltac exec3 spec invval mulval :=
  let dbg := fresh "dbg" in let a0 := fresh "a0" in let a1 := fresh "a1" in let a2 := fresh "a2" in
  let H0 := fresh "H0" in let H1 := fresh "H1" in let H2 := fresh "H2" in let Hne := fresh "Hne" in
  intros dbg a0 a1 a2 H0 H1 H2 Hne;
  match goal with |- context [zp_ops ?p] =>
    destruct (spec dbg (mkzp p a0 H0, mkzp p a1 H1, mkzp p a2 H2)) as (ia & E & M);
    [ intros Ea; apply Hne; apply (f_equal val3) in Ea; exact Ea
    | exists (val3 ia); split;
      [ pose proof (invval dbg (mkzp p a0 H0, mkzp p a1 H1, mkzp p a2 H2)) as V; rewrite E in V; symmetry; exact V
      | pose proof (mulval (mkzp p a0 H0, mkzp p a1 H1, mkzp p a2 H2) ia) as W; rewrite M in W; symmetry; exact W ] ]
  end.

Theorem f64_quad_inv_exec : forall dbg a0 a1, 0 <= a0 < P64 -> 0 <= a1 < P64 -> (a0, a1) <> (0, 0) ->
  exists ia, q_inv (zp_ops P64) (f64_x2 (zp_ops P64)) dbg (a0, a1) = Some ia /\
             f64_ext2_mul (zp_ops P64) (a0, a1) ia = (1, 0).
Proof. exec2 f64_quad_inv_spec f64_q_inv_val f64_ext2_mul_val. Qed.
Theorem f62_quad_inv_exec : forall dbg a0 a1, 0 <= a0 < P62 -> 0 <= a1 < P62 -> (a0, a1) <> (0, 0) ->
  exists ia, q_inv (zp_ops P62) (f62_x2 (zp_ops P62)) dbg (a0, a1) = Some ia /\
             f62_ext2_mul (zp_ops P62) (a0, a1) ia = (1, 0).
Proof. exec2 f62_quad_inv_spec f62_q_inv_val f62_ext2_mul_val. Qed.
Theorem f128_quad_inv_exec : forall dbg a0 a1, 0 <= a0 < P128 -> 0 <= a1 < P128 -> (a0, a1) <> (0, 0) ->
  exists ia, q_inv (zp_ops P128) (f128_x2 (zp_ops P128)) dbg (a0, a1) = Some ia /\
             f128_ext2_mul (zp_ops P128) (a0, a1) ia = (1, 0).
Proof. exec2 f128_quad_inv_spec f128_q_inv_val f128_ext2_mul_val. Qed.
Theorem f64_cube_inv_exec : forall dbg a0 a1 a2, 0 <= a0 < P64 -> 0 <= a1 < P64 -> 0 <= a2 < P64 -> (a0, a1, a2) <> (0, 0, 0) ->
  exists ia, c_inv (zp_ops P64) (f64_x3 (zp_ops P64)) dbg (a0, a1, a2) = Some ia /\
             f64_ext3_mul (zp_ops P64) (a0, a1, a2) ia = (1, 0, 0).
Proof. exec3 f64_cube_inv_spec f64_c_inv_val f64_ext3_mul_val. Qed.
Theorem f62_cube_inv_exec : forall dbg a0 a1 a2, 0 <= a0 < P62 -> 0 <= a1 < P62 -> 0 <= a2 < P62 -> (a0, a1, a2) <> (0, 0, 0) ->
  exists ia, c_inv (zp_ops P62) (f62_x3 (zp_ops P62)) dbg (a0, a1, a2) = Some ia /\
             f62_ext3_mul (zp_ops P62) (a0, a1, a2) ia = (1, 0, 0).
Proof. exec3 f62_cube_inv_spec f62_c_inv_val f62_ext3_mul_val. Qed.

(* ------------------------------------------------------------------ the five extension fields are fields (FLaws) *)
Theorem f64_quad_laws : FLaws (q_ops F64_ops (f64_x2 F64_ops)).
Proof. exact (q_laws F64_ops F64_laws _ _ (f64_x2_correct F64_ops F64_laws) f64_disc_nonsquare). Qed.
Theorem f62_quad_laws : FLaws (q_ops F62_ops (f62_x2 F62_ops)).
Proof. exact (q_laws F62_ops F62_laws _ _ (f62_x2_correct F62_ops F62_laws) f62_disc_nonsquare). Qed.
Theorem f128_quad_laws : FLaws (q_ops F128_ops (f128_x2 F128_ops)).
Proof. exact (q_laws F128_ops F128_laws _ _ (f128_x2_correct F128_ops F128_laws) f128_disc_nonsquare). Qed.
Theorem f64_cube_laws : FLaws (c_ops F64_ops (f64_x3 F64_ops)).
Proof.
  exact (c_laws F64_ops F64_laws _ _ _ _ _ _ _ _ _ (f64_x3_correct F64_ops F64_laws) f64_frob3_consts f64_fix_det f64_cubic_no_root).
Qed.
Theorem f62_cube_laws : FLaws (c_ops F62_ops (f62_x3 F62_ops)).
Proof.
  exact (c_laws F62_ops F62_laws _ _ _ _ _ _ _ _ _ (f62_x3_correct F62_ops F62_laws) f62_frob3_consts f62_fix_det f62_cubic_no_root).
Qed.
