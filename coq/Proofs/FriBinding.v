(* C05 — binding of the opened FRI layer values: two openings of the same commitment at the same indexes that
   differ in a value yield an explicit collision — of hash_elements (two different rows with the same digest,
   found by [find_row_collision]) or of the Merkle authentication function.  The latter is a Section hypothesis
   about the abstract authentication function (the batch-proof binding theorem of C10 is not available yet;
   C10 proves the single-path version, Props/C10.v C10_single_binding).  stdlib style. *)
From Coq Require Import List Arith Bool Lia.
From VBase Require Import FieldOps.
From VModel Require Import Fri.
From VProofs Require Import FriAccept.
Import ListNotations.

Section Binding.
Context {F : Type} (O : FOps F) (L : FLaws O).
Variable D : Type.
Variable hash_elements : list F -> D.
Variable MN : Type.
Variable mt_verify_batch : D -> list nat -> list D -> MN -> nat -> auth_res.

(* Merkle binding, stated for the abstract authentication function: two batch openings of the same root at the
   same indexes, of the SAME depth d >= 1 and with the same number of leaves, claim the same leaves, or an explicit
   collision is computed.  (For independent depths the statement is false of a Merkle tree: an internal node can be
   presented as a leaf of a shallower tree; in FRI the depth is fixed by the verifier: it is log2 of the layer's
   domain size, see [parse_layer_leaves].)  The index lists are `list nat`, so the usize guard of
   C10_batch_binding_two holds by construction.  Discharged for the Merkle model of C10 in Proofs/FriMerkleInst.v. *)
Variable coll : Type.
Variable find_merkle_collision : D -> list nat -> list D * MN * nat -> list D * MN * nat -> option coll.
Variable is_merkle_collision : coll -> Prop.
Hypothesis merkle_binding : forall root indexes l1 n1 l2 n2 d,
  1 <= d ->
  mt_verify_batch root indexes l1 n1 d = AuthOk -> mt_verify_batch root indexes l2 n2 d = AuthOk ->
  length l1 = length l2 ->
  l1 = l2 \/ exists c, find_merkle_collision root indexes (l1, n1, d) (l2, n2, d) = Some c /\ is_merkle_collision c.

(* first pair of different rows *)
Fixpoint find_row_collision (rows1 rows2 : list (list F)) : option (list F * list F) :=
  match rows1, rows2 with
  | r1 :: t1, r2 :: t2 => if list_feqb O r1 r2 then find_row_collision t1 t2 else Some (r1, r2)
  | _, _ => None
  end.

Lemma rows_binding : forall rows1 rows2, length rows1 = length rows2 ->
  map hash_elements rows1 = map hash_elements rows2 ->
  rows1 = rows2 \/
  exists r1 r2, find_row_collision rows1 rows2 = Some (r1, r2) /\ r1 <> r2 /\ hash_elements r1 = hash_elements r2.
Proof.
  induction rows1 as [|r1 t1 IH]; destruct rows2 as [|r2 t2]; cbn; try discriminate; [auto|].
  intros [= Hl] [= Hh Ht].
  destruct (list_feqb O r1 r2) eqn:E.
  - apply (list_feqb_spec O L) in E. subst r2.
    destruct (IH t2 Hl Ht) as [->|H]; [left; reflexivity | right; exact H].
  - right. exists r1, r2. split; [reflexivity|]. split; [|assumption].
    intros ->. rewrite (proj2 (list_feqb_spec O L _ _) eq_refl) in E. discriminate.
Qed.

(* FriProofLayer::parse recomputes the leaves of the batch proof from the opened values *)
Lemma parse_layer_leaves N ds pl q leaves nodes d :
  parse_layer D hash_elements MN N ds pl = Some (Some (q, (leaves, nodes, d))) ->
  q = pl_values pl /\ nodes = pl_nodes pl /\
  leaves = map hash_elements (chunks (length (pl_values pl)) N (pl_values pl)) /\
  group_slice N q = Ok (chunks (length (pl_values pl)) N (pl_values pl)) /\
  (* the depth at which the opening is checked is fixed by the layer's domain size *)
  d = Nat.log2 ds /\ 1 <= d.
Proof.
  unfold parse_layer, group_slice.
  destruct (N =? 0); [discriminate|].
  destruct (length (pl_values pl) mod N =? 0) eqn:Em; cbn [negb]; [|discriminate].
  destruct (length (pl_values pl) / N =? 0); [discriminate|].
  destruct (ds =? 0); [discriminate|].
  destruct (Nat.log2 ds =? 0) eqn:Ed; [discriminate|].
  destruct (255 <? _); [discriminate|].
  intros [= <- <- <- <-]. rewrite Em. cbn. apply Nat.eqb_neq in Ed. repeat split; auto. lia.
Qed.

(* fri_binding: two decoded proof layers, both parsed by the channel, both authenticating against the same layer
   commitment at the same indexes, opening the same number of rows: the opened rows are identical, or
   [find_row_collision] returns two different rows with the same digest, or a Merkle collision is exhibited *)
Theorem fri_binding : forall N ds pl1 pl2 q1 q2 l1 l2 n1 n2 d1 d2 commitment indexes,
  parse_layer D hash_elements MN N ds pl1 = Some (Some (q1, (l1, n1, d1))) ->
  parse_layer D hash_elements MN N ds pl2 = Some (Some (q2, (l2, n2, d2))) ->
  mt_verify_batch commitment indexes l1 n1 d1 = AuthOk ->
  mt_verify_batch commitment indexes l2 n2 d2 = AuthOk ->
  length l1 = length l2 ->
  exists rows1 rows2, group_slice N q1 = Ok rows1 /\ group_slice N q2 = Ok rows2 /\
    (rows1 = rows2 \/
     (exists r1 r2, find_row_collision rows1 rows2 = Some (r1, r2) /\ r1 <> r2 /\ hash_elements r1 = hash_elements r2) \/
     (exists c, find_merkle_collision commitment indexes (l1, n1, d1) (l2, n2, d2) = Some c /\ is_merkle_collision c)).
Proof.
  intros N ds pl1 pl2 q1 q2 l1 l2 n1 n2 d1 d2 commitment indexes P1 P2 A1 A2 Hlen.
  apply parse_layer_leaves in P1. destruct P1 as [-> [-> [-> [G1 [-> Hd]]]]].
  apply parse_layer_leaves in P2. destruct P2 as [-> [-> [-> [G2 [-> _]]]]].
  eexists. eexists. split; [exact G1|]. split; [exact G2|].
  destruct (merkle_binding _ _ _ _ _ _ _ Hd A1 A2 Hlen) as [E|C].
  - rewrite !map_length in Hlen. destruct (rows_binding _ _ Hlen E) as [R|R]; auto.
  - right. right. exact C.
Qed.

End Binding.
