(* Fermat's little theorem over Z (Znumtheory.prime), by the classical permutation argument:
   x |-> a*x mod p permutes [1..p-1], so (p-1)! = a^(p-1) (p-1)! (mod p).
   Also: zpow_mod (Base/ZpOps.v) computes a^e mod p, and the closed forms for zp_inv.
   stdlib only, no axioms. *)
From Coq Require Import ZArith Znumtheory Zpow_facts Lia List Permutation.
From VBase Require Import FieldOps ZpOps.
Open Scope Z_scope.

(* ---------- products of lists ---------- *)

Definition zprod (l : list Z) : Z := fold_right Z.mul 1 l.

Lemma zprod_perm : forall l l', Permutation l l' -> zprod l = zprod l'.
Proof.
  induction 1 as [|x l l' _ IH|x y l|l l' l'' _ IH1 _ IH2].
  - reflexivity.
  - change (x * zprod l = x * zprod l'). now rewrite IH.
  - change (y * (x * zprod l) = x * (y * zprod l)). ring.
  - now rewrite IH1.
Qed.

Lemma zprod_map_mul_mod : forall a p l, 0 < p ->
  zprod (map (fun x => (a * x) mod p) l) mod p
  = (a ^ Z.of_nat (length l) * zprod l) mod p.
Proof.
  intros a p l Hp. induction l as [|x l IH].
  - reflexivity.
  - cbn [map zprod fold_right length]. fold (zprod (map (fun x => (a * x) mod p) l)).
    fold (zprod l).
    rewrite Nat2Z.inj_succ, Z.pow_succ_r by lia.
    rewrite Z.mul_mod_idemp_l by lia.
    rewrite <- Z.mul_mod_idemp_r by lia. rewrite IH.
    rewrite Z.mul_mod_idemp_r by lia. f_equal. ring.
Qed.

Lemma zprod_rel_prime : forall p l,
  (forall x, In x l -> rel_prime p x) -> rel_prime p (zprod l).
Proof.
  intros p l. induction l as [|x l IH]; intros H.
  - cbn. apply rel_prime_sym, rel_prime_1.
  - cbn [zprod fold_right]. apply rel_prime_mult.
    + apply H; left; reflexivity.
    + apply IH. intros y Hy. apply H; right; exact Hy.
Qed.

(* ---------- the list [1..n] in Z ---------- *)

Definition zrange1 (n : nat) : list Z := map Z.of_nat (seq 1 n).

Lemma zrange1_In : forall n x, In x (zrange1 n) <-> 1 <= x <= Z.of_nat n.
Proof.
  intros n x. unfold zrange1. rewrite in_map_iff. split.
  - intros [k [<- Hk]]. apply in_seq in Hk. lia.
  - intros H. exists (Z.to_nat x). split; [lia|]. apply in_seq. lia.
Qed.

Lemma zrange1_length : forall n, length (zrange1 n) = n.
Proof. intros. unfold zrange1. now rewrite map_length, seq_length. Qed.

Lemma NoDup_map_in : forall (A B : Type) (f : A -> B) (l : list A),
  (forall x y, In x l -> In y l -> f x = f y -> x = y) -> NoDup l -> NoDup (map f l).
Proof.
  intros A B f l. induction l as [|x l IH]; intros Hinj Hnd.
  - constructor.
  - inversion Hnd as [|? ? Hx Hl]; subst. cbn [map]. constructor.
    + intros Hin. apply in_map_iff in Hin. destruct Hin as [y [Hy Hiny]].
      assert (y = x) by (apply Hinj; [right; exact Hiny|left; reflexivity|exact Hy]).
      subst. contradiction.
    + apply IH; [|exact Hl]. intros a b Ha Hb. apply Hinj; right; assumption.
Qed.

Lemma zrange1_NoDup : forall n, NoDup (zrange1 n).
Proof.
  intros n. unfold zrange1. apply NoDup_map_in; [|apply seq_NoDup].
  intros x y _ _ H. lia.
Qed.

(* ---------- basic facts about a prime modulus ---------- *)

Lemma prime_gt1 : forall p, prime p -> 1 < p.
Proof. intros p H. apply prime_ge_2 in H. lia. Qed.

Lemma prime_not_div_small : forall p x, 0 < p -> 0 < x < p -> ~ (p | x).
Proof.
  intros p x Hp Hx [k Hk]. subst x.
  assert (Hc : k <= 0 \/ 1 <= k) by lia. destruct Hc; nia.
Qed.

Lemma prime_mod_neq0_rel_prime : forall p a, prime p -> a mod p <> 0 -> rel_prime p a.
Proof.
  intros p a Hp Ha. apply prime_rel_prime; [exact Hp|].
  intros Hd. apply Ha. apply Z.mod_divide; [apply prime_gt1 in Hp; lia|exact Hd].
Qed.

(* ---------- Fermat ---------- *)

Lemma fermat_pm1 : forall p a, prime p -> a mod p <> 0 -> a ^ (p - 1) mod p = 1.
Proof.
  intros p a Hp Ha.
  assert (Hp1 : 1 < p) by (apply prime_gt1; exact Hp).
  assert (Hrel : rel_prime p a) by (apply prime_mod_neq0_rel_prime; assumption).
  set (n := Z.to_nat (p - 1)).
  set (l := zrange1 n).
  set (l' := map (fun x => (a * x) mod p) l).
  assert (Hin : forall x, In x l <-> 0 < x < p).
  { intros x. unfold l. rewrite zrange1_In. unfold n. lia. }
  assert (Hperm : Permutation l' l).
  { apply NoDup_Permutation_bis.
    - unfold l'. apply NoDup_map_in; [|apply zrange1_NoDup].
      intros x y Hx Hy Hxy. apply Hin in Hx. apply Hin in Hy.
      assert (Hd : (p | a * (x - y))).
      { apply Z.mod_divide; [lia|].
        replace (a * (x - y)) with (a * x - a * y) by ring.
        rewrite Zminus_mod, Hxy, Z.sub_diag. apply Z.mod_0_l. lia. }
      apply Gauss in Hd; [|exact Hrel]. destruct Hd as [k Hk].
      assert (Hc : k <= -1 \/ k = 0 \/ 1 <= k) by lia. destruct Hc as [Hc|[Hc|Hc]]; nia.
    - unfold l'. rewrite map_length. lia.
    - intros y Hy. unfold l' in Hy. apply in_map_iff in Hy. destruct Hy as [x [<- Hx]].
      apply Hin in Hx. apply Hin.
      assert (Hb := Z.mod_pos_bound (a * x) p ltac:(lia)).
      assert ((a * x) mod p <> 0); [|lia].
      intros H0. apply Z.mod_divide in H0; [|lia].
      apply prime_mult in H0; [|exact Hp]. destruct H0 as [H0|H0].
      + apply Ha. apply Z.mod_divide; [lia|exact H0].
      + revert H0. apply prime_not_div_small; lia. }
  assert (Hprod : zprod l mod p = (a ^ (p - 1) * zprod l) mod p).
  { transitivity (zprod l' mod p); [now rewrite (zprod_perm _ _ Hperm)|]. unfold l'.
    rewrite zprod_map_mul_mod by lia. unfold l. rewrite zrange1_length.
    unfold n. rewrite Z2Nat.id by lia. reflexivity. }
  assert (Hd : (p | zprod l * (a ^ (p - 1) - 1))).
  { apply Z.mod_divide; [lia|].
    replace (zprod l * (a ^ (p - 1) - 1)) with (a ^ (p - 1) * zprod l - zprod l) by ring.
    rewrite Zminus_mod, <- Hprod, Z.sub_diag. apply Z.mod_0_l. lia. }
  apply Gauss in Hd.
  - destruct Hd as [k Hk].
    replace (a ^ (p - 1)) with (1 + k * p) by lia.
    rewrite Z.mod_add by lia. apply Z.mod_small. lia.
  - apply zprod_rel_prime. intros x Hx. apply Hin in Hx.
    apply prime_rel_prime; [exact Hp|]. apply prime_not_div_small; lia.
Qed.

Theorem fermat_little_Z : forall p a, Znumtheory.prime p -> (a ^ p) mod p = a mod p.
Proof.
  intros p a Hp.
  assert (Hp1 : 1 < p) by (apply prime_gt1; exact Hp).
  destruct (Z.eq_dec (a mod p) 0) as [H0|H0].
  - rewrite Zpower_mod, H0 by lia. rewrite Z.pow_0_l by lia. apply Z.mod_0_l. lia.
  - replace p with (Z.succ (p - 1)) at 1 by lia.
    rewrite Z.pow_succ_r by lia.
    rewrite <- Z.mul_mod_idemp_r, fermat_pm1 by (assumption || lia).
    now rewrite Z.mul_1_r.
Qed.

Corollary fermat_inv_Z : forall p a, Znumtheory.prime p -> a mod p <> 0 ->
  (a * a ^ (p - 2)) mod p = 1.
Proof.
  intros p a Hp Ha.
  assert (Hp1 : 1 < p) by (apply prime_gt1; exact Hp).
  rewrite <- Z.pow_succ_r by lia.
  replace (Z.succ (p - 2)) with (p - 1) by lia.
  apply fermat_pm1; assumption.
Qed.

(* ---------- zpow_mod computes modular powers ---------- *)

Lemma zpow_mod_pos_spec : forall p a e, 0 < p -> zpow_mod_pos p a e = (a ^ Zpos e) mod p.
Proof.
  intros p a e Hp. induction e as [e IH|e IH|]; cbn [zpow_mod_pos]; cbv zeta.
  - rewrite IH. rewrite Pos2Z.inj_xI.
    rewrite Z.pow_add_r, Z.pow_1_r, Z.pow_twice_r by lia.
    rewrite <- Z.mul_mod by lia.
    now rewrite Z.mul_mod_idemp_l by lia.
  - rewrite IH. rewrite Pos2Z.inj_xO, Z.pow_twice_r.
    now rewrite <- Z.mul_mod by lia.
  - now rewrite Z.pow_1_r.
Qed.

Lemma zpow_mod_spec : forall p a e, 0 < p -> 0 <= e -> zpow_mod p a e = (a ^ e) mod p.
Proof.
  intros p a e Hp He. destruct e as [|e|e]; cbn [zpow_mod].
  - reflexivity.
  - apply zpow_mod_pos_spec; exact Hp.
  - lia.
Qed.

Lemma zpow_mod_range : forall p a e, 0 < p -> 0 <= zpow_mod p a e < p.
Proof.
  intros p a e Hp. destruct e as [|e|e]; cbn [zpow_mod]; try (apply Z.mod_pos_bound; lia).
  destruct e; cbn [zpow_mod_pos]; cbv zeta; apply Z.mod_pos_bound; lia.
Qed.

(* ---------- closed forms for the inverse of Base/ZpOps.v ---------- *)

Lemma zp_inv_range : forall p a, 0 < p -> 0 <= zp_inv p a < p.
Proof. intros. apply zpow_mod_range; assumption. Qed.

Lemma zp_inv_spec : forall p a, prime p -> 0 <= a < p -> a <> 0 -> (zp_inv p a * a) mod p = 1.
Proof.
  intros p a Hp Ha Ha0.
  assert (Hp1 : 1 < p) by (apply prime_gt1; exact Hp).
  unfold zp_inv. rewrite zpow_mod_spec by lia.
  rewrite Z.mul_mod_idemp_l by lia. rewrite Z.mul_comm.
  apply fermat_inv_Z; [exact Hp|]. rewrite Z.mod_small; lia.
Qed.

(* general form: any representative, not only the canonical one *)
Lemma zp_inv_spec_mod : forall p a, prime p -> a mod p <> 0 -> (zp_inv p a * a) mod p = 1.
Proof.
  intros p a Hp Ha.
  assert (Hp1 : 1 < p) by (apply prime_gt1; exact Hp).
  unfold zp_inv. rewrite zpow_mod_spec by lia.
  rewrite Z.mul_mod_idemp_l by lia. rewrite Z.mul_comm.
  apply fermat_inv_Z; assumption.
Qed.

Lemma zp_inv_0 : forall p, 2 < p -> zp_inv p 0 = 0.
Proof.
  intros p Hp. unfold zp_inv. rewrite zpow_mod_spec by lia.
  rewrite Z.pow_0_l by lia. apply Z.mod_0_l. lia.
Qed.

(* p = 2 is the one prime where zp_inv p 0 <> 0 (a^(p-2) = a^0 = 1). *)
Example zp_inv_0_at_2 : zp_inv 2 0 = 1.
Proof. reflexivity. Qed.

Print Assumptions fermat_little_Z.
Print Assumptions fermat_inv_Z.
Print Assumptions zpow_mod_spec.
Print Assumptions zp_inv_spec.
Print Assumptions zp_inv_0.
