(* Proofs/CodecPrim.v — round-trip lemmas for the primitive codecs, vint64 and the generic combinators
   (stdlib style: lia / induction).  Property C12. *)
From VBase Require Import MachInt.
From Coq Require Import Znumtheory.
From VModel Require Import Codec.
Open Scope Z_scope.

(* ------------------------------------------------------------------------------------------ generic *)
(* round trip of a codec: decoding returns the value AND exactly the bytes that follow the encoding *)
Definition RT {A} (w : A -> bytes) (r : Rd A) (wf : A -> Prop) : Prop :=
  forall v rest, wf v -> r (w v ++ rest) = Ok (v, rest).

Lemma bind_ok {A B} (r : Rd A) (f : A -> Rd B) bs a bs' :
  r bs = Ok (a, bs') -> bind r f bs = f a bs'.
Proof. intros H. unfold bind. now rewrite H. Qed.

Lemma ret_ok {A} (a : A) bs : ret a bs = Ok (a, bs).
Proof. reflexivity. Qed.

Lemma len_app a b : len (a ++ b) = len a + len b.
Proof. unfold len. rewrite app_length. lia. Qed.

Lemma len_nonneg a : 0 <= len a.
Proof. unfold len. lia. Qed.

(* ------------------------------------------------------------------------------------- byte source *)
Lemma take_app a rest : take (length a) (a ++ rest) = Some (a, rest).
Proof. induction a as [|x a IH]; cbn [take length app]; [reflexivity | now rewrite IH]. Qed.

Lemma take_length n bs h t : take n bs = Some (h, t) -> bs = h ++ t /\ length h = n.
Proof.
  revert bs h t. induction n as [|n IH]; intros bs h t H; cbn [take] in H.
  - inversion H. subst. auto.
  - destruct bs as [|b r]; [discriminate|].
    destruct (take n r) as [[h' t']|] eqn:E; [|discriminate].
    inversion H. subst. destruct (IH _ _ _ E) as [-> <-]. auto.
Qed.

Lemma read_array_app a rest : read_array (length a) (a ++ rest) = Ok (a, rest).
Proof. unfold read_array. now rewrite take_app. Qed.

Lemma read_slice_app a rest : read_slice (len a) (a ++ rest) = Ok (a, rest).
Proof.
  unfold read_slice. rewrite len_app.
  pose proof (len_nonneg rest).
  destruct (Z.leb_spec (len a) (len a + len rest)); [|lia].
  unfold len at 1. rewrite Nat2Z.id. apply read_array_app.
Qed.

Lemma read_slice_app' a n rest : len a = n -> read_slice n (a ++ rest) = Ok (a, rest).
Proof. intros <-. apply read_slice_app. Qed.

Lemma read_u8_app b rest : read_u8 (write_u8 b ++ rest) = Ok (b, rest).
Proof. reflexivity. Qed.

(* --------------------------------------------------------------------------------- fixed-width ints *)
Lemma rt_uint k x rest : 0 <= x < 256 ^ Z.of_nat k -> read_uint k (write_uint k x ++ rest) = Ok (x, rest).
Proof.
  intros Hx. unfold read_uint, write_uint.
  rewrite (bind_ok _ _ _ (to_le_bytes k x) rest).
  - unfold ret. now rewrite of_to_le_bytes.
  - rewrite <- (to_le_bytes_length k x) at 1. apply read_array_app.
Qed.

Lemma rt_u8 : RT write_u8 read_u8 (fun _ => True).
Proof. intros v rest _. reflexivity. Qed.
Lemma rt_u16 : RT write_u16 read_u16 (fun x => 0 <= x < 2 ^ 16).
Proof. intros v rest H. apply rt_uint. exact H. Qed.
Lemma rt_u32 : RT write_u32 read_u32 (fun x => 0 <= x < 2 ^ 32).
Proof. intros v rest H. apply rt_uint. exact H. Qed.
Lemma rt_u64 : RT write_u64 read_u64 (fun x => 0 <= x < 2 ^ 64).
Proof. intros v rest H. apply rt_uint. exact H. Qed.
Lemma rt_u128 : RT write_u128 read_u128 (fun x => 0 <= x < 2 ^ 128).
Proof. intros v rest H. apply rt_uint. exact H. Qed.

Lemma rt_bool : RT write_bool read_bool (fun _ => True).
Proof. intros [|] rest _; reflexivity. Qed.

Lemma write_uint_length k x : length (write_uint k x) = k.
Proof. apply to_le_bytes_length. Qed.

(* ------------------------------------------------------------------------------------------ vint64 *)
Lemma zrange_In lo hi x : lo <= hi -> In x (zrange lo hi) <-> lo <= x < hi.
Proof.
  intros Hle. unfold zrange. rewrite in_map_iff. split.
  - intros [i [<- Hi]]. apply in_seq in Hi. lia.
  - intros Hx. exists (Z.to_nat (x - lo)). split; [lia|]. apply in_seq. lia.
Qed.

(* trailing zeros of a byte, characterised by a residue: checked exhaustively over 256 x 8 cases *)
Lemma ctz8_char b k : 0 <= b < 256 -> 0 <= k < 8 -> b mod 2 ^ (k + 1) = 2 ^ k -> ctz 8 b = k.
Proof.
  assert (H : forallb (fun b => forallb (fun k => implb (b mod 2 ^ (k + 1) =? 2 ^ k) (ctz 8 b =? k))
                                        (zrange 0 8)) (zrange 0 256) = true) by (vm_compute; reflexivity).
  intros Hb Hk E. rewrite forallb_forall in H.
  specialize (H b (proj2 (zrange_In 0 256 b ltac:(lia)) Hb)).
  rewrite forallb_forall in H.
  specialize (H k (proj2 (zrange_In 0 8 k ltac:(lia)) Hk)).
  apply Z.eqb_eq in E. rewrite E in H. cbn [implb] in H. now apply Z.eqb_eq.
Qed.

Lemma lor_2x_1 v : 0 <= v -> Z.lor (2 * v) 1 = 2 * v + 1.
Proof.
  intros _. apply Z.bits_inj'. intros n Hn. rewrite Z.lor_spec.
  destruct (Z.eq_dec n 0) as [-> | Hne].
  - rewrite Z.testbit_even_0, Z.testbit_odd_0. reflexivity.
  - replace n with (Z.succ (n - 1)) by lia.
    rewrite Z.testbit_even_succ, Z.testbit_odd_succ by lia.
    replace (Z.testbit 1 (Z.succ (n - 1))) with false; [now rewrite orb_false_r|].
    change 1 with (2 * 0 + 1). rewrite Z.testbit_odd_succ by lia. now rewrite Z.testbit_0_l.
Qed.

Lemma firstn_to_le_bytes n m x : (n <= m)%nat -> firstn n (to_le_bytes m x) = to_le_bytes n x.
Proof.
  revert m x. induction n as [|n IH]; intros m x H; [reflexivity|].
  destruct m as [|m]; [lia|]. cbn [to_le_bytes firstn]. f_equal. apply IH. lia.
Qed.

(* encoded_len in closed form *)
Definition vlen_spec (v : Z) : Z :=
  if v <? 2 ^ 7 then 1 else if v <? 2 ^ 14 then 2 else if v <? 2 ^ 21 then 3 else if v <? 2 ^ 28 then 4
  else if v <? 2 ^ 35 then 5 else if v <? 2 ^ 42 then 6 else if v <? 2 ^ 49 then 7 else if v <? 2 ^ 56 then 8
  else 9.

Lemma encoded_len_log k : 0 <= k < 64 ->
  9 - Z.min (sat_sub (64 - (k + 1)) 1 / 7) 8 =
  (if k <? 7 then 1 else if k <? 14 then 2 else if k <? 21 then 3 else if k <? 28 then 4 else if k <? 35 then 5
   else if k <? 42 then 6 else if k <? 49 then 7 else if k <? 56 then 8 else 9).
Proof.
  intros Hk. unfold sat_sub.
  assert (E : Z.max 0 (64 - (k + 1) - 1) = 62 - k \/ (k = 63 /\ Z.max 0 (64 - (k + 1) - 1) = 0)) by lia.
  destruct E as [E | [-> E]]; [|reflexivity].
  rewrite E.
  repeat match goal with |- context [?a <? ?b] => destruct (Z.ltb_spec a b) end;
    try lia; Z.div_mod_to_equations; lia.
Qed.

Lemma encoded_len_spec v : 0 <= v < 2 ^ 64 -> encoded_len v = vlen_spec v.
Proof.
  intros Hv. unfold encoded_len, clz.
  destruct (Z.leb_spec v 0) as [H0 | H0].
  - assert (v = 0) by lia. subst. reflexivity.
  - pose proof (Z.log2_nonneg v) as Hl0.
    assert (Hl : Z.log2 v < 64) by (apply Z.log2_lt_pow2; lia).
    rewrite encoded_len_log by lia.
    unfold vlen_spec.
    repeat match goal with
           | |- context [Z.log2 v <? ?b] =>
             let H := fresh in
             destruct (Z.ltb_spec (Z.log2 v) b) as [H | H];
             [apply Z.log2_lt_pow2 in H; [|lia] | apply Z.log2_le_pow2 in H; [|lia]]
           end;
    repeat match goal with |- context [v <? ?b] => destruct (Z.ltb_spec v b) end;
    try reflexivity; lia.
Qed.

Lemma encoded_len_range v : 0 <= v < 2 ^ 64 -> 1 <= encoded_len v <= 9.
Proof.
  intros H. rewrite encoded_len_spec by exact H. unfold vlen_spec.
  repeat match goal with |- context [v <? ?b] => destruct (Z.ltb_spec v b) end; lia.
Qed.

(* the short forms: L bytes, 1 <= L <= 8, value below 2^(7L) *)
Lemma write_usize_short v L : 0 <= v < 2 ^ (7 * L) -> 1 <= L <= 8 -> encoded_len v = L ->
  write_usize v = to_le_bytes (Z.to_nat L) ((2 * v + 1) * 2 ^ (L - 1)).
Proof.
  intros Hv HL E. unfold write_usize. rewrite E.
  destruct (Z.eqb_spec L 9); [lia|].
  rewrite firstn_to_le_bytes by lia. f_equal.
  assert (H56 : 2 ^ (7 * L) <= 2 ^ 56) by (apply Z.pow_le_mono_r; lia).
  unfold shl. change (2 ^ 1) with 2.
  rewrite (Z.mod_small (v * 2)) by lia.
  rewrite (Z.mul_comm v 2), lor_2x_1 by lia.
  apply Z.mod_small. split; [apply Z.mul_nonneg_nonneg; [lia | apply Z.pow_nonneg; lia]|].
  assert (2 * v + 1 < 2 ^ (7 * L + 1)).
  { rewrite Z.pow_add_r by lia. change (2 ^ 1) with 2. lia. }
  assert (E64 : 2 ^ 64 = 2 ^ (64 - (L - 1)) * 2 ^ (L - 1)) by (rewrite <- Z.pow_add_r by lia; f_equal; lia).
  rewrite E64. apply Z.mul_lt_mono_pos_r; [apply Z.pow_pos_nonneg; lia|].
  assert (2 ^ (7 * L + 1) <= 2 ^ (64 - (L - 1))) by (apply Z.pow_le_mono_r; lia). lia.
Qed.

Lemma read_usize_short v L rest : 0 <= v < 2 ^ (7 * L) -> 1 <= L <= 8 ->
  read_usize (to_le_bytes (Z.to_nat L) ((2 * v + 1) * 2 ^ (L - 1)) ++ rest) = Ok (v, rest).
Proof.
  intros Hv HL.
  set (enc := (2 * v + 1) * 2 ^ (L - 1)).
  assert (Hp : 0 < 2 ^ (L - 1)) by (apply Z.pow_pos_nonneg; lia).
  assert (Henc0 : 0 <= enc) by (unfold enc; apply Z.mul_nonneg_nonneg; lia).
  assert (Henc : enc < 256 ^ L).
  { unfold enc. change 256 with (2 ^ 8). rewrite <- Z.pow_mul_r by lia.
    replace (8 * L) with ((7 * L + 1) + (L - 1)) by lia. rewrite Z.pow_add_r by lia.
    apply Z.mul_lt_mono_pos_r; [lia|]. rewrite Z.pow_add_r by lia. change (2 ^ 1) with 2. lia. }
  destruct (Z.to_nat L) as [|n] eqn:EL; [lia|].
  unfold read_usize.
  (* peek *)
  unfold bind at 1. cbn [to_le_bytes app peek_u8].
  assert (Hctz : ctz 8 (enc mod 256) = L - 1).
  { apply ctz8_char; [apply Z.mod_pos_bound; lia | lia |].
    replace (L - 1 + 1) with L by lia.
    assert (HpL : 0 < 2 ^ L) by (apply Z.pow_pos_nonneg; lia).
    rewrite <- (Zmod_div_mod (2 ^ L) 256 enc); [| lia | lia |].
    2:{ exists (2 ^ (8 - L)). rewrite <- Z.pow_add_r by lia. replace (8 - L + L) with 8 by lia. reflexivity. }
    unfold enc. replace (2 ^ L) with (2 * 2 ^ (L - 1)).
    2:{ rewrite <- (Z.pow_succ_r 2 (L - 1)) by lia. f_equal. lia. }
    rewrite Z.mul_mod_distr_r by lia.
    replace ((2 * v + 1) mod 2) with 1; [lia|].
    rewrite Z.add_comm, Z.mul_comm, Z.mod_add by lia. reflexivity. }
  rewrite Hctz. replace (L - 1 + 1) with L by lia.
  destruct (Z.eqb_spec L 9); [lia|].
  (* re-fold the encoding and read the slice *)
  change (enc mod 256 :: to_le_bytes n (enc / 256) ++ rest) with (to_le_bytes (S n) enc ++ rest).
  assert (HlenL : len (to_le_bytes (S n) enc) = L) by (unfold len; rewrite to_le_bytes_length; lia).
  unfold bind at 1. unfold bind at 1.
  rewrite (read_slice_app' _ _ rest HlenL). unfold ret at 1.
  rewrite of_to_le_bytes by (rewrite <- EL, Z2Nat.id by lia; lia).
  assert (Hshr : shr enc L = v).
  { unfold shr, enc. replace (2 ^ L) with (2 ^ (L - 1) * 2).
    2:{ rewrite Z.mul_comm, <- (Z.pow_succ_r 2 (L - 1)) by lia. f_equal. lia. }
    rewrite Z.mul_comm, Z.div_mul_cancel_l by lia.
    rewrite Z.add_comm, Z.mul_comm, Z.div_add by lia. reflexivity. }
  rewrite Hshr.
  assert (H56 : 2 ^ (7 * L) <= 2 ^ 56) by (apply Z.pow_le_mono_r; lia).
  unfold usize_max. destruct (Z.gtb_spec v (2 ^ 64 - 1)); [lia | reflexivity].
Qed.

Lemma write_usize_long v : 2 ^ 56 <= v < 2 ^ 64 -> write_usize v = 0 :: to_le_bytes 8 v.
Proof.
  intros Hv. unfold write_usize. rewrite encoded_len_spec by lia. unfold vlen_spec.
  repeat match goal with |- context [v <? ?b] => destruct (Z.ltb_spec v b); [lia|] end.
  reflexivity.
Qed.

Theorem vint64_rt v rest : 0 <= v < 2 ^ 64 -> read_usize (write_usize v ++ rest) = Ok (v, rest).
Proof.
  intros Hv.
  pose proof (encoded_len_spec v Hv) as E. unfold vlen_spec in E.
  repeat match type of E with context [v <? ?b] => destruct (Z.ltb_spec v b) end.
  1: rewrite (write_usize_short v 1); [apply (read_usize_short v 1) | ..]; try lia; exact E.
  1: rewrite (write_usize_short v 2); [apply (read_usize_short v 2) | ..]; try lia; exact E.
  1: rewrite (write_usize_short v 3); [apply (read_usize_short v 3) | ..]; try lia; exact E.
  1: rewrite (write_usize_short v 4); [apply (read_usize_short v 4) | ..]; try lia; exact E.
  1: rewrite (write_usize_short v 5); [apply (read_usize_short v 5) | ..]; try lia; exact E.
  1: rewrite (write_usize_short v 6); [apply (read_usize_short v 6) | ..]; try lia; exact E.
  1: rewrite (write_usize_short v 7); [apply (read_usize_short v 7) | ..]; try lia; exact E.
  1: rewrite (write_usize_short v 8); [apply (read_usize_short v 8) | ..]; try lia; exact E.
  rewrite write_usize_long by lia.
  unfold read_usize. unfold bind at 1. cbn [app peek_u8].
  change (ctz 8 0 + 1) with 9. cbn [Z.eqb Pos.eqb].
  unfold bind at 1. unfold bind at 1. cbn [read_u8].
  fold (write_uint 8 v). rewrite rt_uint by (change (256 ^ Z.of_nat 8) with (2 ^ 64); lia).
  unfold usize_max. destruct (Z.gtb_spec v (2 ^ 64 - 1)); [lia | reflexivity].
Qed.

Theorem vint64_len v : 0 <= v < 2 ^ 64 -> len (write_usize v) = encoded_len v.
Proof.
  intros Hv.
  pose proof (encoded_len_range v Hv) as Hr.
  unfold write_usize.
  destruct (Z.eqb_spec (encoded_len v) 9) as [E | NE].
  - rewrite E. reflexivity.
  - unfold len. rewrite firstn_length, to_le_bytes_length. lia.
Qed.

(* prefix-freeness / injectivity of the encoder: immediate from the round trip *)
Theorem vint64_prefix_free a b ra rb : 0 <= a < 2 ^ 64 -> 0 <= b < 2 ^ 64 ->
  write_usize a ++ ra = write_usize b ++ rb -> a = b /\ ra = rb.
Proof.
  intros Ha Hb E.
  pose proof (vint64_rt a ra Ha) as H1. rewrite E, (vint64_rt b rb Hb) in H1.
  inversion H1. auto.
Qed.

Lemma rt_usize : RT write_usize read_usize (fun v => 0 <= v < 2 ^ 64).
Proof. intros v rest H. now apply vint64_rt. Qed.

(* ------------------------------------------------------------------------------ read_many / write_many *)
Fixpoint nat_loop {S} (n : nat) (step : S -> Result S) (s : S) : Result S :=
  match n with
  | O => Ok s
  | Datatypes.S n' => match step s with Ok s' => nat_loop n' step s' | e => e end
  end.

Lemma nat_loop_add {S} a b (step : S -> Result S) s :
  nat_loop (a + b) step s = match nat_loop a step s with Ok s' => nat_loop b step s' | e => e end.
Proof.
  revert s. induction a as [|a IH]; intros s; cbn [nat_loop Nat.add]; [reflexivity|].
  destruct (step s); auto.
Qed.

Lemma pos_loop_nat {S} p (step : S -> Result S) s : pos_loop p step s = nat_loop (Pos.to_nat p) step s.
Proof.
  revert s. induction p as [p IH | p IH |]; intros s; cbn [pos_loop].
  - rewrite Pos2Nat.inj_xI. cbn [nat_loop]. destruct (step s) as [s1| |]; auto.
    replace (2 * Pos.to_nat p)%nat with (Pos.to_nat p + Pos.to_nat p)%nat by lia.
    rewrite nat_loop_add, <- IH. destruct (pos_loop p step s1); auto.
  - rewrite Pos2Nat.inj_xO.
    replace (2 * Pos.to_nat p)%nat with (Pos.to_nat p + Pos.to_nat p)%nat by lia.
    rewrite nat_loop_add, <- IH. destruct (pos_loop p step s); auto.
  - change (Pos.to_nat 1) with 1%nat. cbn [nat_loop]. destruct (step s); auto.
Qed.

Lemma write_many_cons {A} (w : A -> bytes) a l : write_many w (a :: l) = w a ++ write_many w l.
Proof. reflexivity. Qed.

Lemma write_many_app {A} (w : A -> bytes) l1 l2 : write_many w (l1 ++ l2) = write_many w l1 ++ write_many w l2.
Proof. unfold write_many. apply flat_map_app. Qed.

Lemma nat_loop_many {A} (w : A -> bytes) (r : Rd A) (wf : A -> Prop) :
  RT w r wf -> forall l acc rest, Forall wf l ->
  nat_loop (length l) (rm_step r) (acc, write_many w l ++ rest) = Ok (rev l ++ acc, rest).
Proof.
  intros Hrt l. induction l as [|a l IH]; intros acc rest Hwf; [reflexivity|].
  inversion Hwf as [|? ? Ha Hl]; subst.
  cbn [length nat_loop]. unfold rm_step at 1. cbn [snd fst].
  rewrite write_many_cons, <- app_assoc, (Hrt a _ Ha).
  rewrite IH by exact Hl. cbn [rev]. now rewrite <- app_assoc.
Qed.

Lemma rt_many {A} (w : A -> bytes) (r : Rd A) (wf : A -> Prop) :
  RT w r wf -> forall l rest, Forall wf l ->
  read_many r (Z.of_nat (length l)) (write_many w l ++ rest) = Ok (l, rest).
Proof.
  intros Hrt l rest Hwf. unfold read_many.
  destruct (Z.of_nat (length l)) as [|p|p] eqn:E.
  - destruct l; [reflexivity | discriminate].
  - rewrite pos_loop_nat.
    replace (Pos.to_nat p) with (length l) by lia.
    pose proof (nat_loop_many w r wf Hrt l [] rest Hwf) as Hm.
    unfold bytes in *. rewrite Hm.
    now rewrite app_nil_r, rev_involutive.
  - lia.
Qed.

(* general semantics of read_many as a plain structural recursion (used for reasoning about arbitrary input) *)
Fixpoint read_many_nat {A} (r : Rd A) (n : nat) : Rd (list A) :=
  fun bs => match n with
            | O => Ok ([], bs)
            | S n' => match r bs with
                      | Ok (a, bs') => match read_many_nat r n' bs' with
                                       | Ok (l, bs'') => Ok (a :: l, bs'')
                                       | Err e => Err e
                                       | Panic => Panic
                                       end
                      | Err e => Err e
                      | Panic => Panic
                      end
            end.

Lemma nat_loop_read_many_nat {A} (r : Rd A) n acc bs :
  nat_loop n (rm_step r) (acc, bs) =
  match read_many_nat r n bs with
  | Ok (l, bs') => Ok (rev l ++ acc, bs')
  | Err e => Err e
  | Panic => Panic
  end.
Proof.
  revert acc bs. induction n as [|n IH]; intros acc bs; [reflexivity|].
  cbn [nat_loop read_many_nat]. unfold rm_step at 1. cbn [fst snd].
  destruct (r bs) as [[a bs']| |]; auto.
  rewrite IH. destruct (read_many_nat r n bs') as [[l bs'']| |]; auto.
  cbn [rev]. now rewrite <- app_assoc.
Qed.

Theorem read_many_spec {A} (r : Rd A) n bs : read_many r (Z.of_nat n) bs = read_many_nat r n bs.
Proof.
  unfold read_many. destruct (Z.of_nat n) as [|p|p] eqn:E.
  - destruct n; [reflexivity | discriminate].
  - rewrite pos_loop_nat. replace (Pos.to_nat p) with n by lia.
    rewrite nat_loop_read_many_nat.
    destruct (read_many_nat r n bs) as [[l bs']| |]; auto.
    now rewrite app_nil_r, rev_involutive.
  - lia.
Qed.

(* ---------------------------------------------------------------------------------------- combinators *)
Ltac rt_next_by H tac := rewrite <- ?app_assoc; erewrite bind_ok by (apply H; tac).
Ltac rt_next H := rt_next_by H auto.
Ltac rt_next_usize := rt_next_by rt_usize ltac:(cbv beta; unfold len in *; lia).

Lemma rt_option {A} (w : A -> bytes) (r : Rd A) wf :
  RT w r wf -> RT (write_option w) (read_option r) (fun o => match o with Some v => wf v | None => True end).
Proof.
  intros H [v|] rest Hwf; unfold write_option, read_option.
  - rt_next rt_bool. cbn iota. rt_next H. reflexivity.
  - rt_next rt_bool. reflexivity.
Qed.

Lemma rt_pair {A B} wa (ra : Rd A) wfa wb (rb : Rd B) wfb :
  RT wa ra wfa -> RT wb rb wfb -> RT (write_pair wa wb) (read_pair ra rb) (fun p => wfa (fst p) /\ wfb (snd p)).
Proof.
  intros Ha Hb [a b] rest [Hwa Hwb]. unfold write_pair, read_pair. cbn [fst snd] in *.
  rt_next Ha. rt_next Hb. reflexivity.
Qed.

Lemma rt_triple {A B C} wa (ra : Rd A) wfa wb (rb : Rd B) wfb wc (rc : Rd C) wfc :
  RT wa ra wfa -> RT wb rb wfb -> RT wc rc wfc ->
  RT (write_triple wa wb wc) (read_triple ra rb rc) (fun t => wfa (fst (fst t)) /\ wfb (snd (fst t)) /\ wfc (snd t)).
Proof.
  intros Ha Hb Hc [[a b] c] rest (Hwa & Hwb & Hwc). unfold write_triple, read_triple. cbn [fst snd] in *.
  rt_next Ha. rt_next Hb. rt_next Hc. reflexivity.
Qed.

Lemma rt_vec {A} (w : A -> bytes) (r : Rd A) wf :
  RT w r wf -> RT (write_vec w) (read_vec_of r) (fun l => Z.of_nat (length l) < 2 ^ 64 /\ Forall wf l).
Proof.
  intros H l rest [Hlen Hwf]. unfold write_vec, read_vec_of.
  rt_next_usize.
  now apply (rt_many w r wf).
Qed.

Lemma rt_arr {A} (w : A -> bytes) (r : Rd A) wf (c : nat) :
  RT w r wf -> RT (write_arr w) (fun bs => read_arr r (Z.of_nat c) bs) (fun l => length l = c /\ Forall wf l).
Proof.
  intros H l rest [<- Hwf]. unfold write_arr, read_arr. now apply (rt_many w r wf).
Qed.

Lemma write_many_u8 s : write_many write_u8 s = s.
Proof. induction s as [|b s IH]; [reflexivity|]. rewrite write_many_cons, IH. reflexivity. Qed.

Lemma rt_string (utf8_valid : bytes -> bool) :
  RT write_string (read_string utf8_valid) (fun s => len s < 2 ^ 64 /\ utf8_valid s = true).
Proof.
  intros s rest [Hlen Hu]. unfold write_string, read_string.
  rt_next_usize.
  unfold len. erewrite bind_ok by (apply (rt_many write_u8 read_u8 (fun _ => True) rt_u8); apply Forall_forall; auto).
  now rewrite Hu.
Qed.

(* ---- coverage round: (), the tuples of arity 1, 4, 5, 6, the slice and str writers ---- *)
Lemma rt_unit : RT write_unit read_unit (fun _ => True).
Proof. intros [] rest _. reflexivity. Qed.

Lemma rt_tup1 {A} wa (ra : Rd A) wfa : RT wa ra wfa -> RT (write_tup1 wa) (read_tup1 ra) wfa.
Proof. intros Ha a rest Hwa. unfold write_tup1, read_tup1. rt_next Ha. reflexivity. Qed.

Lemma rt_tup4 {A B C D} wa (ra : Rd A) wfa wb (rb : Rd B) wfb wc (rc : Rd C) wfc wd (rd : Rd D) wfd :
  RT wa ra wfa -> RT wb rb wfb -> RT wc rc wfc -> RT wd rd wfd ->
  RT (write_tup4 wa wb wc wd) (read_tup4 ra rb rc rd)
     (fun t => let '(a, b, c, d) := t in wfa a /\ wfb b /\ wfc c /\ wfd d).
Proof.
  intros Ha Hb Hc Hd [[[a b] c] d] rest (Hwa & Hwb & Hwc & Hwd). unfold write_tup4, read_tup4.
  rt_next Ha. rt_next Hb. rt_next Hc. rt_next Hd. reflexivity.
Qed.

Lemma rt_tup5 {A B C D E} wa (ra : Rd A) wfa wb (rb : Rd B) wfb wc (rc : Rd C) wfc wd (rd : Rd D) wfd
    we (re : Rd E) wfe :
  RT wa ra wfa -> RT wb rb wfb -> RT wc rc wfc -> RT wd rd wfd -> RT we re wfe ->
  RT (write_tup5 wa wb wc wd we) (read_tup5 ra rb rc rd re)
     (fun t => let '(a, b, c, d, e) := t in wfa a /\ wfb b /\ wfc c /\ wfd d /\ wfe e).
Proof.
  intros Ha Hb Hc Hd He [[[[a b] c] d] e] rest (Hwa & Hwb & Hwc & Hwd & Hwe). unfold write_tup5, read_tup5.
  rt_next Ha. rt_next Hb. rt_next Hc. rt_next Hd. rt_next He. reflexivity.
Qed.

Lemma rt_tup6 {A B C D E F} wa (ra : Rd A) wfa wb (rb : Rd B) wfb wc (rc : Rd C) wfc wd (rd : Rd D) wfd
    we (re : Rd E) wfe wf_ (rf : Rd F) wff :
  RT wa ra wfa -> RT wb rb wfb -> RT wc rc wfc -> RT wd rd wfd -> RT we re wfe -> RT wf_ rf wff ->
  RT (write_tup6 wa wb wc wd we wf_) (read_tup6 ra rb rc rd re rf)
     (fun t => let '(a, b, c, d, e, f) := t in wfa a /\ wfb b /\ wfc c /\ wfd d /\ wfe e /\ wff f).
Proof.
  intros Ha Hb Hc Hd He Hf [[[[[a b] c] d] e] f] rest (Hwa & Hwb & Hwc & Hwd & Hwe & Hwf).
  unfold write_tup6, read_tup6.
  rt_next Ha. rt_next Hb. rt_next Hc. rt_next Hd. rt_next He. rt_next Hf. reflexivity.
Qed.

Lemma rt_tup6_ints a b c d e f rest :
  0 <= b < 2 ^ 16 -> 0 <= c < 2 ^ 32 -> 0 <= d < 2 ^ 64 -> 0 <= e < 2 ^ 128 -> 0 <= f < 2 ^ 64 ->
  read_tup6 read_u8 read_u16 read_u32 read_u64 read_u128 read_usize
    (write_tup6 write_u8 write_u16 write_u32 write_u64 write_u128 write_usize (a, b, c, d, e, f) ++ rest)
  = Ok ((a, b, c, d, e, f), rest).
Proof.
  intros Hb Hc Hd He Hf.
  apply (rt_tup6 _ _ _ _ _ _ _ _ _ _ _ _ _ _ _ _ _ _ rt_u8 rt_u16 rt_u32 rt_u64 rt_u128 rt_usize (a, b, c, d, e, f) rest).
  cbv beta iota. tauto.
Qed.

(* the element-by-element loop of `impl Serializable for [T]` writes what write_many writes *)
Lemma fold_left_append {A} (w : A -> bytes) l acc :
  fold_left (fun target e => target ++ w e) l acc = acc ++ write_many w l.
Proof.
  revert acc. induction l as [|a l IH]; intros acc; cbn [fold_left].
  - unfold write_many. cbn [flat_map]. now rewrite app_nil_r.
  - rewrite IH, write_many_cons, app_assoc. reflexivity.
Qed.

Lemma write_slice_is_write_vec {A} (w : A -> bytes) l : write_slice w l = write_vec w l.
Proof. unfold write_slice, write_vec. apply fold_left_append. Qed.

Lemma rt_slice {A} (w : A -> bytes) (r : Rd A) wf :
  RT w r wf -> RT (write_slice w) (read_vec_of r) (fun l => Z.of_nat (length l) < 2 ^ 64 /\ Forall wf l).
Proof. intros H l rest Hwf. rewrite write_slice_is_write_vec. now apply (rt_vec w r wf H). Qed.

Lemma write_str_is_write_string s : write_str s = write_string s.
Proof. reflexivity. Qed.

Lemma rt_str (utf8_valid : bytes -> bool) :
  RT write_str (read_string utf8_valid) (fun s => len s < 2 ^ 64 /\ utf8_valid s = true).
Proof. intros s rest Hwf. rewrite write_str_is_write_string. now apply rt_string. Qed.

(* blobs with a k-byte length prefix *)
Lemma rt_blob k : RT (write_blob k) (read_blob k) (fun b => len b < 256 ^ Z.of_nat k).
Proof.
  intros b rest Hb. unfold write_blob, read_blob, read_vec, write_bytes.
  pose proof (len_nonneg b).
  assert (E : wrap (8 * Z.of_nat k) (len b) = len b).
  { apply wrap_small. rewrite Z.pow_mul_r by lia. change (2 ^ 8) with 256. lia. }
  rewrite E. rewrite <- app_assoc. erewrite bind_ok by (apply rt_uint; lia).
  apply read_slice_app.
Qed.

(* --------------------------------------------------------------------------------- BTreeMap / BTreeSet *)
Section OrderedProofs.
  Context {K V : Type} (ltb : K -> K -> bool).
  Hypothesis ltb_irrefl : forall a, ltb a a = false.
  Hypothesis ltb_trans : forall a b c, ltb a b = true -> ltb b c = true -> ltb a c = true.
  Hypothesis ltb_asym : forall a b, ltb a b = true -> ltb b a = false.

  Definition keys_below (m : list (K * V)) (k : K) : Prop := Forall (fun kv => ltb (fst kv) k = true) m.

  Lemma map_insert_last k v m : keys_below m k -> map_insert ltb k v m = m ++ [(k, v)].
  Proof.
    induction m as [|[k' v'] m IH]; intros H; [reflexivity|].
    inversion H as [|? ? Hk Hm]; subst. cbn [fst] in Hk.
    cbn [map_insert app]. rewrite (ltb_asym _ _ Hk), Hk, IH by exact Hm. reflexivity.
  Qed.

  Fixpoint sorted_map (m : list (K * V)) : Prop :=
    match m with
    | [] => True
    | (k, _) :: r => Forall (fun kv => ltb k (fst kv) = true) r /\ sorted_map r
    end.

  Lemma fold_insert_sorted l acc :
    sorted_map l -> (forall kv, In kv l -> keys_below acc (fst kv)) ->
    fold_left (fun m kv => map_insert ltb (fst kv) (snd kv) m) l acc = acc ++ l.
  Proof.
    revert acc. induction l as [|[k v] l IH]; intros acc Hs Hb; cbn [fold_left]; [now rewrite app_nil_r|].
    destruct Hs as [Hk Hs]. cbn [fst snd].
    rewrite map_insert_last by (apply (Hb (k, v)); now left).
    rewrite IH; [now rewrite <- app_assoc | exact Hs |].
    intros kv Hin. unfold keys_below. apply Forall_app. split.
    - specialize (Hb kv (or_intror Hin)). exact Hb.
    - constructor; [|constructor]. cbn [fst]. rewrite Forall_forall in Hk. now apply Hk.
  Qed.

  Lemma map_from_iter_sorted l : sorted_map l -> map_from_iter ltb l = l.
  Proof.
    intros Hs. unfold map_from_iter. rewrite fold_insert_sorted; [reflexivity | exact Hs |].
    intros kv _. constructor.
  Qed.

  Lemma rt_map wk (rk : Rd K) wfk wv (rv : Rd V) wfv :
    RT wk rk wfk -> RT wv rv wfv ->
    RT (write_map wk wv) (read_map ltb rk rv)
       (fun m => Z.of_nat (length m) < 2 ^ 64 /\ sorted_map m /\ Forall (fun kv => wfk (fst kv) /\ wfv (snd kv)) m).
  Proof.
    intros Hk Hv m rest (Hlen & Hs & Hwf). unfold write_map, read_map.
    rt_next_usize.
    erewrite bind_ok by (apply (rt_many _ _ _ (rt_pair _ _ _ _ _ _ Hk Hv)); exact Hwf).
    unfold ret. now rewrite map_from_iter_sorted.
  Qed.

  (* sets *)
  Lemma set_insert_last k m : Forall (fun k' => ltb k' k = true) m -> set_insert ltb k m = m ++ [k].
  Proof.
    induction m as [|k' m IH]; intros H; [reflexivity|].
    inversion H as [|? ? Hk Hm]; subst.
    cbn [set_insert app]. rewrite (ltb_asym _ _ Hk), Hk, IH by exact Hm. reflexivity.
  Qed.

  Fixpoint sorted_set (m : list K) : Prop :=
    match m with [] => True | k :: r => Forall (fun k' => ltb k k' = true) r /\ sorted_set r end.

  Lemma fold_set_insert_sorted l acc :
    sorted_set l -> (forall k, In k l -> Forall (fun k' => ltb k' k = true) acc) ->
    fold_left (fun m k => set_insert ltb k m) l acc = acc ++ l.
  Proof.
    revert acc. induction l as [|k l IH]; intros acc Hs Hb; cbn [fold_left]; [now rewrite app_nil_r|].
    destruct Hs as [Hk Hs].
    rewrite set_insert_last by (apply Hb; now left).
    rewrite IH; [now rewrite <- app_assoc | exact Hs |].
    intros k' Hin. apply Forall_app. split.
    - apply Hb. now right.
    - constructor; [|constructor]. rewrite Forall_forall in Hk. now apply Hk.
  Qed.

  Lemma rt_set wk (rk : Rd K) wfk :
    RT wk rk wfk ->
    RT (write_set wk) (read_set ltb rk) (fun m => Z.of_nat (length m) < 2 ^ 64 /\ sorted_set m /\ Forall wfk m).
  Proof.
    intros Hk m rest (Hlen & Hs & Hwf). unfold write_set, read_set.
    rt_next_usize.
    erewrite bind_ok by (apply (rt_many _ _ _ Hk); exact Hwf).
    unfold ret, set_from_iter. rewrite fold_set_insert_sorted; [reflexivity | exact Hs |].
    intros k _. constructor.
  Qed.
End OrderedProofs.
