(* C05 — tie of the counting predicate (Proofs/FriCount.v) to the verifier model, layer by layer: for a state whose
   channel head opens a committed layer function E at the folded positions (authentication passing, no degree
   truncation), the model's layer_step returns Ok IFF the values carried into the layer equal E at every current
   position — i.e. iff [layer_compare_forallb]'s comparison is true — and the values carried out are [foldval] of E
   at the folded positions (duplicates: positions are de-duplicated by fold_positions exactly as in the code).
   stdlib style. *)
From Coq Require Import List Arith Bool Lia.
From VBase Require Import FieldOps.
From VModel Require Import Fri.
From VProofs Require Import FriIdx FriCoset FriAccept FriCount.
Import ListNotations.

Local Arguments mkVCh {F D MN}.
Local Arguments vc_commitments {F D MN}.
Local Arguments vc_proofs {F D MN}.
Local Arguments vc_queries {F D MN}.
Local Arguments vc_remainder {F D MN}.
Local Arguments vc_partitions {F D MN}.
Local Arguments mkVS {F D MN}.
Local Arguments vs_gen {F D MN}.
Local Arguments vs_size {F D MN}.
Local Arguments vs_mdp1 {F D MN}.
Local Arguments vs_positions {F D MN}.
Local Arguments vs_evals {F D MN}.
Local Arguments vs_chan {F D MN}.
Local Arguments v_commitments {F D}.
Local Arguments v_alphas {F D}.
Local Arguments v_options {F D}.
Local Arguments v_partitions {F D}.

Section Query.
Context {F : Type} (O : FOps F) (L : FLaws O).
Variable gen_offset : F.
Variable dbg : bool.
Variable D : Type.
Variable hash_elements : list F -> D.
Variable MN : Type.
Variable mt_verify_batch : D -> list nat -> list D -> MN -> nat -> auth_res.
Local Notation zero := (fzero O).

Theorem layer_step_opened_iff : forall N (v : @verifier F D) roots depth (s s' : @vstate F D MN) E rl alpha commitment nodes d proofs' queries',
  N <> 0 -> rl <> 0 -> vs_size s = rl * N -> (forall p, In p (vs_positions s) -> p < rl * N) ->
  fo_folding (v_options v) = N -> v_partitions v = 1 ->
  nth_error (v_commitments v) depth = Some commitment -> nth_error (v_alphas v) depth = Some alpha ->
  let folded := fold_positions_core (vs_positions s) rl in
  let rows := map (row_of zero N rl E) folded in
  vc_proofs (vs_chan s) = (map hash_elements rows, nodes, d) :: proofs' ->
  vc_queries (vs_chan s) = concat rows :: queries' ->
  mt_verify_batch commitment folded (map hash_elements rows) nodes d = AuthOk ->
  vs_mdp1 s mod N = 0 ->
  (layer_step O gen_offset dbg D MN mt_verify_batch N v roots depth s = Ok s' <->
   vs_evals s = map (fun p => nth p E zero) (vs_positions s) /\
   s' = mkVS (fexp O (vs_gen s) N) rl (vs_mdp1 s / N) folded
             (map (foldval O gen_offset roots N (vs_gen s) E rl alpha) folded) (chan_tail D MN (vs_chan s))).
Proof.
  intros N v roots depth s s' E rl alpha commitment nodes d proofs' queries' HN Hrl Hsz Hpos Hff Hpart Hc Ha folded rows
         Hproofs Hqueries Hauth Hmod.
  assert (Hfold : fold_positions (vs_positions s) (vs_size s) N = Ok folded).
  { unfold fold_positions. destruct (N =? 0) eqn:E0; [apply Nat.eqb_eq in E0; contradiction|].
    rewrite Hsz, Nat.div_mul by assumption. destruct (rl =? 0) eqn:E1; [apply Nat.eqb_eq in E1; contradiction|]. reflexivity. }
  assert (Hrows : forall r, In r rows -> length r = N).
  { intros r Hr. unfold rows in Hr. apply in_map_iff in Hr. destruct Hr as [q [<- _]]. apply row_of_length. }
  assert (Hlay : get_query_values N rows (vs_positions s) folded (vs_size s) = Ok (map (fun p => nth p E zero) (vs_positions s))).
  { rewrite Hsz. apply get_query_values_layout; assumption. }
  assert (Hcarry : map2 (fun x r => interp_eval O x r alpha) (map (row_xs O gen_offset roots (vs_gen s)) folded) rows
                   = map (foldval O gen_offset roots N (vs_gen s) E rl alpha) folded).
  { unfold rows. rewrite map2_map_same. reflexivity. }
  rewrite (layer_step_accepts O L gen_offset dbg D MN mt_verify_batch). unfold layer_accepts. rewrite Hff, Hpart. split.
  - intros [folded0 [indexes [c0 [leaves [nodes0 [d1 [q [rows0 [alpha0 H]]]]]]]]].
    destruct H as [H1 [H2 [H3 [H4 [H5 [H6 [H7 [H8 [H9 [H10 [H11 H12]]]]]]]]]]].
    rewrite Hfold in H1. injection H1 as <-. rewrite Hqueries in H6. cbn in H6. injection H6 as <-.
    rewrite (group_slice_concat rows N HN Hrows) in H7. injection H7 as <-.
    rewrite Hlay in H8. injection H8 as H8. rewrite Ha in H10. injection H10 as <-.
    split; [now symmetry|]. rewrite H12, Hcarry, Hsz, Nat.div_mul by assumption. reflexivity.
  - intros [Hev ->]. exists folded, folded, commitment, (map hash_elements rows), nodes, d, (concat rows), rows, alpha.
    rewrite Hproofs, Hqueries. cbn [hd_error].
    repeat split; try assumption; try reflexivity.
    + apply (group_slice_concat rows N HN Hrows).
    + now rewrite Hlay, Hev.
    + unfold rows. rewrite map_length. destruct dbg; lia.
    + rewrite Hcarry, Hsz, Nat.div_mul by assumption. reflexivity.
Qed.

End Query.
