(* C17 — round 7 (A): the embedding hypotheses `Emb` hold for the quadratic and the cubic extension of f64
   (from C08: q_embed_hom / c_embed_hom, q_mul_base_spec / c_mul_base_spec, f64_x2_correct / f64_x3_correct), and both
   extensions satisfy FLaws (f64_quad_laws / f64_cube_laws), so every C17 theorem instantiates at F := the extension and
   the transport theorems of Proofs/CompositionMixed.v apply. *)
From Coq Require Import List Arith ZArith.
From VBase Require Import FieldOps ZpOps.
From VModel Require Import ExtField Composition CompositionMixed CompositionMixedWhole.
From VProofs Require Import ZpLaws ExtModel ExtConcrete CompositionBase CompositionIndex CompositionMixed CompositionMixedWhole.
Import ListNotations.

Theorem quad_f64_emb :
  Emb F64_ops (q_ops F64_ops (f64_x2 F64_ops)) (q_from_base F64_ops) (q_mul_base (f64_x2 F64_ops)).
Proof.
  destruct (q_embed_hom F64_ops F64_laws (f64_x2 F64_ops) _ (f64_x2_correct F64_ops F64_laws)) as (H0 & H1 & Ha & Hs & _ & Hm & Hi).
  constructor; try assumption.
  intros x b. exact (q_mul_base_spec F64_ops (f64_x2 F64_ops) _ (f64_x2_correct F64_ops F64_laws) x b).
Qed.

Theorem cube_f64_emb :
  Emb F64_ops (c_ops F64_ops (f64_x3 F64_ops)) (c_from_base F64_ops) (c_mul_base (f64_x3 F64_ops)).
Proof.
  destruct (c_embed_hom F64_ops F64_laws (f64_x3 F64_ops) _ _ _ _ _ _ _ _ (f64_x3_correct F64_ops F64_laws)) as (H0 & H1 & Ha & Hs & _ & Hm & Hi).
  constructor; try assumption.
  intros x b. exact (c_mul_base_spec F64_ops (f64_x3 F64_ops) _ _ _ _ _ _ _ _ (f64_x3_correct F64_ops F64_laws) x b).
Qed.

(* the mixed evaluate_main_transition over the quadratic extension of f64 is the single-field linear combination on the
   embedded evaluations (an instance of lincomb_mixed_embeds), and likewise every other transported statement *)
Corollary quad_f64_lincomb_mixed evals coefs :
  lincomb_mixed (q_ops F64_ops (f64_x2 F64_ops)) (q_mul_base (f64_x2 F64_ops)) evals coefs
  = lincomb (q_ops F64_ops (f64_x2 F64_ops)) (map (q_from_base F64_ops) evals) coefs.
Proof. exact (lincomb_mixed_embeds F64_ops _ _ _ quad_f64_emb evals coefs). Qed.

(* round 8: the whole mixed single-segment evaluate() over the quadratic / cubic extension of f64 is the single-field
   evaluate over the extension on the embedded base-field inputs (instances of evaluate_mixed_embeds) *)
Definition quad_f64_evaluate_mixed_embeds :=
  evaluate_mixed_embeds F64_ops (q_ops F64_ops (f64_x2 F64_ops)) F64_laws f64_quad_laws
                        (q_from_base F64_ops) (q_mul_base (f64_x2 F64_ops)) quad_f64_emb.
Definition cube_f64_evaluate_mixed_embeds :=
  evaluate_mixed_embeds F64_ops (c_ops F64_ops (f64_x3 F64_ops)) F64_laws f64_cube_laws
                        (c_from_base F64_ops) (c_mul_base (f64_x3 F64_ops)) cube_f64_emb.
Definition quad_f64_table_row_spec_ext :=
  table_row_spec_single_segment_ext F64_ops (q_ops F64_ops (f64_x2 F64_ops)) F64_laws f64_quad_laws
                        (q_from_base F64_ops) (q_mul_base (f64_x2 F64_ops)) quad_f64_emb.
Definition cube_f64_table_row_spec_ext :=
  table_row_spec_single_segment_ext F64_ops (c_ops F64_ops (f64_x3 F64_ops)) F64_laws f64_cube_laws
                        (c_from_base F64_ops) (c_mul_base (f64_x3 F64_ops)) cube_f64_emb.
Definition quad_f64_composition_is_definition_ext :=
  composition_is_definition_ext F64_ops (q_ops F64_ops (f64_x2 F64_ops)) F64_laws f64_quad_laws
                        (q_from_base F64_ops) (q_mul_base (f64_x2 F64_ops)) quad_f64_emb.
Definition cube_f64_composition_is_definition_ext :=
  composition_is_definition_ext F64_ops (c_ops F64_ops (f64_x3 F64_ops)) F64_laws f64_cube_laws
                        (c_from_base F64_ops) (c_mul_base (f64_x3 F64_ops)) cube_f64_emb.
