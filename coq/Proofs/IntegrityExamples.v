(* C03 — non-vacuity: concrete instances satisfying the hypotheses of the theorems of IntegrityOrder.v and
   IntegrityBinding.v, and the faithful-order remarks.  stdlib style. *)
From Coq Require Import ZArith List Bool Lia.
From VBase Require Import MachInt.
From VModel Require Import Merkle Integrity.
From VProofs Require Import MerkleBase MerkleSingle MerkleTotal IntegrityOrder IntegrityBinding.
Import ListNotations.
Local Open Scope nat_scope.

(* a proof with an auxiliary segment, three FRI layers, grinding *)
Definition ex_shape : shape := mkShape true 2 7 9 3 [5; 4; 3] 5 2.
(* no FRI layer at all: the remainder is checked directly against the DEEP evaluations *)
Definition ex_shape0 : shape := mkShape false 0 2 3 0 [] 3 0.
(* a surplus layer in the proof *)
Definition ex_shape_surplus : shape := mkShape false 0 2 3 0 [1] 3 0.

Example ex_admissible : admissible current ex_shape = true /\ admissible current ex_shape0 = true /\
  admissible current ex_shape_surplus = false /\ admissible unrepaired ex_shape_surplus = true.
Proof. repeat split; reflexivity. Qed.

Example ex_check : check st0 (events current ex_shape) = true /\ check st0 (events current ex_shape0) = true.
Proof. split; vm_compute; reflexivity. Qed.

(* the checker is not trivially true: without the remainder-commitment check the remainder is used unauthenticated,
   and a run that draws the positions before the last commitment is absorbed is refused *)
Example ex_check_unrepaired : check st0 (events unrepaired ex_shape) = false.
Proof. vm_compute; reflexivity. Qed.

Example ex_check_positions_early :
  check st0 ([Absorb (Raw (TraceRoot 0)); DrawPositions; Absorb (Raw ConstraintRoot)]) = false /\
  check st0 ([Absorb (Raw (TraceRoot 0)); HashLeaves (TraceRows 0) 1; DrawPositions;
              AuthCheck ConstraintRows ConstraintPaths ConstraintRoot]) = false /\
  check st0 ([Absorb (Raw (TraceRoot 0)); HashLeaves (TraceRows 0) 1; DrawPositions; Use (TraceRows 0)]) = false.
Proof. repeat split; reflexivity. Qed.

(* faithful order: the OOD trace frame is evaluated (evaluate_constraints) BEFORE it is hashed and absorbed; the
   comparison which decides comes after both OOD absorptions *)
Example ex_ood_used_before_absorbed : exists pre post,
  events current ex_shape0 =
    pre ++ [Use OodTrace; HashWhole ood_frame; Absorb (HashOf ood_frame); Use OodEvals; HashWhole [OodEvals];
            Absorb (HashOf [OodEvals]); Compare CkOod [OodTrace] [OodEvals]] ++ post.
Proof.
  eexists (firstn 21 (events current ex_shape0)), (skipn 28 (events current ex_shape0)). vm_compute. reflexivity.
Qed.

(* (a) both branches of auth_binding_single are inhabited.  D = Z with a constant merge: everything verifies and the
   collision finder returns a collision of merge ... *)
Example ex_auth_single_hyps :
  let merge := fun _ _ : Z => 0%Z in
  verify Z Z.eqb merge 0%Z 0%Z [1; 5]%Z = Ok tt /\ verify Z Z.eqb merge 0%Z 0%Z [2; 5]%Z = Ok tt /\
  exists c, find_collision Z Z.eqb 0%Z merge 0%Z [1; 5]%Z [2; 5]%Z = Some c /\ is_collision Z merge c.
Proof.
  cbv zeta. split; [vm_compute; reflexivity|]. split; [vm_compute; reflexivity|].
  exists ((1, 5), (2, 5))%Z. split; [vm_compute; reflexivity|]. split; cbn; [discriminate | reflexivity].
Qed.

(* ... and with a constant leaf hash the leaf-collision branch *)
Example ex_leaf_collision : leaf_collision Z Z (fun _ => 7%Z) (1, 2)%Z.
Proof. split; cbn; [discriminate | reflexivity]. Qed.

(* (b) hypotheses of absorb_binding on a real run: the constraint commitment is absorbed; two assignments that
   differ on it give different coin terms *)
Example ex_absorb_hyps :
  (exists e, In e (events current ex_shape0) /\ absorbs e ConstraintRoot) /\
  (fun c => match c with ConstraintRoot => 1%Z | _ => 0%Z end) ConstraintRoot <> (fun _ : comp => 0%Z) ConstraintRoot.
Proof.
  split; [| discriminate].
  exists (Absorb (Raw ConstraintRoot)). split; [vm_compute; tauto|]. left. exists (Raw ConstraintRoot). split; [reflexivity | now left].
Qed.

Example ex_absorb_run :
  coin Z (fun c => match c with ConstraintRoot => 1%Z | _ => 0%Z end) (events current ex_shape0) (CEmpty Z)
  <> coin Z (fun _ => 0%Z) (events current ex_shape0) (CEmpty Z).
Proof. apply (absorb_binding Z _ _ _ ConstraintRoot); apply ex_absorb_hyps. Qed.

(* (a) batch form: the hypotheses of auth_binding_batch are satisfiable with different opened rows (constant merge:
   everything verifies), so its conclusion is not vacuous; here the collision-of-merge branch is the inhabited one *)
Definition ex_tree : mtree Z := {| mt_nodes := [0; 0]%Z; mt_leaves := [1; 2]%Z |}.

Example ex_auth_batch_hyps :
  let merge := fun _ _ : Z => 0%Z in
  wf_tree Z 0%Z merge 1 ex_tree /\ usize_list [0%Z] /\
  verify_batch Z Z.eqb merge (hval Z 0%Z ex_tree 1) [0%Z]
    {| bp_leaves := map (fun v : Z => v) [5%Z]; bp_nodes := [[2%Z]]; bp_depth := Z.of_nat 1 |} = Ok tt /\
  verify_batch Z Z.eqb merge (hval Z 0%Z ex_tree 1) [0%Z]
    {| bp_leaves := map (fun v : Z => v) [6%Z]; bp_nodes := [[2%Z]]; bp_depth := Z.of_nat 1 |} = Ok tt /\
  [5%Z] <> [6%Z].
Proof.
  cbv zeta. split; [| split; [| split; [| split]]].
  - constructor; [lia | reflexivity | reflexivity |].
    intros k Hk. change (2 ^ Z.of_nat 1)%Z with 2%Z in Hk. assert (k = 1%Z) as -> by lia. reflexivity.
  - intros x [<- | []]. lia.
  - vm_compute. reflexivity.
  - vm_compute. reflexivity.
  - discriminate.
Qed.
