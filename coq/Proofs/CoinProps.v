(* C19 — history-level corollaries of Proofs/Coin.v in the form quoted by Props/C19.v.  stdlib style. *)
From VBase Require Import MachInt.
From VGen Require Import F64.
From VModel Require Import ToyHash Coin.
From VProofs Require Import Coin F64Red F64Ops.
Open Scope Z_scope.

Section Hist.
  Variable D : Type.
  Variable merge : D -> D -> D.
  Variable merge_with_int : D -> Z -> D.
  Variable dbytes : D -> list Z.

  Local Notation draw := (coin_draw D merge_with_int dbytes).
  Local Notation draw_integers := (coin_draw_integers D merge_with_int dbytes).
  Local Notation step := (step D merge merge_with_int dbytes).
  Local Notation run := (run D merge merge_with_int dbytes).

  Theorem draw_valid k c c' e : draw k c = (c', Ok e) ->
    length e = fk_deg k /\ Forall (fun v => v < fk_M k) e.
  Proof. unfold coin_draw. intros H. eapply draw_loop_valid. exact H. Qed.

  Theorem draw_valid_nonneg k c c' e : (forall d, Forall (fun b => 0 <= b < 256) (dbytes d)) ->
    draw k c = (c', Ok e) -> length e = fk_deg k /\ Forall (fun v => 0 <= v < fk_M k) e.
  Proof.
    intros Hb H. destruct (draw_valid k c c' e H) as [Hl Hlt]. split; [assumption|].
    assert (Hn : Forall (fun v => 0 <= v) e).
    { unfold coin_draw in H. eapply draw_loop_nonneg; [|eassumption].
      intros d. eapply Forall_impl; [|apply Hb]. cbn. intros; lia. }
    rewrite Forall_forall in *. intros v Hv. specialize (Hlt v Hv). specialize (Hn v Hv). cbn in *. lia.
  Qed.

  (* draw returns the FIRST admissible counter-mode output, and fails only if the next 1000 are all inadmissible *)
  Theorem draw_first_valid k c c' r : draw k c = (c', r) ->
    0 <= counter c -> counter c + 1000 < 2 ^ 64 -> (elem_bytes k <= 32)%nat ->
    seed c' = seed c /\
    match r with
    | Ok e => exists j, 1 <= j <= 1000 /\ counter c' = counter c + j /\
                from_random_bytes k (draw_bytes D merge_with_int dbytes k (seed c) (counter c) j) = Some e /\
                forall i, 1 <= i < j ->
                  from_random_bytes k (draw_bytes D merge_with_int dbytes k (seed c) (counter c) i) = None
    | Err => counter c' = counter c + 1000 /\
             forall i, 1 <= i <= 1000 ->
               from_random_bytes k (draw_bytes D merge_with_int dbytes k (seed c) (counter c) i) = None
    | Panic => False
    end.
  Proof.
    intros H Hc Hov Hsz. unfold coin_draw in H.
    apply (draw_loop_spec D merge_with_int dbytes) in H; [|change (Z.of_nat draw_tries) with 1000; lia|assumption].
    change (Z.of_nat draw_tries) with 1000 in H. exact H.
  Qed.

  (* f64: the value is stored as BaseElement::new(v); the internal Montgomery word is canonical and denotes v *)
  Theorem draw_f64_internal_canonical deg c c' e :
    (forall d, Forall (fun b => 0 <= b < 256) (dbytes d)) -> draw (fk_f64 deg) c = (c', Ok e) ->
    Forall (fun v => repr (f64_new v) /\ val (f64_new v) = v) e.
  Proof.
    intros Hb H. destruct (draw_valid_nonneg _ _ _ _ Hb H) as [_ Hr].
    eapply Forall_impl; [|exact Hr]. cbn. intros v Hv. change mod_f64 with M in Hv.
    destruct (f64_new_spec v) as [H1 H2]; [unfold M in *; lia|].
    split; [exact H1|]. etransitivity; [exact H2|]. apply Z.mod_small. exact Hv.
  Qed.

  Theorem draw_integers_ok_inv c c' n dom nonce vals : 1 <= n ->
    draw_integers c n dom nonce = (c', Ok vals) ->
    is_pow2 dom = true /\ n < dom /\ n <= 1000 /\ Z.of_nat (length vals) = n /\
    Forall (fun v => 0 <= v < dom) vals /\ c' = mkCoin (merge_with_int (seed c) nonce) n.
  Proof.
    intros Hn H. rewrite (draw_integers_spec D merge_with_int dbytes) in H by lia. cbv zeta in H.
    destruct (is_pow2 dom) eqn:Ep; cbn [negb] in H; [|discriminate].
    destruct (dom <=? n) eqn:El; [discriminate|]. apply Z.leb_gt in El.
    replace (n =? 0) with false in H by (symmetry; apply Z.eqb_neq; lia).
    destruct (n <=? 1000) eqn:E1; [|discriminate]. apply Z.leb_le in E1.
    injection H as <- <-. apply is_pow2_spec in Ep as Hk. destruct Hk as [k [Hk ->]].
    rewrite ints_vals_length. repeat split; try lia; try reflexivity.
    apply ints_vals_range. assumption.
  Qed.

  (* ---------------------------------------------------------------------------------------------- whole histories *)
  Theorem run_draws_valid c ops i k e :
    nth_error ops i = Some (OpDraw k) -> nth_error (snd (run c ops)) i = Some (OutElem (Ok e)) ->
    length e = fk_deg k /\ Forall (fun v => v < fk_M k) e.
  Proof.
    revert c i. induction ops as [|o ops IH]; intros c i Ho Hx; [destruct i; discriminate|].
    cbn [Coin.run] in Hx. destruct (step c o) as [c1 x] eqn:Es. destruct (run c1 ops) as [c2 xs] eqn:Er.
    cbn [snd] in Hx. destruct i as [|i]; cbn [nth_error] in *.
    - injection Ho as ->. injection Hx as ->. cbn [Coin.step] in Es.
      destruct (draw k c) as [c' r] eqn:Ed. injection Es as _ ->. eapply draw_valid; eassumption.
    - apply (IH c1 i Ho). rewrite Er. exact Hx.
  Qed.

  Theorem run_ints_valid c ops i n dom nonce vals : 1 <= n ->
    nth_error ops i = Some (OpInts n dom nonce) -> nth_error (snd (run c ops)) i = Some (OutInts (Ok vals)) ->
    Z.of_nat (length vals) = n /\ Forall (fun v => 0 <= v < dom) vals.
  Proof.
    intros Hn. revert c i. induction ops as [|o ops IH]; intros c i Ho Hx; [destruct i; discriminate|].
    cbn [Coin.run] in Hx. destruct (step c o) as [c1 x] eqn:Es. destruct (run c1 ops) as [c2 xs] eqn:Er.
    cbn [snd] in Hx. destruct i as [|i]; cbn [nth_error] in *.
    - injection Ho as ->. injection Hx as ->. cbn [Coin.step] in Es.
      destruct (draw_integers c n dom nonce) as [c' r] eqn:Ed. injection Es as _ ->.
      apply draw_integers_ok_inv in Ed; [|assumption]. tauto.
    - apply (IH c1 i Ho). rewrite Er. exact Hx.
  Qed.

  (* check_leading_zeros is transparent: deleting all its calls from a history changes neither the final state nor
     any other output *)
  Definition not_lz (o : op D) : bool := match o with OpLz _ => false | _ => true end.
  Definition not_lz_out (x : out) : bool := match x with OutLz _ => false | _ => true end.

  Theorem lz_transparent c ops :
    run c (filter not_lz ops) = (fst (run c ops), filter not_lz_out (snd (run c ops))).
  Proof.
    revert c. induction ops as [|o ops IH]; intros c; [reflexivity|].
    cbn [filter Coin.run]. destruct o as [d|k|n dom nonce|v]; cbn [not_lz].
    - cbn [Coin.run Coin.step]. rewrite IH. destruct (run (coin_reseed D merge c d) ops). reflexivity.
    - cbn [Coin.run Coin.step]. destruct (draw k c) as [c1 r]. rewrite IH. destruct (run c1 ops). reflexivity.
    - cbn [Coin.run Coin.step]. destruct (draw_integers c n dom nonce) as [c1 r]. rewrite IH. destruct (run c1 ops). reflexivity.
    - cbn [Coin.step]. rewrite IH. destruct (run c ops). reflexivity.
  Qed.
End Hist.
