(* C15 — the family of two-power roots of unity `B::get_root_of_unity(k)`, k <= TWO_ADICITY, from three facts:
   get_root_of_unity(k+1)^2 = get_root_of_unity(k), get_root_of_unity(1) = -1, and 1 + 1 <> 0.
   Derived: order exactly 2^k (primitive), compatibility rou(j+k)^(2^j) = rou(k), 2^k invertible.  stdlib style. *)
From Coq Require Import List Arith Bool Lia Ring Field.
From VBase Require Import FieldOps.
From VModel Require Import Fri.
From VProofs Require Import FriField.
Import ListNotations.

Section Roots.
Context {F : Type} (O : FOps F) (L : FLaws O).
Add Ring FringR : (FLaws_ring_theory O L).
Add Field FfieldR : (FLaws_field_theory O L).

Local Notation zero := (fzero O).
Local Notation one := (fone O).
Local Infix "+f" := (fadd O) (at level 50, left associativity).
Local Infix "*f" := (fmul O) (at level 40, left associativity).
Local Notation "-f x" := (fneg O x) (at level 35, right associativity).
Local Notation fpow := (fpow O).

Variable rou : nat -> F.
Variable K : nat.
Hypothesis K_pos : 1 <= K.
Hypothesis rou_sq : forall k, k < K -> rou (S k) *f rou (S k) = rou k.
Hypothesis rou_1 : rou 1 = -f one.
Hypothesis two_nz : one +f one <> zero.

Lemma fpow_sq x n : fpow (x *f x) n = fpow x (2 * n).
Proof. replace (x *f x) with (fpow x 2) by (cbn [Fri.fpow]; ring). now rewrite <- (fpow_mul O L). Qed.

Lemma rou_0 : rou 0 = one.
Proof. rewrite <- (rou_sq 0) by lia. rewrite rou_1. ring. Qed.

Lemma rou_pow2 : forall j k, j + k <= K -> fpow (rou (j + k)) (2 ^ j) = rou k.
Proof.
  induction j as [|j IH]; intros k H; cbn [Nat.add Nat.pow].
  - cbn. ring.
  - rewrite <- fpow_sq, rou_sq by lia. apply IH. lia.
Qed.

Lemma rou_order k : k <= K -> fpow (rou k) (2 ^ k) = one.
Proof. intros H. rewrite <- rou_0. rewrite <- (rou_pow2 k 0) by lia. now rewrite Nat.add_0_r. Qed.

Lemma rou_half k : 1 <= k <= K -> fpow (rou k) (2 ^ (k - 1)) = -f one.
Proof. intros H. rewrite <- rou_1. rewrite <- (rou_pow2 (k - 1) 1) by lia. now replace (k - 1 + 1) with k by lia. Qed.

Lemma fpow_neg1_odd e : fpow (-f one) (2 * e + 1) = -f one.
Proof.
  rewrite (fpow_add O L), <- fpow_sq. replace (-f one *f -f one) with one by ring.
  rewrite (fpow_one O L). cbn. ring.
Qed.

Lemma neg1_neq_1 : -f one <> one.
Proof. intros H. apply two_nz. rewrite <- H at 1. ring. Qed.

Lemma rou_prim : forall k, k <= K -> forall d, 0 < d < 2 ^ k -> fpow (rou k) d <> one.
Proof.
  induction k as [|k IH]; intros Hk d Hd; [cbn in Hd; lia|].
  intros E. destruct (Nat.Even_or_Odd d) as [[e He]|[e He]]; subst d.
  - apply (IH ltac:(lia) e); [cbn [Nat.pow] in Hd; lia|].
    rewrite <- (rou_sq k) by lia. now rewrite fpow_sq.
  - assert (E2 : fpow (fpow (rou (S k)) (2 ^ k)) (2 * e + 1) = one).
    { rewrite <- (fpow_mul O L), Nat.mul_comm, (fpow_mul O L), E. apply (fpow_one O L). }
    rewrite <- (Nat.sub_0_r k) in E2 at 2. replace (k - 0) with (S k - 1) in E2 by lia.
    rewrite rou_half, fpow_neg1_odd in E2 by lia. now apply neg1_neq_1.
Qed.

Lemma rou_nonzero k : k <= K -> rou k <> zero.
Proof.
  intros Hk Hz. pose proof (rou_order k Hk) as H. rewrite Hz in H.
  assert (Hp : 2 ^ k <> 0) by (apply Nat.pow_nonzero; lia).
  destruct (2 ^ k) as [|m]; [contradiction|]. cbn [Fri.fpow] in H.
  apply (fl_one_neq_zero O L). rewrite <- H. ring.
Qed.

Lemma fnat_add a b : fnat O (a + b) = fnat O a +f fnat O b.
Proof. induction a; cbn [Nat.add fnat]; [ring | rewrite IHa; ring]. Qed.

Lemma fnat_pow2_nonzero k : fnat O (2 ^ k) <> zero.
Proof.
  induction k as [|k IH]; cbn [Nat.pow].
  - cbn. intros H. apply (fl_one_neq_zero O L). rewrite <- H. ring.
  - replace (2 * 2 ^ k) with (2 ^ k + 2 ^ k) by lia. rewrite fnat_add.
    intros H. replace (fnat O (2 ^ k) +f fnat O (2 ^ k)) with ((one +f one) *f fnat O (2 ^ k)) in H by ring.
    apply (fmul_integral O L) in H. tauto.
Qed.

(* the inverse-twiddle root of get_inv_twiddles(2^k): root^(2^k - 1) is the inverse of the root *)
Lemma rou_inv k : k <= K -> rou k *f fpow (rou k) (2 ^ k - 1) = one.
Proof.
  intros Hk. assert (Hp : 2 ^ k <> 0) by (apply Nat.pow_nonzero; lia).
  change (rou k *f fpow (rou k) (2 ^ k - 1)) with (fpow (rou k) (S (2 ^ k - 1))).
  replace (S (2 ^ k - 1)) with (2 ^ k) by lia. now apply rou_order.
Qed.

End Roots.
