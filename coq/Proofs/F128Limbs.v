(* f128: limb-level helper functions of math/src/field/f128/mod.rs (generated terms in Gen/F128.v)
   against integer arithmetic.  A limb is a Z in [0, 2^64); a triple (z0,z1,z2) denotes
   z0 + z1*2^64 + z2*2^128. *)
From VBase Require Import MachInt.
From VGen Require Import F128.
Open Scope Z_scope.

Definition M : Z := 340282366920938463463374557953744961537.
Definition C : Z := 49478023249919.                    (* 45 * 2^40 - 1 = 2^128 - M *)
Lemma M_eq : f128_M = M. Proof. reflexivity. Qed.
Lemma M_val : M = 2^128 - 45 * 2^40 + 1. Proof. reflexivity. Qed.
Lemma M_C : M = 2^128 - C. Proof. reflexivity. Qed.
Lemma C_val : C = 45 * 2^40 - 1. Proof. reflexivity. Qed.
Lemma M_lo : wrap 64 f128_M = 2^64 - C. Proof. reflexivity. Qed.
Lemma M_hi : wrap 64 (shr f128_M 64) = 2^64 - 1. Proof. reflexivity. Qed.
Lemma M_limbs : M = (2^64 - C) + (2^64 - 1) * 2^64. Proof. reflexivity. Qed.

Lemma mod_eq a b q r : 0 <= r < b -> a = q * b + r -> a mod b = r.
Proof. intros H ->. rewrite Z.add_comm, Z.mod_add by lia. apply Z.mod_small; lia. Qed.
Lemma div_eq a b q r : 0 <= r < b -> a = q * b + r -> a / b = q.
Proof. intros H ->. symmetry. apply (Z.div_unique _ b q r); lia. Qed.

(* low limb / rest of a non-negative number *)
Lemma split64 z : 0 <= z ->
  0 <= wrap 64 z < 2^64 /\ 0 <= shr z 64 /\ z = wrap 64 z + shr z 64 * 2^64.
Proof.
  intros Hz. unfold wrap, shr.
  pose proof (Z.div_mod z (2^64)). pose proof (Z.mod_pos_bound z (2^64)).
  pose proof (Z.div_pos z (2^64)). lia.
Qed.

Lemma shl_limb x : 0 <= x < 2^64 -> shl 128 x 64 = x * 2^64.
Proof. intros H. unfold shl. apply Z.mod_small. lia. Qed.

(* ------------------------------------------------------------------ add64_with_carry *)
Theorem add64_with_carry_spec a b c :
  0 <= a < 2^64 -> 0 <= b < 2^64 -> 0 <= c < 2^64 ->
  let '(r, k) := f128_add64_with_carry a b c in
  0 <= r < 2^64 /\ 0 <= k <= 2 /\ r + k * 2^64 = a + b + c.
Proof.
  intros Ha Hb Hc. unfold f128_add64_with_carry. cbv zeta.
  assert (E : wrap 128 (wrap 128 (a + b) + c) = a + b + c).
  { unfold wrap. rewrite (Z.mod_small (a + b)) by lia. apply Z.mod_small; lia. }
  rewrite E. destruct (split64 (a + b + c)) as (H1 & H2 & H3); [lia|].
  rewrite (wrap_small 64 (shr (a + b + c) 64)) by lia. lia.
Qed.

Theorem add64_with_carry_ok_spec a b c :
  0 <= a < 2^64 -> 0 <= b < 2^64 -> 0 <= c < 2^64 -> f128_add64_with_carry_ok a b c = true.
Proof.
  intros Ha Hb Hc. unfold f128_add64_with_carry_ok, in_u.
  rewrite (wrap_small 128 (a + b)) by lia.
  apply andb_true_iff; split; lia.
Qed.

(* ------------------------------------------------------------------ add_192x192 *)
Lemma add_limb_step a b c : 0 <= a < 2^64 -> 0 <= b < 2^64 -> 0 <= c <= 1 ->
  let z := wrap 128 (wrap 128 (a + b) + c) in
  z = a + b + c /\ 0 <= wrap 64 z < 2^64 /\ 0 <= shr z 64 <= 1 /\ wrap 64 z + shr z 64 * 2^64 = a + b + c.
Proof.
  intros Ha Hb Hc. cbv zeta.
  assert (E : wrap 128 (wrap 128 (a + b) + c) = a + b + c).
  { unfold wrap. rewrite (Z.mod_small (a + b)) by lia. apply Z.mod_small; lia. }
  rewrite E. destruct (split64 (a + b + c)) as (H1 & H2 & H3); [lia|]. lia.
Qed.

Theorem add_192x192_spec a0 a1 a2 b0 b1 b2 :
  0 <= a0 < 2^64 -> 0 <= a1 < 2^64 -> 0 <= a2 < 2^64 ->
  0 <= b0 < 2^64 -> 0 <= b1 < 2^64 -> 0 <= b2 < 2^64 ->
  let '(r0, r1, r2) := f128_add_192x192 a0 a1 a2 b0 b1 b2 in
  0 <= r0 < 2^64 /\ 0 <= r1 < 2^64 /\ 0 <= r2 < 2^64 /\
  r0 + r1 * 2^64 + r2 * 2^128 =
    ((a0 + a1 * 2^64 + a2 * 2^128) + (b0 + b1 * 2^64 + b2 * 2^128)) mod 2^192.
Proof.
  intros Ha0 Ha1 Ha2 Hb0 Hb1 Hb2. unfold f128_add_192x192. cbv zeta.
  assert (E0 : wrap 128 (a0 + b0) = wrap 128 (wrap 128 (a0 + b0) + 0)).
  { rewrite Z.add_0_r. unfold wrap. now rewrite Z.mod_mod by lia. }
  rewrite E0.
  destruct (add_limb_step a0 b0 0 Ha0 Hb0 ltac:(lia)) as (_ & R0 & K0 & S0).
  set (z0 := wrap 128 (wrap 128 (a0 + b0) + 0)) in *.
  destruct (add_limb_step a1 b1 (shr z0 64) Ha1 Hb1 K0) as (_ & R1 & K1 & S1).
  set (z1 := wrap 128 (wrap 128 (a1 + b1) + shr z0 64)) in *.
  destruct (add_limb_step a2 b2 (shr z1 64) Ha2 Hb2 K1) as (_ & R2 & K2 & S2).
  set (z2 := wrap 128 (wrap 128 (a2 + b2) + shr z1 64)) in *.
  repeat split; try lia.
  symmetry. apply (mod_eq _ _ (shr z2 64)); lia.
Qed.

Corollary add_192x192_exact a0 a1 a2 b0 b1 b2 :
  0 <= a0 < 2^64 -> 0 <= a1 < 2^64 -> 0 <= a2 < 2^64 ->
  0 <= b0 < 2^64 -> 0 <= b1 < 2^64 -> 0 <= b2 < 2^64 ->
  (a0 + a1 * 2^64 + a2 * 2^128) + (b0 + b1 * 2^64 + b2 * 2^128) < 2^192 ->
  let '(r0, r1, r2) := f128_add_192x192 a0 a1 a2 b0 b1 b2 in
  0 <= r0 < 2^64 /\ 0 <= r1 < 2^64 /\ 0 <= r2 < 2^64 /\
  r0 + r1 * 2^64 + r2 * 2^128 = (a0 + a1 * 2^64 + a2 * 2^128) + (b0 + b1 * 2^64 + b2 * 2^128).
Proof.
  intros Ha0 Ha1 Ha2 Hb0 Hb1 Hb2 Hlt.
  pose proof (add_192x192_spec a0 a1 a2 b0 b1 b2 Ha0 Ha1 Ha2 Hb0 Hb1 Hb2) as H.
  destruct (f128_add_192x192 a0 a1 a2 b0 b1 b2) as [[r0 r1] r2].
  rewrite Z.mod_small in H by lia. exact H.
Qed.

Theorem add_192x192_ok_spec a0 a1 a2 b0 b1 b2 :
  0 <= a0 < 2^64 -> 0 <= a1 < 2^64 -> 0 <= a2 < 2^64 ->
  0 <= b0 < 2^64 -> 0 <= b1 < 2^64 -> 0 <= b2 < 2^64 ->
  f128_add_192x192_ok a0 a1 a2 b0 b1 b2 = true.
Proof.
  intros Ha0 Ha1 Ha2 Hb0 Hb1 Hb2. unfold f128_add_192x192_ok. cbv zeta.
  assert (E0 : wrap 128 (a0 + b0) = wrap 128 (wrap 128 (a0 + b0) + 0)).
  { rewrite Z.add_0_r. unfold wrap. now rewrite Z.mod_mod by lia. }
  rewrite E0.
  destruct (add_limb_step a0 b0 0 Ha0 Hb0 ltac:(lia)) as (_ & R0 & K0 & S0).
  set (z0 := wrap 128 (wrap 128 (a0 + b0) + 0)) in *.
  destruct (add_limb_step a1 b1 (shr z0 64) Ha1 Hb1 K0) as (_ & R1 & K1 & S1).
  set (z1 := wrap 128 (wrap 128 (a1 + b1) + shr z0 64)) in *.
  rewrite (wrap_small 128 (a1 + b1)), (wrap_small 128 (a2 + b2)) by lia.
  unfold in_u. repeat (apply andb_true_iff; split); lia.
Qed.

(* ------------------------------------------------------------------ sub_192x192 *)
(* the borrow trick: for a difference d of two 64(+1)-bit numbers, bit 127 of the wrapped
   u128 difference is the borrow *)
Lemma borrow_step d : - 2^64 <= d < 2^64 ->
  let z := wrap 128 d in
  let bw := if d <? 0 then 1 else 0 in
  wrap 64 z = d + bw * 2^64 /\ shr z 127 = bw.
Proof.
  intros Hd. cbv zeta. unfold wrap, shr.
  destruct (Z.ltb_spec d 0) as [H|H].
  - assert (E : d mod 2^128 = d + 2^128) by (apply (mod_eq _ _ (-1)); lia).
    rewrite E. split.
    + apply (mod_eq _ _ (2^64 - 1)); lia.
    + apply (div_eq _ _ 1 (d + 2^127)); lia.
  - rewrite (Z.mod_small d (2^128)) by lia. split.
    + rewrite Z.mod_small; lia.
    + apply Z.div_small; lia.
Qed.

Theorem sub_192x192_spec a0 a1 a2 b0 b1 b2 :
  0 <= a0 < 2^64 -> 0 <= a1 < 2^64 -> 0 <= a2 < 2^64 ->
  0 <= b0 < 2^64 -> 0 <= b1 < 2^64 -> 0 <= b2 < 2^64 ->
  let '(r0, r1, r2) := f128_sub_192x192 a0 a1 a2 b0 b1 b2 in
  0 <= r0 < 2^64 /\ 0 <= r1 < 2^64 /\ 0 <= r2 < 2^64 /\
  r0 + r1 * 2^64 + r2 * 2^128 =
    ((a0 + a1 * 2^64 + a2 * 2^128) - (b0 + b1 * 2^64 + b2 * 2^128)) mod 2^192.
Proof.
  intros Ha0 Ha1 Ha2 Hb0 Hb1 Hb2. unfold f128_sub_192x192. cbv zeta.
  destruct (borrow_step (a0 - b0) ltac:(lia)) as (R0 & K0).
  set (z0 := wrap 128 (a0 - b0)) in *.
  set (k0 := if a0 - b0 <? 0 then 1 else 0) in *.
  assert (Hk0 : 0 <= k0 <= 1) by (unfold k0; destruct (a0 - b0 <? 0); lia).
  rewrite K0, (wrap_small 128 (b1 + k0)) by lia.
  destruct (borrow_step (a1 - (b1 + k0)) ltac:(lia)) as (R1 & K1).
  set (z1 := wrap 128 (a1 - (b1 + k0))) in *.
  set (k1 := if a1 - (b1 + k0) <? 0 then 1 else 0) in *.
  assert (Hk1 : 0 <= k1 <= 1) by (unfold k1; destruct (a1 - (b1 + k0) <? 0); lia).
  rewrite K1, (wrap_small 128 (b2 + k1)) by lia.
  destruct (borrow_step (a2 - (b2 + k1)) ltac:(lia)) as (R2 & K2).
  set (z2 := wrap 128 (a2 - (b2 + k1))) in *.
  set (k2 := if a2 - (b2 + k1) <? 0 then 1 else 0) in *.
  assert (Hk2 : 0 <= k2 <= 1) by (unfold k2; destruct (a2 - (b2 + k1) <? 0); lia).
  pose proof (wrap_range 64 z0 ltac:(lia)). pose proof (wrap_range 64 z1 ltac:(lia)).
  pose proof (wrap_range 64 z2 ltac:(lia)).
  repeat split; try lia.
  symmetry. apply (mod_eq _ _ (- k2)); lia.
Qed.

Corollary sub_192x192_exact a0 a1 a2 b0 b1 b2 :
  0 <= a0 < 2^64 -> 0 <= a1 < 2^64 -> 0 <= a2 < 2^64 ->
  0 <= b0 < 2^64 -> 0 <= b1 < 2^64 -> 0 <= b2 < 2^64 ->
  b0 + b1 * 2^64 + b2 * 2^128 <= a0 + a1 * 2^64 + a2 * 2^128 ->
  let '(r0, r1, r2) := f128_sub_192x192 a0 a1 a2 b0 b1 b2 in
  0 <= r0 < 2^64 /\ 0 <= r1 < 2^64 /\ 0 <= r2 < 2^64 /\
  r0 + r1 * 2^64 + r2 * 2^128 = (a0 + a1 * 2^64 + a2 * 2^128) - (b0 + b1 * 2^64 + b2 * 2^128).
Proof.
  intros Ha0 Ha1 Ha2 Hb0 Hb1 Hb2 Hle.
  pose proof (sub_192x192_spec a0 a1 a2 b0 b1 b2 Ha0 Ha1 Ha2 Hb0 Hb1 Hb2) as H.
  destruct (f128_sub_192x192 a0 a1 a2 b0 b1 b2) as [[r0 r1] r2].
  rewrite Z.mod_small in H by lia. exact H.
Qed.

Theorem sub_192x192_ok_spec a0 a1 a2 b0 b1 b2 :
  0 <= a0 < 2^64 -> 0 <= a1 < 2^64 -> 0 <= a2 < 2^64 ->
  0 <= b0 < 2^64 -> 0 <= b1 < 2^64 -> 0 <= b2 < 2^64 ->
  f128_sub_192x192_ok a0 a1 a2 b0 b1 b2 = true.
Proof.
  intros Ha0 Ha1 Ha2 Hb0 Hb1 Hb2. unfold f128_sub_192x192_ok. cbv zeta.
  destruct (borrow_step (a0 - b0) ltac:(lia)) as (R0 & K0).
  set (k0 := if a0 - b0 <? 0 then 1 else 0) in *.
  assert (Hk0 : 0 <= k0 <= 1) by (unfold k0; destruct (a0 - b0 <? 0); lia).
  rewrite K0, (wrap_small 128 (b1 + k0)) by lia.
  destruct (borrow_step (a1 - (b1 + k0)) ltac:(lia)) as (R1 & K1).
  set (k1 := if a1 - (b1 + k0) <? 0 then 1 else 0) in *.
  assert (Hk1 : 0 <= k1 <= 1) by (unfold k1; destruct (a1 - (b1 + k0) <? 0); lia).
  rewrite K1. unfold in_u. repeat (apply andb_true_iff; split); lia.
Qed.

(* ------------------------------------------------------------------ sub_modulus *)
Theorem sub_modulus_spec lo hi : 0 <= lo < 2^64 -> 0 <= hi < 2^64 ->
  let '(r0, r1) := f128_sub_modulus lo hi in
  0 <= r0 < 2^64 /\ 0 <= r1 < 2^64 /\ r0 + r1 * 2^64 = (lo + hi * 2^64 - M) mod 2^128.
Proof.
  intros Hlo Hhi. unfold f128_sub_modulus. cbv zeta.
  replace (wrap 128 (0 - f128_M)) with C by reflexivity.
  rewrite shl_limb by exact Hhi.
  assert (E : wrap 128 (wrap 128 (C + lo) + hi * 2^64) = (lo + hi * 2^64 - M) mod 2^128).
  { unfold wrap. rewrite Zplus_mod_idemp_l.
    replace (C + lo + hi * 2^64) with (lo + hi * 2^64 - M + 1 * 2^128) by (rewrite M_C; ring).
    apply Z.mod_add. lia. }
  rewrite E. set (z := (lo + hi * 2^64 - M) mod 2^128).
  assert (Hz : 0 <= z < 2^128) by (apply Z.mod_pos_bound; lia).
  destruct (split64 z) as (H1 & H2 & H3); [lia|].
  rewrite (wrap_small 64 (shr z 64)) by lia. lia.
Qed.

(* ------------------------------------------------------------------ mul_by_modulus *)
Theorem mul_by_modulus_spec a : 0 <= a < 2^64 ->
  let '(q0, q1, q2) := f128_mul_by_modulus a in
  0 <= q0 < 2^64 /\ 0 <= q1 < 2^64 /\ 0 <= q2 < 2^64 /\
  q0 + q1 * 2^64 + q2 * 2^128 = a * M.
Proof.
  intros Ha. unfold f128_mul_by_modulus. cbv zeta. rewrite M_eq.
  destruct (Z.eqb_spec a 0) as [->|Hnz].
  - cbv. repeat split; discriminate || reflexivity.
  - (* a*M = (a-1)*2^128 + (2^128 - a*C), and 0 < a*C < 2^128 *)
    assert (E : wrap 128 (a * M) = 2^128 - a * C).
    { unfold wrap. apply (mod_eq _ _ (a - 1)); [unfold C; lia| rewrite M_C; ring]. }
    rewrite E, (wrap_small 64 (a - 1)) by lia.
    destruct (split64 (2^128 - a * C)) as (H1 & H2 & H3); [unfold C; lia|].
    rewrite (wrap_small 64 (shr (2^128 - a * C) 64)) by (unfold C in *; lia).
    repeat split; try (unfold C in *; lia).
    rewrite M_C. unfold C in *. lia.
Qed.

Theorem mul_by_modulus_ok_spec a : 0 <= a < 2^64 -> f128_mul_by_modulus_ok a = true.
Proof.
  intros Ha. unfold f128_mul_by_modulus_ok. cbv zeta.
  destruct (Z.eqb_spec a 0); [reflexivity|]. unfold in_u. apply andb_true_iff; split; lia.
Qed.

(* ------------------------------------------------------------------ mul_128x64 *)
Lemma mul_limbs_bound x y : 0 <= x < 2^64 -> 0 <= y < 2^64 -> 0 <= x * y <= (2^64 - 1) * (2^64 - 1).
Proof. intros Hx Hy. split; [apply Z.mul_nonneg_nonneg; lia|]. apply Z.mul_le_mono_nonneg; lia. Qed.

Theorem mul_128x64_spec a b : 0 <= a < 2^128 -> 0 <= b < 2^64 ->
  let '(z0, z1, z2) := f128_mul_128x64 a b in
  0 <= z0 < 2^64 /\ 0 <= z1 < 2^64 /\ 0 <= z2 < 2^64 /\
  z0 + z1 * 2^64 + z2 * 2^128 = a * b.
Proof.
  intros Ha Hb. unfold f128_mul_128x64. cbv zeta.
  destruct (split64 a) as (Hl & Hh & Ea); [lia|].
  set (al := wrap 64 a) in *. set (ah := shr a 64) in *.
  assert (Hah : ah < 2^64) by lia.
  pose proof (mul_limbs_bound al b Hl Hb) as B1.
  pose proof (mul_limbs_bound ah b ltac:(lia) Hb) as B2.
  assert (Eab : a * b = al * b + ah * b * 2^64) by (rewrite Ea; ring).
  set (p1 := al * b) in *. set (p2 := ah * b) in *.
  rewrite (wrap_small 128 p1), (wrap_small 128 p2) by lia.
  destruct (split64 p1) as (H1 & H2 & H3); [lia|].
  rewrite (wrap_small 128 (p2 + shr p1 64)) by lia.
  destruct (split64 (p2 + shr p1 64)) as (H4 & H5 & H6); [lia|].
  rewrite (wrap_small 64 (shr (p2 + shr p1 64) 64)) by lia.
  repeat split; lia.
Qed.

Theorem mul_128x64_ok_spec a b : 0 <= a < 2^128 -> 0 <= b < 2^64 -> f128_mul_128x64_ok a b = true.
Proof.
  intros Ha Hb. unfold f128_mul_128x64_ok. cbv zeta.
  destruct (split64 a) as (Hl & Hh & Ea); [lia|].
  set (al := wrap 64 a) in *. set (ah := shr a 64) in *.
  assert (Hah : ah < 2^64) by lia.
  pose proof (mul_limbs_bound al b Hl Hb) as B1.
  pose proof (mul_limbs_bound ah b ltac:(lia) Hb) as B2.
  set (p1 := al * b) in *. set (p2 := ah * b) in *.
  rewrite (wrap_small 128 p1), (wrap_small 128 p2) by lia.
  destruct (split64 p1) as (H1 & H2 & H3); [lia|].
  unfold in_u. repeat (apply andb_true_iff; split); lia.
Qed.

(* ------------------------------------------------------------------ mul_reduce *)
(* z - z2*M = z0 + z1*2^64 + z2*C : at most 2^128 + 2^110, so the top limb is 0 or 1 *)
Theorem mul_reduce_spec z0 z1 z2 : 0 <= z0 < 2^64 -> 0 <= z1 < 2^64 -> 0 <= z2 < 2^64 ->
  let '(r0, r1, r2) := f128_mul_reduce z0 z1 z2 in
  0 <= r0 < 2^64 /\ 0 <= r1 < 2^64 /\ 0 <= r2 <= 1 /\
  r0 + r1 * 2^64 + r2 * 2^128 = (z0 + z1 * 2^64 + z2 * 2^128) - z2 * M /\
  (r2 = 1 -> r0 + r1 * 2^64 < 2^110).
Proof.
  intros H0 H1 H2. unfold f128_mul_reduce.
  pose proof (mul_by_modulus_spec z2 H2) as Hq.
  destruct (f128_mul_by_modulus z2) as [[q0 q1] q2]. destruct Hq as (Q0 & Q1 & Q2 & Eq).
  pose proof (sub_192x192_spec z0 z1 z2 q0 q1 q2 H0 H1 H2 Q0 Q1 Q2) as Hs.
  destruct (f128_sub_192x192 z0 z1 z2 q0 q1 q2) as [[r0 r1] r2].
  destruct Hs as (R0 & R1 & R2 & Er).
  rewrite Eq in Er.
  assert (Ev : z0 + z1 * 2^64 + z2 * 2^128 - z2 * M = z0 + z1 * 2^64 + z2 * C) by (rewrite M_C; ring).
  rewrite Ev in *.
  rewrite Z.mod_small in Er by (unfold C; lia).
  unfold C in *. repeat split; lia.
Qed.

Theorem mul_reduce_ok_spec z0 z1 z2 : 0 <= z0 < 2^64 -> 0 <= z1 < 2^64 -> 0 <= z2 < 2^64 ->
  f128_mul_reduce_ok z0 z1 z2 = true.
Proof.
  intros H0 H1 H2. unfold f128_mul_reduce_ok.
  rewrite mul_by_modulus_ok_spec by exact H2.
  pose proof (mul_by_modulus_spec z2 H2) as Hq.
  destruct (f128_mul_by_modulus z2) as [[q0 q1] q2]. destruct Hq as (Q0 & Q1 & Q2 & Eq).
  now rewrite sub_192x192_ok_spec.
Qed.
