(* C07 coverage round: integer / bool conversions, conjugate, compound assignments, base_element
   (generated terms of Gen/F64.v, Gen/F62.v, Gen/F128.v) and the zero-copy byte views
   (hand model Model/FieldBytes.v). *)
From VBase Require Import MachInt.
From VGen Require F64 F62 F128.
From VModel Require Import FieldBytes.
From VProofs Require F64Red F64Ops F62Ops F128Limbs F128Ops FieldBytesSpec.
Open Scope Z_scope.

Notation byte := FieldBytesSpec.byte.

(* ------------------------------------------------------------------ f64 *)
Module C64.
Import F64 F64Red F64Ops.

Lemma new_small x : 0 <= x < 2^32 -> repr (f64_new x) /\ val (f64_new x) = x /\ f64_new_ok x = true.
Proof.
  intros Hx. destruct (f64_new_spec x ltac:(lia)) as [R V]. split; [exact R|]. split.
  - rewrite V. apply Z.mod_small. unfold M. lia.
  - unfold f64_new_ok, in_u, f64_R2. apply andb_true_iff; split; lia.
Qed.

Theorem f64_from_u8_spec x : 0 <= x < 2^8 ->
  repr (f64_from_u8 x) /\ val (f64_from_u8 x) = x /\ f64_from_u8_ok x = true.
Proof. intros H. apply new_small. lia. Qed.
Theorem f64_from_u16_spec x : 0 <= x < 2^16 ->
  repr (f64_from_u16 x) /\ val (f64_from_u16 x) = x /\ f64_from_u16_ok x = true.
Proof. intros H. apply new_small. lia. Qed.
Theorem f64_from_u32_spec x : 0 <= x < 2^32 ->
  repr (f64_from_u32 x) /\ val (f64_from_u32 x) = x /\ f64_from_u32_ok x = true.
Proof. intros H. apply new_small. lia. Qed.
Theorem f64_from_bool_spec b :
  repr (f64_from_bool b) /\ val (f64_from_bool b) = b2z b /\ f64_from_bool_ok b = true.
Proof. apply new_small. destruct b; cbn; lia. Qed.

Theorem f64_try_from_u64_spec v : 0 <= v < 2^64 ->
  f64_try_from_u64 v = (if v <? M then Some (f64_new v) else None) /\
  (v < M -> repr (f64_new v) /\ val (f64_new v) = v) /\ f64_try_from_u64_ok v = true.
Proof.
  intros Hv. unfold f64_try_from_u64, f64_try_from_u64_ok. rewrite M_eq, Z.geb_leb.
  destruct (f64_new_spec v Hv) as [R V].
  assert (Hok : f64_new_ok v = true).
  { unfold f64_new_ok, in_u, f64_R2. apply andb_true_iff; split; lia. }
  destruct (Z.leb_spec M v); destruct (Z.ltb_spec v M); try lia; (split; [reflexivity|split; [|assumption || reflexivity]]).
  - intros; lia.
  - intros _. split; [exact R|]. rewrite V. apply Z.mod_small. lia.
Qed.

(* usize -> element: the value must fit in a u64 AND be below the modulus *)
Theorem f64_try_from_usize_spec v : 0 <= v ->
  f64_try_from_usize v = if v <? M then Some (f64_new v) else None.
Proof.
  intros Hv. unfold f64_try_from_usize, in_u.
  destruct (Z.leb_spec 0 v); [|lia]. cbn [andb].
  destruct (Z.ltb_spec v (2^64)) as [H64|H64].
  - exact (proj1 (f64_try_from_u64_spec v ltac:(lia))).
  - destruct (Z.ltb_spec v M); [unfold M in *; lia|reflexivity].
Qed.

(* element -> integers: Ok(val e) exactly when val e fits; never truncated *)
Lemma to_uN n e : repr e -> 0 < n ->
  (if in_u n (f64_as_int e) then Some (f64_as_int e) else None) = if val e <? 2^n then Some (val e) else None.
Proof.
  intros He Hn. rewrite f64_as_int_spec by (unfold repr, M in He; lia).
  pose proof (val_range e). unfold in_u.
  destruct (Z.leb_spec 0 (val e)); [|lia]. reflexivity.
Qed.

Theorem f64_to_u8_spec e : repr e -> f64_to_u8 e = if val e <? 2^8 then Some (val e) else None.
Proof. intros He. exact (to_uN 8 e He ltac:(lia)). Qed.
Theorem f64_to_u16_spec e : repr e -> f64_to_u16 e = if val e <? 2^16 then Some (val e) else None.
Proof. intros He. exact (to_uN 16 e He ltac:(lia)). Qed.
Theorem f64_to_u32_spec e : repr e -> f64_to_u32 e = if val e <? 2^32 then Some (val e) else None.
Proof. intros He. exact (to_uN 32 e He ltac:(lia)). Qed.

Theorem f64_to_bool_spec e : repr e ->
  f64_to_bool e = if val e =? 0 then Some false else if val e =? 1 then Some true else None.
Proof. intros He. unfold f64_to_bool. rewrite f64_as_int_spec by (unfold repr, M in He; lia). reflexivity. Qed.

Theorem f64_to_u64_spec e : repr e -> f64_to_u64 e = val e /\ f64_to_u128 e = val e /\ 0 <= val e < M.
Proof.
  intros He. unfold f64_to_u64, f64_to_u128. rewrite f64_as_int_spec by (unfold repr, M in He; lia).
  split; [reflexivity|]. split; [reflexivity|apply val_range].
Qed.

Theorem f64_sf_as_int_spec e : f64_sf_as_int e = f64_as_int e.
Proof. reflexivity. Qed.

Theorem f64_conjugate_spec e : f64_conjugate e = e.
Proof. reflexivity. Qed.

Theorem f64_assign_spec a b :
  f64_add_assign a b = f64_add a b /\ f64_sub_assign a b = f64_sub a b /\
  f64_mul_assign a b = f64_mul a b /\ f64_div_assign a b = f64_div a b.
Proof. repeat split. Qed.

Theorem f64_base_element_spec e i : f64_base_element e i = if i =? 0 then Some e else None.
Proof. reflexivity. Qed.

(* mont_red_var is private, #[allow(dead_code)] and has no caller.  Were it called in a debug build, its
   `y + (M as i64)` would overflow for this input; the wrapped (release) value agrees with mont_red_cst. *)
Example f64_mont_red_var_dead_code_overflow :
  let x := (2^64 - 1) * M - 2^127 in
  0 <= x < 2^64 * M /\ f64_mont_red_var_ok x = false /\ f64_mont_red_var x = f64_mont_red_cst x.
Proof. vm_compute. repeat split; discriminate. Qed.

(* the raw byte view of an f64 element is the LE image of its Montgomery word: since words are canonical
   ([0,M)), two elements have the same as_bytes exactly when they denote the same residue *)
Theorem f64_as_bytes_same_residue a b : repr a -> repr b ->
  (f64_as_bytes a = f64_as_bytes b <-> val a = val b).
Proof.
  intros Ha Hb. unfold f64_as_bytes, as_bytes. split.
  - intros E. f_equal.
    rewrite <- (of_to_le_bytes 8 a), <- (of_to_le_bytes 8 b), E by (unfold repr, M in *; cbn; lia). reflexivity.
  - intros E. rewrite (val_inj a b Ha Hb E). reflexivity.
Qed.
End C64.

(* ------------------------------------------------------------------ f62 *)
Module C62.
Import F62 F62Ops.

Lemma new_small x : 0 <= x < 2^32 -> repr62 (f62_new x) /\ val62 (f62_new x) = x /\ f62_new_ok x = true.
Proof.
  intros Hx. destruct (f62_new_spec x ltac:(lia)) as [R V]. split; [exact R|]. split.
  - rewrite V. apply Z.mod_small. unfold M62. lia.
  - apply f62_new_ok_spec. lia.
Qed.

Theorem f62_from_u8_spec x : 0 <= x < 2^8 ->
  repr62 (f62_from_u8 x) /\ val62 (f62_from_u8 x) = x /\ f62_from_u8_ok x = true.
Proof. intros H. apply new_small. lia. Qed.
Theorem f62_from_u16_spec x : 0 <= x < 2^16 ->
  repr62 (f62_from_u16 x) /\ val62 (f62_from_u16 x) = x /\ f62_from_u16_ok x = true.
Proof. intros H. apply new_small. lia. Qed.
Theorem f62_from_u32_spec x : 0 <= x < 2^32 ->
  repr62 (f62_from_u32 x) /\ val62 (f62_from_u32 x) = x /\ f62_from_u32_ok x = true.
Proof. intros H. apply new_small. lia. Qed.

Theorem f62_to_u64_spec e : repr62 e ->
  f62_to_u64 e = val62 e /\ f62_to_u128 e = val62 e /\ 0 <= val62 e < M62 /\
  f62_to_u64_ok e = true /\ f62_to_u128_ok e = true.
Proof.
  intros He. unfold f62_to_u64, f62_to_u128, f62_to_u64_ok, f62_to_u128_ok.
  rewrite f62_as_int_spec by exact He. rewrite f62_as_int_ok_spec by exact He.
  repeat split; apply val62_range.
Qed.

Theorem f62_try_from_bytes_spec bs : length bs = 8%nat -> Forall byte bs ->
  match f62_try_from_bytes bs with
  | None => M62 <= of_le_bytes bs
  | Some e => of_le_bytes bs < M62 /\ repr62 e /\ val62 e = of_le_bytes bs
  end /\ f62_try_from_bytes_ok bs = true.
Proof.
  intros Hl Hb. unfold f62_try_from_bytes, f62_try_from_bytes_ok. cbv zeta.
  pose proof (FieldBytesSpec.of_le_bytes_range bs Hb) as Hr. rewrite Hl in Hr.
  apply f62_try_from_u64_spec. change (256 ^ Z.of_nat 8) with (2^64) in Hr. exact Hr.
Qed.

Theorem f62_conjugate_spec e : f62_conjugate e = e.
Proof. reflexivity. Qed.

Theorem f62_assign_spec fuel a b :
  f62_add_assign a b = f62_add a b /\ f62_sub_assign a b = f62_sub a b /\
  f62_mul_assign a b = f62_mul a b /\ f62_div_assign fuel a b = f62_div fuel a b.
Proof. repeat split. Qed.

Theorem f62_base_element_spec e i : f62_base_element e i = if i =? 0 then Some e else None.
Proof. reflexivity. Qed.

(* the raw byte view of an f62 element is the LE image of its LAZY word: injective on words, hence the two
   words x and x + M62 of one residue have different as_bytes (documented: IS_CANONICAL = false; hashing and
   Serializable go through as_int) *)
Theorem f62_as_bytes_word_inj a b : repr62 a -> repr62 b -> f62_as_bytes a = f62_as_bytes b -> a = b.
Proof.
  intros Ha Hb E. unfold f62_as_bytes, as_bytes in E.
  rewrite <- (of_to_le_bytes 8 a), <- (of_to_le_bytes 8 b), E by (unfold repr62, M62 in *; cbn; lia). reflexivity.
Qed.

Theorem f62_as_bytes_not_canonical :
  exists a b, repr62 a /\ repr62 b /\ val62 a = val62 b /\ f62_as_bytes a <> f62_as_bytes b.
Proof.
  exists 0, M62. split; [apply repr62_0|]. split; [unfold repr62, M62; lia|]. split; [reflexivity|].
  vm_compute. discriminate.
Qed.
End C62.

(* ------------------------------------------------------------------ f128 *)
Module C128.
Import F128 F128Limbs F128Ops.

Theorem f128_from_uN_spec x : 0 <= x < 2^64 ->
  f128_from_u8 x = x /\ f128_from_u16 x = x /\ f128_from_u32 x = x /\ f128_from_u64 x = x /\ repr128 x /\ x mod M = x.
Proof.
  intros Hx. repeat split; try reflexivity; try (unfold M; lia).
  apply Z.mod_small. unfold M. lia.
Qed.

Theorem f128_conjugate_spec e : f128_conjugate e = e.
Proof. reflexivity. Qed.

Theorem f128_assign_spec fuel a b :
  f128_add_assign a b = f128_add a b /\ f128_sub_assign a b = f128_sub a b /\
  f128_mul_assign a b = f128_mul a b /\ f128_div_assign fuel a b = f128_div fuel a b.
Proof. repeat split. Qed.

Theorem f128_base_element_spec e i : f128_base_element e i = if i =? 0 then Some e else None.
Proof. reflexivity. Qed.

Theorem f128_as_bytes_same_residue a b : repr128 a -> repr128 b ->
  (f128_as_bytes a = f128_as_bytes b <-> a = b).
Proof.
  intros Ha Hb. unfold f128_as_bytes, as_bytes. split; [|intros ->; reflexivity].
  intros E. rewrite <- (of_to_le_bytes 16 a), <- (of_to_le_bytes 16 b), E by (unfold repr128, M in *; cbn; lia).
  reflexivity.
Qed.
End C128.

(* ------------------------------------------------------------------ byte views, generic in ELEMENT_BYTES *)
Lemma to_le_bytes_bytes n x : Forall byte (to_le_bytes n x).
Proof.
  revert x. induction n as [|n IH]; intros x; cbn [to_le_bytes]; constructor; [|apply IH].
  unfold FieldBytesSpec.byte. apply Z.mod_pos_bound. lia.
Qed.

Lemma to_of_le_bytes l : Forall byte l -> to_le_bytes (length l) (of_le_bytes l) = l.
Proof.
  induction 1 as [|b l Hb Hl IH]; cbn [length to_le_bytes of_le_bytes]; [reflexivity|].
  unfold FieldBytesSpec.byte in Hb.
  replace (b + 256 * of_le_bytes l) with (b + of_le_bytes l * 256) by ring.
  assert (E1 : (b + of_le_bytes l * 256) mod 256 = b).
  { rewrite Z.mod_add by lia. apply Z.mod_small. exact Hb. }
  assert (E2 : (b + of_le_bytes l * 256) / 256 = of_le_bytes l).
  { rewrite Z.div_add by lia. rewrite (Z.div_small b) by exact Hb. lia. }
  rewrite E1, E2, IH. reflexivity.
Qed.

Lemma chunk_step nb w rest : 0 <= w < 256 ^ Z.of_nat nb ->
  of_le_bytes (firstn nb (to_le_bytes nb w ++ rest)) = w /\ skipn nb (to_le_bytes nb w ++ rest) = rest.
Proof.
  intros Hw. pose proof (to_le_bytes_length nb w) as L.
  rewrite firstn_app, skipn_app, L, Nat.sub_diag.
  rewrite firstn_all2, skipn_all2 by lia. cbn [firstn skipn app]. rewrite app_nil_r.
  split; [apply of_to_le_bytes; exact Hw|reflexivity].
Qed.

Lemma elements_as_bytes_length nb ws : length (elements_as_bytes nb ws) = (length ws * nb)%nat.
Proof.
  induction ws as [|w ws IH]; cbn [elements_as_bytes flat_map length]; [reflexivity|].
  rewrite app_length, to_le_bytes_length. fold (elements_as_bytes nb ws). rewrite IH. lia.
Qed.

Lemma chunks_elements nb ws : Forall (fun w => 0 <= w < 256 ^ Z.of_nat nb) ws ->
  chunks_le nb (length ws) (elements_as_bytes nb ws) = ws.
Proof.
  induction 1 as [|w ws Hw _ IH]; cbn [length chunks_le elements_as_bytes flat_map]; [reflexivity|].
  fold (elements_as_bytes nb ws).
  destruct (chunk_step nb w (elements_as_bytes nb ws) Hw) as [E1 E2]. rewrite E1, E2, IH. reflexivity.
Qed.

Lemma elements_chunks nb k bs : Forall byte bs -> length bs = (k * nb)%nat ->
  elements_as_bytes nb (chunks_le nb k bs) = bs.
Proof.
  revert bs. induction k as [|k IH]; intros bs Hb Hl; cbn [chunks_le elements_as_bytes flat_map].
  - destruct bs; [reflexivity|discriminate].
  - fold (elements_as_bytes nb (chunks_le nb k (skipn nb bs))).
    assert (Hf : length (firstn nb bs) = nb) by (rewrite firstn_length; lia).
    rewrite IH.
    + rewrite <- Hf at 1. rewrite to_of_le_bytes.
      * apply firstn_skipn.
      * apply Forall_forall. intros x Hx. apply (proj1 (Forall_forall _ _) Hb).
        rewrite <- (firstn_skipn nb bs). apply in_or_app. left. exact Hx.
    + apply Forall_forall. intros x Hx. apply (proj1 (Forall_forall _ _) Hb).
      rewrite <- (firstn_skipn nb bs). apply in_or_app. right. exact Hx.
    + rewrite skipn_length. lia.
Qed.

(* ------------------------------------------------------------------ bytes_as_elements / elements_as_bytes *)
Section Views.
Variables (nb align : nat).
Hypothesis nb_pos : (0 < nb)%nat.

(* the two checks, in source order: length first, then the address *)
Theorem bytes_as_elements_len_err addr bs : (length bs mod nb <> 0)%nat ->
  bytes_as_elements nb align addr bs = None.
Proof.
  intros H. unfold bytes_as_elements.
  destruct (Nat.eqb_spec (length bs mod nb) 0); [contradiction|reflexivity].
Qed.

Theorem bytes_as_elements_misaligned addr bs : addr mod Z.of_nat align <> 0 ->
  bytes_as_elements nb align addr bs = None.
Proof.
  intros H. unfold bytes_as_elements.
  destruct (Nat.eqb_spec (length bs mod nb) 0); [|reflexivity]. cbn [negb].
  destruct (Z.eqb_spec (addr mod Z.of_nat align) 0); [contradiction|reflexivity].
Qed.

Theorem bytes_as_elements_ok addr bs : (length bs mod nb = 0)%nat -> addr mod Z.of_nat align = 0 ->
  Forall byte bs ->
  exists ws, bytes_as_elements nb align addr bs = Some ws /\
             length ws = (length bs / nb)%nat /\ elements_as_bytes nb ws = bs.
Proof.
  intros Hl Ha Hb. unfold bytes_as_elements.
  destruct (Nat.eqb_spec (length bs mod nb) 0); [|contradiction]. cbn [negb].
  destruct (Z.eqb_spec (addr mod Z.of_nat align) 0); [|contradiction]. cbn [negb].
  eexists. split; [reflexivity|].
  assert (Hk : length bs = (length bs / nb * nb)%nat).
  { pose proof (Nat.div_mod (length bs) nb ltac:(lia)). lia. }
  split.
  - assert (G : forall k l, length (chunks_le nb k l) = k).
    { induction k as [|k IHk]; intros l; cbn [chunks_le length]; [reflexivity|now rewrite IHk]. }
    apply G.
  - apply elements_chunks; assumption.
Qed.

(* round trip: the bytes of a slice of elements reinterpret to the same internal words *)
Theorem bytes_as_elements_roundtrip addr ws : addr mod Z.of_nat align = 0 ->
  Forall (fun w => 0 <= w < 256 ^ Z.of_nat nb) ws ->
  bytes_as_elements nb align addr (elements_as_bytes nb ws) = Some ws.
Proof.
  intros Ha Hw. unfold bytes_as_elements. rewrite elements_as_bytes_length.
  rewrite Nat.mod_mul by lia. cbn [Nat.eqb negb].
  destruct (Z.eqb_spec (addr mod Z.of_nat align) 0); [|contradiction]. cbn [negb].
  rewrite Nat.div_mul by lia. rewrite chunks_elements by exact Hw. reflexivity.
Qed.
End Views.

(* bytes_as_elements performs NO range check on the words (unsafe fn: the caller's obligation):
   the all-ones word, which is not a valid internal value of any of the three fields, is accepted *)
Theorem bytes_as_elements_no_range_check :
  f64_bytes_as_elements 0 (to_le_bytes 8 (2^64 - 1)) = Some [2^64 - 1] /\ ~ F64Ops.repr (2^64 - 1) /\
  f62_bytes_as_elements 0 (to_le_bytes 8 (2^64 - 1)) = Some [2^64 - 1] /\ ~ F62Ops.repr62 (2^64 - 1) /\
  f128_bytes_as_elements 0 (to_le_bytes 16 (2^128 - 1)) = Some [2^128 - 1] /\ ~ F128Ops.repr128 (2^128 - 1).
Proof.
  repeat split; try (vm_compute; reflexivity);
    unfold F64Ops.repr, F64Red.M, F62Ops.repr62, F62Ops.M62, F128Ops.repr128, F128Limbs.M; lia.
Qed.

(* TryFrom<&[u8]>: exactly ELEMENT_BYTES bytes are required (both length errors) *)
Theorem try_from_slice_length bs :
  (length bs <> 8%nat -> f64_try_from_slice bs = None /\ f62_try_from_slice bs = None) /\
  (length bs <> 16%nat -> f128_try_from_slice bs = None).
Proof.
  split; [intros H; split|intros H].
  - unfold f64_try_from_slice. destruct (Nat.ltb_spec (length bs) 8); [reflexivity|].
    destruct (Nat.ltb_spec 8 (length bs)); [reflexivity|lia].
  - unfold f62_try_from_slice. destruct (Nat.ltb_spec (length bs) 8); [reflexivity|].
    destruct (Nat.ltb_spec 8 (length bs)); [reflexivity|lia].
  - unfold f128_try_from_slice. destruct (Nat.eqb_spec (length bs) 16); [contradiction|reflexivity].
Qed.

Theorem try_from_slice_exact bs : Forall byte bs ->
  (length bs = 8%nat ->
     f64_try_from_slice bs = (if of_le_bytes bs <? F64Red.M then Some (F64.f64_new (of_le_bytes bs)) else None) /\
     f62_try_from_slice bs = F62.f62_try_from_u64 (of_le_bytes bs)) /\
  (length bs = 16%nat ->
     f128_try_from_slice bs = if of_le_bytes bs <? F128Limbs.M then Some (of_le_bytes bs) else None).
Proof.
  intros Hb. split; [intros Hl; split|intros Hl].
  - unfold f64_try_from_slice. rewrite Hl. cbn [Nat.ltb Nat.leb].
    unfold F64.f64_try_from_bytes. cbv zeta.
    pose proof (FieldBytesSpec.of_le_bytes_range bs Hb) as Hr. rewrite Hl in Hr.
    exact (proj1 (C64.f64_try_from_u64_spec _ Hr)).
  - unfold f62_try_from_slice. rewrite Hl. reflexivity.
  - unfold f128_try_from_slice. rewrite Hl. cbn [Nat.eqb negb]. cbv zeta.
    rewrite F128Limbs.M_eq, Z.geb_leb.
    destruct (Z.leb_spec F128Limbs.M (of_le_bytes bs)); destruct (Z.ltb_spec (of_le_bytes bs) F128Limbs.M); try lia; reflexivity.
Qed.
