(* C15 — index functions of the FRI model: fold_positions, num_fri_layers, the transposed layer layout
   (prover's query_layer vs verifier's get_query_values).  stdlib style. *)
From Coq Require Import List Arith Bool Lia ZArith.
From VBase Require Import FieldOps.
From VModel Require Import Fri.
Import ListNotations.

(* ---------------------------------------------------------------- fold_positions *)
(* order-preserving de-duplication: keep the first occurrence of every value *)
Fixpoint dedup (l : list nat) : list nat :=
  match l with
  | [] => []
  | x :: t => x :: filter (fun y => negb (y =? x)) (dedup t)
  end.

Definition memb (x : nat) (l : list nat) : bool := existsb (Nat.eqb x) l.

Lemma memb_In x l : memb x l = true <-> In x l.
Proof.
  unfold memb. rewrite existsb_exists. split.
  - intros [y [Hy E]]. apply Nat.eqb_eq in E. now subst.
  - intros H. exists x. split; [assumption | apply Nat.eqb_refl].
Qed.

Lemma memb_app x a b : memb x (a ++ b) = memb x a || memb x b.
Proof. unfold memb. apply existsb_app. Qed.

Lemma filter_filter {A} (f g : A -> bool) l : filter f (filter g l) = filter (fun x => g x && f x) l.
Proof.
  induction l as [|a l IH]; cbn; [reflexivity|].
  destruct (g a); cbn; [destruct (f a); cbn; now rewrite IH | assumption].
Qed.

Lemma fold_push_new : forall l acc,
  fold_left push_new l acc = acc ++ filter (fun y => negb (memb y acc)) (dedup l).
Proof.
  induction l as [|x t IH]; intros acc; cbn [fold_left dedup filter].
  - now rewrite app_nil_r.
  - unfold push_new at 2. fold (memb x acc). destruct (memb x acc) eqn:Hm; cbn [negb].
    + rewrite IH. f_equal. rewrite filter_filter. apply filter_ext_in. intros y _.
      destruct (y =? x) eqn:E; cbn; [|reflexivity].
      apply Nat.eqb_eq in E; subst. now rewrite Hm.
    + rewrite IH, <- app_assoc. cbn [app]. do 2 f_equal.
      rewrite filter_filter. apply filter_ext_in. intros y _.
      rewrite memb_app. unfold memb at 2. cbn [existsb]. rewrite orb_false_r, negb_orb.
      now rewrite andb_comm.
Qed.

Lemma fold_positions_core_dedup ps t :
  fold_positions_core ps t = dedup (map (fun p => p mod t) ps).
Proof.
  unfold fold_positions_core.
  assert (G : forall l acc, fold_left (fun a p => push_new a (p mod t)) l acc
                            = fold_left push_new (map (fun p => p mod t) l) acc).
  { induction l as [|a l IH]; intros acc; cbn; [reflexivity | apply IH]. }
  rewrite G, fold_push_new. cbn [app]. rewrite (filter_ext_in _ (fun _ => true)).
  - clear. induction (dedup _) as [|a l IH]; cbn; [reflexivity | now rewrite IH].
  - reflexivity.
Qed.

Lemma dedup_In x l : In x (dedup l) <-> In x l.
Proof.
  induction l as [|a l IH]; cbn; [tauto|].
  rewrite filter_In, IH, negb_true_iff, Nat.eqb_neq. split.
  - intros [H|[H _]]; auto.
  - intros [H|H]; auto. destruct (Nat.eq_dec x a); [left; congruence | right; auto].
Qed.

Lemma NoDup_filter {A} (f : A -> bool) l : NoDup l -> NoDup (filter f l).
Proof.
  induction 1 as [|a l Hn Hd IH]; cbn; [constructor|].
  destruct (f a); [constructor; [rewrite filter_In; tauto | assumption] | assumption].
Qed.

Lemma dedup_NoDup l : NoDup (dedup l).
Proof.
  induction l as [|a l IH]; cbn; constructor.
  - rewrite filter_In, negb_true_iff, Nat.eqb_neq. tauto.
  - now apply NoDup_filter.
Qed.

(* the spec: for the inputs on which the Rust code does not panic (folding_factor <> 0, and the target domain
   non-empty unless there is no position), the result is the ordered de-duplication of the positions reduced
   modulo the target domain size; it has no duplicates, every element is in range, and it contains exactly the
   reductions of the input positions *)
Theorem fold_positions_spec : forall ps d n,
  n <> 0 -> (d / n <> 0 \/ ps = []) ->
  exists l, fold_positions ps d n = Ok l /\
    l = dedup (map (fun p => p mod (d / n)) ps) /\
    NoDup l /\
    (d / n <> 0 -> forall x, In x l -> x < d / n) /\
    (forall x, In x l <-> exists p, In p ps /\ x = p mod (d / n)).
Proof.
  intros ps d n Hn Ht. unfold fold_positions.
  destruct (n =? 0) eqn:E; [apply Nat.eqb_eq in E; contradiction|].
  assert (G : (d / n =? 0) && negb (is_nil ps) = false).
  { destruct Ht as [Ht|Ht]; [apply Nat.eqb_neq in Ht; now rewrite Ht | subst; cbn; apply andb_false_r]. }
  rewrite G. eexists; split; [reflexivity|]. rewrite fold_positions_core_dedup.
  split; [reflexivity|]. split; [apply dedup_NoDup|]. split.
  - intros Hz x Hx. apply dedup_In, in_map_iff in Hx. destruct Hx as [p [<- _]]. now apply Nat.mod_upper_bound.
  - intros x. rewrite dedup_In, in_map_iff. split; intros [p [A B]]; exists p; auto.
Qed.

(* exactly when the Rust code panics *)
Theorem fold_positions_panics : forall ps d n,
  fold_positions ps d n = Panic <-> (n = 0 \/ (d / n = 0 /\ ps <> [])).
Proof.
  intros. unfold fold_positions. destruct (n =? 0) eqn:E.
  - apply Nat.eqb_eq in E. split; auto.
  - apply Nat.eqb_neq in E. destruct (d / n =? 0) eqn:E2; cbn [andb].
    + apply Nat.eqb_eq in E2. destruct ps; cbn; split; try discriminate; auto.
      * intros [H|[_ H]]; congruence.
      * intros _. right. split; [assumption | discriminate].
    + apply Nat.eqb_neq in E2. split; [discriminate | intros [H|[H _]]; contradiction].
Qed.

Lemma find_index_spec v l : In v l -> exists i, find_index v l = Some i /\ nth_error l i = Some v.
Proof.
  induction l as [|x t IH]; cbn; [tauto|]. intros H.
  destruct (x =? v) eqn:E.
  - apply Nat.eqb_eq in E; subst. exists 0. auto.
  - apply Nat.eqb_neq in E. destruct H as [H|H]; [contradiction|].
    destruct (IH H) as [i [A B]]. rewrite A. exists (S i). auto.
Qed.

(* ---------------------------------------------------------------- num_fri_layers *)
Lemma nfl_loop_acc : forall fuel d m ff acc k,
  nfl_loop fuel d m ff acc = Some k -> acc <= k /\ nfl_loop fuel d m ff 0 = Some (k - acc).
Proof.
  induction fuel as [|f IH]; intros d m ff acc k; cbn.
  - destruct (d <=? m); [|discriminate]. intros [= <-]. split; [lia | f_equal; lia].
  - destruct (d <=? m); [intros [= <-]; split; [lia | f_equal; lia]|].
    destruct (ff =? 0); [discriminate|]. intros H.
    destruct (IH _ _ _ _ _ H) as [A B]. split; [lia|].
    destruct (nfl_loop f (d / ff) m ff 1) as [k1|] eqn:E1.
    + destruct (IH _ _ _ _ _ E1) as [A1 B1]. rewrite B in B1. injection B1 as B1. f_equal. lia.
    + exfalso. clear -IH B E1.
      (* B: loop from 0 = Some (k - S acc); then loop from 1 is Some *)
      assert (G : forall f d m ff a b r, nfl_loop f d m ff a = Some r -> nfl_loop f d m ff b <> None).
      { clear. induction f as [|f IH]; intros d m ff a b r; cbn.
        - destruct (d <=? m); [discriminate 2 | discriminate 1].
        - destruct (d <=? m); [discriminate 2|]. destruct (ff =? 0); [discriminate 1|]. apply IH. }
      eapply G; eassumption.
Qed.

Lemma folded_size_S k d ff : folded_size (S k) d ff = folded_size k d ff / ff.
Proof.
  revert d. induction k as [|k IH]; intros d; [reflexivity|].
  change (folded_size (S (S k)) d ff) with (folded_size (S k) (d / ff) ff). rewrite IH. reflexivity.
Qed.

Lemma nfl_loop_spec : forall fuel d m ff k,
  nfl_loop fuel d m ff 0 = Some k ->
  folded_size k d ff <= m /\ forall j, j < k -> m < folded_size j d ff.
Proof.
  induction fuel as [|f IH]; intros d m ff k; cbn.
  - destruct (d <=? m) eqn:E; [|discriminate]. intros [= <-]. apply Nat.leb_le in E. split; [assumption | lia].
  - destruct (d <=? m) eqn:E.
    + intros [= <-]. apply Nat.leb_le in E. split; [assumption | lia].
    + apply Nat.leb_gt in E. destruct (ff =? 0); [discriminate|]. intros H.
      destruct (nfl_loop_acc _ _ _ _ _ _ H) as [A B].
      destruct (IH _ _ _ _ B) as [C D]. destruct k as [|k]; [lia|].
      replace (S k - 1) with k in * by lia. split; [exact C|].
      intros [|j] Hj; [exact E | apply D; lia].
Qed.

Lemma nfl_loop_total : forall fuel d m ff acc, 2 <= ff -> d < fuel -> exists k, nfl_loop fuel d m ff acc = Some k.
Proof.
  induction fuel as [|f IH]; intros d m ff acc Hff Hd; [lia|]. cbn.
  destruct (d <=? m) eqn:E0; [eauto|]. apply Nat.leb_gt in E0.
  destruct (ff =? 0) eqn:E; [apply Nat.eqb_eq in E; lia|].
  apply IH; [assumption|]. assert (d / ff < d) by (apply Nat.div_lt; lia). lia.
Qed.

(* num_fri_layers: terminates for every supported folding factor (>= 2), returns the least k such that the
   domain folded k times is not larger than (remainder_max_degree + 1) * blowup *)
Theorem num_fri_layers_spec : forall o d, 2 <= fo_folding o ->
  exists k, num_fri_layers o d = Some k /\
    folded_size k d (fo_folding o) <= (fo_remmax o + 1) * fo_blowup o /\
    (forall j, j < k -> (fo_remmax o + 1) * fo_blowup o < folded_size j d (fo_folding o)).
Proof.
  intros o d Hff. unfold num_fri_layers, max_remainder_size.
  destruct (nfl_loop_total (S d) d ((fo_remmax o + 1) * fo_blowup o) (fo_folding o) 0 Hff (Nat.lt_succ_diag_r d)) as [k Hk].
  exists k. split; [exact Hk|]. now apply nfl_loop_spec in Hk.
Qed.

Theorem num_fri_layers_valid_options : forall b n r o d, options_new b n r = Ok o ->
  exists k, num_fri_layers o d = Some k.
Proof.
  intros b n r o d H. unfold options_new in H.
  destruct (negb (is_pow2 b)); [discriminate|].
  destruct (supported_folding n) eqn:E; cbn in H; [|discriminate]. injection H as <-.
  destruct (num_fri_layers_spec (mkOpts b n r) d) as [k [Hk _]].
  - cbn. unfold supported_folding in E.
    repeat (apply orb_true_iff in E; destruct E as [E|E]); apply Nat.eqb_eq in E; subst; lia.
  - eauto.
Qed.

(* the "well-formed schedule": every layer has at least two rows, the remainder domain at least two points
   (get_inv_twiddles) and the remainder polynomial at least one coefficient *)
Definition well_formed_schedule (o : fri_options) (d : nat) : Prop :=
  exists k, num_fri_layers o d = Some k /\
    (forall j, j < k -> 2 <= folded_size (S j) d (fo_folding o)) /\
    2 <= folded_size k d (fo_folding o) /\
    fo_blowup o <= folded_size k d (fo_folding o).

Lemma pow2_div_pow2 a b : b <= a -> 2 ^ a / 2 ^ b = 2 ^ (a - b).
Proof.
  intros H. replace a with (b + (a - b)) at 1 by lia. rewrite Nat.pow_add_r, Nat.mul_comm.
  apply Nat.div_mul. apply Nat.pow_nonzero. lia.
Qed.

Lemma folded_size_pow2 : forall k a f, k * f <= a -> folded_size k (2 ^ a) (2 ^ f) = 2 ^ (a - k * f).
Proof.
  induction k as [|k IH]; intros a f H; cbn [folded_size].
  - now rewrite Nat.sub_0_r.
  - rewrite pow2_div_pow2 by lia. rewrite IH by lia. f_equal. lia.
Qed.

Lemma folded_size_le : forall k j d ff, ff <> 0 -> j <= k -> folded_size k d ff <= folded_size j d ff.
Proof.
  induction k as [|k IH]; intros j d ff Hff Hj.
  - replace j with 0 by lia. lia.
  - destruct (Nat.eq_dec j (S k)) as [->|Hne]; [lia|].
    rewrite folded_size_S. etransitivity; [|apply (IH j); [assumption | lia]].
    apply Nat.div_le_upper_bound; [assumption|]. nia.
Qed.

(* for power-of-two parameters (domain 2^a, folding 2^f with f >= 1, blowup 2^b): the schedule is well formed
   iff, with k the layer count, k*f < a (the last domain has at least two points; this also gives every layer
   two rows) and b <= a - k*f (the remainder has at least one coefficient) *)
Theorem well_formed_pow2 : forall a f b r, 1 <= f ->
  let o := mkOpts (2 ^ b) (2 ^ f) r in
  well_formed_schedule o (2 ^ a) <->
  exists k, num_fri_layers o (2 ^ a) = Some k /\ k * f < a /\ b <= a - k * f.
Proof.
  intros a f b r Hf o. unfold well_formed_schedule. split.
  - intros [k [Hk [H1 [H2 H3]]]]. exists k. split; [exact Hk|].
    assert (Hkf : k * f < a).
    { destruct (le_lt_dec a (k * f)) as [Hge|]; [|assumption]. exfalso.
      clear H1 H3. cbn [fo_folding o] in *.
      assert (Hj : a / f * f <= a) by (rewrite Nat.mul_comm; apply Nat.mul_div_le; lia).
      assert (Hj2 : a < S (a / f) * f) by (rewrite Nat.mul_comm; apply Nat.mul_succ_div_gt; lia).
      set (j := a / f) in *.
      assert (Hjk : j <= k) by nia.
      destruct (Nat.eq_dec j k) as [->|Hne].
      - rewrite folded_size_pow2 in H2 by lia. replace (a - k * f) with 0 in H2 by lia. cbn in H2. lia.
      - assert (Hle : folded_size k (2 ^ a) (2 ^ f) <= folded_size (S j) (2 ^ a) (2 ^ f)).
        { apply folded_size_le; [apply Nat.pow_nonzero; lia | lia]. }
        rewrite folded_size_S, (folded_size_pow2 j) in Hle by lia.
        rewrite Nat.div_small in Hle; [lia|]. apply Nat.pow_lt_mono_r; lia. }
    split; [assumption|]. cbn [fo_folding fo_blowup o] in H3. rewrite folded_size_pow2 in H3 by lia.
    apply Nat.pow_le_mono_r_iff in H3; lia.
  - intros [k [Hk [H1 H2]]]. exists k. split; [exact Hk|]. cbn [fo_folding fo_blowup o].
    assert (P2 : forall e, 1 <= e -> 2 <= 2 ^ e).
    { intros e He. change 2 with (2 ^ 1) at 1. apply Nat.pow_le_mono_r; lia. }
    split; [|split].
    + intros j Hj. rewrite folded_size_pow2 by nia. apply P2. nia.
    + rewrite folded_size_pow2 by lia. apply P2. lia.
    + rewrite folded_size_pow2 by lia. apply Nat.pow_le_mono_r; lia.
Qed.

(* ---------------------------------------------------------------- layer layout *)
Section Layout.
Context {A : Type} (d0 : A).

(* row q of the transposed layer: [evals[q], evals[q + rl], ..., evals[q + (N-1) rl]] *)
Definition row_of (N rl : nat) (evals : list A) (q : nat) : list A :=
  map (fun j => nth (q + j * rl) evals d0) (seq 0 N).

Lemma row_of_length N rl evals q : length (row_of N rl evals q) = N.
Proof. unfold row_of. now rewrite map_length, seq_length. Qed.

Lemma transpose_slice_rows N evals rl : N <> 0 -> length evals = rl * N ->
  transpose_slice d0 N evals = Ok (map (row_of N rl evals) (seq 0 rl)).
Proof.
  intros HN Hl. unfold transpose_slice.
  destruct (N =? 0) eqn:E; [apply Nat.eqb_eq in E; contradiction|].
  rewrite Hl, Nat.div_mul by assumption. rewrite Nat.eqb_refl. reflexivity.
Qed.

Lemma chunks_app_row : forall fuel N (r : list A) rest, N <> 0 -> length r = N ->
  chunks (S fuel) N (r ++ rest) = r :: chunks fuel N rest.
Proof.
  intros fuel N r rest HN Hr. subst N. cbn [chunks].
  assert (F1 : firstn (length r) (r ++ rest) = r).
  { rewrite firstn_app, Nat.sub_diag, firstn_all. cbn. apply app_nil_r. }
  assert (F2 : skipn (length r) (r ++ rest) = rest).
  { rewrite skipn_app, Nat.sub_diag, skipn_all. reflexivity. }
  destruct (r ++ rest) eqn:E.
  - destruct r; [cbn in HN; lia | discriminate].
  - rewrite F1, F2. reflexivity.
Qed.

Lemma chunks_concat : forall (rows : list (list A)) N fuel, N <> 0 ->
  (forall r, In r rows -> length r = N) -> length (concat rows) <= fuel ->
  chunks fuel N (concat rows) = rows.
Proof.
  induction rows as [|r rows IH]; intros N fuel HN Hall Hf.
  - destruct fuel; reflexivity.
  - cbn [concat] in *. rewrite app_length in Hf.
    assert (Hr : length r = N) by (apply Hall; now left).
    destruct fuel as [|fuel]; [lia|].
    rewrite chunks_app_row by lia. f_equal. apply IH; [assumption | intros; apply Hall; now right | lia].
Qed.

Lemma concat_length_rows : forall (rows : list (list A)) N, (forall r, In r rows -> length r = N) ->
  length (concat rows) = length rows * N.
Proof.
  induction rows as [|r rows IH]; intros N H; [reflexivity|].
  cbn. rewrite app_length, (IH N), (H r); auto with datatypes.
Qed.

Lemma group_slice_concat (rows : list (list A)) N : N <> 0 ->
  (forall r, In r rows -> length r = N) -> group_slice N (concat rows) = Ok rows.
Proof.
  intros HN Hall. unfold group_slice.
  destruct (N =? 0) eqn:E; [apply Nat.eqb_eq in E; contradiction|].
  rewrite (concat_length_rows rows N Hall), Nat.mod_mul by assumption. cbn.
  f_equal. apply chunks_concat; auto. now rewrite (concat_length_rows rows N Hall).
Qed.

Lemma mapM_idx_map (rows : list (list A)) (f : nat -> list A) (qs : list nat) :
  (forall q, In q qs -> nth_error rows q = Some (f q)) ->
  mapM (fun q => idx rows q) qs = Ok (map f qs).
Proof.
  induction qs as [|q qs IH]; intros H; [reflexivity|]. cbn [mapM map].
  unfold idx at 1. rewrite (H q) by now left. cbn. rewrite IH by (intros; apply H; now right). reflexivity.
Qed.

(* the verifier's lookup: for EVERY queried position p (duplicates and positions that collide after folding
   included) get_query_values finds, in the rows opened by the prover for the folded positions, the
   evaluation at p itself *)
Theorem get_query_values_layout : forall N rl evals ps,
  N <> 0 -> rl <> 0 -> (forall p, In p ps -> p < rl * N) ->
  get_query_values N (map (row_of N rl evals) (fold_positions_core ps rl)) ps (fold_positions_core ps rl) (rl * N)
  = Ok (map (fun p => nth p evals d0) ps).
Proof.
  intros N rl evals ps HN Hrl Hps. unfold get_query_values.
  destruct (N =? 0) eqn:E; [apply Nat.eqb_eq in E; contradiction|].
  rewrite Nat.div_mul by assumption.
  set (folded := fold_positions_core ps rl).
  assert (Hall : forall p, In p ps -> In (p mod rl) folded).
  { intros p Hp. unfold folded. rewrite fold_positions_core_dedup, dedup_In, in_map_iff. eauto. }
  clearbody folded. revert Hps Hall.
  destruct (rl =? 0) eqn:E2; [apply Nat.eqb_eq in E2; contradiction|].
  induction ps as [|p ps IH]; intros Hps Hall; [reflexivity|]. cbn [mapM map].
  destruct (find_index_spec (p mod rl) folded (Hall p (or_introl eq_refl))) as [i [Hi Hn]].
  rewrite Hi. cbn [of_option bind]. unfold idx at 1. rewrite nth_error_map, Hn. cbn [option_map of_option bind].
  assert (Hq : p / rl < N).
  { apply Nat.div_lt_upper_bound; [assumption|]. specialize (Hps p (or_introl eq_refl)). lia. }
  unfold row_of in *. unfold idx at 1. rewrite nth_error_map.
  rewrite (nth_error_nth' (seq 0 N) 0) by now rewrite seq_length.
  rewrite seq_nth by assumption. cbn [option_map of_option bind Nat.add].
  replace (p mod rl + p / rl * rl) with p by (rewrite (Nat.div_mod p rl) at 1 by assumption; lia).
  rewrite IH; [reflexivity | intros; apply Hps; now right | intros; apply Hall; now right].
Qed.

End Layout.
