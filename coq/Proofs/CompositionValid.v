(* C17 — from validity of the trace to the polynomial form of comp_def, through C01's air_quotient_exists
   (Proofs/StarkComplete.v): when the combined transition numerator is a polynomial N vanishing on the non-exempt steps
   and every boundary group's numerator is a polynomial vanishing on the group's steps, comp_def agrees outside the
   trace domain with a coefficient list Q of at most m coefficients.  Combined with Proofs/CompositionFFT.v this removes
   the hypothesis "q exists" from the capstone.  stdlib style. *)
From Coq Require Import List Arith Bool Lia Ring Field ZArith.
From VBase Require Import FieldOps.
From VModel Require Import Composition.
From VModel Require Stark FFT.
From VProofs Require StarkPoly StarkComplete FFTSpec FFTEval FFTOffset.
From VProofs Require Import CompositionBase CompositionIndex CompositionVerifier CompositionTable CompositionFFT.
Import ListNotations.

Section Valid.
Context {F : Type} (O : FOps F) (L : FLaws O).
Add Ring Fr : (FLaws_ring_theory O L).
Local Notation fz := (fzero O).
Local Notation f1 := (fone O).
Local Infix "+f" := (fadd O) (at level 50, left associativity).
Local Infix "-f" := (fsub O) (at level 50, left associativity).
Local Infix "*f" := (fmul O) (at level 40, left associativity).
Local Infix "/f" := (fdiv O) (at level 40, left associativity).
Local Notation rsum := (rsum O).
Local Notation rprod := (rprod O).

Variable n : nat.
Variable rou : nat -> F.
Variable tmain : list F -> list F -> list F -> list F.
Variable taux : list F -> list F -> list F -> list F -> list F -> list F -> list F.
Variable ppolys : list (list F).
Variable exemptions : nat.
Variable tcoef : list F.
Variable main_groups aux_groups : list (@BGroup F).
Variable rands : list F.
Variable has_aux : bool.
Variable tpolys apolys : list (list F).
Local Notation g := (gtrace n rou).
Local Notation comp_def := (comp_def O n rou tmain taux ppolys exemptions tcoef main_groups aux_groups rands has_aux tpolys apolys).

(* the numerators as polynomials: this is where "the constraint evaluators are polynomial maps of the frame and the
   periodic values" and "the trace columns are polynomials" enter *)
Variable N : list F.
Hypothesis N_spec : forall z,
  peval O N z = rsum (map (fun ca => snd ca *f fst ca)
                          (combine (def_constraints O n rou tmain taux ppolys rands has_aux tpolys apolys z) tcoef)).
Variable Bm Rm Ba Ra : @BGroup F -> list F.      (* numerator polynomial and zero set of each group's divisor *)
Definition group_numer (polys : list (list F)) (gr : @BGroup F) (z : F) : F :=
  rsum (map (fun c => bc_cc c *f (peval O (nth (bc_col c) polys []) z -f def_bc_value O c z)) (bg_cs gr)).
Hypothesis Bm_spec : forall gr, In gr main_groups -> forall z, peval O (Bm gr) z = group_numer tpolys gr z.
Hypothesis Rm_spec : forall gr, In gr main_groups -> forall z,
  Stark.pprod O (Rm gr) z = cpow O z (dv_a (bg_div gr)) -f dv_b (bg_div gr).
Hypothesis Ba_spec : forall gr, In gr aux_groups -> forall z, peval O (Ba gr) z = group_numer apolys gr z.
Hypothesis Ra_spec : forall gr, In gr aux_groups -> forall z,
  Stark.pprod O (Ra gr) z = cpow O z (dv_a (bg_div gr)) -f dv_b (bg_div gr).

Definition bs_of : list (list F * list F) :=
  map (fun gr => (Bm gr, Rm gr)) main_groups ++ (if has_aux then map (fun gr => (Ba gr, Ra gr)) aux_groups else []).

Lemma pprod_rprod z : forall l, Stark.pprod O (map (cpow O g) l) z = rprod (map (fun k => z -f cpow O g k) l).
Proof. induction l as [|a l IH]; simpl; [|rewrite IH]; reflexivity. Qed.

Lemma bsum_app z : forall a b, StarkComplete.bsum O (a ++ b) z = StarkComplete.bsum O a z +f StarkComplete.bsum O b z.
Proof. induction a as [|[B R] t IH]; intros b; simpl; [ring | rewrite IH; ring]. Qed.

Lemma bsum_groups (B R : @BGroup F -> list F) polys z : forall gs,
  (forall gr, In gr gs -> peval O (B gr) z = group_numer polys gr z) ->
  (forall gr, In gr gs -> Stark.pprod O (R gr) z = cpow O z (dv_a (bg_div gr)) -f dv_b (bg_div gr)) ->
  StarkComplete.bsum O (map (fun gr => (B gr, R gr)) gs) z = rsum (map (fun gr => def_group O polys gr z) gs).
Proof.
  induction gs as [|gr gs IH]; intros HB HR; simpl; [reflexivity|].
  rewrite IH; [| intros; apply HB; now right | intros; apply HR; now right].
  f_equal. change (Stark.peval O (B gr) z) with (peval O (B gr) z).
  rewrite (HB gr (or_introl eq_refl)), (HR gr (or_introl eq_refl)).
  unfold def_group, group_numer. rewrite (rsum_div O L), (fl_div_def O L). reflexivity.
Qed.

(* comp_def is C01's `combined` *)
Lemma comp_def_combined z : comp_def z = StarkComplete.combined O g n exemptions N bs_of z.
Proof.
  unfold Composition.comp_def, StarkComplete.combined. f_equal.
  - unfold def_transition. rewrite (rsum_div O L), (fl_div_def O L), <- N_spec.
    unfold def_tdiv. rewrite (finv_div O L).
    unfold StarkPoly.exempt. change (Stark.fpow O g) with (cpow O g). rewrite pprod_rprod.
    change (Stark.peval O N z) with (peval O N z). change (Stark.fpow O z n) with (cpow O z n). ring.
  - unfold def_boundary, bs_of. rewrite bsum_app.
    rewrite (bsum_groups Bm Rm tpolys z main_groups); [| intros; now apply Bm_spec | intros; now apply Rm_spec].
    f_equal. destruct has_aux; [|reflexivity].
    symmetry. apply bsum_groups; intros; [now apply Ba_spec | now apply Ra_spec].
Qed.

(* validity: the numerators vanish where the constraints are enforced *)
Hypothesis g_primitive : StarkPoly.primitive_root O g n.
Hypothesis n_pos : 0 < n.
Hypothesis exemptions_le : exemptions <= n.
Variable m : nat.
Hypothesis N_vanishes : forall i, i < n - exemptions -> peval O N (cpow O g i) = fz.     (* transitions hold *)
Hypothesis N_len : length N - (n - exemptions) <= m.
Hypothesis bs_ok : Forall (fun br => NoDup (snd br) /\ incl (snd br) (Stark.domain O g n) /\
                                     (forall r0, In r0 (snd br) -> peval O (fst br) r0 = fz) /\   (* assertions hold *)
                                     length (fst br) - length (snd br) <= m) bs_of.

Theorem comp_def_is_poly :
  exists Q, length Q <= m /\ forall z, ~ In z (Stark.domain O g n) -> peval O Q z = comp_def z.
Proof.
  destruct (StarkComplete.air_quotient_exists O L g n exemptions N bs_of m g_primitive n_pos exemptions_le
              N_vanishes N_len bs_ok) as [Q [Hl HQ]].
  exists Q. split; [exact Hl|]. intros z Hz. rewrite comp_def_combined. symmetry. apply (HQ z Hz).
Qed.
End Valid.

(* ------------------------------------------------------------------ final assembly: C17 capstone with
   interpolation from C09 and the polynomial form of comp_def from validity (C01) *)
Section Final.
Context {F : Type} (O : FOps F) (L : FLaws O).
Local Notation fz := (fzero O).
Local Notation f1 := (fone O).
Local Infix "*f" := (fmul O) (at level 40, left associativity).

Variable n ceb ldeb r : nat.
Variable offset : F.
Variable rou : nat -> F.
Variable wlde ginv : F.
Hypothesis n_pos : n <> 0.
Hypothesis ceb_pos : ceb <> 0.
Hypothesis r_pos : r <> 0.
Hypothesis ldeb_eq : ldeb = ceb * r.
Local Notation ce_size := (ce_size n ceb).
Local Notation wce := (wce n ceb rou).
Local Notation g := (gtrace n rou).
Hypothesis wlde_order : cpow O wlde (lde_size n ldeb) = f1.
Hypothesis wlde_wce : cpow O wlde r = wce.
Hypothesis wlde_g : cpow O wlde ldeb = g.
Hypothesis ginv_spec : ginv *f g = f1.
Hypothesis g_primitive : StarkPoly.primitive_root O g n.

Variable num_main : nat.
Variable tmain : list F -> list F -> list F -> list F.
Variable taux : list F -> list F -> list F -> list F -> list F -> list F -> list F.
Variable ppolys : list (list F).
Variable exemptions : nat.
Variable tcoef : list F.
Variable main_groups aux_groups : list (@BGroup F).
Variable rands : list F.
Variable tpolys apolys lde_main lde_aux : list (list F).
Hypothesis tmain_len : forall cur nxt pv, length (tmain cur nxt pv) = num_main.
Hypothesis exemptions_le : exemptions <= n.
Hypothesis poly_len_pos : forall p, In p ppolys -> length p <> 0.
Hypothesis poly_len_div_n : forall p, In p ppolys -> length p * (n / length p) = n.
Hypothesis poly_len_div_max : forall p, In p ppolys -> exists q, fold_left Nat.max (map (@length F) ppolys) 0 = length p * q.
Hypothesis rou_compat : forall p, In p ppolys -> rou (length p * ceb) = cpow O wce (n / length p).
Hypothesis main_ok : forall gr, In gr main_groups ->
  div_ok n ceb (bg_div gr) /\ forall c, In c (bg_cs gr) -> bc_ok O n ceb ginv tpolys c.
Hypothesis lde_main_ok : lde_rows_of O n ldeb offset wlde lde_main tpolys.

Variable two_adicity K : nat.
Variable rouk : nat -> F.
Variable itw : list F.
Hypothesis ce_pow2 : ce_size = 2 ^ S K.
Hypothesis K_adic : S K <= two_adicity.
Hypothesis rouk_ce : rouk (S K) = wce.
Hypothesis wce_root : FFTSpec.root_cond O (S K) wce.
Hypothesis itw_get : FFT.get_inv_twiddles O two_adicity rouk (2 ^ S K) = Some itw.
Hypothesis offset_nz : offset <> fz.
Hypothesis n_invertible : FFTSpec.two_pow_f O (S K) *f FFTOffset.n_inv O (S K) = f1.

(* the ce coset is disjoint from the trace domain *)
Hypothesis ce_off_domain : forall i, i < ce_size -> ~ In (ce_x O n ceb offset rou i) (Stark.domain O g n).
Variable num_cols m : nat.
Hypothesis m_le_ce : m <= ce_size.
Hypothesis m_le_cols : m <= num_cols * n.
Hypothesis n_lt_ce : n < ce_size.

(* numerators as polynomials, vanishing where the constraints are enforced (validity) *)
Variable N : list F.
Variable Bm Rm Ba Ra : @BGroup F -> list F.
Hypothesis Bm_spec : forall gr, In gr main_groups -> forall z, peval O (Bm gr) z = group_numer O tpolys gr z.
Hypothesis Rm_spec : forall gr, In gr main_groups -> forall z,
  Stark.pprod O (Rm gr) z = fsub O (cpow O z (dv_a (bg_div gr))) (dv_b (bg_div gr)).
Hypothesis N_vanishes : forall i, i < n - exemptions -> peval O N (cpow O g i) = fz.
Hypothesis N_len : length N - (n - exemptions) <= m.

Local Notation comp_def has_aux :=
  (comp_def O n rou tmain taux ppolys exemptions tcoef main_groups aux_groups rands has_aux tpolys apolys).
Local Notation evaluate has_aux :=
  (evaluate O n ceb ldeb offset rou num_main tmain taux ppolys exemptions tcoef main_groups aux_groups rands has_aux
            lde_main lde_aux (fun _ v => v)).
Local Notation interp := (interp_fft O two_adicity itw offset).
Local Notation groups_ok has_aux :=
  (Forall (fun br => NoDup (snd br) /\ incl (snd br) (Stark.domain O g n) /\
                     (forall r0, In r0 (snd br) -> peval O (fst br) r0 = fz) /\
                     length (fst br) - length (snd br) <= m) (bs_of main_groups aux_groups has_aux Bm Rm Ba Ra)).
Local Notation N_is_numerator has_aux :=
  (forall z, peval O N z = rsum O (map (fun ca => snd ca *f fst ca)
     (combine (def_constraints O n rou tmain taux ppolys rands has_aux tpolys apolys z) tcoef))).
Local Notation conclusion has_aux :=
  (exists Q evals cols,
    length Q <= m
    /\ evaluate has_aux = Some evals
    /\ composition_poly_new n interp evals num_cols = Some cols
    /\ (forall z, recombine O n (cp_evaluate_at O cols z) z = peval O Q z)
    /\ (forall z, ~ In z (Stark.domain O g n) -> recombine O n (cp_evaluate_at O cols z) z = comp_def has_aux z)).

Section WithAux.
Hypothesis aux_ok : forall gr, In gr aux_groups ->
  div_ok n ceb (bg_div gr) /\ forall c, In c (bg_cs gr) -> bc_ok O n ceb ginv apolys c.
Hypothesis lde_aux_ok : lde_rows_of O n ldeb offset wlde lde_aux apolys.
Hypothesis Ba_spec : forall gr, In gr aux_groups -> forall z, peval O (Ba gr) z = group_numer O apolys gr z.
Hypothesis Ra_spec : forall gr, In gr aux_groups -> forall z,
  Stark.pprod O (Ra gr) z = fsub O (cpow O z (dv_a (bg_div gr))) (dv_b (bg_div gr)).
Hypothesis N_spec : N_is_numerator true.
Hypothesis bs_ok : groups_ok true.

Theorem composition_is_definition_valid_aux : conclusion true.
Proof.
  destruct (comp_def_is_poly O L n rou tmain taux ppolys exemptions tcoef main_groups aux_groups rands true tpolys apolys
              N N_spec Bm Rm Ba Ra Bm_spec Rm_spec Ba_spec Ra_spec g_primitive ltac:(lia) exemptions_le m N_vanishes N_len bs_ok)
    as [Q [HQl HQ]].
  destruct (composition_is_definition_aux O L n ceb ldeb r offset rou wlde ginv n_pos ceb_pos r_pos ldeb_eq wlde_order
              wlde_wce wlde_g ginv_spec num_main tmain taux ppolys exemptions tcoef main_groups aux_groups rands tpolys apolys
              lde_main lde_aux tmain_len exemptions_le poly_len_pos poly_len_div_n poly_len_div_max rou_compat main_ok lde_main_ok
              two_adicity K rouk itw ce_pow2 K_adic rouk_ce wce_root itw_get offset_nz n_invertible
              (fun z => ~ In z (Stark.domain O g n)) Q num_cols ce_off_domain ltac:(lia) ltac:(lia) n_lt_ce aux_ok lde_aux_ok HQ)
    as [evals [cols [H1 [H2 [H3 H4]]]]].
  exists Q, evals, cols. auto.
Qed.
End WithAux.

Section MainOnly.
Hypothesis aux_empty : aux_groups = [].
Hypothesis N_spec : N_is_numerator false.
Hypothesis bs_ok : groups_ok false.

Theorem composition_is_definition_valid_main : conclusion false.
Proof.
  assert (Ba_spec : forall gr, In gr aux_groups -> forall z, peval O (Ba gr) z = group_numer O apolys gr z)
    by (intros gr Hg; rewrite aux_empty in Hg; destruct Hg).
  assert (Ra_spec : forall gr, In gr aux_groups -> forall z,
            Stark.pprod O (Ra gr) z = fsub O (cpow O z (dv_a (bg_div gr))) (dv_b (bg_div gr)))
    by (intros gr Hg; rewrite aux_empty in Hg; destruct Hg).
  destruct (comp_def_is_poly O L n rou tmain taux ppolys exemptions tcoef main_groups aux_groups rands false tpolys apolys
              N N_spec Bm Rm Ba Ra Bm_spec Rm_spec Ba_spec Ra_spec g_primitive ltac:(lia) exemptions_le m N_vanishes N_len bs_ok)
    as [Q [HQl HQ]].
  destruct (composition_is_definition_main O L n ceb ldeb r offset rou wlde ginv n_pos ceb_pos r_pos ldeb_eq wlde_order
              wlde_wce wlde_g ginv_spec num_main tmain taux ppolys exemptions tcoef main_groups aux_groups rands tpolys apolys
              lde_main lde_aux tmain_len exemptions_le poly_len_pos poly_len_div_n poly_len_div_max rou_compat main_ok lde_main_ok
              two_adicity K rouk itw ce_pow2 K_adic rouk_ce wce_root itw_get offset_nz n_invertible
              (fun z => ~ In z (Stark.domain O g n)) Q num_cols ce_off_domain ltac:(lia) ltac:(lia) n_lt_ce aux_empty HQ)
    as [evals [cols [H1 [H2 [H3 H4]]]]].
  exists Q, evals, cols. auto.
Qed.
End MainOnly.
End Final.
