(* C04 — closing the loop: the decision procedure [log_ok] that is run on OBSERVED coin logs accepts the event list of
   both generators for every shape (so a disagreement reported by it on a real log is a disagreement with the model,
   never an artefact of the labelling).  stdlib style. *)
From Coq Require Import List Arith Bool Lia.
From VModel Require Import Transcript.
From VProofs Require Import TranscriptRun.
Import ListNotations.

Definition not_query (c : chal) : bool := negb (chal_eqb c PowCheck || chal_eqb c QueryPositions).

(* well-labelled steps *)
Definition wl1 (x : step) : Prop :=
  match x with
  | (EvNew _, None) | (EvReseed _, None) => True
  | (EvDraw _ _, Some c) => not_query c = true
  | (EvCheckPow _, Some PowCheck) => True
  | (EvDrawInts _ _, Some QueryPositions) => True
  | _ => False
  end.

Fixpoint draw_labs (l : list step) : list chal :=
  match l with
  | [] => []
  | (EvDraw _ _, Some c) :: r => c :: draw_labs r
  | _ :: r => draw_labs r
  end.

Lemma label_wl l : Forall wl1 l -> forall rest, label (draw_labs l ++ rest) (map fst l) = l.
Proof.
  induction 1 as [|[e lab] l Hx _ IH]; intros rest; [reflexivity|].
  destruct e, lab as [c|]; cbn in Hx; try contradiction; cbn [map fst draw_labs label app].
  - now rewrite IH.
  - now rewrite IH.
  - now rewrite IH.
  - destruct c; try contradiction. cbn [map fst draw_labs label]. now rewrite IH.
  - destruct c; try contradiction. cbn [map fst draw_labs label]. now rewrite IH.
Qed.

Lemma draw_labs_run l : Forall wl1 l -> forall st, draw_labs l = filter not_query (map fst (run st l)).
Proof.
  induction 1 as [|[e lab] l Hx _ IH]; intros st; [reflexivity|].
  destruct e, lab as [c|]; cbn in Hx; try contradiction; cbn [draw_labs run out1 map fst filter].
  - apply IH.
  - apply IH.
  - rewrite Hx. f_equal. apply IH.
  - destruct c; try contradiction. cbn. apply IH.
  - destruct c; try contradiction. cbn. apply IH.
Qed.

Lemma wl_draws deg lab n : (forall j, not_query (lab j) = true) -> Forall wl1 (draws deg lab n).
Proof. intros H. unfold draws. apply Forall_forall. intros x Hx. apply in_map_iff in Hx as (j & <- & _). apply H. Qed.
Lemma wl_draws_at from deg lab n : (forall j, not_query (lab j) = true) -> Forall wl1 (draws_at from deg lab n).
Proof. intros H. unfold draws_at. apply Forall_forall. intros x Hx. apply in_map_iff in Hx as (j & <- & _). apply H. Qed.

Lemma wl_fri deg n : forall i, Forall wl1 (prover_fri_layers deg i n).
Proof. induction n as [|n IH]; intros i; cbn; repeat constructor. apply IH. Qed.

Lemma wl_pre s : Forall wl1 (pre s).
Proof.
  unfold pre. cbn zeta.
  repeat (apply Forall_app; split); try (repeat constructor; fail);
    try (apply wl_draws; intros j; reflexivity); try apply wl_fri.
  destruct (multi_segment s); [|constructor].
  apply Forall_app; split; [apply wl_draws; intros j; reflexivity|].
  apply Forall_app; split; [apply wl_draws_at; intros j; reflexivity | repeat constructor].
Qed.

Lemma wl_prover s : Forall wl1 (prover s).
Proof. rewrite prover_split. apply Forall_app; split; [apply wl_pre | repeat constructor]. Qed.
Lemma wl_verifier s : Forall wl1 (verifier s).
Proof.
  rewrite verifier_split. apply Forall_app; split; [apply wl_pre|].
  apply Forall_app; split; repeat constructor.
Qed.

(* counters *)
Definition cok (a : nat) (l : list step) (b : nat) : Prop :=
  forall r, counters_ok a (map fst l ++ r) = counters_ok b r.

Lemma cok_app a b c l1 l2 : cok a l1 b -> cok b l2 c -> cok a (l1 ++ l2) c.
Proof. intros A B r. rewrite map_app, <- app_assoc, A, B. reflexivity. Qed.
Lemma cok_nil a : cok a [] a.
Proof. intros r; reflexivity. Qed.
Lemma cok_new a l : cok a [(EvNew l, None)] 0.
Proof. intros r; reflexivity. Qed.
Lemma cok_reseed a d : cok a [reseed d] 0.
Proof. intros r; reflexivity. Qed.
Lemma cok_draw1 a deg c : cok a [draw1 deg a c] (S a).
Proof. intros r; cbn. now rewrite Nat.eqb_refl. Qed.

Lemma cok_draws_gen deg (lab : nat -> chal) n : forall a,
  cok a (map (fun j => draw1 deg j (lab j)) (seq a n)) (a + n).
Proof.
  induction n as [|n IH]; intros a.
  - rewrite Nat.add_0_r. apply cok_nil.
  - cbn [seq map].
    change (draw1 deg a (lab a) :: map (fun j => draw1 deg j (lab j)) (seq (S a) n))
      with ([draw1 deg a (lab a)] ++ map (fun j => draw1 deg j (lab j)) (seq (S a) n)).
    eapply cok_app; [apply cok_draw1|]. replace (a + S n) with (S a + n) by lia. apply IH.
Qed.
Lemma cok_draws deg lab n : cok 0 (draws deg lab n) n.
Proof. apply (cok_draws_gen deg lab n 0). Qed.

Lemma cok_draws_at_gen deg (lab : nat -> chal) from n : forall a,
  cok (from + a) (map (fun j => draw1 deg (from + j) (lab j)) (seq a n)) (from + a + n).
Proof.
  induction n as [|n IH]; intros a.
  - rewrite Nat.add_0_r. apply cok_nil.
  - cbn [seq map].
    change (draw1 deg (from + a) (lab a) :: map (fun j => draw1 deg (from + j) (lab j)) (seq (S a) n))
      with ([draw1 deg (from + a) (lab a)] ++ map (fun j => draw1 deg (from + j) (lab j)) (seq (S a) n)).
    eapply cok_app; [apply cok_draw1|].
    replace (S (from + a)) with (from + S a) by lia. replace (from + a + S n) with (from + S a + n) by lia. apply IH.
Qed.
Lemma cok_draws_at from deg lab n : cok from (draws_at from deg lab n) (from + n).
Proof.
  pose proof (cok_draws_at_gen deg lab from n 0) as H. rewrite Nat.add_0_r in H. exact H.
Qed.

Lemma cok_fri deg d n : forall i a, cok a (prover_fri_layers deg i n ++ [reseed d]) 0.
Proof.
  induction n as [|n IH]; intros i a; [apply cok_reseed|].
  cbn [prover_fri_layers app].
  change (reseed (FriLayerCommitment i) :: draw1 deg 0 (FriAlpha i) :: prover_fri_layers deg (S i) n ++ [reseed d])
    with ([reseed (FriLayerCommitment i)] ++ [draw1 deg 0 (FriAlpha i)] ++ (prover_fri_layers deg (S i) n ++ [reseed d])).
  eapply cok_app; [apply cok_reseed|]. eapply cok_app; [apply cok_draw1 | apply IH].
Qed.

Lemma cok_pre s : cok 0 (pre s) 0.
Proof.
  unfold pre. cbn zeta.
  eapply cok_app; [apply cok_new|].
  eapply cok_app; [apply cok_reseed|].
  eapply cok_app with (b := 0).
  { destruct (multi_segment s); [|apply cok_nil].
    eapply cok_app; [apply cok_draws|]. eapply cok_app; [apply cok_draws_at | apply cok_reseed]. }
  eapply cok_app; [apply cok_draws|].
  eapply cok_app; [apply cok_reseed|].
  eapply cok_app; [apply cok_draw1|].
  eapply cok_app; [apply cok_reseed|].
  eapply cok_app; [apply cok_reseed|].
  eapply cok_app; [apply cok_draws|].
  apply cok_fri.
Qed.

Lemma cok_post s a : cok a (post s) (sh_queries s).
Proof. intros r; reflexivity. Qed.
Lemma cok_extra s : cok 0 (extra s) 1.
Proof. apply cok_draw1. Qed.

Lemma counters_prover s : counters_ok 0 (map fst (prover s)) = true.
Proof.
  rewrite prover_split.
  pose proof (cok_app _ _ _ _ _ (cok_pre s) (cok_post s 0)) as H.
  specialize (H []). rewrite app_nil_r in H. exact H.
Qed.
Lemma counters_verifier s : counters_ok 0 (map fst (verifier s)) = true.
Proof.
  rewrite verifier_split.
  pose proof (cok_app _ _ _ _ _ (cok_pre s) (cok_app _ _ _ _ _ (cok_extra s) (cok_post s 1))) as H.
  specialize (H []). rewrite app_nil_r in H. exact H.
Qed.

(* ------------------------------------------------------------------------------------------------ *)
Lemma starts_new_prover s : match map fst (prover s) with EvNew _ :: _ => true | _ => false end = true.
Proof. reflexivity. Qed.
Lemma starts_new_verifier s : match map fst (verifier s) with EvNew _ :: _ => true | _ => false end = true.
Proof. reflexivity. Qed.

Lemma drawn_challenges_eq side s : drawn_challenges side s = filter not_query (challenges side s).
Proof. reflexivity. Qed.

Lemma relabel (side : bool) s :
  label (drawn_challenges side s) (map fst (if side then verifier s else prover s)) = (if side then verifier s else prover s).
Proof.
  assert (W : Forall wl1 (if side then verifier s else prover s)) by (destruct side; [apply wl_verifier | apply wl_prover]).
  rewrite drawn_challenges_eq.
  assert (L : map fst (run cs_init (if side then verifier s else prover s)) = challenges side s)
    by (destruct side; [apply labels_verifier | apply labels_prover]).
  rewrite <- L, <- (draw_labs_run _ W cs_init).
  rewrite <- (app_nil_r (draw_labs _)). apply label_wl, W.
Qed.

Theorem log_ok_generators (side : bool) s :
  log_ok side s (map fst (if side then verifier s else prover s)) = true.
Proof.
  unfold log_ok. rewrite relabel.
  assert (L : map fst (run cs_init (if side then verifier s else prover s)) = challenges side s)
    by (destruct side; [apply labels_verifier | apply labels_prover]).
  rewrite L.
  repeat (apply andb_true_iff; split).
  - destruct side; reflexivity.
  - destruct side; [apply counters_verifier | apply counters_prover].
  - now apply chals_eqb_eq.
  - unfold depends_ok. apply forallb_forall. intros [c v] Hin. cbn [fst snd].
    apply syms_eqb_eq. exact (proj1 (challenge_depends_on_all_prior s side c v Hin)).
Qed.
