(* C13 — conservation of bytes for EVERY source (also with empty reads before EOF): a required method of the adapter removes
   from [unread] exactly the bytes it returns, in order, and nothing when it fails.  stdlib style. *)
From VBase Require Import MachInt.
From VModel Require Import ReadAdapter.
From VProofs Require Import ReadAdapterSim ReadAdapterInv.
Local Open Scope nat_scope.

Definition delivered {A : Type} (f : A -> list byte) (r : outcome A) : list byte :=
  match r with Ok a => f a | _ => [] end.

Definition conserves {A : Type} (m : astate -> outcome A * astate) (f : A -> list byte) : Prop :=
  forall s, wf s -> unread s = delivered f (fst (m s)) ++ unread (snd (m s)).

(* [m] takes exactly [n] bytes when it succeeds *)
Definition takes {A : Type} (n : nat) (m : astate -> outcome (list A) * astate) : Prop :=
  forall s, wf s -> forall l, fst (m s) = Ok l -> length l = n.

Section Cons.
  Variable grow : nat -> nat -> nat.
  Variable dbg : bool.

  Lemma a_u8_conserves : conserves a_u8 (fun b => [b]).
  Proof.
    intros s Hwf. unfold a_u8. destruct (buffer s) as [|b t] eqn:Eb.
    - pose proof (fill_unread s) as Hu1. pose proof (fill_buffer s) as Hb1.
      destruct (a_rbuf (fill s)) as [|b rb] eqn:Er; cbn [fst snd delivered].
      + rewrite unread_set_geof, Hu1. reflexivity.
      + rewrite <- Hu1. unfold unread, consume, buffer; simpl. fold (buffer (fill s)). now rewrite Er, Hb1, Eb.
    - unfold buffer in Eb. destruct (skipn_cons_inv _ _ _ _ _ Eb) as (H1 & H2 & H3).
      cbn [fst snd delivered]. unfold unread, buffer; simpl. rewrite Nat.add_1_r, H2, Eb. reflexivity.
  Qed.

  Lemma a_peek_conserves : conserves a_peek (fun _ => []).
  Proof.
    intros s Hwf. unfold a_peek. destruct (buffer s) as [|b t] eqn:Eb.
    - pose proof (fill_unread s) as Hu1.
      destruct (a_rbuf (fill s)) as [|b rb] eqn:Er; cbn [fst snd delivered]; now rewrite Hu1.
    - reflexivity.
  Qed.

  Lemma take_tail_cons : forall n s s2 r, wf s -> buffer_at_least grow n s = (r, s2) ->
    (r = Ok tt /\ n <= length (buffer s2) /\ a_pos s2 + n <= length (a_buf s2) /\
       unread s = firstn n (buffer s2) ++ unread (set_pos (a_pos s2 + n) s2)) \/
    (r = Err EOF /\ unread s2 = unread s).
  Proof.
    intros n s s2 r Hwf Hb. destruct (take_after_bal grow n s s2 r Hwf Hb) as (Hw2 & Hu2 & Hr & _).
    destruct Hr as [(Er & Hn & Hidx)|Er]; [left|right; split; assumption].
    destruct (take_local n s2 Hw2 Hn) as (_ & Ef & Eu & _).
    split; [exact Er|]. split; [exact Hn|]. split; [exact Hidx|].
    rewrite <- Hu2, Ef, Eu. symmetry. apply firstn_skipn.
  Qed.

  Lemma a_slice_conserves : forall len, conserves (a_slice grow len) (fun l => l).
  Proof.
    intros len s Hwf. unfold a_slice. destruct (Nat.eqb_spec len 0) as [E0|N0]; [reflexivity|].
    destruct (compact_spec len s Hwf) as (s1 & Ec & Hwf1 & Hu1 & _).
    unfold bind. rewrite Ec. cbn beta iota.
    destruct (buffer_at_least grow len s1) as [r s2] eqn:Eb.
    destruct (take_tail_cons len s1 s2 r Hwf1 Eb) as [(Er & Hn & Hidx & Hc)|(Er & Hu2)]; subst r.
    - destruct (Nat.leb_spec (a_pos s2 + len) (length (a_buf s2))); [|lia]. cbn [fst snd delivered]. now rewrite <- Hu1.
    - cbn [fst snd delivered]. now rewrite Hu2, Hu1.
  Qed.

  Lemma exact_fallback_conserves : forall N, conserves (exact_fallback grow dbg N) (fun l => l).
  Proof.
    intros N s Hwf. unfold exact_fallback, bind. destruct (buffer_at_least grow N s) as [r s2] eqn:Eb.
    destruct (take_tail_cons N s s2 r Hwf Eb) as [(Er & Hn & Hidx & Hc)|(Er & Hu2)]; subst r.
    - destruct (Nat.ltb_spec (length (buffer s2)) N); [lia|]. rewrite andb_false_r.
      rewrite (copy_from_ok N (buffer s2) Hn). cbn [fst snd delivered]. exact Hc.
    - cbn [fst snd delivered]. now rewrite Hu2.
  Qed.

  Lemma with_reset_conserves : forall (m : astate -> outcome (list byte) * astate),
    (forall s, wf s -> wf (snd (m s))) -> conserves m (fun l => l) -> conserves (fun s => with_reset (m s)) (fun l => l).
  Proof.
    intros m Hwfm Hm s Hwf. specialize (Hm s Hwf). specialize (Hwfm s Hwf). destruct (m s) as [r s']; cbn [fst snd] in *.
    destruct r; cbn [with_reset fst snd delivered] in *; try exact Hm.
    destruct (reset_spec s' Hwfm) as (_ & Hu' & _). now rewrite Hu'.
  Qed.

  Lemma a_array_conserves : forall N, conserves (a_array grow dbg N) (fun l => l).
  Proof.
    intros N s Hwf. unfold a_array. destruct (Nat.eqb_spec N 0) as [E0|N0]; [reflexivity|].
    pose proof (fill_wf s Hwf) as Hwf1. pose proof (fill_unread s) as Hu1. pose proof (fill_buffer s) as Hb1.
    destruct (fill_frame s) as (Hbuf1 & Hpos1 & Hcap1 & Hge1).
    destruct (Nat.eqb_spec (length (buffer s)) 0) as [En|En].
    - assert (Eb : buffer s = []) by (destruct (buffer s); [reflexivity|discriminate]).
      destruct (a_rbuf (fill s)) as [|b rb] eqn:Er.
      + cbn [fst snd delivered]. now rewrite unread_set_geof, Hu1.
      + destruct (Nat.ltb_spec (length (b :: rb)) N) as [Hlt|Hge].
        * rewrite <- Hu1. apply (with_reset_conserves (exact_fallback grow dbg N)); auto.
          -- intros s0 Hw0. apply (exact_fallback_ok grow dbg N s0 Hw0).
          -- apply exact_fallback_conserves.
        * rewrite (copy_from_ok N (b :: rb) Hge).
          assert (Hwc : wf (consume N (fill s))) by (unfold wf, consume; simpl; exact Hwf1).
          destruct (reset_spec _ Hwc) as (_ & Hu' & _). cbn [fst snd delivered]. rewrite Hu', <- Hu1.
          unfold unread, consume, buffer; simpl. fold (buffer (fill s)). rewrite Er, Hb1, Eb. simpl.
          rewrite app_assoc. now rewrite (firstn_skipn N (b :: rb)).
    - destruct (Nat.leb_spec N (length (buffer s))) as [Hle|Hgt].
      + rewrite (copy_from_ok N (buffer s) Hle).
        destruct (take_local N s Hwf Hle) as (Hw3 & Ef & Eu & El).
        destruct (reset_spec _ Hw3) as (_ & Hu' & _). cbn [fst snd delivered].
        rewrite Hu', Ef, Eu. symmetry. apply firstn_skipn.
      + destruct (a_rbuf (fill s)) as [|b rb] eqn:Er.
        * cbn [fst snd delivered]. now rewrite unread_set_geof, Hu1.
        * destruct (Nat.leb_spec N (length (b :: rb) + length (buffer s))) as [Hle2|Hgt2].
          -- rewrite Hb1. rewrite (copy_from_ok (length (buffer s)) (buffer s)) by lia.
             rewrite (copy_from_ok (N - length (buffer s)) (b :: rb)) by lia.
             rewrite firstn_all.
             pose proof (buffer_length s) as HBL.
             set (n := length (buffer s)) in *.
             assert (Hwc : wf (consume (N - n) (set_pos (a_pos (fill s) + n) (fill s)))).
             { unfold wf, consume, set_pos; simpl. rewrite Hbuf1, Hpos1, Hcap1. destruct Hwf as [Hw1 Hw2]. lia. }
             destruct (reset_spec _ Hwc) as (_ & Hu' & _). cbn [fst snd delivered]. rewrite Hu', <- Hu1.
             unfold unread, consume, set_pos, buffer; simpl. rewrite Er, Hbuf1, Hpos1.
             destruct Hwf as [Hw1 Hw2]. rewrite (@skipn_all2 _ (a_pos s + n) (a_buf s)) by lia. simpl.
             rewrite <- app_assoc. f_equal. rewrite app_assoc. now rewrite (firstn_skipn (N - n) (b :: rb)).
          -- rewrite <- Hu1. apply exact_fallback_conserves. exact Hwf1.
  Qed.

  (* ---- a successful read_slice(n) / read_array::<N>() returns exactly n bytes, for every source ---- *)
  Lemma a_slice_takes : forall len, takes len (a_slice grow len).
  Proof.
    intros len s Hwf l. unfold a_slice. destruct (Nat.eqb_spec len 0) as [E0|N0].
    { subst len. cbn [fst]. intros E; inversion E; reflexivity. }
    destruct (compact_spec len s Hwf) as (s1 & Ec & Hwf1 & Hu1 & _).
    unfold bind. rewrite Ec. cbn beta iota.
    destruct (buffer_at_least grow len s1) as [r s2] eqn:Eb.
    destruct (take_tail_cons len s1 s2 r Hwf1 Eb) as [(Er & Hn & Hidx & Hc)|(Er & Hu2)]; subst r.
    - destruct (Nat.leb_spec (a_pos s2 + len) (length (a_buf s2))); [|lia]. cbn [fst]. intros E; inversion E.
      now apply firstn_length_le.
    - cbn [fst]. discriminate.
  Qed.

  Lemma exact_fallback_takes : forall N, takes N (exact_fallback grow dbg N).
  Proof.
    intros N s Hwf l. unfold exact_fallback, bind. destruct (buffer_at_least grow N s) as [r s2] eqn:Eb.
    destruct (take_tail_cons N s s2 r Hwf Eb) as [(Er & Hn & Hidx & Hc)|(Er & Hu2)]; subst r.
    - destruct (Nat.ltb_spec (length (buffer s2)) N); [lia|]. rewrite andb_false_r.
      rewrite (copy_from_ok N (buffer s2) Hn). cbn [fst]. intros E; inversion E. now apply firstn_length_le.
    - cbn [fst]. discriminate.
  Qed.

  Lemma with_reset_fst : forall (A : Type) (r : outcome A * astate), fst (with_reset r) = fst r.
  Proof. intros A [r s]. destruct r; reflexivity. Qed.

  Lemma a_array_takes : forall N, takes N (a_array grow dbg N).
  Proof.
    intros N s Hwf l. unfold a_array. destruct (Nat.eqb_spec N 0) as [E0|N0].
    { subst N. cbn [fst]. intros E; inversion E; reflexivity. }
    pose proof (fill_wf s Hwf) as Hwf1. pose proof (fill_buffer s) as Hb1.
    destruct (Nat.eqb_spec (length (buffer s)) 0) as [En|En].
    - destruct (a_rbuf (fill s)) as [|b rb] eqn:Er; [cbn [fst]; discriminate|].
      destruct (Nat.ltb_spec (length (b :: rb)) N) as [Hlt|Hge].
      + rewrite with_reset_fst. apply exact_fallback_takes, Hwf1.
      + rewrite (copy_from_ok N (b :: rb) Hge). cbn [fst]. intros E; inversion E. now apply firstn_length_le.
    - destruct (Nat.leb_spec N (length (buffer s))) as [Hle|Hgt].
      + rewrite (copy_from_ok N (buffer s) Hle). cbn [fst]. intros E; inversion E. now apply firstn_length_le.
      + destruct (a_rbuf (fill s)) as [|b rb] eqn:Er; [cbn [fst]; discriminate|].
        destruct (Nat.leb_spec N (length (b :: rb) + length (buffer s))) as [Hle2|Hgt2].
        * rewrite Hb1. rewrite (copy_from_ok (length (buffer s)) (buffer s)) by lia.
          rewrite (copy_from_ok (N - length (buffer s)) (b :: rb)) by lia.
          cbn [fst]. intros E; inversion E. rewrite app_length, firstn_all, firstn_length_le; lia.
        * apply exact_fallback_takes, Hwf1.
  Qed.

  Lemma a_peek_head : forall s b, wf s -> fst (a_peek s) = Ok b -> exists t, unread s = b :: t.
  Proof.
    intros s b Hwf. unfold a_peek. destruct (buffer s) as [|b0 t] eqn:Eb.
    - pose proof (fill_unread s) as Hu1. pose proof (fill_buffer s) as Hb1.
      destruct (a_rbuf (fill s)) as [|b1 rb] eqn:Er; cbn [fst]; [discriminate|]. intros E; inversion E; subst b1.
      exists (rb ++ concat (a_chunks (fill s))). rewrite <- Hu1. unfold unread. now rewrite Er, Hb1, Eb.
    - cbn [fst]. intros E; inversion E; subst b0. exists (t ++ a_rbuf s ++ concat (a_chunks s)). unfold unread. now rewrite Eb.
  Qed.

  (* For EVERY source: whenever a required method succeeds, its result and the bytes left are those of the list semantics
     (= SliceReader) on the unread bytes.  A source with empty reads before EOF can only cause failures (UnexpectedEOF with
     nothing consumed), never a wrong value, a skipped or a repeated byte. *)
  Theorem ok_results_exact_any_source : forall s, wf s ->
    (forall b, fst (a_u8 s) = Ok b -> (Ok b, unread (snd (a_u8 s))) = sp_u8 (unread s)) /\
    (forall b, fst (a_peek s) = Ok b -> (Ok b, unread (snd (a_peek s))) = sp_peek (unread s)) /\
    (forall n l, fst (a_slice grow n s) = Ok l -> (Ok l, unread (snd (a_slice grow n s))) = sp_take n (unread s)) /\
    (forall n l, fst (a_array grow dbg n s) = Ok l -> (Ok l, unread (snd (a_array grow dbg n s))) = sp_take n (unread s)).
  Proof.
    intros s Hwf.
    assert (Htake : forall n (m : astate -> outcome (list byte) * astate) l, conserves m (fun l => l) -> takes n m ->
              fst (m s) = Ok l -> (Ok l, unread (snd (m s))) = sp_take n (unread s)).
    { intros n m l Hc Ht E. specialize (Hc s Hwf). specialize (Ht s Hwf l E). rewrite E in Hc. cbn [delivered] in Hc.
      remember (unread (snd (m s))) as u' eqn:Eu'. unfold sp_take. rewrite Hc. rewrite app_length.
      destruct (Nat.leb_spec n (length l + length u')); [|lia].
      assert (Hn : n <= length l) by lia. destruct (take_app _ n l u' Hn) as [Ef Es].
      rewrite Ef, Es. subst n. now rewrite firstn_all, skipn_all. }
    split; [|split; [|split]].
    - intros b E. pose proof (a_u8_conserves s Hwf) as Hc. rewrite E in Hc. cbn [delivered] in Hc. rewrite Hc. reflexivity.
    - intros b E. destruct (a_peek_head s b Hwf E) as [t Ht]. pose proof (a_peek_conserves s Hwf) as Hc.
      rewrite E in Hc. cbn [delivered] in Hc. simpl in Hc. rewrite <- Hc, Ht. reflexivity.
    - intros n l E. apply Htake; auto. apply a_slice_conserves. apply a_slice_takes.
    - intros n l E. apply Htake; auto. apply a_array_conserves. apply a_array_takes.
  Qed.

  (* every byte is delivered exactly once: required methods of the adapter, any source *)
  Theorem required_methods_conserve :
    conserves a_u8 (fun b => [b]) /\ conserves a_peek (fun _ => []) /\
    (forall n, conserves (a_slice grow n) (fun l => l)) /\ (forall n, conserves (a_array grow dbg n) (fun l => l)) /\
    (forall n s, wf s -> unread (snd (a_eor n s)) = unread s) /\ (forall s, wf s -> unread (snd (a_more s)) = unread s).
  Proof.
    split; [exact a_u8_conserves|]. split; [exact a_peek_conserves|]. split; [exact a_slice_conserves|].
    split; [exact a_array_conserves|]. split.
    - intros n s Hw. apply (a_eor_spec n s Hw).
    - intros s Hw. apply (a_more_spec s Hw).
  Qed.
End Cons.
