(* Proofs/CodecTypes.v — round trips for field elements, digests and the air/fri structures; well-formedness
   predicates (= what the Rust constructors accept), narrowing lemmas, no-panic lemmas.  Property C12. *)
From VBase Require Import MachInt.
From VModel Require Import Codec.
From VProofs Require Import CodecPrim.
Open Scope Z_scope.

(* ----------------------------------------------------------------------------- field elements, digests *)
Definition wf_felt (M v : Z) : Prop := 0 <= v < M.

Lemma rt_felt k M : 0 < M <= 256 ^ Z.of_nat k -> RT (write_felt k) (read_felt k M) (wf_felt M).
Proof.
  intros HM v rest Hv. unfold wf_felt in Hv. unfold write_felt, read_felt.
  erewrite bind_ok by (apply rt_uint; lia).
  destruct (Z.geb_spec v M); [lia | reflexivity].
Qed.

Lemma rt_f64 : RT write_f64 read_f64 (wf_felt M64).
Proof. apply rt_felt. vm_compute. split; [reflexivity | discriminate]. Qed.
Lemma rt_f62 : RT write_f62 read_f62 (wf_felt M62).
Proof. apply rt_felt. vm_compute. split; [reflexivity | discriminate]. Qed.
Lemma rt_f128 : RT write_f128 read_f128 (wf_felt M128).
Proof. apply rt_felt. vm_compute. split; [reflexivity | discriminate]. Qed.

(* the reader rejects exactly the non-canonical encodings *)
Lemma read_felt_rejects k M v rest : 0 <= v < 256 ^ Z.of_nat k -> M <= v ->
  read_felt k M (write_uint k v ++ rest) = Err Invalid.
Proof.
  intros Hv HM. unfold read_felt. erewrite bind_ok by (apply rt_uint; lia).
  destruct (Z.geb_spec v M); [reflexivity | lia].
Qed.

Lemma rt_quad w r M : RT w r (wf_felt M) -> RT (write_quad w) (read_quad r) (fun p => wf_felt M (fst p) /\ wf_felt M (snd p)).
Proof. intros H. apply rt_pair; exact H. Qed.
Lemma rt_cube w r M : RT w r (wf_felt M) ->
  RT (write_cube w) (read_cube r) (fun t => wf_felt M (fst (fst t)) /\ wf_felt M (snd (fst t)) /\ wf_felt M (snd t)).
Proof. intros H. apply rt_triple; exact H. Qed.

Lemma rt_digest n : RT write_digest (read_digest n) (fun d => length d = n).
Proof. intros d rest <-. apply read_array_app. Qed.

Definition wf_edigest (d : list Z) : Prop :=
  exists a b c e, d = [a; b; c; e] /\ wf_felt M64 a /\ wf_felt M64 b /\ wf_felt M64 c /\ wf_felt M64 e.

Lemma rt_edigest : RT write_edigest read_edigest wf_edigest.
Proof.
  intros d rest (a & b & c & e & -> & Ha & Hb & Hc & He). unfold wf_felt, M64 in *.
  unfold write_edigest, read_edigest. rewrite !write_many_cons. cbn [write_many flat_map]. rewrite app_nil_r.
  rt_next_by rt_u64 ltac:(cbv beta; lia). rt_next_by rt_u64 ltac:(cbv beta; lia).
  rt_next_by rt_u64 ltac:(cbv beta; lia). rt_next_by rt_u64 ltac:(cbv beta; lia).
  unfold ret, M64. rewrite !Z.mod_small by lia. reflexivity.
Qed.

(* ------------------------------------------------------------------------------------ FieldExtension *)
Lemma rt_FieldExtension : RT write_FieldExtension read_FieldExtension (fun _ => True).
Proof. intros [| |] rest _; reflexivity. Qed.

(* ---------------------------------------------------------------------------------------- is_pow2 *)
Lemma is_pow2_pos x : is_pow2 x = true -> 0 < x.
Proof. unfold is_pow2. intros H. apply andb_prop in H. destruct H as [H _]. now apply Z.ltb_lt. Qed.

Lemma is_pow2_log x : is_pow2 x = true -> x = 2 ^ Z.log2 x.
Proof. unfold is_pow2. intros H. apply andb_prop in H. destruct H as [_ H]. now apply Z.eqb_eq. Qed.

Lemma is_pow2_pow k : 0 <= k -> is_pow2 (2 ^ k) = true.
Proof.
  intros Hk. unfold is_pow2. rewrite Z.log2_pow2 by lia. rewrite Z.eqb_refl.
  assert (0 < 2 ^ k) by (apply Z.pow_pos_nonneg; lia).
  destruct (Z.ltb_spec 0 (2 ^ k)); [reflexivity | lia].
Qed.

(* powers of two up to 256, exhaustively *)
Lemma is_pow2_small x : 0 < x <= 256 -> is_pow2 x = true ->
  x = 1 \/ x = 2 \/ x = 4 \/ x = 8 \/ x = 16 \/ x = 32 \/ x = 64 \/ x = 128 \/ x = 256.
Proof.
  assert (H : forallb (fun x => implb (is_pow2 x)
             ((x =? 1) || (x =? 2) || (x =? 4) || (x =? 8) || (x =? 16) || (x =? 32) || (x =? 64) || (x =? 128) || (x =? 256)))
             (zrange 1 257) = true) by (vm_compute; reflexivity).
  intros Hx Hp. rewrite forallb_forall in H.
  specialize (H x (proj2 (zrange_In 1 257 x ltac:(lia)) ltac:(lia))).
  rewrite Hp in H. cbn [implb] in H.
  repeat (apply orb_prop in H; destruct H as [H | H]); apply Z.eqb_eq in H; lia.
Qed.

(* ---------------------------------------------------------------------------------------- ProofOptions *)
(* exactly the values ProofOptions::new returns, for arguments of the Rust parameter types *)
Definition wf_ProofOptions (o : ProofOptions) : Prop :=
  exists nq bf gf fe ff rd,
    0 <= nq < 2 ^ 64 /\ 0 <= bf < 2 ^ 64 /\ 0 <= gf < 2 ^ 32 /\ 0 <= ff < 2 ^ 64 /\ 0 <= rd < 2 ^ 64 /\
    ProofOptions_new nq bf gf fe ff rd = Ok o.

Ltac inv_asserts H :=
  unfold assert_ in H;
  repeat match type of H with
         | (if ?c then _ else Panic) = Ok _ => let E := fresh "A" in destruct c eqn:E; [|discriminate H]
         end.

Lemma ProofOptions_new_inv nq bf gf fe ff rd o :
  ProofOptions_new nq bf gf fe ff rd = Ok o ->
  0 < nq <= 255 /\ is_pow2 bf = true /\ 2 <= bf <= 128 /\ gf <= 32 /\ is_pow2 ff = true /\ 2 <= ff <= 16 /\
  is_pow2 (rd + 1) = true /\ rd <= 255 /\
  o = mkPO (wrap 8 nq) (wrap 8 bf) (wrap 8 gf) fe (wrap 8 ff) (wrap 8 rd).
Proof.
  intros H. unfold ProofOptions_new in H. inv_asserts H. inversion H; subst; clear H.
  rewrite ?Z.gtb_lt, ?Z.leb_le, ?Z.geb_le in *. repeat split; auto; lia.
Qed.

(* narrow_ProofOptions: the six [as u8] casts of the constructor are lossless for every accepted argument *)
Lemma narrow_ProofOptions nq bf gf fe ff rd o :
  0 <= gf -> 0 <= rd -> ProofOptions_new nq bf gf fe ff rd = Ok o -> o = mkPO nq bf gf fe ff rd.
Proof.
  intros Hg Hr H. apply ProofOptions_new_inv in H.
  destruct H as (H1 & _ & H2 & H3 & _ & H4 & _ & H5 & ->).
  rewrite !wrap_small by lia. reflexivity.
Qed.

Lemma ProofOptions_new_ok nq bf gf fe ff rd :
  0 < nq <= 255 -> is_pow2 bf = true -> 2 <= bf <= 128 -> gf <= 32 -> is_pow2 ff = true -> 2 <= ff <= 16 ->
  is_pow2 (rd + 1) = true -> rd <= 255 ->
  ProofOptions_new nq bf gf fe ff rd = Ok (mkPO (wrap 8 nq) (wrap 8 bf) (wrap 8 gf) fe (wrap 8 ff) (wrap 8 rd)).
Proof.
  intros H1 H2 H3 H4 H5 H6 H7 H8. unfold ProofOptions_new, assert_, usize_max.
  rewrite H2, H5, H7.
  repeat match goal with
         | |- context [?a >? ?b] => destruct (Z.gtb_spec a b); [|lia]
         | |- context [?a <=? ?b] => destruct (Z.leb_spec a b); [|lia]
         | |- context [?a >=? ?b] => destruct (Z.geb_spec a b); [|lia]
         end.
  reflexivity.
Qed.

Theorem rt_ProofOptions : RT write_ProofOptions read_ProofOptions wf_ProofOptions.
Proof.
  intros o rest (nq & bf & gf & fe & ff & rd & Hnq & Hbf & Hgf & Hff & Hrd & Hnew).
  pose proof (narrow_ProofOptions nq bf gf fe ff rd o (proj1 Hgf) (proj1 Hrd) Hnew) as ->.
  pose proof (ProofOptions_new_inv _ _ _ _ _ _ _ Hnew) as (H1 & H2 & H3 & H4 & H5 & H6 & H7 & H8 & _).
  unfold write_ProofOptions, read_ProofOptions. cbn [po_num_queries po_blowup_factor po_grinding_factor
    po_field_extension po_fri_folding_factor po_fri_remainder_max_degree].
  rt_next rt_u8. rt_next rt_u8. rt_next rt_u8. rt_next rt_FieldExtension. rt_next rt_u8.
  rt_next rt_u8.
  rewrite H2, H5, H7. cbn [negb orb].
  repeat match goal with
         | |- context [?a =? ?b] => destruct (Z.eqb_spec a b); [lia|]
         | |- context [?a >? ?b] => destruct (Z.gtb_spec a b); [lia|]
         | |- context [?a <? ?b] => destruct (Z.ltb_spec a b); [lia|]
         end.
  cbn [orb]. unfold lift. now rewrite Hnew.
Qed.

(* explicit description of the accepted set *)
Theorem wf_ProofOptions_explicit o : wf_ProofOptions o <->
  1 <= po_num_queries o <= 255 /\
  In (po_blowup_factor o) [2; 4; 8; 16; 32; 64; 128] /\
  0 <= po_grinding_factor o <= 32 /\
  In (po_fri_folding_factor o) [2; 4; 8; 16] /\
  In (po_fri_remainder_max_degree o) [0; 1; 3; 7; 15; 31; 63; 127; 255].
Proof.
  split.
  - intros (nq & bf & gf & fe & ff & rd & Hnq & Hbf & Hgf & Hff & Hrd & Hnew).
    pose proof (narrow_ProofOptions nq bf gf fe ff rd o (proj1 Hgf) (proj1 Hrd) Hnew) as ->.
    pose proof (ProofOptions_new_inv _ _ _ _ _ _ _ Hnew) as (H1 & H2 & H3 & H4 & H5 & H6 & H7 & H8 & _).
    cbn [po_num_queries po_blowup_factor po_grinding_factor po_fri_folding_factor po_fri_remainder_max_degree In].
    pose proof (is_pow2_small bf ltac:(lia) H2). pose proof (is_pow2_small ff ltac:(lia) H5).
    pose proof (is_pow2_small (rd + 1) ltac:(lia) H7). lia.
  - destruct o as [nq bf gf fe ff rd]. cbn [po_num_queries po_blowup_factor po_grinding_factor
      po_fri_folding_factor po_fri_remainder_max_degree In].
    intros (H1 & H2 & H3 & H4 & H5).
    exists nq, bf, gf, fe, ff, rd.
    assert (Pb : is_pow2 bf = true) by (intuition (subst; reflexivity)).
    assert (Pf : is_pow2 ff = true) by (intuition (subst; reflexivity)).
    assert (Pr : is_pow2 (rd + 1) = true) by (intuition (subst; reflexivity)).
    repeat split; try lia.
    rewrite ProofOptions_new_ok by (auto; lia). rewrite !wrap_small by lia. reflexivity.
Qed.

(* --------------------------------------------------------------------------------------- TraceInfo *)
Definition wf_TraceInfo (t : TraceInfo) : Prop :=
  exists main aux rands length_ meta,
    0 <= main < 2 ^ 64 /\ 0 <= aux < 2 ^ 64 /\ 0 <= rands < 2 ^ 64 /\ 0 <= length_ < 2 ^ 64 /\
    TraceInfo_new_multi_segment main aux rands length_ meta = Ok t.

Lemma TraceInfo_new_inv main aux rands length_ meta t :
  TraceInfo_new_multi_segment main aux rands length_ meta = Ok t ->
  8 <= length_ /\ is_pow2 length_ = true /\ len meta <= 65535 /\ 0 < main /\ main + aux <= 255 /\
  (aux = 0 -> rands = 0) /\ rands <= 255 /\ t = mkTI main aux rands length_ meta.
Proof.
  intros H. unfold TraceInfo_new_multi_segment in H. inv_asserts H. inversion H; subst; clear H.
  rewrite ?Z.gtb_lt, ?Z.leb_le, ?Z.geb_le in *. unfold usize_max in *. repeat split; auto; try lia.
  intros ->. cbn in A4. now apply Z.eqb_eq.
Qed.

(* TraceInfo::new / with_meta produce well-formed values (they are special cases of new_multi_segment) *)
Lemma wf_TraceInfo_with_meta width length_ meta t :
  0 <= width < 2 ^ 64 -> 0 <= length_ < 2 ^ 64 -> TraceInfo_with_meta width length_ meta = Ok t -> wf_TraceInfo t.
Proof.
  intros Hw Hl H. unfold TraceInfo_with_meta, assert_ in H. destruct (width >? 0); [|discriminate].
  exists width, 0, 0, length_, meta. repeat split; try lia. exact H.
Qed.

Lemma log2_bounds x : 8 <= x < 2 ^ 64 -> 3 <= Z.log2 x < 64.
Proof.
  intros H. split.
  - apply Z.log2_le_pow2; [lia|]. change (2 ^ 3) with 8. lia.
  - apply Z.log2_lt_pow2; lia.
Qed.

(* narrow_TraceInfo: every narrowing cast of the writer is lossless on accepted values *)
Lemma narrow_TraceInfo t : wf_TraceInfo t ->
  wrap 8 (ti_main t) = ti_main t /\ wrap 8 (ti_aux t) = ti_aux t /\ wrap 8 (ti_rands t) = ti_rands t /\
  wrap 8 (Z.log2 (ti_length t)) = Z.log2 (ti_length t) /\ wrap 16 (len (ti_meta t)) = len (ti_meta t) /\
  write_TraceInfo_ok t = true.
Proof.
  intros (main & aux & rands & length_ & meta & Hm & Ha & Hr & Hl & Hnew).
  apply TraceInfo_new_inv in Hnew. destruct Hnew as (H1 & H2 & H3 & H4 & H5 & H6 & H7 & ->).
  cbn [ti_main ti_aux ti_rands ti_length ti_meta].
  pose proof (log2_bounds length_ ltac:(lia)). pose proof (len_nonneg meta).
  rewrite !wrap_small by lia. repeat split; auto.
  unfold write_TraceInfo_ok. cbn [ti_aux ti_rands ti_length].
  destruct (Z.leb_spec aux 255); [|lia]. destruct (Z.leb_spec rands 255); [|lia].
  destruct (Z.ltb_spec 0 length_); [reflexivity | lia].
Qed.

Theorem rt_TraceInfo : RT write_TraceInfo read_TraceInfo wf_TraceInfo.
Proof.
  intros t rest Hwf.
  destruct (narrow_TraceInfo t Hwf) as (N1 & N2 & N3 & N4 & N5 & _).
  destruct Hwf as (main & aux & rands & length_ & meta & Hm & Ha & Hr & Hl & Hnew).
  pose proof (TraceInfo_new_inv _ _ _ _ _ _ Hnew) as (H1 & H2 & H3 & H4 & H5 & H6 & H7 & ->).
  cbn [ti_main ti_aux ti_rands ti_length ti_meta] in *.
  pose proof (log2_bounds length_ ltac:(lia)) as Hlog. pose proof (len_nonneg meta) as Hmeta.
  unfold write_TraceInfo, read_TraceInfo. cbn [ti_main ti_aux ti_rands ti_length ti_meta].
  rewrite N1, N2, N3, N4, N5.
  rt_next rt_u8. destruct (Z.eqb_spec main 0); [lia|].
  rt_next rt_u8. destruct (Z.gtb_spec (main + aux) 255); [lia|].
  rt_next rt_u8.
  assert (C1 : (aux =? 0) && negb (rands =? 0) = false).
  { destruct (Z.eqb_spec aux 0) as [E|]; [|reflexivity]. rewrite (H6 E). reflexivity. }
  rewrite C1. destruct (Z.gtb_spec rands 255); [lia|].
  rt_next rt_u8. destruct (Z.ltb_spec (Z.log2 length_) 3); [lia|]. destruct (Z.geb_spec (Z.log2 length_) 64); [lia|].
  rewrite <- (is_pow2_log _ H2).
  rt_next_by rt_u16 ltac:(cbv beta; lia).
  unfold write_bytes.
  destruct meta as [|b meta].
  - cbn [len length Z.of_nat Z.eqb negb]. unfold bind at 1, ret at 1. cbn [app]. unfold lift. now rewrite Hnew.
  - destruct (Z.eqb_spec (len (b :: meta)) 0) as [E|NE]; [unfold len in E; cbn [length] in E; lia|].
    cbn [negb]. unfold read_vec. erewrite bind_ok by apply read_slice_app.
    unfold lift. now rewrite Hnew.
Qed.

(* the boundary members named by the property *)
Example wf_TraceInfo_255_columns : wf_TraceInfo (mkTI 255 0 0 8 []).
Proof. exists 255, 0, 0, 8, []. repeat split; try lia. Qed.
Example wf_TraceInfo_aux_without_rands : wf_TraceInfo (mkTI 3 2 0 8 []).
Proof. exists 3, 2, 0, 8, []. repeat split; try lia. Qed.
Example wf_TraceInfo_max_length : wf_TraceInfo (mkTI 1 254 255 (2 ^ 63) []).
Proof. exists 1, 254, 255, (2 ^ 63), []. repeat split; try lia; vm_compute; try reflexivity; discriminate. Qed.

(* ------------------------------------------------------------------------------------------ Context *)
(* Context::new::<B>(trace_info, options) with |B::get_modulus_le_bytes()| in [1, 254] (8 or 16 for the three
   fields of the crate; the writer asserts < 255, the reader rejects 0) *)
Definition wf_Context (c : Context) : Prop :=
  exists modulus t o,
    wf_TraceInfo t /\ wf_ProofOptions o /\ 1 <= len modulus < 255 /\ Context_new modulus t o = Ok c.

Lemma Context_new_inv modulus t o c : Context_new modulus t o = Ok c ->
  ti_length t <= 2 ^ 32 - 1 /\ ti_length t * po_blowup_factor o <= 2 ^ 32 - 1 /\ c = mkCtx t modulus o.
Proof.
  intros H. unfold Context_new in H. inv_asserts H. inversion H; subst.
  rewrite ?Z.leb_le in *. auto.
Qed.

Lemma narrow_Context c : wf_Context c ->
  wrap 8 (len (ctx_modulus c)) = len (ctx_modulus c) /\ write_Context_ok c = true.
Proof.
  intros (modulus & t & o & Ht & Ho & Hm & Hnew). apply Context_new_inv in Hnew. destruct Hnew as (_ & _ & ->).
  cbn [ctx_modulus]. rewrite wrap_small by lia. split; [reflexivity|].
  unfold write_Context_ok. cbn [ctx_trace_info ctx_modulus].
  destruct (narrow_TraceInfo t Ht) as (_ & _ & _ & _ & _ & ->).
  destruct (Z.ltb_spec (len modulus) 255); [reflexivity | lia].
Qed.

Theorem rt_Context : RT write_Context read_Context wf_Context.
Proof.
  intros c rest Hwf. destruct (narrow_Context c Hwf) as [N _].
  destruct Hwf as (modulus & t & o & Ht & Ho & Hm & Hnew).
  apply Context_new_inv in Hnew. destruct Hnew as (L1 & L2 & ->).
  unfold write_Context, read_Context. cbn [ctx_trace_info ctx_modulus ctx_options] in *. rewrite N.
  rt_next rt_TraceInfo. rt_next rt_u8.
  destruct (Z.eqb_spec (len modulus) 0); [lia|].
  unfold write_bytes, read_vec. erewrite bind_ok by apply read_slice_app.
  rewrite <- (app_nil_r (write_ProofOptions o)), <- app_assoc. cbn [app].
  rt_next rt_ProofOptions.
  unfold usize_max.
  destruct (Z.gtb_spec (ti_length t) (2 ^ 32 - 1)); [lia|].
  destruct (Z.leb_spec (ti_length t * po_blowup_factor o) (2 ^ 64 - 1)); [|lia].
  destruct (Z.leb_spec (ti_length t * po_blowup_factor o) (2 ^ 32 - 1)); [|lia].
  reflexivity.
Qed.

(* ------------------------------------------------------------------------ Commitments, Queries, OodFrame *)
Definition wf_Commitments (c : Commitments) : Prop := len c < 65535.       (* the writer's assert *)
Definition wf_Queries (q : Queries) : Prop := len (q_values q) < 2 ^ 32 /\ len (q_paths q) < 2 ^ 32.
Definition wf_OodFrame (f : OodFrame) : Prop :=
  len (ood_trace_states f) < 2 ^ 16 /\ len (ood_lagrange f) < 2 ^ 16 /\ len (ood_evaluations f) < 2 ^ 16.

Theorem rt_Commitments : RT write_Commitments read_Commitments wf_Commitments.
Proof. intros c rest H. apply rt_blob. unfold wf_Commitments in H. change (256 ^ Z.of_nat 2) with 65536. lia. Qed.

Lemma wf_Commitments_ok c : wf_Commitments c -> write_Commitments_ok c = true.
Proof. unfold wf_Commitments, write_Commitments_ok. intros H. destruct (Z.ltb_spec (len c) 65535); [reflexivity | lia]. Qed.

Theorem rt_Queries : RT write_Queries read_Queries wf_Queries.
Proof.
  intros [p v] rest [Hv Hp]. cbn [q_values q_paths] in *. unfold write_Queries, read_Queries. cbn [q_values q_paths].
  rt_next (rt_blob 4). rt_next (rt_blob 4). reflexivity.
Qed.

Theorem rt_OodFrame : RT write_OodFrame read_OodFrame wf_OodFrame.
Proof.
  intros [t l e] rest (Ht & Hl & He). cbn [ood_trace_states ood_lagrange ood_evaluations] in *.
  unfold write_OodFrame, read_OodFrame. cbn [ood_trace_states ood_lagrange ood_evaluations].
  rt_next (rt_blob 2). rt_next (rt_blob 2). rt_next (rt_blob 2). reflexivity.
Qed.

(* narrow_OodFrame: the u16 length prefixes cannot overflow for frames produced from an accepted TraceInfo:
   trace_states = 1 + 2*width*elem_bytes with width <= 255 and elem_bytes <= 48 (largest extension element),
   the Lagrange frame has log2(trace_length)+1 <= 64 elements, and there are at most 2^10 constraint
   composition columns *)
Lemma narrow_OodFrame width elem_bytes lagrange_elems num_evaluations :
  0 <= width <= 255 -> 0 <= elem_bytes <= 48 -> 0 <= lagrange_elems <= 64 -> 0 <= num_evaluations <= 1024 ->
  1 + 2 * width * elem_bytes < 2 ^ 16 /\ 1 + lagrange_elems * elem_bytes < 2 ^ 16 /\ num_evaluations * elem_bytes < 2 ^ 16.
Proof. intros. change (2 ^ 16) with 65536. nia. Qed.

(* ... but the setters themselves put no bound: a frame with 65536 evaluation bytes is not decoded back *)
Lemma narrow_OodFrame_refuted :
  exists f, len (ood_evaluations f) = 2 ^ 16 /\ read_OodFrame (write_OodFrame f) <> Ok (f, []).
Proof.
  exists (mkOod [] [] (repeat 0 (Z.to_nat 65536))). split.
  - unfold len. cbn [ood_evaluations]. rewrite repeat_length, Z2Nat.id by lia. reflexivity.
  - intros H.
    apply (f_equal (fun r => match r with Ok (f', _) => len (ood_evaluations f') | _ => -1 end)) in H.
    vm_compute in H. discriminate H.
Qed.

(* --------------------------------------------------------------------------------- FriProofLayer, FriProof *)
Definition wf_FriProofLayer (l : FriProofLayer) : Prop :=
  0 < len (fl_values l) < 2 ^ 32 /\ len (fl_paths l) < 2 ^ 32.
Definition wf_FriProof (p : FriProof) : Prop :=
  Z.of_nat (length (fri_layers p)) <= 255 /\ Forall wf_FriProofLayer (fri_layers p) /\
  len (fri_remainder p) < 2 ^ 16 /\ 0 <= fri_num_partitions p < 64.

Theorem rt_FriProofLayer : RT write_FriProofLayer read_FriProofLayer wf_FriProofLayer.
Proof.
  intros [v p] rest [Hv Hp]. cbn [fl_values fl_paths] in *.
  unfold write_FriProofLayer, read_FriProofLayer. cbn [fl_values fl_paths].
  unfold write_blob at 1. rewrite wrap_small by (change (8 * Z.of_nat 4) with 32; lia).
  rt_next_by rt_u32 ltac:(cbv beta; lia).
  destruct (Z.eqb_spec (len v) 0); [lia|].
  unfold write_bytes, read_vec. erewrite bind_ok by apply read_slice_app.
  rt_next (rt_blob 4). reflexivity.
Qed.

Theorem rt_FriProof : RT write_FriProof read_FriProof wf_FriProof.
Proof.
  intros [layers r np] rest (Hn & Hl & Hr & Hnp). cbn [fri_layers fri_remainder fri_num_partitions] in *.
  unfold write_FriProof, read_FriProof. cbn [fri_layers fri_remainder fri_num_partitions].
  rewrite wrap_small by lia.
  rt_next rt_u8.
  erewrite bind_ok by (apply (rt_many _ _ _ rt_FriProofLayer); exact Hl).
  rt_next (rt_blob 2).
  rt_next rt_u8. destruct (Z.geb_spec np 64); [lia | reflexivity].
Qed.

(* narrow_FriProof: number of layers <= log2(2^32) and remainder of at most 256 elements of at most 48 bytes *)
Lemma narrow_FriProof num_layers rem_elems elem_bytes :
  0 <= num_layers <= 32 -> 0 <= rem_elems <= 256 -> 0 <= elem_bytes <= 48 ->
  wrap 8 num_layers = num_layers /\ wrap 16 (rem_elems * elem_bytes) = rem_elems * elem_bytes.
Proof. intros. split; apply wrap_small; [lia | change (2 ^ 16) with 65536; nia]. Qed.

Lemma narrow_FriProof_refuted :
  exists p, length (fri_layers p) = 256%nat /\ Forall wf_FriProofLayer (fri_layers p) /\
            read_FriProof (write_FriProof p) <> Ok (p, []).
Proof.
  exists (mkFri (repeat (mkFL [7] []) 256) [] 0). split; [|split].
  - cbn [fri_layers]. apply repeat_length.
  - cbn [fri_layers]. apply Forall_forall. intros x Hx. apply repeat_spec in Hx. subst.
    unfold wf_FriProofLayer, len. cbn [fl_values fl_paths length Z.of_nat Pos.of_succ_nat]. lia.
  - intros H.
    apply (f_equal (fun r => match r with Ok (p', _) => Z.of_nat (length (fri_layers p')) | _ => -1 end)) in H.
    vm_compute in H. discriminate H.
Qed.

(* ---------------------------------------------------------------------------------------------- Proof *)
(* Proof is a plain struct with public fields: the invariants are those of its components plus the one the
   writer relies on (one Queries per trace segment: the count is not written, the reader derives it from
   the context). *)
Definition wf_gkr (g : option bytes) : Prop :=
  match g with Some b => Z.of_nat (length b) < 2 ^ 64 /\ Forall (fun _ => True) b | None => True end.

Definition wf_Proof (p : Proof) : Prop :=
  wf_Context (pr_context p) /\ 0 <= pr_num_unique_queries p < 256 /\ wf_Commitments (pr_commitments p) /\
  Z.of_nat (length (pr_trace_queries p)) = ti_num_segments (ctx_trace_info (pr_context p)) /\
  Forall wf_Queries (pr_trace_queries p) /\ wf_Queries (pr_constraint_queries p) /\
  wf_OodFrame (pr_ood_frame p) /\ wf_FriProof (pr_fri_proof p) /\ 0 <= pr_pow_nonce p < 2 ^ 64 /\
  wf_gkr (pr_gkr_proof p).

Theorem rt_Proof : RT write_Proof read_Proof wf_Proof.
Proof.
  intros [c nuq com tq cq ood fri nonce gkr] rest.
  unfold wf_Proof. cbn [pr_context pr_num_unique_queries pr_commitments pr_trace_queries pr_constraint_queries
    pr_ood_frame pr_fri_proof pr_pow_nonce pr_gkr_proof].
  intros (Hc & Hnuq & Hcom & Hn & Htq & Hcq & Hood & Hfri & Hnonce & Hgkr).
  unfold write_Proof, read_Proof. cbn [pr_context pr_num_unique_queries pr_commitments pr_trace_queries
    pr_constraint_queries pr_ood_frame pr_fri_proof pr_pow_nonce pr_gkr_proof].
  rt_next rt_Context. rt_next rt_u8. rt_next rt_Commitments.
  rewrite <- Hn. erewrite bind_ok by (apply (rt_many _ _ _ rt_Queries); exact Htq).
  rt_next rt_Queries. rt_next rt_OodFrame. rt_next rt_FriProof.
  rt_next_by rt_u64 ltac:(cbv beta; lia).
  erewrite bind_ok.
  2:{ apply (rt_option _ _ _ (rt_vec _ _ _ rt_u8)). exact Hgkr. }
  reflexivity.
Qed.

Lemma wf_Proof_ok p : wf_Proof p -> write_Proof_ok p = true.
Proof.
  intros (Hc & _ & Hcom & _). unfold write_Proof_ok.
  destruct (narrow_Context _ Hc) as [_ ->]. now rewrite wf_Commitments_ok.
Qed.

(* -------------------------------------------------------------------------------- readers never panic *)
Definition is_bytes (bs : bytes) : Prop := Forall (fun b => 0 <= b < 256) bs.

(* [safeP P r]: on well-formed byte input the reader does not panic; a successful read yields a value in P and
   leaves well-formed bytes *)
Definition safeP {A} (P : A -> Prop) (r : Rd A) : Prop :=
  forall bs, is_bytes bs ->
    match r bs with Ok (a, rest) => P a /\ is_bytes rest | Err _ => True | Panic => False end.

Lemma safe_bind {A B} (P : A -> Prop) (Q : B -> Prop) (r : Rd A) (f : A -> Rd B) :
  safeP P r -> (forall a, P a -> safeP Q (f a)) -> safeP Q (bind r f).
Proof.
  intros Hr Hf bs Hbs. unfold bind. specialize (Hr bs Hbs).
  destruct (r bs) as [[a rest]| |]; auto. destruct Hr as [Pa Hrest]. exact (Hf a Pa rest Hrest).
Qed.

Lemma safe_ret {A} (P : A -> Prop) a : P a -> safeP P (ret a).
Proof. intros Pa bs Hbs. cbn. auto. Qed.

Lemma safe_fail {A} (P : A -> Prop) e : safeP P (@fail A e).
Proof. intros bs _. exact I. Qed.

Lemma safe_weaken {A} (P Q : A -> Prop) r : (forall a, P a -> Q a) -> safeP P r -> safeP Q r.
Proof.
  intros H Hr bs Hbs. specialize (Hr bs Hbs). destruct (r bs) as [[a rest]| |]; auto.
  destruct Hr; split; auto.
Qed.

Lemma safe_read_u8 : safeP (fun b => 0 <= b < 256) read_u8.
Proof. intros [|b r] H; cbn; auto. inversion H; subst. auto. Qed.

Lemma take_is_bytes n bs h t : take n bs = Some (h, t) -> is_bytes bs -> is_bytes h /\ is_bytes t.
Proof.
  intros E H. destruct (take_length _ _ _ _ E) as [-> _]. unfold is_bytes in *. now apply Forall_app in H.
Qed.

Lemma safe_read_array n : safeP is_bytes (read_array n).
Proof.
  intros bs H. unfold read_array. destruct (take n bs) as [[h t]|] eqn:E; auto.
  exact (take_is_bytes _ _ _ _ E H).
Qed.

Lemma safe_read_slice n : safeP is_bytes (read_slice n).
Proof.
  intros bs H. unfold read_slice. destruct (n <=? len bs); [|exact I]. now apply safe_read_array.
Qed.

Lemma of_le_bytes_range l : is_bytes l -> 0 <= of_le_bytes l < 256 ^ Z.of_nat (length l).
Proof.
  induction l as [|b l IH]; intros H; [cbn; lia|].
  inversion H; subst. specialize (IH ltac:(assumption)).
  cbn [of_le_bytes length]. rewrite Nat2Z.inj_succ, Z.pow_succ_r by lia. lia.
Qed.

Lemma safe_read_uint k : safeP (fun x => 0 <= x < 256 ^ Z.of_nat k) (read_uint k).
Proof.
  intros bs H. unfold read_uint, bind, read_array.
  destruct (take k bs) as [[h t]|] eqn:E; [|exact I].
  destruct (take_is_bytes _ _ _ _ E H) as [Hh Ht]. destruct (take_length _ _ _ _ E) as [_ <-].
  cbn. split; [now apply of_le_bytes_range | exact Ht].
Qed.

Lemma safe_lift {A} (P : A -> Prop) (x : Result A) : x <> Panic -> (forall a, x = Ok a -> P a) -> safeP P (lift x).
Proof. intros Hx HP bs Hbs. unfold lift. destruct x; auto. Qed.

Ltac norm_bools :=
  cbv beta in *;
  repeat match goal with H : negb _ = false |- _ => apply negb_false_iff in H end;
  repeat match goal with
         | H : (_ =? _) = false |- _ => apply Z.eqb_neq in H
         | H : (_ >? _) = false |- _ => rewrite Z.gtb_ltb in H; apply Z.ltb_ge in H
         | H : (_ <? _) = false |- _ => apply Z.ltb_ge in H
         | H : (_ >=? _) = false |- _ => rewrite Z.geb_leb in H; apply Z.leb_gt in H
         end.

Lemma safe_read_FieldExtension : safeP (fun _ => True) read_FieldExtension.
Proof.
  unfold read_FieldExtension. eapply safe_bind; [apply safe_read_u8|]. intros b _.
  repeat match goal with |- context [if ?c then _ else _] => destruct c end;
    try (apply safe_ret; exact I); apply safe_fail.
Qed.

(* ProofOptions::read_from: the validation in the reader covers every assert of ProofOptions::new *)
Theorem read_ProofOptions_no_panic : safeP wf_ProofOptions read_ProofOptions.
Proof.
  unfold read_ProofOptions.
  eapply safe_bind; [apply safe_read_u8|]. intros nq Hnq.
  eapply safe_bind; [apply safe_read_u8|]. intros bf Hbf.
  eapply safe_bind; [apply safe_read_u8|]. intros gf Hgf.
  eapply safe_bind; [apply safe_read_FieldExtension|]. intros fe _.
  eapply safe_bind; [apply safe_read_u8|]. intros ff Hff.
  eapply safe_bind; [apply safe_read_u8|]. intros rd Hrd.
  destruct ((nq =? 0) || (nq >? 255)) eqn:C1; [apply safe_fail|].
  destruct (negb (is_pow2 bf) || (bf <? 2) || (bf >? 128)) eqn:C2; [apply safe_fail|].
  destruct (gf >? 32) eqn:C3; [apply safe_fail|].
  destruct (negb (is_pow2 ff) || (ff <? 2) || (ff >? 16)) eqn:C4; [apply safe_fail|].
  destruct (negb (is_pow2 (rd + 1)) || (rd >? 255)) eqn:C5; [apply safe_fail|].
  repeat match goal with H : orb _ _ = false |- _ => apply orb_false_elim in H; destruct H end.
  norm_bools.
  assert (E : ProofOptions_new nq bf gf fe ff rd =
              Ok (mkPO (wrap 8 nq) (wrap 8 bf) (wrap 8 gf) fe (wrap 8 ff) (wrap 8 rd)))
    by (apply ProofOptions_new_ok; auto; lia).
  apply safe_lift; rewrite E; [discriminate|].
  intros a Ha. inversion Ha; subst. exists nq, bf, gf, fe, ff, rd. repeat split; try lia. exact E.
Qed.

(* TraceInfo::read_from: the validation in the reader covers every assert of new_multi_segment *)
Theorem read_TraceInfo_no_panic : safeP wf_TraceInfo read_TraceInfo.
Proof.
  unfold read_TraceInfo.
  eapply safe_bind; [apply safe_read_u8|]. intros main Hmain.
  destruct (main =? 0) eqn:C1; [apply safe_fail|].
  eapply safe_bind; [apply safe_read_u8|]. intros aux Haux.
  destruct (main + aux >? 255) eqn:C2; [apply safe_fail|].
  eapply safe_bind; [apply safe_read_u8|]. intros rands Hrands.
  destruct ((aux =? 0) && negb (rands =? 0)) eqn:C3; [apply safe_fail|].
  destruct (rands >? 255) eqn:C4; [apply safe_fail|].
  eapply safe_bind; [apply safe_read_u8|]. intros e He.
  destruct (e <? 3) eqn:C5; [apply safe_fail|].
  destruct (e >=? 64) eqn:C6; [apply safe_fail|].
  eapply safe_bind; [apply (safe_read_uint 2)|]. intros n Hn.
  eapply (safe_bind (fun m => is_bytes m /\ len m <= 65535)).
  { destruct (negb (n =? 0)); [|apply safe_ret; split; [constructor | cbn; lia]].
    intros bs Hbs. unfold read_vec, read_slice. destruct (n <=? len bs) eqn:Cn; [|exact I].
    unfold read_array. destruct (take (Z.to_nat n) bs) as [[h t]|] eqn:E; [|exact I].
    destruct (take_is_bytes _ _ _ _ E Hbs). destruct (take_length _ _ _ _ E) as [_ Hl].
    cbv beta in Hn. change (256 ^ Z.of_nat 2) with 65536 in Hn.
    repeat split; auto. unfold len. rewrite Hl, Z2Nat.id by lia. lia. }
  intros meta [Hmeta Hlen].
  norm_bools.
  assert (Hp : 2 ^ 3 <= 2 ^ e < 2 ^ 64).
  { split; [apply Z.pow_le_mono_r; lia | apply Z.pow_lt_mono_r; lia]. }
  change (2 ^ 3) with 8 in Hp.
  assert (E : TraceInfo_new_multi_segment main aux rands (2 ^ e) meta = Ok (mkTI main aux rands (2 ^ e) meta)).
  { unfold TraceInfo_new_multi_segment, assert_, usize_max.
    rewrite is_pow2_pow by lia.
    destruct (Z.geb_spec (2 ^ e) 8); [|lia]. destruct (Z.leb_spec (len meta) 65535); [|lia].
    destruct (Z.gtb_spec main 0); [|lia].
    destruct (Z.leb_spec (Z.min (main + aux) (2 ^ 64 - 1)) 255); [|lia].
    assert (C : (if aux =? 0 then rands =? 0 else true) = true).
    { destruct (Z.eqb_spec aux 0); [|reflexivity]. cbn [andb] in C3. now apply negb_false_iff in C3. }
    rewrite C. destruct (Z.leb_spec rands 255); [reflexivity | lia]. }
  apply safe_lift; rewrite E; [discriminate|].
  intros a Ha. inversion Ha; subst. exists main, aux, rands, (2 ^ e), meta. repeat split; try lia. exact E.
Qed.
