(* C15 — the root-of-unity family facts of Proofs/FriRoots.v, discharged for the two base fields of the crate with
   their actual constants (TWO_ADIC_ROOT_OF_UNITY, TWO_ADICITY, GENERATOR: Model/FriInst.v rou64 / rou128), over the
   sigma-type prime fields F64_ops / F128_ops that satisfy FLaws (Proofs/ZpLaws.v); and fri_complete for them.
   stdlib style; the 32 + 40 squarings are checked by vm_compute. *)
From Coq Require Import List ZArith Lia.
From VBase Require Import FieldOps ZpOps.
From VModel Require Import Merkle Fri FriMerkle FriInst.
From VProofs Require Import ZpLaws FriCoset FriComplete FriMerkleInst.
Import ListNotations.
Local Open Scope nat_scope.

Definition rouF64 (k : nat) : Zp P64 := fofz F64_ops (rou64 k).
Definition rouF128 (k : nat) : Zp P128 := fofz F128_ops (rou128 k).
Definition genF64 : Zp P64 := fofz F64_ops 7%Z.
Definition genF128 : Zp P128 := fofz F128_ops 3%Z.

Lemma rouF64_sq : forall k, k < 32 -> fmul F64_ops (rouF64 (S k)) (rouF64 (S k)) = rouF64 k.
Proof. intros k Hk. do 32 (destruct k as [|k]; [apply zp_val_inj; vm_compute; reflexivity|]). lia. Qed.
Lemma rouF64_1 : rouF64 1 = fneg F64_ops (fone F64_ops).
Proof. apply zp_val_inj. vm_compute. reflexivity. Qed.
Lemma twoF64 : fadd F64_ops (fone F64_ops) (fone F64_ops) <> fzero F64_ops.
Proof. intros H. apply (f_equal zp_val) in H. vm_compute in H. discriminate. Qed.
Lemma genF64_nz : genF64 <> fzero F64_ops.
Proof. intros H. apply (f_equal zp_val) in H. vm_compute in H. discriminate. Qed.

Lemma rouF128_sq : forall k, k < 40 -> fmul F128_ops (rouF128 (S k)) (rouF128 (S k)) = rouF128 k.
Proof. intros k Hk. do 40 (destruct k as [|k]; [apply zp_val_inj; vm_compute; reflexivity|]). lia. Qed.
Lemma rouF128_1 : rouF128 1 = fneg F128_ops (fone F128_ops).
Proof. apply zp_val_inj. vm_compute. reflexivity. Qed.
Lemma twoF128 : fadd F128_ops (fone F128_ops) (fone F128_ops) <> fzero F128_ops.
Proof. intros H. apply (f_equal zp_val) in H. vm_compute in H. discriminate. Qed.
Lemma genF128_nz : genF128 <> fzero F128_ops.
Proof. intros H. apply (f_equal zp_val) in H. vm_compute in H. discriminate. Qed.

Section Fields.
Variable dbg : bool.
Variable D : Type.
Variable D_eqb : D -> D -> bool.
Hypothesis D_eqb_spec : forall a b, D_eqb a b = true <-> a = b.
Variable d0 : D.
Variable merge : D -> D -> D.
Variable CS : Type.
Variable cs_reseed : CS -> D -> CS.

Definition fri_complete_f64 (hash_elements : list (Zp P64) -> D) (cs_draw : CS -> CS * draw_res (Zp P64))
  (draw_total : forall c, exists c' a, cs_draw c = (c', DrawOk a)) :=
  fri_complete_merkle D D_eqb D_eqb_spec d0 merge F64_ops F64_laws rouF64 32 ltac:(lia) rouF64_sq rouF64_1 twoF64
    genF64 genF64_nz dbg hash_elements CS cs_reseed cs_draw draw_total.

Definition fri_complete_f128 (hash_elements : list (Zp P128) -> D) (cs_draw : CS -> CS * draw_res (Zp P128))
  (draw_total : forall c, exists c' a, cs_draw c = (c', DrawOk a)) :=
  fri_complete_merkle D D_eqb D_eqb_spec d0 merge F128_ops F128_laws rouF128 40 ltac:(lia) rouF128_sq rouF128_1 twoF128
    genF128 genF128_nz dbg hash_elements CS cs_reseed cs_draw draw_total.
End Fields.
