(* C17 — non-vacuity: the hypotheses of the C17 theorems are satisfiable.  Each Example instantiates a theorem in the
   64-bit field (F64_ops, F64_laws) and discharges ALL its hypotheses.  stdlib style. *)
From Coq Require Import List Arith ZArith Lia Ring Field.
From VBase Require Import FieldOps ZpOps.
From VModel Require Import Composition CompositionLagrange CompositionMixed CompositionMixedWhole ExtField.
From VModel Require Enforce EnforceLagrange.
From VModel Require FFT Stark.
From VProofs Require FFTSpec FFTEval FFTOffset StarkPoly.
From VProofs Require Import ZpLaws CompositionBase CompositionIndex CompositionVerifier CompositionTable CompositionFFT CompositionValid CompositionLagrange CompositionLagrangeTable CompositionLagrangePoly CompositionMixed CompositionMixedWhole CompositionMixedInst ExtModel ExtConcrete.
Import ListNotations.
Local Open Scope nat_scope.

Local Notation Fq := (Zp P64).
Local Notation O64 := F64_ops.
Definition e64 (v : Z) : Fq := fofz O64 v.
Arguments e64 v%Z.
Definition i4 : Fq := e64 (2 ^ 48).          (* a primitive 4th root of unity: (2^48)^2 = 2^96 = -1 *)
Definition m1 : Fq := e64 (-1).
Definition rouA (m : nat) : Fq := if m =? 4 then i4 else if m =? 2 then m1 else fone O64.

Ltac zpc := apply zp_val_inj; vm_compute; reflexivity.

Lemma i4_order : cpow O64 i4 4 = fone O64. Proof. zpc. Qed.
Lemma i4_sq : cpow O64 i4 2 = m1. Proof. zpc. Qed.
Lemma i4_1 : cpow O64 i4 1 = i4. Proof. zpc. Qed.
Lemma m1_inv : fmul O64 m1 m1 = fone O64. Proof. zpc. Qed.
Lemma m1_sq : cpow O64 m1 2 = fone O64. Proof. zpc. Qed.
Lemma m1_1 : cpow O64 m1 1 = m1. Proof. zpc. Qed.

(* ------------------------------------------------------------------ instance A: n = 2, ce blowup 2, LDE blowup 2 *)
Definition ppolysA : list (list Fq) := [[e64 3; e64 5]].
Definition cA : @BC Fq := mkBC 0 [e64 1; e64 2] 1 (cpow O64 m1 1) (e64 13).

Example periodic_row_spec_instance :
  exists t, ptable_new O64 2 2 (e64 7) rouA ppolysA = Some t /\
    forall step, pt_get_row t step = Some (periodic_spec_row O64 2 2 (e64 7) rouA ppolysA step).
Proof.
  apply (periodic_row_spec O64 F64_laws); try lia.
  - exact i4_order.
  - discriminate.
  - intros p [<-|[]]. simpl. lia.
  - intros p [<-|[]]. reflexivity.
  - intros p [<-|[]]. exists 1. reflexivity.
  - intros p [<-|[]]. symmetry. exact i4_1.
Qed.

Example boundary_repr_equiv_instance : forall step, step < 4 ->
  small_eval O64 (small_new cA) [e64 9] (ce_x O64 2 2 (e64 7) rouA step) = bc_spec O64 cA (e64 9) (ce_x O64 2 2 (e64 7) rouA step)
  /\ large_eval O64 (large_new O64 2 2 (e64 7) rouA cA) [e64 9] step = bc_spec O64 cA (e64 9) (ce_x O64 2 2 (e64 7) rouA step)
  /\ (length (bc_poly cA) = 1 -> single_eval O64 (single_new O64 cA) [e64 9] = bc_spec O64 cA (e64 9) (ce_x O64 2 2 (e64 7) rouA step)).
Proof.
  apply (boundary_repr_equiv O64 F64_laws 2 2 (e64 7) rouA) with (ginv := m1); try lia.
  - exact i4_order.
  - exact i4_sq.
  - exact m1_inv.
  - reflexivity.
  - simpl; lia.
  - reflexivity.
  - simpl; lia.
  - reflexivity.
Qed.

Lemma lde_rows_witness {F} (O : FOps F) n ldeb offset wlde polys :
  lde_rows_of O n ldeb offset wlde
    (map (fun j => map (fun T => peval O T (fmul O (cpow O wlde j) offset)) polys) (seq 0 (lde_size n ldeb))) polys.
Proof.
  split; [now rewrite map_length, seq_length|].
  intros j Hj. rewrite nth_error_map, (nth_error_nth' (seq 0 (lde_size n ldeb)) 0) by (now rewrite seq_length).
  now rewrite seq_nth.
Qed.

Definition tmainA (cur nxt pv : list Fq) : list Fq :=
  [fsub O64 (nth 0 nxt (fzero O64)) (fmul O64 (nth 0 cur (fzero O64)) (fadd O64 (fone O64) (nth 0 pv (fzero O64))))].
Definition tauxA (cur nxt acur anxt pv rands : list Fq) : list Fq :=
  [fsub O64 (nth 0 anxt (fzero O64)) (fmul O64 (nth 0 acur (fzero O64)) (nth 0 cur (fzero O64)))].
Definition gA : @BGroup Fq := mkBG (mkDiv 1 (fone O64) []) [mkBC 0 [e64 4] 0 (cpow O64 m1 0) (e64 13)].
Definition gA2 : @BGroup Fq := mkBG (mkDiv 2 m1 []) [cA].
Definition gAaux : @BGroup Fq := mkBG (mkDiv 1 (fone O64) []) [mkBC 0 [e64 1] 0 (cpow O64 m1 0) (e64 17)].
Definition tpolysA : list (list Fq) := [[e64 1; e64 2]].
Definition apolysA : list (list Fq) := [[e64 6; e64 8]].
Definition ldeA (polys : list (list Fq)) : list (list Fq) :=
  map (fun j => map (fun T => peval O64 T (fmul O64 (cpow O64 i4 j) (e64 7))) polys) (seq 0 (lde_size 2 2)).

(* an AIR with a periodic column, an auxiliary column, two main boundary groups (single value at step 0; a two-value
   sequence with first step 1) and an auxiliary group sharing the divisor of the first main group *)
Example table_row_spec_instance :
  evaluate O64 2 2 2 (e64 7) rouA 1 tmainA tauxA ppolysA 1 [e64 11; e64 12] [gA; gA2] [gAaux] [] true (ldeA tpolysA) (ldeA apolysA)
    (fun _ v => v)
  = Some (map (fun i => comp_def O64 2 rouA tmainA tauxA ppolysA 1 [e64 11; e64 12] [gA; gA2] [gAaux] [] true tpolysA apolysA
                          (ce_x O64 2 2 (e64 7) rouA i)) (seq 0 (ce_size 2 2))).
Proof.
  apply (evaluate_spec_aux O64 F64_laws 2 2 2 1 (e64 7) rouA i4 m1); try lia.
  - exact i4_order.
  - exact i4_1.
  - exact i4_sq.
  - exact m1_inv.
  - reflexivity.
  - intros p [<-|[]]. simpl. lia.
  - intros p [<-|[]]. reflexivity.
  - intros p [<-|[]]. exists 1. reflexivity.
  - intros p [<-|[]]. symmetry. exact i4_1.
  - intros g [<-|[<-|[]]]; (split; [repeat split; simpl; lia|]); intros c [<-|[]]; repeat split; simpl; lia.
  - intros g [<-|[]]. split; [repeat split; simpl; lia|]. intros c [<-|[]]. repeat split; simpl; lia.
  - apply lde_rows_witness.
  - apply lde_rows_witness.
Qed.

Example verifier_eval_agrees_instance : forall z,
  evaluate_constraints O64 2 rouA 1 tmainA tauxA 1 ppolysA 1 [e64 11; e64 12] [gA; gA2] [gAaux] [] (fun _ => None)
    (def_cur O64 tpolysA z) (def_nxt O64 2 rouA tpolysA z) (Some (def_acur O64 apolysA z, def_anxt O64 2 rouA apolysA z)) z
  = Some (comp_def O64 2 rouA tmainA tauxA ppolysA 1 [e64 11; e64 12] [gA; gA2] [gAaux] [] true tpolysA apolysA z).
Proof.
  apply (verifier_eval_agrees_aux O64 F64_laws).
  - intros g Hg. simpl in Hg. destruct Hg as [<-|[<-|[<-|[]]]]; reflexivity.
  - intros g c [<-|[<-|[]]] [<-|[]]; simpl; lia.
  - intros g c [<-|[]] [<-|[]]. simpl. lia.
  - reflexivity.
Qed.

(* the single-segment path: same AIR without the auxiliary segment *)
Example table_row_spec_single_segment_instance :
  evaluate O64 2 2 2 (e64 7) rouA 1 tmainA tauxA ppolysA 1 [e64 11] [gA; gA2] [] [] false (ldeA tpolysA) [] (fun _ v => v)
  = Some (map (fun i => comp_def O64 2 rouA tmainA tauxA ppolysA 1 [e64 11] [gA; gA2] [] [] false tpolysA []
                          (ce_x O64 2 2 (e64 7) rouA i)) (seq 0 (ce_size 2 2))).
Proof.
  apply (evaluate_spec_main O64 F64_laws 2 2 2 1 (e64 7) rouA i4 m1); try lia.
  - exact i4_order.
  - exact i4_1.
  - exact i4_sq.
  - exact m1_inv.
  - reflexivity.
  - intros p [<-|[]]. simpl. lia.
  - intros p [<-|[]]. reflexivity.
  - intros p [<-|[]]. exists 1. reflexivity.
  - intros p [<-|[]]. symmetry. exact i4_1.
  - intros g [<-|[<-|[]]]; (split; [repeat split; simpl; lia|]); intros c [<-|[]]; repeat split; simpl; lia.
  - intros g [].
  - apply lde_rows_witness.
  - reflexivity.
Qed.

(* ------------------------------------------------------------------ Lagrange kernel: n = 2 (v = 1), ce blowup 2 *)
Definition LpA : list Fq := [e64 5; e64 6].
Definition ldeLagA : list Fq := map (fun j => peval O64 LpA (fmul O64 (cpow O64 i4 j) (e64 7))) (seq 0 (lde_size 2 2)).
Definition tLagA : EnforceLagrange.LagTC (F := Fq) :=
  EnforceLagrange.mkLTC [e64 3] [Enforce.mkD [((2 ^ Z.of_nat 0)%Z, fone O64)] []].

Example lagrange_evaluate_spec_instance :
  lagrange_evaluate O64 2 2 2 (e64 7) rouA 1 ldeLagA tLagA [e64 9] (e64 4)
  = Some (map (fun i => lag_def O64 2 rouA 1 LpA tLagA [e64 9] (e64 4) (ce_x O64 2 2 (e64 7) rouA i)) (seq 0 (ce_size 2 2))).
Proof.
  apply (lagrange_evaluate_spec O64 F64_laws 2 2 2 1 (e64 7) rouA i4); try lia;
    try first [exact i4_order | exact i4_sq | exact i4_1 | reflexivity].
  - intros j Hj. unfold ldeLagA. rewrite nth_error_map, (nth_error_nth' (seq 0 (lde_size 2 2)) 0) by (now rewrite seq_length).
    now rewrite seq_nth.
  - intros idx Hi. assert (idx = 0) by lia. subst. reflexivity.
Qed.

Example verifier_lagrange_agrees_instance : forall c x, length c = 2 ->
  EnforceLagrange.lag_evaluate_and_combine O64 tLagA c [e64 9] x
  = Some (rsum O64 (map (fun idx => fmul O64 (lag_num O64 1 tLagA [e64 9] c idx) (finv O64 (fsub O64 (cpow O64 x (2 ^ idx)) (fone O64)))) (seq 0 1)))
  /\ EnforceLagrange.lag_boundary_evaluate_at O64 [e64 9] c (e64 4) x
     = Some (fmul O64 (fmul O64 (fsub O64 (nth 0 c (fzero O64)) (EnforceLagrange.lag_assertion_value O64 [e64 9])) (e64 4)) (finv O64 (fsub O64 x (fone O64)))).
Proof.
  intros c x Hc.
  apply (verifier_lagrange_agrees O64 F64_laws 2 2 2 1 ltac:(lia) ltac:(lia) ltac:(lia) ltac:(lia) 1 ldeLagA ltac:(reflexivity) tLagA [e64 9] (e64 4));
    try lia; try reflexivity; try exact Hc.
  intros idx Hi. assert (idx = 0) by lia. subst. reflexivity.
Qed.

(* ------------------------------------------------------------------ round 7: Lagrange terms as polynomials, n = 2 (v = 1),
   g = -1, random element r_0 = 9; kernel column [1 - r_0, r_0], its polynomial L = 1/2 + (1 - 2 r_0)/2 x *)
Definition r0L : Fq := e64 9.
Definition half : Fq := finv O64 (e64 2).
Definition LpK : list Fq := [half; fmul O64 half (fsub O64 (fone O64) (fmul O64 (e64 2) r0L))].

Example lag_def_is_poly_instance :
  exists Q, length Q <= length LpK /\ forall x, lag_good O64 1 x ->
    lag_def O64 2 rouA 1 LpK tLagA [r0L] (e64 4) x = peval O64 Q x.
Proof.
  apply (lag_def_is_poly O64 F64_laws 2 1 m1 eq_refl).
  - split; [zpc|]. intros i j Hi Hj Hij. destruct i as [|[|]]; destruct j as [|[|]]; try lia; try reflexivity;
      exfalso; apply (f_equal (@zp_val P64)) in Hij; vm_compute in Hij; discriminate.
  - reflexivity.
  - intros idx j Hi Hj. assert (idx = 0) by lia. subst. assert (j = 0) by (simpl in Hj; lia). subst. zpc.
  - zpc.
  - reflexivity.
Qed.

(* round 7: the embedding into the quadratic extension of f64: a main boundary constraint with base-field state / polynomial
   and an extension-field coefficient *)
Example boundary_repr_equiv_ext_instance : forall step, step < 2 * 2 ->
  let OE := q_ops F64_ops (f64_x2 F64_ops) in
  let xB := ce_x O64 2 2 (e64 7) rouA step in
  let spec := Some (fmul OE (e64 3, e64 5) (bc_evaluate_at_mixed O64 OE (q_from_base O64) [e64 1; e64 2] (cpow O64 m1 1)
                                                            (q_from_base O64 xB) (q_from_base O64 (e64 9)))) in
  small_eval_mixed O64 (q_mul_base (f64_x2 F64_ops)) 0 [e64 1; e64 2] (cpow O64 m1 1) (e64 3, e64 5) [e64 9] xB = spec
  /\ large_eval_mixed O64 (q_mul_base (f64_x2 F64_ops)) 0 (eval_poly_with_offset O64 rouA [e64 1; e64 2] (e64 7) (2 * 2 / 2)) (1 * 2)
                      (e64 3, e64 5) [e64 9] step = spec
  /\ (length [e64 1; e64 2] = 1 -> single_eval_mixed O64 (q_mul_base (f64_x2 F64_ops)) 0 (e64 1) (e64 3, e64 5) [e64 9] = spec).
Proof.
  intros step Hstep.
  apply (boundary_repr_equiv_ext O64 _ F64_laws f64_quad_laws _ _ quad_f64_emb 2 2 (e64 7) rouA ltac:(lia) ltac:(lia) i4_order i4_sq m1 m1_inv
           0 1 [e64 1; e64 2] (e64 3, e64 5) [e64 9] (e64 9) eq_refl ltac:(simpl; lia) ltac:(lia) eq_refl step Hstep).
Qed.

(* round 8: the whole mixed single-segment table over the quadratic extension of f64 (instance A without the auxiliary
   segment; base-field trace, periodic column and assertions, extension-field coefficients) *)
Definition OQ := q_ops F64_ops (f64_x2 F64_ops).
Definition embQ := q_from_base F64_ops.
Definition tmainQ (cur nxt pv : list (Fq * Fq)) : list (Fq * Fq) :=
  [fsub OQ (nth 0 nxt (fzero OQ)) (fmul OQ (nth 0 cur (fzero OQ)) (fadd OQ (fone OQ) (nth 0 pv (fzero OQ))))].
Definition gmA : @BGm Fq (Fq * Fq) := mkBGm (mkDiv 1 (fone O64) []) [mkBCm 0 [e64 4] 0 (cpow O64 m1 0) (e64 13, e64 2)].
Definition gmA2 : @BGm Fq (Fq * Fq) := mkBGm (mkDiv 2 m1 []) [mkBCm 0 [e64 1; e64 2] 1 (cpow O64 m1 1) (e64 5, e64 6)].

Lemma tmainQ_commutes cur nxt pv : tmainQ (map embQ cur) (map embQ nxt) (map embQ pv) = map embQ (tmainA cur nxt pv).
Proof.
  unfold tmainQ, tmainA. cbn [map]. f_equal.
  assert (N : forall l, nth 0 (map embQ l) (fzero OQ) = embQ (nth 0 l (fzero O64)))
    by (intros l; change (fzero OQ) with (embQ (fzero O64)); apply map_nth).
  rewrite !N. unfold OQ, embQ.
  rewrite <- (emb_one _ _ _ _ quad_f64_emb), <- (emb_add _ _ _ _ quad_f64_emb), <- (emb_mul _ _ _ _ quad_f64_emb).
  symmetry. apply (emb_sub _ _ _ _ quad_f64_emb).
Qed.

Example table_row_spec_single_segment_ext_instance :
  evaluate_mixed O64 OQ (q_mul_base (f64_x2 F64_ops)) 2 2 2 (e64 7) rouA 1 tmainA ppolysA 1 [(e64 11, e64 3)] [gmA; gmA2] (ldeA tpolysA)
  = Some (map (fun i => comp_def OQ 2 (fun m => embQ (rouA m)) tmainQ (fun _ _ _ _ _ _ => []) (map (map embQ) ppolysA) 1 [(e64 11, e64 3)]
                                 (map (embG embQ) [gmA; gmA2]) [] [] false (map (map embQ) tpolysA) []
                                 (embQ (ce_x O64 2 2 (e64 7) rouA i))) (seq 0 (ce_size 2 2))).
Proof.
  apply (quad_f64_table_row_spec_ext 2 2 2 (e64 7) rouA 1 tmainA tmainQ (fun _ _ _ _ _ _ => []) tmainQ_commutes ppolysA 1
           [(e64 11, e64 3)] [gmA; gmA2] [] (ldeA tpolysA) [] 1 i4 m1); try lia;
    try first [exact i4_order | exact i4_sq | exact i4_1 | exact m1_inv | reflexivity].
  - intros p [<-|[]]. simpl. lia.
  - intros p [<-|[]]. reflexivity.
  - intros p [<-|[]]. exists 1. reflexivity.
  - intros p [<-|[]]. symmetry. exact i4_1.
  - intros g [<-|[<-|[]]]; (split; [repeat split; simpl; lia|]); intros c [<-|[]]; repeat split; simpl; lia.
  - apply lde_rows_witness.
Qed.

Section TwoPoint.
Context {F : Type} (O : FOps F) (L : FLaws O).
Add Field Ftp : (FLaws_field_theory O L).
Variables x0 x1 : F.
Hypothesis x1_neg : x1 = fneg O x0.
Hypothesis two_nz' : fadd O (fone O) (fone O) <> fzero O.
Hypothesis x0_nz : x0 <> fzero O.
Local Notation two := (fadd O (fone O) (fone O)).

Lemma tp_coeffs a b :
  a = fdiv O (fadd O (peval O [a; b] x0) (peval O [a; b] x1)) two
  /\ b = fdiv O (fsub O (peval O [a; b] x0) (peval O [a; b] x1)) (fmul O two x0).
Proof. rewrite x1_neg. cbn [peval]. split; field; auto. Qed.

Lemma tp_interp e0 e1 :
  peval O [fdiv O (fadd O e0 e1) two; fdiv O (fsub O e0 e1) (fmul O two x0)] x0 = e0
  /\ peval O [fdiv O (fadd O e0 e1) two; fdiv O (fsub O e0 e1) (fmul O two x0)] x1 = e1.
Proof. rewrite x1_neg. cbn [peval]. split; field; auto. Qed.
End TwoPoint.

(* ------------------------------------------------------------------ instance B (capstone): n = 1, ce blowup 2.
   The interpolation hypotheses are satisfiable: over the two-point coset {7, -7} interpolation is
   [(e0 + e1) / 2, (e0 - e1) / (2 * 7)] and it is unique. *)
Section CapstoneInstance.
Add Ring F64r : (FLaws_ring_theory O64 F64_laws).
Local Notation "a +q b" := (fadd O64 a b) (at level 50, left associativity).
Local Notation "a -q b" := (fsub O64 a b) (at level 50, left associativity).
Local Notation "a *q b" := (fmul O64 a b) (at level 40, left associativity).
Local Notation "a /q b" := (fdiv O64 a b) (at level 40, left associativity).
Local Notation q0 := (fzero O64).
Local Notation q1 := (fone O64).
Definition rouB (m : nat) : Fq := if m =? 2 then m1 else fone O64.
Definition x0B : Fq := ce_x O64 1 2 (e64 7) rouB 0.
Definition x1B : Fq := ce_x O64 1 2 (e64 7) rouB 1.
Definition interpB (evals : list Fq) : list Fq :=
  let e0 := nth 0 evals q0 in let e1 := nth 1 evals q0 in
  [(e0 +q e1) /q (q1 +q q1); (e0 -q e1) /q ((q1 +q q1) *q x0B)].

Lemma two_nz : q1 +q q1 <> q0.
Proof. intros H. apply (f_equal (@zp_val P64)) in H. vm_compute in H. discriminate. Qed.
Lemma x0B_nz : x0B <> q0.
Proof. intros H. apply (f_equal (@zp_val P64)) in H. vm_compute in H. discriminate. Qed.
Lemma x1B_neg : x1B = fneg O64 x0B. Proof. zpc. Qed.

Lemma ceB i : i < 2 -> ce_x O64 1 2 (e64 7) rouB i = if i =? 0 then x0B else x1B.
Proof. intros H. destruct i as [|[|]]; try lia; reflexivity. Qed.

Lemma coeffs_from_values (a b : Fq) :
  a = (peval O64 [a; b] x0B +q peval O64 [a; b] x1B) /q (q1 +q q1)
  /\ b = (peval O64 [a; b] x0B -q peval O64 [a; b] x1B) /q ((q1 +q q1) *q x0B).
Proof. exact (tp_coeffs O64 F64_laws x0B x1B x1B_neg two_nz x0B_nz a b). Qed.

Example composition_is_definition_partial_instance :
  exists evals cols,
    evaluate O64 1 2 2 (e64 7) rouB 0 (fun _ _ _ => []) (fun _ _ _ _ _ _ => []) [] 1 [] [] [] [] true
             (map (fun _ => []) (seq 0 2)) (map (fun _ => []) (seq 0 2)) (fun _ v => v) = Some evals
    /\ composition_poly_new 1 interpB evals 1 = Some cols
    /\ (forall z, recombine O64 1 (cp_evaluate_at O64 cols z) z = peval O64 [] z)
    /\ (forall z, True -> recombine O64 1 (cp_evaluate_at O64 cols z) z
          = comp_def O64 1 rouB (fun _ _ _ => []) (fun _ _ _ _ _ _ => []) [] 1 [] [] [] [] true [] [] z).
Proof.
  apply (composition_is_definition_partial O64 F64_laws 1 2 2 1 (e64 7) rouB m1 (fone O64)); try lia;
    try (intros ? Hf; exact (False_ind _ Hf)).
  - exact m1_sq.
  - exact m1_1.
  - exact m1_sq.
  - zpc.
  - reflexivity.
  - split; [reflexivity|]. intros j Hj. destruct j as [|[|]]; try (unfold lde_size in Hj; lia); reflexivity.
  - split; [reflexivity|]. intros j Hj. destruct j as [|[|]]; try (unfold lde_size in Hj; lia); reflexivity.
  - (* interpolation returns a polynomial with the given evaluations *)
    intros evals Hlen. split; [reflexivity|]. intros i Hi.
    destruct evals as [|e0 [|e1 [|]]]; try discriminate Hlen.
    rewrite ceB by exact Hi.
    destruct (tp_interp O64 F64_laws x0B x1B x1B_neg two_nz x0B_nz e0 e1) as [T0 T1].
    destruct i as [|[|]]; try (unfold ce_size in Hi; lia); cbn [Nat.eqb nth interpB]; assumption.
  - (* uniqueness *)
    intros p1 p2 H1 H2 Hev.
    destruct p1 as [|a [|b [|]]]; try discriminate H1. destruct p2 as [|a' [|b' [|]]]; try discriminate H2.
    assert (E0 := Hev 0 ltac:(unfold ce_size; lia)). assert (E1 := Hev 1 ltac:(unfold ce_size; lia)).
    rewrite ceB in E0, E1 by (unfold ce_size; lia). cbn [Nat.eqb] in E0, E1.
    destruct (coeffs_from_values a b) as [Ha Hb]. destruct (coeffs_from_values a' b') as [Ha' Hb'].
    f_equal; [etransitivity; [exact Ha|]; rewrite E0, E1; symmetry; exact Ha'|].
    f_equal. etransitivity; [exact Hb|]. rewrite E0, E1. symmetry. exact Hb'.
  - (* comp_def of the empty AIR is the zero polynomial *)
    intros z _. unfold comp_def, def_transition, def_boundary, def_constraints.
    cbn [map combine app rsum fold_right peval]. ring.
  - unfold ce_size. simpl. lia.
  - simpl. lia.
  - unfold ce_size. lia.
Qed.
(* the assembled capstone (single-segment path) on the empty AIR over a trace of length 1: the FFT model's inverse
   twiddles for size 2, the root conditions, odd characteristic, the primitive root of the (one-point) trace domain and
   the disjointness of the coset {7, -7} from it are all satisfiable together *)
Example composition_is_definition_instance :
  exists itw, FFT.get_inv_twiddles O64 32 (fun _ => m1) (2 ^ 1) = Some itw /\
  exists Q evals cols,
    length Q <= 0
    /\ evaluate O64 1 2 2 (e64 7) rouB 0 (fun _ _ _ => []) (fun _ _ _ _ _ _ => []) [] 1 [] [] [] [] false
                (map (fun _ => []) (seq 0 2)) [] (fun _ v => v) = Some evals
    /\ composition_poly_new 1 (interp_fft O64 32 itw (e64 7)) evals 1 = Some cols
    /\ (forall z, recombine O64 1 (cp_evaluate_at O64 cols z) z = peval O64 Q z)
    /\ (forall z, ~ In z (Stark.domain O64 (gtrace 1 rouB) 1) -> recombine O64 1 (cp_evaluate_at O64 cols z) z
          = comp_def O64 1 rouB (fun _ _ _ => []) (fun _ _ _ _ _ _ => []) [] 1 [] [] [] [] false [] [] z).
Proof.
  eexists. split; [reflexivity|].
  apply (composition_is_definition_valid_main O64 F64_laws 1 2 2 1 (e64 7) rouB m1 (fone O64)) with
    (rouk := fun _ : nat => m1) (K := 0) (N := @nil Fq)
    (Bm := fun _ : @BGroup Fq => @nil Fq) (Rm := fun _ : @BGroup Fq => @nil Fq)
    (Ba := fun _ : @BGroup Fq => @nil Fq) (Ra := fun _ : @BGroup Fq => @nil Fq);
    try lia; try (intros ? Hf; exact (False_ind _ Hf));
    try first [ exact m1_sq | exact m1_1 | reflexivity | constructor ].
  - zpc.
  - intros i j Hi Hj _. lia.
  - reflexivity.
  - intros j Hj. destruct j as [|[|]]; try (unfold lde_size in Hj; lia); reflexivity.
  - intros H. apply (f_equal (@zp_val P64)) in H. vm_compute in H. discriminate.
  - zpc.
  - intros i Hi [H|[]]. destruct i as [|[|]]; try (unfold ce_size in Hi; lia);
      apply (f_equal (@zp_val P64)) in H; vm_compute in H; discriminate.
Qed.
End CapstoneInstance.
