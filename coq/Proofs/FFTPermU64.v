(* C09: the machine-level formula of fft::permute_index — index.reverse_bits().wrapping_shr(64 - size.trailing_zeros())
   on 64-bit words — equals the bit reversal `rev_bits k` used by the rest of the model, for every size 2^k, k <= 63.
   stdlib style. *)
From Coq Require Import List Arith Bool ZArith NArith Lia.
From VModel Require Import FFT.
From VProofs Require Import FFTSpec FFTEval.

Lemma of_nat_pow2 k : N.of_nat (2 ^ k) = (2 ^ N.of_nat k)%N.
Proof. rewrite Nat2N.inj_pow. reflexivity. Qed.

Lemma rev_bits_N_spec : forall w x acc,
  rev_bits_N w (N.of_nat x) acc = (acc * 2 ^ N.of_nat w + N.of_nat (rev_bits w x))%N.
Proof.
  induction w as [|w IH]; intros x acc.
  - cbn [rev_bits_N rev_bits]. change (N.of_nat 0) with 0%N. rewrite N.pow_0_r. lia.
  - cbn [rev_bits_N].
    assert (Hd : N.div2 (N.of_nat x) = N.of_nat (x / 2)).
    { rewrite <- Nat.div2_div. symmetry. apply Nat2N.inj_div2. }
    assert (Hb : N.b2n (N.odd (N.of_nat x)) = N.of_nat (x mod 2)).
    { pose proof (N.div2_odd (N.of_nat x)) as H1. rewrite Hd in H1.
      pose proof (Nat.div_mod x 2 ltac:(lia)) as H2.
      pose proof (Nat.mod_upper_bound x 2 ltac:(lia)) as H3.
      destruct (N.odd (N.of_nat x)); cbn [N.b2n] in *; lia. }
    rewrite Hd, Hb, IH.
    change (rev_bits (S w) x) with (2 ^ w * (x mod 2) + rev_bits w (x / 2)).
    rewrite Nat2N.inj_add, Nat2N.inj_mul, of_nat_pow2, Nat2N.inj_succ, N.pow_succ_r', N.double_spec.
    lia.
Qed.

Lemma rev_bits_pad : forall m k i, i < 2 ^ k -> rev_bits (m + k) i = 2 ^ m * rev_bits k i.
Proof.
  induction m as [|m IH]; intros k i Hi.
  - cbn [Nat.add Nat.pow]. lia.
  - cbn [Nat.add]. rewrite rev_bits_low.
    + rewrite IH by exact Hi. rewrite pow2_S. lia.
    + rewrite Nat.pow_add_r. pose proof (pow2_pos m). nia.
Qed.

Lemma pow2_pos_shape : forall k, exists p, N.of_nat (2 ^ k) = Npos p /\ ctz_pos p = N.of_nat k.
Proof.
  induction k as [|k (p & Hp & Hc)].
  - exists xH. split; reflexivity.
  - exists (xO p). split.
    + rewrite pow2_S, Nat2N.inj_add, Hp. cbn. rewrite Pos.add_diag. reflexivity.
    + cbn [ctz_pos]. rewrite Hc, Nat2N.inj_succ. reflexivity.
Qed.

Theorem permute_index_u64_spec : forall k i, k <= 63 -> i < 2 ^ k ->
  permute_index_u64 (N.of_nat (2 ^ k)) (N.of_nat i) = Some (N.of_nat (rev_bits k i)).
Proof.
  intros k i Hk Hi. unfold permute_index_u64.
  assert (E1 : (N.of_nat i <? N.of_nat (2 ^ k))%N = true) by (apply N.ltb_lt; lia).
  rewrite E1. cbn [negb].
  destruct (pow2_pos_shape k) as (p & Hp & Hc).
  assert (E2 : is_pow2_N (N.of_nat (2 ^ k)) = true).
  { rewrite Hp. unfold is_pow2_N. rewrite Hc, N.shiftl_1_l, <- of_nat_pow2, Hp. apply N.eqb_refl. }
  rewrite E2. cbn [negb]. f_equal.
  assert (E3 : trailing_zeros64 (N.of_nat (2 ^ k)) = N.of_nat k) by (rewrite Hp; exact Hc).
  rewrite E3, rev_bits_N_spec, N.mul_0_l, N.add_0_l, N.shiftr_div_pow2.
  replace 64 with ((64 - k) + k) at 1 by lia.
  rewrite rev_bits_pad by exact Hi.
  rewrite Nat2N.inj_mul, of_nat_pow2.
  destruct k as [|k].
  - cbn in Hi. assert (i = 0) by lia. subst i. cbn [rev_bits]. change (N.of_nat 0) with 0%N.
    rewrite N.mul_0_r. apply N.div_0_l. apply N.pow_nonzero. lia.
  - assert (Es : ((64 - N.of_nat (S k)) mod 64 = N.of_nat (64 - S k))%N).
    { rewrite N.mod_small by lia. lia. }
    rewrite Es, N.mul_comm. apply N.div_mul. apply N.pow_nonzero. lia.
Qed.
