(* C19 — the ToyHasher / WideToy instantiations of the coin model: well-formedness of the byte views (the
   hypotheses of the generic theorems are satisfiable) and non-vacuity examples computed by vm_compute. *)
From VBase Require Import MachInt.
From VModel Require Import ToyHash Coin.
From VProofs Require Import Coin.
Open Scope Z_scope.

Lemma to_le_bytes_range n x : Forall (fun b => 0 <= b < 256) (to_le_bytes n x).
Proof.
  revert x. induction n as [|n IH]; intros x; cbn [to_le_bytes]; constructor; [|apply IH].
  apply Z.mod_pos_bound. lia.
Qed.

Lemma repeat_range n : Forall (fun b => 0 <= b < 256) (repeat 0 n).
Proof. induction n; cbn; constructor; [lia|assumption]. Qed.

Theorem toy_dbytes_wf d : Forall (fun b => 0 <= b < 256) (toy_dbytes d) /\ length (toy_dbytes d) = 32%nat.
Proof.
  unfold toy_dbytes. split.
  - apply Forall_app. split; [apply to_le_bytes_range|apply repeat_range].
  - rewrite app_length, to_le_bytes_length, repeat_length. reflexivity.
Qed.

Theorem wide_dbytes_wf d : Forall (fun b => 0 <= b < 256) (wide_dbytes d).
Proof.
  unfold wide_dbytes. induction d as [|w d IH]; cbn [flat_map]; [constructor|].
  apply Forall_app. split; [apply to_le_bytes_range|exact IH].
Qed.

Lemma wide_hash_length mode bytes : length (wide_dbytes (wide_hash mode bytes)) = 32%nat.
Proof. reflexivity. Qed.

Lemma Zeqb_spec a b : Z.eqb a b = true <-> a = b.
Proof. apply Z.eqb_eq. Qed.

Lemma Forall_weaken_nonneg l : Forall (fun b => 0 <= b < 256) l -> Forall (fun b => 0 <= b) l.
Proof. apply Forall_impl. intros; lia. Qed.

(* ------------------------------------------------------------------------------------------------ *)
(* Non-vacuity: every outcome class of every operation is inhabited.                                 *)
Local Notation tdraw := (coin_draw Z toy_merge_int toy_dbytes).
Local Notation tints := (coin_draw_integers Z toy_merge_int toy_dbytes).
Local Notation tlz := (coin_check_lz Z toy_merge_int toy_dbytes).
Local Notation wdraw m := (coin_draw (list Z) (wide_merge_int m) wide_dbytes).

Definition c0 : coin Z := toy_coin_new 8 [1; 2; 3].

(* draw: accepted at the second try (the first hash value is >= the f62 modulus) *)
Example draw_ok_after_rejection :
  tdraw (fk_f62 1) c0 = (mkCoin 5323811113220503390 2, Ok [910144776332636229]) /\
  from_random_bytes (fk_f62 1) (firstn 8 (toy_dbytes (toy_merge_int (seed c0) 1))) = None.
Proof. split; vm_compute; reflexivity. Qed.

Example draw_quadratic_ok : tdraw (fk_f64 2) c0 = (mkCoin 5323811113220503390 1, Ok [17124573464518542078; 0]).
Proof. vm_compute. reflexivity. Qed.

(* all 32 bytes are live with the wide twin: three independent coefficients *)
Example draw_cubic_wide_ok : exists c' a b c, wdraw 0 (fk_f64 3) (wide_coin_new 0 8 [1; 2; 3]) = (c', Ok [a; b; c]) /\
  a <> b /\ b <> c /\ 0 < c.
Proof. vm_compute. do 4 eexists. split; [reflexivity|]. repeat split; discriminate || reflexivity. Qed.

(* draw: Err after 1000 tries, the counter stays advanced *)
Example draw_err_after_1000 : exists s, wdraw 3 (fk_f64 3) (wide_coin_new 3 8 [1; 2; 3]) = (mkCoin s 1000, Err).
Proof. vm_compute. eexists. reflexivity. Qed.

(* draw: Panic for an element wider than the digest view (CubeExtension<f128>: 48 > 32), after one PRNG call *)
Example draw_panic_oversize_ex : tdraw (fk_f128 3) c0 = (mkCoin (seed c0) 1, Panic).
Proof. vm_compute. reflexivity. Qed.

Example draw_integers_ok_ex : tints c0 5 8 7 = (mkCoin 12659942608561989065 5, Ok [0; 3; 1; 3; 5]).
Proof. vm_compute. reflexivity. Qed.

(* duplicates are not removed (3 occurs twice above); count = domain size is an error, a non-power of two panics *)
Example draw_integers_err_count : tints c0 8 8 7 = (c0, Err).
Proof. vm_compute. reflexivity. Qed.
Example draw_integers_panic_pow2 : tints c0 3 6 7 = (c0, Panic).
Proof. vm_compute. reflexivity. Qed.
Example draw_integers_err_ex : tints c0 1001 2048 7 = (mkCoin 12659942608561989065 1000, Err).
Proof. vm_compute. reflexivity. Qed.
Example draw_integers_zero_ex : exists vals, tints c0 0 2 7 = (mkCoin 12659942608561989065 1000, Ok vals) /\ length vals = 1000%nat.
Proof. vm_compute. eexists. split; reflexivity. Qed.

(* proof of work: the search finds nonce 6 for grinding factor 4, nonce 1 has measure 1 only *)
Example grind_ex : toy_grind 200 c0 4 = Some 6 /\ tlz c0 1 = 1 /\ 4 <= tlz c0 6.
Proof. vm_compute. repeat split; discriminate. Qed.

(* a whole history *)
Example run_ex :
  toy_coin_run c0 [OpDraw (fk_f64 1); OpLz 5; OpReseed 77; OpInts 3 16 9; OpDraw (fk_f64 1)] =
  (mkCoin 9081374999639554722 4,
   [OutElem (Ok [17124573464518542078]); OutLz 3; OutUnit; OutInts (Ok [5; 12; 4]); OutElem (Ok [9344925542989793049])]).
Proof. vm_compute. reflexivity. Qed.

(* sensitivity on the instance: changing the seed / the reseed datum / the nonce / the number of draws changes the next element *)
Definition probe (e : list Z) (ops : list (op Z)) : out :=
  last (snd (toy_coin_run (toy_coin_new 8 e) (ops ++ [OpDraw (fk_f64 1)]))) OutUnit.
Example sensitivity_ex :
  let base := probe [1; 2; 3] [OpReseed 77; OpInts 3 16 9] in
  probe [1; 2; 4] [OpReseed 77; OpInts 3 16 9] <> base /\
  probe [1; 2; 3] [OpReseed 78; OpInts 3 16 9] <> base /\
  probe [1; 2; 3] [OpReseed 77; OpInts 3 16 10] <> base /\
  probe [1; 2; 3] [OpReseed 77; OpInts 3 16 9; OpDraw (fk_f64 1)] <> base.
Proof. vm_compute. repeat split; discriminate. Qed.

(* draws before a reseed are forgotten (by design): same element after the reseed *)
Example forgotten_ex :
  probe [1; 2; 3] [OpDraw (fk_f64 1); OpDraw (fk_f62 2); OpReseed 77] = probe [1; 2; 3] [OpReseed 77].
Proof. vm_compute. reflexivity. Qed.

(* ------------------------------------------------------------------------------------------------ *)
(* The second disjunct of history_inputs_injective is inhabited WITHOUT a collision of the underlying hash:
   ToyHasher (like Blake3/Sha3 in the crate) hashes the plain concatenation in hash_elements and in merge, so
   new([x; d]) and new(e).reseed(d) with x = hash_elements e are the same coin.  find_collision reports it as
   a cross-oracle coincidence. *)
Definition amb_e2 : list Z := [1; 2; 3].
Definition amb_d : Z := 77.
Definition amb_e1 : list Z := [toy_hash_elems 8 amb_e2; amb_d].

Example shape_ambiguity_toy :
  toy_coin_new 8 amb_e1 = fst (toy_coin_run (toy_coin_new 8 amb_e2) [OpReseed amb_d]) /\
  find_collision Z (toy_hash_elems 8) toy_merge toy_merge_int Z.eqb amb_e1 [] amb_e2 [AData amb_d] =
    CrossElemsMerge Z amb_e1 (toy_hash_elems 8 amb_e2) amb_d /\
  valid_collision Z (toy_hash_elems 8) toy_merge toy_merge_int
    (find_collision Z (toy_hash_elems 8) toy_merge toy_merge_int Z.eqb amb_e1 [] amb_e2 [AData amb_d]).
Proof. vm_compute. repeat split; reflexivity. Qed.

(* hypotheses of history_inputs_injective are satisfiable with the first disjunct as conclusion *)
Example injective_ex :
  let c1 := fst (toy_coin_run (toy_coin_new 8 [1; 2; 3]) [OpReseed 77]) in
  let c2 := fst (toy_coin_run (toy_coin_new 8 [1; 2; 3]) [OpReseed 78]) in
  ([1; 2; 3], absorbs Z [OpReseed 77]) <> ([1; 2; 3], absorbs Z [OpReseed 78]) /\ next_input Z c1 <> next_input Z c2.
Proof. vm_compute. split; discriminate. Qed.
