(* C02 — polynomial layer of the soundness argument: coefficient-level polynomial equivalence,
   evaluation homomorphisms, the factor theorem (synthetic division), the root-counting bound,
   divisibility by vanishing polynomials and the linear-algebra part of the ALI counting.
   Generic over every [FOps F] with [FLaws]. *)
From Coq Require Import List Arith Bool Lia Ring Field.
From VBase Require Import FieldOps.
From VModel Require Import Soundness.
Import ListNotations.

Section SoundnessPoly.
Context {F : Type} (O : FOps F) (L : FLaws O).
Local Notation zero := (fzero O).
Local Notation one := (fone O).
Local Infix "+f" := (fadd O) (at level 50, left associativity).
Local Infix "-f" := (fsub O) (at level 50, left associativity).
Local Infix "*f" := (fmul O) (at level 40, left associativity).
Add Ring Fr : (FLaws_ring_theory O L).
Add Field Ff : (FLaws_field_theory O L).

Local Notation fpow := (fpow O).
Local Notation peval := (peval O).
Local Notation coeff := (coeff O).
Local Notation padd := (padd O).
Local Notation pscale := (pscale O).
Local Notation plin := (plin O).
Local Notation pmul := (pmul O).
Local Notation zpoly := (zpoly O).
Local Notation pstrip := (pstrip O).
Local Notation pdegree := (pdegree O).
Local Notation domain := (domain O).
Local Notation fprod := (fprod O).
Local Notation lincomb := (lincomb O).

(* ------------------------------------------------------------------ definitions *)
Definition peqv (a b : list F) : Prop := forall i, coeff a i = coeff b i.
Definition pdivides (d p : list F) : Prop := exists q, peqv p (pmul d q).
Definition pnonzero (p : list F) : Prop := exists i, coeff p i <> zero.

(* ------------------------------------------------------------------ field basics *)
Lemma feqb_true a b : feqb O a b = true -> a = b.
Proof. apply (fl_eqb_spec O L). Qed.

Lemma feqb_refl a : feqb O a a = true.
Proof. now apply (fl_eqb_spec O L). Qed.

Lemma feq_dec (a b : F) : a = b \/ a <> b.
Proof.
  destruct (feqb O a b) eqn:E.
  - left. now apply feqb_true.
  - right. intros ->. rewrite feqb_refl in E. discriminate.
Qed.

Lemma fmul_integral a b : a *f b = zero -> a = zero \/ b = zero.
Proof.
  intros H. destruct (feq_dec a zero) as [E|E]; [now left|right].
  assert (H0 : finv O a *f (a *f b) = b).
  { rewrite (fl_mul_assoc O L). rewrite (fl_inv_l O L) by assumption. ring. }
  rewrite H in H0. rewrite <- H0. ring.
Qed.

Lemma fmul_nonzero a b : a <> zero -> b <> zero -> a *f b <> zero.
Proof. intros Ha Hb H. apply fmul_integral in H. tauto. Qed.

Lemma fsub_eq_zero a b : a -f b = zero -> a = b.
Proof. intros H. assert (H0 : a = (a -f b) +f b) by ring. rewrite H0, H. ring. Qed.

Lemma fsub_nonzero a b : a <> b -> a -f b <> zero.
Proof. intros H E. apply H. now apply fsub_eq_zero. Qed.

(* ------------------------------------------------------------------ coefficients *)
Lemma coeff_nil i : coeff [] i = zero.
Proof. destruct i; reflexivity. Qed.

Lemma coeff_cons_0 c p : coeff (c :: p) 0 = c.
Proof. reflexivity. Qed.

Lemma coeff_cons_S c p i : coeff (c :: p) (S i) = coeff p i.
Proof. reflexivity. Qed.

Lemma coeff_high p i : length p <= i -> coeff p i = zero.
Proof. intros H. now apply nth_overflow. Qed.

Lemma coeff_padd a b i : coeff (padd a b) i = coeff a i +f coeff b i.
Proof.
  revert b i; induction a as [|x a IH]; intros b i.
  - simpl. rewrite coeff_nil. ring.
  - destruct b as [|y b].
    + simpl. rewrite coeff_nil. ring.
    + destruct i; simpl.
      * rewrite !coeff_cons_0. reflexivity.
      * rewrite !coeff_cons_S. apply IH.
Qed.

Lemma coeff_pscale c a i : coeff (pscale c a) i = c *f coeff a i.
Proof.
  revert i; induction a as [|x a IH]; intros i.
  - simpl. rewrite coeff_nil. ring.
  - destruct i; simpl.
    + rewrite !coeff_cons_0. reflexivity.
    + rewrite !coeff_cons_S. apply IH.
Qed.

Lemma coeff_plin r q i : coeff (plin r q) i = coeff (zero :: q) i +f fneg O r *f coeff q i.
Proof. unfold Soundness.plin. now rewrite coeff_padd, coeff_pscale. Qed.

Ltac csimp :=
  repeat (rewrite ?coeff_plin, ?coeff_padd, ?coeff_pscale, ?coeff_cons_0, ?coeff_cons_S, ?coeff_nil).

Lemma coeff_single_zero i : coeff [zero] i = zero.
Proof. destruct i; csimp; reflexivity. Qed.

(* ------------------------------------------------------------------ peqv is an equivalence *)
Lemma peqv_refl a : peqv a a.
Proof. intros i; reflexivity. Qed.

Lemma peqv_sym a b : peqv a b -> peqv b a.
Proof. intros H i; symmetry; apply H. Qed.

Lemma peqv_trans a b c : peqv a b -> peqv b c -> peqv a c.
Proof. intros H1 H2 i. now rewrite H1, H2. Qed.

Lemma peqv_cons c d a b : c = d -> peqv a b -> peqv (c :: a) (d :: b).
Proof. intros -> H [|i]; csimp; [reflexivity|apply H]. Qed.

Lemma peqv_tail c d a b : peqv (c :: a) (d :: b) -> c = d /\ peqv a b.
Proof. intros H. split. apply (H 0). intros i. apply (H (S i)). Qed.

Lemma peval_allzero p x : (forall i, coeff p i = zero) -> peval p x = zero.
Proof.
  induction p as [|c p IH]; intros H; simpl; [reflexivity|].
  pose proof (H 0) as H0. rewrite coeff_cons_0 in H0. subst c.
  rewrite IH by (intro i; apply (H (S i))). ring.
Qed.

Lemma peqv_peval a b : peqv a b -> forall x, peval a x = peval b x.
Proof.
  revert b; induction a as [|c a IH]; intros b H x.
  - symmetry. apply peval_allzero. intros i. rewrite <- H. apply coeff_nil.
  - destruct b as [|y b].
    + apply peval_allzero. intros i. rewrite H. apply coeff_nil.
    + apply peqv_tail in H. destruct H as [-> H]. simpl. now rewrite (IH b H).
Qed.

(* ------------------------------------------------------------------ congruences *)
Lemma padd_peqv a a' b b' : peqv a a' -> peqv b b' -> peqv (padd a b) (padd a' b').
Proof. intros H1 H2 i. csimp. now rewrite H1, H2. Qed.

Lemma pscale_peqv c a a' : peqv a a' -> peqv (pscale c a) (pscale c a').
Proof. intros H i. csimp. now rewrite H. Qed.

Lemma plin_peqv r a a' : peqv a a' -> peqv (plin r a) (plin r a').
Proof. intros H i. csimp. rewrite H. destruct i; csimp; now rewrite ?H. Qed.

Lemma pmul_peqv_r a b b' : peqv b b' -> peqv (pmul a b) (pmul a b').
Proof.
  intros H. induction a as [|x a IH]; simpl; [apply peqv_refl|].
  intros i. csimp. rewrite H. destruct i; csimp; now rewrite ?IH.
Qed.

Lemma padd_nil_r a : padd a [] = a.
Proof. destruct a; reflexivity. Qed.

(* ------------------------------------------------------------------ evaluation homomorphisms *)
Lemma peval_padd a b x : peval (padd a b) x = peval a x +f peval b x.
Proof.
  revert b; induction a as [|c a IH]; intros b.
  - simpl. ring.
  - destruct b as [|y b]; simpl; [ring|]. rewrite IH. ring.
Qed.

Lemma peval_pscale c a x : peval (pscale c a) x = c *f peval a x.
Proof. induction a as [|y a IH]; simpl; [ring|]. rewrite IH. ring. Qed.

Lemma peval_plin r q x : peval (plin r q) x = (x -f r) *f peval q x.
Proof. unfold Soundness.plin. rewrite peval_padd, peval_pscale. simpl. ring. Qed.

Lemma peval_pmul a b x : peval (pmul a b) x = peval a x *f peval b x.
Proof.
  induction a as [|c a IH]; simpl; [ring|].
  rewrite peval_padd, peval_pscale. simpl. rewrite IH. ring.
Qed.

Lemma peval_zpoly rs x : peval (zpoly rs) x = fprod (map (fun r => x -f r) rs).
Proof.
  induction rs as [|r rs IH].
  - simpl. ring.
  - cbn [Soundness.zpoly map]. rewrite peval_plin, IH. reflexivity.
Qed.

Lemma zpoly_root r rs : In r rs -> peval (zpoly rs) r = zero.
Proof.
  induction rs as [|a rs IH]; intros H; [contradiction|].
  cbn [Soundness.zpoly]. rewrite peval_plin. destruct H as [->|H].
  - ring.
  - rewrite (IH H). ring.
Qed.

Lemma zpoly_nonroot x rs : ~ In x rs -> peval (zpoly rs) x <> zero.
Proof.
  induction rs as [|a rs IH]; intros H.
  - simpl. intros E. apply (fl_one_neq_zero O L). rewrite <- E. ring.
  - cbn [Soundness.zpoly]. rewrite peval_plin. apply fmul_nonzero.
    + apply fsub_nonzero. intros ->. apply H. now left.
    + apply IH. intros Hin. apply H. now right.
Qed.

(* ------------------------------------------------------------------ algebra of pmul up to peqv *)
Lemma pmul_padd_l a b q : peqv (pmul (padd a b) q) (padd (pmul a q) (pmul b q)).
Proof.
  revert b; induction a as [|x a IH]; intros b.
  - simpl. apply peqv_refl.
  - destruct b as [|y b].
    + rewrite !padd_nil_r. apply peqv_refl.
    + cbn [Soundness.padd Soundness.pmul]. intros i. csimp.
      destruct i; csimp; [ring|]. rewrite (IH b i). csimp. ring.
Qed.

Lemma pmul_pscale_l c a q : peqv (pmul (pscale c a) q) (pscale c (pmul a q)).
Proof.
  induction a as [|x a IH].
  - simpl. apply peqv_refl.
  - change (pscale c (x :: a)) with (c *f x :: pscale c a).
    cbn [Soundness.pmul]. intros i. csimp.
    destruct i; csimp; [ring|]. rewrite (IH i). csimp. ring.
Qed.

Lemma pmul_shift_l a q : peqv (pmul (zero :: a) q) (zero :: pmul a q).
Proof.
  cbn [Soundness.pmul]. intros i. csimp. ring.
Qed.

Lemma pmul_plin r d q : peqv (pmul (plin r d) q) (plin r (pmul d q)).
Proof.
  unfold Soundness.plin.
  eapply peqv_trans; [apply pmul_padd_l|].
  apply padd_peqv; [apply pmul_shift_l|apply pmul_pscale_l].
Qed.

Lemma pmul_padd_r d a b : peqv (pmul d (padd a b)) (padd (pmul d a) (pmul d b)).
Proof.
  induction d as [|x d IH].
  - simpl. apply peqv_refl.
  - cbn [Soundness.pmul]. intros i. csimp.
    destruct i; csimp; [ring|]. rewrite (IH i). csimp. ring.
Qed.

Lemma pmul_pscale_r d c a : peqv (pmul d (pscale c a)) (pscale c (pmul d a)).
Proof.
  induction d as [|x d IH].
  - simpl. apply peqv_refl.
  - cbn [Soundness.pmul]. intros i. csimp.
    destruct i; csimp; [ring|]. rewrite (IH i). csimp. ring.
Qed.

Lemma pmul_one_l p : peqv (pmul [one] p) p.
Proof. cbn [Soundness.pmul]. intros i. csimp. rewrite coeff_single_zero. ring. Qed.

(* ------------------------------------------------------------------ nonzero polynomials *)
Lemma pnonzero_dec p : pnonzero p \/ (forall i, coeff p i = zero).
Proof.
  induction p as [|c p [[i H]|H]].
  - right. apply coeff_nil.
  - left. exists (S i). now rewrite coeff_cons_S.
  - destruct (feq_dec c zero) as [->|E].
    + right. intros [|i]; csimp; [reflexivity|apply H].
    + left. exists 0. now rewrite coeff_cons_0.
Qed.

Lemma pnonzero_peqv a b : peqv a b -> pnonzero a -> pnonzero b.
Proof. intros H [i Hi]. exists i. now rewrite <- H. Qed.

Lemma pnonzero_not_nil p : pnonzero p -> p <> [].
Proof. intros [i H] ->. apply H. apply coeff_nil. Qed.

Lemma pnonzero_plin r q : pnonzero (plin r q) -> pnonzero q.
Proof.
  intros [i H]. rewrite coeff_plin in H.
  destruct (feq_dec (coeff q i) zero) as [E|E]; [|now exists i].
  rewrite E in H. destruct i as [|j].
  - exfalso. apply H. csimp. ring.
  - exists j. intros E2. apply H. csimp. rewrite E2. ring.
Qed.

(* ------------------------------------------------------------------ synthetic division *)
(* Horner partial values from the top: hs p a = [p(a); (p/X)(a); (p/X^2)(a); ...] *)
Fixpoint hs (p : list F) (a : F) : list F :=
  match p with [] => [] | _ :: p' => Soundness.peval O p a :: hs p' a end.

(* (quotient, remainder) of p by (X - a) *)
Definition syn (p : list F) (a : F) : list F * F := (tl (hs p a), Soundness.peval O p a).

Lemma hs_length p a : length (hs p a) = length p.
Proof. induction p; simpl; auto. Qed.

Lemma syn_length p a : length (fst (syn p a)) = pred (length p).
Proof. unfold syn; cbn [fst]. destruct p; simpl; [reflexivity|apply hs_length]. Qed.

Lemma syn_rem p a : snd (syn p a) = peval p a.
Proof. reflexivity. Qed.

Lemma hs_spec p a c : peqv (c :: p) (padd (plin a (hs p a)) [c +f a *f peval p a]).
Proof.
  revert c; induction p as [|c' p IH]; intros c.
  - cbn [hs Soundness.peval]. intros [|i]; csimp; ring.
  - cbn [hs]. set (v := Soundness.peval O (c' :: p) a).
    intros [|[|j]]; csimp.
    + ring.
    + pose proof (IH c' 0) as H0. revert H0. csimp. intros H0. rewrite H0.
      unfold v. simpl. ring.
    + pose proof (IH c' (S j)) as H1. revert H1. csimp. intros H1. rewrite H1. ring.
Qed.

Lemma syn_spec p a : peqv p (padd (plin a (fst (syn p a))) [snd (syn p a)]).
Proof.
  unfold syn; cbn [fst snd]. destruct p as [|c p].
  - cbn [hs tl Soundness.peval]. intros i. csimp. destruct i; csimp; ring.
  - cbn [hs tl]. simpl (Soundness.peval O (c :: p) a). apply hs_spec.
Qed.

Lemma padd_zero_r p : peqv (padd p [zero]) p.
Proof. intros i. csimp. rewrite coeff_single_zero. ring. Qed.

Theorem root_factor_len p a : p <> [] -> peval p a = zero ->
  exists q, length q = pred (length p) /\ peqv p (plin a q).
Proof.
  intros _ H. exists (fst (syn p a)). split; [apply syn_length|].
  eapply peqv_trans; [apply syn_spec|]. rewrite syn_rem, H. apply padd_zero_r.
Qed.

Theorem root_factor p a : peval p a = zero <-> exists q, peqv p (plin a q).
Proof.
  split.
  - intros H. exists (fst (syn p a)).
    eapply peqv_trans; [apply syn_spec|]. rewrite syn_rem, H. apply padd_zero_r.
  - intros [q H]. rewrite (peqv_peval _ _ H), peval_plin. ring.
Qed.

(* ------------------------------------------------------------------ root counting *)
Lemma root_of_quotient p q r1 r : peqv p (plin r1 q) -> r <> r1 -> peval p r = zero -> peval q r = zero.
Proof.
  intros H Hne Hr. rewrite (peqv_peval _ _ H), peval_plin in Hr.
  apply fmul_integral in Hr. destruct Hr as [Hr|Hr]; [|exact Hr].
  exfalso. now apply (fsub_nonzero r r1).
Qed.

Theorem roots_bound (p : list F) (d : nat) (rs : list F) :
  pnonzero p -> length p <= S d -> NoDup rs ->
  (forall r, In r rs -> peval p r = zero) -> length rs <= d.
Proof.
  revert p rs; induction d as [|d IH]; intros p rs Hnz Hlen Hnd Hroots.
  - destruct rs as [|r rs]; [reflexivity|exfalso].
    destruct p as [|c [|c' p]]; simpl in Hlen; try lia.
    + now apply (pnonzero_not_nil [] Hnz).
    + destruct Hnz as [i Hi]. apply Hi. destruct i; csimp; [|reflexivity].
      pose proof (Hroots r (or_introl eq_refl)) as H. simpl in H. rewrite <- H. ring.
  - destruct rs as [|r1 rs]; [simpl; lia|].
    destruct (root_factor_len p r1 (pnonzero_not_nil p Hnz) (Hroots r1 (or_introl eq_refl)))
      as [q [Hq Hpq]].
    inversion Hnd as [|? ? Hnotin Hnd']; subst.
    simpl. apply le_n_S. apply (IH q rs).
    + apply (pnonzero_plin r1). now apply (pnonzero_peqv p).
    + lia.
    + exact Hnd'.
    + intros r Hr. apply (root_of_quotient p q r1 r Hpq).
      * intros ->. contradiction.
      * apply Hroots. now right.
Qed.

Lemma pstrip_peqv p : peqv (pstrip p) p.
Proof.
  induction p as [|c p IH]; [apply peqv_refl|].
  cbn [Soundness.pstrip]. destruct (Soundness.pstrip O p) as [|f l] eqn:E.
  - destruct (feqb O c zero) eqn:Ec.
    + apply feqb_true in Ec. subst c. intros [|i]; csimp; [reflexivity|].
      rewrite <- (IH i). now rewrite coeff_nil.
    + apply peqv_cons; [reflexivity|exact IH].
  - apply peqv_cons; [reflexivity|exact IH].
Qed.

Theorem roots_bound_degree (p rs : list F) :
  pnonzero p -> NoDup rs -> (forall r, In r rs -> peval p r = zero) -> length rs <= pdegree p.
Proof.
  intros Hnz Hnd Hroots. unfold Soundness.pdegree.
  apply (roots_bound (pstrip p)).
  - apply (pnonzero_peqv p); [apply peqv_sym, pstrip_peqv|exact Hnz].
  - lia.
  - exact Hnd.
  - intros r Hr. rewrite (peqv_peval _ _ (pstrip_peqv p)). now apply Hroots.
Qed.

Lemma padd_length a b : length (padd a b) = Nat.max (length a) (length b).
Proof.
  revert b; induction a as [|x a IH]; intros b; [reflexivity|].
  destruct b as [|y b]; [reflexivity|]. simpl. now rewrite IH.
Qed.

Lemma pscale_length c a : length (pscale c a) = length a.
Proof. apply map_length. Qed.

Theorem agree_bound (a b : list F) (d : nat) (rs : list F) :
  length a <= S d -> length b <= S d -> ~ peqv a b -> NoDup rs ->
  (forall r, In r rs -> peval a r = peval b r) -> length rs <= d.
Proof.
  intros Ha Hb Hne Hnd Hag.
  apply (roots_bound (padd a (pscale (fneg O one) b))).
  - destruct (pnonzero_dec (padd a (pscale (fneg O one) b))) as [H|H]; [exact H|].
    exfalso. apply Hne. intros i. specialize (H i). revert H. csimp. intros H.
    apply fsub_eq_zero. rewrite <- H. ring.
  - rewrite padd_length, pscale_length. lia.
  - exact Hnd.
  - intros r Hr. rewrite peval_padd, peval_pscale, (Hag r Hr). ring.
Qed.

(* roots bound stated with vanishing high coefficients instead of list length *)
Lemma coeff_firstn n p i : coeff (firstn n p) i = if i <? n then coeff p i else zero.
Proof.
  revert p i; induction n as [|n IH]; intros p i.
  - simpl. apply coeff_nil.
  - destruct p as [|c p].
    + simpl. rewrite coeff_nil. now destruct (i <? S n).
    + destruct i as [|i]; cbn [firstn]; csimp; [reflexivity|].
      rewrite IH. reflexivity.
Qed.

Theorem roots_bound_coeff (p : list F) (d : nat) (rs : list F) :
  pnonzero p -> (forall i, d < i -> coeff p i = zero) -> NoDup rs ->
  (forall r, In r rs -> peval p r = zero) -> length rs <= d.
Proof.
  intros Hnz Hhigh Hnd Hroots.
  assert (E : peqv (firstn (S d) p) p).
  { intros i. rewrite coeff_firstn. destruct (i <? S d) eqn:Ei; [reflexivity|].
    apply Nat.ltb_ge in Ei. symmetry. apply Hhigh. lia. }
  apply (roots_bound (firstn (S d) p)).
  - apply (pnonzero_peqv p); [now apply peqv_sym|exact Hnz].
  - rewrite firstn_length. lia.
  - exact Hnd.
  - intros r Hr. rewrite (peqv_peval _ _ E). now apply Hroots.
Qed.

(* ------------------------------------------------------------------ divisibility by vanishing polynomials *)
Theorem divides_vanishes d p : pdivides d p -> forall x, peval d x = zero -> peval p x = zero.
Proof. intros [q H] x Hx. rewrite (peqv_peval _ _ H), peval_pmul, Hx. ring. Qed.

Theorem zpoly_divides rs p :
  NoDup rs -> (forall r, In r rs -> peval p r = zero) -> pdivides (zpoly rs) p.
Proof.
  revert p; induction rs as [|r rs IH]; intros p Hnd Hroots.
  - exists p. cbn [Soundness.zpoly]. apply peqv_sym, pmul_one_l.
  - inversion Hnd as [|? ? Hnotin Hnd']; subst.
    destruct (proj1 (root_factor p r) (Hroots r (or_introl eq_refl))) as [q Hq].
    destruct (IH q Hnd') as [q2 Hq2].
    { intros r' Hr'. apply (root_of_quotient p q r r' Hq).
      - intros ->. contradiction.
      - apply Hroots. now right. }
    exists q2. cbn [Soundness.zpoly].
    eapply peqv_trans; [exact Hq|].
    eapply peqv_trans; [apply plin_peqv, Hq2|apply peqv_sym, pmul_plin].
Qed.

Corollary divides_zpoly_iff rs p :
  NoDup rs -> (pdivides (zpoly rs) p <-> forall r, In r rs -> peval p r = zero).
Proof.
  intros Hnd. split.
  - intros H r Hr. apply (divides_vanishes _ _ H). now apply zpoly_root.
  - now apply zpoly_divides.
Qed.

(* ------------------------------------------------------------------ linear algebra of the ALI counting *)
Lemma pdivides_peqv a b d : peqv a b -> pdivides d a -> pdivides d b.
Proof.
  intros H [q Hq]. exists q. eapply peqv_trans; [apply peqv_sym, H|exact Hq].
Qed.

Lemma pdivides_padd d a b : pdivides d a -> pdivides d b -> pdivides d (padd a b).
Proof.
  intros [q1 H1] [q2 H2]. exists (padd q1 q2).
  eapply peqv_trans; [apply padd_peqv; eassumption|apply peqv_sym, pmul_padd_r].
Qed.

Lemma pdivides_pscale d c a : pdivides d a -> pdivides d (pscale c a).
Proof.
  intros [q H]. exists (pscale c q).
  eapply peqv_trans; [apply pscale_peqv; eassumption|apply peqv_sym, pmul_pscale_r].
Qed.

Fixpoint vadd (al be : list F) : list F :=
  match al, be with a :: al', b :: be' => (a +f b) :: vadd al' be' | _, _ => [] end.
Definition vscale (c : F) (al : list F) : list F := map (fun a => c *f a) al.
Fixpoint unit_vec (k j : nat) : list F :=
  match k with
  | 0 => []
  | S k' => match j with 0 => one :: repeat zero k' | S j' => zero :: unit_vec k' j' end
  end.

Lemma vadd_length al be : length al = length be -> length (vadd al be) = length al.
Proof.
  revert be; induction al as [|a al IH]; intros [|b be] H; simpl in *; try lia.
  rewrite IH; lia.
Qed.

Lemma vscale_length c al : length (vscale c al) = length al.
Proof. apply map_length. Qed.

Lemma unit_vec_length k j : length (unit_vec k j) = k.
Proof.
  revert j; induction k as [|k IH]; intros j; [reflexivity|].
  destruct j; simpl; [now rewrite repeat_length|now rewrite IH].
Qed.

Lemma lincomb_vadd al be ps : length al = length be ->
  peqv (lincomb (vadd al be) ps) (padd (lincomb al ps) (lincomb be ps)).
Proof.
  revert be ps; induction al as [|a al IH]; intros be ps H.
  - destruct be; [|discriminate]. simpl. apply peqv_refl.
  - destruct be as [|b be]; [discriminate|]. destruct ps as [|p ps].
    + simpl. apply peqv_refl.
    + injection H as H. cbn [vadd Soundness.lincomb]. intros i. csimp.
      rewrite (IH be ps H i). csimp. ring.
Qed.

Lemma lincomb_vscale c al ps : peqv (lincomb (vscale c al) ps) (pscale c (lincomb al ps)).
Proof.
  revert ps; induction al as [|a al IH]; intros ps.
  - simpl. apply peqv_refl.
  - destruct ps as [|p ps].
    + simpl. apply peqv_refl.
    + change (vscale c (a :: al)) with (c *f a :: vscale c al).
      cbn [Soundness.lincomb]. intros i. csimp. rewrite (IH ps i). csimp. ring.
Qed.

Lemma lincomb_zeros n ps i : coeff (lincomb (repeat zero n) ps) i = zero.
Proof.
  revert ps; induction n as [|n IH]; intros ps.
  - simpl. apply coeff_nil.
  - destruct ps as [|p ps]; cbn [repeat Soundness.lincomb]; csimp; [reflexivity|].
    rewrite IH. ring.
Qed.

Lemma lincomb_unit ps j : j < length ps ->
  peqv (lincomb (unit_vec (length ps) j) ps) (nth j ps []).
Proof.
  revert j; induction ps as [|p ps IH]; intros j H; simpl in H; [lia|].
  destruct j as [|j]; cbn [length unit_vec Soundness.lincomb nth]; intros i; csimp.
  - rewrite lincomb_zeros. ring.
  - rewrite (IH j (proj2 (Nat.succ_lt_mono _ _) H) i). ring.
Qed.

Theorem ali_good_set_subspace d ps :
  let good al := length al = length ps /\ pdivides d (lincomb al ps) in
  (forall al be, good al -> good be -> good (vadd al be)) /\
  (forall c al, good al -> good (vscale c al)) /\
  (forall j, j < length ps -> ~ pdivides d (nth j ps []) -> ~ good (unit_vec (length ps) j)).
Proof.
  intros good. unfold good. split; [|split].
  - intros al be [Hla Ha] [Hlb Hb]. split.
    + rewrite vadd_length; congruence.
    + apply (pdivides_peqv (padd (lincomb al ps) (lincomb be ps))).
      * apply peqv_sym, lincomb_vadd. congruence.
      * now apply pdivides_padd.
  - intros c al [Hla Ha]. split.
    + now rewrite vscale_length.
    + apply (pdivides_peqv (pscale c (lincomb al ps))).
      * apply peqv_sym, lincomb_vscale.
      * now apply pdivides_pscale.
  - intros j Hj Hnd [_ Hg]. apply Hnd.
    apply (pdivides_peqv (lincomb (unit_vec (length ps) j) ps)); [|exact Hg].
    now apply lincomb_unit.
Qed.

(* ------------------------------------------------------------------ X^n - 1 = prod (X - g^i) *)
Lemma fpow_one n : fpow one n = one.
Proof. induction n as [|n IH]; simpl; [reflexivity|]. rewrite IH. ring. Qed.

Lemma fpow_add x a b : fpow x (a + b) = fpow x a *f fpow x b.
Proof. induction a as [|a IH]; simpl; [ring|]. rewrite IH. ring. Qed.

Lemma fpow_fpow x a b : fpow (fpow x a) b = fpow x (a * b).
Proof.
  induction b as [|b IH].
  - rewrite Nat.mul_0_r. reflexivity.
  - rewrite Nat.mul_succ_r, fpow_add. simpl. rewrite IH. ring.
Qed.

Fixpoint xpow (n : nat) : list F := match n with 0 => [one] | S m => zero :: xpow m end.

Lemma peval_xpow n x : peval (xpow n) x = fpow x n.
Proof. induction n as [|n IH]; simpl; [ring|]. rewrite IH. ring. Qed.

Lemma coeff_xpow_n n : coeff (xpow n) n = one.
Proof. induction n as [|n IH]; simpl; csimp; [reflexivity|exact IH]. Qed.

Lemma coeff_xpow_high n i : n < i -> coeff (xpow n) i = zero.
Proof.
  revert i; induction n as [|n IH]; intros i H; (destruct i as [|i]; [lia|]); cbn [xpow]; csimp.
  - reflexivity.
  - apply IH. lia.
Qed.

Lemma zpoly_length rs : length (zpoly rs) = S (length rs).
Proof.
  induction rs as [|a rs IH]; cbn [Soundness.zpoly length]; [reflexivity|].
  unfold Soundness.plin. rewrite padd_length, pscale_length. cbn [length]. lia.
Qed.

Lemma coeff_zpoly_top rs : coeff (zpoly rs) (length rs) = one.
Proof.
  induction rs as [|r rs IH]; cbn [Soundness.zpoly length]; csimp; [reflexivity|].
  rewrite IH, (coeff_high (zpoly rs) (S (length rs))) by (rewrite zpoly_length; lia). ring.
Qed.

Lemma domain_length g n : length (domain g n) = n.
Proof. unfold Soundness.domain. now rewrite map_length, seq_length. Qed.

Theorem xn_minus_one_factors g n :
  0 < n -> NoDup (domain g n) -> fpow g n = one ->
  forall x, fpow x n -f one = peval (zpoly (domain g n)) x.
Proof.
  intros Hn Hnd Hg x.
  set (rs := domain g n) in *.
  assert (Hlen : length rs = n) by apply domain_length.
  set (D := padd (padd (xpow n) [fneg O one]) (pscale (fneg O one) (zpoly rs))).
  assert (HevD : forall y, peval D y = (fpow y n -f one) -f peval (zpoly rs) y).
  { intros y. unfold D. rewrite !peval_padd, peval_pscale, peval_xpow. simpl. ring. }
  destruct (pnonzero_dec D) as [Hnz|Hz].
  - exfalso.
    assert (Hb : length rs <= n - 1); [|lia].
    apply (roots_bound_coeff D); [exact Hnz| |exact Hnd|].
    + intros i Hi. unfold D. csimp.
      destruct i as [|i]; [lia|]. csimp.
      destruct (Nat.eq_dec (S i) n) as [E|E].
      * rewrite E, coeff_xpow_n, <- Hlen, coeff_zpoly_top. ring.
      * rewrite coeff_xpow_high by lia.
        rewrite (coeff_high (zpoly rs)) by (rewrite zpoly_length; lia). ring.
    + intros r Hr. rewrite HevD, (zpoly_root r rs Hr).
      unfold rs, Soundness.domain in Hr. apply in_map_iff in Hr. destruct Hr as [k [<- _]].
      rewrite fpow_fpow, Nat.mul_comm, <- fpow_fpow, Hg, fpow_one. ring.
  - apply fsub_eq_zero. rewrite <- HevD. now apply peval_allzero.
Qed.

End SoundnessPoly.
