(* C17 — the prover's Lagrange-kernel part of the evaluation table (prover/src/constraints/evaluator/lagrange.rs) equals
   the definition  sum_k cc_k * numerator_k(x) / (x^(2^(k-1)) - 1) + cc_b * (L(x) - prod(1 - r_i)) / (x - 1)  at every
   point x_i = w_ce^i * offset of the ce domain.  The numerators are C16's (coq/Model/EnforceLagrange.v).  stdlib style;
   arbitrary field with FLaws, arbitrary sizes.  Divisions are by finv (x / 0 = 0), as in the code: no non-vanishing
   hypothesis. *)
From Coq Require Import List Arith Bool Lia Ring Field ZArith.
From VBase Require Import MachInt FieldOps.
From VModel Require Import Composition CompositionLagrange.
From VModel Require Enforce EnforceLagrange.
From VProofs Require EnforceField EnforceLagrangeProofs.
From VProofs Require Import CompositionBase CompositionIndex.
Import ListNotations.
Local Open Scope nat_scope.

(* ------------------------------------------------------------------ lists *)
Lemma concat_split {A} : forall (ls : list (list A)) k,
  concat ls = concat (firstn k ls) ++ concat (skipn k ls).
Proof. intros. rewrite <- concat_app, firstn_skipn. reflexivity. Qed.

Lemma skipn_nth_cons {A} (d : A) : forall (l : list A) k, k < length l -> skipn k l = nth k l d :: skipn (S k) l.
Proof.
  induction l as [|a l IH]; intros k Hk; simpl in Hk; [lia|]. destruct k; [reflexivity|].
  cbn [skipn nth]. apply IH. lia.
Qed.

Lemma concat_slice {A} (ls : list (list A)) k : k < length ls ->
  firstn (length (nth k ls [])) (skipn (length (concat (firstn k ls))) (concat ls)) = nth k ls [].
Proof.
  intros Hk. rewrite (concat_split ls k) at 1.
  rewrite skipn_app, Nat.sub_diag, skipn_all. cbn [skipn app].
  rewrite (skipn_nth_cons [] ls k Hk). cbn [concat].
  rewrite firstn_app, Nat.sub_diag, firstn_all. cbn [firstn]. now rewrite app_nil_r.
Qed.

Lemma firstn_S_nth {A} : forall k (l : list A) d, k < length l -> firstn (S k) l = firstn k l ++ [nth k l d].
Proof.
  induction k; intros l d Hk; destruct l; simpl in Hk; try lia; [reflexivity|].
  cbn [firstn nth app]. f_equal. apply IHk. lia.
Qed.

(* sum_{j<k} len / 2^j *)
Fixpoint psum (len k : nat) : nat := match k with 0 => 0 | S k' => psum len k' + len / 2 ^ k' end.

Lemma psum_shift len : forall k, len + psum (len / 2) k = psum len (S k).
Proof.
  induction k; cbn [psum].
  - rewrite Nat.pow_0_r, Nat.div_1_r. lia.
  - cbn [psum] in IHk. rewrite Nat.add_assoc, IHk. f_equal.
    rewrite Nat.div_div by (try lia; apply Nat.pow_nonzero; lia). reflexivity.
Qed.

Section LagrangeProofs.
Context {F : Type} (O : FOps F) (L : FLaws O).
Add Ring Fr : (FLaws_ring_theory O L).
Local Notation fz := (fzero O).
Local Notation f1 := (fone O).
Local Infix "+f" := (fadd O) (at level 50, left associativity).
Local Infix "-f" := (fsub O) (at level 50, left associativity).
Local Infix "*f" := (fmul O) (at level 40, left associativity).
Local Notation cpow := (cpow O).
Local Notation peval := (peval O).
Local Notation rsum := (rsum O).

Variable n ceb ldeb r' : nat.
Variable offset : F.
Variable rou : nat -> F.
Variable wlde : F.
Hypothesis n_pos : n <> 0.
Hypothesis ceb_pos : ceb <> 0.
Hypothesis r_pos : r' <> 0.
Hypothesis ldeb_eq : ldeb = ceb * r'.
Local Notation ce_size := (ce_size n ceb).
Local Notation lde_size := (lde_size n ldeb).
Local Notation wce := (wce n ceb rou).
Local Notation g := (gtrace n rou).
Local Notation ce_x := (ce_x O n ceb offset rou).
Hypothesis wlde_order : cpow wlde lde_size = f1.
Hypothesis wlde_wce : cpow wlde r' = wce.
Hypothesis wlde_g : cpow wlde ldeb = g.

Lemma lde_size_eq : lde_size = ce_size * r'.
Proof. unfold Composition.lde_size, Composition.ce_size. rewrite ldeb_eq. lia. Qed.
Lemma ce_to_lde_blowup_eq : ce_to_lde_blowup n ceb ldeb = r'.
Proof. unfold ce_to_lde_blowup. rewrite lde_size_eq, Nat.mul_comm. apply Nat.div_mul. unfold Composition.ce_size. nia. Qed.
Lemma wce_order : cpow wce ce_size = f1.
Proof.
  rewrite <- wlde_wce, <- (cpow_mul O L). replace (r' * ce_size) with lde_size by (rewrite lde_size_eq; lia). exact wlde_order.
Qed.
Lemma ce_pos : ce_size <> 0.
Proof. unfold Composition.ce_size. nia. Qed.

(* ---------------------------------------------------------------- TransitionDivisorEvaluator *)
Lemma s_precomputes_from_nth : forall m s e k, s = cpow offset e -> k < m ->
  nth_error (s_precomputes_from O offset s m) k = Some (cpow offset (2 ^ k * (e + 1) - 1)).
Proof.
  induction m; intros s e k Hs Hk; [lia|]. destruct k; cbn [s_precomputes_from nth_error].
  - f_equal. rewrite Hs. f_equal. cbn. lia.
  - rewrite (IHm _ (e + e + 1)) by (try lia; rewrite Hs, !(cpow_add O L); cbn; ring).
    f_equal. f_equal. cbn [Nat.pow]. pose proof (Nat.pow_nonzero 2 k ltac:(lia)). nia.
Qed.

Lemma s_precomputes_nth m k : k < m -> nth_error (s_precomputes O offset m) k = Some (cpow offset (2 ^ k - 1)).
Proof.
  intros Hk. unfold s_precomputes. rewrite (s_precomputes_from_nth m f1 0 k) by (auto; reflexivity).
  f_equal. f_equal. lia.
Qed.

(* divisor idx at step: (x_step)^(2^idx) - 1 *)
Lemma evaluate_ith_divisor_spec m idx step : idx < m ->
  evaluate_ith_divisor O n ceb offset rou (s_precomputes O offset m) idx step = Some (cpow (ce_x step) (2 ^ idx) -f f1).
Proof.
  intros Hi. unfold evaluate_ith_divisor. destruct ce_size eqn:E; [exfalso; apply ce_pos; exact E|]. rewrite <- E.
  pose proof ce_pos as Hc.
  rewrite (s_precomputes_nth m idx Hi).
  rewrite (get_ce_x_at_spec O L n ceb offset rou) by (apply Nat.mod_upper_bound; exact Hc).
  f_equal. f_equal. unfold CompositionIndex.ce_x.
  rewrite (cpow_mod O L) by (exact Hc || exact wce_order).
  rewrite (cpow_mul_base O L), <- (cpow_mul O L), (Nat.mul_comm step).
  assert (Ho : cpow offset (2 ^ idx) = cpow offset (2 ^ idx - 1) *f offset).
  { pose proof (Nat.pow_nonzero 2 idx ltac:(lia)). replace (2 ^ idx) with (S (2 ^ idx - 1)) at 1 by lia.
    apply (cpow_S_r O L). }
  rewrite Ho. ring.
Qed.

Definition div_lists (m : nat) : list (list F) :=
  map (fun idx => map (fun step => cpow (ce_x step) (2 ^ idx) -f f1) (seq 0 (ce_size / 2 ^ idx))) (seq 0 m).

Lemma divisor_evals_inv_spec m :
  divisor_evals_inv O n ceb offset rou m = Some (map (finv O) (concat (div_lists m))).
Proof.
  unfold divisor_evals_inv, div_lists.
  rewrite (mapM_some _ (fun idx => map (fun step => cpow (ce_x step) (2 ^ idx) -f f1) (seq 0 (ce_size / 2 ^ idx)))).
  - reflexivity.
  - intros idx Hin. apply in_seq in Hin. apply mapM_some. intros step _. apply evaluate_ith_divisor_spec. lia.
Qed.

(* ---------------------------------------------------------------- slices *)
Lemma slice_indices_from_nth : forall m st len k, k <= m ->
  nth_error (slice_indices_from st len m) k = Some (st + psum len k).
Proof.
  induction m; intros st len k Hk.
  - assert (k = 0) by lia. subst. cbn. f_equal. lia.
  - destruct k; cbn [slice_indices_from nth_error]; [cbn; f_equal; lia|].
    rewrite IHm by lia. f_equal. rewrite <- psum_shift. lia.
Qed.

Lemma div_lists_prefix m : forall k, k <= m -> length (concat (firstn k (div_lists m))) = psum ce_size k.
Proof.
  induction k; intros Hk; [reflexivity|].
  assert (Hl : k < length (div_lists m)) by (unfold div_lists; rewrite map_length, seq_length; lia).
  rewrite (firstn_S_nth k (div_lists m) []) by exact Hl.
  rewrite concat_app, app_length, IHk by lia. cbn [psum concat]. rewrite app_nil_r. f_equal.
  unfold div_lists. rewrite (nth_indep _ [] ((fun idx => map (fun step => cpow (ce_x step) (2 ^ idx) -f f1) (seq 0 (ce_size / 2 ^ idx))) 0))
    by (now rewrite map_length, seq_length).
  rewrite (map_nth (fun idx => map (fun step => cpow (ce_x step) (2 ^ idx) -f f1) (seq 0 (ce_size / 2 ^ idx))) (seq 0 m) 0 k).
  rewrite seq_nth by lia. now rewrite map_length, seq_length.
Qed.

Lemma div_lists_nth m idx : idx < m ->
  nth idx (div_lists m) [] = map (fun step => cpow (ce_x step) (2 ^ idx) -f f1) (seq 0 (ce_size / 2 ^ idx)).
Proof.
  intros H. unfold div_lists.
  rewrite (nth_indep _ [] ((fun i => map (fun step => cpow (ce_x step) (2 ^ i) -f f1) (seq 0 (ce_size / 2 ^ i))) 0))
    by (now rewrite map_length, seq_length).
  rewrite (map_nth (fun i => map (fun step => cpow (ce_x step) (2 ^ i) -f f1) (seq 0 (ce_size / 2 ^ i))) (seq 0 m) 0 idx).
  now rewrite seq_nth by lia.
Qed.

(* get_inverse_divisor_eval(idx, row) = 1 / (x_row^(2^idx) - 1), for every row of the ce domain *)
Lemma get_inverse_divisor_eval_spec m idx row : idx < m -> 2 ^ idx * (ce_size / 2 ^ idx) = ce_size ->
  get_inverse_divisor_eval (map (finv O) (concat (div_lists m))) (slice_indices n ceb m) idx row
  = Some (finv O (cpow (ce_x row) (2 ^ idx) -f f1)).
Proof.
  intros Hi Hdiv. unfold get_inverse_divisor_eval, slice_indices.
  rewrite !slice_indices_from_nth by lia. cbn [Nat.add].
  set (Lk := ce_size / 2 ^ idx) in *.
  assert (HL : Lk <> 0) by (intros H0; rewrite H0 in Hdiv; pose proof ce_pos; lia).
  assert (Hlen : length (div_lists m) = m) by (unfold div_lists; now rewrite map_length, seq_length).
  assert (Hen : psum ce_size (S idx) <= length (map (finv O) (concat (div_lists m)))).
  { rewrite map_length, (concat_split (div_lists m) (S idx)), app_length, div_lists_prefix by lia. lia. }
  cbn [psum] in *. fold Lk in Hen |- *.
  replace (psum ce_size idx <=? psum ce_size idx + Lk) with true by (symmetry; apply Nat.leb_le; lia).
  replace (psum ce_size idx + Lk <=? length (map (finv O) (concat (div_lists m)))) with true by (symmetry; apply Nat.leb_le; lia).
  cbn [andb]. replace (psum ce_size idx + Lk - psum ce_size idx) with Lk by lia.
  assert (Hs : firstn Lk (skipn (psum ce_size idx) (concat (div_lists m))) = nth idx (div_lists m) []).
  { rewrite <- (div_lists_prefix m idx) by lia.
    replace Lk with (length (nth idx (div_lists m) [])) by (rewrite div_lists_nth by exact Hi; now rewrite map_length, seq_length).
    apply concat_slice. lia. }
  rewrite skipn_map, firstn_map, Hs, div_lists_nth by exact Hi.
  rewrite !map_length, seq_length. fold Lk.
  destruct Lk eqn:EL; [congruence|]. rewrite <- EL in *.
  assert (Hr : row mod Lk < Lk) by (apply Nat.mod_upper_bound; exact HL).
  rewrite !nth_error_map, (nth_error_nth' (seq 0 Lk) 0) by (now rewrite seq_length).
  rewrite seq_nth by exact Hr. cbn [option_map Nat.add]. f_equal. f_equal. f_equal.
  unfold CompositionIndex.ce_x. rewrite !(cpow_mul_base O L). f_equal.
  rewrite <- !(cpow_mul O L).
  rewrite (Nat.div_mod row Lk HL) at 2.
  replace ((Lk * (row / Lk) + row mod Lk) * 2 ^ idx) with (ce_size * (row / Lk) + row mod Lk * 2 ^ idx) by (rewrite <- Hdiv; lia).
  rewrite (cpow_add O L), (cpow_mul O L wce ce_size (row / Lk)), wce_order, (cpow_one O L). ring.
Qed.

(* ---------------------------------------------------------------- the frame read from the trace LDE *)
Variable v : nat.
Variable Lp : list F.                                  (* the Lagrange kernel column's polynomial *)
Variable lde_lag : list F.
Hypothesis lde_lag_len : length lde_lag = lde_size.
Hypothesis lde_lag_spec : forall j, j < lde_size -> nth_error lde_lag j = Some (peval Lp (cpow wlde j *f offset)).

(* [L(x), L(g x), L(g^2 x), L(g^4 x), .., L(g^(2^(v-1)) x)] *)
Definition lag_frame (x : F) : list F := peval Lp x :: map (fun i => peval Lp (cpow g (2 ^ i) *f x)) (seq 0 v).

Lemma lde_pos : lde_size <> 0.
Proof. rewrite lde_size_eq. pose proof ce_pos. nia. Qed.

Lemma read_lagrange_frame_spec step : step < ce_size ->
  read_lagrange_frame ldeb v lde_lag (step * r') = Some (lag_frame (ce_x step)).
Proof.
  intros Hs. unfold read_lagrange_frame. rewrite lde_lag_len. pose proof lde_pos as Hp.
  destruct lde_size eqn:E; [congruence|]. rewrite <- E in *.
  rewrite (mapM_some _ (fun s => peval Lp (cpow wlde s *f offset))).
  2:{ intros s Hin. apply lde_lag_spec. destruct Hin as [<-|Hin]; [rewrite lde_size_eq; nia|].
      apply in_map_iff in Hin. destruct Hin as [i [<- _]]. apply Nat.mod_upper_bound. exact Hp. }
  f_equal. unfold lag_frame. cbn [map]. f_equal.
  - f_equal. unfold CompositionIndex.ce_x. rewrite (Nat.mul_comm step), (cpow_mul O L), wlde_wce. reflexivity.
  - rewrite map_map. apply map_ext. intros i. f_equal. unfold CompositionIndex.ce_x.
    rewrite (cpow_mod O L) by assumption.
    rewrite (cpow_add O L), (Nat.mul_comm step), (cpow_mul O L wlde r' step), wlde_wce.
    rewrite (cpow_mul O L wlde ldeb (2 ^ i)), wlde_g. ring.
Qed.

(* ---------------------------------------------------------------- numerators (C16's functions) *)
Variable t : EnforceLagrange.LagTC (F := F).
Variable rr : list F.
Variable lb : F.
Hypothesis coef_len : length (EnforceLagrange.l_coef t) = v.
Hypothesis rr_len : length rr = v.

(* numerator idx (= constraint k = idx + 1) on a frame c: coef_idx * (r[v-k] * c[0] - (1 - r[v-k]) * c[v-k+1]) *)
Definition lag_num (c : list F) (idx : nat) : F :=
  nth idx (EnforceLagrange.l_coef t) fz *f
  (nth (v - 1 - idx) rr fz *f nth 0 c fz -f (f1 -f nth (v - 1 - idx) rr fz) *f nth (v - idx) c fz).

Lemma zidx_nat {A} (l : list A) (i : nat) d : i < length l -> EnforceLagrange.zidx l (Z.of_nat i) = Some (nth i l d).
Proof.
  intros H. unfold EnforceLagrange.zidx. replace (Z.of_nat i <? 0)%Z with false by (symmetry; apply Z.ltb_ge; lia).
  rewrite Nat2Z.id. now apply nth_error_nth'.
Qed.

Lemma lag_ith_numerator_spec c idx : length c = S v -> idx < v ->
  EnforceLagrange.lag_ith_numerator O t c rr (Z.of_nat idx) = Some (lag_num c idx).
Proof.
  intros Hc Hi. unfold EnforceLagrange.lag_ith_numerator, EnforceLagrange.lag_raw. rewrite Hc.
  replace (Z.of_nat (S v) - 1 <? 0)%Z with false by (symmetry; apply Z.ltb_ge; lia).
  replace (Z.of_nat (S v) - 1 <? Z.of_nat idx + 1)%Z with false by (symmetry; apply Z.ltb_ge; lia).
  replace (Z.of_nat (S v) - 1 - (Z.of_nat idx + 1))%Z with (Z.of_nat (v - 1 - idx)) by lia.
  replace (Z.of_nat (v - 1 - idx) + 1)%Z with (Z.of_nat (v - idx)) by lia.
  change 0%Z with (Z.of_nat 0).
  rewrite (zidx_nat rr (v - 1 - idx) fz), (zidx_nat c 0 fz), (zidx_nat c (v - idx) fz), (zidx_nat _ idx fz) by lia.
  reflexivity.
Qed.

Lemma lag_boundary_numerator_spec c : c <> [] ->
  EnforceLagrange.lag_boundary_numerator O rr c lb = Some ((nth 0 c fz -f EnforceLagrange.lag_assertion_value O rr) *f lb).
Proof.
  intros Hc. unfold EnforceLagrange.lag_boundary_numerator. change 0%Z with (Z.of_nat 0).
  rewrite (zidx_nat c 0 fz) by (destruct c; [congruence | simpl; lia]). reflexivity.
Qed.

(* ---------------------------------------------------------------- the verifier's Lagrange section (C16's model of
   LagrangeKernelTransitionConstraints::evaluate_and_combine and LagrangeKernelBoundaryConstraint::evaluate_at, which
   verifier/src/evaluator.rs calls on the OOD Lagrange frame) is the same definition *)
Definition lag_rawn (c : list F) (idx : nat) : F :=
  nth (v - 1 - idx) rr fz *f nth 0 c fz -f (f1 -f nth (v - 1 - idx) rr fz) *f nth (v - idx) c fz.

Lemma lag_raw_spec c idx : length c = S v -> idx < v ->
  EnforceLagrange.lag_raw O c rr (Z.of_nat idx + 1) = Some (lag_rawn c idx).
Proof.
  intros Hc Hi. unfold EnforceLagrange.lag_raw. rewrite Hc.
  replace (Z.of_nat (S v) - 1 <? 0)%Z with false by (symmetry; apply Z.ltb_ge; lia).
  replace (Z.of_nat (S v) - 1 <? Z.of_nat idx + 1)%Z with false by (symmetry; apply Z.ltb_ge; lia).
  replace (Z.of_nat (S v) - 1 - (Z.of_nat idx + 1))%Z with (Z.of_nat (v - 1 - idx)) by lia.
  replace (Z.of_nat (v - 1 - idx) + 1)%Z with (Z.of_nat (v - idx)) by lia.
  change 0%Z with (Z.of_nat 0).
  rewrite (zidx_nat rr (v - 1 - idx) fz), (zidx_nat c 0 fz), (zidx_nat c (v - idx) fz) by lia.
  reflexivity.
Qed.

Lemma zrange_1_seq : zrange 1 (Z.of_nat v + 1) = map (fun idx => (Z.of_nat idx + 1)%Z) (seq 0 v).
Proof.
  unfold zrange. replace (Z.to_nat (Z.of_nat v + 1 - 1)) with v by lia.
  apply map_ext. intros i. lia.
Qed.

Lemma zip_with_seq {A B C} (f : A -> B -> C) (ga : nat -> A) (d : B) : forall m (l : list B) st,
  length l = m ->
  EnforceLagrange.zip_with f (map ga (seq st m)) l = map (fun i => f (ga (st + i)) (nth i l d)) (seq 0 m).
Proof.
  induction m; intros l st Hl; destruct l; simpl in Hl; try lia; [reflexivity|].
  cbn [seq map EnforceLagrange.zip_with nth]. f_equal; [now rewrite Nat.add_0_r|].
  rewrite (IHm l (S st)) by lia. rewrite <- seq_shift, map_map. apply map_ext. intros i.
  replace (S st + i) with (st + S i) by lia. reflexivity.
Qed.

(* the divisors LagrangeKernelTransitionConstraints::new builds (C16_lagrange_count): x^(2^idx) - 1, no exemptions *)
Hypothesis div_len : length (EnforceLagrange.l_div t) = v.
Hypothesis div_spec : forall idx, idx < v ->
  nth idx (EnforceLagrange.l_div t) (Enforce.mkD [] []) = Enforce.mkD [((2 ^ Z.of_nat idx)%Z, f1)] [].
Hypothesis v_lt_64 : v < 64.

Lemma lag_divisor_eval idx x : idx < v ->
  Enforce.evaluate_at O (Enforce.mkD [((2 ^ Z.of_nat idx)%Z, f1)] []) x = cpow x (2 ^ idx) -f f1.
Proof.
  intros Hi. unfold Enforce.evaluate_at, Enforce.eval_numerator, Enforce.eval_exemptions. cbn [Enforce.d_num Enforce.d_ex fold_left fst snd].
  assert (Hlt : (2 ^ Z.of_nat idx < 2 ^ 64)%Z) by (apply Z.pow_lt_mono_r; lia).
  rewrite Z.mod_small by (split; [apply Z.pow_nonneg; lia | exact Hlt]).
  rewrite (EnforceField.fpow_spec O L).
  replace (Z.to_nat (2 ^ Z.of_nat idx)) with (2 ^ idx) by (rewrite <- (Nat2Z.id (2 ^ idx)); f_equal; rewrite Nat2Z.inj_pow; reflexivity).
  change (EnforceField.pown O x (2 ^ idx)) with (cpow x (2 ^ idx)).
  rewrite (fl_div_def O L).
  assert (E1 : finv O f1 = f1).
  { transitivity (finv O f1 *f f1); [ring | apply (fl_inv_l O L), (fl_one_neq_zero O L)]. }
  rewrite E1. ring.
Qed.

Theorem verifier_lagrange_agrees c x : length c = S v ->
  EnforceLagrange.lag_evaluate_and_combine O t c rr x = Some (rsum (map (fun idx => lag_num c idx *f finv O (cpow x (2 ^ idx) -f f1)) (seq 0 v)))
  /\ EnforceLagrange.lag_boundary_evaluate_at O rr c lb x
     = Some ((nth 0 c fz -f EnforceLagrange.lag_assertion_value O rr) *f lb *f finv O (x -f f1)).
Proof.
  intros Hc. split.
  - unfold EnforceLagrange.lag_evaluate_and_combine, EnforceLagrange.lag_numerators. rewrite Hc.
    replace (Z.of_nat (S v) - 1 <? 0)%Z with false by (symmetry; apply Z.ltb_ge; lia).
    replace (Z.of_nat (S v) - 1 + 1)%Z with (Z.of_nat v + 1)%Z by lia.
    rewrite zrange_1_seq, map_map.
    rewrite (EnforceLagrangeProofs.opt_all_map_Some (lag_rawn c)) by (intros idx Hin; apply in_seq in Hin; apply lag_raw_spec; [exact Hc | lia]).
    f_equal.
    rewrite (zip_with_seq (fun e co => co *f e) (lag_rawn c) fz v (EnforceLagrange.l_coef t) 0 coef_len). cbn [Nat.add].
    rewrite (zip_with_seq (fun nm d => fdiv O nm (Enforce.evaluate_at O d x))
               (fun i => nth i (EnforceLagrange.l_coef t) fz *f lag_rawn c i) (Enforce.mkD [] []) v (EnforceLagrange.l_div t) 0 div_len). cbn [Nat.add].
    rewrite (fold_add_rsum O L (fun p => p)), map_id.
    transitivity (rsum (map (fun idx => lag_num c idx *f finv O (cpow x (2 ^ idx) -f f1)) (seq 0 v))); [|reflexivity].
    assert (E : map (fun i => fdiv O (nth i (EnforceLagrange.l_coef t) fz *f lag_rawn c i)
                                     (Enforce.evaluate_at O (nth i (EnforceLagrange.l_div t) (Enforce.mkD [] [])) x)) (seq 0 v)
                = map (fun idx => lag_num c idx *f finv O (cpow x (2 ^ idx) -f f1)) (seq 0 v)).
    { apply map_ext_in. intros idx Hin. apply in_seq in Hin. rewrite div_spec by lia. rewrite lag_divisor_eval by lia.
      rewrite (fl_div_def O L). reflexivity. }
    rewrite E. ring.
  - unfold EnforceLagrange.lag_boundary_evaluate_at. rewrite lag_boundary_numerator_spec by (destruct c; [discriminate | discriminate]).
    unfold EnforceLagrange.lag_boundary_denominator. now rewrite (fl_div_def O L).
Qed.

(* ---------------------------------------------------------------- the definition of the Lagrange part *)
(* lag_def(x) = sum_{idx<v} numerator_idx(frame(x)) / (x^(2^idx) - 1) + (L(x) - prod(1 - r_i)) * cc_b / (x - 1) *)
Definition lag_def_on (c : list F) (x : F) : F :=
  rsum (map (fun idx => lag_num c idx *f finv O (cpow x (2 ^ idx) -f f1)) (seq 0 v))
  +f (nth 0 c fz -f EnforceLagrange.lag_assertion_value O rr) *f lb *f finv O (x -f f1).
Definition lag_def (x : F) : F := lag_def_on (lag_frame x) x.

(* the ce domain size is a multiple of every constraint domain size 2^idx, idx < v  (n = 2^v) *)
Hypothesis pow_div : forall idx, idx < v -> 2 ^ idx * (ce_size / 2 ^ idx) = ce_size.

Lemma boundary_divisors_inv_spec :
  boundary_divisors_inv O n ceb offset rou = Some (map (fun step => finv O (ce_x step -f f1)) (seq 0 ce_size)).
Proof.
  unfold boundary_divisors_inv. rewrite (mapM_some _ ce_x).
  - rewrite map_map. reflexivity.
  - intros s Hs. apply in_seq in Hs. apply (get_ce_x_at_spec O L). lia.
Qed.

(* lagrange_row_spec: the value the prover adds to row `step` is the definition at x_step *)
Theorem lagrange_row_spec step : step < ce_size ->
  lagrange_combined O n ceb ldeb v lde_lag t rr lb (map (finv O) (concat (div_lists v))) (slice_indices n ceb v)
                    (map (fun s => finv O (ce_x s -f f1)) (seq 0 ce_size)) step
  = Some (lag_def (ce_x step)).
Proof.
  intros Hs. unfold lagrange_combined. rewrite ce_to_lde_blowup_eq, (read_lagrange_frame_spec step Hs), coef_len.
  assert (Hfl : length (lag_frame (ce_x step)) = S v) by (unfold lag_frame; cbn [length]; now rewrite map_length, seq_length).
  rewrite (acc_opt_some O L _ (fun idx => lag_num (lag_frame (ce_x step)) idx *f finv O (cpow (ce_x step) (2 ^ idx) -f f1))).
  2:{ intros idx Hin. apply in_seq in Hin.
      rewrite (lag_ith_numerator_spec _ idx Hfl) by lia.
      rewrite (get_inverse_divisor_eval_spec v idx step) by (try lia; apply pow_div; lia). reflexivity. }
  rewrite lag_boundary_numerator_spec by (unfold lag_frame; discriminate).
  rewrite nth_error_map, (nth_error_nth' (seq 0 ce_size) 0) by (now rewrite seq_length).
  rewrite seq_nth by exact Hs. cbn [option_map Nat.add]. f_equal. unfold lag_def, lag_def_on. ring.
Qed.

(* the whole Lagrange column of evaluate_constraints *)
Theorem lagrange_evaluate_spec :
  lagrange_evaluate O n ceb ldeb offset rou v lde_lag t rr lb = Some (map (fun i => lag_def (ce_x i)) (seq 0 ce_size)).
Proof.
  unfold lagrange_evaluate. rewrite coef_len, divisor_evals_inv_spec, boundary_divisors_inv_spec.
  apply mapM_some. intros i Hi. apply in_seq in Hi. apply lagrange_row_spec. lia.
Qed.

End LagrangeProofs.
