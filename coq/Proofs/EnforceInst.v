(* C16: a concrete field with FLaws and an element of exact order 16 — the hypotheses of the field-level
   theorems are satisfiable (non-vacuity), and the models can be run inside Coq on it.
   The field is Z/97 on canonical residues, packaged as a subset type so that equality is Leibniz. *)
From Coq Require Import ZArith List Bool Lia Eqdep_dec.
From VBase Require Import MachInt FieldOps ZpOps.
From VModel Require Import Enforce.
From VProofs Require Import EnforceSteps EnforceField EnforceDivisor EnforceValue.
Import ListNotations.
Open Scope Z_scope.

Definition p97 : Z := 97.
Definition canon (x : Z) : bool := (0 <=? x) && (x <? p97).
Definition F97 : Type := { x : Z | canon x = true }.
Definition val (a : F97) : Z := proj1_sig a.

Lemma canon_mod x : canon (x mod p97) = true.
Proof.
  unfold canon. pose proof (Z.mod_pos_bound x p97 eq_refl).
  apply andb_true_iff. split; [apply Z.leb_le|apply Z.ltb_lt]; lia.
Qed.
Definition mk (x : Z) : F97 := exist _ (x mod p97) (canon_mod x).

Lemma F97_eq (a b : F97) : val a = val b -> a = b.
Proof.
  destruct a as [x Hx], b as [y Hy]. cbn. intros ->. f_equal. apply UIP_dec. apply bool_dec.
Qed.

Lemma val_range (a : F97) : 0 <= val a < p97.
Proof.
  destruct a as [x Hx]. cbn. unfold canon in Hx. apply andb_true_iff in Hx. destruct Hx as [H1 H2].
  apply Z.leb_le in H1. apply Z.ltb_lt in H2. lia.
Qed.

Lemma val_mk x : val (mk x) = x mod p97. Proof. reflexivity. Qed.

Definition f97_ops : FOps F97 := {|
  fzero := mk 0; fone := mk 1;
  fadd := fun a b => mk (val a + val b);
  fsub := fun a b => mk (val a - val b);
  fmul := fun a b => mk (val a * val b);
  fneg := fun a => mk (- val a);
  fdouble := fun a => mk (val a + val a);
  fsquare := fun a => mk (val a * val a);
  finv := fun a => mk (zp_inv p97 (val a));
  fdiv := fun a b => mk (val a * zp_inv p97 (val b));
  feqb := fun a b => val a =? val b;
  fofz := mk
|}.

Lemma inv_table : forallb (fun a => (zp_inv p97 a mod p97 * a) mod p97 =? 1) (zrange 1 p97) = true.
Proof. vm_compute. reflexivity. Qed.

Lemma f97_laws : FLaws f97_ops.
Proof.
  constructor; cbn [f97_ops fadd fsub fmul fneg fdouble fsquare finv fdiv feqb fofz fzero fone]; intros.
  - apply F97_eq. rewrite !val_mk. f_equal; lia.
  - apply F97_eq. rewrite !val_mk. rewrite Zplus_mod_idemp_r, Zplus_mod_idemp_l. f_equal; lia.
  - apply F97_eq. rewrite !val_mk. rewrite Zplus_mod_idemp_l. cbn [Z.add]. apply Z.mod_small, val_range.
  - apply F97_eq. rewrite !val_mk. f_equal; lia.
  - apply F97_eq. rewrite !val_mk. rewrite Zmult_mod_idemp_r, Zmult_mod_idemp_l. f_equal; lia.
  - apply F97_eq. rewrite !val_mk. rewrite Zmult_mod_idemp_l, Z.mul_1_l. apply Z.mod_small, val_range.
  - apply F97_eq. rewrite !val_mk. rewrite Zmult_mod_idemp_l, <- Zplus_mod. f_equal; lia.
  - apply F97_eq. rewrite !val_mk. rewrite Zplus_mod_idemp_r. f_equal; lia.
  - apply F97_eq. rewrite !val_mk. rewrite Zplus_mod_idemp_r. rewrite Z.add_opp_diag_r. reflexivity.
  - reflexivity.
  - reflexivity.
  - intros H. apply (f_equal val) in H. vm_compute in H. discriminate.
  - apply F97_eq. rewrite !val_mk.
    assert (Hv : In (val a) (zrange 1 p97)).
    { apply In_zrange. pose proof (val_range a). assert (val a <> 0); [|lia].
      intros E. apply H. apply F97_eq. rewrite E. reflexivity. }
    pose proof (proj1 (forallb_forall _ _) inv_table _ Hv) as T. cbn beta in T. apply Z.eqb_eq in T.
    rewrite T. reflexivity.
  - apply F97_eq. reflexivity.
  - apply F97_eq. rewrite !val_mk. rewrite Zmult_mod_idemp_r. reflexivity.
  - split; [intros H; apply F97_eq, Z.eqb_eq, H|intros ->; apply Z.eqb_refl].
Qed.

(* 8 has exact order 16 modulo 97 *)
Definition g16 : F97 := mk 8.

Lemma g16_pow_16 : fpow f97_ops g16 16 = fone f97_ops.
Proof. apply F97_eq. vm_compute. reflexivity. Qed.

Lemma g16_order : forall i, 0 < i < 16 -> fpow f97_ops g16 i <> fone f97_ops.
Proof.
  intros i Hi E. apply (f_equal val) in E.
  assert (T : forallb (fun i => negb (val (fpow f97_ops g16 i) =? val (fone f97_ops))) (zrange 1 16) = true)
    by (vm_compute; reflexivity).
  pose proof (proj1 (forallb_forall _ _) T i ltac:(apply In_zrange; lia)) as Ti. cbn beta in Ti.
  rewrite E, Z.eqb_refl in Ti. discriminate.
Qed.

Lemma sixteen_pow2 : exists k, 0 <= k /\ 16 = 2 ^ k.
Proof. exists 4. split; [lia|reflexivity]. Qed.

(* fofz is the canonical image of the naturals *)
Lemma f97_fofz : forall k : nat, fofz f97_ops (Z.of_nat k) = fnat f97_ops k.
Proof.
  induction k.
  - apply F97_eq. reflexivity.
  - cbn [fnat]. rewrite <- IHk. apply F97_eq.
    cbn [f97_ops fofz fadd fone]. rewrite !val_mk. rewrite Nat2Z.inj_succ.
    rewrite <- Zplus_mod. f_equal; lia.
Qed.

Lemma g16_inv : fmul f97_ops g16 (finv f97_ops g16) = fone f97_ops.
Proof. apply F97_eq. vm_compute. reflexivity. Qed.

(* run the models inside Coq: zero pattern of a divisor over the trace domain *)
Definition zero_pattern (d : Divisor (F:=F97)) : list bool :=
  map (fun i => val (evaluate_at f97_ops d (fpow f97_ops g16 i)) =? 0) (zrange 0 16).
Definition exemption_pattern (d : Divisor (F:=F97)) : list bool :=
  map (fun i => val (eval_exemptions f97_ops d (fpow f97_ops g16 i)) =? 0) (zrange 0 16).
