(* f64: the trait-default `exp_vartime` loop (math/src/field/traits.rs), generated with fuel as
   f64_exp_vartime in Gen/F64.v: soundness by a while_loop invariant, termination by halving. *)
From Coq Require Import Zpow_facts.
From VBase Require Import MachInt.
From VGen Require Import F64.
From VProofs Require F128Ops.
From VProofs Require Import F64Red F64Ops F64Exp.
Open Scope Z_scope.

Definition expv_cond : Z * Z * Z -> bool := fun '(r, p, b) => (p >? 0).
Definition expv_body : Z * Z * Z -> Z * Z * Z := fun '(r, p, b) =>
  let r := if Z.land p 1 =? 1 then (let r := f64_mul r b in r) else r in
  let p := shr p 1 in
  let b := f64_mul b b in
  (r, p, b).

Lemma f64_exp_vartime_unfold fuel a p :
  f64_exp_vartime fuel a p =
  if p =? 0 then Some f64_ONE else if f64_eq a f64_ZERO then Some f64_ZERO else
  match while_loop fuel expv_cond expv_body (f64_ONE, p, a) with
  | None => None
  | Some (r, _, _) => Some r
  end.
Proof. reflexivity. Qed.

Lemma Some_inj {A : Type} (x y : A) : Some x = Some y -> x = y.
Proof. intros H. injection H. auto. Qed.

Lemma pow_mod_l64 x e : (x mod M) ^ e mod M = x ^ e mod M.
Proof. symmetry. apply Zpower_mod. reflexivity. Qed.

(* r * b^q represents a^p *)
Definition expv_inv (a p : Z) (s : Z * Z * Z) : Prop :=
  let '(r, q, b) := s in
  repr r /\ repr b /\ 0 <= q /\ (val r * val b ^ q) mod M = val a ^ p mod M.

Lemma expv_inv_step a p s : expv_inv a p s -> expv_cond s = true -> expv_inv a p (expv_body s).
Proof.
  destruct s as [[r q] b]. unfold expv_inv, expv_cond, expv_body. cbv zeta.
  intros (Hr & Hb & Hq & E) Hc.
  assert (Hq0 : 0 < q) by lia.
  assert (Hq2 : 0 <= q / 2) by (apply Z.div_pos; lia).
  pose proof (Z.div_mod q 2 ltac:(lia)) as Hdm. pose proof (Z.mod_pos_bound q 2 ltac:(lia)) as Hm.
  unfold shr. rewrite Z.pow_1_r, F128Ops.land1.
  destruct (f64_mul_spec b b Hb Hb) as [Rbb Vbb].
  split; [|split; [exact Rbb|split; [exact Hq2|]]].
  - destruct (q mod 2 =? 1); [exact (proj1 (f64_mul_spec r b Hr Hb))|exact Hr].
  - rewrite <- E, Vbb.
    destruct (Z.eqb_spec (q mod 2) 1) as [E1|E1].
    + rewrite (proj2 (f64_mul_spec r b Hr Hb)).
      rewrite Z.mul_mod_idemp_l by (unfold M; lia).
      rewrite <- Z.mul_mod_idemp_r, pow_mod_l64, Z.mul_mod_idemp_r by (unfold M; lia).
      rewrite F128Ops.pow_step_odd by exact Hq2. do 2 f_equal. f_equal. clear - Hdm Hm E1. lia.
    + rewrite <- Z.mul_mod_idemp_r, pow_mod_l64, Z.mul_mod_idemp_r by (unfold M; lia).
      rewrite F128Ops.pow_step_even by exact Hq2. do 2 f_equal. f_equal. clear - Hdm Hm E1. lia.
Qed.

Theorem f64_exp_vartime_sound fuel a p r : repr a -> 0 <= p < 2^64 ->
  f64_exp_vartime fuel a p = Some r -> repr r /\ val r = (val a ^ p) mod M.
Proof.
  intros Ha Hp. rewrite f64_exp_vartime_unfold.
  destruct (Z.eqb_spec p 0) as [->|Hp0].
  { intros H%Some_inj. subst r. exact (is_pow_one a). }
  rewrite f64_ZERO_eq, f64_eq_spec by (unfold repr, M in *; lia).
  destruct (Z.eqb_spec a 0) as [->|Ha0].
  { intros H%Some_inj. subst r. split; [unfold repr, M; lia|].
    change (val 0) with 0. rewrite Z.pow_0_l by lia. reflexivity. }
  destruct (while_loop fuel expv_cond expv_body (f64_ONE, p, a)) as [[[r' q'] b']|] eqn:W; [|discriminate].
  intros [= <-].
  assert (I0 : expv_inv a p (f64_ONE, p, a)).
  { unfold expv_inv. split; [exact (proj1 (is_pow_one a))|split; [exact Ha|split; [lia|]]].
    rewrite val_ONE, Z.mul_1_l. reflexivity. }
  destruct (F128Ops.while_loop_inv (expv_inv a p) expv_cond expv_body (expv_inv_step a p) fuel _ _ I0 W)
    as ((Hr & Hb & Hq & E) & Hc).
  unfold expv_cond in Hc. assert (q' = 0) by lia. subst q'.
  split; [exact Hr|].
  rewrite Z.pow_0_r, Z.mul_1_r, Z.mod_small in E by apply val_range. exact E.
Qed.

Corollary f64_exp_vartime_is_pow fuel a p r : repr a -> 0 <= p < 2^64 ->
  f64_exp_vartime fuel a p = Some r -> is_pow a r p.
Proof. exact (f64_exp_vartime_sound fuel a p r). Qed.

Theorem f64_exp_vartime_terminates a p : 0 <= p < 2^64 -> exists r, f64_exp_vartime 66 a p = Some r.
Proof.
  intros Hp. rewrite f64_exp_vartime_unfold.
  destruct (p =? 0); [eauto|]. destruct (f64_eq a f64_ZERO); [eauto|].
  destruct (F128Ops.while_loop_term (fun n '(r, q, b) => 0 <= q < 2 ^ Z.of_nat n) expv_cond expv_body) with
    (n := 66%nat) (s := (f64_ONE, p, a)) as [[[r q] b] ->].
  - intros [[r q] b] H. unfold expv_cond. change (2 ^ Z.of_nat 0) with 1 in H. lia.
  - intros n [[r q] b] H _. unfold expv_body. cbv zeta. unfold shr. rewrite Z.pow_1_r.
    rewrite Nat2Z.inj_succ, Z.pow_succ_r in H by lia.
    split; [apply Z.div_pos; lia|apply Z.div_lt_upper_bound; lia].
  - change (2 ^ Z.of_nat 66) with (2^66). lia.
  - eauto.
Qed.

(* the variable-time loop and the constant-time override `exp` agree as field values *)
Corollary f64_exp_vartime_agrees fuel a p r : repr a -> 0 <= p < 2^64 ->
  f64_exp_vartime fuel a p = Some r -> r = f64_exp a p.
Proof.
  intros Ha Hp H. destruct (f64_exp_vartime_sound fuel a p r Ha Hp H) as [Rr Vr].
  destruct (f64_exp_spec a p Ha Hp) as [Re Ve].
  apply val_inj; [exact Rr|exact Re|]. rewrite Vr, Ve. reflexivity.
Qed.
