(* C17 — the evaluation table with the Lagrange-kernel terms: DefaultConstraintEvaluator::evaluate calls
   evaluate_lagrange_kernel_constraints on the combined column, which adds the Lagrange part row by row
   (`combined_evaluations_acc[step] += ..`).  Compositional statement: from the table theorem (C17_table_row_spec / _single_segment,
   hook = identity) and the Lagrange theorem (lagrange_evaluate_spec) to the table with the hook `lagrange_acc_of`.  stdlib style. *)
From Coq Require Import List Arith Bool Lia ZArith.
From VBase Require Import FieldOps.
From VModel Require Import Composition CompositionLagrange.
From VProofs Require Import CompositionBase.
Import ListNotations.
Local Open Scope nat_scope.

Lemma mapM_some_inv {A B} (f : A -> option B) (g : A -> B) : forall l,
  mapM f l = Some (map g l) -> forall x, In x l -> f x = Some (g x).
Proof.
  induction l as [|a l IH]; intros H x Hx; [destruct Hx|].
  cbn [mapM map] in H. destruct (f a) eqn:Ea; [|discriminate]. destruct (mapM f l) eqn:El; [|discriminate].
  inversion H; subst. destruct Hx as [<-|Hx]; [exact Ea|]. apply IH; [now f_equal | exact Hx].
Qed.

Section WithLagrange.
Context {F : Type} (O : FOps F).
Variable n ceb ldeb : nat.
Variable offset : F.
Variable rou : nat -> F.
Variable num_main : nat.
Variable tmain : list F -> list F -> list F -> list F.
Variable taux : list F -> list F -> list F -> list F -> list F -> list F -> list F.
Variable ppolys : list (list F).
Variable exemptions : nat.
Variable tcoef : list F.
Variable main_groups aux_groups : list (@BGroup F).
Variable rands : list F.
Variable has_aux : bool.
Variable lde_main lde_aux : list (list F).
Local Notation evaluate acc :=
  (evaluate O n ceb ldeb offset rou num_main tmain taux ppolys exemptions tcoef main_groups aux_groups rands has_aux
            lde_main lde_aux acc).

(* changing the hook changes every row by the hook *)
Lemma evaluate_hook (acc : nat -> F -> F) (gf : nat -> F) :
  evaluate (fun _ v => v) = Some (map gf (seq 0 (ce_size n ceb))) ->
  evaluate acc = Some (map (fun i => acc i (gf i)) (seq 0 (ce_size n ceb))).
Proof.
  unfold Composition.evaluate. destruct (ptable_new O n ceb offset rou ppolys); [|discriminate].
  destruct (mapM _ (tdiv O n rou exemptions :: _)); [|discriminate].
  intros H. apply mapM_some. intros i Hi.
  pose proof (mapM_some_inv _ gf _ H i Hi) as Hrow. cbv beta in Hrow.
  repeat match type of Hrow with
         | context [match ?e with Some _ => _ | None => _ end] => destruct e; [|discriminate Hrow]
         end.
  inversion Hrow. reflexivity.
Qed.

(* the table with the Lagrange kernel terms *)
Theorem evaluate_with_lagrange (gf hf : nat -> F) :
  evaluate (fun _ v => v) = Some (map gf (seq 0 (ce_size n ceb))) ->
  evaluate (lagrange_acc_of O (map hf (seq 0 (ce_size n ceb))))
  = Some (map (fun i => fadd O (gf i) (hf i)) (seq 0 (ce_size n ceb))).
Proof.
  intros H. rewrite (evaluate_hook _ gf H). f_equal. apply map_ext_in. intros i Hi. apply in_seq in Hi.
  unfold lagrange_acc_of. f_equal.
  rewrite (nth_indep _ (fzero O) (hf 0)) by (rewrite map_length, seq_length; lia).
  rewrite (map_nth hf (seq 0 (ce_size n ceb)) 0 i), seq_nth by lia. reflexivity.
Qed.
End WithLagrange.
