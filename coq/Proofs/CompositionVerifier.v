(* C17 — the verifier's `evaluate_constraints` (code structure: merged linear combinations, one division per
   divisor, accumulation loops) equals the mathematical definition `comp_def` (one quotient per constraint) when it
   is given the frame of the trace polynomials.  stdlib style; arbitrary field with FLaws. *)
From Coq Require Import List Arith Bool Lia Ring Field ZArith.
From VBase Require Import FieldOps.
From VModel Require Import Composition.
From VProofs Require Import CompositionBase.
Import ListNotations.

Lemma combine_app_l {A B} : forall (a b : list A) (l : list B),
  combine (a ++ b) l = combine a (firstn (length a) l) ++ combine b (skipn (length a) l).
Proof.
  induction a as [|x a IH]; intros b l; simpl; [reflexivity|].
  destruct l as [|y l]; simpl; [now rewrite combine_nil | now rewrite IH].
Qed.

Section Verifier.
Context {F : Type} (O : FOps F) (L : FLaws O).
Add Ring Fr : (FLaws_ring_theory O L).
Add Field Ff : (FLaws_field_theory O L).

Local Notation fz := (fzero O).
Local Notation f1 := (fone O).
Local Infix "+f" := (fadd O) (at level 50, left associativity).
Local Infix "-f" := (fsub O) (at level 50, left associativity).
Local Infix "*f" := (fmul O) (at level 40, left associativity).
Local Infix "/f" := (fdiv O) (at level 40, left associativity).
Local Notation cpow := (cpow O).
Local Notation peval := (peval O).
Local Notation horner := (horner O).
Local Notation rsum := (rsum O).
Local Notation rprod := (rprod O).
Local Notation lincomb := (lincomb O).

Lemma rsum_div {A} (g : A -> F) k l : rsum (map (fun v => g v /f k) l) = rsum (map g l) /f k.
Proof.
  rewrite (fl_div_def O L). rewrite <- (rsum_scale O L).
  apply (rsum_map_ext O). intros; apply (fl_div_def O L).
Qed.

Lemma lincomb_nil_r e : lincomb e [] = fz.
Proof. unfold Composition.lincomb. now rewrite combine_nil. Qed.

Lemma lincomb_zeros k coefs : lincomb (repeat fz k) coefs = fz.
Proof.
  rewrite (lincomb_rsum O L). revert coefs. induction k; intros coefs; simpl; [reflexivity|].
  destruct coefs; simpl; [reflexivity|]. rewrite IHk. ring.
Qed.

Lemma fdiv_1 a : a /f f1 = a.
Proof. field; apply (fl_one_neq_zero O L). Qed.

Variable n : nat.
Variable rou : nat -> F.
Variable num_main num_aux : nat.
Variable tmain : list F -> list F -> list F -> list F.
Variable taux : list F -> list F -> list F -> list F -> list F -> list F -> list F.
Variable ppolys : list (list F).
Variable exemptions : nat.
Variable tcoef : list F.
Variable main_groups aux_groups : list (@BGroup F).
Variable rands : list F.
Variable tpolys apolys : list (list F).

Local Notation gtrace := (gtrace n rou).

(* ---------------------------------------------------------------- pieces *)
Lemma periodic_at_def x : periodic_at O n ppolys x = def_periodic O n ppolys x.
Proof. unfold periodic_at, def_periodic. apply map_ext. intros; apply (horner_peval O L). Qed.

Lemma bc_value_def c x : bc_value_at O c x = def_bc_value O c x.
Proof.
  unfold bc_value_at, def_bc_value. destruct (bc_poly c) as [|v [|w t]]; cbn [length Nat.eqb nth].
  - apply (horner_peval O L).
  - reflexivity.
  - apply (horner_peval O L).
Qed.

Lemma tdiv_def x : div_evaluate_at O (tdiv O n rou exemptions) x = def_tdiv O n rou exemptions x.
Proof.
  unfold div_evaluate_at, tdiv, div_from_transition, div_exemptions_at, def_tdiv. cbn [dv_a dv_b dv_ex].
  rewrite (fold_mul_rprod O L (fun e => x -f e)), map_map.
  f_equal; ring.
Qed.

(* BoundaryConstraintGroup::evaluate_at on the values of the column polynomials *)
Lemma bg_evaluate_at_def polys g x :
  dv_ex (bg_div g) = [] ->
  (forall c, In c (bg_cs g) -> bc_col c < length polys) ->
  bg_evaluate_at O g (map (fun T => peval T x) polys) x = Some (def_group O polys g x).
Proof.
  intros Hex Hcol. unfold bg_evaluate_at.
  rewrite (acc_opt_some O L _ (fun c => bc_evaluate_at O c x (peval (nth (bc_col c) polys []) x) *f bc_cc c)).
  2:{ intros c Hc. rewrite nth_error_map. rewrite (nth_error_nth' polys [] (Hcol c Hc)). reflexivity. }
  f_equal. unfold def_group. rewrite rsum_div.
  unfold div_evaluate_at, div_exemptions_at. rewrite Hex. cbn [fold_left].
  rewrite fdiv_1. f_equal; [|ring].
  transitivity (rsum (map (fun c => bc_evaluate_at O c x (peval (nth (bc_col c) polys []) x) *f bc_cc c) (bg_cs g))); [ring|].
  apply (rsum_map_ext O). intros c _. unfold bc_evaluate_at. rewrite bc_value_def. ring.
Qed.

Lemma groups_acc polys groups x r0 :
  (forall g, In g groups -> dv_ex (bg_div g) = []) ->
  (forall g c, In g groups -> In c (bg_cs g) -> bc_col c < length polys) ->
  acc_opt O (fun g => bg_evaluate_at O g (map (fun T => peval T x) polys) x) groups (Some r0)
  = Some (r0 +f rsum (map (fun g => def_group O polys g x) groups)).
Proof.
  intros Hex Hcol. apply (acc_opt_some O L). intros g Hg.
  apply bg_evaluate_at_def; [now apply Hex | intros c Hc; now apply (Hcol g)].
Qed.

(* TransitionConstraints::combine_evaluations = sum of the individual quotients *)
Lemma combine_evaluations_def t1 t2 x : length t1 = num_main ->
  combine_evaluations O n rou num_main exemptions tcoef t1 t2 x
  = rsum (map (fun ca => snd ca *f fst ca /f def_tdiv O n rou exemptions x) (combine (t1 ++ t2) tcoef)).
Proof.
  intros Hlen. unfold combine_evaluations. rewrite tdiv_def, rsum_div. f_equal.
  rewrite combine_app_l, map_app, (rsum_app O L), Hlen.
  fold (main_coef num_main tcoef). fold (aux_coef num_main tcoef).
  rewrite <- !(lincomb_rsum O L).
  destruct (aux_coef num_main tcoef) eqn:E; [|reflexivity].
  rewrite lincomb_nil_r. ring.
Qed.

(* ---------------------------------------------------------------- verifier_eval_agrees *)
Hypothesis groups_no_exemptions :
  forall g, In g (main_groups ++ aux_groups) -> dv_ex (bg_div g) = [].          (* ConstraintDivisor::from_assertion *)
Hypothesis main_cols : forall g c, In g main_groups -> In c (bg_cs g) -> bc_col c < length tpolys.
Hypothesis aux_cols : forall g c, In g aux_groups -> In c (bg_cs g) -> bc_col c < length apolys.
Hypothesis tmain_len : forall cur nxt pv, length (tmain cur nxt pv) = num_main.     (* the result buffer's length *)

Local Notation evaluate_constraints :=
  (evaluate_constraints O n rou num_main tmain taux num_aux ppolys exemptions tcoef main_groups aux_groups rands
                        (fun _ => None)).
Local Notation comp_def has_aux :=
  (comp_def O n rou tmain taux ppolys exemptions tcoef main_groups aux_groups rands has_aux tpolys apolys).
Local Notation cur := (def_cur O tpolys).
Local Notation nxt := (def_nxt O n rou tpolys).
Local Notation acur := (def_acur O apolys).
Local Notation anxt := (def_anxt O n rou apolys).

(* with an auxiliary segment *)
Theorem verifier_eval_agrees_aux : forall z,
  evaluate_constraints (cur z) (nxt z) (Some (acur z, anxt z)) z = Some (comp_def true z).
Proof.
  intros z. unfold Composition.evaluate_constraints, def_cur, def_acur. cbv zeta.
  rewrite groups_acc.
  2:{ intros g Hg. apply groups_no_exemptions. apply in_or_app; now left. }
  2:{ exact main_cols. }
  rewrite groups_acc.
  2:{ intros g Hg. apply groups_no_exemptions. apply in_or_app; now right. }
  2:{ exact aux_cols. }
  f_equal. unfold Composition.comp_def, def_transition, def_boundary, def_constraints, def_cur, def_acur.
  rewrite combine_evaluations_def by apply tmain_len.
  rewrite periodic_at_def. ring.
Qed.

(* without one (aux frame absent: `t_evaluations2` stays zero) *)
Theorem verifier_eval_agrees_main : forall z,
  evaluate_constraints (cur z) (nxt z) None z = Some (comp_def false z).
Proof.
  intros z. unfold Composition.evaluate_constraints, def_cur. cbv zeta.
  rewrite groups_acc.
  2:{ intros g Hg. apply groups_no_exemptions. apply in_or_app; now left. }
  2:{ exact main_cols. }
  f_equal. unfold Composition.comp_def, def_transition, def_boundary, def_constraints, def_cur.
  rewrite app_nil_r.
  unfold combine_evaluations. rewrite tdiv_def, rsum_div.
  rewrite lincomb_zeros, periodic_at_def.
  set (t1 := tmain _ _ _).
  assert (E : combine t1 tcoef = combine t1 (main_coef num_main tcoef)).
  { unfold main_coef. rewrite <- (tmain_len (cur z) (nxt z) (def_periodic O n ppolys z)). fold (cur z). fold t1.
    rewrite <- (app_nil_r t1) at 1. rewrite combine_app_l. simpl. now rewrite app_nil_r. }
  rewrite E, <- (lincomb_rsum O L).
  destruct (aux_coef num_main tcoef); [ring|].
  replace (lincomb t1 (main_coef num_main tcoef) +f fz) with (lincomb t1 (main_coef num_main tcoef)) by ring.
  ring.
Qed.

End Verifier.
