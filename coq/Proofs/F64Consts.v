(* f64: published constants satisfy their defining equations. *)
From VBase Require Import MachInt ZpOps.
From VGen Require Import F64.
From VProofs Require Import F64Red F64Ops.
Open Scope Z_scope.

Lemma f64_modulus : f64_MODULUS = 2^64 - 2^32 + 1. Proof. reflexivity. Qed.
Lemma f64_R2_def : f64_R2 = 2^128 mod M. Proof. reflexivity. Qed.
Lemma f64_generator_val : val f64_GENERATOR = 7. Proof. reflexivity. Qed.
Lemma f64_generator_repr : repr f64_GENERATOR. Proof. unfold repr, M; vm_compute; split; [discriminate|reflexivity]. Qed.

(* M - 1 = 2^32 * 3 * 5 * 17 * 257 * 65537 *)
Lemma f64_Mm1_factored : M - 1 = 2^32 * 3 * 5 * 17 * 257 * 65537. Proof. reflexivity. Qed.

(* 7 is a primitive root: 7^((M-1)/q) <> 1 for every prime q | M-1, and 7^(M-1) = 1 *)
Lemma f64_generator_order :
  zpow_mod M 7 (M - 1) = 1 /\
  forallb (fun q => negb (zpow_mod M 7 ((M - 1) / q) =? 1)) [2; 3; 5; 17; 257; 65537] = true.
Proof. split; vm_compute; reflexivity. Qed.

Lemma f64_two_adicity : f64_TWO_ADICITY = 32 /\ (M - 1) mod 2^32 = 0 /\ Z.odd ((M - 1) / 2^32) = true.
Proof. repeat split. Qed.

Lemma f64_root_def : val f64_TWO_ADIC_ROOT_OF_UNITY = 7277203076849721926 /\ repr f64_TWO_ADIC_ROOT_OF_UNITY.
Proof. split; [reflexivity|]. unfold repr, M; vm_compute; split; [discriminate|reflexivity]. Qed.

(* the root has order exactly 2^32: w^(2^32) = 1 and w^(2^31) = -1 *)
Lemma f64_root_order :
  zpow_mod M 7277203076849721926 (2^32) = 1 /\ zpow_mod M 7277203076849721926 (2^31) = M - 1.
Proof. split; vm_compute; reflexivity. Qed.

Lemma f64_root_is_2_32th_root_of_unity_in_generated_group :
  zpow_mod M (zpow_mod M 7 ((M - 1) / 2^32)) (2^31) = M - 1.
Proof. vm_compute. reflexivity. Qed.
