(* C01 — round "Lagrange in the model", part 1: the row-to-point translation (C17's remaining gap (i)).
   For the HONEST Lagrange kernel column  c[i] = prod_j (bit_j(i) ? r_j : 1 - r_j)  (C16's lag_kernel_col: bit j of the row
   selects r_j, as harness/src/lagfam.rs and winterfell/src/tests.rs build it) and ANY coefficient list Lp that takes
   the column's values on the trace domain (Lp(g^i) = c[i], i < n = 2^v), the two validity hypotheses of C17's
   Proofs/CompositionLagrangePoly.v hold:
     numer_vanishes : numerator polynomial idx vanishes on the subgroup of size 2^idx,
     first_cell     : Lp(1) = prod_j (1 - r_j).
   From C16: lag_honest_numerator_zero (rows), lag_raw_at_row (which cells a numerator reads), lag_target_in_range (the
   successor row i + 2^(v-k) never wraps around: row 0 is exempt), assertion_value_is_cell0.  stdlib style. *)
From Coq Require Import List Arith Bool Lia Ring ZArith.
From VBase Require Import MachInt FieldOps.
From VModel Require Import Composition.
From VModel Require Stark Enforce EnforceLagrange.
From VProofs Require StarkPoly EnforceSteps EnforceLagrangeProofs.
From VProofs Require Import CompositionBase CompositionLagrangePoly.
Import ListNotations.
Local Open Scope nat_scope.

Section HonestRows.
Context {F : Type} (O : FOps F) (L : FLaws O).
Add Ring Frr : (FLaws_ring_theory O L).
Local Notation fz := (fzero O).
Local Notation f1 := (fone O).
Local Infix "-f" := (fsub O) (at level 50, left associativity).
Local Infix "*f" := (fmul O) (at level 40, left associativity).
Local Notation cpow := (cpow O).
Local Notation peval := (peval O).

Variable n v : nat.
Variable g : F.
Hypothesis n_eq : n = 2 ^ v.
Variable rr : list F.
Hypothesis rr_len : length rr = v.
Variable Lp : list F.

(* the honest kernel column over n = 2^v rows *)
Definition kernel_col : list F := EnforceLagrange.lag_kernel_col O rr (2 ^ Z.of_nat v).
(* Lp interpolates it over the trace domain *)
Hypothesis Lp_interp : forall i, i < n -> peval Lp (cpow g i) = nth i kernel_col fz.

Lemma z_pow2 a : (2 ^ Z.of_nat a)%Z = Z.of_nat (2 ^ a).
Proof. rewrite Nat2Z.inj_pow. reflexivity. Qed.

Theorem honest_numer_vanishes : forall idx j, idx < v -> j < 2 ^ idx ->
  peval (lag_numer_poly O v g Lp rr idx) (cpow (hsub O v g idx) j) = fz.
Proof.
  intros idx j Hi Hj.
  rewrite (lag_numer_poly_eval O L). unfold hsub. rewrite <- (cpow_mul O L), <- (cpow_add O L).
  set (i := 2 ^ (v - idx) * j). set (s := 2 ^ (v - 1 - idx)).
  assert (Hvi : 2 ^ (v - idx) = 2 * s) by (unfold s; replace (v - idx) with (S (v - 1 - idx)) by lia; reflexivity).
  assert (Hn : n = 2 ^ (v - idx) * 2 ^ idx) by (rewrite n_eq, <- Nat.pow_add_r; f_equal; lia).
  assert (Hs : 0 < s) by (unfold s; pose proof (Nat.pow_nonzero 2 (v - 1 - idx)); lia).
  assert (Hi1 : i < n) by (unfold i; nia).
  assert (Hi2 : s + i < n) by (unfold i; nia).
  rewrite (Lp_interp i Hi1), (Lp_interp (s + i) Hi2).
  (* C16 on row i, constraint k = idx + 1 *)
  set (vz := Z.of_nat v). set (k := (Z.of_nat idx + 1)%Z). set (iz := Z.of_nat i).
  assert (Hvz : (0 <= vz)%Z) by (unfold vz; lia).
  assert (Hk : (1 <= k <= vz)%Z) by (unfold k, vz; lia).
  assert (Hrows : In iz (EnforceLagrange.lag_rows (2 ^ vz) k)).
  { apply (EnforceLagrangeProofs.lag_rows_spec vz Hvz k iz Hk). split.
    - unfold vz, iz. rewrite z_pow2, <- n_eq. lia.
    - exists (Z.of_nat j). unfold iz, i, k, vz.
      replace (Z.of_nat v - (Z.of_nat idx + 1) + 1)%Z with (Z.of_nat (v - idx)) by lia.
      rewrite z_pow2. lia. }
  assert (Hrl : Z.of_nat (length rr) = vz) by (unfold vz; now rewrite rr_len).
  destruct (EnforceLagrangeProofs.zidx_some rr (vz - k) ltac:(lia)) as (rk & Hrk & _).
  pose proof (EnforceLagrangeProofs.lag_honest_numerator_zero O L vz Hvz rr k iz Hrl Hk Hrows) as Hz.
  rewrite (EnforceLagrangeProofs.lag_raw_at_row O vz Hvz _ rr k iz rk Hk Hrk) in Hz.
  injection Hz as Hz.
  destruct (EnforceLagrangeProofs.lag_target_in_range vz Hvz k iz Hk Hrows) as [_ Em].
  rewrite (EnforceLagrangeProofs.shift_is vz k Hk) in Em. rewrite Em in Hz.
  assert (E1 : Z.to_nat iz = i) by (unfold iz; apply Nat2Z.id).
  assert (E2 : Z.to_nat (iz + 2 ^ (vz - k)) = s + i).
  { unfold iz, vz, k, s. replace (Z.of_nat v - (Z.of_nat idx + 1))%Z with (Z.of_nat (v - 1 - idx)) by lia.
    rewrite z_pow2, <- Nat2Z.inj_add, Nat2Z.id. lia. }
  rewrite E1, E2 in Hz. fold kernel_col in Hz.
  assert (Erk : nth (v - 1 - idx) rr fz = rk).
  { replace (v - 1 - idx) with (Z.to_nat (vz - k)) by (unfold vz, k; lia).
    now apply (EnforceLagrangeProofs.zidx_nth rr (vz - k) rk fz). }
  rewrite Erk. exact Hz.
Qed.

Theorem honest_first_cell : 0 < n -> peval Lp f1 = EnforceLagrange.lag_assertion_value O rr.
Proof.
  intros Hn. change f1 with (cpow g 0). rewrite (Lp_interp 0 Hn).
  rewrite (EnforceLagrangeProofs.assertion_value_is_cell0 O L). unfold kernel_col, EnforceLagrange.lag_kernel_col.
  assert (Hp : (0 < 2 ^ Z.of_nat v)%Z) by (apply Z.pow_pos_nonneg; lia).
  pose proof (EnforceLagrangeProofs.nth_map_zrange (EnforceLagrange.lag_kernel_cell O rr) (2 ^ Z.of_nat v)%Z 0%Z fz ltac:(lia)) as E.
  cbn [Z.to_nat] in E. rewrite E. reflexivity. Unshelve. exact 0%Z.
Qed.

(* hence (C17's lagrange_term_is_poly / lag_def_is_poly need nothing else): every Lagrange quotient of the honest column is a
   polynomial *)
Theorem honest_lagrange_term_is_poly : StarkPoly.primitive_root O g n -> forall idx, idx < v ->
  exists q, length q = length Lp - 2 ^ idx /\
            forall x, peval (lag_numer_poly O v g Lp rr idx) x = (cpow x (2 ^ idx) -f f1) *f peval q x.
Proof.
  intros Hg idx Hi. exact (lagrange_term_is_poly O L n v g n_eq Hg Lp rr rr_len honest_numer_vanishes idx Hi).
Qed.

End HonestRows.
