(* C20 — uniqueness of interpolation (interpolate o eval_many = id, via the root bound of C02:
   SoundnessPoly.agree_bound) and exact-division corollaries for the synthetic divisions.  stdlib style. *)
From Coq Require Import List Arith Bool Lia Ring Field.
From VBase Require Import FieldOps.
From VModel Require Import Polynom Soundness.
From VProofs Require Import PolyBase PolyArith PolyUtils PolyDiv PolyRoots PolyInterp SoundnessPoly.
Import ListNotations.

Section Unique.
Context {F : Type} (O : FOps F) (L : FLaws O).
Local Notation zero := (fzero O).
Local Notation one := (fone O).
Local Notation "a +f b" := (fadd O a b) (at level 50, left associativity).
Local Notation "a -f b" := (fsub O a b) (at level 50, left associativity).
Local Notation "a *f b" := (fmul O a b) (at level 40, left associativity).
Local Notation peval := (PolyBase.peval O).

Add Ring Fring : (FLaws_ring_theory O L).
Add Field Ffield : (FLaws_field_theory O L).

Lemma nth_repeat_zero k i : nth i (repeat zero k) zero = zero.
Proof. revert i; induction k; destruct i; simpl; auto. Qed.

(* the two developments define the same evaluation function *)
Lemma peval_bridge p x : Soundness.peval O p x = peval p x.
Proof. induction p as [|c p IH]; simpl. reflexivity. now rewrite IH. Qed.

(* two coefficient lists of length <= n that agree on n distinct points are equal coefficient by coefficient *)
Lemma agree_coeffs (xs a b : list F) : NoDup xs -> length a <= length xs -> length b <= length xs ->
  (forall x, In x xs -> peval a x = peval b x) -> forall i, nth i a zero = nth i b zero.
Proof.
  intros Hnd Ha Hb Hag i.
  destruct (SoundnessPoly.feq_dec O L (nth i a zero) (nth i b zero)) as [E|E]; [exact E|exfalso].
  destruct xs as [|x0 xs'].
  - simpl in *. destruct a, b; simpl in *; try lia. destruct i; apply E; reflexivity.
  - assert (Hne : ~ SoundnessPoly.peqv O a b) by (intros Hp; apply E; apply (Hp i)).
    assert (Hag' : forall r, In r (x0 :: xs') -> Soundness.peval O a r = Soundness.peval O b r)
      by (intros r Hr; rewrite !peval_bridge; now apply Hag).
    pose proof (SoundnessPoly.agree_bound O L a b (length xs') (x0 :: xs') Ha Hb Hne Hnd Hag') as Hbound.
    simpl in Hbound. lia.
Qed.

(* interpolate o eval_many = id on coefficient lists of length <= n (padded with zeros to length n) *)
Theorem interpolate_eval_many dbg xs p : NoDup xs -> length p <= length xs ->
  interpolate O dbg xs (eval_many O p xs) false = Ok (p ++ repeat zero (length xs - length p)).
Proof.
  intros Hnd Hp.
  assert (Hl : length (eval_many O p xs) = length xs) by (unfold eval_many; apply map_length).
  destruct (interpolate_spec O L dbg xs (eval_many O p xs) Hnd Hl) as (r & Hr & Hlr & _ & Hev).
  rewrite Hr. f_equal. apply (list_ext _ _ zero).
  - rewrite app_length, repeat_length. lia.
  - intros i _. apply (agree_coeffs xs); auto; try lia.
    + rewrite app_length, repeat_length. lia.
    + intros x Hx. destruct (In_nth xs x zero Hx) as (m & Hm & <-).
      rewrite (Hev m Hm). rewrite (eval_many_spec O L).
      rewrite (nth_indep _ zero (peval p zero)) by (rewrite map_length; exact Hm). rewrite map_nth.
      rewrite (peval_app O L), (peval_repeat_zero O L). ring.
Qed.

(* hence the interpolant is unique: any coefficient list of length n through the points IS the result *)
Theorem interpolate_unique dbg xs ys q : NoDup xs -> length ys = length xs -> length q = length xs ->
  (forall m, m < length xs -> peval q (nth m xs zero) = nth m ys zero) ->
  interpolate O dbg xs ys false = Ok q.
Proof.
  intros Hnd Hl Hq Hev.
  destruct (interpolate_spec O L dbg xs ys Hnd Hl) as (r & Hr & Hlr & _ & Hrv).
  rewrite Hr. f_equal. apply (list_ext _ _ zero). lia.
  intros i _. apply (agree_coeffs xs); auto; try lia.
  intros x Hx. destruct (In_nth xs x zero Hx) as (m & Hm & <-). now rewrite Hrv, Hev.
Qed.

(* with remove_leading_zeros = true the padding disappears: the result is p without its leading zeros *)
Lemma last_nz_ext (a b : list F) : forall n, (forall i, i < n -> nth i a zero = nth i b zero) ->
  last_nz O a n = last_nz O b n.
Proof.
  induction n as [|n IH]; intros H. reflexivity.
  cbn [last_nz]. rewrite (H n) by lia. rewrite IH by (intros; apply H; lia). reflexivity.
Qed.

Lemma last_nz_zeros_above (a : list F) m : forall k, (forall i, m <= i -> nth i a zero = zero) ->
  last_nz O a (m + k) = last_nz O a m.
Proof.
  induction k as [|k IH]; intros H. now rewrite Nat.add_0_r.
  rewrite Nat.add_succ_r. cbn [last_nz]. rewrite (H (m + k)) by lia. rewrite (feqb_refl O L). now apply IH.
Qed.

Lemma remove_leading_zeros_app_zeros p k :
  remove_leading_zeros O (p ++ repeat zero k) = remove_leading_zeros O p.
Proof.
  unfold remove_leading_zeros. rewrite app_length, repeat_length.
  rewrite last_nz_zeros_above.
  2: { intros i Hi. rewrite app_nth2 by lia. apply nth_repeat_zero. }
  rewrite (last_nz_ext (p ++ repeat zero k) p) by (intros; now rewrite app_nth1).
  pose proof (last_nz_spec O L p (length p)) as H.
  destruct (last_nz O p (length p)) as [i|]; [|reflexivity].
  destruct H as (Hi & _). rewrite firstn_app. replace (i + 1 - length p) with 0 by lia. simpl. now rewrite app_nil_r.
Qed.

Theorem interpolate_eval_many_rlz dbg xs p : NoDup xs -> length p <= length xs ->
  interpolate O dbg xs (eval_many O p xs) true = Ok (remove_leading_zeros O p).
Proof.
  intros Hnd Hp.
  assert (Hl : length (eval_many O p xs) = length xs) by (unfold eval_many; apply map_length).
  destruct (interpolate_spec O L dbg xs (eval_many O p xs) Hnd Hl) as (r & Hr & _ & Hrl & _).
  rewrite (interpolate_eval_many dbg xs p Hnd Hp) in Hr. inversion Hr; subst r.
  rewrite Hrl. now rewrite remove_leading_zeros_app_zeros.
Qed.

(* ------------------------------------------------------------------ exact synthetic division *)
(* a zero top coefficient passes through one division step *)
Lemma syn_lin_app_zero r : forall p, syn_lin O (p ++ [zero]) r = (fst (syn_lin O p r) ++ [zero], snd (syn_lin O p r)).
Proof.
  induction p as [|h t IH]; simpl.
  - f_equal. ring.
  - rewrite IH. destruct (syn_lin O t r) as [t' c]. reflexivity.
Qed.

Lemma syn_lin_app_zeros r k : forall p,
  syn_lin O (p ++ repeat zero k) r = (fst (syn_lin O p r) ++ repeat zero k, snd (syn_lin O p r)).
Proof.
  induction k as [|k IH]; intros p.
  - simpl. rewrite !app_nil_r. now destruct (syn_lin O p r).
  - rewrite repeat_snoc, app_assoc, syn_lin_app_zero, IH. simpl. now rewrite <- app_assoc.
Qed.

(* (x - b) * q divided by (x - b): the quotient is q (padded to the slice length), the remainder 0 *)
Theorem syn_div_exact_linear q b : q <> [] -> b <> zero ->
  syn_div_in_place_full O (linmul O q b) 1 b = Ok (q ++ [zero], [zero]).
Proof.
  intros Hq Hb. unfold syn_div_in_place_full. cbn [Nat.eqb].
  rewrite (feqb_neq O L) by assumption. rewrite linmul_length.
  destruct q as [|q0 q']; [congruence|]. simpl length. cbn [Nat.ltb Nat.leb negb].
  rewrite (syn_lin_linmul O L). reflexivity.
Qed.

(* prod (x - r_i) * q divided by the list of roots: quotient q padded with m zeros, all m remainders 0 *)
Lemma syn_roots_loop_exact : forall roots q k,
  syn_roots_loop O (fold_left (linmul O) roots q ++ repeat zero k) roots
  = (q ++ repeat zero (length roots + k), repeat zero (length roots)).
Proof.
  induction roots as [|r rs IH]; intros q k. reflexivity.
  cbn [syn_roots_loop fold_left length]. rewrite (fold_linmul_comm O L).
  rewrite syn_lin_app_zeros, (syn_lin_linmul O L). cbn [fst snd].
  rewrite <- app_assoc. change ([zero] ++ repeat zero k) with (repeat zero (S k)).
  rewrite IH. cbn [repeat]. do 2 f_equal. f_equal. lia.
Qed.

Theorem syn_div_roots_exact roots q : roots <> [] -> q <> [] ->
  syn_div_roots_in_place O (fold_left (linmul O) roots q) roots = Ok (q ++ repeat zero (length roots)).
Proof.
  intros Hr Hq. unfold syn_div_roots_in_place, syn_div_roots_in_place_full.
  destruct roots as [|r0 rs]; [congruence|].
  rewrite (fold_linmul_length O). destruct (Nat.ltb_spec (length (r0 :: rs)) (length q + length (r0 :: rs))) as [H|H].
  - cbn [negb bind]. pose proof (syn_roots_loop_exact (r0 :: rs) q 0) as E.
    simpl (repeat zero 0) in E. rewrite app_nil_r, Nat.add_0_r in E. rewrite E. reflexivity.
  - destruct q; [congruence|]. simpl in H. lia.
Qed.

End Unique.
