(* C01 — non-vacuity: a concrete instance (the field Z/17, trace length 8, generator 2) satisfying every hypothesis of
   the stage theorems and of the capstone, and the concrete witness of the refuted degree equality. *)
From Coq Require Import List Arith Bool ZArith Lia Ring Field.
From VBase Require Import FieldOps ZpOps.
From VModel Require Import Stark.
From VProofs Require Import NumTheoryFermat NumTheoryPrime ZpLaws StarkPoly StarkDeep StarkComplete.
Import ListNotations.
Open Scope nat_scope.

Definition O17 : FOps (Zp 17%Z) := zpT_ops 17%Z (prime_gt1 17%Z prime_17).
Definition L17 : FLaws O17 := zpT_laws 17%Z prime_17 eq_refl.
Definition e17 (v : Z) : Zp 17%Z := fofz O17 v.
Definition g17 : Zp 17 := e17 2%Z.

Add Ring R17 : (FLaws_ring_theory O17 L17).

Ltac zp_eq := apply zp_val_inj; vm_compute; reflexivity.
Ltac zp_neq H := apply (f_equal (@zp_val 17%Z)) in H; vm_compute in H; discriminate.

Lemma g17_primitive : primitive_root O17 g17 8.
Proof.
  split; [zp_eq|]. intros i j Hi Hj E.
  do 8 (destruct i as [|i]; [do 8 (destruct j as [|j]; [first [reflexivity | zp_neq E]|]); lia|]). lia.
Qed.

(* ---- quotient_is_poly with a NON-ZERO numerator: N = prod_{i<7} (x - g^i) vanishes on the 7 non-exempt steps only *)
Example quotient_is_poly_nonvacuous :
  let N := roots_poly O17 (domain O17 g17 7) in
  peval O17 N (fpow O17 g17 7) <> fzero O17 /\
  exists Q, length Q = length N - (8 - 1) /\
    (forall x, peval O17 N x = fmul O17 (pprod O17 (domain O17 g17 (8 - 1)) x) (peval O17 Q x)) /\
    (forall x, fmul O17 (peval O17 N x) (pprod O17 (exempt O17 g17 8 1) x)
               = fmul O17 (fsub O17 (fpow O17 x 8) (fone O17)) (peval O17 Q x)).
Proof.
  split. { intros H. zp_neq H. }
  apply (quotient_is_poly O17 L17 g17 8 1); [exact g17_primitive | lia | lia |].
  intros i Hi. rewrite (roots_poly_peval O17 L17). apply (pprod_root O17 L17). apply (In_domain O17). exists i. split; [lia | reflexivity].
Qed.

(* ---- the degenerate valid trace: one constant column 5 with constraint next - current = 0 and assertion T[0] = 5 *)
Definition T5 : list (Zp 17%Z) := e17 5%Z :: repeat (fzero O17) 7.
Definition H0 : list (Zp 17%Z) := repeat (fzero O17) 8.

Lemma T5_eval x : peval O17 T5 x = e17 5%Z.
Proof. unfold T5. cbn [Stark.peval repeat]. ring. Qed.

(* the trace is VALID: the transition constraint holds on every step and the assertion holds *)
Lemma T5_valid : (forall i, peval O17 T5 (fpow O17 g17 (S i)) = peval O17 T5 (fpow O17 g17 i)) /\
                 peval O17 T5 (fpow O17 g17 0) = e17 5%Z.
Proof. split; intros; now rewrite !T5_eval. Qed.

(* deep_degree_eq_refuted: a valid trace whose DEEP polynomial has degree 0 < n - 2 = 6 for EVERY coin: the snapshot's
   `assert_eq!(trace_length - 2, deep_composition_poly.degree())` fires (the replayed panic `left: 14, right: 0`
   is the same trace at length 16); the repaired assertion holds *)
Theorem deep_degree_eq_refuted :
  exists (n : nat) (g : Zp 17%Z) (Ts Hs : list (list (Zp 17%Z))),
    primitive_root O17 g n /\ Forall (fun p => length p = n) Ts /\ Forall (fun p => length p = n) Hs /\
    (forall T, In T Ts -> forall i, peval O17 T (fpow O17 g (S i)) = peval O17 T (fpow O17 g i)) /\
    forall (c : @Coin (Zp 17%Z)) cur nxt hz,
      degree_of O17 (deep_poly O17 n g c Ts Hs cur nxt hz) < n - 2 /\
      deep_assert O17 true n (deep_poly O17 n g c Ts Hs cur nxt hz) = false /\
      deep_assert O17 false n (deep_poly O17 n g c Ts Hs cur nxt hz) = true.
Proof.
  exists 8, g17, [T5], [H0]. split; [exact g17_primitive|].
  assert (HT : Forall (fun p : list (Zp 17%Z) => length p = 8) [T5]) by (repeat constructor).
  assert (HH : Forall (fun p : list (Zp 17%Z) => length p = 8) [H0]) by (repeat constructor).
  split; [exact HT|]. split; [exact HH|]. split.
  { intros T [<-|[]] i. apply T5_valid. }
  intros c cur nxt hz.
  assert (TZ : Forall (tail_zeros O17) [T5]). { repeat constructor. }
  assert (HZ : Forall (tail_zeros O17) [H0]). { repeat constructor. }
  destruct (deep_assert_strict_fires O17 L17 8 g17 c [T5] [H0] cur nxt hz ltac:(lia) TZ HZ) as [E1 E2].
  split; [rewrite E1; lia|]. split; [exact E2|].
  apply (deep_assert_lax_holds O17 L17); [lia | exact HT | exact HH].
Qed.

(* ---- an instance of the capstone: transparent commitments (the committed data itself) and a transparent FRI (the
   polynomial itself), so that every stage hypothesis is a true statement about concrete functions *)
Fixpoint leqb (a b : list (Zp 17%Z)) : bool :=
  match a, b with [], [] => true | x :: a', y :: b' => feqb O17 x y && leqb a' b' | _, _ => false end.
Lemma leqb_refl a : leqb a a = true.
Proof. induction a; cbn [leqb]; [reflexivity|]. now rewrite (feqb_refl O17 L17). Qed.

Definition air5 (x : Zp 17%Z) (cur nxt : list (Zp 17%Z)) : Zp 17%Z :=
  fadd O17
    (fmul O17 (fmul O17 (fsub O17 (nth 0 nxt (fzero O17)) (nth 0 cur (fzero O17))) (pprod O17 (exempt O17 g17 8 1) x))
              (finv O17 (fsub O17 (fpow O17 x 8) (fone O17))))
    (fmul O17 (fsub O17 (nth 0 cur (fzero O17)) (e17 5%Z)) (finv O17 (fsub O17 x (fone O17)))).

Definition coin5 : @Coin (Zp 17%Z) := mkCoin (e17 6%Z) [e17 7%Z] [e17 11%Z] [e17 3%Z; e17 5%Z].

Fixpoint lleqb (a b : list (list (Zp 17%Z))) : bool :=
  match a, b with [], [] => true | x :: a', y :: b' => leqb x y && lleqb a' b' | _, _ => false end.
Lemma lleqb_refl a : lleqb a a = true.
Proof. induction a; cbn [lleqb]; [reflexivity|]. now rewrite leqb_refl. Qed.

Example stark_complete_nonvacuous :
  exists pf,
    prove O17 (list (list (Zp 17%Z))) unit (list (Zp 17%Z)) (fun cs => cs) (fun _ _ => tt) (fun d _ => d) air5 (fun _ => repeat (fzero O17) 16)
          (mkParams 8 g17 1 false false) coin5 [T5] = Done pf /\
    verify O17 (list (list (Zp 17%Z))) unit (list (Zp 17%Z)) (fun d xs rows _ => lleqb rows (map (evals O17 d) xs))
           (fun pf _ xs evs => leqb evs (map (peval O17 pf) xs)) air5 (mkParams 8 g17 1 false false) coin5 pf = None.
Proof.
  apply (stark_complete_core O17 L17 (list (list (Zp 17%Z))) unit (list (Zp 17%Z)) (fun cs => cs) (fun _ _ => tt)
           (fun d xs rows _ => lleqb rows (map (evals O17 d) xs)) (fun d _ => d) (fun pf _ xs evs => leqb evs (map (peval O17 pf) xs))
           air5 (fun _ => repeat (fzero O17) 16) 8 1 16 g17 [e17 3%Z; e17 5%Z]) with (dbg := false) (Q := []).
  - intros cs xs _ _ _ _. apply lleqb_refl.
  - intros d xs _ _ _ _ _. apply leqb_refl.
  - lia.
  - lia.
  - simpl; lia.
  - discriminate.
  - repeat constructor.
  - simpl; lia.
  - intros x _. unfold air5. cbn [evals map nth]. rewrite !T5_eval. cbn [Stark.peval]. ring.
  - reflexivity.
  - reflexivity.
  - cbn [c_z coin5]. intros H. apply (In_domain O17) in H. destruct H as (i & Hi & E).
    do 8 (destruct i as [|i]; [zp_neq E|]). lia.
  - intros E. zp_neq E.
  - intros E. zp_neq E.
  - intros x H. exact H.
  - cbn [c_xs coin5]. constructor; [intros [E|[]]; zp_neq E | constructor; [intros [] | constructor]].
  - discriminate.
  - simpl; lia.
  - cbn [c_xs c_z coin5]. intros x [<-|[<-|[]]]; split; intros E; zp_neq E.
Qed.
