(* C08 — ties of the GENERATED `impl ExtensibleField<N>` terms (coq/Gen/F64.v, F62.v, F128.v) to the reference
   multiplications of Proofs/ExtTheory.v, and the theorems about the hand model of QuadExtension / CubeExtension
   (Model/ExtField.v) for any vtable that satisfies the tie.  stdlib style, any field (`FLaws O`). *)
From Coq Require Import ZArith List Bool Ring Field Lia.
From VBase Require Import FieldOps.
From VGen Require Import F64 F62 F128.
From VModel Require Import ExtField.
From VProofs Require Import ExtTheory.
Import ListNotations.

Section Ties.
Context {F : Type} (O : FOps F) (L : FLaws O).

Local Notation zero := (fzero O).
Local Notation one := (fone O).
Local Notation "a +f b" := (fadd O a b) (at level 50, left associativity).
Local Notation "a -f b" := (fsub O a b) (at level 50, left associativity).
Local Notation "a *f b" := (fmul O a b) (at level 40, left associativity).
Local Notation "-f a" := (fneg O a) (at level 35, right associativity).

Add Ring Fring : (FLaws_ring_theory O L).
Add Field Ffield : (FLaws_field_theory O L).

Definition ftwo : F := one +f one.
Definition fneg2 : F := -f (one +f one).

(* "vtable I implements F[x]/(x^2 - x - c)" *)
Record Ext2Correct (I : Ext2Impl F) (c : F) : Prop := {
  x2c_mul : forall a b, x2_mul I a b = qs_mul O c a b;
  x2c_square : forall a, x2_square I a = qs_mul O c a a;
  x2c_mul_base : forall a b, x2_mul_base I a b = qs_mul O c a (b, zero);
  x2c_frob : forall a, x2_frob I a = qs_frob O a
}.
(* "vtable I implements F[x]/(x^3 - u x - v) with Frobenius matrix columns (1,0,0), (k01,k11,k21), (k02,k12,k22)" *)
Record Ext3Correct (I : Ext3Impl F) (u v k01 k02 k11 k12 k21 k22 : F) : Prop := {
  x3c_mul : forall a b, x3_mul I a b = cs_mul O u v a b;
  x3c_square : forall a, x3_square I a = cs_mul O u v a a;
  x3c_mul_base : forall a b, x3_mul_base I a b = cs_mul O u v a (b, zero, zero);
  x3c_frob : forall a, x3_frob I a = cs_frob O k01 k02 k11 k12 k21 k22 a
}.

Ltac unf2 := intros;
  repeat match goal with a : (F * F)%type |- _ => destruct a end;
  unfold qs_mul, qs_frob, fneg2, ftwo; cbn [fst snd];
  try rewrite !(fl_double_def O L); try rewrite !(fl_square_def O L).
Ltac unf3 := intros;
  repeat match goal with a : (F * F * F)%type |- _ => destruct a as [[? ?] ?] end;
  unfold cs_mul, cs_frob, fneg2, ftwo, c0, c1, c2; cbn [fst snd];
  try rewrite !(fl_double_def O L); try rewrite !(fl_square_def O L).
Ltac r2 := f_equal; ring.
Ltac r3 := f_equal; [f_equal|]; ring.

(* ---------------- f64, quadratic: x^2 = x - 2 ---------------- *)
Lemma f64_ext2_mul_spec : forall a0 a1 b0 b1,
  f64_ext2_mul O (a0, a1) (b0, b1) = (a0 *f b0 -f ftwo *f (a1 *f b1), a0 *f b1 +f a1 *f b0 +f a1 *f b1).
Proof. intros. unfold f64_ext2_mul. unf2. r2. Qed.
Lemma f64_ext2_mul_eq : forall a b, f64_ext2_mul O a b = qs_mul O fneg2 a b.
Proof. unf2. unfold f64_ext2_mul. unf2. r2. Qed.
Lemma f64_ext2_square_eq : forall a, f64_ext2_square O a = f64_ext2_mul O a a.
Proof. unf2. unfold f64_ext2_square, f64_ext2_mul. unf2. r2. Qed.
Lemma f64_ext2_mul_base_eq : forall a b, f64_ext2_mul_base O a b = f64_ext2_mul O a (b, zero).
Proof. unf2. unfold f64_ext2_mul_base, f64_ext2_mul. unf2. r2. Qed.
Lemma f64_ext2_frob_eq : forall a, f64_ext2_frobenius O a = qs_frob O a.
Proof. reflexivity. Qed.
Theorem f64_x2_correct : Ext2Correct (f64_x2 O) fneg2.
Proof.
  constructor; cbn [f64_x2 x2_mul x2_square x2_mul_base x2_frob]; intros.
  - apply f64_ext2_mul_eq.
  - rewrite f64_ext2_square_eq. apply f64_ext2_mul_eq.
  - rewrite f64_ext2_mul_base_eq. apply f64_ext2_mul_eq.
  - apply f64_ext2_frob_eq.
Qed.

(* ---------------- f62, quadratic: x^2 = x + 1 ---------------- *)
Lemma f62_ext2_mul_spec : forall a0 a1 b0 b1,
  f62_ext2_mul O (a0, a1) (b0, b1) = (a0 *f b0 +f a1 *f b1, a0 *f b1 +f a1 *f b0 +f a1 *f b1).
Proof. intros. unfold f62_ext2_mul. unf2. r2. Qed.
Lemma f62_ext2_mul_eq : forall a b, f62_ext2_mul O a b = qs_mul O one a b.
Proof. unf2. unfold f62_ext2_mul. unf2. r2. Qed.
Lemma f62_ext2_mul_base_eq : forall a b, f62_ext2_mul_base O a b = f62_ext2_mul O a (b, zero).
Proof. unf2. unfold f62_ext2_mul_base, f62_ext2_mul. unf2. r2. Qed.
Lemma f62_ext2_frob_eq : forall a, f62_ext2_frobenius O a = qs_frob O a.
Proof. reflexivity. Qed.
Theorem f62_x2_correct : Ext2Correct (f62_x2 O) one.
Proof.
  constructor; cbn [f62_x2 x2_mul x2_square x2_mul_base x2_frob]; intros.
  - apply f62_ext2_mul_eq.
  - apply f62_ext2_mul_eq.
  - rewrite f62_ext2_mul_base_eq. apply f62_ext2_mul_eq.
  - apply f62_ext2_frob_eq.
Qed.

(* ---------------- f128, quadratic: x^2 = x + 1 ---------------- *)
Lemma f128_ext2_mul_spec : forall a0 a1 b0 b1,
  f128_ext2_mul O (a0, a1) (b0, b1) = (a0 *f b0 +f a1 *f b1, a0 *f b1 +f a1 *f b0 +f a1 *f b1).
Proof. intros. unfold f128_ext2_mul. unf2. r2. Qed.
Lemma f128_ext2_mul_eq : forall a b, f128_ext2_mul O a b = qs_mul O one a b.
Proof. unf2. unfold f128_ext2_mul. unf2. r2. Qed.
Lemma f128_ext2_mul_base_eq : forall a b, f128_ext2_mul_base O a b = f128_ext2_mul O a (b, zero).
Proof. unf2. unfold f128_ext2_mul_base, f128_ext2_mul. unf2. r2. Qed.
Lemma f128_ext2_frob_eq : forall a, f128_ext2_frobenius O a = qs_frob O a.
Proof. unf2. unfold f128_ext2_frobenius. unf2. r2. Qed.
Theorem f128_x2_correct : Ext2Correct (f128_x2 O) one.
Proof.
  constructor; cbn [f128_x2 x2_mul x2_square x2_mul_base x2_frob]; intros.
  - apply f128_ext2_mul_eq.
  - apply f128_ext2_mul_eq.
  - rewrite f128_ext2_mul_base_eq. apply f128_ext2_mul_eq.
  - apply f128_ext2_frob_eq.
Qed.

(* ---------------- f64, cubic: x^3 = x + 1 ---------------- *)
Lemma f64_ext3_mul_spec : forall a0 a1 a2 b0 b1 b2,
  f64_ext3_mul O (a0, a1, a2) (b0, b1, b2) =
  (a0 *f b0 +f (a1 *f b2 +f a2 *f b1),
   a0 *f b1 +f a1 *f b0 +f (a1 *f b2 +f a2 *f b1) +f a2 *f b2,
   a0 *f b2 +f a1 *f b1 +f a2 *f b0 +f a2 *f b2).
Proof. intros. unfold f64_ext3_mul. unf3. r3. Qed.
Lemma f64_ext3_mul_eq : forall a b, f64_ext3_mul O a b = cs_mul O one one a b.
Proof. unf3. unfold f64_ext3_mul. unf3. r3. Qed.
Lemma f64_ext3_square_eq : forall a, f64_ext3_square O a = f64_ext3_mul O a a.
Proof. unf3. unfold f64_ext3_square, f64_ext3_mul. unf3. r3. Qed.
Lemma f64_ext3_mul_base_eq : forall a b, f64_ext3_mul_base O a b = f64_ext3_mul O a (b, zero, zero).
Proof. unf3. unfold f64_ext3_mul_base, f64_ext3_mul. unf3. r3. Qed.

Definition f64_k01 := fofz O 10615703402128488253.
Definition f64_k02 := fofz O 6700183068485440220.
Definition f64_k11 := fofz O 10050274602728160328.
Definition f64_k12 := fofz O 14531223735771536287.
Definition f64_k21 := fofz O 11746561000929144102.
Definition f64_k22 := fofz O 8396469466686423992.
Lemma f64_ext3_frob_eq : forall a,
  f64_ext3_frobenius O a = cs_frob O f64_k01 f64_k02 f64_k11 f64_k12 f64_k21 f64_k22 a.
Proof. reflexivity. Qed.
Theorem f64_x3_correct : Ext3Correct (f64_x3 O) one one f64_k01 f64_k02 f64_k11 f64_k12 f64_k21 f64_k22.
Proof.
  constructor; cbn [f64_x3 x3_mul x3_square x3_mul_base x3_frob]; intros.
  - apply f64_ext3_mul_eq.
  - rewrite f64_ext3_square_eq. apply f64_ext3_mul_eq.
  - rewrite f64_ext3_mul_base_eq. apply f64_ext3_mul_eq.
  - apply f64_ext3_frob_eq.
Qed.

(* ---------------- f62, cubic: x^3 = -2x - 2 ---------------- *)
Lemma f62_ext3_mul_spec : forall a0 a1 a2 b0 b1 b2,
  f62_ext3_mul O (a0, a1, a2) (b0, b1, b2) =
  (a0 *f b0 -f ftwo *f (a1 *f b2 +f a2 *f b1),
   a0 *f b1 +f a1 *f b0 -f ftwo *f (a1 *f b2 +f a2 *f b1) -f ftwo *f (a2 *f b2),
   a0 *f b2 +f a1 *f b1 +f a2 *f b0 -f ftwo *f (a2 *f b2)).
Proof. intros. unfold f62_ext3_mul. unf3. r3. Qed.
Lemma f62_ext3_mul_eq : forall a b, f62_ext3_mul O a b = cs_mul O fneg2 fneg2 a b.
Proof. unf3. unfold f62_ext3_mul. unf3. r3. Qed.
Lemma f62_ext3_mul_base_eq : forall a b, f62_ext3_mul_base O a b = f62_ext3_mul O a (b, zero, zero).
Proof. unf3. unfold f62_ext3_mul_base, f62_ext3_mul. unf3. r3. Qed.

Definition f62_k01 := fofz O 2061766055618274781.
Definition f62_k02 := fofz O 786836585661389001.
Definition f62_k11 := fofz O 2868591307402993000.
Definition f62_k12 := fofz O 3336695525575160559.
Definition f62_k21 := fofz O 2699230790596717670.
Definition f62_k22 := fofz O 1743033688129053336.
Lemma f62_ext3_frob_eq : forall a,
  f62_ext3_frobenius O a = cs_frob O f62_k01 f62_k02 f62_k11 f62_k12 f62_k21 f62_k22 a.
Proof. reflexivity. Qed.
Theorem f62_x3_correct : Ext3Correct (f62_x3 O) fneg2 fneg2 f62_k01 f62_k02 f62_k11 f62_k12 f62_k21 f62_k22.
Proof.
  constructor; cbn [f62_x3 x3_mul x3_square x3_mul_base x3_frob]; intros.
  - apply f62_ext3_mul_eq.
  - apply f62_ext3_mul_eq.
  - rewrite f62_ext3_mul_base_eq. apply f62_ext3_mul_eq.
  - apply f62_ext3_frob_eq.
Qed.

(* ================================================================== QuadExtension<B> model *)
Section QuadModel.
Variable I : Ext2Impl F.
Variable c : F.
Hypothesis IC : Ext2Correct I c.

Local Notation qmul := (q_mul I).
Local Notation qadd := (q_add O).
Local Notation q0 := (q_zero O).
Local Notation q1 := (q_one O).

Lemma q_mul_eq : forall a b, qmul a b = qs_mul O c a b.
Proof. exact (x2c_mul _ _ IC). Qed.
Lemma q_conj_eq : forall a, q_conjugate I a = qs_frob O a.
Proof. exact (x2c_frob _ _ IC). Qed.

Theorem q_ring : @ring_theory (F * F)%type q0 q1 qadd qmul (q_sub O) (q_neg O) (@eq (F * F)).
Proof.
  pose proof (qs_ring O L c) as R. destruct R.
  constructor; intros; rewrite ?q_mul_eq; auto.
Qed.

Theorem q_square_spec : forall a, q_square I a = qmul a a.
Proof. intros. unfold q_square, q_mul. rewrite (x2c_square _ _ IC), (x2c_mul _ _ IC). reflexivity. Qed.
Theorem q_mul_base_spec : forall a b, q_mul_base I a b = qmul a (q_from_base O b).
Proof. intros. unfold q_mul_base, q_mul. rewrite (x2c_mul_base _ _ IC), (x2c_mul _ _ IC). reflexivity. Qed.
Theorem q_mul_base_coeff : forall a b, q_mul_base I a b = (fst a *f b, snd a *f b).
Proof. intros. unfold q_mul_base. rewrite (x2c_mul_base _ _ IC). apply (qs_mul_base O L). Qed.
Theorem q_double_spec : forall a, q_double O a = qadd a a.
Proof. apply (q_double_add O L). Qed.

Theorem q_embed_hom :
  q_from_base O zero = q0 /\ q_from_base O one = q1 /\
  (forall x y, q_from_base O (x +f y) = qadd (q_from_base O x) (q_from_base O y)) /\
  (forall x y, q_from_base O (x -f y) = q_sub O (q_from_base O x) (q_from_base O y)) /\
  (forall x, q_from_base O (-f x) = q_neg O (q_from_base O x)) /\
  (forall x y, q_from_base O (x *f y) = qmul (q_from_base O x) (q_from_base O y)) /\
  (forall x y, q_from_base O x = q_from_base O y -> x = y).
Proof.
  destruct (qs_embed_hom O L c) as (H0 & H1 & Ha & Hs & Hn & Hm & Hi).
  repeat split; auto. intros. rewrite q_mul_eq. apply Hm.
Qed.

(* conjugation is a ring automorphism of order 2 that fixes exactly the base field *)
Theorem q_conj_automorphism :
  (forall a b, q_conjugate I (qadd a b) = qadd (q_conjugate I a) (q_conjugate I b)) /\
  (forall a b, q_conjugate I (qmul a b) = qmul (q_conjugate I a) (q_conjugate I b)) /\
  q_conjugate I q1 = q1 /\
  (forall a, q_conjugate I (q_conjugate I a) = a) /\
  (forall a, q_conjugate I a = a <-> snd a = zero).
Proof.
  split; [|split; [|split; [|split]]]; intros; rewrite ?q_conj_eq, ?q_mul_eq, ?q_conj_eq.
  - apply (qs_frob_add O L).
  - apply (qs_frob_mul O L).
  - apply (qs_frob_one O L).
  - apply (qs_frob_invol O L).
  - apply (qs_frob_fixes_exactly_base O L).
Qed.

(* norm: the debug_assert of inv never fires *)
Theorem q_norm_in_base : forall a, snd (q_norm I a) = zero.
Proof.
  intros. unfold q_norm. rewrite (x2c_frob _ _ IC), (x2c_mul _ _ IC), (qs_norm_in_base O L). reflexivity.
Qed.
Lemma q_norm_fst : forall a, fst (q_norm I a) = qs_norm0 O c a.
Proof.
  intros. unfold q_norm. rewrite (x2c_frob _ _ IC), (x2c_mul _ _ IC), (qs_norm_in_base O L). reflexivity.
Qed.

Theorem q_eqb_spec : forall a b, q_eqb O a b = true <-> a = b.
Proof.
  intros [a0 a1] [b0 b1]. unfold q_eqb; cbn [fst snd]. rewrite andb_true_iff, !(fl_eqb_spec O L).
  split; [intros [-> ->]; reflexivity | intros H; injection H; auto].
Qed.

Theorem q_inv_zero : forall dbg, q_inv O I dbg q0 = Some q0.
Proof.
  intros. unfold q_inv. replace (q_eqb O q0 q0) with true; [reflexivity|].
  symmetry. apply q_eqb_spec. reflexivity.
Qed.

(* inv never panics, debug and release builds agree *)
Theorem q_inv_no_panic : forall dbg a, q_inv O I dbg a = q_inv O I false a /\ q_inv O I dbg a <> None.
Proof.
  intros dbg a. unfold q_inv. destruct (q_eqb O a q0); [split; [reflexivity|discriminate]|].
  fold (q_norm I a). rewrite q_norm_in_base, (feqb_refl O L). cbn [negb]. rewrite andb_false_r.
  split; [reflexivity|discriminate].
Qed.

(* full inverse, under "the discriminant 1 + 4c is not a square" (irreducibility of x^2 - x - c) *)
Theorem q_inv_spec : (forall s, s *f s <> qs_disc O c) ->
  forall dbg a, a <> q0 -> exists ia, q_inv O I dbg a = Some ia /\ qmul a ia = q1.
Proof.
  intros NS dbg a Ha. destruct (q_inv_no_panic dbg a) as [E _]. rewrite E. clear E.
  unfold q_inv. replace (q_eqb O a q0) with false.
  2:{ symmetry. destruct (q_eqb O a q0) eqn:E; [|reflexivity]. apply q_eqb_spec in E. contradiction. }
  cbn [andb]. eexists; split; [reflexivity|].
  fold (q_norm I a). rewrite q_norm_fst, (x2c_frob _ _ IC), q_mul_eq.
  apply (qs_inv_spec O L c a). apply (qs_norm_nonzero O L c NS a Ha).
Qed.

Theorem q_no_zero_div : (forall s, s *f s <> qs_disc O c) ->
  forall a b, qmul a b = q0 -> a = q0 \/ b = q0.
Proof. intros NS a b. rewrite q_mul_eq. apply (qs_no_zero_div O L c NS). Qed.

Theorem q_div_spec : (forall s, s *f s <> qs_disc O c) ->
  forall dbg a b, b <> q0 -> exists d, q_div O I dbg a b = Some d /\ qmul d b = a.
Proof.
  intros NS dbg a b Hb. destruct (q_inv_spec NS dbg b Hb) as (ib & E & M).
  unfold q_div. rewrite E. eexists; split; [reflexivity|].
  pose proof q_ring as R.
  rewrite <- (Rmul_assoc R), (Rmul_comm R ib b), M, (Rmul_comm R), (Rmul_1_l R). reflexivity.
Qed.

(* exp_vartime = repeated multiplication *)
Fixpoint q_pow (a : F * F) (n : nat) : F * F := match n with 0%nat => q1 | S n' => qmul a (q_pow a n') end.

Lemma q_pow_add : forall a n m, q_pow a (n + m) = qmul (q_pow a n) (q_pow a m).
Proof.
  pose proof q_ring as R. intros a n m. induction n as [|n IH]; cbn [q_pow Nat.add].
  - rewrite (Rmul_1_l R). reflexivity.
  - rewrite IH. apply (Rmul_assoc R).
Qed.
Lemma q_pow_sq : forall a n, q_pow (qmul a a) n = q_pow a (n + n).
Proof.
  pose proof q_ring as R. intros a n. induction n as [|n IH]; [reflexivity|].
  replace (S n + S n)%nat with (S (S (n + n))) by lia. cbn [q_pow]. rewrite IH. symmetry. apply (Rmul_assoc R).
Qed.
Lemma q_exp_loop_spec : forall p r b, q_exp_loop I r b p = qmul r (q_pow b (Pos.to_nat p)).
Proof.
  pose proof q_ring as R.
  induction p as [p IH|p IH|]; intros r b; cbn [q_exp_loop].
  - rewrite IH, q_square_spec, q_pow_sq. rewrite Pos2Nat.inj_xI.
    replace (S (2 * Pos.to_nat p)) with (S (Pos.to_nat p + Pos.to_nat p)) by lia. cbn [q_pow].
    rewrite <- !(Rmul_assoc R). reflexivity.
  - rewrite IH, q_square_spec, q_pow_sq. rewrite Pos2Nat.inj_xO.
    replace (2 * Pos.to_nat p)%nat with (Pos.to_nat p + Pos.to_nat p)%nat by lia. reflexivity.
  - change (Pos.to_nat 1) with 1%nat. cbn [q_pow]. rewrite (Rmul_comm R b q1), (Rmul_1_l R). reflexivity.
Qed.
Lemma q_pow_zero : forall n, (0 < n)%nat -> q_pow q0 n = q0.
Proof.
  intros [|n] H; [lia|]. cbn [q_pow]. rewrite q_mul_eq. unfold qs_mul, q_zero; cbn [fst snd]. f_equal; ring.
Qed.
Theorem q_exp_spec : forall a e, 0 <= e -> q_exp O I a e = q_pow a (Z.to_nat e).
Proof.
  pose proof q_ring as R. intros a [|p|p] He; try lia; [reflexivity|].
  unfold q_exp. rewrite Z2Nat.inj_pos. destruct (q_eqb O a q0) eqn:E.
  - apply q_eqb_spec in E. subst a. symmetry. apply q_pow_zero. lia.
  - rewrite q_exp_loop_spec. apply (Rmul_1_l R).
Qed.

(* the extension packaged as a field in the sense of Base/FieldOps.v: every theorem stated "for every FOps with
   FLaws" (polynomials, FFT, ...) applies to the extension fields as well *)
Definition q_inv_total (a : F * F) : F * F := match q_inv O I false a with Some x => x | None => q0 end.
Definition q_ops : FOps (F * F) := {|
  fzero := q0; fone := q1; fadd := qadd; fsub := q_sub O; fmul := qmul; fneg := q_neg O;
  fdouble := q_double O; fsquare := q_square I; finv := q_inv_total;
  fdiv := fun a b => qmul a (q_inv_total b); feqb := q_eqb O; fofz := fun z => q_from_base O (fofz O z) |}.

Theorem q_laws : (forall s, s *f s <> qs_disc O c) -> FLaws q_ops.
Proof.
  intros NS. pose proof q_ring as R.
  constructor; cbn [q_ops fzero fone fadd fsub fmul fneg fdouble fsquare finv fdiv feqb]; intros.
  - apply (Radd_comm R).
  - apply (Radd_assoc R).
  - apply (Radd_0_l R).
  - apply (Rmul_comm R).
  - apply (Rmul_assoc R).
  - apply (Rmul_1_l R).
  - apply (Rdistr_l R).
  - apply (Rsub_def R).
  - apply (Ropp_def R).
  - apply q_double_spec.
  - apply q_square_spec.
  - unfold q_one, q_zero. intros E. injection E as E. apply (fl_one_neq_zero O L). exact E.
  - unfold q_inv_total. destruct (q_inv_spec NS false a H) as (ia & E & M). rewrite E.
    rewrite (Rmul_comm R). exact M.
  - unfold q_inv_total. rewrite q_inv_zero. reflexivity.
  - reflexivity.
  - apply q_eqb_spec.
Qed.

End QuadModel.

(* ================================================================== CubeExtension<B> model *)
Section CubeModel.
Variable I : Ext3Impl F.
Variables u v k01 k02 k11 k12 k21 k22 : F.
Hypothesis IC : Ext3Correct I u v k01 k02 k11 k12 k21 k22.

Local Notation cmul := (c_mul I).
Local Notation cadd := (c_add O).
Local Notation z3 := (c_zero O).
Local Notation o3 := (c_one O).
Local Notation frob := (cs_frob O k01 k02 k11 k12 k21 k22).
Local Notation Consts := (Frob3Consts O u v k01 k02 k11 k12 k21 k22).
Local Notation det := (cs_fix_det O k11 k12 k21 k22).

Lemma c_mul_eq : forall a b, cmul a b = cs_mul O u v a b.
Proof. exact (x3c_mul _ _ _ _ _ _ _ _ _ IC). Qed.
Lemma c_conj_eq : forall a, c_conjugate I a = frob a.
Proof. exact (x3c_frob _ _ _ _ _ _ _ _ _ IC). Qed.

Theorem c_ring : @ring_theory (F * F * F)%type z3 o3 cadd cmul (c_sub O) (c_neg O) (@eq (F * F * F)).
Proof.
  pose proof (cs_ring O L u v) as R. destruct R.
  constructor; intros; rewrite ?c_mul_eq; auto.
Qed.

Theorem c_square_spec : forall a, c_square I a = cmul a a.
Proof. intros. unfold c_square, c_mul. rewrite (x3c_square _ _ _ _ _ _ _ _ _ IC), (x3c_mul _ _ _ _ _ _ _ _ _ IC). reflexivity. Qed.
Theorem c_mul_base_spec : forall a b, c_mul_base I a b = cmul a (c_from_base O b).
Proof. intros. unfold c_mul_base, c_mul. rewrite (x3c_mul_base _ _ _ _ _ _ _ _ _ IC), (x3c_mul _ _ _ _ _ _ _ _ _ IC). reflexivity. Qed.
Theorem c_mul_base_coeff : forall a b, c_mul_base I a b = (c0 a *f b, c1 a *f b, c2 a *f b).
Proof. intros. unfold c_mul_base. rewrite (x3c_mul_base _ _ _ _ _ _ _ _ _ IC). apply (cs_mul_base O L). Qed.
Theorem c_double_spec : forall a, c_double O a = cadd a a.
Proof. apply (c_double_add O L). Qed.

Theorem c_embed_hom :
  c_from_base O zero = z3 /\ c_from_base O one = o3 /\
  (forall x y, c_from_base O (x +f y) = cadd (c_from_base O x) (c_from_base O y)) /\
  (forall x y, c_from_base O (x -f y) = c_sub O (c_from_base O x) (c_from_base O y)) /\
  (forall x, c_from_base O (-f x) = c_neg O (c_from_base O x)) /\
  (forall x y, c_from_base O (x *f y) = cmul (c_from_base O x) (c_from_base O y)) /\
  (forall x y, c_from_base O x = c_from_base O y -> x = y).
Proof.
  destruct (cs_embed_hom O L u v) as (H0 & H1 & Ha & Hs & Hn & Hm & Hi).
  repeat split; auto. intros. rewrite c_mul_eq. apply Hm.
Qed.

(* conjugation: additive and fixing the base field unconditionally; multiplicative, of order 3 and fixing
   exactly the base field under the constant equations *)
Theorem c_conj_linear :
  (forall a b, c_conjugate I (cadd a b) = cadd (c_conjugate I a) (c_conjugate I b)) /\
  (forall x, c_conjugate I (c_from_base O x) = c_from_base O x) /\
  c_conjugate I o3 = o3.
Proof.
  repeat split; intros; rewrite ?c_conj_eq.
  - apply (cs_frob_add O L).
  - apply (cs_frob_base O L).
  - apply (cs_frob_one O L).
Qed.

Theorem c_conj_automorphism : Consts -> det <> zero ->
  (forall a b, c_conjugate I (cmul a b) = cmul (c_conjugate I a) (c_conjugate I b)) /\
  (forall a, c_conjugate I (c_conjugate I (c_conjugate I a)) = a) /\
  (forall a, c_conjugate I a = a <-> (c1 a = zero /\ c2 a = zero)).
Proof.
  intros K D. split; [|split]; intros; rewrite ?c_conj_eq, ?c_mul_eq, ?c_conj_eq.
  - apply (cs_frob_mul O L u v _ _ _ _ _ _ K).
  - apply (cs_frob_order3 O L u v _ _ _ _ _ _ K).
  - apply (cs_frob_fixes_exactly_base O L _ _ _ _ _ _ D a).
Qed.

Lemma c_norm_eq : forall a, c_norm I a = cs_norm O u v k01 k02 k11 k12 k21 k22 a.
Proof.
  intros. unfold c_norm, c_numerator, cs_norm, cs_numerator.
  rewrite !(x3c_frob _ _ _ _ _ _ _ _ _ IC), !(x3c_mul _ _ _ _ _ _ _ _ _ IC). reflexivity.
Qed.
Lemma c_numerator_eq : forall a, c_numerator I a = cs_numerator O u v k01 k02 k11 k12 k21 k22 a.
Proof.
  intros. unfold c_numerator, cs_numerator.
  rewrite !(x3c_frob _ _ _ _ _ _ _ _ _ IC), !(x3c_mul _ _ _ _ _ _ _ _ _ IC). reflexivity.
Qed.

(* norm: the two debug_asserts of inv never fire *)
Theorem c_norm_in_base : Consts -> det <> zero -> forall a, c1 (c_norm I a) = zero /\ c2 (c_norm I a) = zero.
Proof.
  intros K D a. rewrite c_norm_eq, (cs_norm_in_base O L u v _ _ _ _ _ _ K D a). split; reflexivity.
Qed.

Theorem c_eqb_spec : forall a b, c_eqb O a b = true <-> a = b.
Proof.
  intros [[a0 a1] a2] [[b0 b1] b2]. unfold c_eqb, c0, c1, c2; cbn [fst snd].
  rewrite !andb_true_iff, !(fl_eqb_spec O L).
  split; [intros [[-> ->] ->]; reflexivity | intros H; injection H; auto].
Qed.

Theorem c_inv_zero : forall dbg, c_inv O I dbg z3 = Some z3.
Proof.
  intros. unfold c_inv. replace (c_eqb O z3 z3) with true; [reflexivity|].
  symmetry. apply c_eqb_spec. reflexivity.
Qed.

Theorem c_inv_no_panic : Consts -> det <> zero ->
  forall dbg a, c_inv O I dbg a = c_inv O I false a /\ c_inv O I dbg a <> None.
Proof.
  intros K D dbg a. unfold c_inv. destruct (c_eqb O a z3); [split; [reflexivity|discriminate]|].
  fold (c_numerator I a). fold (c_norm I a).
  destruct (c_norm_in_base K D a) as [E1 E2]. rewrite E1, E2, (feqb_refl O L). cbn [negb].
  rewrite andb_false_r. split; [reflexivity|discriminate].
Qed.

(* a . inv a = 1 whenever the norm is non-zero *)
Theorem c_inv_spec_partial : Consts -> det <> zero ->
  forall dbg a, a <> z3 -> c0 (c_norm I a) <> zero ->
  exists ia, c_inv O I dbg a = Some ia /\ cmul a ia = o3.
Proof.
  intros K D dbg a Ha N. destruct (c_inv_no_panic K D dbg a) as [E _]. rewrite E. clear E.
  unfold c_inv. replace (c_eqb O a z3) with false.
  2:{ symmetry. destruct (c_eqb O a z3) eqn:E; [|reflexivity]. apply c_eqb_spec in E. contradiction. }
  cbn [andb]. eexists; split; [reflexivity|].
  fold (c_numerator I a). fold (c_norm I a). rewrite c_mul_eq, c_norm_eq, c_numerator_eq.
  rewrite c_norm_eq in N.
  apply (cs_inv_spec_partial O L u v _ _ _ _ _ _ K D a N).
Qed.

(* full inverse: the cubic has no root in the base field *)
Theorem c_norm_nonzero : Consts -> det <> zero -> cs_no_root O u v ->
  forall a, a <> z3 -> c0 (c_norm I a) <> zero.
Proof.
  intros K D NR a Ha. rewrite c_norm_eq.
  destruct (cs_all_units O L u v NR a Ha) as [b Hb].
  apply (cs_unit_norm O L u v _ _ _ _ _ _ K D a b Hb).
Qed.

Theorem c_inv_spec : Consts -> det <> zero -> cs_no_root O u v ->
  forall dbg a, a <> z3 -> exists ia, c_inv O I dbg a = Some ia /\ cmul a ia = o3.
Proof.
  intros K D NR dbg a Ha. apply (c_inv_spec_partial K D dbg a Ha). apply (c_norm_nonzero K D NR a Ha).
Qed.

Theorem c_no_zero_div : cs_no_root O u v -> forall a b, cmul a b = z3 -> a = z3 \/ b = z3.
Proof. intros NR a b. rewrite c_mul_eq. apply (cs_no_zero_div O L u v NR). Qed.

Theorem c_div_spec : Consts -> det <> zero -> cs_no_root O u v ->
  forall dbg a b, b <> z3 -> exists d, c_div O I dbg a b = Some d /\ cmul d b = a.
Proof.
  intros K D NR dbg a b Hb. destruct (c_inv_spec K D NR dbg b Hb) as (ib & E & M).
  unfold c_div. rewrite E. eexists; split; [reflexivity|].
  pose proof c_ring as R.
  rewrite <- (Rmul_assoc R), (Rmul_comm R ib b), M, (Rmul_comm R), (Rmul_1_l R). reflexivity.
Qed.

Fixpoint c_pow (a : F * F * F) (n : nat) : F * F * F := match n with 0%nat => o3 | S n' => cmul a (c_pow a n') end.

Lemma c_pow_sq : forall a n, c_pow (cmul a a) n = c_pow a (n + n).
Proof.
  pose proof c_ring as R. intros a n. induction n as [|n IH]; [reflexivity|].
  replace (S n + S n)%nat with (S (S (n + n))) by lia. cbn [c_pow]. rewrite IH. symmetry. apply (Rmul_assoc R).
Qed.
Lemma c_exp_loop_spec : forall p r b, c_exp_loop I r b p = cmul r (c_pow b (Pos.to_nat p)).
Proof.
  pose proof c_ring as R.
  induction p as [p IH|p IH|]; intros r b; cbn [c_exp_loop].
  - rewrite IH, c_square_spec, c_pow_sq. rewrite Pos2Nat.inj_xI.
    replace (S (2 * Pos.to_nat p)) with (S (Pos.to_nat p + Pos.to_nat p)) by lia. cbn [c_pow].
    rewrite <- !(Rmul_assoc R). reflexivity.
  - rewrite IH, c_square_spec, c_pow_sq. rewrite Pos2Nat.inj_xO.
    replace (2 * Pos.to_nat p)%nat with (Pos.to_nat p + Pos.to_nat p)%nat by lia. reflexivity.
  - change (Pos.to_nat 1) with 1%nat. cbn [c_pow]. rewrite (Rmul_comm R b o3), (Rmul_1_l R). reflexivity.
Qed.
Lemma c_pow_zero : forall n, (0 < n)%nat -> c_pow z3 n = z3.
Proof.
  intros [|n] H; [lia|]. cbn [c_pow]. rewrite c_mul_eq. apply (cs_mul_zero O L).
Qed.
Theorem c_exp_spec : forall a e, 0 <= e -> c_exp O I a e = c_pow a (Z.to_nat e).
Proof.
  pose proof c_ring as R. intros a [|p|p] He; try lia; [reflexivity|].
  unfold c_exp. rewrite Z2Nat.inj_pos. destruct (c_eqb O a z3) eqn:E.
  - apply c_eqb_spec in E. subst a. symmetry. apply c_pow_zero. lia.
  - rewrite c_exp_loop_spec. apply (Rmul_1_l R).
Qed.

Definition c_inv_total (a : F * F * F) : F * F * F := match c_inv O I false a with Some x => x | None => z3 end.
Definition c_ops : FOps (F * F * F) := {|
  fzero := z3; fone := o3; fadd := cadd; fsub := c_sub O; fmul := cmul; fneg := c_neg O;
  fdouble := c_double O; fsquare := c_square I; finv := c_inv_total;
  fdiv := fun a b => cmul a (c_inv_total b); feqb := c_eqb O; fofz := fun z => c_from_base O (fofz O z) |}.

Theorem c_laws : Consts -> det <> zero -> cs_no_root O u v -> FLaws c_ops.
Proof.
  intros K D NR. pose proof c_ring as R.
  constructor; cbn [c_ops fzero fone fadd fsub fmul fneg fdouble fsquare finv fdiv feqb]; intros.
  - apply (Radd_comm R).
  - apply (Radd_assoc R).
  - apply (Radd_0_l R).
  - apply (Rmul_comm R).
  - apply (Rmul_assoc R).
  - apply (Rmul_1_l R).
  - apply (Rdistr_l R).
  - apply (Rsub_def R).
  - apply (Ropp_def R).
  - apply c_double_spec.
  - apply c_square_spec.
  - unfold c_one, c_zero. intros E. injection E as E. apply (fl_one_neq_zero O L). exact E.
  - unfold c_inv_total. destruct (c_inv_spec K D NR false a H) as (ia & E & M). rewrite E.
    rewrite (Rmul_comm R). exact M.
  - unfold c_inv_total. rewrite c_inv_zero. reflexivity.
  - reflexivity.
  - apply c_eqb_spec.
Qed.

End CubeModel.
End Ties.
