(* Extraction of the C18 models for the correspondence driver.
   Directives: ExtrOcamlBasic only.  The float operations of the proven estimate are ordinary function arguments of
   the extracted functions (Section variables of VModel.SecurityModel): the driver passes OCaml's float operations,
   no `Extract Constant` is used. *)
From Coq Require Extraction ExtrOcamlBasic.
From VBase Require Import MachInt.
From VGen Require Import Security.
From VModel Require Import SecurityModel.
Extraction Language OCaml.
Separate Extraction
  sec_get_conjectured_security sec_get_conjectured_security_ok
  num_modulus_bits num_modulus_bits_ok conjectured_level proven_level get_proven_security
  validate verify_decision f62_desc f64_desc f128_desc psm_query_base compute_upper_m.
