(* Extraction of the C12 codec model for the correspondence driver.  Directives: ExtrOcamlBasic only. *)
From Coq Require Extraction ExtrOcamlBasic.
From VBase Require Import MachInt.
From VModel Require Import Codec.
Extraction Language OCaml.
Separate Extraction
  read_u8 write_u8 read_u16 write_u16 read_u32 write_u32 read_u64 write_u64 read_u128 write_u128
  read_bool write_bool encoded_len write_usize read_usize
  write_many read_many write_option read_option write_vec read_vec_of write_arr read_arr
  write_pair read_pair write_triple read_triple write_string read_string
  write_unit read_unit write_tup1 read_tup1 write_tup4 read_tup4 write_tup5 read_tup5 write_tup6 read_tup6
  write_slice write_str
  write_map read_map write_set read_set
  M64 M62 M128 write_f64 read_f64 write_f62 read_f62 write_f128 read_f128
  write_quad read_quad write_cube read_cube write_digest read_digest write_edigest read_edigest
  write_FieldExtension read_FieldExtension ProofOptions_new write_ProofOptions read_ProofOptions
  TraceInfo_new_multi_segment TraceInfo_with_meta TraceInfo_new write_TraceInfo write_TraceInfo_ok read_TraceInfo
  Context_new write_Context write_Context_ok read_Context
  write_Commitments write_Commitments_ok read_Commitments write_Queries read_Queries
  write_OodFrame read_OodFrame write_FriProofLayer read_FriProofLayer write_FriProof read_FriProof
  write_Proof write_Proof_ok read_Proof Z.ltb.
