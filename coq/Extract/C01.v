(* Extraction of the C01 models for the correspondence driver: the shape-level admissibility model (Model/Stark.v,
   module Shape) and the algebraic DEEP-composition model instantiated with the executable prime fields of
   Base/ZpOps.v.  Directives: ExtrOcamlBasic only. *)
From Coq Require Extraction ExtrOcamlBasic.
From VBase Require Import FieldOps ZpOps.
From VModel Require Import Stark StarkLagrange PolynomExt.
From VModel Require EnforceLagrange.
Extraction Language OCaml.
Separate Extraction
  Shape.options_ok Shape.fri_options_ok Shape.trace_info_ok Shape.degree_ok Shape.eval_degree Shape.min_blowup
  Shape.ctx_model Shape.num_comp_cols Shape.num_comp_cols_snapshot Shape.num_fri_layers Shape.fri_wellformed
  Shape.admissible
  zp_ops P64 P62 P128 fmul
  peval evals segment degree_of deep_poly v_deep ood_lhs
  quad64_ops quad62_ops padd deep_trace deep_lag v_trace_lag lag_pts lag_frame interp_pts_c20 lag_eval EnforceLagrange.lag_new.
