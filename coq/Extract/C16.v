(* Extraction of the C16 models (Model/Enforce.v, Model/EnforceLagrange.v) with the executable prime fields of Base/ZpOps.v
   for the correspondence driver.  Directives: ExtrOcamlBasic only. *)
From Coq Require Extraction ExtrOcamlBasic.
From VBase Require Import MachInt FieldOps ZpOps.
From VModel Require Import Enforce EnforceLagrange.
Extraction Language OCaml.
Separate Extraction
  mk_single mk_periodic mk_sequence is_single is_periodic is_sequence validate_trace_width
  validate_trace_length get_num_steps apply_steps steps overlaps_with a_cmp prepare_assertions boundary_prepare group_key
  eval_degree exemptions_ok
  fpow from_transition from_assertion d_degree eval_numerator eval_exemptions evaluate_at
  poly_eval idft bc_poly_offset bc_new bc_evaluate_at
  lag_num_coefficients lag_rows lag_shift lag_reads lag_readers zidx lag_new lag_num_constraints lag_raw lag_ith_numerator
  lag_ith_divisor lag_numerators lag_evaluate_and_combine lag_frame_from_poly lag_frame_at_row lag_kernel_col
  lag_assertion_value lag_boundary_numerator lag_boundary_denominator lag_boundary_evaluate_at
  zp_ops P64 P62 P128.
