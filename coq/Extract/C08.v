(* Extraction of the C08 models for the correspondence driver: the hand model of QuadExtension / CubeExtension
   (Model/ExtField.v) over the GENERATED ExtensibleField bodies, instantiated with the executable prime fields
   `zp_ops P64 / P62 / P128` (canonical residues).  Directives: ExtrOcamlBasic only. *)
From Coq Require Extraction ExtrOcamlBasic.
From VBase Require Import MachInt FieldOps ZpOps.
From VGen Require Import F64 F62 F128.
From VModel Require Import ExtField.

Definition o64 : FOps Z := zp_ops P64.
Definition o62 : FOps Z := zp_ops P62.
Definition o128 : FOps Z := zp_ops P128.
Definition q64 : Ext2Impl Z := f64_x2 o64.
Definition q62 : Ext2Impl Z := f62_x2 o62.
Definition q128 : Ext2Impl Z := f128_x2 o128.
Definition c64 : Ext3Impl Z := f64_x3 o64.
Definition c62 : Ext3Impl Z := f62_x3 o62.
Definition p64 : Z := P64.
Definition p62 : Z := P62.
Definition p128 : Z := P128.

Extraction Language OCaml.
Separate Extraction
  o64 o62 o128 q64 q62 q128 c64 c62 p64 p62 p128
  q_zero q_one q_add q_sub q_neg q_double q_mul q_square q_mul_base q_conjugate q_from_base q_eqb q_inv q_div q_exp
  q_base_element q_slice_as_base q_slice_from_base
  c_zero c_one c_add c_sub c_neg c_double c_mul c_square c_mul_base c_conjugate c_from_base c_eqb c_inv c_div c_exp
  c_base_element c_slice_as_base c_slice_from_base
  q_write q_read q_try_from_bytes c_write c_read c_try_from_bytes.
