(* Extraction of the C19 coin model, instantiated with the ToyHasher twin (toy_hash_elems, toy_merge,
   toy_merge_int; 8-byte digest) and with the 32-byte WideToy twin.  Directives: ExtrOcamlBasic only. *)
From Coq Require Extraction ExtrOcamlBasic.
From VBase Require Import MachInt.
From VModel Require Import ToyHash Coin.
Extraction Language OCaml.
Separate Extraction
  toy_coin_new toy_coin_step toy_coin_run toy_grind toy_dbytes
  wide_coin_new wide_step wide_run wide_grind wide_dbytes
  fk_f64 fk_f62 fk_f128 from_random_bytes is_pow2.
