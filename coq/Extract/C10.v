(* Extraction of the C10 model (Model/Merkle.v) instantiated with ToyHasher's Gallina twin
   (Model/ToyHash.v) for the correspondence driver.  Directives: ExtrOcamlBasic only. *)
From Coq Require Extraction ExtrOcamlBasic.
From Coq Require Import ZArith List.
From VBase Require Import MachInt.
From VModel Require Import ToyHash Merkle.
Open Scope Z_scope.

Definition toy_deser (l : list Z) : option Z := Some (of_le_bytes l).

Definition t_new := mt_new Z 0 toy_merge.
Definition t_build_nodes := build_nodes Z 0 toy_merge.
Definition t_root := mt_root Z.
Definition t_depth := mt_depth Z.
Definition t_prove := mt_prove Z.
Definition t_verify := verify Z Z.eqb toy_merge.
Definition t_prove_batch := mt_prove_batch Z 0.
Definition t_get_root := get_root Z toy_merge.
Definition t_verify_batch := verify_batch Z Z.eqb toy_merge.
Definition t_into_paths := into_paths Z toy_merge.
Definition t_from_paths := from_paths Z 0.
Definition t_serialize := serialize_nodes Z digest_bytes.
Definition t_deserialize := deserialize Z 8%nat toy_deser.

Extraction Language OCaml.
Separate Extraction
  t_new t_build_nodes t_root t_depth t_prove t_verify t_prove_batch t_get_root t_verify_batch
  t_into_paths t_from_paths t_serialize t_deserialize map_indexes normalize_indexes.
