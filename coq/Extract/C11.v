(* Extraction of the C11 models (Rescue hashers at the value level, generated frequency-domain MDS, hand model of
   mds_multiply, byte strings of the BLAKE3/SHA3 wrappers) for the correspondence driver.  ExtrOcamlBasic only. *)
From Coq Require Extraction ExtrOcamlBasic.
From VBase Require Import MachInt.
From VGen Require Import Mds12 Mds8 F64.
From VGen Require F62.
From VModel Require Import RescueConsts Rescue ByteHash.
Extraction Language OCaml.
Separate Extraction
  rp64_permutation rp62_permutation jive_permutation rp64_raw_permutation jive_raw_permutation
  rp64_raw_hash_elements rp62_raw_hash_elements jive_raw_hash_elements f64_new F62.f62_new
  rp64_hash rp62_hash jive_hash rp64_hash_elements rp62_hash_elements jive_hash_elements
  rp64_merge rp62_merge jive_merge rp64_merge_with_int rp62_merge_with_int jive_merge_with_int
  mds12_multiply mds12_multiply_ok mds8_multiply mds8_multiply_ok
  mds12_freq_list mds12_freq_list_ok mds8_freq_list mds8_freq_list_ok
  msg_hash msg_merge msg_merge_with_int msg_elements_f64 msg_elements_f128.
