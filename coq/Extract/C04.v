(* Extraction of the C04 transcript model for the correspondence driver.  Directives: ExtrOcamlBasic only. *)
From Coq Require Extraction ExtrOcamlBasic.
From VBase Require Import MachInt.
From VModel Require Import Transcript.
Extraction Language OCaml.
Separate Extraction prover verifier log_ok log_ok_uses context_elems trace_info_elems options_elems.
