(* Extraction of the C09 models (FFT, interpolation, LDE, segments) instantiated at the executable prime
   fields `zp_ops P64 / P62 / P128` by the driver.  Directives: ExtrOcamlBasic only. *)
From Coq Require Extraction ExtrOcamlBasic.
From Coq Require Import ZArith List.
From VBase Require Import FieldOps ZpOps.
From VGen Require Import FftIndex.
From VModel Require Import FFT FFTSplit.
Extraction Language OCaml.

(* B::get_root_of_unity(k) = TWO_ADIC_ROOT_OF_UNITY ^ (2^(TWO_ADICITY - k)) *)
Definition zp_root (p root : Z) (adicity k : nat) : Z :=
  zpow_mod p root (2 ^ Z.of_nat (adicity - k)).

Separate Extraction
  zp_ops zp_root zp_inv P64 P62 P128
  rev_bits permute_index permute_index_u64 is_pow2
  butterfly butterfly_twiddle swap permute fft_in_place fft_in_place_top
  get_power_series get_twiddles get_inv_twiddles
  evaluate_poly evaluate_poly_with_offset interpolate_poly interpolate_poly_with_offset
  degree_of infer_degree
  evaluate_columns_over interpolate_columns get_evaluation_offsets
  rows_ops segment_new build_segments transpose from_segments evaluate_polys_over rm_num_rows rm_get
  peval fpow fpow_N dft fft_rec spec_eval_offset spec_interpolate spec_interpolate_offset
  (* checked variant (explicit panics) and the rs2v-generated permute_index *)
  fft_in_place_c permute_c get_twiddles_c get_inv_twiddles_c evaluate_poly_c evaluate_poly_with_offset_c
  interpolate_poly_c interpolate_poly_with_offset_c infer_degree_c
  fftidx_permute_index fftidx_permute_index_ok
  (* the four-step FFT of the concurrent build *)
  split_radix_fft split_radix_fft_spec_tr evaluate_poly_concurrent interpolate_poly_concurrent
  evaluate_poly_with_offset_concurrent interpolate_poly_with_offset_concurrent
  segment_new_concurrent build_segments_concurrent evaluate_polys_over_concurrent.
