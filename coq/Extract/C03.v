(* Extraction of the C03 model (the verifier as an event generator over proof components) for the
   correspondence driver.  Directives: ExtrOcamlBasic only. *)
From Coq Require Extraction ExtrOcamlBasic.
From Coq Require Import BinNums.
From VModel Require Import Integrity.
Extraction Language OCaml.
(* BinNums is needed by ocaml/zio.ml (shared line-protocol helpers) *)
Separate Extraction events decode_events current unrepaired admissible check st0 proof_components BinNums.Z BinNums.positive.
