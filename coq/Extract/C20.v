(* Extraction of the C20 model (polynomial arithmetic + serial math utils over an FOps record) for the
   correspondence driver.  The model is instantiated by the driver at zp_ops P64 / P62 / P128 and at the
   quadratic / cubic extension records of Model/PolynomExt.v (carriers Z*Z and Z*Z*Z); the mixed instantiations
   (eval<B,E>, eval_many<B,E>, mul_acc<F,E>) are extracted generically and applied by the driver to the same
   zp_ops p and ExtensibleField vtables (f64_x2 ... f62_x3) the extension records are built from.
   Directives: ExtrOcamlBasic only (Z / N / nat stay inductive). *)
From Coq Require Extraction ExtrOcamlBasic.
From VBase Require Import FieldOps ZpOps.
From VGen Require Import F64 F62 F128.
From VModel Require Import Polynom ExtField PolynomExt.
Extraction Language OCaml.
Separate Extraction
  zp_ops P64 P62 P128
  quad64_ops quad62_ops quad128_ops cube64_ops cube62_ops
  f64_x2 f62_x2 f128_x2 f64_x3 f62_x3
  eval_mixed_quad eval_many_mixed_quad mul_acc_mixed_quad eval_mixed_cube eval_many_mixed_cube mul_acc_mixed_cube
  eval eval_many degree_of remove_leading_zeros add sub mul mul_by_scalar div div_full
  syn_div syn_div_in_place syn_div_in_place_full syn_div_roots_in_place poly_from_roots
  get_power_series get_power_series_with_offset add_in_place mul_acc batch_inversion
  interpolate interpolate_batch.
