(* Extraction of the C20 model (polynomial arithmetic + serial math utils over an FOps record) for the
   correspondence driver.  The model is instantiated by the driver at zp_ops P64 / P62 / P128 and at the
   quadratic / cubic extension records of Model/PolynomExt.v (carriers Z*Z and Z*Z*Z).
   Directives: ExtrOcamlBasic only (Z / N / nat stay inductive). *)
From Coq Require Extraction ExtrOcamlBasic.
From VBase Require Import FieldOps ZpOps.
From VGen Require Import F64 F62 F128.
From VModel Require Import Polynom ExtField PolynomExt.
Extraction Language OCaml.
Separate Extraction
  zp_ops P64 P62 P128
  quad64_ops quad62_ops quad128_ops cube64_ops cube62_ops
  eval eval_many degree_of remove_leading_zeros add sub mul mul_by_scalar div div_full
  syn_div syn_div_in_place syn_div_in_place_full syn_div_roots_in_place poly_from_roots
  get_power_series get_power_series_with_offset add_in_place mul_acc batch_inversion
  interpolate interpolate_batch.
