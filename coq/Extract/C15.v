(* Extraction of the FRI model (Model/Fri.v) instantiated with ToyHasher / the Merkle model / the
   DefaultRandomCoin model / prime fields and quadratic extensions (Model/FriInst.v) for the C15
   correspondence driver.  Directives: ExtrOcamlBasic only. *)
From Coq Require Extraction ExtrOcamlBasic.
From VModel Require Import Fri FriInst.
Extraction Language OCaml.
Separate Extraction
  fold_positions map_positions_to_indexes num_fri_layers options_new
  drp64 drp128 drp64x2 drp128x2 prove64 prove128 prove64x2 prove128x2
  verif64 verif128 verif64x2 verif128x2 twice64 twice128 coin0 emb.
