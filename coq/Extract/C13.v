(* Extraction of the C13 models (ReadAdapter / SliceReader state machines) for the correspondence driver.
   Directives: ExtrOcamlBasic only. *)
From Coq Require Extraction ExtrOcamlBasic.
From VBase Require Import MachInt.
From VModel Require Import ReadAdapter.
Extraction Language OCaml.
Separate Extraction adapter_step slice_step cursor_step a_init s_init c_init aborts.
