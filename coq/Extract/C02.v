(* Extraction of the C02 models (Model/Soundness.v) with the executable prime fields of Base/ZpOps.v and their quadratic /
   cubic extensions (Model/PolynomExt.v: FOps records over C08's model of QuadExtension / CubeExtension) for the
   correspondence driver.  Directives: ExtrOcamlBasic only. *)
From Coq Require Extraction ExtrOcamlBasic.
From VBase Require Import MachInt FieldOps ZpOps.
From VModel Require Import Soundness PolynomExt.
Extraction Language OCaml.
Separate Extraction
  verify_model deep_evaluations evaluate_constraints ood_equation_b fam_trans fam_aux_trans lagfam_trans lagfam_aux_trans fam_step_trans query_xs
  valid_b upd_cell is_asserted only_exempt asserted_cells
  trans_divisor_eval bnd_divisor_eval peval fpow
  seed_of flat_avals ctx_words
  zp_ops P64 P62 P128
  quad64_ops quad62_ops quad128_ops cube64_ops cube62_ops.
