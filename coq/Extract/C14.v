(* Extraction of the C14 task-decomposition model (Model/Par.v) for the correspondence driver.
   Directives: ExtrOcamlBasic only. *)
From Coq Require Extraction ExtrOcamlBasic.
From Coq Require Import ZArith.   (* ocaml/zio.ml (shared by all drivers) needs BinNums *)
From VBase Require Import MachInt.
From VModel Require Import FFT Par ToyHash.
Extraction Language OCaml.
Separate Extraction
  npo2 par_chunks batch_iter_chunks
  permute_dispatch permute_par permute_par_interleaved permute_par_tasks permute_par_steps permute_num_batches serial_permute
  merkle_par_plan merkle_serial_steps merkle_serial merkle_par merkle_par_interleaved merkle_nodes_dispatch merkle_init
  t_writes t_reads t_run independentb pairwiseb compose exec reorder merge_by all_empty
  Z.of_nat toy_hash toy_merge to_le_bytes
  transpose_plan transpose_plan_unbounded plan_cells transpose_spec get_num_batches fragment_plan.
