(* Extraction of the C07 models (generated field arithmetic) for the correspondence driver.
   Directives: ExtrOcamlBasic only. *)
From Coq Require Extraction ExtrOcamlBasic.
From VBase Require Import MachInt.
From VGen Require Import F64 F62 F128.
From VModel Require Import FieldBytes.
Extraction Language OCaml.
Separate Extraction
  f64_new f64_as_int f64_add f64_sub f64_mul f64_neg f64_double f64_mul_small f64_exp f64_inv f64_div
  f64_exp7 f64_eq f64_try_from_u64 f64_try_from_u128 f64_try_from_bytes
  f64_add_ok f64_double_ok f64_mul_small_ok f64_mul_ok f64_new_ok f64_exp_vartime
  f62_new f62_as_int f62_add f62_sub f62_mul f62_neg f62_double f62_exp f62_inv f62_div f62_eq
  f62_try_from_u64 f62_try_from_u128 f62_add_ok f62_sub_ok f62_mul_ok f62_neg_ok f62_double_ok f62_new_ok f62_as_int_ok
  f128_new f128_as_int f128_add f128_sub f128_mul f128_neg f128_exp f128_inv f128_div f128_try_from_u128
  f128_add_ok f128_sub_ok f128_mul_ok f128_neg_ok
  f62_exp_vartime f64_get_root_of_unity f64_get_root_of_unity_ok f62_get_root_of_unity f62_get_root_of_unity_ok
  f128_get_root_of_unity f128_get_root_of_unity_ok
  f64_from_bytes_with_padding f62_from_bytes_with_padding f128_from_bytes_with_padding.
