(* Extraction of the C07 models (generated field arithmetic) for the correspondence driver.
   Directives: ExtrOcamlBasic only. *)
From Coq Require Extraction ExtrOcamlBasic.
From VBase Require Import MachInt.
From VGen Require Import F64 F62 F128.
From VModel Require Import FieldBytes.
Extraction Language OCaml.
Separate Extraction
  f64_new f64_as_int f64_add f64_sub f64_mul f64_neg f64_double f64_mul_small f64_exp f64_inv f64_div
  f64_exp7 f64_eq f64_try_from_u64 f64_try_from_u128 f64_try_from_bytes
  f64_add_ok f64_double_ok f64_mul_small_ok f64_mul_ok f64_new_ok f64_exp_vartime
  f62_new f62_as_int f62_add f62_sub f62_mul f62_neg f62_double f62_exp f62_inv f62_div f62_eq
  f62_try_from_u64 f62_try_from_u128 f62_add_ok f62_sub_ok f62_mul_ok f62_neg_ok f62_double_ok f62_new_ok f62_as_int_ok
  f128_new f128_as_int f128_add f128_sub f128_mul f128_neg f128_exp f128_inv f128_div f128_try_from_u128
  f128_add_ok f128_sub_ok f128_mul_ok f128_neg_ok
  f62_exp_vartime f64_get_root_of_unity f64_get_root_of_unity_ok f62_get_root_of_unity f62_get_root_of_unity_ok
  f128_get_root_of_unity f128_get_root_of_unity_ok
  f64_from_bytes_with_padding f62_from_bytes_with_padding f128_from_bytes_with_padding
  f64_from_bool f64_from_u8 f64_from_u16 f64_from_u32 f64_from_u8_ok f64_from_u16_ok f64_from_u32_ok f64_from_bool_ok
  f64_try_from_usize f64_to_bool f64_to_u8 f64_to_u16 f64_to_u32 f64_to_u64 f64_to_u128 f64_sf_as_int f64_conjugate
  f64_add_assign f64_sub_assign f64_mul_assign f64_div_assign f64_base_element
  f62_from_u8 f62_from_u16 f62_from_u32 f62_from_u8_ok f62_from_u16_ok f62_from_u32_ok f62_to_u64 f62_to_u128 f62_to_u64_ok f62_to_u128_ok
  f62_try_from_bytes f62_conjugate f62_add_assign f62_sub_assign f62_mul_assign f62_div_assign f62_base_element
  f128_from_u8 f128_from_u16 f128_from_u32 f128_from_u64 f128_conjugate
  f128_add_assign f128_sub_assign f128_mul_assign f128_div_assign f128_base_element
  f64_try_from_slice f62_try_from_slice f128_try_from_slice
  f64_as_bytes f62_as_bytes f128_as_bytes f64_elements_as_bytes f62_elements_as_bytes f128_elements_as_bytes
  f64_bytes_as_elements f62_bytes_as_elements f128_bytes_as_elements.
