(* Extraction of the C07 models (generated field arithmetic) for the correspondence driver.
   Directives: ExtrOcamlBasic only. *)
From Coq Require Extraction ExtrOcamlBasic.
From VBase Require Import MachInt.
From VGen Require Import F64.
Extraction Language OCaml.
Separate Extraction
  f64_new f64_as_int f64_add f64_sub f64_mul f64_neg f64_double f64_mul_small f64_exp f64_inv f64_div
  f64_exp7 f64_eq f64_try_from_u64 f64_try_from_u128 f64_try_from_bytes
  f64_add_ok f64_double_ok f64_mul_small_ok f64_mul_ok f64_new_ok.
