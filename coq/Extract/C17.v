(* Extraction of the C17 model (constraint composition pipeline over an FOps record) for the correspondence
   driver; instantiated by the driver at zp_ops P64.  Directives: ExtrOcamlBasic only (Z / N / nat stay inductive). *)
From Coq Require Extraction ExtrOcamlBasic.
From VBase Require Import FieldOps ZpOps.
From VModel Require Import Composition CompositionLagrange.
From VModel Require Enforce EnforceLagrange.
Extraction Language OCaml.
Separate Extraction
  zp_ops P64 zpow_mod
  evaluate composition_poly_new interpolate_with_offset cp_evaluate_at recombine
  bg_evaluate_at combine_evaluations div_from_transition
  fam_tmain fam_taux
  lagrange_evaluate EnforceLagrange.mkLTC Enforce.mkD.
