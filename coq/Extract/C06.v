(* Extraction of the C06 model (stage 1: Codec.read_Proof; stage 2: typed parsers; stage 3: verifier control flow on
   shapes; allocation accounting) for the correspondence driver.  Directives: ExtrOcamlBasic only. *)
From Coq Require Extraction ExtrOcamlBasic.
From VBase Require Import MachInt.
From VModel Require Import Codec Untrusted.
Extraction Language OCaml.
Separate Extraction
  parse verify channel_new perform_verification parse_and_verify
  Commitments_parse Queries_parse OodFrame_parse Fri_num_partitions Fri_parse_remainder Fri_parse_layers
  draw_integers_shape num_fri_layers parse_alloc parse_alloc_result alloc_bound parse_all parse_prefix
  read_Commitments read_Queries read_OodFrame read_FriProof read_ProofOptions read_Proof
  F64P F128P F62P mkAP.
