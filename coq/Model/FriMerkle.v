(* C15 / C05 — the Merkle externals of the FRI model (Model/Fri.v Section variables mt_new, mt_root,
   mt_prove_batch, mt_verify_batch) instantiated with the Merkle model of C10 (Model/Merkle.v), for an arbitrary
   digest type, default digest and merge function.  Positions are `nat` in the FRI model and `Z` (usize) in the
   Merkle model.  NO proofs (Proofs/FriMerkleInst.v). *)
From Coq Require Import List ZArith.
From VModel Require Import Merkle Fri.
Import ListNotations.

Section CM.
Variable D : Type.
Variable D_eqb : D -> D -> bool.
Variable d0 : D.
Variable merge : D -> D -> D.

(* MerkleTree::new(leaves) -> Err(..) makes the prover's `expect` panic: None *)
Definition cm_new (leaves : list D) : option (mtree D) :=
  match Merkle.mt_new D d0 merge leaves with Merkle.Ok t => Some t | _ => None end.
Definition cm_root (t : mtree D) : D :=
  match Merkle.mt_root D t with Merkle.Ok r => r | _ => d0 end.
(* tree.prove_batch(positions); FriProofLayer::new keeps the nodes only (the leaves are recomputed from the values) *)
Definition cm_prove_batch (t : mtree D) (positions : list nat) : option (list (list D)) :=
  match Merkle.mt_prove_batch D d0 t (map Z.of_nat positions) with
  | Merkle.Ok p => Some (bp_nodes p)
  | _ => None
  end.
Definition cm_proof (leaves : list D) (nodes : list (list D)) (depth : nat) : bproof D :=
  {| bp_leaves := leaves; bp_nodes := nodes; bp_depth := Z.of_nat depth |}.
(* MerkleTree::verify_batch(commitment, positions, &proof) *)
Definition cm_verify_batch (root : D) (indexes : list nat) (leaves : list D) (nodes : list (list D)) (depth : nat)
  : auth_res :=
  match Merkle.verify_batch D D_eqb merge root (map Z.of_nat indexes) (cm_proof leaves nodes depth) with
  | Merkle.Ok _ => AuthOk
  | Merkle.Err _ => AuthErr
  | Merkle.Panic => AuthPanic
  end.
End CM.
