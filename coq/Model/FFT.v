(* C09 — executable model of math/src/fft/{mod.rs,serial.rs,fft_inputs.rs} (serial versions) and of the
   index mapping of prover/src/matrix/{row_matrix.rs,segments.rs,col_matrix.rs}, generic over `FOps F`.
   NO proofs here.

   Conventions
   * Slices are lists; `vget v i` = `v[i]`, `lupd v i x` = `v[i] = x`.  Index-level and in the order of the
     Rust statements (a re-read after a write is a re-read of the updated list).
   * `for x in a..a+n` = `fold_left body (seq a n)`.  The recursion of `fft_in_place` runs on explicit fuel
     (callers pass `length values`, the depth is log2 of it); exhausted fuel leaves the values untouched.
   * Every `assert!` of the public functions is an explicit `None` (= panic).  Inside `fft_in_place`/`permute`
     the slice accesses are total (`nth` with default `fzero`, `lupd` out of range = no-op): under the
     asserts of the public entry points every index is in range (the correspondence runs the real code under
     `catch`, a panic there would be reported as a disagreement).
   * `E = B` (base field); `mul_base(x, t) = x * t`.  For rows `[[B; N]]` the same functions are instantiated
     at the operations record `rows_ops N` (pointwise operations on lists of length N) — this is the
     `FftInputs` impl for `[[E; N]]`.
   * `usize` is 64 bits; lengths are `nat` (no overflow below 2^32 elements; `evaluations.len() as u32`
     truncation is out of reach).
   * The second half of the file holds the SPEC-level executable definitions (`peval`, `fft_rec`, `spec_*`)
     which are extracted and run against the crate as well. *)
From Coq Require Import List Arith Bool ZArith NArith.
From VBase Require Import FieldOps.
Import ListNotations.

Fixpoint lupd {A} (l : list A) (i : nat) (v : A) : list A :=
  match l, i with
  | [], _ => []
  | _ :: t, O => v :: t
  | h :: t, S i' => h :: lupd t i' v
  end.

Fixpoint map2 {A B C} (f : A -> B -> C) (l1 : list A) (l2 : list B) : list C :=
  match l1, l2 with
  | a :: t1, b :: t2 => f a b :: map2 f t1 t2
  | _, _ => []
  end.

(* even-indexed / odd-indexed elements *)
Fixpoint split_eo {A} (l : list A) : list A * list A :=
  match l with
  | [] => ([], [])
  | x :: t => let '(e, o) := split_eo t in (x :: o, e)
  end.

(* bit reversal of the `bits` low bits *)
Fixpoint rev_bits (bits i : nat) : nat :=
  match bits with
  | 0 => 0
  | S b => 2 ^ b * (i mod 2) + rev_bits b (i / 2)
  end.

Definition is_pow2 (n : nat) : bool := (0 <? n) && (2 ^ Nat.log2 n =? n).

(* fft::permute_index(size, index) for index < size = 2^bits, on nat *)
Definition permute_index (size index : nat) : nat := rev_bits (Nat.log2 size) index.

(* fft::permute_index on 64-bit words: index.reverse_bits().wrapping_shr(64 - size.trailing_zeros());
   debug_assert!(index < size); debug_assert!(size.is_power_of_two()) *)
Fixpoint rev_bits_N (w : nat) (x acc : N) : N :=
  match w with
  | 0 => acc
  | S w' => rev_bits_N w' (N.div2 x) (N.double acc + N.b2n (N.odd x))%N
  end.
Fixpoint ctz_pos (p : positive) : N :=
  match p with xO q => N.succ (ctz_pos q) | _ => 0%N end.
Definition trailing_zeros64 (x : N) : N := match x with N0 => 64%N | Npos p => ctz_pos p end.
Definition is_pow2_N (x : N) : bool :=
  match x with N0 => false | Npos p => N.eqb (N.shiftl 1 (ctz_pos p)) x end.
Definition permute_index_u64 (size index : N) : option N :=
  if negb (N.ltb index size) then None
  else if negb (is_pow2_N size) then None
  else let bits := trailing_zeros64 size in
       Some (N.shiftr (rev_bits_N 64 index 0) ((64 - bits) mod 64))%N.

Definition MAX_LOOP : nat := 256.

Section FFT.
Context {F : Type} (O : FOps F).
Local Notation fz := (fzero O).
Local Infix "+f" := (fadd O) (at level 50, left associativity).
Local Infix "-f" := (fsub O) (at level 50, left associativity).
Local Infix "*f" := (fmul O) (at level 40, left associativity).

Definition vget (v : list F) (i : nat) : F := nth i v fz.

(* ---------------------------------------------------------------- FftInputs for [E] *)
Definition butterfly (v : list F) (offset stride : nat) : list F :=
  let i := offset in
  let j := offset + stride in
  let temp := vget v i in
  let v1 := lupd v i (temp +f vget v j) in
  lupd v1 j (temp -f vget v1 j).

Definition butterfly_twiddle (v : list F) (twiddle : F) (offset stride : nat) : list F :=
  let i := offset in
  let j := offset + stride in
  let temp := vget v i in
  let v1 := lupd v j (vget v j *f twiddle) in
  let v2 := lupd v1 i (temp +f vget v1 j) in
  lupd v2 j (temp -f vget v2 j).

Definition swap (v : list F) (i j : nat) : list F :=
  let a := vget v i in
  let b := vget v j in
  lupd (lupd v i b) j a.

(* shift_by_series(offset, increment): d *= offset; offset *= increment.
   Also the coefficient scaling loop of evaluate_poly_with_offset (`*d = c.mul_base(factor); factor *= offset`). *)
Fixpoint shift_by_series (v : list F) (offset increment : F) : list F :=
  match v with
  | [] => []
  | d :: t => (d *f offset) :: shift_by_series t (offset *f increment) increment
  end.

Definition shift_by (v : list F) (offset : F) : list F := map (fun d => d *f offset) v.

(* FftInputs::permute *)
Definition permute (v : list F) : list F :=
  let n := length v in
  fold_left (fun v i => let j := permute_index n i in if i <? j then swap v i j else v) (seq 0 n) v.

(* ---------------------------------------------------------------- core algorithm (fft_inputs.rs fft_in_place) *)
Fixpoint fft_in_place (fuel : nat) (values twiddles : list F) (count stride offset : nat) : list F :=
  let size := length values / stride in
  (* Keep recursing until size is 2 *)
  let values1 :=
    if 2 <? size then
      match fuel with
      | 0 => values
      | S fuel' =>
        if (stride =? count) && (count <? MAX_LOOP) then
          fft_in_place fuel' values twiddles (2 * count) (2 * stride) offset
        else
          let v := fft_in_place fuel' values twiddles count (2 * stride) offset in
          fft_in_place fuel' v twiddles count (2 * stride) (offset + stride)
      end
    else values in
  (* butterflies without twiddles: for offset in offset..offset+count *)
  let values2 := fold_left (fun v o => butterfly v o stride) (seq offset count) values1 in
  (* (offset..last_offset).step_by(2*stride).enumerate().skip(1): i = 1 .. ceil(size/2)-1 *)
  fold_left
    (fun v i =>
       fold_left (fun v j => butterfly_twiddle v (vget twiddles i) j stride)
                 (seq (offset + i * (2 * stride)) count) v)
    (seq 1 ((size + 1) / 2 - 1)) values2.

(* FftInputs::fft_in_place *)
Definition fft_in_place_top (values twiddles : list F) : list F :=
  fft_in_place (length values) values twiddles 1 1 0.

(* ---------------------------------------------------------------- powers *)
Fixpoint fpow_pos (x : F) (e : positive) : F :=
  match e with
  | xH => x
  | xO e' => let r := fpow_pos x e' in r *f r
  | xI e' => let r := fpow_pos x e' in (r *f r) *f x
  end.
Definition fpow_N (x : F) (e : N) : F := match e with N0 => fone O | Npos p => fpow_pos x p end.

(* utils::get_power_series(b, n) (serial: one batch, start = b^0) *)
Fixpoint power_series_from (start b : F) (n : nat) : list F :=
  match n with
  | 0 => []
  | S n' => start :: power_series_from (start *f b) b n'
  end.
Definition get_power_series (b : F) (n : nat) : list F := power_series_from (fone O) b n.

(* ---------------------------------------------------------------- public functions of fft/mod.rs *)
Variable two_adicity : nat.
Variable root_of_unity : nat -> F.      (* B::get_root_of_unity(k), k >= 1 *)

Definition get_twiddles (domain_size : nat) : option (list F) :=
  if negb (is_pow2 domain_size) then None
  else if two_adicity <? Nat.log2 domain_size then None
  else if Nat.log2 domain_size =? 0 then None                  (* get_root_of_unity(0) asserts *)
  else Some (permute (get_power_series (root_of_unity (Nat.log2 domain_size)) (domain_size / 2))).

Definition get_inv_twiddles (domain_size : nat) : option (list F) :=
  if negb (is_pow2 domain_size) then None
  else if two_adicity <? Nat.log2 domain_size then None
  else if Nat.log2 domain_size =? 0 then None
  else let root := root_of_unity (Nat.log2 domain_size) in
       let inv_root := fpow_N root (N.of_nat (domain_size - 1)) in
       Some (permute (get_power_series inv_root (domain_size / 2))).

Definition evaluate_poly (p twiddles : list F) : option (list F) :=
  if negb (is_pow2 (length p)) then None
  else if negb (length p =? length twiddles * 2) then None
  else if two_adicity <? Nat.log2 (length p) then None
  else Some (permute (fft_in_place_top p twiddles)).

Definition evaluate_poly_with_offset (p twiddles : list F) (domain_offset : F) (blowup_factor : nat)
  : option (list F) :=
  if negb (is_pow2 (length p)) then None
  else if negb (is_pow2 blowup_factor) then None
  else if negb (length p =? length twiddles * 2) then None
  else if two_adicity <? Nat.log2 (length p * blowup_factor) then None
  else if feqb O domain_offset fz then None
  else
    let domain_size := length p * blowup_factor in
    let g := root_of_unity (Nat.log2 domain_size) in
    (* result.chunks_mut(p.len()).enumerate() *)
    let chunks :=
      map (fun i =>
             let idx := permute_index blowup_factor i in
             let offset := fpow_N g (N.of_nat idx) *f domain_offset in
             fft_in_place_top (shift_by_series p (fone O) offset) twiddles)
          (seq 0 blowup_factor) in
    Some (permute (concat chunks)).

Definition interpolate_poly (evaluations inv_twiddles : list F) : option (list F) :=
  if negb (is_pow2 (length evaluations)) then None
  else if negb (length evaluations =? length inv_twiddles * 2) then None
  else if two_adicity <? Nat.log2 (length evaluations) then None
  else
    let inv_length := finv O (fofz O (Z.of_nat (length evaluations))) in
    Some (permute (shift_by (fft_in_place_top evaluations inv_twiddles) inv_length)).

Definition interpolate_poly_with_offset (evaluations inv_twiddles : list F) (domain_offset : F)
  : option (list F) :=
  if negb (is_pow2 (length evaluations)) then None
  else if negb (length evaluations =? length inv_twiddles * 2) then None
  else if two_adicity <? Nat.log2 (length evaluations) then None
  else if feqb O domain_offset fz then None
  else
    let v := permute (fft_in_place_top evaluations inv_twiddles) in
    let domain_offset' := finv O domain_offset in
    let offset := finv O (fofz O (Z.of_nat (length evaluations))) in
    Some (shift_by_series v offset domain_offset').

(* polynom::degree_of *)
Fixpoint last_nonzero_from (l : list F) (i : nat) : option nat :=
  match l with
  | [] => None
  | c :: t => match last_nonzero_from t (S i) with
              | Some d => Some d
              | None => if feqb O c fz then None else Some i
              end
  end.
Definition degree_of (l : list F) : nat :=
  match last_nonzero_from l 0 with Some d => d | None => 0 end.

Definition infer_degree (evaluations : list F) (domain_offset : F) : option nat :=
  if negb (is_pow2 (length evaluations)) then None
  else if two_adicity <? Nat.log2 (length evaluations) then None
  else if feqb O domain_offset fz then None
  else match get_inv_twiddles (length evaluations) with
       | None => None
       | Some inv_twiddles =>
         match interpolate_poly_with_offset evaluations inv_twiddles domain_offset with
         | None => None
         | Some poly => Some (degree_of poly)
         end
       end.

(* ---------------------------------------------------------------- prover/src/matrix: ColMatrix (base columns) *)
Fixpoint sequence {A} (l : list (option A)) : option (list A) :=
  match l with
  | [] => Some []
  | None :: _ => None
  | Some x :: t => match sequence t with Some r => Some (x :: r) | None => None end
  end.

Definition colmatrix_ok (columns : list (list F)) : bool :=
  match columns with
  | [] => false
  | c0 :: rest =>
    (1 <? length c0) && is_pow2 (length c0) && forallb (fun c => length c =? length c0) rest
  end.

(* ColMatrix::new(cols).evaluate_columns_over(&StarkDomain{trace_twiddles, blowup, offset}) *)
Definition evaluate_columns_over (columns : list (list F)) (trace_twiddles : list F) (domain_offset : F)
           (blowup : nat) : option (list (list F)) :=
  if negb (colmatrix_ok columns) then None
  else sequence (map (fun poly => evaluate_poly_with_offset poly trace_twiddles domain_offset blowup) columns).

Definition interpolate_columns (columns : list (list F)) : option (list (list F)) :=
  if negb (colmatrix_ok columns) then None
  else match get_inv_twiddles (length (hd [] columns)) with
       | None => None
       | Some inv_twiddles => sequence (map (fun ev => interpolate_poly ev inv_twiddles) columns)
       end.

(* row_matrix.rs get_evaluation_offsets *)
Definition get_evaluation_offsets (poly_size blowup_factor : nat) (domain_offset : F) : list F :=
  let domain_size := poly_size * blowup_factor in
  let g := root_of_unity (Nat.log2 domain_size) in
  concat (map (fun chunk_idx =>
                 let idx := permute_index blowup_factor chunk_idx in
                 let offset := fpow_N g (N.of_nat idx) *f domain_offset in
                 power_series_from (fone O) offset poly_size)
              (seq 0 blowup_factor)).

End FFT.

(* ---------------------------------------------------------------- FftInputs for [[E; N]]: rows as lists of length N *)
Definition rows_ops {F} (O : FOps F) (N : nat) : FOps (list F) := {|
  fzero := repeat (fzero O) N; fone := repeat (fone O) N;
  fadd := map2 (fadd O); fsub := map2 (fsub O); fmul := map2 (fmul O);
  fneg := map (fneg O); fdouble := map (fdouble O); fsquare := map (fsquare O);
  finv := map (finv O); fdiv := map2 (fdiv O);
  feqb := fun a b => forallb (fun x => x) (map2 (feqb O) a b);
  fofz := fun z => repeat (fofz O z) N
|}.

Section Segments.
Context {F : Type} (O : FOps F).
Variable root_of_unity : nat -> F.

Fixpoint chunks {A} (fuel : nat) (size : nat) (l : list A) : list (list A) :=
  match fuel with
  | 0 => []
  | S f => match l with
           | [] => []
           | _ => firstn size l :: chunks f size (skipn size l)
           end
  end.

(* Segment::new(polys, poly_offset, offsets, twiddles) for segment width N; `polys` = base columns
   (for an extension field the columns are the base-element columns `get_base_element`). *)
Definition segment_new (N : nat) (polys : list (list F)) (poly_offset : nat) (offsets twiddles : list F)
  : option (list (list F)) :=
  let poly_size := length (hd [] polys) in
  let domain_size := length offsets in
  let num_base_cols := length polys in
  if negb (is_pow2 domain_size) then None
  else if negb (poly_size <? domain_size) then None
  else if negb (poly_size =? length twiddles * 2) then None
  else if negb (poly_offset <? num_base_cols) then None
  else
    let num_polys_remaining := num_base_cols - poly_offset in
    let num_polys := if num_polys_remaining <? N then num_polys_remaining else N in
    let OR := rows_ops O N in
    let row_twiddles := map (fun t => repeat t N) twiddles in     (* E::from(twiddle) on every column *)
    let fft_chunk (o_chunk : list F) : list (list F) :=
      (* copy_polys / copy_polys_partial: dest[row][i] = polys[poly_offset+i][row] * offsets[row];
         the remaining N - num_polys entries stay ZERO (buffer initialised with zeros) *)
      let d_chunk :=
        map (fun row_idx =>
               map (fun i => fmul O (nth row_idx (nth (poly_offset + i) polys []) (fzero O))
                                    (nth row_idx o_chunk (fzero O)))
                   (seq 0 num_polys) ++ repeat (fzero O) (N - num_polys))
            (seq 0 poly_size) in
      fft_in_place_top OR d_chunk row_twiddles in
    let data := concat (map fft_chunk (chunks domain_size poly_size offsets)) in
    Some (permute OR data).

(* build_segments *)
Definition build_segments (N : nat) (polys : list (list F)) (twiddles offsets : list F)
  : option (list (list (list F))) :=
  if N =? 0 then None
  else
    let nb := length polys in
    let num_segments := if nb mod N =? 0 then nb / N else nb / N + 1 in
    sequence (map (fun i => segment_new N polys (i * N) offsets twiddles) (seq 0 num_segments)).

(* transpose: result[i * num_segs + j] = segments[j][i] *)
Definition transpose (N : nat) (segments : list (list (list F))) : list (list F) :=
  let num_rows := length (hd [] segments) in
  let num_segs := length segments in
  if num_segs =? 1 then hd [] segments
  else concat (map (fun i => map (fun seg => nth i seg (repeat (fzero O) N)) segments) (seq 0 num_rows)).

Record RowMatrix := { rm_data : list F; rm_row_width : nat; rm_elements_per_row : nat }.

(* RowMatrix::from_segments *)
Definition from_segments (N : nat) (segments : list (list (list F))) (elements_per_row : nat) : option RowMatrix :=
  if N =? 0 then None
  else if length segments =? 0 then None
  else let row_width := length segments * N in
       if row_width <? elements_per_row then None
       else Some {| rm_data := concat (transpose N segments); rm_row_width := row_width;
                    rm_elements_per_row := elements_per_row |}.

(* RowMatrix::evaluate_polys_over::<N>(polys, domain) with domain = (trace_twiddles, blowup, offset) *)
Definition evaluate_polys_over (N : nat) (polys : list (list F)) (trace_twiddles : list F)
           (domain_offset : F) (blowup : nat) : option RowMatrix :=
  if N =? 0 then None
  else if negb (colmatrix_ok polys) then None
  else
    let poly_size := length (hd [] polys) in
    let offsets := get_evaluation_offsets O root_of_unity poly_size blowup domain_offset in
    match build_segments N polys trace_twiddles offsets with
    | None => None
    | Some segments => from_segments N segments (length polys)
    end.

Definition rm_num_rows (m : RowMatrix) : nat := length (rm_data m) / rm_row_width m.
(* RowMatrix::get(col_idx, row_idx) = row(row_idx)[col_idx] *)
Definition rm_get (m : RowMatrix) (col_idx row_idx : nat) : option F :=
  if negb (row_idx <? rm_num_rows m) then None
  else if negb (col_idx <? rm_elements_per_row m) then None
  else Some (nth (row_idx * rm_row_width m + col_idx) (rm_data m) (fzero O)).

End Segments.

(* ================================================================ SPEC level (executable) *)
Section Spec.
Context {F : Type} (O : FOps F).
Local Notation fz := (fzero O).
Local Infix "+f" := (fadd O) (at level 50, left associativity).
Local Infix "-f" := (fsub O) (at level 50, left associativity).
Local Infix "*f" := (fmul O) (at level 40, left associativity).

(* direct evaluation (Horner) *)
Fixpoint peval (p : list F) (x : F) : F :=
  match p with
  | [] => fz
  | c :: t => c +f x *f peval t x
  end.

Fixpoint fpow (x : F) (n : nat) : F :=
  match n with 0 => fone O | S n' => x *f fpow x n' end.

(* the DFT by direct evaluation at 1, w, w^2, ... *)
Definition dft (n : nat) (w : F) (p : list F) : list F := map (fun i => peval p (fpow w i)) (seq 0 n).

(* clean recursive radix-2 decimation-in-time FFT on lists, natural output order; length l = 2^k *)
Fixpoint fft_rec (k : nat) (w : F) (l : list F) : list F :=
  match k with
  | 0 => l
  | S k' =>
    let '(e, o) := split_eo l in
    let E := fft_rec k' (w *f w) e in
    let Od := fft_rec k' (w *f w) o in
    let T := map2 (fmul O) (get_power_series O w (2 ^ k')) Od in
    map2 (fadd O) E T ++ map2 (fsub O) E T
  end.

(* evaluation over the coset offset * <g> of size n * blowup: DFT of the scaled, zero-padded coefficients *)
Definition spec_eval_offset (K : nat) (g : F) (p : list F) (offset : F) : list F :=
  fft_rec K g (shift_by_series O p (fone O) offset ++ repeat fz (2 ^ K - length p)).

(* interpolation: inverse DFT, then unscale *)
Definition spec_interpolate (k : nat) (w_inv : F) (n_inv : F) (v : list F) : list F :=
  map (fun c => c *f n_inv) (fft_rec k w_inv v).
Definition spec_interpolate_offset (k : nat) (w_inv n_inv offset_inv : F) (v : list F) : list F :=
  shift_by_series O (fft_rec k w_inv v) n_inv offset_inv.

End Spec.

(* ================================================================ CHECKED variant: every slice access explicit
   `None` = panic.  Every `values[i]`, `twiddles[i]`, `swap(i, j)`, the division `values.len() / stride` and (when
   `dbg` = debug profile) the debug_asserts of fft_in_place / permute_index are guards: an operation that reads or
   writes the indices i, j is `None` unless both are in range (the slice is never observed after a panic, so the
   order of the accesses inside one butterfly does not matter).  Proofs/FFTNoPanic.v: under the asserts of the
   entry points no guard fails (C09_fft_in_place_no_panic) and the checked entry points EQUAL the entry points
   above on ALL inputs, which therefore have exactly the stated panic domain. *)
Section Checked.
Context {F : Type} (O : FOps F).
Variable dbg : bool.                       (* debug profile: debug_assert! is active *)

Definition obind {A B} (o : option A) (f : A -> option B) : option B :=
  match o with Some a => f a | None => None end.

(* for x in l { s = body(s, x)? } *)
Fixpoint fold_c {A B} (f : A -> B -> option A) (l : list B) (a : A) : option A :=
  match l with
  | [] => Some a
  | b :: t => match f a b with Some a' => fold_c f t a' | None => None end
  end.

Definition butterfly_c (v : list F) (offset stride : nat) : option (list F) :=
  if (offset <? length v) && (offset + stride <? length v) then Some (butterfly O v offset stride) else None.

Definition butterfly_twiddle_c (v : list F) (twiddle : F) (offset stride : nat) : option (list F) :=
  if (offset <? length v) && (offset + stride <? length v) then Some (butterfly_twiddle O v twiddle offset stride)
  else None.

Definition swap_c (v : list F) (i j : nat) : option (list F) :=
  if (i <? length v) && (j <? length v) then Some (swap O v i j) else None.

(* permute_index with its debug_asserts *)
Definition permute_index_c (size index : nat) : option nat :=
  if dbg && negb ((index <? size) && is_pow2 size) then None else Some (permute_index size index).

Definition permute_c (v : list F) : option (list F) :=
  let n := length v in
  fold_c (fun v i => match permute_index_c n i with
                     | None => None
                     | Some j => if i <? j then swap_c v i j else Some v
                     end) (seq 0 n) v.

Fixpoint fft_in_place_c (fuel : nat) (values twiddles : list F) (count stride offset : nat) : option (list F) :=
  if stride =? 0 then None                                   (* values.len() / stride *)
  else
    let size := length values / stride in
    if dbg && negb (is_pow2 size && (offset <? stride) && (length values mod size =? 0)) then None
    else
      let values1 :=
        if 2 <? size then
          match fuel with
          | 0 => None
          | S fuel' =>
            if (stride =? count) && (count <? MAX_LOOP) then
              fft_in_place_c fuel' values twiddles (2 * count) (2 * stride) offset
            else
              obind (fft_in_place_c fuel' values twiddles count (2 * stride) offset)
                    (fun v => fft_in_place_c fuel' v twiddles count (2 * stride) (offset + stride))
          end
        else Some values in
      obind values1 (fun v1 =>
      obind (fold_c (fun v o => butterfly_c v o stride) (seq offset count) v1) (fun v2 =>
      fold_c
        (fun v i =>
           fold_c (fun v j => match nth_error twiddles i with          (* twiddles[i] *)
                              | Some t => butterfly_twiddle_c v t j stride
                              | None => None
                              end)
                  (seq (offset + i * (2 * stride)) count) v)
        (seq 1 ((size + 1) / 2 - 1)) v2)).

Definition fft_in_place_top_c (values twiddles : list F) : option (list F) :=
  fft_in_place_c (length values) values twiddles 1 1 0.

Variable two_adicity : nat.
Variable root_of_unity : nat -> F.

Definition get_twiddles_c (domain_size : nat) : option (list F) :=
  if negb (is_pow2 domain_size) then None
  else if two_adicity <? Nat.log2 domain_size then None
  else if Nat.log2 domain_size =? 0 then None
  else permute_c (get_power_series O (root_of_unity (Nat.log2 domain_size)) (domain_size / 2)).

Definition get_inv_twiddles_c (domain_size : nat) : option (list F) :=
  if negb (is_pow2 domain_size) then None
  else if two_adicity <? Nat.log2 domain_size then None
  else if Nat.log2 domain_size =? 0 then None
  else let root := root_of_unity (Nat.log2 domain_size) in
       let inv_root := fpow_N O root (N.of_nat (domain_size - 1)) in
       permute_c (get_power_series O inv_root (domain_size / 2)).

Definition evaluate_poly_c (p twiddles : list F) : option (list F) :=
  if negb (is_pow2 (length p)) then None
  else if negb (length p =? length twiddles * 2) then None
  else if two_adicity <? Nat.log2 (length p) then None
  else obind (fft_in_place_top_c p twiddles) permute_c.

Definition evaluate_poly_with_offset_c (p twiddles : list F) (domain_offset : F) (blowup_factor : nat)
  : option (list F) :=
  if negb (is_pow2 (length p)) then None
  else if negb (is_pow2 blowup_factor) then None
  else if negb (length p =? length twiddles * 2) then None
  else if two_adicity <? Nat.log2 (length p * blowup_factor) then None
  else if feqb O domain_offset (fzero O) then None
  else
    let domain_size := length p * blowup_factor in
    let g := root_of_unity (Nat.log2 domain_size) in
    obind (sequence
             (map (fun i =>
                     obind (permute_index_c blowup_factor i) (fun idx =>
                     let offset := fmul O (fpow_N O g (N.of_nat idx)) domain_offset in
                     fft_in_place_top_c (shift_by_series O p (fone O) offset) twiddles))
                  (seq 0 blowup_factor)))
          (fun chunks => permute_c (concat chunks)).

Definition interpolate_poly_c (evaluations inv_twiddles : list F) : option (list F) :=
  if negb (is_pow2 (length evaluations)) then None
  else if negb (length evaluations =? length inv_twiddles * 2) then None
  else if two_adicity <? Nat.log2 (length evaluations) then None
  else
    let inv_length := finv O (fofz O (Z.of_nat (length evaluations))) in
    obind (fft_in_place_top_c evaluations inv_twiddles) (fun v => permute_c (shift_by O v inv_length)).

Definition interpolate_poly_with_offset_c (evaluations inv_twiddles : list F) (domain_offset : F)
  : option (list F) :=
  if negb (is_pow2 (length evaluations)) then None
  else if negb (length evaluations =? length inv_twiddles * 2) then None
  else if two_adicity <? Nat.log2 (length evaluations) then None
  else if feqb O domain_offset (fzero O) then None
  else
    obind (fft_in_place_top_c evaluations inv_twiddles) (fun v0 =>
    obind (permute_c v0) (fun v =>
    let domain_offset' := finv O domain_offset in
    let offset := finv O (fofz O (Z.of_nat (length evaluations))) in
    Some (shift_by_series O v offset domain_offset'))).

Definition infer_degree_c (evaluations : list F) (domain_offset : F) : option nat :=
  if negb (is_pow2 (length evaluations)) then None
  else if two_adicity <? Nat.log2 (length evaluations) then None
  else if feqb O domain_offset (fzero O) then None
  else obind (get_inv_twiddles_c (length evaluations)) (fun inv_twiddles =>
       obind (interpolate_poly_with_offset_c evaluations inv_twiddles domain_offset) (fun poly =>
       Some (degree_of O poly))).

End Checked.
