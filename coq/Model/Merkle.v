(* C10 — executable model of /repo/crypto/src/merkle/{mod.rs,proofs.rs} (repaired tree, see
   /verif/fixes/c10-merkle-opening-checks.diff).  No proofs here (Proofs/Merkle*.v).

   Conventions
   * usize values are Z; every checked usize operation of the debug profile whose operands are
     not bounded by a test a few lines above is an explicit [Panic] ([uadd], [idx], [upd]).
   * BTreeMap<usize,X> = association list kept sorted by key ([bt_insert] overwrites),
     BTreeSet<usize> = strictly sorted list ([bs_insert]).
   * Digest type [D], [merge] (= H::merge(&[a,b])), default digest [d0] and digest equality are
     Section variables; (de)serialisation of one digest too ([dsize], [ser], [deser]).
   * [get_root] and [into_paths] share the textually identical loops of the Rust code
     ([gfirst], [gscan]); [get_root] ignores the partial-tree map those loops maintain for
     [into_paths] (its insertions can neither fail nor influence control flow). *)
From Coq Require Import ZArith List Bool.
From VBase Require Import MachInt.
Import ListNotations.
Open Scope Z_scope.

Inductive merr : Type :=
| TooFewLeaves (expected actual : Z)
| NumberOfLeavesNotPowerOfTwo (n : Z)
| LeafIndexOutOfBounds (n i : Z)
| DuplicateLeafIndex
| TooFewLeafIndexes
| TooManyLeafIndexes (max n : Z)
| InvalidProof.

Inductive res (A : Type) : Type := Ok (a : A) | Err (e : merr) | Panic.
Arguments Ok {A} a.
Arguments Err {A} e.
Arguments Panic {A}.

Definition bind {A B : Type} (r : res A) (f : A -> res B) : res B :=
  match r with Ok a => f a | Err e => Err e | Panic => Panic end.

Notation "x <- r ;; k" := (bind r (fun x => k)) (at level 61, r at next level, right associativity).
Notation "' pat <- r ;; k" := (bind r (fun x => match x with pat => k end))
  (at level 61, pat pattern, r at next level, right associativity).

Definition usz : Z := 18446744073709551616.   (* 2^64 *)
Definition max_paths : Z := 255.

Definition zlen {A : Type} (l : list A) : Z := Z.of_nat (length l).

(* l[i] *)
Definition idx {A : Type} (l : list A) (i : Z) : res A :=
  if i <? 0 then Panic else match nth_error l (Z.to_nat i) with Some x => Ok x | None => Panic end.

Fixpoint upd_nat {A : Type} (l : list A) (n : nat) (x : A) : option (list A) :=
  match l, n with
  | [], _ => None
  | _ :: r, O => Some (x :: r)
  | a :: r, S n' => match upd_nat r n' x with Some r' => Some (a :: r') | None => None end
  end.

(* l[i] = x *)
Definition upd {A : Type} (l : list A) (i : Z) (x : A) : res (list A) :=
  if i <? 0 then Panic else match upd_nat l (Z.to_nat i) x with Some l' => Ok l' | None => Panic end.

(* checked usize addition *)
Definition uadd (a b : Z) : res Z := if a + b <? usz then Ok (a + b) else Panic.

(* ---------------------------------------------------------------- BTreeMap / BTreeSet *)
Definition bmap (X : Type) : Type := list (Z * X).

Fixpoint bt_insert {X : Type} (k : Z) (x : X) (m : bmap X) : bmap X :=
  match m with
  | [] => [(k, x)]
  | (k', x') :: r => if k <? k' then (k, x) :: m else if k =? k' then (k, x) :: r else (k', x') :: bt_insert k x r
  end.

Fixpoint bt_get {X : Type} (k : Z) (m : bmap X) : option X :=
  match m with
  | [] => None
  | (k', x') :: r => if k =? k' then Some x' else bt_get k r
  end.

Fixpoint bs_insert (k : Z) (s : list Z) : list Z :=
  match s with
  | [] => [k]
  | k' :: r => if k <? k' then k :: s else if k =? k' then s else k' :: bs_insert k r
  end.

Definition is_pow2 (x : Z) : bool := (0 <? x) && (x =? 2 ^ Z.log2 x).

(* ---------------------------------------------------------------- index helpers (mod.rs) *)

(* map_indexes (repaired: 2usize.checked_pow(depth) -> InvalidProof) *)
Fixpoint mi_loop (num_leaves : Z) (indexes : list Z) (i : Z) (map : bmap Z) : res (bmap Z) :=
  match indexes with
  | [] => Ok map
  | index :: rest =>
    let map' := bt_insert index i map in
    if num_leaves <=? index then Err (LeafIndexOutOfBounds num_leaves index)
    else mi_loop num_leaves rest (i + 1) map'
  end.

Definition map_indexes (indexes : list Z) (tree_depth : Z) : res (bmap Z) :=
  if 64 <=? tree_depth then Err InvalidProof else
  let num_leaves := 2 ^ tree_depth in
  map <- mi_loop num_leaves indexes 0 [] ;;
  if negb (zlen indexes =? zlen map) then Err DuplicateLeafIndex else Ok map.

Definition normalize_indexes (indexes : list Z) : list Z :=
  fold_left (fun set index => bs_insert (index - Z.land index 1) set) indexes [].

(* are_siblings: left & 1 == 0 && right - 1 == left   (right - 1 is a checked subtraction) *)
Definition are_siblings (left right : Z) : res bool :=
  if Z.land left 1 =? 0 then (if right <? 1 then Panic else Ok (right - 1 =? left)) else Ok false.

Section Merkle.
Variable D : Type.
Variable D_eqb : D -> D -> bool.
Variable d0 : D.
Variable merge : D -> D -> D.

Record mtree : Type := { mt_nodes : list D; mt_leaves : list D }.
Record bproof : Type := { bp_leaves : list D; bp_nodes : list (list D); bp_depth : Z }.

(* ---------------------------------------------------------------- build_merkle_nodes *)
Fixpoint pairs_merge (l : list D) : list D :=
  match l with a :: b :: r => merge a b :: pairs_merge r | _ => [] end.

(* the loop `for i in (1..n).rev() { nodes[i] = merge(nodes[2i], nodes[2i+1]) }`; [acc] is nodes[i+1..2n) *)
Fixpoint build_down (k : nat) (i : Z) (acc : list D) : list D :=
  match k with
  | O => acc
  | S k' => build_down k' (i - 1)
              (merge (nth (Z.to_nat (i - 1)) acc d0) (nth (Z.to_nat i) acc d0) :: acc)
  end.

Definition build_nodes (leaves : list D) : res (list D) :=
  let n := zlen leaves / 2 in
  if 2 * n <=? 0 then Panic (* nodes[0] = default on an empty vector *)
  else Ok (d0 :: build_down (Z.to_nat (n - 1)) (n - 1) (pairs_merge leaves)).

Definition mt_new (leaves : list D) : res mtree :=
  let len := zlen leaves in
  if len <? 2 then Err (TooFewLeaves 2 len) else
  if negb (is_pow2 len) then Err (NumberOfLeavesNotPowerOfTwo len) else
  nodes <- build_nodes leaves ;;
  Ok {| mt_nodes := nodes; mt_leaves := leaves |}.

Definition mt_root (t : mtree) : res D := idx (mt_nodes t) 1.

(* leaves.len().ilog2() *)
Definition mt_depth (t : mtree) : res Z :=
  if zlen (mt_leaves t) <=? 0 then Panic else Ok (Z.log2 (zlen (mt_leaves t))).

(* ---------------------------------------------------------------- prove / verify *)
Fixpoint prove_up (fuel : nat) (nodes : list D) (index : Z) : res (list D) :=
  if index <=? 1 then Ok [] else
  match fuel with
  | O => Panic (* unreachable: index < 2^64 *)
  | S f => x <- idx nodes (Z.lxor index 1) ;; r <- prove_up f nodes (Z.shiftr index 1) ;; Ok (x :: r)
  end.

Definition mt_prove (t : mtree) (index : Z) : res (list D) :=
  let n := zlen (mt_leaves t) in
  if n <=? index then Err (LeafIndexOutOfBounds n index) else
  a <- idx (mt_leaves t) index ;;
  b <- idx (mt_leaves t) (Z.lxor index 1) ;;
  s <- uadd index (zlen (mt_nodes t)) ;;
  r <- prove_up 64 (mt_nodes t) (Z.shiftr s 1) ;;
  Ok (a :: b :: r).

Fixpoint verify_fold (ps : list D) (index : Z) (v : D) : D :=
  match ps with
  | [] => v
  | p :: r => verify_fold r (Z.shiftr index 1) (if Z.land index 1 =? 0 then merge v p else merge p v)
  end.

(* MerkleTree::verify (repaired: length, depth and index-range guards) *)
Definition verify (root : D) (index : Z) (proof : list D) : res unit :=
  let len := zlen proof in
  if len <? 2 then Err InvalidProof else
  let depth := len - 1 in
  if 64 <=? depth then Err InvalidProof else
  let num_leaves := 2 ^ depth in
  if num_leaves <=? index then Err (LeafIndexOutOfBounds num_leaves index) else
  let r := Z.land index 1 in
  a <- idx proof r ;;
  b <- idx proof (1 - r) ;;
  s <- uadd index num_leaves ;;
  let v := verify_fold (skipn 2 proof) (Z.shiftr s 1) (merge a b) in
  if D_eqb v root then Ok tt else Err InvalidProof.

(* ---------------------------------------------------------------- prove_batch *)
Definition push_at (nodes : list (list D)) (i : Z) (x : D) : res (list (list D)) :=
  nd <- idx nodes i ;; upd nodes i (nd ++ [x]).

(* one element of `(index..index + 2).flat_map(..)` *)
Definition pb_leaf (t : mtree) (imap : bmap Z) (i : Z) (leaves : list D) : res (list D * list D) :=
  v <- idx (mt_leaves t) i ;;
  match bt_get i imap with
  | Some j => leaves' <- upd leaves j v ;; Ok (leaves', [])
  | None => Ok (leaves, [v])
  end.

Fixpoint pb_first (t : mtree) (imap : bmap Z) (n : Z) (norm : list Z) (leaves : list D)
  : res (list D * list (list D) * list Z) :=
  match norm with
  | [] => Ok (leaves, [], [])
  | index :: rest =>
    '(leaves1, m0) <- pb_leaf t imap index leaves ;;
    i1 <- uadd index 1 ;;
    '(leaves2, m1) <- pb_leaf t imap i1 leaves1 ;;
    s <- uadd index n ;;
    '(leavesF, nodes, next) <- pb_first t imap n rest leaves2 ;;
    Ok (leavesF, (m0 ++ m1) :: nodes, Z.shiftr s 1 :: next)
  end.

(* `i + 1 < indexes.len() && indexes[i + 1] == sibling_index` *)
Definition merged (a : Z) (rest : list Z) : bool :=
  match rest with b :: _ => b =? Z.lxor a 1 | [] => false end.

Fixpoint pb_scan (tn : list D) (I : list Z) (i : Z) (nodes : list (list D))
  : res (list (list D) * list Z) :=
  match I with
  | [] => Ok (nodes, [])
  | a :: rest =>
    let sib := Z.lxor a 1 in
    match rest with
    | b :: rest' =>
      if b =? sib then
        '(nodesF, next) <- pb_scan tn rest' (i + 2) nodes ;;
        Ok (nodesF, Z.shiftr sib 1 :: next)
      else
        x <- idx tn sib ;;
        nodes1 <- push_at nodes i x ;;
        '(nodesF, next) <- pb_scan tn rest (i + 1) nodes1 ;;
        Ok (nodesF, Z.shiftr sib 1 :: next)
    | [] =>
      x <- idx tn sib ;;
      nodes1 <- push_at nodes i x ;;
      '(nodesF, next) <- pb_scan tn rest (i + 1) nodes1 ;;
      Ok (nodesF, Z.shiftr sib 1 :: next)
    end
  end.

Fixpoint pb_levels (k : nat) (tn : list D) (I : list Z) (nodes : list (list D)) : res (list (list D)) :=
  match k with
  | O => Ok nodes
  | S k' => '(nodes1, next) <- pb_scan tn I 0 nodes ;; pb_levels k' tn next nodes1
  end.

Definition mt_prove_batch (t : mtree) (indexes : list Z) : res bproof :=
  match indexes with [] => Err TooFewLeafIndexes | _ =>
  if max_paths <? zlen indexes then Err (TooManyLeafIndexes max_paths (zlen indexes)) else
  depth <- mt_depth t ;;
  imap <- map_indexes indexes depth ;;
  let norm := normalize_indexes indexes in
  let leaves0 := repeat d0 (length imap) in
  '(leaves, nodes0, next) <- pb_first t imap (zlen (mt_leaves t)) norm leaves0 ;;
  nodes <- pb_levels (Z.to_nat (depth - 1)) (mt_nodes t) next nodes0 ;;
  Ok {| bp_leaves := leaves; bp_nodes := nodes; bp_depth := depth mod 256 |}
  end.

(* ---------------------------------------------------------------- get_root / into_paths *)
(* the `match index_map.get(&index)` block: (buf[0], buf[1], proof pointer) *)
Definition gnode0 (p : bproof) (i : Z) : res D :=
  nd <- idx (bp_nodes p) i ;;
  match nd with [] => Err InvalidProof | x :: _ => Ok x end.

Definition gleafv (p : bproof) (j : Z) : res D :=
  if zlen (bp_leaves p) <=? j then Err InvalidProof else idx (bp_leaves p) j.

Definition gleaf (p : bproof) (imap : bmap Z) (i index : Z) : res (D * D * Z) :=
  i1 <- uadd index 1 ;;
  match bt_get index imap with
  | Some index1 =>
    b0 <- gleafv p index1 ;;
    match bt_get i1 imap with
    | Some index2 => b1 <- gleafv p index2 ;; Ok (b0, b1, 0)
    | None => b1 <- gnode0 p i ;; Ok (b0, b1, 1)
    end
  | None =>
    b0 <- gnode0 p i ;;
    match bt_get i1 imap with
    | Some index2 => b1 <- gleafv p index2 ;; Ok (b0, b1, 1)
    | None => Err InvalidProof
    end
  end.

(* first loop; state: v (hashed nodes), ptm (partial tree, into_paths only);
   returns (v, proof_pointers, ptm, next_indexes) *)
Fixpoint gfirst (p : bproof) (imap : bmap Z) (offset : Z) (norm : list Z) (i : Z) (v ptm : bmap D)
  : res (bmap D * list Z * bmap D * list Z) :=
  match norm with
  | [] => Ok (v, [], ptm, [])
  | index :: rest =>
    '(b0, b1, ptr) <- gleaf p imap i index ;;
    let parent := merge b0 b1 in
    oi <- uadd offset index ;;
    let ptm1 := bt_insert (Z.lxor oi 1) b1 (bt_insert oi b0 ptm) in
    let pi := Z.shiftr oi 1 in
    let v1 := bt_insert pi parent v in
    let ptm2 := bt_insert pi parent ptm1 in
    '(vF, ptrs, ptmF, next) <- gfirst p imap offset rest (i + 1) v1 ptm2 ;;
    Ok (vF, ptr :: ptrs, ptmF, pi :: next)
  end.

Definition gsib (pn : list (list D)) (ptrs : list Z) (i : Z) : res (D * list Z) :=
  pointer <- idx ptrs i ;;
  nd <- idx pn i ;;
  if zlen nd <=? pointer then Err InvalidProof else
  s <- idx nd pointer ;;
  ptrs' <- upd ptrs i (pointer + 1) ;;
  Ok (s, ptrs').

Definition gstep (a : Z) (sibling : D) (v ptm : bmap D) : res (bmap D * bmap D * Z) :=
  match bt_get a v with
  | None => Err InvalidProof
  | Some node =>
    let ptm1 := bt_insert (Z.lxor a 1) sibling ptm in
    let parent := if negb (Z.land a 1 =? 0) then merge sibling node else merge node sibling in
    let pi := Z.shiftr a 1 in
    Ok (bt_insert pi parent v, bt_insert pi parent ptm1, pi)
  end.

Fixpoint gscan (pn : list (list D)) (I : list Z) (i : Z) (v : bmap D) (ptrs : list Z) (ptm : bmap D)
  : res (bmap D * list Z * bmap D * list Z) :=
  match I with
  | [] => Ok (v, ptrs, ptm, [])
  | a :: rest =>
    let sib := Z.lxor a 1 in
    match rest with
    | b :: rest' =>
      if b =? sib then
        match bt_get sib v with
        | None => Err InvalidProof
        | Some s =>
          '(v1, ptm1, pi) <- gstep a s v ptm ;;
          '(vF, ptrsF, ptmF, next) <- gscan pn rest' (i + 2) v1 ptrs ptm1 ;;
          Ok (vF, ptrsF, ptmF, pi :: next)
        end
      else
        '(s, ptrs1) <- gsib pn ptrs i ;;
        '(v1, ptm1, pi) <- gstep a s v ptm ;;
        '(vF, ptrsF, ptmF, next) <- gscan pn rest (i + 1) v1 ptrs1 ptm1 ;;
        Ok (vF, ptrsF, ptmF, pi :: next)
    | [] =>
      '(s, ptrs1) <- gsib pn ptrs i ;;
      '(v1, ptm1, pi) <- gstep a s v ptm ;;
      '(vF, ptrsF, ptmF, next) <- gscan pn rest (i + 1) v1 ptrs1 ptm1 ;;
      Ok (vF, ptrsF, ptmF, pi :: next)
    end
  end.

Fixpoint glevels (k : nat) (pn : list (list D)) (I : list Z) (v : bmap D) (ptrs : list Z) (ptm : bmap D)
  : res (bmap D * list Z * bmap D) :=
  match k with
  | O => Ok (v, ptrs, ptm)
  | S k' => '(v1, ptrs1, ptm1, next) <- gscan pn I 0 v ptrs ptm ;; glevels k' pn next v1 ptrs1 ptm1
  end.

(* all_nodes_consumed: proof_pointers.iter().zip(nodes).all(|(p, n)| p == n.len()) *)
Fixpoint all_consumed (ptrs : list Z) (nodes : list (list D)) : bool :=
  match ptrs, nodes with
  | p :: rp, nd :: rn => (p =? zlen nd) && all_consumed rp rn
  | _, _ => true
  end.

(* common part of get_root and into_paths after the index-count checks; [ptm0] builds the initial
   partial tree once the indexes are validated; ends with the (repaired) all_nodes_consumed check *)
Definition gcore (p : bproof) (indexes : list Z) (ptm0 : bmap D) : res (bmap D * bmap D) :=
  imap <- map_indexes indexes (bp_depth p) ;;
  let norm := normalize_indexes indexes in
  if negb (zlen norm =? zlen (bp_nodes p)) then Err InvalidProof else
  let offset := 2 ^ bp_depth p in
  '(v, ptrs, ptm, next) <- gfirst p imap offset norm 0 [] ptm0 ;;
  '(v', ptrs', ptm') <- glevels (Z.to_nat (bp_depth p - 1)) (bp_nodes p) next v ptrs ptm ;;
  if negb (all_consumed ptrs' (bp_nodes p)) then Err InvalidProof else Ok (v', ptm').

Definition get_root (p : bproof) (indexes : list Z) : res D :=
  match indexes with [] => Err TooFewLeafIndexes | _ =>
  if max_paths <? zlen indexes then Err (TooManyLeafIndexes max_paths (zlen indexes)) else
  if negb (zlen indexes =? zlen (bp_leaves p)) then Err InvalidProof else
  '(v, _) <- gcore p indexes [] ;;
  match bt_get 1 v with Some r => Ok r | None => Err InvalidProof end
  end.

Definition verify_batch (root : D) (indexes : list Z) (p : bproof) : res unit :=
  r <- get_root p indexes ;;
  if D_eqb root r then Ok tt else Err InvalidProof.

(* get_path *)
Fixpoint get_path_up (fuel : nat) (tree : bmap D) (index : Z) : res (list D) :=
  if index <=? 1 then Ok [] else
  match fuel with
  | O => Panic (* unreachable: index < 2^64 *)
  | S f =>
    match bt_get (Z.lxor index 1) tree with
    | None => Err InvalidProof
    | Some x => r <- get_path_up f tree (Z.shiftr index 1) ;; Ok (x :: r)
    end
  end.

Definition get_path (index : Z) (tree : bmap D) (depth : Z) : res (list D) :=
  if 64 <=? depth then Panic (* 1 << depth *) else
  s <- uadd index (2 ^ depth) ;;
  match bt_get s tree with
  | None => Err InvalidProof
  | Some leaf => r <- get_path_up 64 tree s ;; Ok (leaf :: r)
  end.

Fixpoint mapM {A B : Type} (f : A -> res B) (l : list A) : res (list B) :=
  match l with [] => Ok [] | a :: r => b <- f a ;; bs <- mapM f r ;; Ok (b :: bs) end.

Fixpoint ptm_leaves (offset : Z) (indexes : list Z) (leaves : list D) (ptm : bmap D) : bmap D :=
  match indexes, leaves with
  | i :: ri, l :: rl => ptm_leaves offset ri rl (bt_insert (i + offset) l ptm)
  | _, _ => ptm
  end.

(* into_paths (repaired: the partial tree is seeded with the leaves after map_indexes validated them) *)
Definition into_paths (p : bproof) (indexes : list Z) : res (list (list D)) :=
  match indexes with [] => Err TooFewLeafIndexes | _ =>
  if max_paths <? zlen indexes then Err (TooManyLeafIndexes max_paths (zlen indexes)) else
  if negb (zlen indexes =? zlen (bp_leaves p)) then Err InvalidProof else
  '(_, ptm) <- gcore p indexes (ptm_leaves (2 ^ bp_depth p) indexes (bp_leaves p) []) ;;
  mapM (fun i => get_path i ptm (bp_depth p)) indexes
  end.

(* ---------------------------------------------------------------- from_paths *)
Fixpoint fp_map (depth : Z) (indexes : list Z) (paths : list (list D)) (m : bmap (list D)) : res (bmap (list D)) :=
  match indexes, paths with
  | index :: ri, path :: rp =>
    if negb (depth =? zlen path) then Panic (* assert_eq: not all paths have the same length *)
    else fp_map depth ri rp (bt_insert index path m)
  | _, _ => Ok m
  end.

Fixpoint fp_pos (indexes : list Z) (paths : list (list D)) (i : Z) (m : bmap Z) : bmap Z :=
  match indexes, paths with
  | index :: ri, _ :: rp => fp_pos ri rp (i + 1) (bt_insert index i m)
  | _, _ => m
  end.

(* leaves[position_map[&index]] = x *)
Definition fp_put (posm : bmap Z) (leaves : list D) (index : Z) (x : D) : res (list D) :=
  match bt_get index posm with None => Panic | Some pos => upd leaves pos x end.

(* first while loop over the sorted (index, path) entries; [leaves] are the output leaves, written at
   the position of the index in the caller's list (repaired; previously at the sorted position) *)
Fixpoint fp_first (posm : bmap Z) (es : list (Z * list D)) (leaves : list D) (pm : bmap (list D))
  : res (list D * list (list D) * bmap (list D)) :=
  match es with
  | [] => Ok (leaves, [], pm)
  | (ia, pa) :: rest =>
    l0 <- idx pa 0 ;;
    leaves1 <- fp_put posm leaves ia l0 ;;
    match rest with
    | (ib, pb) :: rest' =>
      sibs <- are_siblings ia ib ;;
      if sibs then
        l1 <- idx pa 1 ;;
        leaves2 <- fp_put posm leaves1 ib l1 ;;
        '(leavesF, nodes, pmF) <- fp_first posm rest' leaves2 (bt_insert (Z.shiftr ib 1) pb pm) ;;
        Ok (leavesF, [] :: nodes, pmF)
      else
        l1 <- idx pa 1 ;;
        '(leavesF, nodes, pmF) <- fp_first posm rest leaves1 (bt_insert (Z.shiftr ia 1) pa pm) ;;
        Ok (leavesF, [l1] :: nodes, pmF)
    | [] =>
      l1 <- idx pa 1 ;;
      '(leavesF, nodes, pmF) <- fp_first posm rest leaves1 (bt_insert (Z.shiftr ia 1) pa pm) ;;
      Ok (leavesF, [l1] :: nodes, pmF)
    end
  end.

Fixpoint fp_scan (d : Z) (es : list (Z * list D)) (i : Z) (nodes : list (list D)) (npm : bmap (list D))
  : res (list (list D) * bmap (list D)) :=
  match es with
  | [] => Ok (nodes, npm)
  | (ia, pa) :: rest =>
    match rest with
    | (ib, pb) :: rest' =>
      sibs <- are_siblings ia ib ;;
      if sibs then fp_scan d rest' (i + 2) nodes (bt_insert (Z.shiftr ia 1) pa npm)
      else
        x <- idx pa d ;;
        nodes1 <- push_at nodes i x ;;
        fp_scan d rest (i + 1) nodes1 (bt_insert (Z.shiftr ia 1) pa npm)
    | [] =>
      x <- idx pa d ;;
      nodes1 <- push_at nodes i x ;;
      fp_scan d rest (i + 1) nodes1 (bt_insert (Z.shiftr ia 1) pa npm)
    end
  end.

(* for d in 2..depth *)
Fixpoint fp_levels (k : nat) (d : Z) (pm : bmap (list D)) (nodes : list (list D)) : res (list (list D)) :=
  match k with
  | O => Ok nodes
  | S k' => '(nodes1, npm) <- fp_scan d pm 0 nodes [] ;; fp_levels k' (d + 1) npm nodes1
  end.

Definition from_paths (paths : list (list D)) (indexes : list Z) : res bproof :=
  match paths with
  | [] => Panic (* assert: at least one path *)
  | path0 :: _ =>
    if max_paths <? zlen paths then Panic else
    if negb (zlen paths =? zlen indexes) then Panic else
    let depth := zlen path0 in
    pm <- fp_map depth indexes paths [] ;;
    let posm := fp_pos indexes paths 0 [] in
    let leaves0 := repeat d0 (length paths) in
    '(leaves, nodes0, pm1) <- fp_first posm pm leaves0 [] ;;
    nodes <- fp_levels (Z.to_nat (depth - 2)) 2 pm1 nodes0 ;;
    if depth <? 1 then Panic (* depth - 1 *) else
    Ok {| bp_leaves := leaves; bp_nodes := nodes; bp_depth := (depth - 1) mod 256 |}
  end.

(* ---------------------------------------------------------------- serialisation *)
Variable dsize : nat.
Variable ser : D -> list Z.
Variable deser : list Z -> option D.   (* exactly [dsize] bytes *)

Fixpoint ser_vecs (nodes : list (list D)) : res (list Z) :=
  match nodes with
  | [] => Ok []
  | nd :: r =>
    if 255 <? zlen nd then Panic (* assert: too many nodes *) else
    rest <- ser_vecs r ;;
    Ok (zlen nd :: flat_map ser nd ++ rest)
  end.

Definition serialize_nodes (p : bproof) : res (list Z) :=
  if 255 <? zlen (bp_nodes p) then Panic (* assert: too many paths *) else
  body <- ser_vecs (bp_nodes p) ;;
  Ok (zlen (bp_nodes p) :: body).

(* deserialisation errors are a separate error type in Rust; here: None *)
Fixpoint read_many (k : nat) (bytes : list Z) : option (list D * list Z) :=
  match k with
  | O => Some ([], bytes)
  | S k' =>
    if (length bytes <? dsize)%nat then None else
    match deser (firstn dsize bytes) with
    | None => None
    | Some x => match read_many k' (skipn dsize bytes) with Some (xs, r) => Some (x :: xs, r) | None => None end
    end
  end.

Fixpoint read_vecs (k : nat) (bytes : list Z) : option (list (list D) * list Z) :=
  match k with
  | O => Some ([], bytes)
  | S k' =>
    match bytes with
    | [] => None
    | c :: r =>
      match read_many (Z.to_nat c) r with
      | None => None
      | Some (nd, r') => match read_vecs k' r' with Some (nds, r'') => Some (nd :: nds, r'') | None => None end
      end
    end
  end.

(* returns the proof and the unread bytes *)
Definition deserialize (bytes : list Z) (leaves : list D) (depth : Z) : option (bproof * list Z) :=
  if depth =? 0 then None else
  match leaves with [] => None | _ =>
  if max_paths <? zlen leaves then None else
  match bytes with
  | [] => None
  | c :: r =>
    match read_vecs (Z.to_nat c) r with
    | None => None
    | Some (nodes, r') => Some ({| bp_leaves := leaves; bp_nodes := nodes; bp_depth := depth |}, r')
    end
  end end.

End Merkle.

Arguments mt_nodes {D} _.
Arguments mt_leaves {D} _.
Arguments bp_leaves {D} _.
Arguments bp_nodes {D} _.
Arguments bp_depth {D} _.
