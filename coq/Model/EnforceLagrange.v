(* C16 — executable model of the Lagrange kernel constraints: on which rows each of them is enforced.
   Sources (winterfell /repo):
     air/src/air/lagrange/transition.rs  LagrangeKernelTransitionConstraints::{new, num_constraints,
                                         evaluate_ith_numerator, evaluate_ith_divisor, evaluate_numerators,
                                         evaluate_and_combine}
     air/src/air/lagrange/frame.rs       LagrangeKernelEvaluationFrame::{new, from_lagrange_kernel_column_poly,
                                         inner, num_rows}
     air/src/air/lagrange/boundary.rs    LagrangeKernelBoundaryConstraint::{assertion_value, evaluate_numerator_at,
                                         evaluate_denominator_at, evaluate_at}
     air/src/air/lagrange/mod.rs         LagrangeKernelConstraints::new (passes `coefficients.transition` on)
     air/src/air/mod.rs                  get_constraint_composition_coefficients: the number of Lagrange transition
                                         coefficients drawn is `self.context().trace_len().ilog2()`
   usize values are Z; `None` is a Rust panic (index out of bounds, usize underflow, overflow of `2_usize.pow`).
   E = B (no extension field), as everywhere in C16: `mul_base` is the field multiplication, `x.into()` the identity.
   No proofs here. *)
From VBase Require Import MachInt FieldOps.
From VModel Require Import Enforce.
Open Scope Z_scope.

(* ------------------------------------------------------------------ integer level *)

(* number of Lagrange kernel transition coefficients an AIR with a Lagrange kernel column draws for a trace of length n:
   `for _ in 0..self.context().trace_len().ilog2()` *)
Definition lag_num_coefficients (n : Z) : Z := Z.log2 n.

(* `2_usize.pow(i as u32)` for i in 0..m: the sizes of the constraint domains; None = the overflow panic of the
   debug build (i >= 64; the release build wraps to 0) *)
Definition lag_domain_sizes (m : Z) : option (list Z) :=
  if 64 <? m then None else Some (map (fun i => 2 ^ i) (zrange 0 m)).

(* SPECIFICATION side (what the constraints are meant to be, issue #240 / the comments of transition.rs and frame.rs).
   The rows (step indexes of the trace domain of size n = 2^v) on which constraint k, 1 <= k <= v, is meant to be
   enforced: the subgroup of size 2^(k-1), i.e. the multiples of n / 2^(k-1). *)
Definition lag_rows (n k : Z) : list Z :=
  let s := n / 2 ^ (k - 1) in map (fun j => j * s) (zrange 0 (2 ^ (k - 1))).
(* constraint k relates the row it is enforced on with the row `lag_shift n k` = 2^(v-k) further:
   frame entry v-k+1 holds c(g^(2^(v-k)) * x) *)
Definition lag_shift (n k : Z) : Z := n / 2 ^ k.
(* the rows whose cells constraint k reads when it is enforced on row i *)
Definition lag_reads (n k i : Z) : list Z := [i; (i + lag_shift n k) mod n].
(* all (constraint, row) pairs of the first `kmax` constraints whose enforcement reads row j *)
Definition lag_readers (n kmax j : Z) : list (Z * Z) :=
  flat_map (fun k => flat_map (fun i => if existsb (Z.eqb j) (lag_reads n k i) then [(k, i)] else []) (lag_rows n k))
           (zrange 1 (kmax + 1)).

(* list indexing with a usize index: None = index out of bounds *)
Definition zidx {A : Type} (l : list A) (i : Z) : option A :=
  if i <? 0 then None else nth_error l (Z.to_nat i).

(* ------------------------------------------------------------------ field level *)
Section Field.
  Context {F : Type} (O : FOps F).

  (* LagrangeKernelTransitionConstraints { lagrange_constraint_coefficients, divisors } *)
  Record LagTC := mkLTC { l_coef : list F; l_div : list (Divisor (F := F)) }.

  (* zip(...).map(f).collect() of two lists: stops at the shorter one *)
  Fixpoint zip_with {A B C : Type} (f : A -> B -> C) (l1 : list A) (l2 : list B) : list C :=
    match l1, l2 with
    | a :: r1, b :: r2 => f a b :: zip_with f r1 r2
    | _, _ => []
    end.

  Fixpoint opt_all {A : Type} (l : list (option A)) : option (list A) :=
    match l with
    | [] => Some []
    | None :: _ => None
    | Some a :: r => match opt_all r with Some r' => Some (a :: r') | None => None end
    end.

  (* new(coefficients): one divisor `ConstraintDivisor::from_transition(2^i, 0)` per coefficient, i = 0 .. len-1.
     from_transition computes the generator of ITS domain (size 2^i) only to build the exemption points, of which there
     are none here; the model's from_transition takes the generator as an argument, ONE is passed (unused:
     Proofs/EnforceLagrangeProofs.v, from_transition_0_spec). *)
  Definition lag_new (coefs : list F) : option LagTC :=
    match lag_domain_sizes (Z.of_nat (length coefs)) with
    | None => None
    | Some sizes =>
      match opt_all (map (fun s => from_transition O (fone O) s 0) sizes) with
      | Some ds => Some (mkLTC coefs ds)
      | None => None
      end
    end.

  (* num_constraints() = lagrange_constraint_coefficients.len() *)
  Definition lag_num_constraints (t : LagTC) : Z := Z.of_nat (length (l_coef t)).

  (* the body shared by evaluate_ith_numerator and the loop of evaluate_numerators, k = constraint_idx + 1:
        let v = c.len() - 1;  (r[v - k] * c[0]) - ((E::ONE - r[v - k]) * c[v - k + 1])
     None = `c.len() - 1` or `v - k` underflows, or an index is out of bounds *)
  Definition lag_raw (c r : list F) (k : Z) : option F :=
    let v := Z.of_nat (length c) - 1 in
    if v <? 0 then None
    else if v <? k then None
    else match zidx r (v - k), zidx c 0, zidx c (v - k + 1) with
         | Some rk, Some c0, Some ck => Some (fsub O (fmul O rk c0) (fmul O (fsub O (fone O) rk) ck))
         | _, _, _ => None
         end.

  (* evaluate_ith_numerator(frame, rand_elements, constraint_idx) *)
  Definition lag_ith_numerator (t : LagTC) (c r : list F) (idx : Z) : option F :=
    match lag_raw c r (idx + 1), zidx (l_coef t) idx with
    | Some e, Some co => Some (fmul O co e)
    | _, _ => None
    end.

  (* evaluate_ith_divisor(constraint_idx, x) *)
  Definition lag_ith_divisor (t : LagTC) (idx : Z) (x : F) : option F :=
    match zidx (l_div t) idx with
    | Some d => Some (evaluate_at O d x)
    | None => None
    end.

  (* evaluate_numerators: `vec![ZERO; num_rows - 1]` filled for k in 1..v+1, then zipped with the coefficients *)
  Definition lag_numerators (t : LagTC) (c r : list F) : option (list F) :=
    let v := Z.of_nat (length c) - 1 in
    if v <? 0 then None
    else match opt_all (map (fun k => lag_raw c r k) (zrange 1 (v + 1))) with
         | None => None
         | Some evals => Some (zip_with (fun e co => fmul O co e) evals (l_coef t))
         end.

  (* evaluate_and_combine(frame, rand_elements, x): numerators zipped with the divisors,
     acc + numerator / divisor.evaluate_at(x)  (field division: x / 0 = x * inv(0) = 0) *)
  Definition lag_evaluate_and_combine (t : LagTC) (c r : list F) (x : F) : option F :=
    match lag_numerators t c r with
    | None => None
    | Some nums =>
      Some (fold_left (fun acc p => fadd O acc p) (zip_with (fun nm d => fdiv O nm (evaluate_at O d x)) nums (l_div t)) (fzero O))
    end.

  (* LagrangeKernelEvaluationFrame::from_lagrange_kernel_column_poly(poly, z) for a column polynomial of 2^v
     coefficients; g = get_root_of_unity(v):  [c(z), c(g z), c(g^2 z), c(g^4 z), ..., c(g^(2^(v-1)) z)]
     (g_exp starts at g and is squared after each push) *)
  Fixpoint lag_frame_go (poly : list F) (z gexp : F) (fuel : nat) : list F :=
    match fuel with
    | 0%nat => []
    | S f => poly_eval O poly (fmul O gexp z) :: lag_frame_go poly z (fmul O gexp gexp) f
    end.
  Definition lag_frame_from_poly (g : F) (v : Z) (poly : list F) (z : F) : list F :=
    poly_eval O poly z :: lag_frame_go poly z g (Z.to_nat v).

  (* the frame of a column given by its values on the trace domain, at row i (x = g^i), per the documentation of
     LagrangeKernelEvaluationFrame: [col[i], col[i+1], col[i+2], col[i+4], ..., col[i + 2^(v-1)]], rows modulo n *)
  Definition lag_frame_at_row (col : list F) (n v i : Z) : list F :=
    nth (Z.to_nat i) col (fzero O) ::
    map (fun j => nth (Z.to_nat ((i + 2 ^ j) mod n)) col (fzero O)) (zrange 0 v).

  (* the Lagrange kernel column itself (eq(r, bits of the row); bit b of the row selects r_b or 1 - r_b):
     what an honest prover puts into the column for random elements r_0 .. r_(v-1) *)
  Definition lag_kernel_cell (r : list F) (row : Z) : F :=
    fold_left (fun acc p => fmul O acc (if Z.testbit row (fst p) then snd p else fsub O (fone O) (snd p)))
              (combine (zrange 0 (Z.of_nat (length r))) r) (fone O).
  Definition lag_kernel_col (r : list F) (n : Z) : list F := map (lag_kernel_cell r) (zrange 0 n).

  (* LagrangeKernelBoundaryConstraint *)
  Definition lag_assertion_value (r : list F) : F :=
    fold_left (fun acc ri => fmul O acc (fsub O (fone O) ri)) r (fone O).
  Definition lag_boundary_numerator (r c : list F) (coef : F) : option F :=
    match zidx c 0 with
    | Some tv => Some (fmul O (fsub O tv (lag_assertion_value r)) coef)
    | None => None
    end.
  Definition lag_boundary_denominator (x : F) : F := fsub O x (fone O).
  Definition lag_boundary_evaluate_at (r c : list F) (coef x : F) : option F :=
    match lag_boundary_numerator r c coef with
    | Some nm => Some (fdiv O nm (lag_boundary_denominator x))
    | None => None
    end.
End Field.
