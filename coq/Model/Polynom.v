(* C20 — executable model of math/src/polynom/mod.rs and the serial math/src/utils/mod.rs
   (winter_math::polynom::*, get_power_series, get_power_series_with_offset, add_in_place, mul_acc,
   batch_inversion), generic over a record of field operations `FOps F`.  NO proofs here.

   Conventions
   * `Result`: `Ok v | Panic`.  Every `assert!`, `debug_assert!` (flag `dbg`), slice index that can be out of
     range and `usize` underflow of the Rust code is an explicit `Panic` (debug profile: overflow checks on).
     `get`/`set` are checked slice reads/writes.
   * `for_up i n body s`   = `for k in i..i+n { s = body(k, s)? }`
     `for_down n body s`   = `for k in (0..n).rev() { s = body(k, s)? }`
   * lengths and indices are `nat` (a `Vec` never holds more than isize::MAX elements, so sums of two lengths
     do not overflow `usize`); `a - b` on `nat` is used only where the Rust code saturates/guards or where
     the Panic branch for the underflow precedes it.
   * iterator pipelines without indices (`iter().rev().fold`, `zip`, `iter_mut().rev()`) are structural
     recursions over the list; index loops are kept as index loops with checked accesses.
   * The model follows the working-tree source, i.e. WITH the repairs of fixes/c20-polynom-zero-x-and-empty-inputs.diff
     (`interpolate` divides by roots with `syn_div_roots_in_place`; `mul`: saturating length; `div`: empty dividend;
     `fill_power_series`: empty slice).
   * `eval<B,E>` is modelled for B = E (E::from is the identity); `mul_acc<F,E>` for F = E (`c.mul_base(b) = c * b`).
   * `log2` named in the task text does not exist in this snapshot of winter_math (the crate uses `usize::ilog2`). *)
From Coq Require Import List Arith Bool ZArith.
From VBase Require Import FieldOps.
Import ListNotations.

Inductive Result (A : Type) : Type := Ok (v : A) | Panic.
Arguments Ok {A} v. Arguments Panic {A}.

Definition bind {A B} (r : Result A) (f : A -> Result B) : Result B :=
  match r with Ok v => f v | Panic => Panic end.
Notation "x <- e ;; k" := (bind e (fun x => k)) (at level 61, e at next level, right associativity).

Definition get {A} (l : list A) (i : nat) : Result A :=
  match nth_error l i with Some v => Ok v | None => Panic end.

Fixpoint upd {A} (l : list A) (i : nat) (v : A) : list A :=
  match l, i with
  | [], _ => []
  | _ :: t, 0 => v :: t
  | h :: t, S i' => h :: upd t i' v
  end.

Definition set {A} (l : list A) (i : nat) (v : A) : Result (list A) :=
  if i <? length l then Ok (upd l i v) else Panic.

Fixpoint for_up {St} (i n : nat) (body : nat -> St -> Result St) (s : St) : Result St :=
  match n with
  | 0 => Ok s
  | S n' => match body i s with Ok s' => for_up (S i) n' body s' | Panic => Panic end
  end.

Fixpoint for_down {St} (n : nat) (body : nat -> St -> Result St) (s : St) : Result St :=
  match n with
  | 0 => Ok s
  | S n' => match body n' s with Ok s' => for_down n' body s' | Panic => Panic end
  end.

Fixpoint mapM {A B} (f : A -> Result B) (l : list A) : Result (list B) :=
  match l with
  | [] => Ok []
  | h :: t => v <- f h;; r <- mapM f t;; Ok (v :: r)
  end.

Fixpoint zip_with {A B C} (f : A -> B -> C) (a : list A) (b : list B) : list C :=
  match a, b with
  | x :: a', y :: b' => f x y :: zip_with f a' b'
  | _, _ => []
  end.

Section Polynom.
Context {F : Type} (O : FOps F).
Local Notation zero := (fzero O).
Local Notation one := (fone O).
Local Notation "a +f b" := (fadd O a b) (at level 50, left associativity).
Local Notation "a -f b" := (fsub O a b) (at level 50, left associativity).
Local Notation "a *f b" := (fmul O a b) (at level 40, left associativity).
Local Notation "a =f? b" := (feqb O a b) (at level 70).

(* ------------------------------------------------------------------ evaluation *)
(* p.iter().rev().fold(E::ZERO, |acc, &coeff| acc * x + E::from(coeff)) *)
Definition eval (p : list F) (x : F) : F :=
  fold_left (fun acc coeff => acc *f x +f coeff) (rev p) zero.

Definition eval_many (p xs : list F) : list F := map (fun x => eval p x) xs.

(* ------------------------------------------------------------------ degree *)
(* for i in (0..n).rev() { if poly[i] != ZERO { return Some(i) } } None ; i < len always *)
Fixpoint last_nz (poly : list F) (n : nat) : option nat :=
  match n with
  | 0 => None
  | S i => if nth i poly zero =f? zero then last_nz poly i else Some i
  end.

Definition degree_of (poly : list F) : nat :=
  match last_nz poly (length poly) with Some i => i | None => 0 end.

Definition remove_leading_zeros (values : list F) : list F :=
  match last_nz values (length values) with Some i => firstn (i + 1) values | None => [] end.

(* ------------------------------------------------------------------ add / sub / mul / mul_by_scalar *)
Definition coeff_or_zero (a : list F) (i : nat) : F := if i <? length a then nth i a zero else zero.

Definition add (a b : list F) : list F :=
  map (fun i => coeff_or_zero a i +f coeff_or_zero b i) (seq 0 (Nat.max (length a) (length b))).

Definition sub (a b : list F) : list F :=
  map (fun i => coeff_or_zero a i -f coeff_or_zero b i) (seq 0 (Nat.max (length a) (length b))).

(* repaired: result_len = (a.len() + b.len()).saturating_sub(1)   [nat subtraction saturates] *)
Definition mul (a b : list F) : Result (list F) :=
  for_up 0 (length a) (fun i r =>
    for_up 0 (length b) (fun j r =>
      ai <- get a i;; bj <- get b j;;
      let s := ai *f bj in
      rij <- get r (i + j);;
      set r (i + j) (rij +f s)) r)
    (repeat zero (length a + length b - 1)).

(* the code before the repair: `a.len() + b.len() - 1` underflows when both are empty *)
Definition mul_unrepaired (a b : list F) : Result (list F) :=
  if length a + length b =? 0 then Panic else mul a b.

Definition mul_by_scalar (p : list F) (k : F) : list F := map (fun coeff => coeff *f k) p.

(* ------------------------------------------------------------------ long division *)
(* returns (quotient, final working copy of a); the remainder is the first `degree_of b` entries of the copy *)
Definition div_full (a b : list F) : Result (list F * list F) :=
  let apos := degree_of a in
  let bpos := degree_of b in
  if apos <? bpos then Panic                                           (* assert!(apos >= bpos) *)
  else if (bpos =? 0) && (match b with [] => true | b0 :: _ => b0 =f? zero end) then Panic
  else match a with
  | [] => Ok ([], [])                                                  (* repaired: empty dividend *)
  | _ =>
    let result := repeat zero (apos - bpos + 1) in
    st <- for_down (length result) (fun i (st : list F * list F * nat) =>
            let '(aw, res, apos) := st in
            aa <- get aw apos;; bb <- get b bpos;;
            let quot := fdiv O aa bb in
            res <- set res i quot;;
            aw <- for_down bpos (fun j aw =>
                    bj <- get b j;; aij <- get aw (i + j);;
                    set aw (i + j) (aij -f bj *f quot)) aw;;
            (* apos.wrapping_sub(1): wraps only after the last iteration (i = 0, bpos = 0); the value is dead *)
            Ok (aw, res, Nat.pred apos)) (a, result, apos);;
    Ok (snd (fst st), fst (fst st))
  end.

Definition div (a b : list F) : Result (list F) := st <- div_full a b;; Ok (fst st).

(* ------------------------------------------------------------------ synthetic division *)
(* let mut c = ZERO; for coeff in p.iter_mut().rev() { *coeff += root * c; swap(coeff, &mut c) }
   returns (new p, final c = remainder) *)
Fixpoint syn_lin (p : list F) (root : F) : list F * F :=
  match p with
  | [] => ([], zero)
  | h :: t => let '(t', c) := syn_lin t root in (c :: t', h +f root *f c)
  end.

(* returns (p after the call, discarded remainder as a polynomial of length a) *)
Definition syn_div_in_place_full (p : list F) (a : nat) (b : F) : Result (list F * list F) :=
  if a =? 0 then Panic
  else if b =f? zero then Panic
  else if negb (a <? length p) then Panic
  else if a =? 1 then
    let '(p', c) := syn_lin p b in Ok (p', [c])
  else
    let degree_offset := length p - a in
    p1 <- (if b =f? one
           then for_down degree_offset (fun i p =>
                  pi <- get p i;; pia <- get p (i + a);; set p i (pi +f pia)) p
           else for_down degree_offset (fun i p =>
                  pi <- get p i;; pia <- get p (i + a);; set p i (pi +f pia *f b)) p);;
    (* p.copy_within(a.., 0); p[degree_offset..].fill(ZERO) *)
    Ok (skipn a p1 ++ repeat zero a, firstn a p1).

Definition syn_div_in_place (p : list F) (a : nat) (b : F) : Result (list F) :=
  st <- syn_div_in_place_full p a b;; Ok (fst st).

Definition syn_div (p : list F) (a : nat) (b : F) : Result (list F) := syn_div_in_place p a b.

(* returns (p after the call, the remainders c_1..c_m discarded by the m passes) *)
Fixpoint syn_roots_loop (p roots : list F) : list F * list F :=
  match roots with
  | [] => (p, [])
  | r :: rs => let '(p1, c) := syn_lin p r in let '(p2, cs) := syn_roots_loop p1 rs in (p2, c :: cs)
  end.

Definition syn_div_roots_in_place_full (p roots : list F) : Result (list F * list F) :=
  match roots with [] => Panic | _ =>
  if negb (length roots <? length p) then Panic else Ok (syn_roots_loop p roots) end.

Definition syn_div_roots_in_place (p roots : list F) : Result (list F) :=
  st <- syn_div_roots_in_place_full p roots;; Ok (fst st).

(* ------------------------------------------------------------------ expansion from roots *)
Definition fill_zero_roots (xs result : list F) : Result (list F) :=
  match length result with
  | 0 => Panic                                                         (* n -= 1 *)
  | S n0 =>
    r <- set result n0 one;;
    st <- for_up 0 (length xs) (fun i (st : list F * nat) =>
            let '(r, n) := st in
            match n with
            | 0 => Panic                                               (* n -= 1 *)
            | S n' =>
              r <- set r n' zero;;
              xi <- get xs i;;
              r <- for_up n' (length xs - n') (fun j r =>
                     rj <- get r j;; rj1 <- get r (j + 1);;
                     set r j (rj -f rj1 *f xi)) r;;
              Ok (r, n')
            end) (r, n0);;
    Ok (fst st)
  end.

(* `uninit_vector(xs.len() + 1)`: the initial content is arbitrary; `init` stands for it *)
Definition poly_from_roots_init (init xs : list F) : Result (list F) := fill_zero_roots xs init.
Definition poly_from_roots (xs : list F) : Result (list F) :=
  poly_from_roots_init (repeat zero (length xs + 1)) xs.

(* ------------------------------------------------------------------ utils *)
Definition fill_power_series (result : list F) (base start : F) : Result (list F) :=
  match result with
  | [] => Ok []                                                        (* repaired: empty slice *)
  | _ =>
    r <- set result 0 start;;
    for_up 1 (length result - 1) (fun i r => prev <- get r (i - 1);; set r i (prev *f base)) r
  end.

(* serial batch_iter_mut!: one batch, batch_offset = 0; b.exp(0) returns ONE (first branch of exp_vartime) *)
Definition get_power_series (b : F) (n : nat) : Result (list F) :=
  fill_power_series (repeat zero n) b one.

Definition get_power_series_with_offset (b s : F) (n : nat) : Result (list F) :=
  fill_power_series (repeat zero n) b (s *f one).

Definition add_in_place (a b : list F) : Result (list F) :=
  if length a =? length b then Ok (zip_with (fun x y => x +f y) a b) else Panic.

Definition mul_acc (a b : list F) (c : F) : Result (list F) :=
  if length a =? length b then Ok (zip_with (fun x y => x +f c *f y) a b) else Panic.

(* first loop of serial_batch_inversion: result[i] = last; if value != 0 { last *= value } *)
Fixpoint binv_fwd (values : list F) (last : F) : list F * F :=
  match values with
  | [] => ([], last)
  | v :: t => let '(r, l) := binv_fwd t (if v =f? zero then last else last *f v) in (last :: r, l)
  end.

(* second loop, i from len-1 down to 0 (structural recursion visits the tail first):
   if values[i] == 0 { result[i] = 0 } else { result[i] *= last; last *= values[i] } *)
Fixpoint binv_bwd (values result : list F) (last : F) : list F * F :=
  match values, result with
  | v :: vt, r :: rt =>
      let '(rt', l) := binv_bwd vt rt last in
      if v =f? zero then (zero :: rt', l) else (r *f l :: rt', l *f v)
  | _, _ => ([], last)
  end.

Definition batch_inversion (values : list F) : list F :=
  let '(result, last) := binv_fwd values one in
  fst (binv_bwd values result (finv O last)).

(* ------------------------------------------------------------------ interpolation *)
(* `numer roots x` computes numerators[i] = roots / (x - xs[i]) *)
Definition interpolate_gen (numer : list F -> F -> Result (list F))
    (dbg : bool) (xs ys : list F) (remove_lz : bool) : Result (list F) :=
  if dbg && negb (length xs =? length ys) then Panic else      (* debug_assert!(xs.len() == ys.len()) *)
  roots <- poly_from_roots xs;;
  numerators <- mapM (fun x => numer roots x) xs;;
  let denominators := zip_with (fun e x => eval e x) numerators xs in
  let denominators := batch_inversion denominators in
  result <- for_up 0 (length xs) (fun i result =>
      yi <- get ys i;; di <- get denominators i;;
      let y_slice := yi *f di in
      for_up 0 (length result) (fun j res =>
        ni <- get numerators i;; nij <- get ni j;;
        rj <- get res j;; set res j (rj +f nij *f y_slice)) result)
    (repeat zero (length xs));;
  Ok (if remove_lz then remove_leading_zeros result else result).

(* repaired: { let mut r = roots.clone(); syn_div_roots_in_place(&mut r, from_ref(x)); r } *)
Definition interpolate := interpolate_gen (fun roots x => syn_div_roots_in_place roots [x]).

(* the code before the repair used syn_div(&roots, 1, x), which asserts x != 0 *)
Definition interpolate_unrepaired := interpolate_gen (fun roots x => syn_div roots 1 x).

(* interpolate_batch::<E, N>; every inner list of xs, ys has length N (array type) *)
Definition interpolate_batch (dbg : bool) (N : nat) (xs ys : list (list F)) : Result (list (list F)) :=
  if dbg && negb (length xs =? length ys) then Panic else
  let n := length xs in
  st <- for_up 0 n (fun i (st : list (list F) * list F * list F) =>
      let '(equations, inverses, roots) := st in
      xs_i <- get xs i;;
      roots <- fill_zero_roots xs_i roots;;
      st' <- for_up 0 (length xs_i) (fun j (st' : list (list F) * list F) =>
          let '(equations, inverses) := st' in
          x <- get xs_i j;;
          equation <- get equations (i * N + j);;
          match N with 0 => Panic | S N1 =>                            (* N - 1 *)
          rN <- get roots N;;
          equation <- set equation N1 rN;;
          equation <- for_down N1 (fun k equation =>
              rk1 <- get roots (k + 1);; ek1 <- get equation (k + 1);;
              set equation k (rk1 +f ek1 *f x)) equation;;
          equations <- set equations (i * N + j) equation;;
          inverses <- set inverses (i * N + j) (eval equation x);;
          Ok (equations, inverses) end) (equations, inverses);;
      Ok (fst st', snd st', roots))
    (repeat (repeat zero N) (n * N), repeat zero (n * N), repeat zero (N + 1));;
  let '(equations, inverses, _) := st in
  (* group_slice_elements::<_, N>: `len % N` panics for N = 0 *)
  if N =? 0 then Panic else
  let inverses := batch_inversion inverses in
  for_up 0 n (fun i result =>
      poly <- get result i;;
      poly <- for_up 0 N (fun j poly =>
          ys_i <- get ys i;; yij <- get ys_i j;;
          invij <- get inverses (i * N + j);;
          let inv_y := yij *f invij in
          eq <- get equations (i * N + j);;
          Ok (zip_with (fun res_coeff eq_coeff => res_coeff +f eq_coeff *f inv_y) poly eq)) poly;;
      set result i poly)
    (repeat (repeat zero N) n).

End Polynom.

(* ------------------------------------------------------------------ mixed instantiations (B != E) *)
(* eval::<B, E>(p: &[B], x: E): the accumulator lives in E, every coefficient goes through E::from *)
Definition eval_mixed {B E : Type} (OE : FOps E) (from : B -> E) (p : list B) (x : E) : E :=
  fold_left (fun acc coeff => fadd OE (fmul OE acc x) (from coeff)) (rev p) (fzero OE).

Definition eval_many_mixed {B E : Type} (OE : FOps E) (from : B -> E) (p : list B) (xs : list E) : list E :=
  map (fun x => eval_mixed OE from p x) xs.

(* mul_acc::<F, E>(a: &mut [E], b: &[F], c: E): *a += c.mul_base(b) with the extension's dedicated mul_base *)
Definition mul_acc_mixed {B E : Type} (OE : FOps E) (mul_base : E -> B -> E) (a : list E) (b : list B) (c : E)
    : Result (list E) :=
  if length a =? length b then Ok (zip_with (fun x y => fadd OE x (mul_base c y)) a b) else Panic.
