(* C17 — executable model of the prover's Lagrange-kernel constraint evaluation,
     prover/src/constraints/evaluator/lagrange.rs   LagrangeKernelConstraintsBatchEvaluator::evaluate_constraints,
                                                    compute_boundary_divisors_inv,
                                                    LagrangeKernelTransitionConstraintsDivisor::{new, get_inverse_divisor_eval,
                                                    get_transition_constraint_slice}, TransitionDivisorEvaluator::{new,
                                                    evaluate_ith_divisor}
     prover/src/trace/trace_lde/default/mod.rs      read_lagrange_kernel_frame_into
   on top of C16's model of the air-level Lagrange constraints (coq/Model/EnforceLagrange.v: lag_ith_numerator,
   lag_boundary_numerator, lag_boundary_denominator, lag_evaluate_and_combine, lag_boundary_evaluate_at), which is what the
   Rust code calls.  NO proofs here.  Conventions as in Composition.v: one field (E = B), `option` = panic, sizes in nat
   (C16's functions take Z indexes: `Z.of_nat`). *)
From Coq Require Import List Arith Bool ZArith.
From VBase Require Import MachInt FieldOps.
From VModel Require Import Composition.
From VModel Require Enforce EnforceLagrange.
Import ListNotations.
Local Open Scope nat_scope.

Section Lagrange.
Context {F : Type} (O : FOps F).
Local Notation fz := (fzero O).
Local Notation f1 := (fone O).
Local Infix "+f" := (fadd O) (at level 50, left associativity).
Local Infix "-f" := (fsub O) (at level 50, left associativity).
Local Infix "*f" := (fmul O) (at level 40, left associativity).

Variable n ceb ldeb : nat.
Variable offset : F.
Variable rou : nat -> F.
Local Notation ce_size := (ce_size n ceb).

(* TransitionDivisorEvaluator::new: s_0 = 1, s_(k+1) = s_k * s_k * offset *)
Fixpoint s_precomputes_from (s : F) (m : nat) : list F :=
  match m with 0 => [] | S m' => s :: s_precomputes_from (s *f s *f offset) m' end.
Definition s_precomputes (m : nat) : list F := s_precomputes_from f1 m.

(* TransitionDivisorEvaluator::evaluate_ith_divisor:
   domain_idx = ((1 << idx) * step) % ce_domain_size;  s_precomputes[idx] * domain.get_ce_x_at(domain_idx) - ONE *)
Definition evaluate_ith_divisor (sp : list F) (idx step : nat) : option F :=
  match ce_size with
  | 0 => None                                                                   (* `% 0` *)
  | _ => match nth_error sp idx, get_ce_x_at O n ceb offset rou ((2 ^ idx * step) mod ce_size) with
         | Some s, Some x => Some (s *f x -f f1)
         | _, _ => None
         end
  end.

(* LagrangeKernelTransitionConstraintsDivisor::new: the evaluations of divisor idx over its ce_size / 2^idx non-repeating
   points, all constraints one after the other in ONE vector, batch-inverted (0 stays 0) *)
Definition divisor_evals_inv (m : nat) : option (list F) :=
  let sp := s_precomputes m in
  match mapM (fun idx => mapM (fun step => evaluate_ith_divisor sp idx step) (seq 0 (ce_size / 2 ^ idx))) (seq 0 m) with
  | Some ls => Some (map (finv O) (concat ls))
  | None => None
  end.

(* slice_indices_precomputes: [0, ce, ce + ce/2, ce + ce/2 + ce/4, ..]  (m + 1 entries; current_slice_len /= 2) *)
Fixpoint slice_indices_from (start len m : nat) : list nat :=
  start :: match m with 0 => [] | S m' => slice_indices_from (start + len) (len / 2) m' end.
Definition slice_indices (m : nat) : list nat := slice_indices_from 0 ce_size m.

(* get_inverse_divisor_eval(idx, row): slice = invs[indices[idx] .. indices[idx + 1]];  slice[row % slice.len()] *)
Definition get_inverse_divisor_eval (invs : list F) (idxs : list nat) (idx row : nat) : option F :=
  match nth_error idxs idx, nth_error idxs (S idx) with
  | Some st, Some en =>
    if (st <=? en) && (en <=? length invs) then
      let slice := firstn (en - st) (skipn st invs) in
      match length slice with 0 => None | l => nth_error slice (row mod l) end
    else None
  | _, _ => None
  end.

(* DefaultTraceLde::read_lagrange_kernel_frame_into(lde_step, col_idx, frame) on the Lagrange kernel column of the
   extended auxiliary segment: [col[s], col[(s + blowup * 2^i) % len] for i in 0 .. log2(trace_len)] *)
Variable v : nat.                               (* trace_info.length().ilog2() *)
Variable lde_lag : list F.                      (* the Lagrange kernel column over the LDE domain *)
Definition read_lagrange_frame (lde_step : nat) : option (list F) :=
  match length lde_lag with
  | 0 => None
  | len => mapM (fun s => nth_error lde_lag s) (lde_step :: map (fun i => (lde_step + ldeb * 2 ^ i) mod len) (seq 0 v))
  end.

(* the constraints (air::LagrangeKernelConstraints) and the random elements *)
Variable t : EnforceLagrange.LagTC (F := F).    (* .transition *)
Variable r : list F.                            (* lagrange_kernel_rand_elements *)
Variable lb : F.                                (* boundary.composition_coefficient *)

(* compute_boundary_divisors_inv: batch inversion of x_step - 1 over the ce domain *)
Definition boundary_divisors_inv : option (list F) :=
  match mapM (fun step => get_ce_x_at O n ceb offset rou step) (seq 0 ce_size) with
  | Some xs => Some (map (fun x => finv O (EnforceLagrange.lag_boundary_denominator O x)) xs)
  | None => None
  end.

(* the value added to combined_evaluations_acc[step] *)
Definition lagrange_combined (invs : list F) (idxs : list nat) (binv : list F) (step : nat) : option F :=
  match read_lagrange_frame (step * ce_to_lde_blowup n ceb ldeb) with
  | None => None
  | Some frame =>
    let m := length (EnforceLagrange.l_coef t) in                    (* transition.num_constraints() *)
    match acc_opt O (fun idx =>
                       match EnforceLagrange.lag_ith_numerator O t frame r (Z.of_nat idx),
                             get_inverse_divisor_eval invs idxs idx step with
                       | Some nm, Some iv => Some (nm *f iv) | _, _ => None end)
                    (seq 0 m) (Some fz),
          EnforceLagrange.lag_boundary_numerator O r frame lb, nth_error binv step with
    | Some tsum, Some bn, Some bi => Some (tsum +f bn *f bi)
    | _, _, _ => None
    end
  end.

(* evaluate_constraints: all rows; None when any row panics *)
Definition lagrange_evaluate : option (list F) :=
  let m := length (EnforceLagrange.l_coef t) in
  match divisor_evals_inv m, boundary_divisors_inv with
  | Some invs, Some binv => mapM (lagrange_combined invs (slice_indices m) binv) (seq 0 ce_size)
  | _, _ => None
  end.

(* the hook of Composition.evaluate: combined_evaluations_acc[step] += combined_evaluations *)
Definition lagrange_acc_of (lag : list F) (step : nat) (acc : F) : F := acc +f nth step lag fz.

End Lagrange.
