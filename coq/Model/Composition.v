(* C17 — executable model of the constraint composition pipeline, generic over a record of field operations.
   NO proofs here.  Sources (winterfell, /repo):
     prover/src/constraints/evaluator/periodic_table.rs   PeriodicValueTable::{new, get_row}
     prover/src/constraints/evaluator/boundary.rs         BoundaryConstraints::{new, evaluate_main, evaluate_all},
                                                          BoundaryConstraintGroup, Single/Small/LargePolyConstraint
     prover/src/constraints/evaluator/default.rs          DefaultConstraintEvaluator::{new, evaluate},
                                                          evaluate_fragment_{main,full}, evaluate_{main,aux}_transition
     prover/src/constraints/evaluation_table.rs           combine, acc_column, get_inv_evaluation
     prover/src/constraints/composition_poly.rs           CompositionPoly::{new, evaluate_at}, segment
     prover/src/domain.rs                                 get_ce_x_at, get_ce_x_power_at, ce_to_lde_blowup
     verifier/src/evaluator.rs                            evaluate_constraints
     verifier/src/lib.rs                                  recombination  sum_i z^(i*n) * H_i(z)
     air/src/air/transition/mod.rs                        TransitionConstraints::{new (split_at), combine_evaluations}
     air/src/air/boundary/constraint_group.rs             BoundaryConstraintGroup::evaluate_at
     air/src/air/boundary/constraint.rs                   BoundaryConstraint::evaluate_at
     air/src/air/divisor.rs                               ConstraintDivisor::{from_transition, evaluate_at, evaluate_exemptions_at}

   Conventions
   * One field F with operations `O : FOps F`: base field and extension field are identified (`mul_base`, `E::from`
     are the identity).  Extension-field runs are exercised by the falsifier, not by this model.
   * `option`: `None` is a Rust panic (slice index out of range, `% 0`, `/ 0` on usize).  usize values are `nat`.
   * The AIR enters as Section variables: `tmain cur next periodic` and `taux cur next aux_cur aux_next periodic rands`
     return the transition constraint evaluations; `ppolys` are `Air::get_periodic_column_polys()`; boundary constraints
     enter as the groups returned by `Air::get_boundary_constraints` (column, value polynomial, poly_offset, coefficient).
   * `rou m` is `B::get_root_of_unity(log2 m)`.  FFT-based evaluation / interpolation (`fft::evaluate_poly_with_offset`,
     `fft::interpolate_poly_with_offset`) are modelled by what they compute (direct evaluation at offset * w^i, inverse
     DFT by the direct formula); the FFT algorithms themselves are property C09.
   * Lagrange-kernel constraints (`evaluate_lagrange_kernel_constraints`, section 3 of the verifier's function) are
     modelled only as the additive hook `lagrange_acc` / `lagrange_term` and are not covered by the theorems. *)
From Coq Require Import List Arith Bool ZArith.
From VBase Require Import FieldOps.
Import ListNotations.

Section Composition.
Context {F : Type} (O : FOps F).
Local Notation fz := (fzero O).
Local Notation f1 := (fone O).
Local Infix "+f" := (fadd O) (at level 50, left associativity).
Local Infix "-f" := (fsub O) (at level 50, left associativity).
Local Infix "*f" := (fmul O) (at level 40, left associativity).
Local Infix "/f" := (fdiv O) (at level 40, left associativity).

(* ------------------------------------------------------------------ powers, polynomial evaluation, sums *)
Fixpoint cpow (x : F) (n : nat) : F := match n with 0 => f1 | S k => x *f cpow x k end.

(* semantics of a coefficient list *)
Fixpoint peval (p : list F) (x : F) : F := match p with [] => fz | c :: t => c +f x *f peval t x end.

(* polynom::eval and the Horner loop of SmallPolyConstraint::evaluate: p.iter().rev().fold(ZERO, |acc, c| acc * x + c) *)
Definition horner (p : list F) (x : F) : F := fold_left (fun acc c => acc *f x +f c) (rev p) fz.

(* evals.iter().zip(coefs).fold(ZERO, |acc, (e, c)| acc + c * e) *)
Definition lincomb (evals coefs : list F) : F :=
  fold_left (fun acc ec => acc +f snd ec *f fst ec) (combine evals coefs) fz.

(* right-nested sum / product, used by the mathematical definition *)
Definition rsum (l : list F) : F := fold_right (fun v a => v +f a) fz l.
Definition rprod (l : list F) : F := fold_right (fun v a => v *f a) f1 l.

(* a loop `for c in l { result += f(c) }` whose body may panic *)
Definition acc_opt {A} (f : A -> option F) (l : list A) (init : option F) : option F :=
  fold_left (fun acc c => match acc, f c with Some a, Some v => Some (a +f v) | _, _ => None end) l init.

Fixpoint mapM {A B} (f : A -> option B) (l : list A) : option (list B) :=
  match l with
  | [] => Some []
  | h :: t => match f h, mapM f t with Some v, Some r => Some (v :: r) | _, _ => None end
  end.

(* ------------------------------------------------------------------ domains (prover/src/domain.rs) *)
Variable n : nat.        (* trace length *)
Variable ceb : nat.      (* air.ce_blowup_factor() *)
Variable ldeb : nat.     (* options.blowup_factor() *)
Variable offset : F.     (* air.domain_offset() *)
Variable rou : nat -> F. (* get_root_of_unity, by domain size *)

Definition ce_size : nat := n * ceb.
Definition lde_size : nat := n * ldeb.
Definition wce : F := rou ce_size.
Definition gtrace : F := rou n.
(* utils::get_power_series(b, k) = [1, b, b^2, ...] by repeated multiplication *)
Fixpoint power_series_from (cur b : F) (k : nat) : list F :=
  match k with 0 => [] | S k' => cur :: power_series_from (cur *f b) b k' end.
Definition power_series (b : F) (k : nat) : list F := power_series_from f1 b k.
Definition ce_domain : list F := power_series wce ce_size.             (* get_power_series(domain_gen, ce_domain_size) *)
Definition ce_to_lde_blowup : nat := lde_size / ce_size.

Definition get_ce_x_at (step : nat) : option F :=
  match nth_error ce_domain step with Some v => Some (v *f offset) | None => None end.

(* index = step.wrapping_mul(power) & (ce_domain_size - 1); ce_domain_size is a power of two *)
Definition get_ce_x_power_at (step power : nat) (offset_exp : F) : option F :=
  match nth_error ce_domain ((step * power) mod ce_size) with Some v => Some (v *f offset_exp) | None => None end.

(* fft::evaluate_poly_with_offset(p, twiddles, off, blowup): evaluations of p over the coset off * <w>, |<w>| = len p * blowup *)
Definition eval_poly_with_offset (p : list F) (off : F) (blowup : nat) : list F :=
  let m := length p * blowup in map (fun wi => peval p (off *f wi)) (power_series (rou m) m).

(* ------------------------------------------------------------------ divisors (air/src/air/divisor.rs) *)
Record Div := mkDiv { dv_a : nat; dv_b : F; dv_ex : list F }.      (* (x^a - b) / prod (x - e) *)

Definition div_exemptions_at (d : Div) (x : F) : F := fold_left (fun r e => r *f (x -f e)) (dv_ex d) f1.
Definition div_evaluate_at (d : Div) (x : F) : F := (f1 *f (cpow x (dv_a d) -f dv_b d)) /f div_exemptions_at d x.
Definition div_from_transition (exemptions : nat) : Div :=
  mkDiv n f1 (map (cpow gtrace) (seq (n - exemptions) exemptions)).
Definition div_eqb (d e : Div) : bool :=
  (dv_a d =? dv_a e) && feqb O (dv_b d) (dv_b e) && (length (dv_ex d) =? length (dv_ex e))
  && forallb (fun p => feqb O (fst p) (snd p)) (combine (dv_ex d) (dv_ex e)).

(* ------------------------------------------------------------------ air-level boundary constraints *)
Record BC := mkBC { bc_col : nat; bc_poly : list F; bc_first : nat; bc_xoff : F; bc_cc : F }.
Record BGroup := mkBG { bg_div : Div; bg_cs : list BC }.

(* BoundaryConstraint::evaluate_at(x, trace_value) *)
Definition bc_value_at (c : BC) (x : F) : F :=
  if length (bc_poly c) =? 1 then nth 0 (bc_poly c) fz else horner (bc_poly c) (x *f bc_xoff c).
Definition bc_evaluate_at (c : BC) (x tv : F) : F := tv -f bc_value_at c x.

(* BoundaryConstraintGroup::evaluate_at(state, x) *)
Definition bg_evaluate_at (g : BGroup) (state : list F) (x : F) : option F :=
  match acc_opt (fun c => match nth_error state (bc_col c) with
                          | Some tv => Some (bc_evaluate_at c x tv *f bc_cc c) | None => None end)
                (bg_cs g) (Some fz) with
  | Some numerator => Some (numerator /f div_evaluate_at (bg_div g) x)
  | None => None
  end.

(* ------------------------------------------------------------------ the AIR *)
Variable num_main : nat.                                             (* number of main transition constraints *)
Variable tmain : list F -> list F -> list F -> list F.               (* current next periodic *)
Variable taux : list F -> list F -> list F -> list F -> list F -> list F -> list F.
                                                                     (* current next aux_current aux_next periodic rands *)
Variable num_aux : nat.
Variable ppolys : list (list F).                                     (* get_periodic_column_polys() *)
Variable exemptions : nat.
Variable tcoef : list F.                                             (* composition_coefficients.transition *)
Variable main_groups aux_groups : list BGroup.                       (* get_boundary_constraints(..).{main,aux}_constraints() *)
Variable rands : list F.                                             (* aux_rand_elements.rand_elements() *)
Variable has_aux : bool.                                             (* trace_info.is_multi_segment() *)

(* TransitionConstraints::new: split_at(main_transition_constraint_degrees.len()) *)
Definition main_coef : list F := firstn num_main tcoef.
Definition aux_coef : list F := skipn num_main tcoef.
Definition tdiv : Div := div_from_transition exemptions.

(* TransitionConstraints::combine_evaluations *)
Definition combine_evaluations (main_evals aux_evals : list F) (x : F) : F :=
  let result := lincomb main_evals main_coef in
  let result := match aux_coef with [] => result | _ => result +f lincomb aux_evals aux_coef end in
  result /f div_evaluate_at tdiv x.

(* ------------------------------------------------------------------ verifier/src/evaluator.rs *)
Definition periodic_at (x : F) : list F := map (fun p => horner p (cpow x (n / length p))) ppolys.

(* additive hook for section 3 (Lagrange kernel): not modelled further *)
Variable lagrange_term : F -> option F.

Definition evaluate_constraints (cur nxt : list F) (auxf : option (list F * list F)) (x : F) : option F :=
  let pv := periodic_at x in
  let t1 := tmain cur nxt pv in
  let t2 := match auxf with Some (ac, an) => taux cur nxt ac an pv rands | None => repeat fz num_aux end in
  let result := Some (combine_evaluations t1 t2 x) in
  let result := acc_opt (fun g => bg_evaluate_at g cur x) main_groups result in
  let result := match auxf with
                | Some (ac, _) => acc_opt (fun g => bg_evaluate_at g ac x) aux_groups result
                | None => result end in
  match result, lagrange_term x with
  | Some r, Some l => Some (r +f l)
  | Some r, None => Some r
  | None, _ => None
  end.

(* verifier/src/lib.rs: ood_constraint_evaluations.iter().enumerate().fold(ZERO, |r, (i, v)| r + z^(i * n) * v) *)
Fixpoint recombine_from (i : nat) (hs : list F) (z acc : F) : F :=
  match hs with [] => acc | v :: t => recombine_from (S i) t z (acc +f cpow z (i * n) *f v) end.
Definition recombine (hs : list F) (z : F) : F := recombine_from 0 hs z fz.

(* ------------------------------------------------------------------ the DEFINITION *)
(* comp_def(x) = sum_i alpha_i * C_i(T(x), T(g x), P(x)) / D_t(x)
               + sum_groups sum_j beta_j * (T_col_j(x) - V_j(x)) / D_group(x),
   transition coefficients: alpha_0.. for the main constraints, the following ones for the auxiliary constraints;
   P_k(x) = p_k(x^(n / len p_k));  D_t(x) = (x^n - 1) / prod_{k = n - exemptions}^{n-1} (x - g^k). *)
Variable tpolys apolys : list (list F).                              (* trace column polynomials, main / auxiliary *)

Definition def_cur (x : F) : list F := map (fun T => peval T x) tpolys.
Definition def_nxt (x : F) : list F := map (fun T => peval T (gtrace *f x)) tpolys.
Definition def_acur (x : F) : list F := map (fun T => peval T x) apolys.
Definition def_anxt (x : F) : list F := map (fun T => peval T (gtrace *f x)) apolys.
Definition def_periodic (x : F) : list F := map (fun p => peval p (cpow x (n / length p))) ppolys.
Definition def_tdiv (x : F) : F :=
  (cpow x n -f f1) /f rprod (map (fun k => x -f cpow gtrace k) (seq (n - exemptions) exemptions)).
Definition def_constraints (x : F) : list F :=
  tmain (def_cur x) (def_nxt x) (def_periodic x)
  ++ (if has_aux then taux (def_cur x) (def_nxt x) (def_acur x) (def_anxt x) (def_periodic x) rands else []).
Definition def_transition (x : F) : F :=
  rsum (map (fun ca => snd ca *f fst ca /f def_tdiv x) (combine (def_constraints x) tcoef)).
Definition def_bc_value (c : BC) (x : F) : F :=
  match bc_poly c with [v] => v | p => peval p (x *f bc_xoff c) end.
Definition def_group (polys : list (list F)) (g : BGroup) (x : F) : F :=
  rsum (map (fun c => bc_cc c *f (peval (nth (bc_col c) polys []) x -f def_bc_value c x)
                      /f (cpow x (dv_a (bg_div g)) -f dv_b (bg_div g))) (bg_cs g)).
Definition def_boundary (x : F) : F :=
  rsum (map (fun g => def_group tpolys g x) main_groups)
  +f (if has_aux then rsum (map (fun g => def_group apolys g x) aux_groups) else fz).
Definition comp_def (x : F) : F := def_transition x +f def_boundary x.

(* ------------------------------------------------------------------ PeriodicValueTable *)
Record PTable := mkPT { pt_values : list F; pt_length : nat; pt_width : nat }.

Definition ptable_new : option PTable :=
  match ppolys with
  | [] => Some (mkPT [] 0 0)
  | _ =>
    let max_poly_size := fold_left Nat.max (map (@length F) ppolys) 0 in
    let evaluations := map (fun poly =>
        let poly_size := length poly in
        let num_cycles := n / poly_size in
        eval_poly_with_offset poly (cpow offset num_cycles) ceb) ppolys in
    let row_width := length ppolys in
    let column_length := max_poly_size * ceb in
    (* values[i * row_width + j] = column_j[i % column_j.len()]   (`% 0` panics) *)
    match mapM (fun i => mapM (fun column => match length column with 0 => None
                                                | _ => nth_error column (i mod length column) end) evaluations)
               (seq 0 column_length) with
    | Some rows => Some (mkPT (concat rows) column_length row_width)
    | None => None
    end
  end.

Definition pt_get_row (t : PTable) (ce_step : nat) : option (list F) :=
  if pt_width t =? 0 then Some []
  else match pt_length t with
       | 0 => None                                                    (* `% 0` *)
       | _ => let start := (ce_step mod pt_length t) * pt_width t in
              if start + pt_width t <=? length (pt_values t)
              then Some (firstn (pt_width t) (skipn start (pt_values t))) else None
       end.

(* ------------------------------------------------------------------ prover-side boundary constraints *)
Definition SMALL_POLY_DEGREE : nat := 63.

Record SingleC := mkSC { sc_col : nat; sc_value : F; sc_cc : F }.
Record SmallC := mkPC { pc_col : nat; pc_poly : list F; pc_xoff : F; pc_cc : F }.
Record LargeC := mkLC { lc_col : nat; lc_values : list F; lc_step_offset : nat; lc_cc : F }.

Definition single_new (c : BC) : SingleC := mkSC (bc_col c) (nth 0 (bc_poly c) fz) (bc_cc c).
Definition small_new (c : BC) : SmallC := mkPC (bc_col c) (bc_poly c) (bc_xoff c) (bc_cc c).
Definition large_new (c : BC) : LargeC :=
  mkLC (bc_col c) (eval_poly_with_offset (bc_poly c) offset (ce_size / length (bc_poly c)))
       (bc_first c * ceb) (bc_cc c).

Definition single_eval (c : SingleC) (state : list F) : option F :=
  match nth_error state (sc_col c) with Some s => Some (sc_cc c *f (s -f sc_value c)) | None => None end.
Definition small_eval (c : SmallC) (state : list F) (x : F) : option F :=
  let x' := x *f pc_xoff c in
  let assertion_value := horner (pc_poly c) x' in
  match nth_error state (pc_col c) with Some s => Some (pc_cc c *f (s -f assertion_value)) | None => None end.
Definition large_value_index (c : LargeC) (ce_step : nat) : nat :=
  if 0 <? lc_step_offset c
  then (if ce_step <? lc_step_offset c then length (lc_values c) + ce_step - lc_step_offset c
        else ce_step - lc_step_offset c)
  else ce_step.
Definition large_eval (c : LargeC) (state : list F) (ce_step : nat) : option F :=
  match nth_error state (lc_col c), nth_error (lc_values c) (large_value_index c ce_step) with
  | Some s, Some v => Some (lc_cc c *f (s -f v))
  | _, _ => None
  end.

Definition is_single (c : BC) : bool := length (bc_poly c) =? 1.
Definition is_small (c : BC) : bool := negb (is_single c) && (length (bc_poly c) <? SMALL_POLY_DEGREE).
Definition is_large (c : BC) : bool := negb (is_single c) && negb (length (bc_poly c) <? SMALL_POLY_DEGREE).

Record PGroup := mkPG {
  pg_div : Div;
  pg_main_single : list SingleC; pg_main_small : list SmallC; pg_main_large : list LargeC;
  pg_aux_single : list SingleC; pg_aux_small : list SmallC; pg_aux_large : list LargeC }.

Definition pg_from_main (g : BGroup) : PGroup :=
  mkPG (bg_div g) (map single_new (filter is_single (bg_cs g))) (map small_new (filter is_small (bg_cs g)))
       (map large_new (filter is_large (bg_cs g))) [] [] [].
Definition pg_add_aux (p : PGroup) (g : BGroup) : PGroup :=
  mkPG (pg_div p) (pg_main_single p) (pg_main_small p) (pg_main_large p)
       (pg_aux_single p ++ map single_new (filter is_single (bg_cs g)))
       (pg_aux_small p ++ map small_new (filter is_small (bg_cs g)))
       (pg_aux_large p ++ map large_new (filter is_large (bg_cs g))).
Definition pg_from_aux (g : BGroup) : PGroup := pg_add_aux (mkPG (bg_div g) [] [] [] [] [] []) g.

(* result.iter_mut().find(|g| g.divisor == group.divisor()) : first match gets the constraints, else a new group is pushed *)
Fixpoint pg_merge (ps : list PGroup) (g : BGroup) : list PGroup :=
  match ps with
  | [] => [pg_from_aux g]
  | p :: t => if div_eqb (pg_div p) (bg_div g) then pg_add_aux p g :: t else p :: pg_merge t g
  end.
Definition prover_groups : list PGroup := fold_left pg_merge aux_groups (map pg_from_main main_groups).

Definition pg_evaluate_main (p : PGroup) (state : list F) (ce_step : nat) (x : F) : option F :=
  let r := acc_opt (fun c => single_eval c state) (pg_main_single p) (Some fz) in
  let r := acc_opt (fun c => small_eval c state x) (pg_main_small p) r in
  acc_opt (fun c => large_eval c state ce_step) (pg_main_large p) r.
Definition pg_evaluate_all (p : PGroup) (main_state aux_state : list F) (ce_step : nat) (x : F) : option F :=
  let r := pg_evaluate_main p main_state ce_step x in
  let r := acc_opt (fun c => single_eval c aux_state) (pg_aux_single p) r in
  let r := acc_opt (fun c => small_eval c aux_state x) (pg_aux_small p) r in
  acc_opt (fun c => large_eval c aux_state ce_step) (pg_aux_large p) r.

(* ------------------------------------------------------------------ evaluate_fragment_{main,full}: one row *)
Variable lde_main lde_aux : list (list F).            (* trace LDE, one row per LDE step *)

(* DefaultTraceLde::read_{main,aux}_trace_frame_into(lde_step): rows lde_step and (lde_step + blowup) % trace_len *)
Definition read_frame (lde : list (list F)) (lde_step : nat) : option (list F * list F) :=
  match length lde with
  | 0 => None
  | len => match nth_error lde lde_step, nth_error lde ((lde_step + ldeb) mod len) with
           | Some c, Some nx => Some (c, nx) | _, _ => None end
  end.

Definition evaluate_main_transition (t : PTable) (cur nxt : list F) (step : nat) : option F :=
  match pt_get_row t step with
  | Some pv => Some (lincomb (tmain cur nxt pv) main_coef)
  | None => None end.
Definition evaluate_aux_transition (t : PTable) (cur nxt acur anxt : list F) (step : nat) : option F :=
  match pt_get_row t step with
  | Some pv => Some (lincomb (taux cur nxt acur anxt pv rands) aux_coef)
  | None => None end.

(* row of the evaluation table at ce step `step`: [merged transition value; one value per boundary group] *)
Definition eval_row (t : PTable) (pgs : list PGroup) (step : nat) : option (list F) :=
  let lde_step := step * ce_to_lde_blowup in             (* step << lde_shift *)
  match read_frame lde_main lde_step, get_ce_x_at step with
  | Some (cur, nxt), Some x =>
    if has_aux then
      match read_frame lde_aux lde_step with
      | Some (acur, anxt) =>
        match evaluate_main_transition t cur nxt step, evaluate_aux_transition t cur nxt acur anxt step,
              mapM (fun p => pg_evaluate_all p cur acur step x) pgs with
        | Some e0, Some e1, Some rest => Some ((e0 +f e1) :: rest)
        | _, _, _ => None end
      | None => None end
    else
      match evaluate_main_transition t cur nxt step, mapM (fun p => pg_evaluate_main p cur step x) pgs with
      | Some e0, Some rest => Some (e0 :: rest)
      | _, _ => None end
  | _, _ => None
  end.

(* ------------------------------------------------------------------ evaluation_table.rs: combine / acc_column *)
(* get_inv_evaluation: 1 / (x^a - b) over the first ce_size / a points; batch_inversion maps 0 to 0 like finv *)
Definition get_inv_evaluation (d : Div) : option (list F) :=
  match dv_a d with
  | 0 => None                                                          (* ce_domain_size / 0 *)
  | a => let m := ce_size / a in
         let offset_exp := cpow offset a in
         match mapM (fun i => get_ce_x_power_at i a offset_exp) (seq 0 m) with
         | Some xs => Some (map (fun xa => finv O (xa -f dv_b d)) xs)
         | None => None end
  end.

(* the factor one table value of column `d` is multiplied with at row i *)
Definition acc_factor (d : Div) (zs : list F) (i : nat) : option F :=
  match length zs with
  | 0 => None                                                          (* i % 0 *)
  | len =>
    match nth_error zs (i mod len) with
    | Some z =>
      match dv_ex d with
      | [] => Some z
      | _ => match get_ce_x_at i with Some x => Some (z *f div_exemptions_at d x) | None => None end
      end
    | None => None end
  end.

Definition combine_row (divs : list (Div * list F)) (i : nat) (row : list F) : option F :=
  acc_opt (fun vd => match acc_factor (fst (snd vd)) (snd (snd vd)) i with
                     | Some k => Some (fst vd *f k) | None => None end)
          (combine row divs) (Some fz).

(* additive hook for evaluate_lagrange_kernel_constraints (not modelled further) *)
Variable lagrange_acc : nat -> F -> F.

(* DefaultConstraintEvaluator::new(..).evaluate(trace, domain).into_inner() *)
Definition evaluate : option (list F) :=
  match ptable_new with
  | None => None
  | Some t =>
    let pgs := prover_groups in
    let divisors := tdiv :: map pg_div pgs in
    match mapM (fun d => match get_inv_evaluation d with Some zs => Some (d, zs) | None => None end) divisors with
    | None => None
    | Some divs =>
      mapM (fun i => match eval_row t pgs i with
                     | Some row => match combine_row divs i row with
                                   | Some v => Some (lagrange_acc i v) | None => None end
                     | None => None end) (seq 0 ce_size)
    end
  end.

(* ------------------------------------------------------------------ composition_poly.rs *)
(* fft::interpolate_poly_with_offset by its defining formula: c_j = offset^-j / N * sum_i e_i w^(-i j) *)
Definition interpolate_with_offset (evals : list F) : list F :=
  let N := length evals in
  let winv := finv O (rou N) in
  let ninv := finv O (fofz O (Z.of_nat N)) in
  let oinv := finv O offset in
  map (fun j => cpow oinv j *f ninv *f
                rsum (map (fun we => snd we *f fst we) (combine (power_series (cpow winv j) N) evals)))
      (seq 0 N).

(* coefficients.chunks(trace_len).take(num_cols) *)
Fixpoint chunks_fuel (fuel k : nat) (l : list F) : list (list F) :=
  match fuel with
  | 0 => []
  | S f => match l with [] => [] | _ => firstn k l :: chunks_fuel f k (skipn k l) end
  end.
Definition chunks (k : nat) (l : list F) : option (list (list F)) :=
  match k with 0 => None | _ => Some (chunks_fuel (length l) k l) end.     (* chunks(0) panics *)
Definition segment (coefficients : list F) (trace_len num_cols : nat) : option (list (list F)) :=
  match chunks trace_len coefficients with Some cs => Some (firstn num_cols cs) | None => None end.

(* CompositionPoly::new(trace, domain, num_cols): assert!(trace_length < num_rows) *)
Definition composition_poly_new (interp : list F -> list F) (evals : list F) (num_cols : nat) : option (list (list F)) :=
  if n <? length evals then segment (interp evals) n num_cols else None.

(* CompositionPoly::evaluate_at(z) = evaluate_columns_at *)
Definition cp_evaluate_at (cols : list (list F)) (z : F) : list F := map (fun c => horner c z) cols.

End Composition.

(* ------------------------------------------------------------------ the transition functions of the harness AIR family
   (harness/src/airfam.rs FamAir::evaluate_transition / evaluate_aux_transition), used by the extracted driver *)
Section Family.
Context {F : Type} (O : FOps F).
Local Notation fz := (fzero O).
Local Notation f1 := (fone O).
Local Infix "+f" := (fadd O) (at level 50, left associativity).
Local Infix "-f" := (fsub O) (at level 50, left associativity).
Local Infix "*f" := (fmul O) (at level 40, left associativity).

(* per column: declared degree, hold flag, periodic index + 1 (0 = none), constant *)
Definition fam_tmain (cols : list (nat * bool * nat * F)) (cur nxt pers : list F) : list F :=
  let w := length cols in
  map (fun ic : nat * (nat * bool * nat * F) =>
         let c := fst ic in
         match snd ic with
         | (d, hold, pidx, k) =>
           let cu := nth c cur fz in
           let nx := nth c nxt fz in
           if hold then nx -f cu
           else let per := match pidx with 0 => f1 | S i => f1 +f nth i pers fz end in
                nx -f (cpow O cu d *f per +f k *f nth ((c + 1) mod w) cur fz)
         end) (combine (seq 0 w) cols).

Definition fam_taux (w aux_w : nat) (cur nxt acur anxt pers rands : list F) : list F :=
  let r := fun i => match rands with [] => f1 | _ => nth (i mod length rands) rands fz end in
  map (fun j => match j with
                | 0 => nth 0 anxt fz -f nth 0 acur fz *f (nth 0 cur fz +f r 0)
                | _ => nth j anxt fz -f (nth j acur fz +f r j *f nth (j mod w) cur fz)
                end) (seq 0 aux_w).
End Family.
