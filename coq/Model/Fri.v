(* C15 / C05 — executable model of /repo/fri/src (winter-fri): folding/mod.rs, utils.rs, options.rs,
   prover/{mod,channel}.rs, verifier/{mod,channel}.rs, proof.rs (decoded level), errors.rs.
   The model follows the REPAIRED working tree: `verify_generic` recomputes the remainder commitment
   (fixes/c05-fri-remainder-commitment-check.diff); [verify_generic_unrepaired] is the code before it;
   `FriVerifier::new` derives the domain size from max_poly_degree + 1
   (fixes/c15-fri-verifier-domain-size.diff).
   NO proofs here (Proofs/Fri*.v).

   Conventions
   * usize values (positions, domain sizes, degrees) are `nat`; none of the modelled additions can
     overflow a 64-bit usize for inputs a `Vec` can hold, except `(remainder_max_degree + 1) * blowup`
     which is left unbounded (documented in notes/C15.design.md).
   * `res A = Ok a | Err e | Panic`: `Err` carries the `VerifierError` variant, `Panic` stands for every
     `assert!`, `expect`, `unwrap`, slice index out of range, division by zero, `ilog2(0)`,
     `unimplemented!` of the Rust code.  `dbg` = debug-assertions (`debug_assert!` in interpolate_batch).
   * One carrier `F` with operations `O : FOps F` stands for the FRI field `E`; base-field values
     (domain offset, roots of unity) are given already embedded in `E` (`E::from` is a ring embedding,
     so `E::from(a * b) = E::from(a) * E::from(b)`).
   * Field values are computed by value-equivalent formulas, not operation by operation:
       - the size-N inverse FFT of a row (`serial_fft(&mut poly, &inv_twiddles)`) is the direct inverse
         DFT  c_k = sum_j v_j * winv^(j*k)  ([idft]), winv = root^(N-1) as in `get_inv_twiddles`;
       - `polynom::interpolate_batch` followed by `polynom::eval(p, alpha)` is the Lagrange form
         sum_j y_j * prod_{k<>j}(alpha - x_k) * inv(prod_{k<>j}(x_j - x_k))  ([interp_eval]); like
         `batch_inversion` it maps a zero denominator to zero, so it agrees with the code for ALL inputs;
       - `fft::interpolate_poly_with_offset` of the remainder is a recursive radix-2 inverse FFT ([fft_rec],
         equal to [idft]) + the same scaling loop.
     The correspondence run (checks/c15.py, checks/c05.py) compares every one of these values with the
     real crate.
   * Externals are Section variables: the digest type, `H::hash_elements`, the Merkle tree operations
     (`MerkleTree::new / root / prove_batch`, `BatchMerkleProof` nodes, `MerkleTree::verify_batch`), the
     public coin (`reseed`, `draw`), `B::get_root_of_unity`, `B::TWO_ADICITY`, `B::GENERATOR`.
   * "Decoded level": a proof layer is (flat list of queried values, Merkle batch-proof nodes); the leaves
     of the batch proof are recomputed from the values by `FriProofLayer::parse`, which is modelled in
     [channel_new]; byte (de)serialisation belongs to C12. *)
From Coq Require Import List Arith Bool ZArith.
From VBase Require Import FieldOps.
Import ListNotations.

(* ---------------------------------------------------------------- errors.rs *)
Inductive verr : Type :=
| RandomCoinError
| UnsupportedFoldingFactor (n : nat)
| NumPositionEvaluationMismatch (npos nevals : nat)
| LayerCommitmentMismatch
| InvalidLayerFolding (depth : nat)
| RemainderCommitmentMismatch
| InvalidRemainderFolding
| RemainderDegreeNotValid
| RemainderDegreeMismatch (degree : nat)
| DegreeTruncation (degree folding depth : nat).

Inductive res (A : Type) : Type := Ok (a : A) | Err (e : verr) | Panic.
Arguments Ok {A} a.
Arguments Err {A} e.
Arguments Panic {A}.

Definition bind {A B : Type} (r : res A) (f : A -> res B) : res B :=
  match r with Ok a => f a | Err e => Err e | Panic => Panic end.
Notation "x <- r ;; k" := (bind r (fun x => k)) (at level 61, r at next level, right associativity).
Notation "' pat <- r ;; k" := (bind r (fun x => match x with pat => k end))
  (at level 61, pat pattern, r at next level, right associativity).

Definition of_option {A : Type} (o : option A) : res A := match o with Some a => Ok a | None => Panic end.

Fixpoint mapM {A B : Type} (f : A -> res B) (l : list A) : res (list B) :=
  match l with [] => Ok [] | a :: r => b <- f a ;; bs <- mapM f r ;; Ok (b :: bs) end.

Fixpoint map2 {A B C : Type} (f : A -> B -> C) (a : list A) (b : list B) : list C :=
  match a, b with x :: a', y :: b' => f x y :: map2 f a' b' | _, _ => [] end.

(* l[i] *)
Definition idx {A : Type} (l : list A) (i : nat) : res A := of_option (nth_error l i).

Definition is_nil {A : Type} (l : list A) : bool := match l with [] => true | _ => false end.

(* usize::is_power_of_two / ilog2 / next_power_of_two *)
Definition is_pow2 (n : nat) : bool := (0 <? n) && (2 ^ Nat.log2 n =? n).
Definition ilog2 (n : nat) : res nat := if n =? 0 then Panic else Ok (Nat.log2 n).
Definition next_pow2 (n : nat) : nat := if n <=? 1 then 1 else 2 ^ S (Nat.log2 (n - 1)).

(* ---------------------------------------------------------------- folding/mod.rs fold_positions *)
(* `if !result.contains(&position) { result.push(position) }` *)
Definition push_new (acc : list nat) (p : nat) : list nat :=
  if existsb (Nat.eqb p) acc then acc else acc ++ [p].

Definition fold_positions_core (positions : list nat) (target : nat) : list nat :=
  fold_left (fun acc p => push_new acc (p mod target)) positions [].

Definition fold_positions (positions : list nat) (source_domain_size folding_factor : nat) : res (list nat) :=
  if folding_factor =? 0 then Panic                                   (* division by zero *)
  else
    let target := source_domain_size / folding_factor in
    if (target =? 0) && negb (is_nil positions) then Panic            (* position % 0 *)
    else Ok (fold_positions_core positions target).

(* ---------------------------------------------------------------- utils.rs map_positions_to_indexes *)
Definition map_positions_to_indexes (positions : list nat) (source_domain_size folding_factor num_partitions : nat)
  : res (list nat) :=
  if num_partitions =? 1 then Ok positions
  else if folding_factor =? 0 then Panic
  else if num_partitions =? 0 then Panic                              (* target_domain_size / num_partitions *)
  else
    let target := source_domain_size / folding_factor in
    let partition_size := target / num_partitions in
    Ok (map (fun position =>
               let partition_idx := position mod num_partitions in
               let local_idx := (position - partition_idx) / num_partitions in
               partition_idx * partition_size + local_idx) positions).

(* ---------------------------------------------------------------- options.rs *)
Record fri_options : Type := mkOpts { fo_blowup : nat; fo_folding : nat; fo_remmax : nat }.

Definition supported_folding (n : nat) : bool := (n =? 2) || (n =? 4) || (n =? 8) || (n =? 16).

Definition options_new (blowup folding remmax : nat) : res fri_options :=
  if negb (is_pow2 blowup) then Panic
  else if negb (supported_folding folding) then Panic
  else Ok (mkOpts blowup folding remmax).

(* `while domain_size > max_remainder_size { domain_size /= folding_factor; result += 1 }`.
   None = the call does not return a value (division by zero for folding_factor = 0, endless loop for
   folding_factor = 1); impossible for options built by [options_new] (Proofs: num_fri_layers_total). *)
Fixpoint nfl_loop (fuel domain_size max_rem ff acc : nat) : option nat :=
  if domain_size <=? max_rem then Some acc
  else match fuel with
       | 0 => None
       | S f => if ff =? 0 then None else nfl_loop f (domain_size / ff) max_rem ff (S acc)
       end.

Definition max_remainder_size (o : fri_options) : nat := (fo_remmax o + 1) * fo_blowup o.

Definition num_fri_layers (o : fri_options) (domain_size : nat) : option nat :=
  nfl_loop (S domain_size) domain_size (max_remainder_size o) (fo_folding o) 0.

(* domain size after k foldings *)
Fixpoint folded_size (k domain_size ff : nat) : nat :=
  match k with 0 => domain_size | S k' => folded_size k' (domain_size / ff) ff end.

(* ---------------------------------------------------------------- utils crate: transpose / group *)
Section Slices.
Context {A : Type} (d : A).

(* transpose_slice::<T, N> *)
Definition transpose_slice (N : nat) (source : list A) : res (list (list A)) :=
  if N =? 0 then Panic
  else
    let rc := length source / N in
    if negb (rc * N =? length source) then Panic
    else Ok (map (fun i => map (fun j => nth (i + j * rc) source d) (seq 0 N)) (seq 0 rc)).

Fixpoint chunks (fuel N : nat) (l : list A) : list (list A) :=
  match fuel with
  | 0 => []
  | S f => match l with [] => [] | _ => firstn N l :: chunks f N (skipn N l) end
  end.

(* group_slice_elements::<T, N> *)
Definition group_slice (N : nat) (source : list A) : res (list (list A)) :=
  if N =? 0 then Panic
  else if negb (length source mod N =? 0) then Panic
  else Ok (chunks (length source) N source).
End Slices.

Inductive draw_res (F : Type) : Type := DrawOk (a : F) | DrawErr | DrawPanic.
Arguments DrawOk {F} a.
Arguments DrawErr {F}.
Arguments DrawPanic {F}.

Inductive auth_res : Type := AuthOk | AuthErr | AuthPanic.

Section Fri.
Context {F : Type} (O : FOps F).
Local Notation zero := (fzero O).
Local Notation one := (fone O).
Local Infix "+f" := (fadd O) (at level 50, left associativity).
Local Infix "-f" := (fsub O) (at level 50, left associativity).
Local Infix "*f" := (fmul O) (at level 40, left associativity).

Variable root_of_unity : nat -> F.      (* E::from(B::get_root_of_unity(k)), 1 <= k <= two_adicity *)
Variable two_adicity : nat.             (* B::TWO_ADICITY *)
Variable gen_offset : F.                (* E::from(B::GENERATOR) = FriOptions::domain_offset() *)
Variable dbg : bool.                    (* debug-assertions *)

(* ---------------------------------------------------------------- field helpers *)
Fixpoint peval (p : list F) (x : F) : F :=
  match p with [] => zero | c :: t => c +f x *f peval t x end.

Fixpoint fpow (x : F) (n : nat) : F :=
  match n with 0 => one | S n' => x *f fpow x n' end.

(* exp_vartime: square-and-multiply on the binary exponent (value = [fpow], Proofs/FriField.v fexp_spec) *)
Fixpoint fpow_pos (x : F) (e : positive) : F :=
  match e with
  | xH => x
  | xO e' => let r := fpow_pos x e' in r *f r
  | xI e' => let r := fpow_pos x e' in x *f (r *f r)
  end.
Definition fexp (x : F) (n : nat) : F :=
  match N.of_nat n with N0 => one | Npos p => fpow_pos x p end.

(* E::from(n as u32) *)
Fixpoint fnat (n : nat) : F := match n with 0 => zero | S n' => one +f fnat n' end.

Fixpoint list_feqb (a b : list F) : bool :=
  match a, b with
  | [], [] => true
  | x :: a', y :: b' => feqb O x y && list_feqb a' b'
  | _, _ => false
  end.

(* get_root_of_unity(n): assert!(n != 0); assert!(n <= TWO_ADICITY) *)
Definition get_rou (k : nat) : res F :=
  if (k =? 0) || (two_adicity <? k) then Panic else Ok (root_of_unity k).

(* get_power_series_with_offset(b, s, n) = [s, s*b, s*b^2, ...] *)
Fixpoint power_series_from (start b : F) (n : nat) : list F :=
  match n with 0 => [] | S n' => start :: power_series_from (start *f b) b n' end.

(* unnormalised inverse DFT of a list with respect to winv:  c_k = sum_j row_j * (winv^k)^j *)
Definition idft (N : nat) (winv : F) (row : list F) : list F :=
  map (fun wk => peval row wk) (power_series_from one winv N).

(* radix-2 decimation-in-time FFT on lists, natural order (value = [idft (2^k)], Proofs/FriField.v
   fft_rec_idft); used for the remainder interpolation, whose domain can be large *)
Fixpoint split_eo (l : list F) : list F * list F :=
  match l with
  | [] => ([], [])
  | [a] => ([a], [])
  | a :: b :: t => let (e, o) := split_eo t in (a :: e, b :: o)
  end.
Fixpoint fft_rec (k : nat) (w : F) (l : list F) : list F :=
  match k with
  | 0 => l
  | S k' =>
    let (e, o) := split_eo l in
    let E := fft_rec k' (w *f w) e in
    let Od := fft_rec k' (w *f w) o in
    let T := map2 (fmul O) (power_series_from one w (2 ^ k')) Od in
    map2 (fadd O) E T ++ map2 (fsub O) E T
  end.

(* `for coeff in poly.iter_mut() { *coeff *= offset; offset *= increment }` *)
Fixpoint scale_series (v : list F) (offset increment : F) : list F :=
  match v with [] => [] | c :: t => (c *f offset) :: scale_series t (offset *f increment) increment end.

(* get_inv_twiddles(n): the root the twiddles are powers of.  assert pow2; ilog2 <= TWO_ADICITY; get_root_of_unity *)
Definition inv_twiddle_root (n : nat) : res F :=
  if negb (is_pow2 n) then Panic
  else w <- get_rou (Nat.log2 n) ;; Ok (fexp w (n - 1)).

(* ---------------------------------------------------------------- folding/mod.rs apply_drp *)
(* one row: interpolate (inverse FFT, scale by len_offset * inv_offset^k), evaluate at alpha *)
Definition drp_row (N : nat) (winv len_offset inv_offset alpha : F) (row : list F) : F :=
  peval (scale_series (idft N winv row) len_offset inv_offset) alpha.

(* get_inv_offsets(domain_size, domain_offset, folding_factor) *)
Definition get_inv_offsets (rows : nat) (offset : F) (N : nat) : res (list F) :=
  k <- ilog2 (rows * N) ;;
  g <- get_rou k ;;
  Ok (power_series_from (finv O offset) (finv O g) rows).

Definition apply_drp (N : nat) (values : list (list F)) (offset alpha : F) : res (list F) :=
  inv_offsets <- get_inv_offsets (length values) offset N ;;
  winv <- inv_twiddle_root N ;;
  let len_offset := finv O (fnat N) in
  Ok (map2 (fun row io => drp_row N winv len_offset io alpha row) values inv_offsets).

(* ---------------------------------------------------------------- Lagrange form of interpolate_batch + eval *)
Fixpoint prod_diff (a : F) (l : list F) : F :=
  match l with [] => one | x :: t => (a -f x) *f prod_diff a t end.

Fixpoint lagrange_from (pre post ys : list F) (a : F) : F :=
  match post, ys with
  | x :: post', y :: ys' =>
      let others := pre ++ post' in
      (y *f finv O (prod_diff x others)) *f prod_diff a others +f lagrange_from (pre ++ [x]) post' ys' a
  | _, _ => zero
  end.

Definition interp_eval (xs ys : list F) (a : F) : F := lagrange_from [] xs ys a.

(* verifier/mod.rs eval_horner (value) *)
Definition eval_horner (p : list F) (x : F) : F := peval p x.

(* ---------------------------------------------------------------- externals *)
Variable D : Type.
Variable D_eqb : D -> D -> bool.
Variable hash_elements : list F -> D.                      (* H::hash_elements(&[E]) *)
Variable MT : Type.                                        (* MerkleTree<H> *)
Variable MN : Type.                                        (* nodes of a BatchMerkleProof<H> *)
Variable mt_new : list D -> option MT.                     (* None = Err(..) (the prover `expect`s) *)
Variable mt_root : MT -> D.
Variable mt_prove_batch : MT -> list nat -> option MN.     (* None = Err(..) (the prover `expect`s) *)
Variable mt_verify_batch : D -> list nat -> list D -> MN -> nat -> auth_res.
                                                           (* root, indexes, proof leaves, proof nodes, depth *)
Variable CS : Type.                                        (* RandomCoin state *)
Variable cs_reseed : CS -> D -> CS.
Variable cs_draw : CS -> CS * draw_res F.

(* ================================================================ PROVER *)
Record fri_layer : Type := mkLayer { fl_tree : MT; fl_evals : list F (* flattened transposed rows *) }.
Record prover : Type := mkProver { pr_options : fri_options; pr_layers : list fri_layer; pr_remainder : list F }.
Record pchannel : Type := mkPCh { pc_coin : CS; pc_commitments : list D }.

Record proof_layer : Type := mkPL { pl_values : list F (* num_queries * N values *); pl_nodes : MN }.
Record fri_proof : Type := mkProof { fp_layers : list proof_layer; fp_remainder : list F; fp_partitions : nat }.

Definition prover_new (o : fri_options) : prover := mkProver o [] [].
Definition prover_reset (p : prover) : prover := mkProver (pr_options p) [] [].

(* DefaultProverChannel *)
Definition pc_commit (c : pchannel) (root : D) : pchannel :=
  mkPCh (cs_reseed (pc_coin c) root) (pc_commitments c ++ [root]).
Definition pc_draw_alpha (c : pchannel) : res (pchannel * F) :=
  let (cs, r) := cs_draw (pc_coin c) in
  match r with DrawOk a => Ok (mkPCh cs (pc_commitments c), a) | _ => Panic end.   (* expect("failed to draw FRI alpha") *)

(* build_layer::<N> *)
Definition build_layer (N : nat) (p : prover) (c : pchannel) (evaluations : list F)
  : res (prover * pchannel * list F) :=
  rows <- transpose_slice zero N evaluations ;;
  tree <- of_option (mt_new (map hash_elements rows)) ;;
  let c1 := pc_commit c (mt_root tree) in
  '(c2, alpha) <- pc_draw_alpha c1 ;;
  evals' <- apply_drp N rows gen_offset alpha ;;
  Ok (mkProver (pr_options p) (pr_layers p ++ [mkLayer tree (concat rows)]) (pr_remainder p), c2, evals').

(* fft::interpolate_poly_with_offset (values) *)
Definition interpolate_poly_with_offset (evaluations : list F) (offset : F) : res (list F) :=
  let n := length evaluations in
  winv <- inv_twiddle_root n ;;
  if feqb O offset zero then Panic
  else Ok (scale_series (fft_rec (Nat.log2 n) winv evaluations) (finv O (fnat n)) (finv O offset)).

(* set_remainder *)
Definition set_remainder (p : prover) (c : pchannel) (evaluations : list F) : res (prover * pchannel) :=
  coeffs <- interpolate_poly_with_offset evaluations gen_offset ;;
  if fo_blowup (pr_options p) =? 0 then Panic
  else
    let remainder_poly := firstn (length evaluations / fo_blowup (pr_options p)) coeffs in
    let commitment := hash_elements remainder_poly in
    Ok (mkProver (pr_options p) (pr_layers p) remainder_poly, pc_commit c commitment).

Fixpoint build_layers_loop (k N : nat) (p : prover) (c : pchannel) (evaluations : list F)
  : res (prover * pchannel * list F) :=
  match k with
  | 0 => Ok (p, c, evaluations)
  | S k' =>
    '(p1, c1, e1) <- build_layer N p c evaluations ;;
    build_layers_loop k' N p1 c1 e1
  end.

(* build_layers *)
Definition build_layers (p : prover) (c : pchannel) (evaluations : list F) : res (prover * pchannel) :=
  if negb (is_nil (pr_layers p)) then Panic               (* assert!(self.layers.is_empty()) *)
  else
    k <- of_option (num_fri_layers (pr_options p) (length evaluations)) ;;
    let N := fo_folding (pr_options p) in
    if (0 <? k) && negb (supported_folding N) then Panic  (* unimplemented! *)
    else
      '(p1, c1, e1) <- build_layers_loop k N p c evaluations ;;
      set_remainder p1 c1 e1.

(* query_layer::<N> *)
Definition query_layer (N : nat) (layer : fri_layer) (positions : list nat) : res proof_layer :=
  nodes <- of_option (mt_prove_batch (fl_tree layer) positions) ;;
  rows <- group_slice N (fl_evals layer) ;;
  queried <- mapM (fun position => idx rows position) positions ;;
  if is_nil queried then Panic                            (* FriProofLayer::new: assert!(!query_values.is_empty()) *)
  else Ok (mkPL (concat queried) nodes).

Fixpoint query_layers (N : nat) (layers : list fri_layer) (positions : list nat) (domain_size : nat)
  : res (list proof_layer) :=
  match layers with
  | [] => Ok []
  | layer :: rest =>
    positions' <- fold_positions positions domain_size N ;;
    pl <- query_layer N layer positions' ;;
    pls <- query_layers N rest positions' (domain_size / N) ;;
    Ok (pl :: pls)
  end.

(* build_proof: returns the prover after `reset()` and the proof *)
Definition build_proof (p : prover) (positions : list nat) : res (prover * fri_proof) :=
  if is_nil (pr_remainder p) then Panic                   (* assert!(!self.remainder_poly.0.is_empty()) *)
  else
    let N := fo_folding (pr_options p) in
    layers <- match pr_layers p with
              | [] => Ok []
              | l0 :: _ =>
                if negb (supported_folding N) then Panic
                else query_layers N (pr_layers p) positions (length (fl_evals l0))
              end ;;
    let remainder := pr_remainder p in
    if negb (is_pow2 (length remainder)) then Panic       (* FriProof::new asserts *)
    else Ok (prover_reset p, mkProof layers remainder 1).

(* ================================================================ VERIFIER CHANNEL (decoded) *)
Record vchannel : Type := mkVCh {
  vc_commitments : list D;
  vc_proofs : list (list D * MN * nat);      (* BatchMerkleProof: leaves, nodes, depth *)
  vc_queries : list (list F);
  vc_remainder : list F;
  vc_partitions : nat }.

Inductive chan_res : Type := ChOk (c : vchannel) | ChErr | ChPanic.   (* ChErr = DeserializationError *)

(* FriProofLayer::parse at the decoded level *)
Definition parse_layer (N : nat) (domain_size : nat) (pl : proof_layer) : option (option (list F * (list D * MN * nat))) :=
  (* outer None = panic, inner None = DeserializationError *)
  if N =? 0 then None else
  if negb (length (pl_values pl) mod N =? 0) then Some None else
  let num_queries := length (pl_values pl) / N in
  if num_queries =? 0 then Some None else
  let rows := chunks (length (pl_values pl)) N (pl_values pl) in
  let hashed := map hash_elements rows in
  if domain_size =? 0 then None (* ilog2(0) *) else
  let depth := Nat.log2 domain_size in
  if depth =? 0 then Some None else            (* BatchMerkleProof::deserialize rejects depth 0 *)
  if 255 <? length hashed then Some None else  (* ... and more than 255 leaves *)
  Some (Some (pl_values pl, (hashed, pl_nodes pl, depth))).

Fixpoint parse_layers (N : nat) (domain_size : nat) (layers : list proof_layer)
  : option (option (list (list F) * list (list D * MN * nat))) :=
  match layers with
  | [] => Some (Some ([], []))
  | pl :: rest =>
    (* `if domain_size < folding_factor { return Err(..) }` (fix d92dc82) *)
    if domain_size <? N then Some None else
    let ds := domain_size / N in
    match parse_layer N ds pl with
    | None => None
    | Some None => Some None
    | Some (Some (q, mp)) =>
      match parse_layers N ds rest with
      | None => None
      | Some None => Some None
      | Some (Some (qs, mps)) => Some (Some (q :: qs, mp :: mps))
      end
    end
  end.

(* DefaultVerifierChannel::new *)
Definition channel_new (proof : fri_proof) (commitments : list D) (domain_size folding_factor : nat) : chan_res :=
  (* parse_remainder: the number of elements must be a power of two *)
  if negb (is_pow2 (length (fp_remainder proof))) then ChErr else
  (* parse_layers asserts *)
  if negb (is_pow2 domain_size) then ChPanic else
  if negb (is_pow2 folding_factor) then ChPanic else
  if folding_factor <=? 1 then ChPanic else
  match parse_layers folding_factor domain_size (fp_layers proof) with
  | None => ChPanic
  | Some None => ChErr
  | Some (Some (qs, mps)) => ChOk (mkVCh commitments mps qs (fp_remainder proof) (fp_partitions proof))
  end.

(* ================================================================ VERIFIER *)
Record verifier : Type := mkVerifier {
  v_max_poly_degree : nat;
  v_domain_size : nat;
  v_domain_generator : F;
  v_commitments : list D;
  v_alphas : list F;
  v_options : fri_options;
  v_partitions : nat }.

(* the loop of FriVerifier::new over the layer commitments *)
Fixpoint draw_alphas (coin : CS) (commitments : list D) (depth last : nat) (mdp1 ff : nat)
  : res (CS * list F) :=
  match commitments with
  | [] => Ok (coin, [])
  | c :: rest =>
    let coin1 := cs_reseed coin c in
    let (coin2, r) := cs_draw coin1 in
    match r with
    | DrawPanic => Panic
    | DrawErr => Err RandomCoinError
    | DrawOk alpha =>
      if ff =? 0 then Panic                                             (* % 0 *)
      else if negb (depth =? last) && negb (mdp1 mod ff =? 0)
      then Err (DegreeTruncation (mdp1 - 1) ff depth)
      else
        '(coinF, alphas) <- draw_alphas coin2 rest (S depth) last (mdp1 / ff) ff ;;
        Ok (coinF, alpha :: alphas)
    end
  end.

(* FriVerifier::new; returns the verifier, the channel (commitments drained) and the coin *)
Definition verifier_new (ch : vchannel) (coin : CS) (o : fri_options) (max_poly_degree : nat)
  : res (verifier * vchannel * CS) :=
  let domain_size := next_pow2 (max_poly_degree + 1) * fo_blowup o in   (* repaired: was next_pow2 max_poly_degree *)
  k <- ilog2 domain_size ;;
  g <- get_rou k ;;
  let commitments := vc_commitments ch in
  let ch' := mkVCh [] (vc_proofs ch) (vc_queries ch) (vc_remainder ch) (vc_partitions ch) in
  '(coin', alphas) <- draw_alphas coin commitments 0 (length commitments - 1) (max_poly_degree + 1) (fo_folding o) ;;
  Ok (mkVerifier max_poly_degree domain_size g commitments alphas o (vc_partitions ch), ch', coin').

(* get_query_values::<E, N> *)
Fixpoint find_index (v : nat) (l : list nat) : option nat :=
  match l with
  | [] => None
  | x :: t => if x =? v then Some 0 else match find_index v t with Some i => Some (S i) | None => None end
  end.

Definition get_query_values (N : nat) (rows : list (list F)) (positions folded_positions : list nat)
  (domain_size : nat) : res (list F) :=
  if N =? 0 then Panic else
  let row_length := domain_size / N in
  mapM (fun position =>
          if row_length =? 0 then Panic else
          i <- of_option (find_index (position mod row_length) folded_positions) ;;
          row <- idx rows i ;;
          idx row (position / row_length)) positions.

(* VerifierChannel::read_layer_queries::<N> *)
Definition read_layer_queries (N : nat) (ch : vchannel) (indexes : list nat) (commitment : D)
  : res (vchannel * list (list F)) :=
  match vc_proofs ch with
  | [] => Panic                                           (* layer_proofs.remove(0) *)
  | (leaves, nodes, depth) :: proofs' =>
    match mt_verify_batch commitment indexes leaves nodes depth with
    | AuthPanic => Panic
    | AuthErr => Err LayerCommitmentMismatch
    | AuthOk =>
      match vc_queries ch with
      | [] => Panic                                       (* layer_queries.remove(0) *)
      | q :: queries' =>
        rows <- group_slice N q ;;
        Ok (mkVCh (vc_commitments ch) proofs' queries' (vc_remainder ch) (vc_partitions ch), rows)
      end
    end
  end.

(* x coordinates of the row at folded position i:  (g^i * offset) * folding_roots[j] *)
Definition row_xs (folding_roots : list F) (g : F) (i : nat) : list F :=
  let xe := fexp g i *f gen_offset in
  map (fun r => xe *f r) folding_roots.

Record vstate : Type := mkVS {
  vs_gen : F; vs_size : nat; vs_mdp1 : nat; vs_positions : list nat; vs_evals : list F; vs_chan : vchannel }.

(* one iteration of the layer loop of verify_generic::<N> *)
Definition layer_step (N : nat) (v : verifier) (folding_roots : list F) (depth : nat) (s : vstate) : res vstate :=
  folded <- fold_positions (vs_positions s) (vs_size s) (fo_folding (v_options v)) ;;
  indexes <- map_positions_to_indexes folded (vs_size s) (fo_folding (v_options v)) (v_partitions v) ;;
  commitment <- idx (v_commitments v) depth ;;
  '(ch', rows) <- read_layer_queries N (vs_chan s) indexes commitment ;;
  query_values <- get_query_values N rows (vs_positions s) folded (vs_size s) ;;
  if negb (list_feqb (vs_evals s) query_values) then Err (InvalidLayerFolding depth)
  else
    let xs := map (row_xs folding_roots (vs_gen s)) folded in
    (* polynom::interpolate_batch(&xs, &layer_values) *)
    if dbg && negb (length xs =? length rows) then Panic
    else if length rows <? length xs then Panic
    else
      alpha <- idx (v_alphas v) depth ;;
      let evals' := map2 (fun x r => interp_eval x r alpha) xs rows in
      if negb (vs_mdp1 s mod N =? 0) then Err (DegreeTruncation (vs_mdp1 s - 1) N depth)
      else Ok (mkVS (fexp (vs_gen s) N) (vs_size s / N) (vs_mdp1 s / N) folded evals' ch').

Fixpoint layers_loop (k : nat) (N : nat) (v : verifier) (folding_roots : list F) (depth : nat) (s : vstate)
  : res vstate :=
  match k with
  | 0 => Ok s
  | S k' => s' <- layer_step N v folding_roots depth s ;; layers_loop k' N v folding_roots (S depth) s'
  end.

(* `for (&position, evaluation) in positions.iter().zip(evaluations)` *)
Fixpoint remainder_check (remainder : list F) (g : F) (positions : list nat) (evals : list F) : bool :=
  match positions, evals with
  | p :: ps, e :: es =>
    feqb O (eval_horner remainder (gen_offset *f fexp g p)) e && remainder_check remainder g ps es
  | _, _ => true
  end.

Definition folding_roots_of (N : nat) (v : verifier) : list F :=
  map (fun i => fexp (v_domain_generator v) (v_domain_size v / N * i)) (seq 0 N).

(* the remainder part of verify_generic; [check_commitment] = true for the repaired code *)
Definition verify_remainder (check_commitment : bool) (v : verifier) (num_layers : nat) (s : vstate) : res unit :=
  let remainder_poly := vc_remainder (vs_chan s) in               (* read_remainder: take_fri_remainder *)
  if check_commitment &&
     negb (match nth_error (v_commitments v) num_layers with
           | Some c => D_eqb c (hash_elements remainder_poly)
           | None => false
           end)
  then Err RemainderCommitmentMismatch
  else if vs_mdp1 s <? length remainder_poly then Err (RemainderDegreeMismatch (vs_mdp1 s - 1))
  else if remainder_check remainder_poly (vs_gen s) (vs_positions s) (vs_evals s) then Ok tt
  else Err InvalidRemainderFolding.

Definition verify_generic_gen (check_commitment : bool) (N : nat) (v : verifier) (ch : vchannel)
  (evaluations : list F) (positions : list nat) : res unit :=
  if N =? 0 then Panic else
  let folding_roots := folding_roots_of N v in
  num_layers <- of_option (num_fri_layers (v_options v) (v_domain_size v)) ;;
  let s0 := mkVS (v_domain_generator v) (v_domain_size v) (v_max_poly_degree v + 1) positions evaluations ch in
  s <- layers_loop num_layers N v folding_roots 0 s0 ;;
  verify_remainder check_commitment v num_layers s.

Definition verify_generic := verify_generic_gen true.
Definition verify_generic_unrepaired := verify_generic_gen false.

(* FriVerifier::verify *)
Definition verify_gen (check_commitment : bool) (v : verifier) (ch : vchannel) (evaluations : list F)
  (positions : list nat) : res unit :=
  if negb (length evaluations =? length positions)
  then Err (NumPositionEvaluationMismatch (length positions) (length evaluations))
  else
    let ff := fo_folding (v_options v) in
    if supported_folding ff then verify_generic_gen check_commitment ff v ch evaluations positions
    else Err (UnsupportedFoldingFactor ff).

Definition verify := verify_gen true.
Definition verify_unrepaired := verify_gen false.

(* ================================================================ end-to-end runs (used by the drivers) *)
(* prover side: commit phase + query phase for given positions *)
Definition prove (o : fri_options) (coin0 : CS) (evaluations : list F) (positions : list nat)
  : res (list D * fri_proof * prover) :=
  '(p1, c1) <- build_layers (prover_new o) (mkPCh coin0 []) evaluations ;;
  '(p2, proof) <- build_proof p1 positions ;;
  Ok (pc_commitments c1, proof, p2).

Inductive run_res : Type :=
| RunVerdict (r : res unit)
| RunChannelErr
| RunChannelPanic
| RunNew (r : res unit).       (* FriVerifier::new failed: Err e / Panic *)

(* verifier side: channel construction, FriVerifier::new, verify *)
Definition run_verifier (check_commitment : bool) (o : fri_options) (coin0 : CS) (proof : fri_proof)
  (commitments : list D) (max_poly_degree : nat) (domain_size : nat)
  (evaluations : list F) (positions : list nat) : run_res :=
  match channel_new proof commitments domain_size (fo_folding o) with
  | ChErr => RunChannelErr
  | ChPanic => RunChannelPanic
  | ChOk ch =>
    match verifier_new ch coin0 o max_poly_degree with
    | Err e => RunNew (Err e)
    | Panic => RunNew Panic
    | Ok (v, ch', _) => RunVerdict (verify_gen check_commitment v ch' evaluations positions)
    end
  end.

End Fri.

Arguments mkPL {F MN} _ _.
Arguments pl_values {F MN} _.
Arguments pl_nodes {F MN} _.
Arguments mkProof {F MN} _ _ _.
Arguments fp_layers {F MN} _.
Arguments fp_remainder {F MN} _.
Arguments fp_partitions {F MN} _.
