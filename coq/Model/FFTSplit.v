(* C09/C14 — executable model of `split_radix_fft` (math/src/fft/concurrent.rs; the same algorithm is duplicated in
   prover/src/matrix/segments.rs mod concurrent), sequentialised: `par_chunks_mut(outer_len).for_each(..)` over
   the disjoint rows is a map over the rows (justified by C14_disjoint_commute / C14_phase_schedule_independent:
   tasks with disjoint footprints commute, a phase is schedule independent).  NO proofs here.

   values viewed as `inner_len` rows of `outer_len = inner_len * stretch` elements:
     1. transpose_square_stretch (inner x inner matrix of cells of `stretch` consecutive elements; swap loops,
        2x2 blocks for stretch 1, 1x2 blocks for stretch 2; any other stretch / odd size = unimplemented! = None)
     2. every row: fft_in_place_raw(twiddles, stretch, stretch, 0)
     3. transpose again
     4. every row i > 0: element m (m >= 1) *= g^(permute_index(inner_len, i) * m), g = twiddles[len/2], computed with a
        running product; then every row: fft_in_place(twiddles)
   The output is in the same bit-reversed order as fft_in_place (concurrent::evaluate_poly permutes afterwards). *)
From Coq Require Import List Arith Bool ZArith NArith.
From VBase Require Import FieldOps.
From VModel Require Import FFT.
Import ListNotations.

Section Split.
Context {F : Type} (O : FOps F).

(* ---------------------------------------------------------------- transposition by swaps (index level) *)
(* transpose_square_1: for row in (0..size).step_by(2) { swap(i+1, i+size); for col in (row..size).step_by(2).skip(1) {4 swaps} } *)
Definition transpose_square_1 (m : list F) (size : nat) : list F :=
  fold_left
    (fun m t =>
       let row := 2 * t in
       let i := row * size + row in
       let m := swap O m (i + 1) (i + size) in
       fold_left
         (fun m u =>
            let col := row + 2 * (u + 1) in
            let i := row * size + col in
            let j := col * size + row in
            let m := swap O m i j in
            let m := swap O m (i + 1) (j + size) in
            let m := swap O m (i + size) (j + 1) in
            swap O m (i + size + 1) (j + size + 1))
         (seq 0 ((size - row + 1) / 2 - 1)) m)
    (seq 0 ((size + 1) / 2)) m.

(* transpose_square_2: for row in 0..size { for col in (row..size).skip(1) { swap(i, j); swap(i+1, j+1) } } *)
Definition transpose_square_2 (m : list F) (size : nat) : list F :=
  fold_left
    (fun m row =>
       fold_left
         (fun m u =>
            let col := row + 1 + u in
            let i := (row * size + col) * 2 in
            let j := (col * size + row) * 2 in
            swap O (swap O m i j) (i + 1) (j + 1))
         (seq 0 (size - row - 1)) m)
    (seq 0 size) m.

Definition transpose_square_stretch (m : list F) (size stretch : nat) : option (list F) :=
  if negb (length m =? size * size * stretch) then None
  else match stretch with
       | 1 => if size mod 2 =? 0 then Some (transpose_square_1 m size) else None
       | 2 => Some (transpose_square_2 m size)
       | _ => None
       end.

(* transposition by specification: cell (r, c) <- cell (c, r), cells of `stretch` consecutive elements *)
Definition transpose_spec (size stretch : nat) (x : list F) : list F :=
  map (fun p => nth ((((p / stretch) mod size) * size + (p / stretch) / size) * stretch + p mod stretch) x (fzero O))
      (seq 0 (length x)).

(* ---------------------------------------------------------------- rows *)
Definition rows_of (v : list F) (row_len : nat) : list (list F) :=
  map (fun r => firstn row_len (skipn (r * row_len) v)) (seq 0 (length v / row_len)).

(* outer twiddles of row i: `for element in row.iter_mut().skip(1) { *element *= outer; outer *= inner }` *)
Definition scale_row (row : list F) (inner_twiddle : F) : list F :=
  match row with
  | [] => []
  | h :: t => h :: shift_by_series O t inner_twiddle inner_twiddle
  end.

Definition split_radix_fft_with (tr : list F -> nat -> nat -> option (list F)) (values twiddles : list F)
  : option (list F) :=
  let n := length values in
  let g := vget O twiddles (length twiddles / 2) in
  let inner_len := 2 ^ (Nat.log2 n / 2) in
  let outer_len := n / inner_len in
  let stretch := outer_len / inner_len in
  match tr values inner_len stretch with
  | None => None
  | Some v1 =>
    let v2 := concat (map (fun row => fft_in_place O (length row) row twiddles stretch stretch 0)
                          (rows_of v1 outer_len)) in
    match tr v2 inner_len stretch with
    | None => None
    | Some v3 =>
      Some (concat (map (fun ir =>
                           let i := fst ir in
                           let row := snd ir in
                           let row' :=
                             if 0 <? i then
                               let i' := permute_index inner_len i in
                               scale_row row (fpow_N O g (N.of_nat i'))
                             else row in
                           fft_in_place_top O row' twiddles)
                        (combine (seq 0 inner_len) (rows_of v3 outer_len))))
    end
  end.

Definition split_radix_fft := split_radix_fft_with transpose_square_stretch.
Definition split_radix_fft_spec_tr :=
  split_radix_fft_with (fun m size stretch =>
                          if negb (length m =? size * size * stretch) then None else Some (transpose_spec size stretch m)).

(* concurrent::evaluate_poly / interpolate_poly (after the asserts of fft::evaluate_poly) *)
Definition evaluate_poly_concurrent (p twiddles : list F) : option (list F) :=
  match split_radix_fft p twiddles with Some v => Some (permute O v) | None => None end.

Definition interpolate_poly_concurrent (values inv_twiddles : list F) : option (list F) :=
  match split_radix_fft values inv_twiddles with
  | Some v => let inv_length := finv O (fofz O (Z.of_nat (length values))) in
              Some (permute O (shift_by O v inv_length))
  | None => None
  end.

(* concurrent::evaluate_poly_with_offset (after the asserts of fft::evaluate_poly_with_offset): per coset chunk
   clone_and_shift (batched running products; the batches are independent — C14_scale_par_spec,
   C14_get_power_series_with_offset_any_T — so the scaling is the sequential map coefficient j * offset^j), then
   split_radix_fft; permute at the end *)
Definition evaluate_poly_with_offset_concurrent (root_of_unity : nat -> F) (p twiddles : list F) (domain_offset : F)
           (blowup_factor : nat) : option (list F) :=
  let domain_size := length p * blowup_factor in
  let g := root_of_unity (Nat.log2 domain_size) in
  match sequence (map (fun i =>
                         let idx := permute_index blowup_factor i in
                         let offset := fmul O (fpow_N O g (N.of_nat idx)) domain_offset in
                         split_radix_fft (shift_by_series O p (fone O) offset) twiddles)
                      (seq 0 blowup_factor)) with
  | Some chunks => Some (permute O (concat chunks))
  | None => None
  end.

(* concurrent::interpolate_poly_with_offset: split_radix_fft; permute; batched scaling by inv_len * offset^-j
   (sequential map, same C14 theorems) *)
Definition interpolate_poly_with_offset_concurrent (values inv_twiddles : list F) (domain_offset : F) : option (list F) :=
  match split_radix_fft values inv_twiddles with
  | Some v0 =>
    let v := permute O v0 in
    let domain_offset' := finv O domain_offset in
    let inv_len := finv O (fofz O (Z.of_nat (length values))) in
    Some (shift_by_series O v inv_len domain_offset')
  | None => None
  end.

End Split.

(* ---------------------------------------------------------------- prover/src/matrix/segments.rs, concurrent branch *)
Section SegmentsConcurrent.
Context {F : Type} (O : FOps F).
Variable root_of_unity : nat -> F.

(* Segment::new_with_buffer when `cfg!(feature = "concurrent") && domain_size >= MIN_CONCURRENT_SIZE`: the same
   copy_polys / copy_polys_partial per coset chunk, then segments::concurrent::split_radix_fft on the `[[B; N]]` rows
   (= split_radix_fft at rows_ops O N with the twiddles broadcast to rows), then concurrent::permute *)
Definition segment_new_concurrent (N : nat) (polys : list (list F)) (poly_offset : nat) (offsets twiddles : list F)
  : option (list (list F)) :=
  let poly_size := length (hd [] polys) in
  let domain_size := length offsets in
  let num_base_cols := length polys in
  if negb (is_pow2 domain_size) then None
  else if negb (poly_size <? domain_size) then None
  else if negb (poly_size =? length twiddles * 2) then None
  else if negb (poly_offset <? num_base_cols) then None
  else
    let num_polys_remaining := num_base_cols - poly_offset in
    let num_polys := if num_polys_remaining <? N then num_polys_remaining else N in
    let OR := rows_ops O N in
    let row_twiddles := map (fun t => repeat t N) twiddles in
    let fft_chunk (o_chunk : list F) : option (list (list F)) :=
      let d_chunk :=
        map (fun row_idx =>
               map (fun i => fmul O (nth row_idx (nth (poly_offset + i) polys []) (fzero O))
                                    (nth row_idx o_chunk (fzero O)))
                   (seq 0 num_polys) ++ repeat (fzero O) (N - num_polys))
            (seq 0 poly_size) in
      split_radix_fft OR d_chunk row_twiddles in
    match sequence (map fft_chunk (chunks domain_size poly_size offsets)) with
    | Some cs => Some (permute OR (concat cs))
    | None => None
    end.

Definition build_segments_concurrent (N : nat) (polys : list (list F)) (twiddles offsets : list F)
  : option (list (list (list F))) :=
  if N =? 0 then None
  else
    let nb := length polys in
    let num_segments := if nb mod N =? 0 then nb / N else nb / N + 1 in
    sequence (map (fun i => segment_new_concurrent N polys (i * N) offsets twiddles) (seq 0 num_segments)).

Definition evaluate_polys_over_concurrent (N : nat) (polys : list (list F)) (trace_twiddles : list F)
           (domain_offset : F) (blowup : nat) : option (RowMatrix (F := F)) :=
  if N =? 0 then None
  else if negb (colmatrix_ok polys) then None
  else
    let poly_size := length (hd [] polys) in
    let offsets := get_evaluation_offsets O root_of_unity poly_size blowup domain_offset in
    match build_segments_concurrent N polys trace_twiddles offsets with
    | None => None
    | Some segments => from_segments O N segments (length polys)
    end.

End SegmentsConcurrent.
