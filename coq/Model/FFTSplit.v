(* C09/C14 — executable model of `split_radix_fft` (math/src/fft/concurrent.rs; the same algorithm is duplicated in
   prover/src/matrix/segments.rs mod concurrent), sequentialised: `par_chunks_mut(outer_len).for_each(..)` over
   the disjoint rows is a map over the rows (justified by C14_disjoint_commute / C14_phase_schedule_independent:
   tasks with disjoint footprints commute, a phase is schedule independent).  NO proofs here.

   values viewed as `inner_len` rows of `outer_len = inner_len * stretch` elements:
     1. transpose_square_stretch (inner x inner matrix of cells of `stretch` consecutive elements; swap loops,
        2x2 blocks for stretch 1, 1x2 blocks for stretch 2; any other stretch / odd size = unimplemented! = None)
     2. every row: fft_in_place_raw(twiddles, stretch, stretch, 0)
     3. transpose again
     4. every row i > 0: element m (m >= 1) *= g^(permute_index(inner_len, i) * m), g = twiddles[len/2], computed with a
        running product; then every row: fft_in_place(twiddles)
   The output is in the same bit-reversed order as fft_in_place (concurrent::evaluate_poly permutes afterwards). *)
From Coq Require Import List Arith Bool ZArith NArith.
From VBase Require Import FieldOps.
From VModel Require Import FFT.
Import ListNotations.

Section Split.
Context {F : Type} (O : FOps F).

(* ---------------------------------------------------------------- transposition by swaps (index level) *)
(* transpose_square_1: for row in (0..size).step_by(2) { swap(i+1, i+size); for col in (row..size).step_by(2).skip(1) {4 swaps} } *)
Definition transpose_square_1 (m : list F) (size : nat) : list F :=
  fold_left
    (fun m t =>
       let row := 2 * t in
       let i := row * size + row in
       let m := swap O m (i + 1) (i + size) in
       fold_left
         (fun m u =>
            let col := row + 2 * (u + 1) in
            let i := row * size + col in
            let j := col * size + row in
            let m := swap O m i j in
            let m := swap O m (i + 1) (j + size) in
            let m := swap O m (i + size) (j + 1) in
            swap O m (i + size + 1) (j + size + 1))
         (seq 0 ((size - row + 1) / 2 - 1)) m)
    (seq 0 ((size + 1) / 2)) m.

(* transpose_square_2: for row in 0..size { for col in (row..size).skip(1) { swap(i, j); swap(i+1, j+1) } } *)
Definition transpose_square_2 (m : list F) (size : nat) : list F :=
  fold_left
    (fun m row =>
       fold_left
         (fun m u =>
            let col := row + 1 + u in
            let i := (row * size + col) * 2 in
            let j := (col * size + row) * 2 in
            swap O (swap O m i j) (i + 1) (j + 1))
         (seq 0 (size - row - 1)) m)
    (seq 0 size) m.

Definition transpose_square_stretch (m : list F) (size stretch : nat) : option (list F) :=
  if negb (length m =? size * size * stretch) then None
  else match stretch with
       | 1 => if size mod 2 =? 0 then Some (transpose_square_1 m size) else None
       | 2 => Some (transpose_square_2 m size)
       | _ => None
       end.

(* transposition by specification: cell (r, c) <- cell (c, r), cells of `stretch` consecutive elements *)
Definition transpose_spec (size stretch : nat) (x : list F) : list F :=
  map (fun p => nth ((((p / stretch) mod size) * size + (p / stretch) / size) * stretch + p mod stretch) x (fzero O))
      (seq 0 (length x)).

(* ---------------------------------------------------------------- rows *)
Definition rows_of (v : list F) (row_len : nat) : list (list F) :=
  map (fun r => firstn row_len (skipn (r * row_len) v)) (seq 0 (length v / row_len)).

(* outer twiddles of row i: `for element in row.iter_mut().skip(1) { *element *= outer; outer *= inner }` *)
Definition scale_row (row : list F) (inner_twiddle : F) : list F :=
  match row with
  | [] => []
  | h :: t => h :: shift_by_series O t inner_twiddle inner_twiddle
  end.

Definition split_radix_fft_with (tr : list F -> nat -> nat -> option (list F)) (values twiddles : list F)
  : option (list F) :=
  let n := length values in
  let g := vget O twiddles (length twiddles / 2) in
  let inner_len := 2 ^ (Nat.log2 n / 2) in
  let outer_len := n / inner_len in
  let stretch := outer_len / inner_len in
  match tr values inner_len stretch with
  | None => None
  | Some v1 =>
    let v2 := concat (map (fun row => fft_in_place O (length row) row twiddles stretch stretch 0)
                          (rows_of v1 outer_len)) in
    match tr v2 inner_len stretch with
    | None => None
    | Some v3 =>
      Some (concat (map (fun ir =>
                           let i := fst ir in
                           let row := snd ir in
                           let row' :=
                             if 0 <? i then
                               let i' := permute_index inner_len i in
                               scale_row row (fpow_N O g (N.of_nat i'))
                             else row in
                           fft_in_place_top O row' twiddles)
                        (combine (seq 0 inner_len) (rows_of v3 outer_len))))
    end
  end.

Definition split_radix_fft := split_radix_fft_with transpose_square_stretch.
Definition split_radix_fft_spec_tr :=
  split_radix_fft_with (fun m size stretch =>
                          if negb (length m =? size * size * stretch) then None else Some (transpose_spec size stretch m)).

(* concurrent::evaluate_poly / interpolate_poly (after the asserts of fft::evaluate_poly) *)
Definition evaluate_poly_concurrent (p twiddles : list F) : option (list F) :=
  match split_radix_fft p twiddles with Some v => Some (permute O v) | None => None end.

Definition interpolate_poly_concurrent (values inv_twiddles : list F) : option (list F) :=
  match split_radix_fft values inv_twiddles with
  | Some v => let inv_length := finv O (fofz O (Z.of_nat (length values))) in
              Some (permute O (shift_by O v inv_length))
  | None => None
  end.

End Split.
