(* C18 model (hand-written part; NO proofs).
   - Context::num_modulus_bits                      (air/src/proof/context.rs)
   - Proof::security_level(conjectured = true)      (air/src/proof/mod.rs; the estimate itself is the GENERATED
                                                     term VGen.Security.sec_get_conjectured_security)
   - get_proven_security and helpers                (air/src/proof/mod.rs), abstracted over the float type: every
                                                     float operation is a Section variable
   - AcceptableOptions::validate, the order of checks of verify()   (verifier/src/lib.rs, verifier/src/channel.rs)
   Tied to /repo by the correspondence of checks/c18.py (extracted functions against Proof::security_level and
   verify()). *)
From VBase Require Import MachInt.
From VGen Require Import Security.
Open Scope Z_scope.

(* ------------------------------------------------------------------------------------------------ *)
(* Context { trace_info, field_modulus_bytes, options }: only the trace length of TraceInfo matters here. *)
Record Context : Set := mkContext {
  cx_trace_length : Z;
  cx_modulus : list Z;            (* field_modulus_bytes, little-endian, as CLAIMED by the proof *)
  cx_options : ProofOptions }.

(* Context::num_modulus_bits:
     let mut num_bits = self.field_modulus_bytes.len() as u32 * 8;
     for &byte in self.field_modulus_bytes.iter().rev() {
         if byte != 0 { num_bits -= byte.leading_zeros(); return num_bits; }
         num_bits -= 8;
     }
     0                                                                                         *)
Fixpoint nmb_scan (rev_bytes : list Z) (num_bits : Z) : Z :=
  match rev_bytes with
  | [] => 0
  | b :: r => if negb (b =? 0) then wrap 32 (num_bits - clz 8 b) else nmb_scan r (wrap 32 (num_bits - 8))
  end.
Definition num_modulus_bits (bytes : list Z) : Z :=
  nmb_scan (rev bytes) (wrap 32 (wrap 32 (Z.of_nat (length bytes)) * 8)).
(* checked operations: the multiplication overflows u32 iff len >= 2^29 (the subtractions cannot underflow:
   num_bits is 8 * (number of bytes not yet scanned), see Proofs/Security.v) *)
Definition num_modulus_bits_ok (bytes : list Z) : bool := Z.of_nat (length bytes) * 8 <? 2 ^ 32.

(* Proof::security_level::<H>(true); cr = H::COLLISION_RESISTANCE.  None = a checked operation fails
   (panic in a build with overflow checks; `ilog2(0)` panics in every build). *)
Definition conjectured_level_raw (cr : Z) (c : Context) : Z :=
  sec_get_conjectured_security (cx_options c) (num_modulus_bits (cx_modulus c)) (cx_trace_length c) cr.
Definition conjectured_level_ok (cr : Z) (c : Context) : bool :=
  num_modulus_bits_ok (cx_modulus c) &&
  sec_get_conjectured_security_ok (cx_options c) (num_modulus_bits (cx_modulus c)) (cx_trace_length c) cr.
Definition conjectured_level (cr : Z) (c : Context) : option Z :=
  if conjectured_level_ok cr c then Some (conjectured_level_raw cr c) else None.

(* ------------------------------------------------------------------------------------------------ *)
(* Proven estimate over an abstract float type. *)
Section Proven.
  Variable F : Type.
  Variables fadd fsub fmul fdiv fpow : F -> F -> F.
  Variables fneg fsqrt fceil flog2 : F -> F.
  Variable of_Z : Z -> F.            (* `x as f64` for x : u32 / u64 / usize *)
  Variable to_u64 : F -> Z.          (* `x as u64`: saturating, NaN -> 0 *)
  Variables c_half c_quarter c_1_5 : F.   (* the literals 0.5, 0.25, 1.5 (the others are of_Z of an integer) *)

  (* `if x < 1 { return 0 }  x - 1` on u64 *)
  Definition dec_or_zero (x : Z) : Z := if x <? 1 then 0 else x - 1.

  (* the part of proven_security_protocol_for_m that does not depend on queries / grinding / field size:
     (rho, lde, m_plus, alpha_plus, theta_plus, l_plus, rho_plus) as named in the Rust source *)
  Definition psm_theta_plus (b tl m : Z) : F :=
    let m := of_Z m in
    let rho := fdiv (of_Z 1) (of_Z b) in
    let alpha := fmul (fadd (of_Z 1) (fdiv c_half m)) (fsqrt rho) in
    let lde_domain_size := fmul (of_Z tl) (of_Z b) in
    let trace_domain_size := of_Z tl in
    let num_openings := of_Z 2 in
    let rho_plus := fdiv (fadd trace_domain_size num_openings) lde_domain_size in
    let m_plus := fceil (fdiv (of_Z 1) (fmul (of_Z 2) (fsub (fdiv alpha (fsqrt rho_plus)) (of_Z 1)))) in
    let alpha_plus := fmul (fadd (of_Z 1) (fdiv c_half m_plus)) (fsqrt rho_plus) in
    fsub (of_Z 1) alpha_plus.

  (* base of the power in the FRI query-phase error: 1.0 - theta_plus *)
  Definition psm_query_base (b tl m : Z) : F := fsub (of_Z 1) (psm_theta_plus b tl m).

  (* proven_security_protocol_for_m with the three argument-dependent floats made explicit:
     E = extension_field_bits, Q = num_fri_queries, G = grinding_factor as f64 *)
  Definition psm_core (E Q G : F) (b tl m_ : Z) : Z :=
    let m := of_Z m_ in
    let rho := fdiv (of_Z 1) (of_Z b) in
    let alpha := fmul (fadd (of_Z 1) (fdiv c_half m)) (fsqrt rho) in
    let max_deg := fadd (of_Z b) (of_Z 1) in
    let lde_domain_size := fmul (of_Z tl) (of_Z b) in
    let trace_domain_size := of_Z tl in
    let num_openings := of_Z 2 in
    let rho_plus := fdiv (fadd trace_domain_size num_openings) lde_domain_size in
    let m_plus := fceil (fdiv (of_Z 1) (fmul (of_Z 2) (fsub (fdiv alpha (fsqrt rho_plus)) (of_Z 1)))) in
    let alpha_plus := fmul (fadd (of_Z 1) (fdiv c_half m_plus)) (fsqrt rho_plus) in
    let theta_plus := fsub (of_Z 1) alpha_plus in
    let fri_commit_err_bits :=
      fsub E (flog2 (fmul (fdiv (fmul c_half (fpow (fadd m c_half) (of_Z 7))) (fpow rho c_1_5))
                          (fpow lde_domain_size (of_Z 2)))) in
    let fri_queries_err_bits := fsub G (flog2 (fpow (fsub (of_Z 1) theta_plus) Q)) in
    let fri_err_bits := Z.min (to_u64 fri_commit_err_bits) (to_u64 fri_queries_err_bits) in
    if fri_err_bits <? 1 then 0 else
    let fri_err_bits := fri_err_bits - 1 in
    let l_plus := fdiv (fadd (fmul (of_Z 2) m_plus) (of_Z 1)) (fmul (of_Z 2) (fsqrt rho_plus)) in
    let ali_err_bits := fadd (fneg (flog2 l_plus)) E in
    let deep_err_bits :=
      fadd (fneg (flog2 (fmul l_plus (fadd (fmul max_deg (fsub (fadd trace_domain_size num_openings) (of_Z 1)))
                                           (fsub trace_domain_size (of_Z 1)))))) E in
    let mn := Z.min (Z.min fri_err_bits (to_u64 ali_err_bits)) (to_u64 deep_err_bits) in
    dec_or_zero mn.

  Definition proven_security_protocol_for_m (o : ProofOptions) (base_field_bits tl m : Z) : Z :=
    psm_core (of_Z (wrap 32 (base_field_bits * fe_degree (po_field_extension o))))
             (of_Z (po_num_queries o)) (of_Z (po_grinding_factor o)) (po_blowup_factor o) tl m.

  (* compute_upper_m; the result (at most 1000) is converted to f64 and back to u32 by the caller: exact *)
  Definition compute_upper_m (h_ : Z) : Z :=
    let h := of_Z h_ in
    let m_max := fceil (fmul (fmul c_quarter h) (fadd (of_Z 1) (fsqrt (fadd (of_Z 1) (fdiv (of_Z 2) h))))) in
    Z.min (to_u64 m_max) sec_MAX_PROXIMITY_PARAMETER.

  (* Iterator::max_by_key: the LAST element with the maximal key *)
  Definition max_by_key (key : Z -> Z) (l : list Z) : option Z :=
    fold_left (fun best a => match best with
                             | None => Some a
                             | Some b => if key a <? key b then Some b else Some a
                             end) l None.

  (* get_proven_security; None = the `expect` on an empty range of m panics *)
  Definition get_proven_security (o : ProofOptions) (base_field_bits tl cr : Z) : option Z :=
    let m_min := 3 in
    let m_max := compute_upper_m tl in
    match max_by_key (proven_security_protocol_for_m o base_field_bits tl) (zrange m_min m_max) with
    | None => None
    | Some m_optimal => Some (wrap 32 (Z.min (proven_security_protocol_for_m o base_field_bits tl m_optimal) cr))
    end.

  Definition proven_level (cr : Z) (c : Context) : option Z :=
    if num_modulus_bits_ok (cx_modulus c) && in_u 32 (num_modulus_bits (cx_modulus c) * fe_degree (po_field_extension (cx_options c)))
    then get_proven_security (cx_options c) (num_modulus_bits (cx_modulus c)) (cx_trace_length c) cr
    else None.
End Proven.

(* ------------------------------------------------------------------------------------------------ *)
(* Acceptance policy and the order of checks in verify(). *)
Inductive VerifierError : Set :=
  | InconsistentBaseField
  | UnsupportedFieldExtension (degree : Z)
  | InsufficientConjecturedSecurity (minimal proof_security : Z)
  | InsufficientProvenSecurity (minimal proof_security : Z)
  | UnacceptableProofOptions.

Inductive Outcome : Set := Accept | Reject (e : VerifierError) | Panic.

Inductive AcceptableOptions : Set :=
  | MinConjecturedSecurity (minimal : Z)
  | MinProvenSecurity (minimal : Z)
  | OptionSet (options : list ProofOptions).

(* derived PartialEq of ProofOptions / FieldExtension: field-wise *)
Definition fe_eqb (a b : FieldExtension) : bool :=
  match a, b with
  | FeNone, FeNone | FeQuadratic, FeQuadratic | FeCubic, FeCubic => true
  | _, _ => false
  end.
Definition po_eqb (a b : ProofOptions) : bool :=
  (po_num_queries a =? po_num_queries b) && (po_blowup_factor a =? po_blowup_factor b) &&
  (po_grinding_factor a =? po_grinding_factor b) && fe_eqb (po_field_extension a) (po_field_extension b) &&
  (po_fri_folding_factor a =? po_fri_folding_factor b) &&
  (po_fri_remainder_max_degree a =? po_fri_remainder_max_degree b).

(* AcceptableOptions::validate; the two level functions are Proof::security_level(true/false), None = panic *)
Definition validate (lvl_conj lvl_proven : Context -> option Z) (a : AcceptableOptions) (c : Context) : Outcome :=
  match a with
  | MinConjecturedSecurity minimal =>
      match lvl_conj c with
      | None => Panic
      | Some s => if s <? minimal then Reject (InsufficientConjecturedSecurity minimal s) else Accept
      end
  | MinProvenSecurity minimal =>
      match lvl_proven c with
      | None => Panic
      | Some s => if s <? minimal then Reject (InsufficientProvenSecurity minimal s) else Accept
      end
  | OptionSet options =>
      if negb (existsb (fun o => po_eqb o (cx_options c)) options) then Reject UnacceptableProofOptions else Accept
  end.

(* what verify() needs to know about AIR::BaseField *)
Record FieldDesc : Set := mkFieldDesc {
  fd_modulus : list Z;      (* B::get_modulus_le_bytes() *)
  fd_elem_bytes : Z;        (* B::ELEMENT_BYTES *)
  fd_ext2 : bool;           (* QuadExtension<B>::is_supported() *)
  fd_ext3 : bool }.         (* CubeExtension<B>::is_supported() *)

Fixpoint bytes_eqb (a b : list Z) : bool :=
  match a, b with
  | [], [] => true
  | x :: a', y :: b' => (x =? y) && bytes_eqb a' b'
  | _, _ => false
  end.

(* Context::to_elements splits the claimed modulus bytes at len/2 and converts both halves with
   from_bytes_with_padding, which asserts `bytes.len() < ELEMENT_BYTES`.  (Its second assertion - the padded
   value is a field element - cannot fail for f62/f64/f128 once the length assertion holds.) *)
Definition to_elements_panics (elem_bytes : Z) (modulus : list Z) : bool :=
  let n := Z.of_nat (length modulus) in
  (elem_bytes <=? n / 2) || (elem_bytes <=? n - n / 2).

Definition ext_supported (air : FieldDesc) (e : FieldExtension) : option VerifierError :=
  match e with
  | FeNone => None
  | FeQuadratic => if fd_ext2 air then None else Some (UnsupportedFieldExtension 2)
  | FeCubic => if fd_ext3 air then None else Some (UnsupportedFieldExtension 3)
  end.

(* verify(): 1. claimed modulus = AIR modulus, 2. acceptable_options.validate, 3. seed from context.to_elements(),
   4. AIR::new (user code, not modelled), 5. extension supported, 6. VerifierChannel::new (repeats check 1) and
   perform_verification = `rest`. *)
Definition verify_decision (air : FieldDesc) (lvl_conj lvl_proven : Context -> option Z)
    (acc : AcceptableOptions) (c : Context) (rest : Outcome) : Outcome :=
  if negb (bytes_eqb (fd_modulus air) (cx_modulus c)) then Reject InconsistentBaseField else
  match validate lvl_conj lvl_proven acc c with
  | Accept =>
      if to_elements_panics (fd_elem_bytes air) (cx_modulus c) then Panic else
      match ext_supported air (po_field_extension (cx_options c)) with
      | Some e => Reject e
      | None => if negb (bytes_eqb (fd_modulus air) (cx_modulus c)) then Reject InconsistentBaseField else rest
      end
  | other => other
  end.

(* the order of checks BEFORE the repair fixes/c18-field-check-before-context-use.diff (kept only for the
   `_before_fix` witness in Props/C18.v) *)
Definition verify_decision_before_fix (air : FieldDesc) (lvl_conj lvl_proven : Context -> option Z)
    (acc : AcceptableOptions) (c : Context) (rest : Outcome) : Outcome :=
  match validate lvl_conj lvl_proven acc c with
  | Accept =>
      if to_elements_panics (fd_elem_bytes air) (cx_modulus c) then Panic else
      match ext_supported air (po_field_extension (cx_options c)) with
      | Some e => Reject e
      | None => if negb (bytes_eqb (fd_modulus air) (cx_modulus c)) then Reject InconsistentBaseField else rest
      end
  | other => other
  end.

(* the three base fields of /repo/math (moduli little-endian) *)
Definition f62_desc : FieldDesc := mkFieldDesc (to_le_bytes 8 4611624995532046337) 8 true true.
Definition f64_desc : FieldDesc := mkFieldDesc (to_le_bytes 8 18446744069414584321) 8 true true.
Definition f128_desc : FieldDesc :=
  mkFieldDesc (to_le_bytes 16 340282366920938463463374557953744961537) 16 true false.
