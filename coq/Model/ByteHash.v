(* C11 — the BLAKE3 / SHA3 wrappers of crypto/src/hash/blake/mod.rs and sha/mod.rs.
   The primitive itself is NOT modelled: it is the Section variable `prim : list byte -> digest`.  The model computes the
   exact byte string each wrapper method hands to the primitive (`msg_*`), and the truncation of the result
   (Blake3_192 keeps the first 24 bytes).  Bytes are Z in [0,256). *)
From VBase Require Import MachInt.
Open Scope Z_scope.

(* Hasher::hash(bytes): the bytes themselves *)
Definition msg_hash (b : list Z) : list Z := b.

(* Hasher::merge(&[d0, d1]): ByteDigest::digests_as_bytes = the two N-byte digests back to back *)
Definition msg_merge (d0 d1 : list Z) : list Z := d0 ++ d1.

(* Hasher::merge_with_int(seed, value): data[..N] = seed, data[N..N+8] = value.to_le_bytes()
   (N = 32: 40-byte buffer for Blake3_256 / Sha3_256; N = 24: 32-byte buffer for Blake3_192) *)
Definition msg_merge_with_int (seed : list Z) (v : Z) : list Z := seed ++ to_le_bytes 8 v.

(* ElementHasher::hash_elements(elements), elements given by their base-field coefficients (extension elements are
   stored / serialized coefficient by coefficient):
   - IS_CANONICAL = false (f64, f62): write_many -> every coefficient as `as_int().to_le_bytes()`, 8 bytes
   - IS_CANONICAL = true (f128): elements_as_bytes = the memory of the internal u128 words, 16 bytes little-endian each;
     the argument is then the list of INTERNAL words (equal to the residues under the C07 invariant of f128) *)
Definition msg_elements (elem_bytes : nat) (xs : list (list Z)) : list Z :=
  concat (map (to_le_bytes elem_bytes) (concat xs)).
Definition msg_elements_f64 (xs : list (list Z)) : list Z := msg_elements 8 xs.     (* also f62 *)
Definition msg_elements_f128 (xs : list (list Z)) : list Z := msg_elements 16 xs.

Section Wrappers.
  Variable prim : list Z -> list Z.      (* blake3::hash / sha3::Sha3_256::digest: 32 output bytes *)
  Variable out_len : nat.                (* 32, or 24 for Blake3_192 *)

  Definition bh_hash (b : list Z) : list Z := firstn out_len (prim (msg_hash b)).
  Definition bh_merge (d0 d1 : list Z) : list Z := firstn out_len (prim (msg_merge d0 d1)).
  Definition bh_merge_with_int (seed : list Z) (v : Z) : list Z := firstn out_len (prim (msg_merge_with_int seed v)).
  Definition bh_hash_elements (elem_bytes : nat) (xs : list (list Z)) : list Z :=
    firstn out_len (prim (msg_elements elem_bytes xs)).
End Wrappers.
