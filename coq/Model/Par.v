(* C14 — fork-join task model of the `concurrent` code paths.  NO proofs here.

   What is modelled
   * (a) generic: a store is a `list V` (a slice), a TASK is (read footprint, write footprint, function on the
     store); a PHASE is a list of tasks between two joins; running a phase under a schedule is folding its tasks in
     the order chosen by the schedule ([reorder]); finer, each task is a list of atomic steps (themselves tasks,
     usually writing one cell) and a schedule is an interleaving of the step lists ([merge_by], driven by an
     arbitrary choice sequence).  Executable footprint checks: [independentb], [pairwiseb].
   * (b) the task decompositions of /repo, as functions of (n, thread count T), exactly as coded:
       - [npo2]                       usize::next_power_of_two of rayon::current_num_threads()
       - [par_chunks]                 rayon par_chunks(_mut)(bs): (offset, len) of every chunk; bs = 0 panics
       - [batch_iter_chunks]          utils/core/src/iterators.rs batch_iter_mut!(e, min, c)
       - [get_power_series_batched], [get_power_series_with_offset_batched], [batch_inversion_batched],
         [serial_batch_inversion]     math/src/utils/mod.rs
       - [scale_batched]              math/src/fft/concurrent.rs interpolate_poly_with_offset / clone_and_shift
       - [permute_par_steps]          math/src/fft/concurrent.rs permute (mult = 1) and
                                      prover/src/matrix/segments.rs concurrent::permute (mult = 2)
       - [merkle_par_plan]            crypto/src/merkle/concurrent.rs build_merkle_nodes (leaf phase, subtree tasks,
                                      top of the tree) and the serial crypto/src/merkle/mod.rs build_merkle_nodes
       - [transpose_plan]             prover/src/matrix/row_matrix.rs transpose + get_num_batches (with the `min`
                                      bound of the repaired code; [transpose_plan_unbounded] is the code before the fix)
       - [fragment_plan]              prover/src/constraints/{evaluator/default.rs,evaluation_table.rs} fragments
       - [map_batched], [acc_z_index_batched]  index-batched closures of batch_iter_mut! (commit_to_rows, get_inv_evaluation,
                                      acc_column with its LOCAL z index)
       - [find_any_sched]             prover/src/channel.rs grind_query_seed
   What is NOT modelled: that rayon's scope/par_iter implement fork-join (all tasks of a phase finish before the
   next phase starts, every task runs exactly once), the Rust memory model for the `&mut` slices aliased through raw
   pointers in `permute` and `build_merkle_nodes` (the model gives index disjointness only, under sequentially
   consistent interleavings of the atomic steps), timing.

   Conventions: `usize` arithmetic on `nat` (no overflow for lengths < 2^32); every slice index / assert / rayon
   chunk-size check that can fail is an explicit [Panic]; loops are folds over `seq` or carry explicit fuel
   (exhaustion = [None], proved unreachable). *)
From Coq Require Import List Arith Bool PeanoNat.
From VBase Require Import FieldOps.
From VModel Require Import FFT.   (* lupd, rev_bits, permute_index: shared with the C09 model of the serial code *)
Import ListNotations.

Inductive outcome (A : Type) : Type := Done (a : A) | Panic.
Arguments Done {A} a.
Arguments Panic {A}.

Fixpoint sequence_opt {A} (l : list (option A)) : option (list A) :=
  match l with
  | [] => Some []
  | None :: _ => None
  | Some a :: t => match sequence_opt t with Some r => Some (a :: r) | None => None end
  end.

(* ================================================================ (a) generic fork-join model *)
Section ForkJoin.
Context {V : Type}.

Record task : Type := mkTask {
  t_reads : list nat;            (* cells the result may depend on *)
  t_writes : list nat;           (* cells that may be modified *)
  t_run : list V -> list V
}.

Definition exec (ts : list task) (s : list V) : list V := fold_left (fun s t => t_run t s) ts s.
Definition exec_phases (ps : list (list task)) (s : list V) : list V := fold_left (fun s p => exec p s) ps s.

(* an atomic step writing one cell *)
Definition cell_task (rd : list nat) (w : nat) (f : list V -> V) : task :=
  mkTask rd [w] (fun s => lupd s w (f s)).

(* a task made of steps run in program order *)
Definition compose (steps : list task) : task :=
  mkTask (flat_map (fun t => t_reads t ++ t_writes t) steps) (flat_map t_writes steps) (exec steps).

Definition idle : task := mkTask [] [] (fun s => s).

(* schedule of a phase at task granularity: the k-th task to run is number (nth k sched) *)
Definition reorder (ts : list task) (sched : list nat) : list task := map (fun k => nth k ts idle) sched.

(* schedule at step granularity: each choice c runs the next step of task c (a choice naming a finished or
   non-existent task is skipped).  Returns the emitted step sequence and what is left of every task. *)
Fixpoint merge_by (choices : list nat) (tss : list (list task)) : list task * list (list task) :=
  match choices with
  | [] => ([], tss)
  | c :: cs =>
      match nth c tss [] with
      | [] => merge_by cs tss
      | x :: rest => let '(out, rest_tss) := merge_by cs (lupd tss c rest) in (x :: out, rest_tss)
      end
  end.

Definition all_empty {A} (tss : list (list A)) : bool :=
  forallb (fun l => match l with [] => true | _ :: _ => false end) tss.

(* footprints *)
Definition mem (i : nat) (l : list nat) : bool := existsb (Nat.eqb i) l.
Definition disjointb (l1 l2 : list nat) : bool := forallb (fun i => negb (mem i l2)) l1.
Definition independentb (t1 t2 : task) : bool :=
  disjointb (t_writes t1) (t_writes t2) && disjointb (t_writes t1) (t_reads t2) && disjointb (t_writes t2) (t_reads t1).
Fixpoint pairwiseb {A} (r : A -> A -> bool) (l : list A) : bool :=
  match l with [] => true | x :: t => forallb (r x) t && pairwiseb r t end.

End ForkJoin.
Arguments task V : clear implicits.

(* ================================================================ (b) batch arithmetic as coded *)

(* usize::next_power_of_two (0 and 1 -> 1) *)
Definition npo2 (t : nat) : nat := 2 ^ Nat.log2_up t.

(* slice.par_chunks(_mut)(bs).enumerate(): chunk k = (offset k*bs, its length); the last chunk may be shorter;
   rayon asserts `chunk_size != 0` *)
Fixpoint chunks_from (fuel off n bs : nat) : list (nat * nat) :=
  match fuel with
  | 0 => []
  | S f => if n =? 0 then [] else if n <=? bs then [(off, n)] else (off, bs) :: chunks_from f (off + bs) (n - bs) bs
  end.
Definition par_chunks (n bs : nat) : outcome (list (nat * nat)) :=
  if bs =? 0 then Panic else Done (chunks_from n 0 n bs).

(* batch_iter_mut!($e, $min_batch_size, $c): the (batch_offset, batch.len()) pairs passed to $c.
   (two-argument form of the macro = min 1) *)
Definition batch_iter_chunks (concurrent : bool) (n min T : nat) : outcome (list (nat * nat)) :=
  if concurrent then
    let batch_size := n / npo2 T in
    if batch_size <? min then Done [(0, n)] else par_chunks n batch_size
  else Done [(0, n)].

(* chunks of a concrete list *)
Definition slice {A} (l : list A) (c : nat * nat) : list A := firstn (snd c) (skipn (fst c) l).

(* ---------------------------------------------------------------- math/src/utils/mod.rs *)
Section Utils.
Context {F : Type} (O : FOps F).
Local Infix "*f" := (fmul O) (at level 40, left associativity).
Local Infix "+f" := (fadd O) (at level 50, left associativity).

(* b.exp(e): e-fold product (the square-and-multiply implementation is C07's subject) *)
Fixpoint fpow_nat (x : F) (e : nat) : F := match e with 0 => fone O | S e' => fpow_nat x e' *f x end.

(* fill_power_series(result, base, start): result[0] = start; result[i] = result[i-1] * base *)
Fixpoint fill_series (start b : F) (len : nat) : list F :=
  match len with 0 => [] | S l => start :: fill_series (start *f b) b l end.

Definition get_power_series_serial (b : F) (n : nat) : list F := fill_series (fpow_nat b 0) b n.
Definition get_power_series_with_offset_serial (b s : F) (n : nat) : list F := fill_series (s *f fpow_nat b 0) b n.

Definition get_power_series_batched (b : F) (chunks : list (nat * nat)) : list F :=
  flat_map (fun c => fill_series (fpow_nat b (fst c)) b (snd c)) chunks.
Definition get_power_series_with_offset_batched (b s : F) (chunks : list (nat * nat)) : list F :=
  flat_map (fun c => fill_series (s *f fpow_nat b (fst c)) b (snd c)) chunks.

Definition get_power_series (concurrent : bool) (T : nat) (b : F) (n : nat) : outcome (list F) :=
  match batch_iter_chunks concurrent n 1024 T with Panic => Panic | Done cs => Done (get_power_series_batched b cs) end.
Definition get_power_series_with_offset (concurrent : bool) (T : nat) (b s : F) (n : nat) : outcome (list F) :=
  match batch_iter_chunks concurrent n 1024 T with
  | Panic => Panic | Done cs => Done (get_power_series_with_offset_batched b s cs) end.

(* serial_batch_inversion(values, result), first loop: result[i] = last; if values[i] != 0 { last *= values[i] } *)
Fixpoint binv_fwd (vals : list F) (last : F) : list F * F :=
  match vals with
  | [] => ([], last)
  | v :: t =>
      let last' := if feqb O v (fzero O) then last else last *f v in
      let '(r, l) := binv_fwd t last' in (last :: r, l)
  end.
(* second loop, i from len-1 down to 0: if values[i] == 0 { result[i] = 0 } else { result[i] *= last; last *= values[i] }.
   The tail (higher indices) is processed first. *)
Fixpoint binv_bwd (vals res : list F) (last : F) : list F * F :=
  match vals, res with
  | v :: vt, r :: rt =>
      let '(out, last') := binv_bwd vt rt last in
      if feqb O v (fzero O) then (fzero O :: out, last') else ((r *f last') :: out, last' *f v)
  | _, _ => ([], last)
  end.
Definition serial_batch_inversion (vals : list F) : list F :=
  let '(res, last) := binv_fwd vals (fone O) in fst (binv_bwd vals res (finv O last)).

Definition batch_inversion_batched (vals : list F) (chunks : list (nat * nat)) : list F :=
  flat_map (fun c => serial_batch_inversion (slice vals c)) chunks.
Definition batch_inversion (concurrent : bool) (T : nat) (vals : list F) : outcome (list F) :=
  match batch_iter_chunks concurrent (length vals) 1024 T with
  | Panic => Panic | Done cs => Done (batch_inversion_batched vals cs) end.

(* add_in_place / mul_acc: iter_mut!(a).zip(b).for_each(..): one single-cell task per element *)
Definition add_in_place_tasks (b : list F) : list (task F) :=
  map (fun i => cell_task [i] i (fun s => nth i s (fzero O) +f nth i b (fzero O))) (seq 0 (length b)).
Definition mul_acc_tasks (b : list F) (c : F) : list (task F) :=
  map (fun i => cell_task [i] i (fun s => nth i s (fzero O) +f c *f nth i b (fzero O))) (seq 0 (length b)).
Definition add_in_place_serial (a b : list F) : list F := map2 (fun x y => x +f y) a b.
Definition mul_acc_serial (a b : list F) (c : F) : list F := map2 (fun x y => x +f c *f y) a b.

(* fft::concurrent::interpolate_poly_with_offset (scaling loop; start = offset^(i*bs) * inv_len) and clone_and_shift
   (start = offset^(i*bs), k = 1): every batch multiplies its elements by start, start*offset, ...;
   batch_size = len / npo2 T, par_chunks_mut(batch_size) (panics when it is 0) *)
Definition scale_batched (v : list F) (offset k : F) (chunks : list (nat * nat)) : list F :=
  flat_map (fun c => map2 (fun x y => x *f y) (slice v c) (fill_series (fpow_nat offset (fst c) *f k) offset (snd c))) chunks.
Definition scale_serial (v : list F) (offset k : F) : list F :=
  map2 (fun x y => x *f y) v (fill_series k offset (length v)).
Definition scale_par (T : nat) (v : list F) (offset k : F) : outcome (list F) :=
  match par_chunks (length v) (length v / npo2 T) with Panic => Panic | Done cs => Done (scale_batched v offset k cs) end.
End Utils.

(* ---------------------------------------------------------------- permute *)
Section Permute.
Context {V : Type} (dflt : V).

(* values.swap(i, j) *)
Definition swap_task (i j : nat) : task V :=
  mkTask [i; j] [i; j] (fun s => lupd (lupd s i (nth j s dflt)) j (nth i s dflt)).

(* loop body: let j = permute_index(n, i); if j > i { values.swap(i, j) } *)
Definition permute_body (n i : nat) : list (task V) :=
  let j := permute_index n i in if i <? j then [swap_task i j] else [].

(* FftInputs::permute (serial): for i in 0..n *)
Definition serial_permute_steps (n : nat) : list (task V) := flat_map (permute_body n) (seq 0 n).
Definition serial_permute (v : list V) : list V := exec (serial_permute_steps (length v)) v.

(* concurrent: num_batches = current_num_threads().next_power_of_two() [* 2 in prover::matrix::segments];
   batch_size = n / num_batches; task b: for i in b*batch_size .. b*batch_size + batch_size *)
Definition permute_num_batches (T mult : nat) : nat := npo2 T * mult.
Definition permute_batch_steps (n bs b : nat) : list (task V) := flat_map (permute_body n) (seq (b * bs) bs).
Definition permute_par_steps (n T mult : nat) : list (list (task V)) :=
  let nb := permute_num_batches T mult in
  let bs := n / nb in
  map (permute_batch_steps n bs) (seq 0 nb).
Definition permute_par_tasks (n T mult : nat) : list (task V) := map compose (permute_par_steps n T mult).

(* run under a task-level schedule / under a step-level interleaving *)
Definition permute_par (T mult : nat) (sched : list nat) (v : list V) : list V :=
  exec (reorder (permute_par_tasks (length v) T mult) sched) v.
Definition permute_par_interleaved (T mult : nat) (choices : list nat) (v : list V) : list V * bool :=
  let '(out, rest_tss) := merge_by choices (permute_par_steps (length v) T mult) in (exec out v, all_empty rest_tss).

(* fft/mod.rs permute: dispatch on MIN_CONCURRENT_SIZE *)
Definition permute_dispatch (concurrent : bool) (T : nat) (sched : list nat) (v : list V) : list V :=
  if concurrent && (1024 <=? length v) then permute_par T 1 sched v else serial_permute v.
End Permute.

(* ---------------------------------------------------------------- Merkle tree nodes *)
Section MerkleNodes.
Context {D : Type} (d0 : D) (merge : D -> D -> D).

(* nodes[k] = H::merge(&two_nodes[k]) *)
Definition node_task (k : nat) : task D :=
  cell_task [2 * k; 2 * k + 1] k (fun s => merge (nth (2 * k) s d0) (nth (2 * k + 1) s d0)).
(* nodes[n + i] = H::merge(&two_leaves[i]) *)
Definition leaf_task (leaves : list D) (n i : nat) : task D :=
  cell_task [] (n + i) (fun _ => merge (nth (2 * i) leaves d0) (nth (2 * i + 1) leaves d0)).

(* (start..start+len).rev() *)
Definition desc_range (start len : nat) : list nat := rev (seq start len).

(* the body of one spawned subtree task:
     while start_idx >= num_subtrees { for k in (start_idx..start_idx+batch_size).rev() {..}; start_idx /= 2; batch_size /= 2 } *)
Fixpoint subtree_steps (fuel ns start bs : nat) : option (list (task D)) :=
  if start <? ns then Some [] else
  match fuel with
  | 0 => None
  | S f => match subtree_steps f ns (start / 2) (bs / 2) with
           | None => None
           | Some r => Some (map node_task (desc_range start bs) ++ r)
           end
  end.

Record merkle_plan : Type := mkPlan {
  mp_leaf : list (list (task D));      (* phase 1: one single-step task per pair of leaves (par_iter_mut) *)
  mp_sub : list (list (task D));       (* phase 2: rayon::scope, one spawned task per subtree *)
  mp_top : list (task D)               (* phase 3: the tip of the tree, on the calling thread *)
}.

Definition merkle_par_plan (leaves : list D) (T : nat) : outcome merkle_plan :=
  let n := length leaves / 2 in
  let ns := npo2 T in
  let batch := n / ns in
  if n =? 0 then Panic (* nodes[0] = default on an empty vector *) else
  match sequence_opt (map (fun i => let start := n / 2 + (batch / 2) * i in subtree_steps (S start) ns start (batch / 2))
                          (seq 0 ns)) with
  | None => Panic (* fuel; unreachable *)
  | Some subs =>
      if n <? ns then Panic (* two_nodes[num_subtrees - 1] is out of bounds *) else
      Done {| mp_leaf := map (fun i => [leaf_task leaves n i]) (seq 0 n);
              mp_sub := subs;
              mp_top := map node_task (desc_range 1 (ns - 1)) |}
  end.

(* serial build_merkle_nodes: leaf row in increasing order, then for i in (1..n).rev() *)
Definition merkle_serial_steps (leaves : list D) : list (task D) :=
  let n := length leaves / 2 in
  map (leaf_task leaves n) (seq 0 n) ++ map node_task (desc_range 1 (n - 1)).

(* the freshly allocated (un-initialised) vector is an arbitrary list [junk] of length 2n; nodes[0] = default *)
Definition merkle_init (junk : list D) : list D := lupd junk 0 d0.
Definition merkle_serial (leaves junk : list D) : list D := exec (merkle_serial_steps leaves) (merkle_init junk).

(* the three phases under task-level schedules (the top phase is sequential code) *)
Definition merkle_par (leaves junk : list D) (T : nat) (sched1 sched2 : list nat) : outcome (list D) :=
  match merkle_par_plan leaves T with
  | Panic => Panic
  | Done p => Done (exec_phases [reorder (map compose (mp_leaf p)) sched1; reorder (map compose (mp_sub p)) sched2; mp_top p]
                                (merkle_init junk))
  end.
(* ... and under step-level interleavings of phases 1 and 2 *)
Definition merkle_par_interleaved (leaves junk : list D) (T : nat) (ch1 ch2 : list nat) : outcome (list D * bool) :=
  match merkle_par_plan leaves T with
  | Panic => Panic
  | Done p =>
      let '(o1, l1) := merge_by ch1 (mp_leaf p) in
      let '(o2, l2) := merge_by ch2 (mp_sub p) in
      Done (exec_phases [o1; o2; mp_top p] (merkle_init junk), all_empty l1 && all_empty l2)
  end.

(* MerkleTree::new dispatch: leaves.len() <= MIN_CONCURRENT_LEAVES (1024) -> serial *)
Definition merkle_nodes_dispatch (concurrent : bool) (leaves junk : list D) (T : nat) (s1 s2 : list nat) : outcome (list D) :=
  if concurrent && negb (length leaves <=? 1024) then merkle_par leaves junk T s1 s2
  else if length leaves / 2 =? 0 then Panic else Done (merkle_serial leaves junk).

(* specification: the value of heap node k of the tree over [leaves] with n = len/2 internal leaf-parents;
   depth-fuelled (fuel = number of levels below k that may still be internal) *)
Fixpoint tree_node (fuel : nat) (leaves : list D) (n k : nat) : D :=
  if n <=? k then merge (nth (2 * (k - n)) leaves d0) (nth (2 * (k - n) + 1) leaves d0)
  else match fuel with
       | 0 => d0
       | S f => merge (tree_node f leaves n (2 * k)) (tree_node f leaves n (2 * k + 1))
       end.
End MerkleNodes.

(* ---------------------------------------------------------------- RowMatrix transpose *)
(* get_num_batches(input_size) *)
Definition get_num_batches (concurrent : bool) (input_size T : nat) : nat :=
  if concurrent then if input_size <? 1024 then 1 else npo2 T * 2 else 1.

(* transpose(segments): per batch, the list of (result index, source row, source segment) triples written.
   [bounded] = the repaired code (`min(get_num_batches(result_len), num_rows)`). *)
Definition transpose_plan_gen (bounded concurrent : bool) (num_rows num_segs T : nat) : outcome (list (list (nat * nat * nat))) :=
  let result_len := num_rows * num_segs in
  if num_segs =? 1 then Done []           (* early return: the single segment is the result *)
  else
    let nb0 := get_num_batches concurrent result_len T in
    let nb := if bounded then Nat.min nb0 num_rows else nb0 in
    let rows_per_batch := num_rows / nb in
    let body := fun (batch_idx off : nat) =>
      flat_map (fun i => map (fun j => (off + (i * num_segs + j), i + batch_idx * rows_per_batch, j)) (seq 0 num_segs))
               (seq 0 rows_per_batch) in
    if concurrent then
      match par_chunks result_len (result_len / nb) with
      | Panic => Panic
      | Done cs => Done (map (fun kc => body (fst kc) (fst (snd kc))) (combine (seq 0 (length cs)) cs))
      end
    else Done [body 0 0].
Definition transpose_plan := transpose_plan_gen true.
Definition transpose_plan_unbounded := transpose_plan_gen false.

(* cells of the result written by a plan, in batch order *)
Definition plan_cells (p : list (list (nat * nat * nat))) : list nat := flat_map (map (fun t => fst (fst t))) p.
(* serial specification: result[r * num_segs + j] = segments[j][r] *)
Definition transpose_spec (num_rows num_segs : nat) : list (nat * nat * nat) :=
  flat_map (fun r => map (fun j => (r * num_segs + j, r, j)) (seq 0 num_segs)) (seq 0 num_rows).

(* ---------------------------------------------------------------- constraint evaluation fragments *)
(* DefaultConstraintEvaluator::evaluate + ConstraintEvaluationTable::fragments: (offset, rows) of each fragment;
   assert!(fragment_size >= MIN_FRAGMENT_SIZE = 16) *)
Definition fragment_plan (concurrent : bool) (ce_domain_size T : nat) : outcome (list (nat * nat)) :=
  let num_fragments := if concurrent then if 8 * 1024 <=? ce_domain_size then npo2 T else 1 else 1 in
  let fragment_size := ce_domain_size / num_fragments in
  if fragment_size <? 16 then Panic
  else match par_chunks ce_domain_size fragment_size with
       | Panic => Panic
       | Done cs => if length cs =? num_fragments then Done cs else Panic (* result[i] out of bounds in make_fragments *)
       end.

(* ---------------------------------------------------------------- index-batched maps *)
(* batch_iter_mut! whose closure computes result[batch_offset + i] = f(batch_offset + i)
   (RowMatrix/ColMatrix::commit_to_rows: f = hash of row; get_inv_evaluation: f = x^a - b at the step) *)
Definition map_batched {A} (f : nat -> A) (chunks : list (nat * nat)) : list A :=
  flat_map (fun c => map (fun i => f (fst c + i)) (seq 0 (snd c))) chunks.
Definition map_serial {A} (f : nat -> A) (n : nat) : list A := map f (seq 0 n).

(* evaluation_table.rs acc_column, transition-constraint branch: batch_iter_mut!(result, 128, ..) and inside a batch
   `let z = z[i % z.len()]` with the LOCAL index i (the x coordinate uses batch_offset + i); serially i is global *)
Definition acc_z_index_batched (zl : nat) (chunks : list (nat * nat)) : list nat :=
  flat_map (fun c => map (fun i => i mod zl) (seq 0 (snd c))) chunks.
Definition acc_z_index_serial (zl n : nat) : list nat := map (fun i => i mod zl) (seq 0 n).

(* evaluator/default.rs evaluate_fragment_main / evaluate_fragment_full: row i of the fragment (off, len) is step off + i of
   the constraint-evaluation domain; PeriodicValueTable::get_row(r) returns row r mod table_len (table_len = longest cycle *
   ce blowup).  [periodic_rows_fragmented] = the code (global step), [periodic_rows_local] = a lookup with the fragment-local
   row i (what seeded change C14-r3prover3 does), [periodic_rows_serial] = one fragment. *)
Definition periodic_rows_fragmented (table_len : nat) (frags : list (nat * nat)) : list nat :=
  flat_map (fun c => map (fun i => (fst c + i) mod table_len) (seq 0 (snd c))) frags.
Definition periodic_rows_local (table_len : nat) (frags : list (nat * nat)) : list nat :=
  flat_map (fun c => map (fun i => i mod table_len) (seq 0 (snd c))) frags.
Definition periodic_rows_serial (table_len n : nat) : list nat := map (fun i => i mod table_len) (seq 0 n).

(* ---------------------------------------------------------------- plain parallel maps (iter!/iter_mut! + for_each/map) *)
(* iter_mut!(v [, min_len]).enumerate()/zip(..).for_each(|(i, x)| *x = g(i, *x)): one single-cell task per element *)
Definition par_update_tasks {V} (d : V) (g : nat -> V -> V) (n : nat) : list (task V) :=
  map (fun i => cell_task [i] i (fun s => g i (nth i s d))) (seq 0 n).
(* ... |(i, x)| *x = f(i) into a fresh (un-initialised) vector, or iter!(..).map(f).collect() (the read footprint [i] is an
   over-approximation: the old content is ignored) *)
Definition par_map_tasks {V} (d : V) (f : nat -> V) (n : nat) : list (task V) := par_update_tasks d (fun i _ => f i) n.
Definition par_map_serial {V} (f : nat -> V) (n : nat) : list V := map f (seq 0 n).

(* instances (the closure bodies are the parameters; the sequential build runs the SAME closure over a plain iterator):
   utils::transpose_slice::<T, N>(source): result[i][j] = source[i + j * row_count]            (iter_mut!(result, 1024)) *)
Definition transpose_slice_row {T} (dt : T) (source : list T) (N row_count i : nat) : list T :=
  map (fun j => nth (i + j * row_count) source dt) (seq 0 N).
Definition transpose_slice_tasks {T} (dt : T) (source : list T) (N : nat) : list (task (list T)) :=
  par_map_tasks [] (transpose_slice_row dt source N (length source / N)) (length source / N).
(* fri::utils::hash_values::<H, E, N>(values): result[i] = H::hash_elements(values[i])            (iter_mut!(result, 1024)) *)
Definition hash_values_tasks {R Dg} (dd : Dg) (dr : R) (hash_row : R -> Dg) (values : list R) : list (task Dg) :=
  par_map_tasks dd (fun i => hash_row (nth i values dr)) (length values).
(* fri::folding::apply_drp: result[i] = fold(values[i], inv_offsets[i], alpha)                     (iter_mut!(result)) *)
Definition apply_drp_tasks {R B E} (de : E) (dr : R) (db : B) (fold_row : R -> B -> E) (values : list R) (inv_offsets : list B)
  : list (task E) :=
  par_map_tasks de (fun i => fold_row (nth i values dr) (nth i inv_offsets db)) (length values).
(* evaluation_table::acc_column, boundary branch: acc[i] += value[i] * z[i % z.len()] with the GLOBAL i of enumerate()
   (iter_mut!(result, 1024).zip(column).enumerate()) *)
Definition acc_column_boundary_tasks {E} (de : E) (mul_add : E -> E -> nat -> E) (column : list E) (zl : nat) : list (task E) :=
  par_update_tasks de (fun i acc => mul_add acc (nth i column de) (i mod zl)) (length column).
(* ColMatrix::{interpolate_columns(_into), evaluate_columns_over, evaluate_columns_at}, composer (DEEP composition: one task per
   trace / constraint column polynomial), composition poly columns: iter!/iter_mut!(columns) — one task per COLUMN, the cell is the
   whole column and [col_fn c] the (sequential or itself parallel, separately specified) per-column function *)
Definition per_column_tasks {C} (dc : C) (col_fn : nat -> C -> C) (ncols : nat) : list (task C) := par_update_tasks dc col_fn ncols.

(* ---------------------------------------------------------------- proof-of-work nonce *)
Section Nonce.
Variable leading_zeros : nat -> nat.      (* public_coin.check_leading_zeros(nonce) for the current seed *)
Definition pow_ok (grinding : nat) (nonce : nat) : bool := grinding <=? leading_zeros nonce.
(* serial: (1..u64::MAX).find(..): the first in increasing order, over a bounded prefix *)
Definition find_first (grinding bound : nat) : option nat := find (pow_ok grinding) (seq 1 bound).
(* concurrent: into_par_iter().find_any(..): whichever satisfying candidate a worker reports first; a schedule is the
   order in which candidates are examined *)
Definition find_any_sched (grinding : nat) (order : list nat) : option nat := find (pow_ok grinding) order.
(* verifier: `if public_coin.check_leading_zeros(pow_nonce) < grinding_factor { Err(..) }` *)
Definition verifier_pow_accepts (grinding nonce : nat) : bool := negb (leading_zeros nonce <? grinding).
End Nonce.
