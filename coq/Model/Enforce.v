(* C16 — executable models of the code that decides on which steps constraints are enforced.
   Sources (winterfell /repo):
     air/src/air/assertions/mod.rs   Assertion::{single,periodic,sequence}, validate_stride, is_*,
                                     overlaps_with, validate_trace_width, validate_trace_length,
                                     apply, get_num_steps, Ord::cmp
     air/src/air/boundary/mod.rs     prepare_assertions, grouping key of group_constraints
     air/src/air/boundary/constraint.rs  BoundaryConstraint::{new, evaluate_at}
     air/src/air/divisor.rs          ConstraintDivisor::{from_transition, from_assertion, degree,
                                     evaluate_at, evaluate_exemptions_at}, get_trace_domain_value_at
     air/src/air/context.rs          set_num_transition_exemptions (the three asserts)
     air/src/air/transition/degree.rs get_evaluation_degree
   usize values are Z (non-negative); `None` / a V* error constructor is the Rust panic / Err.
   No proofs here. *)
From VBase Require Import MachInt FieldOps.
Open Scope Z_scope.

(* ------------------------------------------------------------------ integer level *)

Definition USIZE_MAX1 : Z := 2 ^ 64.

(* usize::is_power_of_two *)
Definition is_pow2 (x : Z) : bool := (0 <? x) && (x =? 2 ^ Z.log2 x).

(* Assertion<E>: the values vector is represented by its length at this level *)
Record Assertion := mkA { a_col : Z; a_first : Z; a_stride : Z; a_nvals : Z }.

Definition MIN_STRIDE_LENGTH : Z := 2.
Definition NO_STRIDE : Z := 0.

(* validate_stride: the three asserts, in order *)
Definition validate_stride (stride first : Z) : bool :=
  is_pow2 stride && (MIN_STRIDE_LENGTH <=? stride) && (first <? stride).

(* constructors: None = panic *)
Definition mk_single (col step : Z) : option Assertion := Some (mkA col step NO_STRIDE 1).
Definition mk_periodic (col first stride : Z) : option Assertion :=
  if validate_stride stride first then Some (mkA col first stride 1) else None.
Definition mk_sequence (col first stride nvals : Z) : option Assertion :=
  if validate_stride stride first && negb (nvals =? 0) && is_pow2 nvals
  then Some (mkA col first (if nvals =? 1 then NO_STRIDE else stride) nvals)
  else None.

Definition is_single (a : Assertion) : bool := a_stride a =? NO_STRIDE.
Definition is_periodic (a : Assertion) : bool := negb (a_stride a =? NO_STRIDE) && (a_nvals a =? 1).
Definition is_sequence (a : Assertion) : bool := 1 <? a_nvals a.

(* validate_trace_width: true = Ok *)
Definition validate_trace_width (a : Assertion) (width : Z) : bool := negb (width <=? a_col a).

Inductive VRes := VOk | VNotPow2 | VTooShort | VNotExact | VOverflow.

(* validate_trace_length.  VOverflow = an overflow panic of the debug build: `values.len() * stride` exceeds usize
   (the release build wraps; both factors are powers of two, so the wrapped product is 0 and the answer is
   TraceLengthNotExact), or the error payload of the single-assertion branch overflows. *)
Definition validate_trace_length (a : Assertion) (n : Z) : VRes :=
  if negb (is_pow2 n) then VNotPow2
  else if is_single a then
         (if n <=? a_first a
          then (* the error payload `(first_step + 1).next_power_of_two()` overflows usize when first_step + 1 > 2^63 *)
               (if 2 ^ 63 <? a_first a + 1 then VOverflow else VTooShort)
          else VOk)
  else if is_periodic a then (if n <? a_stride a then VTooShort else VOk)
  else let e := a_nvals a * a_stride a in
       if USIZE_MAX1 <=? e then VOverflow
       else if e =? n then VOk else VNotExact.

(* get_num_steps: None = panic("invalid trace length") *)
Definition get_num_steps (a : Assertion) (n : Z) : option Z :=
  match validate_trace_length a n with
  | VOk => Some (if is_single a then 1
                 else if is_periodic a then n / a_stride a
                 else a_nvals a)
  | _ => None
  end.

(* apply: the (step, index of the value) pairs handed to the closure, in order; None = panic *)
Definition apply_steps (a : Assertion) (n : Z) : option (list (Z * Z)) :=
  match validate_trace_length a n with
  | VOk => Some (if is_single a then [(a_first a, 0)]
                 else if is_periodic a
                      then map (fun i => (a_first a + a_stride a * i, 0)) (zrange 0 (n / a_stride a))
                      else map (fun i => (a_first a + a_stride a * i, i)) (zrange 0 (a_nvals a)))
  | _ => None
  end.

(* the steps an assertion names on a trace of length n (first components of apply) *)
Definition steps (a : Assertion) (n : Z) : list Z :=
  if is_single a then [a_first a]
  else if is_periodic a then map (fun i => a_first a + a_stride a * i) (zrange 0 (n / a_stride a))
  else map (fun i => a_first a + a_stride a * i) (zrange 0 (a_nvals a)).

(* checked `%` and `-` of overlaps_with: None = panic (division by zero / underflow) *)
Definition checked_rem (x y : Z) : option Z := if y =? 0 then None else Some (x mod y).
Definition checked_sub (x y : Z) : option Z := if x <? y then None else Some (x - y).
Definition rem_is_zero (x y d : Z) : option bool :=
  match checked_sub x y with
  | None => None
  | Some t => match checked_rem t d with None => None | Some r => Some (r =? 0) end
  end.

(* Assertion::overlaps_with(self = a, other = b), statement by statement *)
Definition overlaps_with (a b : Assertion) : option bool :=
  if negb (a_col a =? a_col b) then Some false
  else if a_first a =? a_first b then Some true
  else if a_stride a =? a_stride b then Some false
  else if a_first a <? a_first b then
    if is_single a then Some false
    else if is_single b || (a_stride a <? a_stride b)
         then rem_is_zero (a_first b) (a_first a) (a_stride a)
         else Some false
  else
    if is_single b then Some false
    else if is_single a || (a_stride b <? a_stride a)
         then rem_is_zero (a_first a) (a_first b) (a_stride b)
         else Some false.

(* Ord::cmp : by stride, then first_step, then column *)
Definition a_cmp (a b : Assertion) : comparison :=
  if a_stride a =? a_stride b then
    if a_first a =? a_first b then a_col a ?= a_col b else a_first a ?= a_first b
  else a_stride a ?= a_stride b.

(* BTreeSet::insert: keeps the set sorted by a_cmp; an element comparing Equal is not replaced *)
Fixpoint set_insert (a : Assertion) (l : list Assertion) : list Assertion :=
  match l with
  | [] => [a]
  | b :: r => match a_cmp a b with
              | Lt => a :: l
              | Eq => l
              | Gt => b :: set_insert a r
              end
  end.

Inductive PrepErr := PEWidth | PELength | PEOverlap | PEPanic.

(* prepare_assertions: validates each assertion, refuses overlaps with every earlier accepted assertion
   of the same column, returns them in natural order *)
Fixpoint prepare_go (l acc : list Assertion) (width n : Z) : PrepErr + list Assertion :=
  match l with
  | [] => inr acc
  | a :: r =>
    if negb (validate_trace_width a width) then inl PEWidth
    else match validate_trace_length a n with
         | VOk =>
           let same := filter (fun b => a_col b =? a_col a) acc in
           if existsb (fun b => match overlaps_with b a with Some false => false | _ => true end) same
           then (if existsb (fun b => match overlaps_with b a with None => true | _ => false end) same
                 then inl PEPanic else inl PEOverlap)
           else prepare_go r (set_insert a acc) width n
         | _ => inl PELength
         end
  end.
Definition prepare_assertions (l : list Assertion) (width n : Z) : PrepErr + list Assertion :=
  prepare_go l [] width n.

(* BoundaryConstraints::new, validation part (the three assert_eq! on the numbers of assertions / coefficients are not
   modelled: callers pass consistent counts): the main-segment assertions are prepared against
   trace_info.main_trace_width(), the auxiliary-segment assertions against trace_info.aux_segment_width() -- each
   segment's OWN width --, main first *)
Definition boundary_prepare (main aux : list Assertion) (mw aw n : Z) : PrepErr + (list Assertion * list Assertion) :=
  match prepare_assertions main mw n with
  | inl e => inl e
  | inr m => match prepare_assertions aux aw n with
             | inl e => inl e
             | inr a => inr (m, a)
             end
  end.

(* key under which group_constraints shares one divisor *)
Definition group_key (a : Assertion) : Z * Z := (a_stride a, a_first a).

(* TransitionConstraintDegree::get_evaluation_degree: base * (n-1) + sum (n / c) * (c - 1) *)
Definition eval_degree (n base : Z) (cycles : list Z) : Z :=
  fold_left (fun r c => r + (n / c) * (c - 1)) cycles (base * (n - 1)).

(* set_num_transition_exemptions: true = all three asserts pass.
   [ce] = ce_domain_size(), [degs] = evaluation degrees of all transition constraints.
   `ce - 1 + n - eval_degree` is a checked usize subtraction: underflow = panic = refused. *)
Definition exemptions_ok (n k ce : Z) (degs : list Z) : bool :=
  (0 <? k) && (k <=? n / 2 + 1) &&
  forallb (fun d => (d <=? ce - 1 + n) && (k <=? ce - 1 + n - d)) degs.

(* ------------------------------------------------------------------ field level *)

Section Field.
  Context {F : Type} (O : FOps F).
  (* g = B::get_root_of_unity(trace_length.ilog2()) : the trace-domain generator for THE trace length *)
  Variable g : F.

  (* FieldElement::exp (square and multiply); exponent 0 gives ONE *)
  Fixpoint fpow_pos (x : F) (p : positive) : F :=
    match p with
    | xH => x
    | xO q => let r := fpow_pos x q in fmul O r r
    | xI q => let r := fpow_pos x q in fmul O x (fmul O r r)
    end.
  Definition fpow (x : F) (e : Z) : F :=
    match e with Zpos p => fpow_pos x p | _ => fone O end.

  (* ConstraintDivisor: numerator = product of (x^deg - c), exemptions = product of (x - e) *)
  Record Divisor := mkD { d_num : list (Z * F); d_ex : list F }.

  (* get_trace_domain_value_at (debug_assert!(step < trace_length) as an explicit panic) *)
  Definition trace_domain_value_at (n step : Z) : option F :=
    if step <? n then Some (fpow g step) else None.

  (* from_transition(n, k): `n - k` is a checked subtraction (None = debug panic).
     The steps of the range n-k..n are all < n, so the debug_assert of get_trace_domain_value_at
     cannot fire (lemma from_transition_steps_in_domain). *)
  Definition from_transition (n k : Z) : option Divisor :=
    match checked_sub n k with
    | None => None
    | Some lo => Some (mkD [(n, fone O)] (map (fun s => fpow g s) (zrange lo n)))
    end.

  (* from_assertion(a, n) *)
  Definition from_assertion (a : Assertion) (n : Z) : option Divisor :=
    match get_num_steps a n with
    | None => None
    | Some m =>
      if a_first a =? 0 then Some (mkD [(m, fone O)] [])
      else match trace_domain_value_at n (m * a_first a) with
           | None => None
           | Some off => Some (mkD [(m, off)] [])
           end
    end.

  (* degree(): checked subtraction *)
  Definition d_degree (d : Divisor) : option Z :=
    checked_sub (fold_left (fun deg t => deg + fst t) (d_num d) 0) (Z.of_nat (length (d_ex d))).

  (* numerator loop of evaluate_at; `*degree as u64` (lossless for a 64-bit usize; it was `as u32` before the
     fix recorded in fixes/c16-divisor-exponent-truncation.diff, which truncated degrees >= 2^32) *)
  Definition eval_numerator (d : Divisor) (x : F) : F :=
    fold_left (fun acc t => fmul O acc (fsub O (fpow x (fst t mod 2 ^ 64)) (snd t))) (d_num d) (fone O).
  (* evaluate_exemptions_at *)
  Definition eval_exemptions (d : Divisor) (x : F) : F :=
    fold_left (fun r e => fmul O r (fsub O x e)) (d_ex d) (fone O).
  (* evaluate_at = numerator / denominator, with the field's total division (x / 0 = x * inv 0 = 0) *)
  Definition evaluate_at (d : Divisor) (x : F) : F :=
    fdiv O (eval_numerator d x) (eval_exemptions d x).

  (* polynom::eval (Horner, coefficients in ascending order) *)
  Definition poly_eval (p : list F) (x : F) : F :=
    fold_right (fun c acc => fadd O c (fmul O acc x)) (fzero O) p.

  (* fft::interpolate_poly(values, get_inv_twiddles(len)) by its specification: the inverse DFT over
     the subgroup generated by w = g^(n/len); [winv] = w^-1, [minv] = (len as field element)^-1:
     coefficient k = minv * sum_j v_j * winv^(j*k) = minv * (the polynomial with coefficients v at winv^k).
     The FFT itself belongs to C09; the correspondence compares this with the real output. *)
  Definition idft (winv minv : F) (vals : list F) : list F :=
    map (fun k => fmul O minv (poly_eval vals (fpow winv k))) (zrange 0 (Z.of_nat (length vals))).

  (* BoundaryConstraint { column, poly, poly_offset } (the composition coefficient is irrelevant here) *)
  Record BConstraint := mkBC { bc_col : Z; bc_poly : list F; bc_off_steps : Z; bc_off : F }.

  (* BoundaryConstraint::new(assertion, inv_g, ..): [a] carries column/first_step/stride, [vals] the values.
     The twiddles for len values are those of the root g^(stride) (= get_root_of_unity(log2 len)). *)
  Definition bc_poly_offset (a : Assertion) (len : Z) (inv_g : F) : Z * F :=
    if (1 <? len) && negb (a_first a =? 0) then (a_first a, fpow inv_g (a_first a)) else (0, fone O).
  Definition bc_new (a : Assertion) (vals : list F) (inv_g : F) : BConstraint :=
    let len := Z.of_nat (length vals) in
    let poly := if 1 <? len then idft (fpow inv_g (a_stride a)) (finv O (fofz O len)) vals else vals in
    let off := bc_poly_offset a len inv_g in
    mkBC (a_col a) poly (fst off) (snd off).

  (* BoundaryConstraint::evaluate_at(x, trace_value) *)
  Definition bc_evaluate_at (c : BConstraint) (x tv : F) : F :=
    let av := match bc_poly c with
              | [v] => v
              | p => poly_eval p (fmul O x (bc_off c))
              end in
    fsub O tv av.
End Field.
