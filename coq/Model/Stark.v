(* C01 — model of the STARK prover/verifier pair (prover/src/lib.rs generate_proof, prover/src/composer/mod.rs,
   verifier/src/lib.rs perform_verification, verifier/src/composer.rs) and of the shape-level admissibility
   checks of the constructors (air/src/options.rs ProofOptions::new, air/src/air/trace_info.rs
   TraceInfo::new/new_multi_segment, air/src/air/transition/degree.rs, air/src/air/context.rs
   AirContext::new/new_multi_segment/set_num_transition_exemptions/num_constraint_composition_columns,
   fri/src/options.rs num_fri_layers).  NO proofs here.

   PART 1 (shape level, over Z; run against the real constructors by the correspondence of checks/c01.py):
   every `assert!` of a constructor is a `false`/`None` outcome ("panic").  usize arithmetic: all quantities
   are < 2^62 in the explored range and no subtraction below underflows on accepted inputs (proved in
   Proofs/StarkShape.v: `exemptions_bound_no_underflow`, `comp_cols_no_underflow`).

   PART 2 (algebraic level, over `FOps F`): polynomials are coefficient lists (lowest degree first) with
   semantics `peval`; commitments / batch openings / FRI / interpolation over the constraint evaluation coset are
   Section variables (their completeness properties are NAMED hypotheses of the capstone theorem in
   Proofs/StarkComplete.v); the outputs of the public coin are a record `Coin` (prover and verifier each get
   one; that they agree is the transcript hypothesis).  The prover's `assert`s are explicit `Panic`s:
     - `assert_eq!(trace_length - 2, deep_composition_poly.degree())`  (prover/src/lib.rs)   -> `deep_assert`
       and the two `assert_eq!(self.poly_size() - 2, self.degree())` of the composer: the snapshot had
       equalities (`strict := true`, refuted for valid degenerate traces); the working tree
       (fixes/c01-deep-degree-assert.diff) has `<=` (`strict := false`).
     - `assert_eq!(composition_poly.num_columns(), num_constraint_composition_columns)` etc.
     - release builds silently TRUNCATE a composition polynomial that does not fit its columns (`segment`
       only debug-asserts); modelled by `segment` (take) + the flag `dbg`.
   Lagrange-kernel columns and GKR proofs are not modelled (see notes/C01.design.md). *)
From Coq Require Import List Arith Bool ZArith.
From VBase Require Import FieldOps.
Import ListNotations.

(* ================================================================================================ *)
(* PART 1: shape-level admissibility                                                                 *)
(* ================================================================================================ *)
Module Shape.
Open Scope Z_scope.

(* usize::is_power_of_two / next_power_of_two *)
Definition is_pow2 (x : Z) : bool := (0 <? x) && (x =? 2 ^ Z.log2 x).
Definition next_pow2 (x : Z) : Z := if x <=? 1 then 1 else 2 ^ Z.log2_up x.

(* ProofOptions::new(num_queries, blowup_factor, grinding_factor, _, fri_folding_factor, fri_remainder_max_degree) *)
Definition options_ok (q b g f m : Z) : bool :=
  (0 <? q) && (q <=? 255) &&
  is_pow2 b && (2 <=? b) && (b <=? 128) &&
  (g <=? 32) &&
  is_pow2 f && (2 <=? f) && (f <=? 16) &&
  is_pow2 (m + 1) && (m <=? 255).

(* FriOptions::new(blowup, folding, _) as called by to_fri_options *)
Definition fri_options_ok (b f : Z) : bool :=
  is_pow2 b && ((f =? 2) || (f =? 4) || (f =? 8) || (f =? 16)).

(* TraceInfo::new_multi_segment(main, aux, rands, len, meta = []) *)
Definition trace_info_ok (main aux rands len : Z) : bool :=
  (8 <=? len) && is_pow2 len && (0 <? main) && (main + aux <=? 255) &&
  (if aux =? 0 then rands =? 0 else true) && (rands <=? 255).

(* TransitionConstraintDegree { base, cycles }: new(base) when cycles = [], with_cycles otherwise *)
Definition Degree : Type := (Z * list Z)%type.
Definition degree_ok (d : Degree) : bool :=
  (0 <? fst d) && forallb (fun c => (2 <=? c) && is_pow2 c) (snd d).

(* get_evaluation_degree(trace_length) *)
Definition eval_degree (n : Z) (d : Degree) : Z :=
  fold_left (fun r c => r + (n / c) * (c - 1)) (snd d) (fst d * (n - 1)).

(* min_blowup_factor *)
Definition min_blowup (d : Degree) : Z :=
  Z.max (next_pow2 (fst d + Z.of_nat (length (snd d)) - 1)) 2.

Definition ce_blowup (degs : list Degree) : Z := fold_left (fun r d => Z.max r (min_blowup d)) degs 0.

(* AirContext::new_multi_segment(trace_info(main,aux,_,n), main_degs, aux_degs, na, naa, None, options(blowup)) *)
Definition context_ok (aux n blowup : Z) (md ad : list Degree) (na naa : Z) : bool :=
  negb (match md with [] => true | _ => false end) && (0 <? na) &&
  (if 0 <? aux then negb (match ad with [] => true | _ => false end) && (0 <? naa)
   else (match ad with [] => true | _ => false end) && (naa =? 0)) &&
  (ce_blowup (md ++ ad) <=? blowup).

(* set_num_transition_exemptions(e) *)
Definition exemptions_ok (n ce : Z) (degs : list Degree) (e : Z) : bool :=
  (0 <? e) && (e <=? n / 2 + 1) &&
  forallb (fun d => e <=? (ce * n - 1) + n - eval_degree n d) degs.

Definition highest_degree (n : Z) (degs : list Degree) : Z :=
  fold_left (fun r d => Z.max r (eval_degree n d)) degs 0.

(* num_constraint_composition_columns: working tree (fixes/c01-composition-columns-off-by-one.diff) *)
Definition num_comp_cols (n : Z) (degs : list Degree) (e : Z) : Z :=
  Z.max ((highest_degree n degs - (n - e) + n) / n) 1.
(* ... and as in the snapshot 0de7d8a: ceil(degree / n) instead of ceil((degree + 1) / n) *)
Definition num_comp_cols_snapshot (n : Z) (degs : list Degree) (e : Z) : Z :=
  Z.max ((highest_degree n degs - (n - e) + n - 1) / n) 1.

(* degree bound of the constraint composition polynomial (transition part): highest numerator degree minus
   the degree n - e of the divisor (x^n - 1) / prod_{k<e} (x - g^(n-1-k)) *)
Definition comp_degree (n : Z) (degs : list Degree) (e : Z) : Z := highest_degree n degs - (n - e).

(* The whole constructor pipeline of the correspondence case `ctx`:
   degrees -> TraceInfo -> ProofOptions(1, blowup, 0, None, 2, 0) -> AirContext::new / new_multi_segment ->
   [set_num_transition_exemptions] -> (ce_domain_size, num columns, lde size, exemptions) *)
Definition ctx_model (mw aw rands log_n blowup na naa : Z) (use_new : bool) (ex : option Z)
    (md ad : list Degree) : option (Z * Z * Z * Z) :=
  let n := 2 ^ log_n in
  if negb (forallb degree_ok md && forallb degree_ok ad) then None
  else if negb (trace_info_ok mw aw rands n) then None
  else if negb (options_ok 1 blowup 0 2 0) then None
  else if use_new && (0 <? aw) then None
  else
    let ad' := if use_new then [] else ad in
    let naa' := if use_new then 0 else naa in
    if negb (context_ok aw n blowup md ad' na naa') then None
    else
      let ce := ce_blowup (md ++ ad') in
      match ex with
      | None => Some (n * ce, num_comp_cols n (md ++ ad') 1, n * blowup, 1)
      | Some e => if exemptions_ok n ce (md ++ ad') e
                  then Some (n * ce, num_comp_cols n (md ++ ad') e, n * blowup, e) else None
      end.

(* FriOptions::num_fri_layers(domain_size): while domain_size > max_remainder_size { domain_size /= folding; result += 1 } *)
Fixpoint fri_layers_fuel (fuel : nat) (d maxrem fold : Z) : option Z :=
  match fuel with
  | O => None
  | S k => if d >? maxrem then option_map Z.succ (fri_layers_fuel k (d / fold) maxrem fold) else Some 0
  end.
Definition num_fri_layers (lde blowup fold rem : Z) : option Z :=
  fri_layers_fuel 70 lde ((rem + 1) * blowup) fold.

(* The property's notion of a well-formed FRI schedule: every folded layer keeps at least two rows (and the
   fold is exact), and the remainder has at least one coefficient. *)
Fixpoint fri_wf_fuel (fuel : nat) (d maxrem fold blowup : Z) : bool :=
  match fuel with
  | O => false
  | S k => if d >? maxrem
           then (d mod fold =? 0) && (2 <=? d / fold) && fri_wf_fuel k (d / fold) maxrem fold blowup
           else 1 <=? d / blowup
  end.
Definition fri_wellformed (lde blowup fold rem : Z) : bool :=
  fri_wf_fuel 70 lde ((rem + 1) * blowup) fold blowup.

(* admissible parameter set in the sense of the property C01 *)
Definition admissible (q blowup g fold rem : Z) (mw aw rands log_n na naa e : Z) (md ad : list Degree) : bool :=
  options_ok q blowup g fold rem &&
  match ctx_model mw aw rands log_n blowup na naa false (Some e) md ad with
  | Some _ => true | None => false end &&
  fri_wellformed (2 ^ log_n * blowup) blowup fold rem && (q <? 2 ^ log_n * blowup).

End Shape.

(* ================================================================================================ *)
(* PART 2: the protocol at the algebraic level                                                       *)
(* ================================================================================================ *)
Inductive Outcome (A : Type) : Type := Done (v : A) | Panic (why : nat).
Arguments Done {A} v. Arguments Panic {A} why.
(* Panic codes *)
Definition P_COLS : nat := 1.        (* composition_poly.num_columns() / column_degree asserts *)
Definition P_SEGMENT : nat := 2.     (* debug_assert!(degree_of(&coefficients) < trace_len * num_cols) — debug builds only *)
Definition P_DEEP_DEGREE : nat := 3. (* assert on deep_composition_poly.degree() *)
Definition P_SHAPE : nat := 4.       (* row/column count asserts, empty accumulators *)
Definition P_SYNDIV : nat := 5.      (* polynom::syn_div_in_place: assert!(b != ZERO) — the OOD point z or z*g is zero *)

Inductive VerifierError : Type :=
| InconsistentOodConstraintEvaluations | TraceQueryDoesNotMatchCommitment
| ConstraintQueryDoesNotMatchCommitment | FriVerificationFailed.

Section Alg.
Context {F : Type} (O : FOps F).
Local Notation zero := (fzero O).
Local Notation one := (fone O).
Local Notation "a +f b" := (fadd O a b) (at level 50, left associativity).
Local Notation "a -f b" := (fsub O a b) (at level 50, left associativity).
Local Notation "a *f b" := (fmul O a b) (at level 40, left associativity).
Local Notation "a /f b" := (fdiv O a b) (at level 40, left associativity).
Local Notation "a =f? b" := (feqb O a b) (at level 70).

(* ---------------------------------------------------------------- polynomials *)
Fixpoint fpow (x : F) (n : nat) : F := match n with 0 => one | S k => x *f fpow x k end.
Fixpoint peval (p : list F) (x : F) : F := match p with [] => zero | c :: t => c +f x *f peval t x end.

Fixpoint padd (a b : list F) : list F :=
  match a, b with
  | [], _ => b
  | _, [] => a
  | x :: a', y :: b' => (x +f y) :: padd a' b'
  end.
Definition pscale (k : F) (p : list F) : list F := map (fun c => c *f k) p.
(* accumulator[0] -= c   (slice index 0: the empty accumulator panics in Rust; see `deep_poly`) *)
Definition sub_const (p : list F) (c : F) : list F := match p with [] => [] | h :: t => (h -f c) :: t end.

(* polynom::degree_of: index of the last non-zero coefficient, 0 for the zero polynomial *)
Fixpoint allz (p : list F) : bool := match p with [] => true | c :: t => (c =f? zero) && allz t end.
Fixpoint degree_of (p : list F) : nat :=
  match p with [] => 0 | _ :: t => if allz t then 0 else S (degree_of t) end.

(* polynom::syn_div_in_place(p, 1, root): one pass of synthetic division by (x - root);
   returns (quotient of the same length with a zero top coefficient, remainder = p(root)) *)
Fixpoint syn1 (p : list F) (root : F) : list F * F :=
  match p with
  | [] => ([], zero)
  | h :: t => let '(t', c) := syn1 t root in (c :: t', h +f root *f c)
  end.

(* prod (x - r) over a list of roots; the trace domain {g^i} *)
Fixpoint pprod (roots : list F) (x : F) : F := match roots with [] => one | r :: t => (x -f r) *f pprod t x end.
Definition domain (g : F) (n : nat) : list F := map (fpow g) (seq 0 n).

(* CompositionPoly::new -> segment(): chunks(trace_len).take(num_cols) *)
Fixpoint segment (p : list F) (n cols : nat) : list (list F) :=
  match cols with
  | 0 => []
  | S k => match p with [] => [] | _ => firstn n p :: segment (skipn n p) n k end
  end.

(* ---------------------------------------------------------------- coin outputs and the DEEP composition *)
Record Coin : Type := mkCoin {
  c_z : F;                    (* out-of-domain point *)
  c_gamma : list F;           (* DeepCompositionCoefficients.trace   (one per trace column) *)
  c_delta : list F;           (* DeepCompositionCoefficients.constraints (one per composition column) *)
  c_xs : list F               (* x-coordinates offset * g_lde^position of the (sorted, deduplicated) query positions *)
}.

Definition evals (ps : list (list F)) (x : F) : list F := map (fun p => peval p x) ps.

(* Sum_c gamma_c * T_c  accumulated by mul_acc into a zero vector of length n *)
Fixpoint lincomb (gs : list F) (ps : list (list F)) (acc : list F) : list F :=
  match gs, ps with
  | g :: gs', p :: ps' => lincomb gs' ps' (padd acc (pscale g p))
  | _, _ => acc
  end.
Fixpoint dot (gs vs : list F) : F :=
  match gs, vs with g :: gs', v :: vs' => v *f g +f dot gs' vs' | _, _ => zero end.

(* DeepCompositionPoly::add_trace_polys (without Lagrange kernel): *)
Definition deep_trace (n : nat) (g z : F) (gam : list F) (Ts : list (list F)) (cur nxt : list F) : list F :=
  let t1 := sub_const (lincomb gam Ts (repeat zero n)) (dot gam cur) in
  let t2 := sub_const (lincomb gam Ts (repeat zero n)) (dot gam nxt) in
  padd (fst (syn1 t1 z)) (fst (syn1 t2 (z *f g))).

(* DeepCompositionPoly::add_composition_poly *)
Fixpoint deep_constraints (z : F) (dl : list F) (Hs : list (list F)) (hz : list F) (acc : list F) : list F :=
  match dl, Hs, hz with
  | d :: dl', H :: Hs', h :: hz' => deep_constraints z dl' Hs' hz' (padd acc (pscale d (fst (syn1 (sub_const H h) z))))
  | _, _, _ => acc
  end.

Definition deep_poly (n : nat) (g : F) (c : Coin) (Ts Hs : list (list F)) (cur nxt hz : list F) : list F :=
  deep_constraints (c_z c) (c_delta c) Hs hz (deep_trace n g (c_z c) (c_gamma c) Ts cur nxt).

(* the degree assertion(s): strict = snapshot (assert_eq), lax = working tree (assert degree <= n - 2) *)
Definition deep_assert (strict : bool) (n : nat) (d : list F) : bool :=
  if strict then (degree_of d =? n - 2)%nat else (degree_of d <=? n - 2)%nat.

(* ---------------------------------------------------------------- verifier: DeepComposer *)
(* compose_trace_columns for one query row *)
Definition v_trace (g z x : F) (gam row cur nxt : list F) : F :=
  let t1 := dot gam (map (fun p => fst p -f snd p) (combine row cur)) in
  let t2 := dot gam (map (fun p => fst p -f snd p) (combine row nxt)) in
  let d1 := x -f z in let d2 := x -f z *f g in
  (t1 *f d2 +f t2 *f d1) *f finv O (d1 *f d2).
(* compose_constraint_evaluations for one query row *)
Definition v_constraints (z x : F) (dl row hz : list F) : F :=
  dot dl (map (fun p => fst p -f snd p) (combine row hz)) *f finv O (x -f z).
Definition v_deep (g : F) (c : Coin) (x : F) (trow hrow cur nxt hz : list F) : F :=
  v_trace g (c_z c) x (c_gamma c) trow cur nxt +f v_constraints (c_z c) x (c_delta c) hrow hz.

(* ood_constraint_evaluation_2 = Sum_i z^(i*n) * value_i *)
Fixpoint ood_lhs (n : nat) (z : F) (i : nat) (hz : list F) : F :=
  match hz with [] => zero | h :: t => fpow z (i * n) *f h +f ood_lhs n z (S i) t end.

(* ---------------------------------------------------------------- abstract stages *)
Variable Digest Opening FriProof : Type.
Variable commit : list (list F) -> Digest.                          (* Merkle root of the LDE of a list of columns *)
(* prover: TraceLde::query / ConstraintCommitment::query — one batch Merkle proof for all queried points *)
Variable open_prove : list (list F) -> list F -> Opening.
(* verifier: read_queried_trace_states / read_constraint_evaluations — hash the opened rows into leaves and
   MerkleTree::verify_batch them against the root at the queried points *)
Variable open_ok : Digest -> list F -> list (list F) -> Opening -> bool.
Variable fri_prove : list F -> list F -> FriProof.                  (* build_layers(evaluations of the polynomial) + build_proof(query points) *)
Variable fri_verify : FriProof -> nat -> list F -> list F -> bool.  (* verify(max degree, xs, evaluations) *)
(* the AIR: combined, divided constraint evaluation at x from an (OOD or in-domain) frame — what
   verifier/src/evaluator.rs evaluate_constraints returns for fixed composition coefficients *)
Variable air_eval : F -> list F -> list F -> F.
(* interpolation of a function over the constraint evaluation coset into ce_size coefficients (C09) *)
Variable interp_ce : (F -> F) -> list F.

Record Params : Type := mkParams {
  p_n : nat;            (* trace length *)
  p_g : F;              (* trace domain generator *)
  p_cols : nat;         (* num_constraint_composition_columns *)
  p_strict : bool;      (* snapshot's assert_eq on the DEEP degree *)
  p_dbg : bool          (* debug build: debug_assert in segment() *)
}.

Record Proof : Type := mkProof {
  pf_trace_root : Digest; pf_comp_root : Digest;
  pf_cur : list F; pf_nxt : list F; pf_hz : list F;
  pf_trows : list (list F); pf_hrows : list (list F);
  pf_topen : Opening; pf_hopen : Opening;
  pf_fri : FriProof
}.

(* Prover::generate_proof from step 2 on, for trace polynomials Ts (interpolants of the columns) *)
Definition prove (P : Params) (c : Coin) (Ts : list (list F)) : Outcome Proof :=
  let n := p_n P in let g := p_g P in let z := c_z c in
  let H := interp_ce (fun x => air_eval x (evals Ts x) (evals Ts (x *f g))) in
  if p_dbg P && negb (degree_of H <? n * p_cols P)%nat then Panic P_SEGMENT
  else
    let Hs := segment H n (p_cols P) in
    if negb ((length Hs =? p_cols P)%nat && forallb (fun h => (length h =? n)%nat) Hs) then Panic P_COLS
    else match Ts with [] => Panic P_SHAPE | _ =>
      if (n <? 2)%nat then Panic P_SHAPE else
      if (z =f? zero) || (z *f g =f? zero) then Panic P_SYNDIV else
      let cur := evals Ts z in let nxt := evals Ts (z *f g) in let hz := evals Hs z in
      let d0 := deep_trace n g z (c_gamma c) Ts cur nxt in
      if negb (deep_assert (p_strict P) n d0) then Panic P_DEEP_DEGREE
      else
        let d := deep_constraints z (c_delta c) Hs hz d0 in
        if negb (deep_assert (p_strict P) n d) then Panic P_DEEP_DEGREE
        else Done (mkProof (commit Ts) (commit Hs) cur nxt hz
                           (map (evals Ts) (c_xs c)) (map (evals Hs) (c_xs c))
                           (open_prove Ts (c_xs c)) (open_prove Hs (c_xs c)) (fri_prove d (c_xs c)))
      end.

Fixpoint map3 {A B C D} (f : A -> B -> C -> D) (a : list A) (b : list B) (c : list C) : list D :=
  match a, b, c with x :: a', y :: b', w :: c' => f x y w :: map3 f a' b' c' | _, _, _ => [] end.

(* perform_verification from the OOD check on *)
Definition verify (P : Params) (c : Coin) (pf : Proof) : option VerifierError :=
  let n := p_n P in let g := p_g P in let z := c_z c in
  if negb (air_eval z (pf_cur pf) (pf_nxt pf) =f? ood_lhs n z 0 (pf_hz pf)) then Some InconsistentOodConstraintEvaluations
  else if negb (open_ok (pf_trace_root pf) (c_xs c) (pf_trows pf) (pf_topen pf)) then Some TraceQueryDoesNotMatchCommitment
  else if negb (open_ok (pf_comp_root pf) (c_xs c) (pf_hrows pf) (pf_hopen pf)) then Some ConstraintQueryDoesNotMatchCommitment
  else
    let deep := map3 (fun x tr hr => v_deep g c x tr hr (pf_cur pf) (pf_nxt pf) (pf_hz pf)) (c_xs c) (pf_trows pf) (pf_hrows pf) in
    if fri_verify (pf_fri pf) (n - 2) (c_xs c) deep then None else Some FriVerificationFailed.

End Alg.
