(* C01 — the Lagrange-kernel part of the protocol, on top of Model/Stark.v (whose definitions and capstone are untouched).
   NO proofs here.  Source: winterfell @ /repo
     prover/src/lib.rs                        generate_proof: GKR step, aux segment with the kernel column (last aux column),
                                              TracePolyTable::add_aux_segment (the kernel polynomial is REMOVED from the
                                              ordinary aux polynomials), get_ood_frame (extra LagrangeKernelEvaluationFrame)
     air/src/air/lagrange/frame.rs            from_lagrange_kernel_column_poly: [c(z), c(g z), c(g^2 z), c(g^4 z), .., c(g^(2^(v-1)) z)]
     prover/src/composer/mod.rs               add_trace_polys, `if let Some(poly) = trace_polys.lagrange_kernel_poly()`
     verifier/src/composer.rs                 compose_trace_columns, `if let Some(ood_lagrange_kernel_frame)`
     verifier/src/evaluator.rs                evaluate_constraints: + lagrange transition + boundary terms
   The Lagrange CONSTRAINT evaluation is C16's model (Model/EnforceLagrange.v: lag_evaluate_and_combine,
   lag_boundary_evaluate_at), i.e. what air/src/air/lagrange/{transition,boundary}.rs compute and what the verifier calls.
   Outside the library (Section variables / parameters, stated as assumptions in the theorems): the user's GKR prover and
   verifier — they hand the SAME Lagrange random elements rr to prover and verifier. *)
From Coq Require Import List Arith Bool ZArith.
From VBase Require Import FieldOps.
From VModel Require Import Stark.
From VModel Require Enforce EnforceLagrange Polynom.
Import ListNotations.

Definition P_LAGRANGE : nat := 6.    (* verifier: the Lagrange frame has the wrong shape (index panics of evaluate_numerators) *)

Section AlgLag.
Context {F : Type} (O : FOps F).
Local Notation zero := (fzero O).
Local Notation one := (fone O).
Local Notation "a +f b" := (fadd O a b) (at level 50, left associativity).
Local Notation "a -f b" := (fsub O a b) (at level 50, left associativity).
Local Notation "a *f b" := (fmul O a b) (at level 40, left associativity).
Local Notation "a =f? b" := (feqb O a b) (at level 70).

(* ---------------------------------------------------------------- the kernel column and its out-of-domain frame *)
(* the honest column: cell i = prod_j (bit_j(i) ? r_j : 1 - r_j), bit j of the row selects r_j (C16's lag_kernel_col) *)
Definition kernel_col (rr : list F) (v : nat) : list F := EnforceLagrange.lag_kernel_col O rr (2 ^ Z.of_nat v)%Z.

(* the opening points S = {z, g z, g^2 z, g^4 z, .., g^(2^(v-1)) z} (v + 1 points):
   xs.push(z); g_exp = g; for _ in 0..v { xs.push(g_exp * z); g_exp *= g_exp } *)
Definition lag_pts (g z : F) (v : nat) : list F := z :: map (fun i => fpow O g (2 ^ i) *f z) (seq 0 v).
Definition lag_frame (g : F) (v : nat) (Lp : list F) (z : F) : list F := map (peval O Lp) (lag_pts g z v).

(* ---------------------------------------------------------------- the Lagrange constraints *)
Record LagC : Type := mkLagC {
  lc_t : EnforceLagrange.LagTC (F := F);   (* LagrangeKernelTransitionConstraints: composition coefficients + divisors *)
  lc_rr : list F;                          (* the Lagrange random elements r_0 .. r_(v-1) (from the GKR step) *)
  lc_lb : F                                (* boundary composition coefficient *)
}.
(* what evaluate_constraints adds for the kernel column at x: transition.evaluate_and_combine + boundary.evaluate_at;
   None = an index panic (frame of the wrong length) *)
Definition lag_eval (lc : LagC) (frame : list F) (x : F) : option F :=
  match EnforceLagrange.lag_evaluate_and_combine O (lc_t lc) frame (lc_rr lc) x,
        EnforceLagrange.lag_boundary_evaluate_at O (lc_rr lc) frame (lc_lb lc) x with
  | Some a, Some b => Some (a +f b)
  | _, _ => None
  end.
(* the prover evaluates the same terms row by row over the constraint evaluation domain (C17: Model/CompositionLagrange.v,
   lagrange_evaluate_spec); as a function of the point: *)
Definition lag_tot (lc : LagC) (frame : list F) (x : F) : F :=
  match lag_eval lc frame x with Some y => y | None => zero end.

(* ---------------------------------------------------------------- the DEEP term of the kernel column *)
Definition psub (a b : list F) : list F := padd O a (pscale O (fneg O one) b).          (* polynom::sub *)
(* polynom::syn_div_roots_in_place: one in-place synthetic division pass per root *)
Fixpoint syn_roots (p : list F) (roots : list F) : list F :=
  match roots with [] => p | r :: t => syn_roots (fst (syn1 O p r)) t end.
(* polynom::interpolate(xs, ys, true) (C20: Model/Polynom.v interpolate) *)
Variable interp_pts : list F -> list F -> list F.
(* (T_l - p_S) / Z_S scaled by cc.lagrange *)
Definition deep_lag (lcc : F) (Lp xs ys : list F) : list F :=
  pscale O lcc (syn_roots (psub Lp (interp_pts xs ys)) xs).

(* verifier, one query row: the ordinary columns are row[..lagrange_idx], the kernel column is the last one *)
Definition v_trace_lag (g : F) (v : nat) (z x : F) (gam : list F) (lcc : F) (row cur nxt lf : list F) : F :=
  let ord := removelast row in
  let lval := last row zero in
  let t1 := dot O gam (map (fun p => fst p -f snd p) (combine ord cur)) in
  let t2 := dot O gam (map (fun p => fst p -f snd p) (combine ord nxt)) in
  let d1 := x -f z in let d2 := x -f z *f g in
  let xs := lag_pts g z v in
  let lnum := (lval -f peval O (interp_pts xs lf) x) *f lcc in
  (* result_num[j] += result_lag_num[j] * inv(Z_S'(x)), S' = xs[2..]; then everything * inv((x - z)(x - z g)) *)
  (t1 *f d2 +f t2 *f d1 +f lnum *f finv O (pprod O (skipn 2 xs) x)) *f finv O (d1 *f d2).

(* ---------------------------------------------------------------- stages (as in Model/Stark.v) *)
Variable Digest Opening FriProof : Type.
Variable commit : list (list F) -> Digest.
Variable open_prove : list (list F) -> list F -> Opening.
Variable open_ok : Digest -> list F -> list (list F) -> Opening -> bool.
Variable fri_prove : list F -> list F -> FriProof.
Variable fri_verify : FriProof -> nat -> list F -> list F -> bool.
Variable air_eval : F -> list F -> list F -> F.
Variable interp_ce : (F -> F) -> list F.

Record ProofL : Type := mkProofL {
  pl_trace_root : Digest; pl_comp_root : Digest;
  pl_cur : list F; pl_nxt : list F; pl_hz : list F;
  pl_lframe : list F;                                   (* TraceOodFrame.lagrange_kernel_frame *)
  pl_trows : list (list F); pl_hrows : list (list F);
  pl_topen : Opening; pl_hopen : Opening;
  pl_fri : FriProof
}.

(* Prover::generate_proof from step 2 on; Ts = the ordinary trace polynomials (main + aux without the kernel column),
   Lp = the kernel column polynomial; the committed trace is Ts ++ [Lp] (the kernel column is the last aux column) *)
Definition prove_lag (P : Params) (v : nat) (lc : LagC) (c : Coin) (lcc : F) (Ts : list (list F)) (Lp : list F) : Outcome ProofL :=
  let n := p_n P in let g := p_g P in let z := c_z c in
  let H := interp_ce (fun x => air_eval x (evals O Ts x) (evals O Ts (x *f g)) +f lag_tot lc (lag_frame g v Lp x) x) in
  if p_dbg P && negb (degree_of O H <? n * p_cols P)%nat then Panic P_SEGMENT
  else
    let Hs := segment H n (p_cols P) in
    if negb ((length Hs =? p_cols P)%nat && forallb (fun h => (length h =? n)%nat) Hs) then Panic P_COLS
    else match Ts with [] => Panic P_SHAPE | _ =>
      if (n <? 2)%nat then Panic P_SHAPE else
      if (z =f? zero) || (z *f g =f? zero) then Panic P_SYNDIV else
      let cur := evals O Ts z in let nxt := evals O Ts (z *f g) in let hz := evals O Hs z in
      let lf := lag_frame g v Lp z in
      let xs := lag_pts g z v in
      let d0 := deep_trace O n g z (c_gamma c) Ts cur nxt in
      (* syn_div_roots_in_place: assert!(p.len() > roots.len()) *)
      if negb (length xs <? length Lp)%nat then Panic P_SHAPE else
      let d0' := padd O (deep_lag lcc Lp xs lf) d0 in
      if negb (deep_assert O (p_strict P) n d0') then Panic P_DEEP_DEGREE
      else
        let d := deep_constraints O z (c_delta c) Hs hz d0' in
        if negb (deep_assert O (p_strict P) n d) then Panic P_DEEP_DEGREE
        else let Tall := Ts ++ [Lp] in
             Done (mkProofL (commit Tall) (commit Hs) cur nxt hz lf
                            (map (evals O Tall) (c_xs c)) (map (evals O Hs) (c_xs c))
                            (open_prove Tall (c_xs c)) (open_prove Hs (c_xs c)) (fri_prove d (c_xs c)))
      end.

Inductive VOut : Type := VAccept | VReject (e : VerifierError) | VPanic (why : nat).

(* perform_verification from the OOD check on *)
Definition verify_lag (P : Params) (v : nat) (lc : LagC) (c : Coin) (lcc : F) (pf : ProofL) : VOut :=
  let n := p_n P in let g := p_g P in let z := c_z c in
  match lag_eval lc (pl_lframe pf) z with
  | None => VPanic P_LAGRANGE
  | Some lv =>
    if negb (air_eval z (pl_cur pf) (pl_nxt pf) +f lv =f? ood_lhs O n z 0 (pl_hz pf)) then VReject InconsistentOodConstraintEvaluations
    else if negb (open_ok (pl_trace_root pf) (c_xs c) (pl_trows pf) (pl_topen pf)) then VReject TraceQueryDoesNotMatchCommitment
    else if negb (open_ok (pl_comp_root pf) (c_xs c) (pl_hrows pf) (pl_hopen pf)) then VReject ConstraintQueryDoesNotMatchCommitment
    else
      let deep := map3 (fun x tr hr =>
                          v_trace_lag g v z x (c_gamma c) lcc tr (pl_cur pf) (pl_nxt pf) (pl_lframe pf)
                          +f v_constraints O z x (c_delta c) hr (pl_hz pf))
                       (c_xs c) (pl_trows pf) (pl_hrows pf) in
      if fri_verify (pl_fri pf) (n - 2) (c_xs c) deep then VAccept else VReject FriVerificationFailed
  end.

End AlgLag.

(* the instance of `interp_pts` used by the instantiated capstone and by the extracted driver: polynom::interpolate(xs, ys, true)
   of C20's Model/Polynom.v (remove_leading_zeros = true, as both composers call it); `dbg` = debug_assert on the lengths *)
Definition interp_pts_c20 {F : Type} (O : FOps F) (dbg : bool) (xs ys : list F) : list F :=
  match Polynom.interpolate O dbg xs ys true with Polynom.Ok p => p | _ => [] end.
