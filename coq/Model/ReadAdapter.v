(* C13 — executable models of utils/core/src/serde/byte_reader.rs:
     * the provided (default) methods of trait ByteReader, written once over a record of the six required methods;
     * SliceReader;
     * the ByteReader impl for std::io::Cursor (coverage round: the third reader implementation);
     * ReadAdapter (std BufReader of capacity 256 over a chunked source + buf/pos/guaranteed_eof), as repaired by
       /verif/fixes/c13-read-adapter-cursor.diff.
   No proofs here.  Bytes are Z (the harness supplies values in [0,256)); lengths and positions are nat.
   Outcomes: Ok / Err / Panic (assert, checked arithmetic, slice index) / UB (an unsafe copy whose source is
   shorter than the number of bytes copied) / Fuel (loop fuel exhausted; proved unreachable). *)
From VBase Require Import MachInt.
Local Open Scope nat_scope.

Definition byte := Z.

Inductive err := EOF | Invalid.
Inductive outcome (A : Type) : Type :=
| Ok (a : A) | Err (e : err) | Panic | UB | Fuel.
Arguments Ok {A} a.
Arguments Err {A} e.
Arguments Panic {A}.
Arguments UB {A}.
Arguments Fuel {A}.

(* ------------------------------------------------------------------------------------------------ *)
(* The trait: required methods as a record, provided methods defined over it.                        *)
(* peek_u8 / check_eor / has_more_bytes take &self in Rust, but ReadAdapter mutates its RefCell'd     *)
(* BufReader inside them, so every method returns a state.                                           *)

Record reader (S : Type) : Type := mkReader {
  r_u8 : S -> outcome byte * S;
  r_peek : S -> outcome byte * S;
  r_slice : nat -> S -> outcome (list byte) * S;
  r_array : nat -> S -> outcome (list byte) * S;
  r_eor : nat -> S -> outcome unit * S;
  r_more : S -> bool * S }.
Arguments r_u8 {S} r.
Arguments r_peek {S} r.
Arguments r_slice {S} r.
Arguments r_array {S} r.
Arguments r_eor {S} r.
Arguments r_more {S} r.

Definition bind {S A B : Type} (m : S -> outcome A * S) (f : A -> S -> outcome B * S) : S -> outcome B * S :=
  fun s => match m s with
           | (Ok a, s') => f a s'
           | (Err e, s') => (Err e, s')
           | (Panic, s') => (Panic, s')
           | (UB, s') => (UB, s')
           | (Fuel, s') => (Fuel, s')
           end.
Definition ret {S A : Type} (a : A) : S -> outcome A * S := fun s => (Ok a, s).
Definition fail {S A : Type} (e : err) : S -> outcome A * S := fun s => (Err e, s).

(* little-endian decoding: uN::from_le_bytes *)
Definition le_decode (l : list byte) : Z := fold_right (fun b acc => (b + 256 * acc)%Z) 0%Z l.

(* u8::trailing_zeros (8 for the byte 0) *)
Fixpoint tz (k : nat) (b : Z) : nat :=
  match k with O => O | S k' => if Z.odd b then O else S (tz k' (b / 2)%Z) end.

(* element kinds of read_many::<D>: the Deserializable integer types *)
Inductive elt := EU8 | EU16 | EU32 | EU64 | EU128 | EUsize.

Inductive op :=
| ReadU8 | PeekU8 | ReadBool | ReadU16 | ReadU32 | ReadU64 | ReadU128 | ReadUsize
| ReadSlice (n : nat) | ReadArray (n : nat) | ReadVec (n : nat) | ReadString (n : nat)
| ReadMany (k : elt) (n : nat) | CheckEor (n : nat) | HasMore.

Inductive value := VUnit | VBool (b : bool) | VInt (z : Z) | VBytes (l : list byte) | VInts (l : list Z).

Section Provided.
  Variable S : Type.
  Variable R : reader S.
  (* String::from_utf8 validity: an oracle (Extract/C13.v instantiates it with [utf8_valid] below) *)
  Variable utf8 : list byte -> bool.

  Definition M (A : Type) := S -> outcome A * S.

  Definition read_bool : M bool :=
    bind (r_u8 R) (fun b => if (b =? 0)%Z then ret false else if (b =? 1)%Z then ret true else fail Invalid).

  Definition read_le (n : nat) : M Z := bind (r_array R n) (fun l => ret (le_decode l)).
  Definition read_u16 := read_le 2.
  Definition read_u32 := read_le 4.
  Definition read_u64 := read_le 8.
  Definition read_u128 := read_le 16.

  (* vint64; usize is 64 bits wide, so the `result > usize::MAX as u64` test is never true *)
  Definition read_usize : M Z :=
    bind (r_peek R) (fun first =>
      let len := tz 8 first + 1 in
      if len =? 9 then
        bind (r_u8 R) (fun _ => bind (r_array R 8) (fun l => ret (le_decode l)))
      else
        bind (r_slice R len) (fun l => ret (Z.shiftr (le_decode l) (Z.of_nat len)))).

  Definition read_vec (n : nat) : M (list byte) := r_slice R n.

  Definition read_string (n : nat) : M (list byte) :=
    bind (read_vec n) (fun l => if utf8 l then ret l else fail Invalid).

  Definition read_elt (k : elt) : M Z :=
    match k with
    | EU8 => r_u8 R | EU16 => read_u16 | EU32 => read_u32 | EU64 => read_u64 | EU128 => read_u128 | EUsize => read_usize
    end.

  (* read_many: the pre-allocation is bounded (min(n, 2^16 / size_of D)), so it cannot panic; then n element reads *)
  Fixpoint read_many_loop (k : elt) (n : nat) (acc : list Z) : M (list Z) :=
    match n with
    | O => ret (rev acc)
    | Datatypes.S n' => bind (read_elt k) (fun v => read_many_loop k n' (v :: acc))
    end.
  Definition read_many (k : elt) (n : nat) : M (list Z) := read_many_loop k n [].

  Definition vmap {A : Type} (f : A -> value) (m : M A) : M value := bind m (fun a => ret (f a)).

  Definition step (o : op) : M value :=
    match o with
    | ReadU8 => vmap VInt (r_u8 R)
    | PeekU8 => vmap VInt (r_peek R)
    | ReadBool => vmap VBool read_bool
    | ReadU16 => vmap VInt read_u16
    | ReadU32 => vmap VInt read_u32
    | ReadU64 => vmap VInt read_u64
    | ReadU128 => vmap VInt read_u128
    | ReadUsize => vmap VInt read_usize
    | ReadSlice n => vmap VBytes (r_slice R n)
    | ReadArray n => vmap VBytes (r_array R n)
    | ReadVec n => vmap VBytes (read_vec n)
    | ReadString n => vmap VBytes (read_string n)
    | ReadMany k n => vmap VInts (read_many k n)
    | CheckEor n => vmap (fun _ => VUnit) (r_eor R n)
    | HasMore => fun s => let (b, s') := r_more R s in (Ok (VBool b), s')
    end.

  Definition aborts {A : Type} (r : outcome A) : bool :=
    match r with Ok _ | Err _ => false | _ => true end.

  (* a sequence of calls; a panic (or UB / fuel) ends the run *)
  Fixpoint run (ops : list op) (s : S) : list (outcome value) :=
    match ops with
    | [] => []
    | o :: rest => let (r, s') := step o s in if aborts r then [r] else r :: run rest s'
    end.
End Provided.

Arguments step {S} R utf8 o s.
Arguments run {S} R utf8 ops s.
Arguments aborts {A} r.

(* ------------------------------------------------------------------------------------------------ *)
(* SliceReader { source, pos }                                                                        *)

Record sstate := mkS { s_src : list byte; s_pos : nat }.

(* check_eor: `self.pos + num_bytes > self.source.len()`; the addition overflows usize for huge arguments
   (debug: panic; release: wraps to a value < pos, the test passes and the slice index panics) *)
Definition s_check (n : nat) (s : sstate) : outcome unit :=
  if (2 ^ 64 <=? Z.of_nat (s_pos s) + Z.of_nat n)%Z then Panic
  else if length (s_src s) <? s_pos s + n then Err EOF else Ok tt.

Definition s_take (n : nat) (s : sstate) : outcome (list byte) * sstate :=
  match s_check n s with
  | Ok _ =>
      (* &self.source[self.pos..self.pos + n] *)
      if s_pos s + n <=? length (s_src s)
      then (Ok (firstn n (skipn (s_pos s) (s_src s))), mkS (s_src s) (s_pos s + n))
      else (Panic, s)
  | Err e => (Err e, s) | Panic => (Panic, s) | UB => (UB, s) | Fuel => (Fuel, s)
  end.

Definition s_u8 (s : sstate) : outcome byte * sstate :=
  match s_check 1 s with
  | Ok _ => match nth_error (s_src s) (s_pos s) with
            | Some b => (Ok b, mkS (s_src s) (s_pos s + 1))
            | None => (Panic, s)                      (* self.source[self.pos] *)
            end
  | Err e => (Err e, s) | Panic => (Panic, s) | UB => (UB, s) | Fuel => (Fuel, s)
  end.

Definition s_peek (s : sstate) : outcome byte * sstate :=
  match s_check 1 s with
  | Ok _ => match nth_error (s_src s) (s_pos s) with
            | Some b => (Ok b, s)
            | None => (Panic, s)
            end
  | Err e => (Err e, s) | Panic => (Panic, s) | UB => (UB, s) | Fuel => (Fuel, s)
  end.

Definition slice_reader : reader sstate :=
  mkReader sstate s_u8 s_peek s_take s_take
    (fun n s => (s_check n s, s))
    (fun s => (s_pos s <? length (s_src s), s)).

Definition s_init (bytes : list byte) : sstate := mkS bytes 0.

(* ------------------------------------------------------------------------------------------------ *)
(* impl<T: AsRef<[u8]>> ByteReader for std::io::Cursor<T>: { inner buffer, position: u64 }           *)
(* The position is an arbitrary u64 (Cursor::set_position does not clamp it), so it may lie beyond    *)
(* the end of the buffer.                                                                             *)

Record cstate := mkC { c_src : list byte; c_pos : nat }.

(* cursor_remaining_buf!: let start = position().min(buf.len() as u64) as usize; &buf[start..] *)
Definition c_rem (s : cstate) : list byte := skipn (Nat.min (c_pos s) (length (c_src s))) (c_src s).

(* self.set_position(self.position() + k): u64 addition (debug: overflow panics) *)
Definition c_advance (k : nat) (s : cstate) : option cstate :=
  if (2 ^ 64 <=? Z.of_nat (c_pos s) + Z.of_nat k)%Z then None else Some (mkC (c_src s) (c_pos s + k)).

Definition c_u8 (s : cstate) : outcome byte * cstate :=
  match c_rem s with
  | [] => (Err EOF, s)
  | b :: _ => match c_advance 1 s with Some s' => (Ok b, s') | None => (Panic, s) end
  end.

Definition c_peek (s : cstate) : outcome byte * cstate :=
  match c_rem s with [] => (Err EOF, s) | b :: _ => (Ok b, s) end.

(* read_slice: if size.saturating_sub(pos) < len { Err } else { set_position(pos + len); let start = pos.min(size);
   Ok(&buf[start..start + len]) }  (nat subtraction is the saturating one) *)
Definition c_slice (n : nat) (s : cstate) : outcome (list byte) * cstate :=
  let size := length (c_src s) in
  if size - c_pos s <? n then (Err EOF, s)
  else match c_advance n s with
       | None => (Panic, s)
       | Some s' =>
           let start := Nat.min (c_pos s) size in
           if start + n <=? size then (Ok (firstn n (skipn start (c_src s))), s') else (Panic, s')
       end.

(* read_array::<N>: read_slice(N).map(|bytes| { result.copy_from_slice(bytes); result }) — the slice has length N *)
Definition c_array (n : nat) (s : cstate) : outcome (list byte) * cstate := c_slice n s.

Definition c_eor (n : nat) (s : cstate) : outcome unit * cstate :=
  (if n <=? length (c_rem s) then Ok tt else Err EOF, s).

Definition c_more (s : cstate) : bool * cstate := (c_pos s <? length (c_src s), s).

Definition cursor_reader : reader cstate := mkReader cstate c_u8 c_peek c_slice c_array c_eor c_more.

(* Cursor::new(bytes) followed by set_position(pos) *)
Definition c_init (bytes : list byte) (pos : nat) : cstate := mkC bytes pos.

(* ------------------------------------------------------------------------------------------------ *)
(* ReadAdapter                                                                                       *)

(* a_chunks: what the successive `read` calls of the underlying source will return (an empty chunk is an empty read; once
             the list is exhausted every read is empty); a chunk longer than the request is delivered in pieces
   a_rbuf:   BufReader::buffer(), the unread part of its 256-byte internal buffer
   a_buf, a_pos, a_geof: the adapter's buf / pos / guaranteed_eof;  a_cap: buf.capacity()
   a_seen:   ghost — some read of the source has returned 0 bytes *)
Record astate := mkA {
  a_chunks : list (list byte);
  a_rbuf : list byte;
  a_buf : list byte;
  a_pos : nat;
  a_cap : nat;
  a_geof : bool;
  a_seen : bool }.

Definition BUFREADER_CAP : nat := 256.

Definition a_init (chunks : list (list byte)) : astate := mkA chunks [] [] 0 0 false false.

(* self.buf.get(self.pos..).unwrap_or(&[]) *)
Definition buffer (s : astate) : list byte := skipn (a_pos s) (a_buf s).

Definition is_nil {A : Type} (l : list A) : bool := match l with [] => true | _ => false end.

(* BufReader::fill_buf: reads from the source only when its buffer is exhausted *)
Definition fill (s : astate) : astate :=
  match a_rbuf s with
  | _ :: _ => s
  | [] =>
      match a_chunks s with
      | [] => mkA [] [] (a_buf s) (a_pos s) (a_cap s) (a_geof s) true
      | c :: rest =>
          if length c <=? BUFREADER_CAP
          then mkA rest c (a_buf s) (a_pos s) (a_cap s) (a_geof s) (a_seen s || is_nil c)
          else mkA (skipn BUFREADER_CAP c :: rest) (firstn BUFREADER_CAP c) (a_buf s) (a_pos s) (a_cap s) (a_geof s) (a_seen s)
      end
  end.

Definition set_geof (s : astate) : astate :=
  mkA (a_chunks s) (a_rbuf s) (a_buf s) (a_pos s) (a_cap s) true (a_seen s).
Definition set_pos (p : nat) (s : astate) : astate :=
  mkA (a_chunks s) (a_rbuf s) (a_buf s) p (a_cap s) (a_geof s) (a_seen s).
(* BufReader::consume *)
Definition consume (n : nat) (s : astate) : astate :=
  mkA (a_chunks s) (skipn n (a_rbuf s)) (a_buf s) (a_pos s) (a_cap s) (a_geof s) (a_seen s).

Section Adapter.
  (* Vec growth policy: [grow old_capacity required_len]; the model only relies on capacity >= len *)
  Variable grow : nat -> nat -> nat.
  (* debug_assertions on? *)
  Variable dbg : bool.

  Definition new_cap (cap need : nat) : nat := if need <=? cap then cap else Nat.max need (grow cap need).

  (* self.buf.extend_from_slice(reader.buffer()); reader.consume(len) *)
  Definition absorb (s : astate) : astate :=
    mkA (a_chunks s) [] (a_buf s ++ a_rbuf s) (a_pos s)
        (new_cap (a_cap s) (length (a_buf s) + length (a_rbuf s))) (a_geof s) (a_seen s).

  (* pop *)
  Definition a_u8 (s : astate) : outcome byte * astate :=
    match buffer s with
    | b :: _ => (Ok b, set_pos (a_pos s + 1) s)
    | [] =>
        let s1 := fill s in
        match a_rbuf s1 with
        | [] => (Err EOF, set_geof s1)
        | b :: _ => (Ok b, consume 1 s1)
        end
    end.

  (* peek_u8 (non_empty_reader_buffer: does not record eof) *)
  Definition a_peek (s : astate) : outcome byte * astate :=
    match buffer s with
    | b :: _ => (Ok b, s)
    | [] =>
        let s1 := fill s in
        match a_rbuf s1 with
        | [] => (Err EOF, s1)
        | b :: _ => (Ok b, s1)
        end
    end.

  (* buffer_at_least: loop until buffer().len() >= count; each iteration adds at least one byte, so [count] iterations suffice *)
  Fixpoint bal (fuel count : nat) (s : astate) : outcome unit * astate :=
    if count <=? length (buffer s) then (Ok tt, s)
    else match fuel with
         | O => (Fuel, s)
         | Datatypes.S f =>
             let s1 := fill s in
             match a_rbuf s1 with
             | [] => (Err EOF, set_geof s1)
             | _ :: _ => bal f count (absorb s1)
             end
         end.
  Definition buffer_at_least (count : nat) (s : astate) := bal count count s.

  (* the storage optimisation at the head of read_slice *)
  Definition compact (len : nat) (s : astate) : outcome unit * astate :=
    if 16 <=? a_pos s then
      (* has_remaining_capacity: self.buf.capacity() - self.buffer().len() *)
      if a_cap s <? length (buffer s) then (Panic, s)
      else if len <=? a_cap s - length (buffer s) then (Ok tt, s)
      else (Ok tt, mkA (a_chunks s) (a_rbuf s) (buffer s) 0 (a_cap s) (a_geof s) (a_seen s))
    else (Ok tt, s).

  Definition a_slice (len : nat) (s : astate) : outcome (list byte) * astate :=
    if len =? 0 then (Ok [], s) else
    bind (compact len) (fun _ =>
    bind (buffer_at_least len) (fun _ s2 =>
      (* &self.buf[start..start + len] *)
      if a_pos s2 + len <=? length (a_buf s2)
      then (Ok (firstn len (buffer s2)), set_pos (a_pos s2 + len) s2)
      else (Panic, s2))) s.

  (* core::ptr::copy_nonoverlapping(src.as_ptr(), output.as_mut_ptr(), n) *)
  Definition copy_from (n : nat) (src : list byte) : outcome (list byte) :=
    if length src <? n then UB else Ok (firstn n src).

  Definition reset (s : astate) : astate :=
    if is_nil (buffer s) && (0 <? a_pos s)
    then mkA (a_chunks s) (a_rbuf s) [] 0 (a_cap s) (a_geof s) (a_seen s)
    else s.

  (* the fall-back path of read_exact: buffer_at_least(N), debug_assert, copy, pos += N *)
  Definition exact_fallback (N : nat) (s : astate) : outcome (list byte) * astate :=
    bind (buffer_at_least N) (fun _ s2 =>
      if dbg && (length (buffer s2) <? N) then (Panic, s2)
      else match copy_from N (buffer s2) with
           | Ok l => (Ok l, set_pos (a_pos s2 + N) s2)
           | Err e => (Err e, s2) | Panic => (Panic, s2) | UB => (UB, s2) | Fuel => (Fuel, s2)
           end) s.

  Definition with_reset {A : Type} (r : outcome A * astate) : outcome A * astate :=
    match r with (Ok a, s) => (Ok a, reset s) | other => other end.

  (* read_array::<N> = read_exact::<N> for N > 0 *)
  Definition a_array (N : nat) (s : astate) : outcome (list byte) * astate :=
    if N =? 0 then (Ok [], s) else
    let n := length (buffer s) in
    if n =? 0 then
      let s1 := fill s in
      match a_rbuf s1 with
      | [] => (Err EOF, set_geof s1)
      | _ :: _ =>
          if length (a_rbuf s1) <? N then with_reset (exact_fallback N s1)
          else match copy_from N (a_rbuf s1) with
               | Ok l => (Ok l, reset (consume N s1))
               | Err e => (Err e, s1) | Panic => (Panic, s1) | UB => (UB, s1) | Fuel => (Fuel, s1)
               end
      end
    else if N <=? n then
      match copy_from N (buffer s) with
      | Ok l => (Ok l, reset (set_pos (a_pos s + N) s))
      | Err e => (Err e, s) | Panic => (Panic, s) | UB => (UB, s) | Fuel => (Fuel, s)
      end
    else
      let s1 := fill s in
      match a_rbuf s1 with
      | [] => (Err EOF, set_geof s1)
      | _ :: _ =>
          let m := length (a_rbuf s1) in
          if N <=? m + n then
            let needed := N - n in
            match copy_from n (buffer s1), copy_from needed (a_rbuf s1) with
            | Ok l1, Ok l2 => (Ok (l1 ++ l2), reset (consume needed (set_pos (a_pos s1 + n) s1)))
            | _, _ => (UB, s1)
            end
          else exact_fallback N s1            (* early `return Ok(output)`: no reset *)
      end.

  Definition a_eor (num : nat) (s : astate) : outcome unit * astate :=
    let bl := length (buffer s) in
    if num <=? bl then (Ok tt, s) else
    let s1 := fill s in
    match a_rbuf s1 with
    | [] => (Err EOF, s1)
    | _ :: _ =>
        if num <=? bl + length (a_rbuf s1) then (Ok tt, s1)
        else if a_geof s1 then (Err EOF, s1)
        else (Ok tt, s1)                              (* optimistic *)
    end.

  Definition a_more (s : astate) : bool * astate :=
    if negb (is_nil (buffer s)) then (true, s)
    else let s1 := fill s in (negb (is_nil (a_rbuf s1)), s1).

  Definition adapter : reader astate := mkReader astate a_u8 a_peek a_slice a_array a_eor a_more.
End Adapter.

(* ------------------------------------------------------------------------------------------------ *)
(* Concrete oracles used by the extracted driver                                                     *)

(* RawVec::grow_amortized for u8: max(2 * cap, required, 8) *)
Definition vec_grow (cap need : nat) : nat := Nat.max (Nat.max (2 * cap) need) 8.

(* std's UTF-8 validity (core::str::from_utf8) *)
Definition cont (b : Z) : bool := ((128 <=? b) && (b <=? 191))%Z.
Fixpoint utf8_valid_f (fuel : nat) (l : list byte) : bool :=
  match fuel with
  | O => is_nil l
  | Datatypes.S f =>
      match l with
      | [] => true
      | b0 :: t =>
          if (b0 <? 128)%Z then utf8_valid_f f t
          else if ((194 <=? b0) && (b0 <=? 223))%Z then
            match t with b1 :: t' => cont b1 && utf8_valid_f f t' | _ => false end
          else if ((224 <=? b0) && (b0 <=? 239))%Z then
            match t with
            | b1 :: b2 :: t' =>
                (if (b0 =? 224)%Z then ((160 <=? b1) && (b1 <=? 191))%Z
                 else if (b0 =? 237)%Z then ((128 <=? b1) && (b1 <=? 159))%Z
                 else cont b1) && cont b2 && utf8_valid_f f t'
            | _ => false
            end
          else if ((240 <=? b0) && (b0 <=? 244))%Z then
            match t with
            | b1 :: b2 :: b3 :: t' =>
                (if (b0 =? 240)%Z then ((144 <=? b1) && (b1 <=? 191))%Z
                 else if (b0 =? 244)%Z then ((128 <=? b1) && (b1 <=? 143))%Z
                 else cont b1) && cont b2 && cont b3 && utf8_valid_f f t'
            | _ => false
            end
          else false
      end
  end.
Definition utf8_valid (l : list byte) : bool := utf8_valid_f (Datatypes.S (length l)) l.

(* entry points for the driver *)
Definition adapter_step (dbg : bool) (o : op) (s : astate) : outcome value * astate :=
  step (adapter vec_grow dbg) utf8_valid o s.
Definition slice_step (o : op) (s : sstate) : outcome value * sstate :=
  step slice_reader utf8_valid o s.
Definition cursor_step (o : op) (s : cstate) : outcome value * cstate :=
  step cursor_reader utf8_valid o s.
