(* C19 — executable model of crypto/src/random/default.rs (DefaultRandomCoin) and of the pieces of
   math/src/field/* it calls (Randomizable::from_random_bytes for base / quadratic / cubic element types).

   The coin is a pure state machine  coin = (seed : D, counter : Z)  over four externals, which are Section
   variables (never axioms):
     hash_elements : list Z -> D      H::hash_elements(&[B])   (seed elements given as canonical residues)
     merge         : D -> D -> D      H::merge(&[a, b])
     merge_with_int: D -> Z -> D      H::merge_with_int(seed, u64)
     dbytes        : D -> list Z      Digest::as_bytes() -> [u8; 32]
   No definition in this file has a proof; every assert / checked add / slice index of the Rust code is an
   explicit [Panic] outcome, the two `Err(RandomCoinError::..)` returns are [Err].

   Integer conventions: u64 / usize arguments are Z in [0, 2^64) (usize is 64 bit on the checked targets);
   bytes are Z in [0, 256).  Field elements are lists of canonical residues (one per base coefficient, in
   the order of the Rust tuple struct).  *)
From VBase Require Import MachInt.
From VModel Require Import ToyHash.
Open Scope Z_scope.

Inductive res (A : Type) : Type :=
| Ok (a : A)
| Err
| Panic.
Arguments Ok {A} a.
Arguments Err {A}.
Arguments Panic {A}.

(* ------------------------------------------------------------------------------------------------
   Element types.  fk_M = modulus of the base field, fk_eb = B::ELEMENT_BYTES (8 for f64/f62, 16 for f128),
   fk_deg = EXTENSION_DEGREE (1 base, 2 QuadExtension, 3 CubeExtension); E::ELEMENT_BYTES = fk_eb * fk_deg. *)
Record fkind : Type := mkFk { fk_M : Z; fk_eb : nat; fk_deg : nat }.

Definition mod_f64 : Z := 18446744069414584321.                          (* 2^64 - 2^32 + 1 *)
Definition mod_f62 : Z := 4611624995532046337.                           (* 2^62 - 111*2^39 + 1 *)
Definition mod_f128 : Z := 340282366920938463463374557953744961537.      (* 2^128 - 45*2^40 + 1 *)
Definition fk_f64 (deg : nat) : fkind := mkFk mod_f64 8 deg.
Definition fk_f62 (deg : nat) : fkind := mkFk mod_f62 8 deg.
Definition fk_f128 (deg : nat) : fkind := mkFk mod_f128 16 deg.
Definition elem_bytes (k : fkind) : nat := (fk_eb k * fk_deg k)%nat.

(* [chunks eb k bytes]: k consecutive slices of eb bytes (SliceReader::read_u64 / read_u128 in sequence) *)
Fixpoint chunks (eb : nat) (k : nat) (bytes : list Z) : list (list Z) :=
  match k with
  | O => []
  | S k' => firstn eb bytes :: chunks eb k' (skipn eb bytes)
  end.

(* Randomizable::from_random_bytes = Self::try_from(&[u8]).ok():
     base types:  length must be ELEMENT_BYTES, value = u64/u128::from_le_bytes, rejected iff value >= M;
     extensions:  length must be ELEMENT_BYTES, then B::read_from for each coefficient in order, each rejected
                  iff >= M (Deserializable for BaseElement).  Result: the canonical residues. *)
Definition from_random_bytes (k : fkind) (bytes : list Z) : option (list Z) :=
  if negb (Nat.eqb (length bytes) (elem_bytes k)) then None
  else
    let vals := map of_le_bytes (chunks (fk_eb k) (fk_deg k) bytes) in
    if forallb (fun v => v <? fk_M k) vals then Some vals else None.

(* usize::is_power_of_two *)
Definition is_pow2 (x : Z) : bool := (0 <? x) && (Z.land x (x - 1) =? 0).

Section Coin.
  Variable D : Type.
  Variable hash_elements : list Z -> D.
  Variable merge : D -> D -> D.
  Variable merge_with_int : D -> Z -> D.
  Variable dbytes : D -> list Z.

  Record coin : Type := mkCoin { seed : D; counter : Z }.

  (* u64::from_le_bytes(as_bytes()[..8]) *)
  Definition le64 (d : D) : Z := of_le_bytes (firstn 8 (dbytes d)).

  (* fn new(seed: &[B]) *)
  Definition coin_new (elems : list Z) : coin := mkCoin (hash_elements elems) 0.

  (* fn reseed(&mut self, data) *)
  Definition coin_reseed (c : coin) (data : D) : coin := mkCoin (merge (seed c) data) 0.

  (* fn next(&mut self): `self.counter += 1` is a checked add in the debug profile: None = overflow panic
     (state unchanged).  In the release profile the counter wraps to 0 instead; Proofs/Coin.v shows that
     2^64 - 1 is unreachable in fewer than 2^64 / 1000 operations (counter_bound). *)
  Definition coin_next (c : coin) : option (coin * D) :=
    let k := counter c + 1 in
    if k <? 2 ^ 64 then Some (mkCoin (seed c) k, merge_with_int (seed c) k) else None.

  (* fn check_leading_zeros(&self, value: u64) -> u32 : trailing_zeros of the LE u64 head of
     merge_with_int(seed, value) — exactly as coded (the doc comment says "leading", big-endian). *)
  Definition coin_check_lz (c : coin) (value : Z) : Z := ctz 64 (le64 (merge_with_int (seed c) value)).

  (* fn draw<E>() : for _ in 0..1000 { value = next(); bytes = &value.as_bytes()[..E::ELEMENT_BYTES]; ... } *)
  Fixpoint draw_loop (k : fkind) (fuel : nat) (c : coin) : coin * res (list Z) :=
    match fuel with
    | O => (c, Err)                                        (* FailedToDrawFieldElement(1000) *)
    | S f =>
      match coin_next c with
      | None => (c, Panic)
      | Some (c', d) =>
        if (32 <? elem_bytes k)%nat then (c', Panic)       (* slice end index out of range of [u8; 32] *)
        else match from_random_bytes k (firstn (elem_bytes k) (dbytes d)) with
             | Some e => (c', Ok e)
             | None => draw_loop k f c'
             end
      end
    end.
  Definition draw_tries : nat := 1000.
  Definition coin_draw (k : fkind) (c : coin) : coin * res (list Z) := draw_loop k draw_tries c.

  (* the loop of draw_integers: values.push(..) then `if values.len() == num_values { break }`.
     None = panic inside next().  No de-duplication is performed by the code. *)
  Fixpoint ints_loop (fuel : nat) (c : coin) (mask n : Z) (acc : list Z) : option (coin * list Z) :=
    match fuel with
    | O => Some (c, acc)
    | S f =>
      match coin_next c with
      | None => None
      | Some (c', d) =>
        let acc' := acc ++ [Z.land (le64 d) mask] in
        if Z.of_nat (length acc') =? n then Some (c', acc') else ints_loop f c' mask n acc'
      end
    end.

  (* fn draw_integers(&mut self, num_values: usize, domain_size: usize, nonce: u64) *)
  Definition coin_draw_integers (c : coin) (n dom nonce : Z) : coin * res (list Z) :=
    if negb (is_pow2 dom) then (c, Panic)                  (* assert!(domain_size.is_power_of_two()) *)
    else if negb (n <? dom) then (c, Err)                  (* num_values >= domain_size: Err(FailedToDrawIntegers(n, 0, 0)), state untouched *)
    else
      let c0 := mkCoin (merge_with_int (seed c) nonce) 0 in
      match ints_loop draw_tries c0 (dom - 1) n [] with
      | None => (c0, Panic)
      | Some (c', vals) =>
        if Z.of_nat (length vals) <? n then (c', Err)      (* FailedToDrawIntegers(n, len, 1000) *)
        else (c', Ok vals)
      end.

  (* ---------------------------------------------------------------------------------------------
     Histories: the operations of the RandomCoin trait after `new`. *)
  Inductive op : Type :=
  | OpReseed (data : D)
  | OpDraw (k : fkind)
  | OpInts (n dom nonce : Z)
  | OpLz (value : Z).

  Inductive out : Type :=
  | OutUnit
  | OutElem (r : res (list Z))
  | OutInts (r : res (list Z))
  | OutLz (z : Z).

  Definition step (c : coin) (o : op) : coin * out :=
    match o with
    | OpReseed d => (coin_reseed c d, OutUnit)
    | OpDraw k => let (c', r) := coin_draw k c in (c', OutElem r)
    | OpInts n dom nonce => let (c', r) := coin_draw_integers c n dom nonce in (c', OutInts r)
    | OpLz v => (c, OutLz (coin_check_lz c v))
    end.

  Fixpoint run (c : coin) (ops : list op) : coin * list out :=
    match ops with
    | [] => (c, [])
    | o :: r => let (c1, x) := step c o in let (c2, xs) := run c1 r in (c2, x :: xs)
    end.

  (* ---------------------------------------------------------------------------------------------
     Proof of work.  prover/src/channel.rs grind_query_seed:
        (1..u64::MAX).find(|&nonce| self.public_coin.check_leading_zeros(nonce) >= grinding_factor)
     verifier/src/lib.rs: reject iff  public_coin.check_leading_zeros(pow_nonce) < grinding_factor.
     [grind_from fuel c gf nonce] searches nonce, nonce+1, ... (fuel candidates), staying below u64::MAX. *)
  Definition pow_search_pred (c : coin) (gf nonce : Z) : bool := gf <=? coin_check_lz c nonce.
  Definition pow_verifier_accepts (c : coin) (gf nonce : Z) : bool := negb (coin_check_lz c nonce <? gf).

  Fixpoint grind_from (fuel : nat) (c : coin) (gf nonce : Z) : option Z :=
    match fuel with
    | O => None
    | S f =>
      if nonce <? 2 ^ 64 - 1 then
        if pow_search_pred c gf nonce then Some nonce else grind_from f c gf (nonce + 1)
      else None
    end.
  Definition grind (fuel : nat) (c : coin) (gf : Z) : option Z := grind_from fuel c gf 1.

  (* ---------------------------------------------------------------------------------------------
     What a history feeds to the hash.  The seed after a history is a chain
        hash_elements elems  --merge _ d-->  ..  --merge_with_int _ nonce-->  ..
     [absorb] are the links; [op_absorb] says which operations add a link (reseed always; draw_integers iff
     its two argument checks pass — this depends on the arguments only, never on a hash value). *)
  Inductive absorb : Type :=
  | AData (d : D)
  | ANonce (nonce : Z).

  Definition absorb_step (s : D) (a : absorb) : D :=
    match a with AData d => merge s d | ANonce n => merge_with_int s n end.
  Definition chain_seed (elems : list Z) (abs : list absorb) : D :=
    fold_left absorb_step abs (hash_elements elems).

  Definition op_absorb (o : op) : list absorb :=
    match o with
    | OpReseed d => [AData d]
    | OpInts n dom nonce => if is_pow2 dom && (n <? dom) then [ANonce nonce] else []
    | _ => []
    end.
  Definition absorbs (ops : list op) : list absorb := flat_map op_absorb ops.

  (* the argument pair of the merge_with_int call made by the next draw *)
  Definition next_input (c : coin) : D * Z := (seed c, counter c + 1).

  (* Explicit collisions / cross-oracle coincidences of the three hash oracles. *)
  Inductive collision : Type :=
  | CollElems (e1 e2 : list Z)                 (* e1 <> e2,  hash_elements e1 = hash_elements e2 *)
  | CollMerge (a1 b1 a2 b2 : D)                (* (a1,b1) <> (a2,b2), merge a1 b1 = merge a2 b2 *)
  | CollMergeInt (a1 : D) (n1 : Z) (a2 : D) (n2 : Z)
  | CrossElemsMerge (e : list Z) (a b : D)     (* hash_elements e = merge a b *)
  | CrossElemsMergeInt (e : list Z) (a : D) (n : Z)
  | CrossMergeMergeInt (a b a' : D) (n : Z)    (* merge a b = merge_with_int a' n *)
  | NoCollision.

  Variable deqb : D -> D -> bool.              (* decidable equality of digests (Eq for H::Digest) *)

  Definition zlist_eqb (a b : list Z) : bool :=
    Nat.eqb (length a) (length b) && forallb (fun p => fst p =? snd p) (combine a b).

  (* Walk two chains backwards (lists given in REVERSE order: last absorbed first).  Called on chains with
     equal final seeds and different (elems, absorbs). *)
  Fixpoint find_collision_rev (e1 : list Z) (r1 : list absorb) (e2 : list Z) (r2 : list absorb) : collision :=
    match r1, r2 with
    | [], [] => if zlist_eqb e1 e2 then NoCollision else CollElems e1 e2
    | [], AData d :: p2 => CrossElemsMerge e1 (chain_seed e2 (rev p2)) d
    | [], ANonce n :: p2 => CrossElemsMergeInt e1 (chain_seed e2 (rev p2)) n
    | AData d :: p1, [] => CrossElemsMerge e2 (chain_seed e1 (rev p1)) d
    | ANonce n :: p1, [] => CrossElemsMergeInt e2 (chain_seed e1 (rev p1)) n
    | AData d1 :: p1, AData d2 :: p2 =>
      let s1 := chain_seed e1 (rev p1) in
      let s2 := chain_seed e2 (rev p2) in
      if deqb s1 s2 && deqb d1 d2 then find_collision_rev e1 p1 e2 p2 else CollMerge s1 d1 s2 d2
    | ANonce n1 :: p1, ANonce n2 :: p2 =>
      let s1 := chain_seed e1 (rev p1) in
      let s2 := chain_seed e2 (rev p2) in
      if deqb s1 s2 && (n1 =? n2) then find_collision_rev e1 p1 e2 p2 else CollMergeInt s1 n1 s2 n2
    | AData d1 :: p1, ANonce n2 :: p2 =>
      CrossMergeMergeInt (chain_seed e1 (rev p1)) d1 (chain_seed e2 (rev p2)) n2
    | ANonce n1 :: p1, AData d2 :: p2 =>
      CrossMergeMergeInt (chain_seed e2 (rev p2)) d2 (chain_seed e1 (rev p1)) n1
    end.
  Definition find_collision (e1 : list Z) (a1 : list absorb) (e2 : list Z) (a2 : list absorb) : collision :=
    find_collision_rev e1 (rev a1) e2 (rev a2).

  Definition valid_collision (x : collision) : Prop :=
    match x with
    | CollElems e1 e2 => e1 <> e2 /\ hash_elements e1 = hash_elements e2
    | CollMerge a1 b1 a2 b2 => (a1, b1) <> (a2, b2) /\ merge a1 b1 = merge a2 b2
    | CollMergeInt a1 n1 a2 n2 => (a1, n1) <> (a2, n2) /\ merge_with_int a1 n1 = merge_with_int a2 n2
    | CrossElemsMerge e a b => hash_elements e = merge a b
    | CrossElemsMergeInt e a n => hash_elements e = merge_with_int a n
    | CrossMergeMergeInt a b a' n => merge a b = merge_with_int a' n
    | NoCollision => False
    end.
End Coin.

Arguments mkCoin {D} _ _.
Arguments seed {D} _.
Arguments counter {D} _.
Arguments OpReseed {D} _.
Arguments OpDraw {D} _.
Arguments OpInts {D} _ _ _.
Arguments OpLz {D} _.
Arguments AData {D} _.
Arguments ANonce {D} _.
Arguments NoCollision {D}.

(* ------------------------------------------------------------------------------------------------
   Instantiation 1: ToyHasher<B> (harness/src/toy.rs, Model/ToyHash.v): 8-byte digest, as_bytes pads with
   24 zero bytes.  [eb] = B::ELEMENT_BYTES used by hash_elements to serialise the seed elements. *)
Definition toy_dbytes (d : Z) : list Z := to_le_bytes 8 d ++ repeat 0 24.
Definition toy_coin_new (eb : nat) := coin_new Z (toy_hash_elems eb).
Definition toy_coin_step (c : coin Z) (o : op Z) := step Z toy_merge toy_merge_int toy_dbytes c o.
Definition toy_coin_run (c : coin Z) (ops : list (op Z)) := run Z toy_merge toy_merge_int toy_dbytes c ops.
Definition toy_grind (fuel : nat) (c : coin Z) (gf : Z) := grind Z toy_merge_int toy_dbytes fuel c gf.

(* ------------------------------------------------------------------------------------------------
   Instantiation 2: WideToy<B, MODE> (harness/src/bin/c19.rs): 32-byte digest of four 64-bit words
   word_i = post_MODE (toy_hash (i :: le8 (toy_hash input))), so that every byte of as_bytes() is live
   (extension coefficients, f128 high half) and the rejection branch of draw is taken often:
     mode 0: plain                     mode 1: 1 of 4 words gets its high 32 bits set (>= M for f64/f62)
     mode 2: 1 of 8 words -> 2^64-1    mode 3: words -> 2^64-1 unless their low 10 bits are 0 (draw mostly Err)
     modes 4..7: plain, except merge_with_int (below) *)
Definition wide_post (mode w : Z) : Z :=
  if (mode =? 0) || (4 <=? mode) then w
  else if mode =? 1 then (if Z.land w 3 =? 3 then Z.lor w 18446744069414584320 else w)
  else if mode =? 2 then (if Z.land w 7 =? 7 then 18446744073709551615 else w)
  else (if Z.land w 1023 =? 0 then w else 18446744073709551615).
Definition wide_hash (mode : Z) (bytes : list Z) : list Z :=
  let h := to_le_bytes 8 (toy_hash bytes) in
  map (fun i => wide_post mode (toy_hash (i :: h))) [0; 1; 2; 3].
Definition wide_dbytes (d : list Z) : list Z := flat_map (to_le_bytes 8) d.
Definition wide_merge (mode : Z) (a b : list Z) : list Z := wide_hash mode (wide_dbytes a ++ wide_dbytes b).
(* mode 4: merge_with_int(seed, v) is the all-ones digest (inadmissible in every field) for v < T(seed) with
   T = 998 + seed.word0 mod 5, plain otherwise: the first admissible candidate of a draw sits at counter
   998..1002, i.e. right at the 1000-try limit of draw (off-by-one changes of the limit are observable). *)
Definition wide_ones : list Z := [18446744073709551615; 18446744073709551615; 18446744073709551615; 18446744073709551615].
(* modes 5 (f64), 6 (f62), 7 (f128) — "w5" in the harness, the mode is chosen by the coin's base field:
   merge_with_int(seed, 1) and merge_with_int(seed, 2) are crafted digests whose coefficient slots (ELEMENT_BYTES
   each) hold small admissible values 16*v + 5 + slot, except that for v = 1 the slot pos = (seed.word0 / 3) mod 3
   holds a value of the GAP [M, 2^MODULUS_BITS): M, M + 1 or 2^bits - 1 (selected by seed.word0 mod 3).  So the
   first candidate after every reseed has one coefficient in the gap (to be rejected iff that coefficient is part
   of the drawn element type) and the second candidate is admissible.  Other values hash plainly. *)
Definition gap_params (mode : Z) : Z * nat * Z :=
  if mode =? 5 then (mod_f64, 8%nat, 64) else if mode =? 6 then (mod_f62, 8%nat, 62) else (mod_f128, 16%nat, 128).
Definition gap_digest (mode : Z) (s : list Z) (v : Z) : list Z :=
  let '(m, eb, bits) := gap_params mode in
  let w0 := hd 0 s in
  let g := if w0 mod 3 =? 0 then m else if w0 mod 3 =? 1 then m + 1 else 2 ^ bits - 1 in
  let pos := (w0 / 3) mod 3 in
  let slot j := if (v =? 1) && (j =? pos) then g else 16 * v + 5 + j in
  let bytes := flat_map (fun j => to_le_bytes eb (slot j)) (if Nat.eqb eb 8 then [0; 1; 2; 3] else [0; 1]) in
  map of_le_bytes (chunks 8 4 bytes).
Definition wide_merge_int (mode : Z) (s : list Z) (v : Z) : list Z :=
  if (mode =? 4) && (v <? 998 + (hd 0 s) mod 5) then wide_ones
  else if (5 <=? mode) && (1 <=? v) && (v <=? 2) then gap_digest mode s v
  else wide_hash mode (wide_dbytes s ++ to_le_bytes 8 v).
Definition wide_hash_elems (mode : Z) (eb : nat) (elems : list Z) : list Z :=
  wide_hash mode (flat_map (to_le_bytes eb) elems).

Definition wide_coin_new (mode : Z) (eb : nat) := coin_new (list Z) (wide_hash_elems mode eb).
Definition wide_step (mode : Z) (c : coin (list Z)) (o : op (list Z)) :=
  step (list Z) (wide_merge mode) (wide_merge_int mode) wide_dbytes c o.
Definition wide_run (mode : Z) (c : coin (list Z)) (ops : list (op (list Z))) :=
  run (list Z) (wide_merge mode) (wide_merge_int mode) wide_dbytes c ops.
Definition wide_grind (mode : Z) (fuel : nat) (c : coin (list Z)) (gf : Z) :=
  grind (list Z) (wide_merge_int mode) wide_dbytes fuel c gf.
