(* C10 — twin of the get_root / verify_batch / into_paths part of Model/Merkle.v in which the fourteen
   defensive `return Err(MerkleTreeError::InvalidProof)` of crypto/src/merkle/proofs.rs that no input can
   reach return an ARBITRARY outcome [dead] instead of [Err InvalidProof]:

     site                                               get_root   into_paths / get_path   here
     leaves.len() <= index1 / index2 (three copies)     154 160 182     310 316 338        [gleafv_s]
     index_map has neither `index` nor `index + 1`      186             342                [gleaf_s]
     v.get(&sibling_index) of a merged neighbour        215             373                [gscan_s]
     v.get(&node_index)                                 230             387                [gstep_s]
     tree.get(&(index + (1 << depth)))                                  520                [get_path_s]
     tree.get(&(index ^ 1)) on the way up                               528                [get_path_up_s]

   Everything else is textually Model/Merkle.v (the shared pieces gnode0, gsib, all_consumed, map_indexes,
   normalize_indexes, ptm_leaves, mapM are reused).  Proofs/MerkleDead.v proves that these functions are EQUAL to
   the ones of Model/Merkle.v for every value of [dead], i.e. the branches are dead code; with [dead := Panic]
   and the totality theorems this says they are never executed.  No proofs here. *)
From Coq Require Import ZArith List Bool.
From VBase Require Import MachInt.
From VModel Require Import Merkle.
Import ListNotations.
Open Scope Z_scope.

Section Strict.
Variable D : Type.
Variable D_eqb : D -> D -> bool.
Variable merge : D -> D -> D.
Variable dead : forall A : Type, res A.

Definition gleafv_s (p : bproof D) (j : Z) : res D :=
  if zlen (bp_leaves p) <=? j then dead D else idx (bp_leaves p) j.

Definition gleaf_s (p : bproof D) (imap : bmap Z) (i index : Z) : res (D * D * Z) :=
  i1 <- uadd index 1 ;;
  match bt_get index imap with
  | Some index1 =>
    b0 <- gleafv_s p index1 ;;
    match bt_get i1 imap with
    | Some index2 => b1 <- gleafv_s p index2 ;; Ok (b0, b1, 0)
    | None => b1 <- gnode0 D p i ;; Ok (b0, b1, 1)
    end
  | None =>
    b0 <- gnode0 D p i ;;
    match bt_get i1 imap with
    | Some index2 => b1 <- gleafv_s p index2 ;; Ok (b0, b1, 1)
    | None => dead (D * D * Z)
    end
  end.

Fixpoint gfirst_s (p : bproof D) (imap : bmap Z) (offset : Z) (norm : list Z) (i : Z) (v ptm : bmap D)
  : res (bmap D * list Z * bmap D * list Z) :=
  match norm with
  | [] => Ok (v, [], ptm, [])
  | index :: rest =>
    '(b0, b1, ptr) <- gleaf_s p imap i index ;;
    let parent := merge b0 b1 in
    oi <- uadd offset index ;;
    let ptm1 := bt_insert (Z.lxor oi 1) b1 (bt_insert oi b0 ptm) in
    let pi := Z.shiftr oi 1 in
    let v1 := bt_insert pi parent v in
    let ptm2 := bt_insert pi parent ptm1 in
    '(vF, ptrs, ptmF, next) <- gfirst_s p imap offset rest (i + 1) v1 ptm2 ;;
    Ok (vF, ptr :: ptrs, ptmF, pi :: next)
  end.

Definition gstep_s (a : Z) (sibling : D) (v ptm : bmap D) : res (bmap D * bmap D * Z) :=
  match bt_get a v with
  | None => dead (bmap D * bmap D * Z)
  | Some node =>
    let ptm1 := bt_insert (Z.lxor a 1) sibling ptm in
    let parent := if negb (Z.land a 1 =? 0) then merge sibling node else merge node sibling in
    let pi := Z.shiftr a 1 in
    Ok (bt_insert pi parent v, bt_insert pi parent ptm1, pi)
  end.

Fixpoint gscan_s (pn : list (list D)) (I : list Z) (i : Z) (v : bmap D) (ptrs : list Z) (ptm : bmap D)
  : res (bmap D * list Z * bmap D * list Z) :=
  match I with
  | [] => Ok (v, ptrs, ptm, [])
  | a :: rest =>
    let sib := Z.lxor a 1 in
    match rest with
    | b :: rest' =>
      if b =? sib then
        match bt_get sib v with
        | None => dead (bmap D * list Z * bmap D * list Z)
        | Some s =>
          '(v1, ptm1, pi) <- gstep_s a s v ptm ;;
          '(vF, ptrsF, ptmF, next) <- gscan_s pn rest' (i + 2) v1 ptrs ptm1 ;;
          Ok (vF, ptrsF, ptmF, pi :: next)
        end
      else
        '(s, ptrs1) <- gsib D pn ptrs i ;;
        '(v1, ptm1, pi) <- gstep_s a s v ptm ;;
        '(vF, ptrsF, ptmF, next) <- gscan_s pn rest (i + 1) v1 ptrs1 ptm1 ;;
        Ok (vF, ptrsF, ptmF, pi :: next)
    | [] =>
      '(s, ptrs1) <- gsib D pn ptrs i ;;
      '(v1, ptm1, pi) <- gstep_s a s v ptm ;;
      '(vF, ptrsF, ptmF, next) <- gscan_s pn rest (i + 1) v1 ptrs1 ptm1 ;;
      Ok (vF, ptrsF, ptmF, pi :: next)
    end
  end.

Fixpoint glevels_s (k : nat) (pn : list (list D)) (I : list Z) (v : bmap D) (ptrs : list Z) (ptm : bmap D)
  : res (bmap D * list Z * bmap D) :=
  match k with
  | O => Ok (v, ptrs, ptm)
  | S k' => '(v1, ptrs1, ptm1, next) <- gscan_s pn I 0 v ptrs ptm ;; glevels_s k' pn next v1 ptrs1 ptm1
  end.

Definition gcore_s (p : bproof D) (indexes : list Z) (ptm0 : bmap D) : res (bmap D * bmap D) :=
  imap <- map_indexes indexes (bp_depth p) ;;
  let norm := normalize_indexes indexes in
  if negb (zlen norm =? zlen (bp_nodes p)) then Err InvalidProof else
  let offset := 2 ^ bp_depth p in
  '(v, ptrs, ptm, next) <- gfirst_s p imap offset norm 0 [] ptm0 ;;
  '(v', ptrs', ptm') <- glevels_s (Z.to_nat (bp_depth p - 1)) (bp_nodes p) next v ptrs ptm ;;
  if negb (all_consumed D ptrs' (bp_nodes p)) then Err InvalidProof else Ok (v', ptm').

Definition get_root_s (p : bproof D) (indexes : list Z) : res D :=
  match indexes with [] => Err TooFewLeafIndexes | _ =>
  if max_paths <? zlen indexes then Err (TooManyLeafIndexes max_paths (zlen indexes)) else
  if negb (zlen indexes =? zlen (bp_leaves p)) then Err InvalidProof else
  '(v, _) <- gcore_s p indexes [] ;;
  match bt_get 1 v with Some r => Ok r | None => Err InvalidProof end
  end.

Definition verify_batch_s (root : D) (indexes : list Z) (p : bproof D) : res unit :=
  r <- get_root_s p indexes ;;
  if D_eqb root r then Ok tt else Err InvalidProof.

Fixpoint get_path_up_s (fuel : nat) (tree : bmap D) (index : Z) : res (list D) :=
  if index <=? 1 then Ok [] else
  match fuel with
  | O => Panic
  | S f =>
    match bt_get (Z.lxor index 1) tree with
    | None => dead (list D)
    | Some x => r <- get_path_up_s f tree (Z.shiftr index 1) ;; Ok (x :: r)
    end
  end.

Definition get_path_s (index : Z) (tree : bmap D) (depth : Z) : res (list D) :=
  if 64 <=? depth then Panic else
  s <- uadd index (2 ^ depth) ;;
  match bt_get s tree with
  | None => dead (list D)
  | Some leaf => r <- get_path_up_s 64 tree s ;; Ok (leaf :: r)
  end.

Definition into_paths_s (p : bproof D) (indexes : list Z) : res (list (list D)) :=
  match indexes with [] => Err TooFewLeafIndexes | _ =>
  if max_paths <? zlen indexes then Err (TooManyLeafIndexes max_paths (zlen indexes)) else
  if negb (zlen indexes =? zlen (bp_leaves p)) then Err InvalidProof else
  '(_, ptm) <- gcore_s p indexes (ptm_leaves D (2 ^ bp_depth p) indexes (bp_leaves p) []) ;;
  mapM (fun i => get_path_s i ptm (bp_depth p)) indexes
  end.

End Strict.
